package crashq

import (
	"bytes"
	"encoding/hex"
	"fmt"
	"os"
	"sort"
	"strings"
	"testing"
	"time"

	"github.com/gnolang/gno/gno.land/pkg/gnoland"
	"github.com/gnolang/gno/tm2/pkg/amino"
	abci "github.com/gnolang/gno/tm2/pkg/bft/abci/types"
	bft "github.com/gnolang/gno/tm2/pkg/bft/types"
	dbm "github.com/gnolang/gno/tm2/pkg/db"
	"github.com/gnolang/gno/tm2/pkg/db/memdb"
	"github.com/gnolang/gno/tm2/pkg/sdk"
	"github.com/gnolang/gno/tm2/pkg/std"
	"github.com/gnolang/gno/tm2/pkg/store"
	stypes "github.com/gnolang/gno/tm2/pkg/store/types"
	"pgregory.net/rapid"
	ec "verif/eng/chain"
	"verif/vk"
)

// C27 — a crash during commit never leaves a torn state.
//
// A generated block history runs once, uncrashed, on the real gno.land
// application over a write-logging memdb (oplog.go). The log gives the W
// physical writes of the history (a DB batch = one atomic write). For EVERY
// k in [0, W] the disk image "process died after the k-th write" is rebuilt
// and a fresh application is opened on it; the recovery relation is the
// oracle (see c27Exec).

type c27Case struct {
	H       ec.History `json:"h"`
	Prune   string     `json:"prune"`   // everything | syncable | nothing
	Restart int        `json:"restart"` // restart the uncrashed app before block index i (-1 = never)
}

const c27Rule = "history = InitChain + library block + 3-5 generated blocks (each led by one surely state-changing tx) on the real gno.land app over a write-logging memdb, prune strategy drawn from everything/syncable/nothing, optional app restart inside the uncrashed run; crash points = EVERY prefix k in [0,W] of the W logged physical writes (exhaustive per history). Non-trivial: at least 3 distinct recovered heights among the crash points, at least one crash point recovering to a height strictly between 0 and the last one, and the continuation after it re-executes at least one block with a successful state-changing tx. Distinct = distinct (history, prune, restart)."

func c27Draw(rt *rapid.T) c27Case {
	c := c27Case{}
	c.H.NAcc = rapid.IntRange(2, 4).Draw(rt, "nacc")
	nb := rapid.IntRange(3, 5).Draw(rt, "nblocks")
	for b := 0; b < nb; b++ {
		blk := ec.HBlock{DT: int64(rapid.IntRange(1, 60).Draw(rt, "dt"))}
		// a state-changing transaction that surely succeeds
		lead := ec.HTx{Signer: rapid.IntRange(0, c.H.NAcc-1).Draw(rt, "lsigner"), Fee: 1_000_000, Gas: 60_000_000}
		switch rapid.IntRange(0, 2).Draw(rt, "lead") {
		case 0:
			lead.Msgs = []ec.HMsg{{Kind: "call", Pkg: ec.PathCtr, Fn: "Inc", Args: []string{"1"}}}
		case 1:
			lead.Msgs = []ec.HMsg{{Kind: "call", Pkg: ec.PathKV, Fn: "Push", Args: []string{"k", rapid.StringMatching("[x-z]{1,30}").Draw(rt, "v")}}}
		default:
			lead.Msgs = []ec.HMsg{{Kind: "send", To: rapid.IntRange(-3, c.H.NAcc-1).Draw(rt, "to"), Amt: 1000, Den: "ugnot"}}
		}
		blk.Txs = append(blk.Txs, lead)
		nt := rapid.IntRange(0, 2).Draw(rt, "ntx")
		for i := 0; i < nt; i++ {
			blk.Txs = append(blk.Txs, ec.DrawTx(rt, c.H.NAcc, 2))
		}
		c.H.Blocks = append(c.H.Blocks, blk)
	}
	c.Prune = rapid.SampledFrom([]string{"everything", "syncable", "everything", "syncable", "nothing"}).Draw(rt, "prune")
	c.Restart = rapid.SampledFrom([]int{-1, -1, 0, 1, 2}).Draw(rt, "restart")
	return c
}

// c27Ref is the uncrashed run.
type c27Ref struct {
	Log     *c27Log
	Opts    ec.Options
	NAcc    int
	T       []int64          // block time (seconds after T0) of block h (index h, h>=1)
	Raw     [][][]byte       // raw txs of block h
	Res     [][]ec.TxResult  // tx results of block h
	Hash    []string         // app hash after block h
	CID     []store.CommitID // LastCommitID after block h (index 0 = zero)
	Dump    []ec.Dump        // logical dump after block h (index 0 = empty DB)
	EndIdx  []int            // number of log writes once block h was committed (index 0: after InitChain)
	BeginIx []int            // number of log writes when block h began executing
	GoodTx  []bool           // block h holds a successful tx
}

func c27InitReq(o ec.Options, gen gnoland.GnoGenesisState) abci.RequestInitChain {
	return abci.RequestInitChain{
		Time:            ec.T0,
		ChainID:         ec.ChainID,
		ConsensusParams: &abci.ConsensusParams{Block: o.BlockParams()},
		Validators:      []abci.ValidatorUpdate{},
		AppState:        gen,
	}
}

// c27AppOptions mirrors eng/chain's option building (which is unexported).
func c27AppOptions(db dbm.DB, o ec.Options) *gnoland.AppOptions {
	ao := gnoland.TestAppOptions(db)
	ao.CacheStdlibLoad = true
	ao.GenesisTxResultHandler = gnoland.NoopGenesisTxResultHandler
	if o.Prune != "" {
		ao.PruneStrategy = o.Prune
	}
	ao.SkipGenesisSigVerification = true
	return ao
}

func c27DumpOf(l *c27Log, k int) (ec.Dump, store.CommitID, error) {
	return ec.DumpDB(c27Rebuild(l, k))
}

// c27RunRef executes the history uncrashed and records everything the
// recovery relation needs.
func c27RunRef(c c27Case) (*c27Ref, error) {
	ref := &c27Ref{Log: &c27Log{Phase: "init"}}
	ref.Opts = ec.Options{Prune: stypes.PruneStrategy(c.Prune)}
	keys := ec.Keys(c.H.NAcc)
	ref.NAcc = c.H.NAcc
	under := memdb.NewMemDB()
	db := c27Wrap(under, ref.Log)
	ch, _, err := ec.New(db, ec.GenesisWithBalances(1e13, keys...), ref.Opts)
	if err != nil {
		return nil, fmt.Errorf("harness: uncrashed InitChain failed: %v", err)
	}
	d0, cid0, err := c27DumpOf(ref.Log, len(ref.Log.Writes))
	if err != nil {
		return nil, fmt.Errorf("harness: dump after InitChain: %v", err)
	}
	ref.T = []int64{0}
	ref.Raw = [][][]byte{nil}
	ref.Res = [][]ec.TxResult{nil}
	ref.Hash = []string{""}
	ref.CID = []store.CommitID{cid0}
	ref.Dump = []ec.Dump{d0}
	ref.EndIdx = []int{len(ref.Log.Writes)}
	ref.BeginIx = []int{0}
	ref.GoodTx = []bool{false}

	t := int64(1)
	endBlock := func(raw [][]byte, res []ec.TxResult) error {
		h := len(ref.Hash)
		ref.Log.Phase = fmt.Sprintf("commit%d", h)
		_, hash := ch.End()
		ref.Log.Phase = fmt.Sprintf("after%d", h)
		ref.T = append(ref.T, t)
		ref.Raw = append(ref.Raw, raw)
		ref.Res = append(ref.Res, res)
		ref.Hash = append(ref.Hash, hex.EncodeToString(hash))
		ref.CID = append(ref.CID, ch.App.LastCommitID())
		ref.EndIdx = append(ref.EndIdx, len(ref.Log.Writes))
		d, cid, err := c27DumpOf(ref.Log, len(ref.Log.Writes))
		if err != nil {
			return fmt.Errorf("harness: dump after block %d: %v", h, err)
		}
		if !cid.Equals(ch.App.LastCommitID()) {
			return fmt.Errorf("harness: independent reader sees commit id %v, app reports %v after block %d", cid, ch.App.LastCommitID(), h)
		}
		ref.Dump = append(ref.Dump, d)
		good := false
		for _, r := range res {
			good = good || r.OK()
		}
		ref.GoodTx = append(ref.GoodTx, good)
		return nil
	}
	// block 1: library realms
	ref.Log.Phase = "exec1"
	ref.BeginIx = append(ref.BeginIx, len(ref.Log.Writes))
	ch.Begin(t)
	var raw [][]byte
	var res []ec.TxResult
	for _, r := range ec.Realms {
		rr, tx, err := ch.Send([]std.Msg{ec.AddPkg(keys[0].Addr, r.Path, map[string]string{"a.gno": r.Src}, nil)}, 50_000_000, 1_000_000, keys[0])
		if err != nil {
			return nil, fmt.Errorf("harness: %v", err)
		}
		if rr.Error != nil {
			return nil, fmt.Errorf("harness: library realm %s failed to deploy: %v %s", r.Path, rr.Error, rr.Log)
		}
		raw = append(raw, tx)
		res = append(res, c27Result(rr))
	}
	if err := endBlock(raw, res); err != nil {
		return nil, err
	}
	for bi, blk := range c.H.Blocks {
		h := len(ref.Hash)
		if bi == c.Restart {
			ref.Log.Phase = fmt.Sprintf("restart%d", h)
			if err := ch.Restart(); err != nil {
				return nil, fmt.Errorf("uncrashed run: restart before block %d failed: %v", h, err)
			}
		}
		ref.Log.Phase = fmt.Sprintf("exec%d", h)
		ref.BeginIx = append(ref.BeginIx, len(ref.Log.Writes))
		t += blk.DT
		ch.Begin(t)
		raw, res = nil, nil
		for _, tx := range blk.Txs {
			k := keys[tx.Signer%len(keys)]
			msgs := make([]std.Msg, len(tx.Msgs))
			for i, m := range tx.Msgs {
				msgs[i] = m.Build(k.Addr, keys)
			}
			rr, txb, err := ch.Send(msgs, tx.Gas, tx.Fee, k)
			if err != nil {
				return nil, fmt.Errorf("harness: %v", err)
			}
			raw = append(raw, txb)
			res = append(res, c27Result(rr))
		}
		if err := endBlock(raw, res); err != nil {
			return nil, err
		}
	}
	// self-check of the wrapper: the log reproduces the underlying DB
	full := c27Rebuild(ref.Log, len(ref.Log.Writes))
	if d := c27RawDiff(full, under); d != "" {
		return nil, fmt.Errorf("harness: write log does not reproduce the DB: %s", d)
	}
	return ref, nil
}

func c27RawMap(db dbm.DB) map[string][]byte {
	out := map[string][]byte{}
	it, err := db.Iterator(nil, nil)
	if err != nil {
		panic(err)
	}
	defer it.Close()
	for ; it.Valid(); it.Next() {
		out[string(it.Key())] = c27cp(it.Value())
	}
	return out
}

func c27RawDiff(a, b dbm.DB) string {
	ma, mb := c27RawMap(a), c27RawMap(b)
	var ks []string
	for k := range ma {
		ks = append(ks, k)
	}
	for k := range mb {
		if _, ok := ma[k]; !ok {
			ks = append(ks, k)
		}
	}
	sort.Strings(ks)
	n := 0
	var sb strings.Builder
	for _, k := range ks {
		va, oka := ma[k]
		vb, okb := mb[k]
		if oka == okb && bytes.Equal(va, vb) {
			continue
		}
		n++
		if n <= 4 {
			fmt.Fprintf(&sb, "[%q A:%v/%d bytes B:%v/%d bytes] ", k, oka, len(va), okb, len(vb))
		}
	}
	if n == 0 {
		return ""
	}
	return fmt.Sprintf("%d raw keys differ: %s", n, sb.String())
}

// c27Result flattens a DeliverTx response; the log text is dropped because it
// embeds Go stack traces (harness frames differ between runs).
func c27Result(r abci.ResponseDeliverTx) ec.TxResult {
	out := ec.ResultOf(r)
	out.Log = ""
	return out
}

// c27Open builds a fresh application over db the way a node process starts
// (no InitChain). A panic while opening is returned as an error.
func c27Open(db dbm.DB, o ec.Options) (app *sdk.BaseApp, err error) {
	defer func() {
		if p := recover(); p != nil {
			err = fmt.Errorf("panic while opening the application: %v", p)
		}
	}()
	a, err := gnoland.NewAppWithOptions(c27AppOptions(db, o))
	if err != nil {
		return nil, err
	}
	return a.(*sdk.BaseApp), nil
}

// c27CheckPoint verifies the recovery relation for crash point k and returns
// the recovered height.
func c27CheckPoint(ref *c27Ref, k int) (int, error) {
	last := len(ref.Hash) - 1
	w := "none (k = W)"
	if k < len(ref.Log.Writes) {
		w = fmt.Sprintf("%s in phase %s (%d ops)", ref.Log.Writes[k].Kind, ref.Log.Writes[k].Phase, len(ref.Log.Writes[k].Ops))
	}
	where := fmt.Sprintf("crash after write %d of %d (next write: %s)", k, len(ref.Log.Writes), w)

	// 1. independent reader over the crashed image
	dump, rcid, err := c27DumpOf(ref.Log, k)
	if err != nil {
		return 0, fmt.Errorf("%s: the crashed database cannot be loaded by an independent multistore: %v", where, err)
	}
	// 2. fresh application over the crashed image
	db := c27Rebuild(ref.Log, k)
	app, err := c27Open(db, ref.Opts)
	if err != nil {
		return 0, fmt.Errorf("%s: a fresh application cannot open the crashed database: %v", where, err)
	}
	cid := app.LastCommitID()
	if !cid.Equals(rcid) {
		return 0, fmt.Errorf("%s: application reports LastCommitID %v, independent reader %v", where, cid, rcid)
	}
	h := -1
	for i := range ref.CID {
		if ref.CID[i].Equals(cid) {
			h = i
		}
	}
	if h < 0 {
		return 0, fmt.Errorf("%s: reopened LastCommitID %v (height %d) is not the commit id of any committed height of the uncrashed run", where, cid, app.LastBlockHeight())
	}
	if app.LastBlockHeight() != int64(h) {
		return 0, fmt.Errorf("%s: LastBlockHeight %d but commit id of height %d", where, app.LastBlockHeight(), h)
	}
	// previous committed version or the new one: done <= h <= begun
	// EndIdx[i] = number of writes logged when the commit of block i returned.
	// done: every write up to the end of commit i is on disk, so height i is
	// durable. begun: at least one write issued after the commit of i-1
	// returned is on disk, so (at most) block i can be the new version.
	done, begun := 0, 0
	for i := 1; i <= last; i++ {
		if ref.EndIdx[i] <= k {
			done = i
		}
		if k > ref.EndIdx[i-1] {
			begun = i
		}
	}
	if begun < done {
		begun = done
	}
	if h < done {
		return h, fmt.Errorf("%s: reopened at height %d although height %d had been durably committed", where, h, done)
	}
	if h > begun {
		return h, fmt.Errorf("%s: reopened at height %d although only block %d could have been under way", where, h, begun)
	}
	// 3. contents = uncrashed contents at h
	if d := ec.Diff(dump, ref.Dump[h], nil); d != "" {
		return h, fmt.Errorf("%s: reopened at height %d but the committed contents differ from the uncrashed run at that height (A=crashed, B=uncrashed):\n%s", where, h, d)
	}
	// 3b. the persisted last block header (base store, outside the VM key
	// space of the dump) belongs to the same height
	hb, _ := db.Get([]byte("s/_/last_header"))
	if h == 0 && hb != nil {
		return h, fmt.Errorf("%s: reopened at height 0 but a last block header is persisted", where)
	}
	if h > 0 {
		var hdr bft.Header
		if hb == nil {
			return h, fmt.Errorf("%s: reopened at height %d but no last block header is persisted", where, h)
		}
		if err := amino.Unmarshal(hb, &hdr); err != nil {
			return h, fmt.Errorf("%s: persisted last block header does not decode: %v", where, err)
		}
		if hdr.Height != int64(h) {
			return h, fmt.Errorf("%s: reopened at height %d but the persisted last block header is of height %d", where, h, hdr.Height)
		}
	}
	// 4. the chain continues from it with the same hashes and results
	c := &ec.Chain{DB: db, App: app, Opts: ref.Opts, Height: int64(h)}
	if h == 0 {
		res := app.InitChain(c27InitReq(ref.Opts, ec.GenesisWithBalances(1e13, ec.Keys(ref.NAcc)...)))
		if res.Error != nil {
			return h, fmt.Errorf("%s: InitChain on the recovered (height 0) database failed: %v", where, res.Error)
		}
	}
	for b := h + 1; b <= last; b++ {
		c.Begin(ref.T[b])
		for i, tx := range ref.Raw[b] {
			r := c27Result(c.Deliver(tx))
			if r != ref.Res[b][i] {
				return h, fmt.Errorf("%s: continuing from height %d, block %d tx %d result differs from the uncrashed run:\n crashed  =%+v\n uncrashed=%+v", where, h, b, i, r, ref.Res[b][i])
			}
		}
		_, hash := c.End()
		if hex.EncodeToString(hash) != ref.Hash[b] {
			return h, fmt.Errorf("%s: continuing from height %d, block %d app hash %X differs from the uncrashed %s", where, h, b, hash, ref.Hash[b])
		}
	}
	fin, err := c.Dump()
	if err != nil {
		return h, fmt.Errorf("%s: dump after continuation: %v", where, err)
	}
	if d := ec.Diff(fin, ref.Dump[last], nil); d != "" {
		return h, fmt.Errorf("%s: after continuing from height %d to %d the contents differ from the uncrashed run (A=crashed+continued, B=uncrashed):\n%s", where, h, last, d)
	}
	return h, nil
}

var c27Verbose = os.Getenv("C27_VERBOSE") != ""

func c27Exec(ctx *vk.Ctx, c c27Case) error {
	switch c.Prune {
	case "everything", "syncable", "nothing":
	default:
		return nil // not a case the generator produces
	}
	if c.H.NAcc < 1 || len(c.H.Blocks) == 0 {
		return nil
	}
	t0 := time.Now()
	ref, err := c27RunRef(c)
	if err != nil {
		return err
	}
	W := len(ref.Log.Writes)
	last := len(ref.Hash) - 1
	// classify the writes
	commits, outside, inWindow := 0, 0, 0
	perPhase := map[string]int{}
	for _, w := range ref.Log.Writes {
		perPhase[w.Phase]++
		if strings.HasPrefix(w.Phase, "commit") {
			commits++
		} else {
			outside++
		}
	}
	for _, n := range perPhase {
		if n > 1 {
			inWindow += n - 1
		}
	}
	if c27Verbose {
		fmt.Printf("C27 history: blocks=%d W=%d writes/phase=%v ref=%.1fs\n", last, W, perPhase, time.Since(t0).Seconds())
	}
	ctx.Note("W", W)
	ctx.Note("writes_in_commit", commits)
	ctx.Note("writes_outside_commit", outside)
	ctx.Class("prune=" + c.Prune)
	ctx.ClassIf(c.Restart >= 0 && c.Restart < len(c.H.Blocks), "uncrashed-run-restarts")
	ctx.ClassIf(outside > 0, "history-has-writes-outside-commit")
	ctx.ClassIf(inWindow > 0, "history-has-crash-point-strictly-inside-a-commit-window")
	ctx.ClassIf(inWindow == 0, "one-physical-write-per-commit")

	heights := map[int]bool{}
	midOK := false
	for k := 0; k <= W; k++ {
		h, err := c27CheckPoint(ref, k)
		if err != nil {
			return err
		}
		heights[h] = true
		ctx.ClassIf(c27RawDiff(c27Rebuild(ref.Log, k), c27Rebuild(ref.Log, ref.EndIdx[h])) == "", "crash-image-byte-identical-to-uncrashed-image-at-h")
		ctx.Class("crash-points")
		if h > 0 && h < last {
			for b := h + 1; b <= last; b++ {
				midOK = midOK || ref.GoodTx[b]
			}
		}
	}
	ctx.Note("recovered_heights", len(heights))
	ctx.NTIf(len(heights) >= 3 && midOK)
	if c27Verbose {
		fmt.Printf("C27 history done: %d crash points, %d recovered heights, %.1fs\n", W+1, len(heights), time.Since(t0).Seconds())
	}
	return nil
}

func TestC27_CrashPoints(t *testing.T) {
	vk.Run(t, vk.Spec[c27Case]{
		ID: "C27", Name: "TestC27_CrashPoints", Rule: c27Rule,
		Draw: c27Draw, Exec: c27Exec,
		Setup: func(r *vk.Rec) { r.Extra("exhaustive_per_history", true) },
	})
}

