package crashqrace

import "time"

func yieldABit() { time.Sleep(200 * time.Microsecond) }
