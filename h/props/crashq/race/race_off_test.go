//go:build !race

package crashqrace

const raceEnabled = false
