// Package crashqrace holds the free-running supplement of C28: consensus and
// several query goroutines hammer the real gno.land application without any
// harness scheduling, in a binary built with -race (registered with
// "race": true, thorough tier only). Any data race reported by the detector,
// any panic, any consensus divergence from the query-free run and any answer
// that is not the answer of one single committed height is a violation;
// silence proves nothing beyond the interleavings that happened to occur.
package crashqrace

import (
	"fmt"
	"sync"
	"sync/atomic"
	"testing"

	"pgregory.net/rapid"
	cq "verif/props/crashq"
	"verif/vk"
)

type c28rCase struct {
	C     cq.C28Case `json:"c"`
	NQ    int        `json:"nq"`    // query goroutines
	Burst int        `json:"burst"` // queries per goroutine per block (lower bound; they run free)
}

const c28rRule = "history = realm-deployment block + 15-40 generated blocks (1-3 txs, at least one Tick) on the real gno.land app over memdb or pebbledb; 2-4 free-running query goroutines cycle through a drawn plan (vm/qeval, vm/qrender, vm/qfile, qeval of deployed packages, auth/accounts and .store with/without height, .app/simulate of a Tick and of txs drawn from the block grammar incl. colliding deployments) while the consensus goroutine executes the blocks; binary built with -race. Non-trivial: at least 20 successful answers of which at least one belongs to a height below the commit under way when it returned. Distinct = distinct (history, plan)."

func c28rDraw(rt *rapid.T) c28rCase {
	c := cq.C28Case{NAcc: rapid.IntRange(2, 4).Draw(rt, "nacc")}
	c.Prune = rapid.SampledFrom([]string{"syncable", "nothing", "everything"}).Draw(rt, "prune")
	c.Backend = rapid.SampledFrom([]string{"memdb", "pebbledb"}).Draw(rt, "db")
	nb := rapid.IntRange(15, 40).Draw(rt, "nblocks")
	npkg := 0
	for b := 0; b < nb; b++ {
		blk := cq.C28Block{DT: int64(rapid.IntRange(1, 30).Draw(rt, "dt"))}
		blk.Txs = append(blk.Txs, cq.C28Tx{Kind: "tick", Signer: rapid.IntRange(0, c.NAcc-1).Draw(rt, "s")})
		nt := rapid.IntRange(0, 2).Draw(rt, "ntx")
		for i := 0; i < nt; i++ {
			tx := cq.C28Tx{Signer: rapid.IntRange(0, c.NAcc-1).Draw(rt, "s")}
			switch rapid.IntRange(0, 8).Draw(rt, "kind") {
			case 0, 1:
				tx.Kind = "tick"
			case 2, 3:
				tx.Kind = "send"
				tx.To = rapid.IntRange(0, c.NAcc-1).Draw(rt, "to")
				tx.Amt = rapid.Int64Range(1, 5000).Draw(rt, "amt")
			case 4, 5:
				tx.Kind = "kvset"
				tx.Key = rapid.SampledFrom([]string{"a", "b"}).Draw(rt, "key")
			default:
				if npkg < 4 && (npkg == 0 || rapid.Bool().Draw(rt, "deploy")) {
					tx.Kind = "addpkg"
					npkg++
				} else {
					tx.Kind = "pkgcall"
					tx.Pkg = rapid.IntRange(0, npkg-1).Draw(rt, "pkg")
				}
			}
			blk.Txs = append(blk.Txs, tx)
		}
		c.Blocks = append(c.Blocks, blk)
	}
	nq := rapid.IntRange(4, 10).Draw(rt, "plan")
	for i := 0; i < nq; i++ {
		q := cq.C28Query{}
		switch qk := rapid.IntRange(0, 14).Draw(rt, "qk"); qk {
		case 10, 11, 12, 13:
			// a simulation drawn from the block grammar (own tx / other sender,
			// colliding deployment / MsgRun), tied to a tx of the history
			q.Kind = "simtx"
			q.B = rapid.IntRange(0, len(c.Blocks)-1).Draw(rt, "b")
			q.I = rapid.IntRange(0, len(c.Blocks[q.B].Txs)-1).Draw(rt, "i")
			q.Var = rapid.IntRange(0, 2).Draw(rt, "var")
		case 14:
			q.Kind = "pkgeval"
			q.Pkg = rapid.IntRange(0, 3).Draw(rt, "pkg")
		case 0, 1, 2:
			q.Kind = "snap"
		case 3:
			q.Kind = "render"
		case 4:
			q.Kind = "kv"
			q.Key = rapid.SampledFrom([]string{"a", "b"}).Draw(rt, "key")
		case 5:
			q.Kind = "qfile"
			q.Pkg = rapid.IntRange(-1, 3).Draw(rt, "pkg")
		case 6:
			q.Kind = "acct"
			q.Acc = rapid.IntRange(0, c.NAcc-1).Draw(rt, "acc")
			q.HSel = rapid.IntRange(0, 40).Draw(rt, "h")
		case 7:
			q.Kind = "store"
			q.Acc = rapid.IntRange(0, c.NAcc-1).Draw(rt, "acc")
			q.HSel = rapid.IntRange(0, 40).Draw(rt, "h")
		default:
			q.Kind = "sim"
		}
		c.Queries = append(c.Queries, q)
	}
	return c28rCase{C: c, NQ: rapid.IntRange(2, 4).Draw(rt, "nq"), Burst: rapid.IntRange(1, 4).Draw(rt, "burst")}
}

type c28rObs struct {
	q      cq.C28Query
	a      cq.C28Answer
	lo, hi int
}

func c28rExec(t *testing.T) func(ctx *vk.Ctx, rc c28rCase) error {
	return func(ctx *vk.Ctx, rc c28rCase) error {
		c := rc.C
		if !c.Valid() || len(c.Queries) == 0 || rc.NQ < 1 || rc.NQ > 8 {
			return nil
		}
		ref, err := cq.C28RunRef(c)
		if err != nil {
			return err
		}
		db, cleanup, err := cq.C28OpenDB(c)
		if err != nil {
			t.Fatalf("INCONCLUSIVE harness: cannot open %s: %v", c.Backend, err)
		}
		defer cleanup()
		app, err := cq.C28Boot(db, c, ref)
		if err != nil {
			return err
		}
		defer func() {
			defer func() { recover() }()
			app.Close()
		}()
		obs := &cq.C28Obs{}
		var entered, done atomic.Int64
		entered.Store(1)
		done.Store(1)
		var stop atomic.Bool
		var mu sync.Mutex
		var all []c28rObs
		var consPanic any
		var perBlock atomic.Int64
		raceFree := t.Run("free-running", func(st *testing.T) {
			var wg sync.WaitGroup
			for g := 0; g < rc.NQ; g++ {
				wg.Add(1)
				go func(g int) {
					defer wg.Done()
					var mine []c28rObs
					for i := g; !stop.Load() && len(mine) < 4000; i++ {
						q := c.Queries[i%len(c.Queries)]
						lo := int(done.Load())
						a := cq.C28Ask(app, q, c, ref)
						hi := int(entered.Load())
						mine = append(mine, c28rObs{q, a, lo, hi})
						perBlock.Add(1)
					}
					mu.Lock()
					all = append(all, mine...)
					mu.Unlock()
				}(g)
			}
			func() {
				defer func() { consPanic = recover() }()
				for h := 2; h <= ref.Last; h++ {
					// let the query side get some work in per block
					for n := 0; perBlock.Load() < int64(rc.Burst*rc.NQ) && n < 2000; n++ {
						yieldABit()
					}
					perBlock.Store(0)
					hash, res := cq.C28ConsBlock(app, ref, h, func() {},
						func(h int) { entered.Store(int64(h)) }, func(h int) { done.Store(int64(h)) })
					obs.Hash = append(obs.Hash, hash)
					obs.Res = append(obs.Res, res)
				}
			}()
			stop.Store(true)
			wg.Wait()
		})
		if consPanic != nil {
			return fmt.Errorf("consensus goroutine panicked while queries ran concurrently: %v", consPanic)
		}
		if err := cq.C28CompareCons(ref, obs); err != nil {
			return err
		}
		ok, older := 0, 0
		for i, o := range all {
			h, err := cq.C28Check(ref, c, o.q, o.a, o.lo, o.hi)
			if _, isMix := err.(*cq.C28Mix); isMix && ctx.Known(cq.C28KeyStaleHeight) {
				ctx.Class("known:" + cq.C28KeyStaleHeight)
				continue
			}
			if _, isLive := err.(*cq.C28LiveRace); isLive && ctx.Known(cq.C28KeyLiveFallback) {
				ctx.Class("known:" + cq.C28KeyLiveFallback)
				continue
			}
			if err != nil {
				return fmt.Errorf("free-running query %d of %d (window [%d,%d]): %v", i, len(all), o.lo, o.hi, err)
			}
			if o.a.OK() {
				ok++
				if o.q.Height(c) == 0 && h < o.hi {
					older++
				}
			}
		}
		if !raceFree {
			return fmt.Errorf("the race detector reported a data race while consensus and %d query goroutines ran (see the worker output for the report)", rc.NQ)
		}
		ctx.Note("answers", len(all))
		ctx.Note("ok_answers", ok)
		ctx.Note("older_height_answers", older)
		ctx.Class("db=" + c.Backend)
		ctx.ClassIf(older > 0, "answer-of-older-height")
		ctx.NTIf(ok >= 20 && older > 0)
		return nil
	}
}

func TestC28_RaceStress(t *testing.T) {
	vk.Run(t, vk.Spec[c28rCase]{
		ID: "C28", Name: "TestC28_RaceStress", Rule: c28rRule,
		Draw: c28rDraw, Exec: c28rExec(t),
		Setup: func(r *vk.Rec) { r.Extra("race_detector", raceEnabled) },
	})
}
