package crashq

// C28 library: case data, realm, reference (query-free) run, query execution
// and the answer oracle. Shared by the gate-scheduled test (this package) and
// the free-running -race stress (package props/crashq/race).

import (
	"bytes"
	"encoding/hex"
	"fmt"
	"os"
	"regexp"
	"strconv"
	"strings"
	"time"

	"github.com/gnolang/gno/gno.land/pkg/gnoland"
	"github.com/gnolang/gno/gno.land/pkg/sdk/vm"
	"github.com/gnolang/gno/tm2/pkg/amino"
	abci "github.com/gnolang/gno/tm2/pkg/bft/abci/types"
	bft "github.com/gnolang/gno/tm2/pkg/bft/types"
	dbm "github.com/gnolang/gno/tm2/pkg/db"
	"github.com/gnolang/gno/tm2/pkg/db/memdb"
	"github.com/gnolang/gno/tm2/pkg/sdk"
	"github.com/gnolang/gno/tm2/pkg/sdk/bank"
	"github.com/gnolang/gno/tm2/pkg/std"
	stypes "github.com/gnolang/gno/tm2/pkg/store/types"
	ec "verif/eng/chain"
)

const C28Path = "gno.land/r/vv/q28"

// C28Realm: N and len(Hist) live in the GnoVM object store ("base", not
// versioned), the realm's coin balance lives in the versioned main store.
// Every successful Tick (sent with 1000ugnot) moves all three in lockstep, so
// Snap() is a one-line witness of "one committed height" across both stores.
const C28Realm = `package q28

import (
	"chain"
	"chain/banker"
)

var N int
var Hist []int

func Tick(cur realm) string {
	N++
	Hist = append(Hist, N)
	return Snap()
}

func Snap() string {
	b := banker.NewReadonlyBanker().GetCoins(chain.PackageAddress("gno.land/r/vv/q28"))
	return "N=" + itoa(N) + ";L=" + itoa(len(Hist)) + ";B=" + itoa(int(b.AmountOf("ugnot")))
}

func itoa(n int) string {
	if n == 0 {
		return "0"
	}
	s := ""
	for n > 0 {
		s = string(rune('0'+n%10)) + s
		n /= 10
	}
	return s
}

func Render(path string) string { return Snap() }
`

// C28Tx is one generated transaction.
type C28Tx struct {
	Kind   string `json:"k"` // tick | send | kvset | addpkg | pkgcall
	Signer int    `json:"s"`
	To     int    `json:"to,omitempty"`
	Amt    int64  `json:"amt,omitempty"`
	Key    string `json:"key,omitempty"`
	Pkg    int    `json:"pkg,omitempty"` // pkgcall: selects one of the packages deployed so far
}

type C28Block struct {
	DT  int64   `json:"dt"`
	Txs []C28Tx `json:"txs"`
}

// C28Query is one generated query.
//
//	snap   vm/qeval  q28.Snap()
//	render vm/qrender q28:
//	kv     vm/qeval  kv.Get(Key)             (package-loading eval of another realm)
//	qfile  vm/qfile  gno.land/r/vv/g<Pkg>/a.gno (package deployed by the Pkg-th addpkg tx; Pkg<0: the witness realm)
//	acct   auth/accounts/<addr of Acc>        (HSel>0: at an explicit height)
//	store  .store/main/key /a/<addr of Acc>   (HSel>0: at an explicit height)
//	sim    .app/simulate of a Tick tx of the dedicated simulate account
//	pkgeval vm/qeval g<Pkg>.Get()             (reads a package deployed by a block)
//	simtx  .app/simulate of a tx drawn from the block grammar, tied to tx I of
//	       block B of the history:
//	         Var 0: the block's own signed tx, byte for byte
//	         Var 1: the same message sent by the simulate account; for an
//	                addpkg the SAME path with a DIFFERENT body
//	         Var 2: a MsgRun script performing the same realm mutation
//	                (tick/kvset/pkgcall); for an addpkg the same path and body
type C28Query struct {
	Kind string `json:"k"`
	Acc  int    `json:"acc,omitempty"`
	Key  string `json:"key,omitempty"`
	Pkg  int    `json:"pkg,omitempty"`
	HSel int    `json:"h,omitempty"` // 0: no height; >0: explicit height 1+((HSel-1) mod (nblocks+1))
	B    int    `json:"b,omitempty"` // simtx: block index
	I    int    `json:"i,omitempty"` // simtx: tx index
	Var  int    `json:"var,omitempty"`
}

type C28Case struct {
	NAcc    int        `json:"nacc"`
	Prune   string     `json:"prune"`
	Backend string     `json:"db"` // memdb | pebbledb
	Blocks  []C28Block `json:"blocks"`
	Queries []C28Query `json:"queries"`
	Sched   []C28Seg   `json:"sched"`
}

func (c C28Case) Valid() bool {
	if c.NAcc < 1 || c.NAcc > 8 || len(c.Blocks) == 0 {
		return false
	}
	switch c.Prune {
	case "everything", "syncable", "nothing":
	default:
		return false
	}
	switch c.Backend {
	case "memdb", "pebbledb":
	default:
		return false
	}
	for _, b := range c.Blocks {
		for _, t := range b.Txs {
			switch t.Kind {
			case "tick", "send", "kvset", "addpkg", "pkgcall":
			default:
				return false
			}
		}
	}
	for _, q := range c.Queries {
		switch q.Kind {
		case "snap", "render", "kv", "qfile", "acct", "store", "sim", "pkgeval":
		case "simtx":
			if q.B < 0 || q.B >= len(c.Blocks) || q.I < 0 || q.I >= len(c.Blocks[q.B].Txs) || q.Var < 0 || q.Var > 2 {
				return false
			}
		default:
			return false
		}
	}
	return true
}

// QKey identifies the height-independent part of a query.
func (q C28Query) QKey() string {
	switch q.Kind {
	case "kv":
		return "kv:" + q.Key
	case "qfile":
		return "qfile:" + strconv.Itoa(q.Pkg)
	case "acct", "store":
		return q.Kind + ":" + strconv.Itoa(q.Acc)
	case "pkgeval":
		return "pkgeval:" + strconv.Itoa(q.Pkg)
	case "simtx":
		return fmt.Sprintf("simtx:%d:%d:%d", q.B, q.I, q.Var)
	}
	return q.Kind
}

// Height returns the explicit request height (0 = none).
func (q C28Query) Height(c C28Case) int64 {
	if q.HSel <= 0 || (q.Kind != "acct" && q.Kind != "store") {
		return 0
	}
	return int64(1 + (q.HSel-1)%(len(c.Blocks)+1))
}

var c28SimKey = ec.NewKey("c28-sim")

func c28Keys(c C28Case) []ec.Key { return ec.Keys(c.NAcc) }

func c28Addr(c C28Case, i int) ec.Key {
	ks := c28Keys(c)
	if i < 0 {
		i = -i
	}
	return ks[i%len(ks)]
}

func c28GenPkgPath(i int) string { return "gno.land/r/vv/g" + strconv.Itoa(i) }

// Request builds the ABCI request of a query.
func (q C28Query) Request(c C28Case, ref *C28Ref) abci.RequestQuery {
	switch q.Kind {
	case "snap":
		return abci.RequestQuery{Path: "vm/qeval", Data: []byte(C28Path + ".Snap()")}
	case "render":
		return abci.RequestQuery{Path: "vm/qrender", Data: []byte(C28Path + ":")}
	case "kv":
		return abci.RequestQuery{Path: "vm/qeval", Data: []byte(ec.PathKV + ".Get(\"" + q.Key + "\")")}
	case "qfile":
		if q.Pkg < 0 { // the witness realm's own source
			return abci.RequestQuery{Path: "vm/qfile", Data: []byte(C28Path + "/a.gno")}
		}
		return abci.RequestQuery{Path: "vm/qfile", Data: []byte(c28GenPkgPath(q.Pkg) + "/a.gno")}
	case "acct":
		return abci.RequestQuery{Path: "auth/accounts/" + c28Addr(c, q.Acc).Addr.String(), Height: q.Height(c)}
	case "store":
		return abci.RequestQuery{Path: ".store/main/key", Data: append([]byte("/a/"), c28Addr(c, q.Acc).Addr.Bytes()...), Height: q.Height(c)}
	case "sim":
		return abci.RequestQuery{Path: ".app/simulate", Data: ref.SimTx}
	case "simtx":
		return abci.RequestQuery{Path: ".app/simulate", Data: ref.SimTxs[q.QKey()]}
	case "pkgeval":
		p := q.Pkg
		if p < 0 {
			p = -p
		}
		return abci.RequestQuery{Path: "vm/qeval", Data: []byte(c28GenPkgPath(p) + ".Get()")}
	}
	panic("bad query kind " + q.Kind)
}

// C28Answer is a normalised query response.
type C28Answer struct {
	Err    string `json:"err,omitempty"`
	Data   string `json:"data"`
	Height int64  `json:"height,omitempty"` // height reported by the response (0 = none)
}

func (a C28Answer) OK() bool { return a.Err == "" }

// C28Ask runs one query against the application. A panic escaping Query is
// reported as an error string starting with "PANIC".
func C28Ask(app *sdk.BaseApp, q C28Query, c C28Case, ref *C28Ref) (ans C28Answer) {
	defer func() {
		if p := recover(); p != nil {
			ans = C28Answer{Err: fmt.Sprintf("PANIC %v", p)}
		}
	}()
	r := app.Query(q.Request(c, ref))
	if r.Error != nil {
		return C28Answer{Err: fmt.Sprintf("%T", r.Error)}
	}
	switch q.Kind {
	case "store":
		if len(r.Value) == 0 && r.Log != "" {
			// the store signals "version does not exist" through the log only
			return C28Answer{Err: "log-only: " + strings.SplitN(r.Log, "\n", 2)[0]}
		}
		return C28Answer{Data: hex.EncodeToString(r.Value), Height: r.Height}
	case "sim", "simtx":
		var res sdk.Result
		if err := amino.Unmarshal(r.Value, &res); err != nil {
			return C28Answer{Err: "undecodable simulate result: " + err.Error()}
		}
		if res.Error != nil {
			return C28Answer{Err: fmt.Sprintf("%T", res.Error)}
		}
		return C28Answer{Data: string(res.Data)}
	}
	return C28Answer{Data: string(r.Data), Height: r.Height}
}

// C28Ref is the query-free reference run.
type C28Ref struct {
	Raw    [][][]byte              // raw txs of block h (index = height; 0,1 unused / deploy)
	T      []int64                 // block times
	Res    [][]ec.TxResult         // tx results per height
	Hash   []string                // app hash per height
	Ans    map[string][]C28Answer  // QKey -> answer at height h (sequential, after commit h)
	Ticks  []int                   // successful ticks up to and including height h
	Seq    []map[int]uint64        // model: sequence of account i at height h
	SimTx  []byte
	SimTxs map[string][]byte // QKey of a simtx query -> tx bytes
	Last   int
	AccRaw []map[int]string // hex raw account record at height h through the independent reader
}

func c28Result(r abci.ResponseDeliverTx) ec.TxResult {
	out := ec.ResultOf(r)
	out.Log = ""
	return out
}

// C28Model returns the Snap() string of a height.
func (r *C28Ref) Model(h int) string {
	n := r.Ticks[h]
	return fmt.Sprintf("N=%d;L=%d;B=%d", n, n, 1000*n)
}

func c28Opts(c C28Case) ec.Options { return ec.Options{Prune: stypes.PruneStrategy(c.Prune)} }

// c28TxInfo is the position-dependent data of a generated tx.
type c28TxInfo struct {
	Ctr    int // running tx number (1-based)
	PkgIdx int // addpkg: index of the deployed package
	Target int // pkgcall: index of the called package
}

// c28Layout numbers the transactions of the history.
func c28Layout(c C28Case) [][]c28TxInfo {
	out := make([][]c28TxInfo, len(c.Blocks))
	ctr, npkg := 0, 0
	for b, blk := range c.Blocks {
		for _, t := range blk.Txs {
			ctr++
			ti := c28TxInfo{Ctr: ctr, PkgIdx: -1}
			switch t.Kind {
			case "addpkg":
				ti.PkgIdx = npkg
				npkg++
			case "pkgcall":
				p := t.Pkg
				if p < 0 {
					p = -p
				}
				if npkg > 0 {
					ti.Target = p % npkg
				}
			}
			out[b] = append(out[b], ti)
		}
	}
	return out
}

// c28PkgBody is the source of generated package i: the on-chain body, or the
// different body a simulation tries to put at the same path.
func c28PkgBody(i, ctr int, sim bool) string {
	if sim {
		return fmt.Sprintf("package g%d\n\nimport \"strconv\"\n\nvar Word = \"SIM%d\"\nvar Cnt int\nvar X = []int{-1}\n\nfunc Get() string { return \"sim:\" + Word }\n\nfunc Touch(cur realm) string {\n\tCnt += 1000\n\treturn \"sim:\" + Word + \"#\" + strconv.Itoa(Cnt+len(X))\n}\n", i, ctr)
	}
	return fmt.Sprintf("package g%d\n\nimport \"strconv\"\n\nconst Born = %d\n\nvar Word = \"chain%d\"\nvar Cnt int\nvar X = []int{%d}\n\nfunc Get() string { return Word + \"/\" + strconv.Itoa(X[0]) }\n\nfunc Touch(cur realm) string {\n\tCnt++\n\tX = append(X, Cnt)\n\treturn Word + \"#\" + strconv.Itoa(Cnt)\n}\n", i, ctr, ctr, ctr)
}

// c28BuildMsg builds the message of a generated tx.
func c28BuildMsg(c C28Case, t C28Tx, ti c28TxInfo) std.Msg {
	from := c28Addr(c, t.Signer)
	switch t.Kind {
	case "tick":
		return ec.Call(from.Addr, C28Path, "Tick", nil, std.Coins{std.NewCoin("ugnot", 1000)})
	case "send":
		amt := t.Amt
		if amt < 1 {
			amt = 1
		}
		return bank.MsgSend{FromAddress: from.Addr, ToAddress: c28Addr(c, t.To).Addr, Amount: std.Coins{std.NewCoin("ugnot", amt)}}
	case "kvset":
		return ec.Call(from.Addr, ec.PathKV, "Set", []string{t.Key, "v" + strconv.Itoa(ti.Ctr)}, nil)
	case "addpkg":
		return ec.AddPkg(from.Addr, c28GenPkgPath(ti.PkgIdx), map[string]string{"a.gno": c28PkgBody(ti.PkgIdx, ti.Ctr, false)}, nil)
	case "pkgcall":
		return ec.Call(from.Addr, c28GenPkgPath(ti.Target), "Touch", nil, nil)
	}
	panic("bad tx kind")
}

// c28SimMsg builds the message of a simtx query (Var 1 and 2), sent by the
// simulate account.
func c28SimMsg(c C28Case, q C28Query, lay [][]c28TxInfo) std.Msg {
	t, ti := c.Blocks[q.B].Txs[q.I], lay[q.B][q.I]
	from := c28SimKey.Addr
	run := func(imp, stmt string) std.Msg {
		body := "package main\n\nimport \"" + imp + "\"\n\nfunc main(cur realm) {\n\t" + stmt + "\n}\n"
		return vm.NewMsgRun(from, nil, []*std.MemFile{{Name: "main.gno", Body: body}})
	}
	switch t.Kind {
	case "tick":
		if q.Var == 2 {
			return run(C28Path, "println(q28.Tick(cross(cur)))")
		}
		return ec.Call(from, C28Path, "Tick", nil, std.Coins{std.NewCoin("ugnot", 1000)})
	case "send":
		amt := t.Amt
		if amt < 1 {
			amt = 1
		}
		return bank.MsgSend{FromAddress: from, ToAddress: c28Addr(c, t.To).Addr, Amount: std.Coins{std.NewCoin("ugnot", amt)}}
	case "kvset":
		if q.Var == 2 {
			return run(ec.PathKV, "println(kv.Set(cross(cur), \""+t.Key+"\", \"runv\"))")
		}
		return ec.Call(from, ec.PathKV, "Set", []string{t.Key, "simv"}, nil)
	case "addpkg":
		return ec.AddPkg(from, c28GenPkgPath(ti.PkgIdx), map[string]string{"a.gno": c28PkgBody(ti.PkgIdx, ti.Ctr, q.Var == 1)}, nil)
	case "pkgcall":
		if q.Var == 2 {
			return run(c28GenPkgPath(ti.Target), "println(g"+strconv.Itoa(ti.Target)+".Touch(cross(cur)))")
		}
		return ec.Call(from, c28GenPkgPath(ti.Target), "Touch", nil, nil)
	}
	panic("bad tx kind")
}

// c28QueryKeys lists the distinct height-independent queries of the plan.
func c28QueryKeys(c C28Case) map[string]C28Query {
	out := map[string]C28Query{}
	for _, q := range c.Queries {
		q2 := q
		q2.HSel = 0
		out[q.QKey()] = q2
	}
	return out
}

// C28RunRef produces the reference in two sequential runs on plain memdbs.
// Run A executes the history with no vm/store/simulate query at all (only the
// harness's signing path looks up account numbers) and fixes raw txs, tx
// results and app hashes. Run B replays the raw txs and, after every commit,
// records the answer of every distinct query of the plan; queries issued
// strictly between blocks are one particular interleaving, so run B must
// reproduce run A's results and hashes (a divergence is a violation).
func C28RunRef(c C28Case) (*C28Ref, error) {
	keys := c28Keys(c)
	lay := c28Layout(c)
	gen := func() gnoland.GnoGenesisState {
		return ec.GenesisWithBalances(1e13, append(append([]ec.Key{}, keys...), c28SimKey)...)
	}
	// ---------------- run A
	db := memdb.NewMemDB()
	ch, _, err := ec.New(db, gen(), c28Opts(c))
	if err != nil {
		return nil, fmt.Errorf("harness: reference InitChain: %v", err)
	}
	ref := &C28Ref{Ans: map[string][]C28Answer{}, SimTxs: map[string][]byte{}}
	ai, err := ch.Account(c28SimKey.Addr)
	if err != nil {
		return nil, fmt.Errorf("query-free reference run (harness signing path queries the account): %v", err)
	}
	signSim := func(msg std.Msg) []byte {
		stx := ec.SignTx(ec.ChainID, []std.Msg{msg}, std.Fee{GasWanted: 60_000_000, GasFee: std.NewCoin("ugnot", 1_000_000)}, "", []ec.Key{c28SimKey}, []uint64{ai.Number}, []uint64{0})
		bz, _ := amino.Marshal(stx)
		return bz
	}
	// the plain simulate tx: a Tick of the dedicated account (never transacts,
	// so number/sequence in its signature never matter; simulate skips the check)
	ref.SimTx = signSim(ec.Call(c28SimKey.Addr, C28Path, "Tick", nil, std.Coins{std.NewCoin("ugnot", 1000)}))

	seq := map[int]uint64{}
	ticks := 0
	record := func(raw [][]byte, res []ec.TxResult, hash []byte, t int64) error {
		ref.Raw = append(ref.Raw, raw)
		ref.Res = append(ref.Res, res)
		ref.Hash = append(ref.Hash, hex.EncodeToString(hash))
		ref.T = append(ref.T, t)
		ref.Ticks = append(ref.Ticks, ticks)
		s := map[int]uint64{}
		for k, v := range seq {
			s[k] = v
		}
		ref.Seq = append(ref.Seq, s)
		rd, err := ec.OpenReader(db)
		if err != nil {
			return fmt.Errorf("harness: independent reader: %v", err)
		}
		ar := map[int]string{}
		for _, kv := range rd.MainDump()["main"] {
			for i := range keys {
				if bytes.Equal(kv[0], append([]byte("/a/"), keys[i].Addr.Bytes()...)) {
					ar[i] = hex.EncodeToString(kv[1])
				}
			}
		}
		ref.AccRaw = append(ref.AccRaw, ar)
		return nil
	}
	// height 0 placeholder
	ref.Raw, ref.Res, ref.Hash, ref.T, ref.Ticks, ref.Seq, ref.AccRaw = [][][]byte{nil}, [][]ec.TxResult{nil}, []string{""}, []int64{0}, []int{0}, []map[int]uint64{{}}, []map[int]string{{}}
	// block 1: deploy the realms (account 0)
	t := int64(1)
	ch.Begin(t)
	var raw [][]byte
	var res []ec.TxResult
	for _, r := range []struct{ Path, Src string }{{C28Path, C28Realm}, {ec.PathKV, ec.RealmKV}} {
		rr, tx, err := ch.Send([]std.Msg{ec.AddPkg(keys[0].Addr, r.Path, map[string]string{"a.gno": r.Src}, nil)}, 50_000_000, 1_000_000, keys[0])
		if err != nil {
			return nil, fmt.Errorf("query-free reference run (harness signing path queries the account): %v", err)
		}
		if rr.Error != nil {
			return nil, fmt.Errorf("harness: realm %s failed to deploy: %v %s", r.Path, rr.Error, rr.Log)
		}
		seq[0]++
		raw = append(raw, tx)
		res = append(res, c28Result(rr))
	}
	_, hash := ch.End()
	if err := record(raw, res, hash, t); err != nil {
		return nil, err
	}
	for b, blk := range c.Blocks {
		dt := blk.DT
		if dt < 1 {
			dt = 1
		}
		t += dt
		ch.Begin(t)
		raw, res = nil, nil
		for i, tx := range blk.Txs {
			k := c28Addr(c, tx.Signer)
			rr, txb, err := ch.Send([]std.Msg{c28BuildMsg(c, tx, lay[b][i])}, 60_000_000, 1_000_000, k)
			if err != nil {
				return nil, fmt.Errorf("query-free reference run (harness signing path queries the account): %v", err)
			}
			if rr.GasWanted > 0 {
				seq[c28AccIdx(c, tx.Signer)]++
			}
			if tx.Kind == "tick" && rr.Error == nil {
				ticks++
			}
			raw = append(raw, txb)
			res = append(res, c28Result(rr))
		}
		_, hash := ch.End()
		if err := record(raw, res, hash, t); err != nil {
			return nil, err
		}
	}
	ref.Last = len(ref.Hash) - 1
	// the simulate txs of the plan
	for _, q := range c.Queries {
		if q.Kind != "simtx" {
			continue
		}
		if q.Var == 0 {
			ref.SimTxs[q.QKey()] = ref.Raw[q.B+2][q.I]
		} else {
			ref.SimTxs[q.QKey()] = signSim(c28SimMsg(c, q, lay))
		}
	}
	// ---------------- run B: same blocks, every distinct query after every commit
	qs := c28QueryKeys(c)
	for k := range qs {
		ref.Ans[k] = []C28Answer{{Err: "height 0"}}
	}
	chB, _, err := ec.New(memdb.NewMemDB(), gen(), c28Opts(c))
	if err != nil {
		return nil, fmt.Errorf("harness: reference InitChain (run B): %v", err)
	}
	for h := 1; h <= ref.Last; h++ {
		chB.Begin(ref.T[h])
		for i, tx := range ref.Raw[h] {
			if r := c28Result(chB.Deliver(tx)); r != ref.Res[h][i] {
				return nil, fmt.Errorf("queries issued strictly BETWEEN blocks (after each commit, sequentially) changed block %d tx %d:\n with queries=%+v\n query-free  =%+v", h, i, r, ref.Res[h][i])
			}
		}
		_, hash := chB.End()
		if hex.EncodeToString(hash) != ref.Hash[h] {
			return nil, fmt.Errorf("queries issued strictly BETWEEN blocks (after each commit, sequentially) changed the app hash of block %d", h)
		}
		for k, q := range qs {
			ref.Ans[k] = append(ref.Ans[k], C28Ask(chB.App, q, c, ref))
		}
	}
	// sanity of the reference against the independent model
	for h := 1; h <= ref.Last; h++ {
		if a, ok := ref.Ans["snap"]; ok && a[h].OK() && a[h].Data != `("`+ref.Model(h)+`" string)` {
			return nil, fmt.Errorf("query-free run: Snap() at height %d answers %s, model says %s", h, a[h].Data, ref.Model(h))
		}
	}
	return ref, nil
}

var c28SeqRe = regexp.MustCompile(`"sequence":\s*"(\d+)"`)

// C28KeyStaleHeight is the known-finding key of the divergence recognised by
// c28IsStaleHeightMix: a query (or simulate) reads the last committed height
// BEFORE it pins the query snapshot; when Commit refreshes the snapshot in
// between (rootmulti.Commit: refreshQuerySnapshot runs before
// setLastCommitID, BaseApp.Commit: setCheckState/lastBlockHeader even later)
// the query loads the versioned main store at height h from a snapshot taken
// after height h+1, whose unversioned base store (GnoVM objects) is already at
// h+1: one answer mixes two heights.
const C28KeyStaleHeight = "query-reads-height-before-pinning-snapshot"

// C28KeyLiveFallback is the known-finding key of the divergence reported as
// *C28LiveRace: a .store query for the height whose Commit is under way cannot
// be served from the query snapshot (not refreshed yet), so handleQueryStore
// falls back to the legacy live path, which reads the mutable store through
// CollectingDB while rootmulti.Commit drains the collector: between Drain
// (pending ops cleared) and the end of WriteSync the new version's root record
// is in neither place, VersionExists (Has, answered just before the drain) and
// GetRoot (Get, just after) disagree, and MutableTree.GetVersioned turns the
// resulting ErrVersionDoesNotExist into a silent nil value: the response says
// "key absent" without any error or log.
const C28KeyLiveFallback = "store-query-live-fallback-between-drain-and-write"

// C28LiveRace is the error returned for that recognised divergence.
type C28LiveRace struct{ Msg string }

func (m *C28LiveRace) Error() string { return m.Msg }

// C28Mix is the error returned for that recognised divergence.
type C28Mix struct{ Msg string }

func (m *C28Mix) Error() string { return m.Msg }

var c28SnapRe = regexp.MustCompile(`N=(\d+);L=(\d+);B=(\d+)`)

// c28IsStaleHeightMix reports whether a Snap()-shaped answer shows the VM
// state of a height h2 together with the main-store balance of an older
// height h1 (both within the window).
func c28IsStaleHeightMix(ref *C28Ref, q C28Query, data string, lo, hi int) (h1, h2 int, ok bool) {
	m := c28SnapRe.FindStringSubmatch(data)
	if m == nil {
		return 0, 0, false
	}
	n, _ := strconv.Atoi(m[1])
	l, _ := strconv.Atoi(m[2])
	b, _ := strconv.Atoi(m[3])
	if n != l || b%1000 != 0 {
		return 0, 0, false
	}
	bt := b / 1000
	switch {
	case q.Kind == "sim", q.Kind == "simtx" && q.Var < 2: // the simulated Tick itself adds one to both
		n, bt = n-1, bt-1
	case q.Kind == "simtx": // Tick through MsgRun: no coins sent
		n = n - 1
	}
	h1, h2 = -1, -1
	for h := lo; h <= hi && h <= ref.Last; h++ {
		if h < 1 {
			continue
		}
		if ref.Ticks[h] == bt && h1 < 0 {
			h1 = h
		}
		if ref.Ticks[h] == n {
			h2 = h
		}
	}
	return h1, h2, h1 >= 1 && h2 > h1
}

// C28Check decides one observed answer. lo = height known committed before
// the query started; hi = highest height whose Commit had been entered when
// the query returned. It returns the height the answer corresponds to (-1 for
// an error answer).
func C28Check(ref *C28Ref, c C28Case, q C28Query, a C28Answer, lo, hi int) (int, error) {
	if strings.HasPrefix(a.Err, "PANIC") {
		return -1, fmt.Errorf("query %+v panicked: %s", q, a.Err)
	}
	want := ref.Ans[q.QKey()]
	if !a.OK() {
		// Errors are acceptable (pruned or not yet committed height, package
		// not yet deployed, a commit landing while the query loads its view),
		// wrong data is not. But a height-less query that ran entirely while
		// ONE height was the committed one (no Commit call overlapped it) has
		// exactly the state of the query-free run in front of it: if that run
		// answers it at this height, an error means block execution or an
		// earlier commit interfered with the query.
		if q.Height(c) == 0 && lo == hi && lo >= 1 && lo <= ref.Last && want[lo].OK() {
			return -1, fmt.Errorf("query %+v failed (%s) although it ran entirely while height %d was the committed one and the query-free run answers it there with %s", q, a.Err, lo, c28Short(want[lo].Data))
		}
		return -1, nil
	}
	match := func(h int) bool {
		return h >= 1 && h <= ref.Last && want[h].OK() && want[h].Data == a.Data
	}
	desc := func() string {
		var sb strings.Builder
		for h := lo; h <= hi && h <= ref.Last; h++ {
			if h < 1 {
				continue
			}
			if want[h].OK() {
				fmt.Fprintf(&sb, "\n  height %d: %s", h, c28Short(want[h].Data))
			} else {
				fmt.Fprintf(&sb, "\n  height %d: error %s", h, want[h].Err)
			}
		}
		return sb.String()
	}
	if eh := q.Height(c); eh > 0 {
		if int(eh) > hi {
			return -1, fmt.Errorf("query %+v for explicit height %d was answered (%s) although only heights up to %d could be committed", q, eh, c28Short(a.Data), hi)
		}
		if !match(int(eh)) {
			msg := fmt.Sprintf("query %+v for explicit height %d answered %s; the query-free run has at that height: %s (err %q)", q, eh, c28Short(a.Data), c28Short(want[eh].Data), want[eh].Err)
			if q.Kind == "store" && a.Data == "" && int(eh) == hi && int(eh) > lo {
				return -1, &C28LiveRace{Msg: msg + "\n  => \"key absent\" answered for the height whose Commit was under way"}
			}
			return -1, fmt.Errorf("%s", msg)
		}
		return int(eh), nil
	}
	if q.Kind == "store" {
		// the response carries the height it was served at
		h := int(a.Height)
		if h < lo || h > hi {
			return -1, fmt.Errorf("query %+v reports height %d outside the window [%d,%d] of heights committed while it ran", q, h, lo, hi)
		}
		if !match(h) {
			return -1, fmt.Errorf("query %+v reports height %d but its value %s is not the value of that height; query-free values:%s", q, h, c28Short(a.Data), desc())
		}
		if ref.AccRaw[h][c28AccIdx(c, q.Acc)] != a.Data {
			return -1, fmt.Errorf("query %+v at height %d: value differs from the raw record read by the independent reader", q, h)
		}
		return h, nil
	}
	for h := hi; h >= lo; h-- {
		if match(h) {
			// independent models
			switch q.Kind {
			case "snap":
				if a.Data != `("`+ref.Model(h)+`" string)` {
					return -1, fmt.Errorf("query %+v answered %s, model at height %d is %s", q, a.Data, h, ref.Model(h))
				}
			case "acct":
				m := c28SeqRe.FindStringSubmatch(a.Data)
				if m == nil || m[1] != strconv.FormatUint(ref.Seq[h][c28AccIdx(c, q.Acc)], 10) {
					return -1, fmt.Errorf("query %+v answered %s, model sequence at height %d is %d", q, c28Short(a.Data), h, ref.Seq[h][c28AccIdx(c, q.Acc)])
				}
			}
			return h, nil
		}
	}
	msg := fmt.Sprintf("query %+v answered %s, which is not the answer of any single height in [%d,%d] (heights committed while it ran); query-free answers:%s", q, c28Short(a.Data), lo, hi, desc())
	if q.Kind == "snap" || q.Kind == "render" || q.Kind == "sim" || q.Kind == "simtx" {
		if h1, h2, ok := c28IsStaleHeightMix(ref, q, a.Data, lo, hi); ok {
			return -1, &C28Mix{Msg: fmt.Sprintf("%s\n  => the answer combines the GnoVM state of height %d with the main-store balance of height %d", msg, h2, h1)}
		}
	}
	return -1, fmt.Errorf("%s", msg)
}

func c28AccIdx(c C28Case, i int) int {
	if i < 0 {
		i = -i
	}
	return i % c.NAcc
}

func c28Short(s string) string {
	if len(s) > 300 {
		return s[:300] + "…"
	}
	return s
}

// C28OpenDB creates the back-end of a case; cleanup closes and removes it.
func C28OpenDB(c C28Case) (dbm.DB, func(), error) {
	if c.Backend != "pebbledb" {
		return memdb.NewMemDB(), func() {}, nil
	}
	base := os.Getenv("VERIF_TMP")
	var dir string
	var err error
	if base != "" {
		os.MkdirAll(base, 0o755)
		dir, err = os.MkdirTemp(base, "c28db-")
	} else {
		dir, err = os.MkdirTemp("/var/tmp", "c28db-")
	}
	if err != nil {
		return nil, nil, err
	}
	db, err := dbm.NewDB("c28", dbm.PebbleDBBackend, dir)
	if err != nil {
		os.RemoveAll(dir)
		return nil, nil, err
	}
	return db, func() {
		func() {
			defer func() { recover() }()
			db.Close()
		}()
		os.RemoveAll(dir)
	}, nil
}

// C28Boot builds the application over db, runs InitChain and replays block 1
// (realm deployment) of the reference run, single-threaded.
func C28Boot(db dbm.DB, c C28Case, ref *C28Ref) (*sdk.BaseApp, error) {
	ch, _, err := ec.New(db, ec.GenesisWithBalances(1e13, append(append([]ec.Key{}, c28Keys(c)...), c28SimKey)...), c28Opts(c))
	if err != nil {
		return nil, fmt.Errorf("harness: InitChain: %v", err)
	}
	ch.Begin(ref.T[1])
	for i, tx := range ref.Raw[1] {
		if r := c28Result(ch.Deliver(tx)); r != ref.Res[1][i] {
			return nil, fmt.Errorf("harness: block 1 tx %d differs from the reference run before any query ran: %+v vs %+v", i, r, ref.Res[1][i])
		}
	}
	_, hash := ch.End()
	if hex.EncodeToString(hash) != ref.Hash[1] {
		return nil, fmt.Errorf("harness: block 1 app hash differs from the reference run before any query ran")
	}
	return ch.App, nil
}

// C28Obs is what one concurrent run observed.
type C28Obs struct {
	Hash    []string        // per height (from 2)
	Res     [][]ec.TxResult // per height
	Answers []C28Answer
	Lo, Hi  []int
	Strad   []bool
}

// C28ConsBlock executes block h of the reference history on app; yield is
// called before every ABCI call (a harness-level gate point); entered/done
// publish the commit progress.
func C28ConsBlock(app *sdk.BaseApp, ref *C28Ref, h int, yield func(), entered, done func(h int)) (string, []ec.TxResult) {
	yield()
	app.BeginBlock(abci.RequestBeginBlock{Header: &bft.Header{ChainID: ec.ChainID, Height: int64(h), Time: ec.T0.Add(time.Duration(ref.T[h]) * time.Second)}})
	var res []ec.TxResult
	for _, tx := range ref.Raw[h] {
		yield()
		res = append(res, c28Result(app.DeliverTx(abci.RequestDeliverTx{Tx: tx})))
	}
	yield()
	app.EndBlock(abci.RequestEndBlock{Height: int64(h)})
	yield()
	entered(h)
	cr := app.Commit()
	done(h)
	return hex.EncodeToString(cr.Data), res
}

// C28CompareCons compares the consensus outputs with the reference.
func C28CompareCons(ref *C28Ref, obs *C28Obs) error {
	for i := range obs.Hash {
		h := i + 2
		for j, r := range obs.Res[i] {
			if r != ref.Res[h][j] {
				return fmt.Errorf("block %d tx %d: result differs from the query-free run:\n with queries=%+v\n query-free  =%+v", h, j, r, ref.Res[h][j])
			}
		}
		if obs.Hash[i] != ref.Hash[h] {
			return fmt.Errorf("block %d: app hash %s differs from the query-free run's %s", h, obs.Hash[i], ref.Hash[h])
		}
	}
	return nil
}

var _ = gnoland.DefaultGenState
