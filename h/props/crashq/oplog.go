// Package crashq holds the checks C27 (a crash during commit never leaves a
// torn state) and C28 (queries never interfere with consensus and see one
// committed version). This file is the write-logging DB wrapper of C27: every
// physical write that reaches the wrapped DB is appended to an operation log
// (a DB batch is ONE atomic physical write), so the state of the disk after
// "the process died after the k-th write" can be rebuilt for every k without
// re-running the history.
package crashq

import (
	dbm "github.com/gnolang/gno/tm2/pkg/db"
	"github.com/gnolang/gno/tm2/pkg/db/memdb"
)

// c27Op is one key operation.
type c27Op struct {
	Del bool
	K   []byte
	V   []byte
}

// c27Write is one physical write (a single Set/Delete or a whole batch).
type c27Write struct {
	Kind  string // set | setsync | del | delsync | batch | batchsync
	Ops   []c27Op
	Phase string // harness label current when the write happened
}

// c27Log is the shared log of one process image.
type c27Log struct {
	Writes []c27Write
	Phase  string
}

func c27cp(b []byte) []byte { return append([]byte{}, b...) }

// c27DB wraps a DB and logs writes. Reads, iterators and snapshots pass through.
type c27DB struct {
	dbm.DB
	L *c27Log
}

func c27Wrap(db dbm.DB, l *c27Log) *c27DB { return &c27DB{DB: db, L: l} }

func (d *c27DB) log(kind string, ops ...c27Op) {
	d.L.Writes = append(d.L.Writes, c27Write{Kind: kind, Ops: ops, Phase: d.L.Phase})
}

func (d *c27DB) Set(k, v []byte) error {
	d.log("set", c27Op{K: c27cp(k), V: c27cp(v)})
	return d.DB.Set(k, v)
}

func (d *c27DB) SetSync(k, v []byte) error {
	d.log("setsync", c27Op{K: c27cp(k), V: c27cp(v)})
	return d.DB.SetSync(k, v)
}

func (d *c27DB) Delete(k []byte) error {
	d.log("del", c27Op{Del: true, K: c27cp(k)})
	return d.DB.Delete(k)
}

func (d *c27DB) DeleteSync(k []byte) error {
	d.log("delsync", c27Op{Del: true, K: c27cp(k)})
	return d.DB.DeleteSync(k)
}

func (d *c27DB) NewBatch() dbm.Batch { return &c27Batch{Batch: d.DB.NewBatch(), d: d} }
func (d *c27DB) NewBatchWithSize(n int) dbm.Batch {
	return &c27Batch{Batch: d.DB.NewBatchWithSize(n), d: d}
}

type c27Batch struct {
	dbm.Batch
	d   *c27DB
	ops []c27Op
}

func (b *c27Batch) Set(k, v []byte) error {
	b.ops = append(b.ops, c27Op{K: c27cp(k), V: c27cp(v)})
	return b.Batch.Set(k, v)
}

func (b *c27Batch) Delete(k []byte) error {
	b.ops = append(b.ops, c27Op{Del: true, K: c27cp(k)})
	return b.Batch.Delete(k)
}

func (b *c27Batch) Write() error {
	err := b.Batch.Write()
	if err == nil {
		b.d.log("batch", b.ops...)
		b.ops = nil
	}
	return err
}

func (b *c27Batch) WriteSync() error {
	err := b.Batch.WriteSync()
	if err == nil {
		b.d.log("batchsync", b.ops...)
		b.ops = nil
	}
	return err
}

func (b *c27Batch) Close() error {
	b.ops = nil
	return b.Batch.Close()
}

// c27Rebuild returns a fresh memdb holding exactly the first k writes.
func c27Rebuild(l *c27Log, k int) *memdb.MemDB {
	db := memdb.NewMemDB()
	for _, w := range l.Writes[:k] {
		for _, op := range w.Ops {
			if op.Del {
				db.Delete(op.K)
			} else {
				db.Set(c27cp(op.K), c27cp(op.V))
			}
		}
	}
	return db
}
