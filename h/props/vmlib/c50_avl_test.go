package vmlib

import (
	"fmt"
	"sort"
	"strconv"
	"strings"
	"sync"
	"testing"

	"pgregory.net/rapid"
	"verif/vk"
)

// C50 — gno.land/p/nt/avl/v0 is a balanced ordered map.
//
// One case = one op history, rendered to the op program of the fixed Gno
// driver testdata/avldrv and evaluated once on a warm GnoVM machine. Oracle:
// a sorted-slice ordered map written here; structure: the driver dumps the
// node-level tree in pre-order after every write and the harness rebuilds the
// shape to check sizes, search order and |height(l)-height(r)| <= 1.

const c50Pkg = "gno.land/p/verif/avldrv"

type c50Op struct {
	Op   string `json:"op"`           // S R G H K N X I J O Q
	K    string `json:"k,omitempty"`  // key / range start
	E    string `json:"e,omitempty"`  // range end
	V    int    `json:"v,omitempty"`  // value number (S); <0 stores nil
	A    int    `json:"a,omitempty"`  // X: index selector; O/Q: offset
	B    int    `json:"b,omitempty"`  // O/Q: count
	Stop int    `json:"st,omitempty"` // iteration: callback stops after Stop visits (0: never)
}

type c50Case struct {
	Zero bool    `json:"zero"` // start from the zero-value Tree
	Ops  []c50Op `json:"ops"`
}

var c50Alphabet = []string{"\x00", "a", "b", "\x7f", "é"}

var (
	c50Once sync.Once
	c50VM   *libVM
)

func c50Machine() *libVM {
	c50Once.Do(func() {
		c50VM = newLibVM()
		c50VM.addPackage(c50Pkg, "avldrv", readDriver("avldrv"))
	})
	return c50VM
}

func c50DrawKey(rt *rapid.T, pool []string, label string) string {
	if len(pool) > 0 && rapid.IntRange(0, 9).Draw(rt, label+"src") < 8 {
		return rapid.SampledFrom(pool).Draw(rt, label+"pool")
	}
	n := rapid.SampledFrom([]int{0, 1, 2, 2, 3, 3, 3, 4}).Draw(rt, label+"len")
	var sb strings.Builder
	for i := 0; i < n; i++ {
		sb.WriteString(rapid.SampledFrom(c50Alphabet).Draw(rt, label+"ch"))
	}
	return sb.String()
}

func c50Draw(rt *rapid.T) c50Case {
	// key pool: random short strings, plus immediate successors (k+"\x00"),
	// prefixes and the empty key, so that histories collide on purpose.
	var pool []string
	np := rapid.IntRange(1, 40).Draw(rt, "npool")
	for i := 0; i < np; i++ {
		switch rapid.IntRange(0, 5).Draw(rt, "pk") {
		case 0:
			if len(pool) > 0 {
				pool = append(pool, rapid.SampledFrom(pool).Draw(rt, "succOf")+"\x00")
				continue
			}
			fallthrough
		case 1:
			if len(pool) > 0 {
				b := rapid.SampledFrom(pool).Draw(rt, "prefOf")
				if len(b) > 0 && b[len(b)-1] < 0x80 {
					pool = append(pool, b[:len(b)-1])
					continue
				}
			}
			fallthrough
		default:
			pool = append(pool, c50DrawKey(rt, nil, "new"))
		}
	}
	if rapid.IntRange(0, 3).Draw(rt, "emptykey") == 0 {
		pool = append(pool, "")
	}
	c := c50Case{Zero: rapid.IntRange(0, 4).Draw(rt, "zero") == 0}
	nops := rapid.IntRange(1, 90).Draw(rt, "nops")
	for i := 0; i < nops; i++ {
		var o c50Op
		w := rapid.IntRange(0, 99).Draw(rt, "w")
		if i < nops/3 && w >= 40 && w%2 == 0 {
			w = 0 // build-up phase: more writes
		}
		switch {
		case w < 40:
			o = c50Op{Op: "S", K: c50DrawKey(rt, pool, "k"), V: rapid.IntRange(-1, 50).Draw(rt, "v")}
		case w < 56:
			o = c50Op{Op: "R", K: c50DrawKey(rt, pool, "k")}
		case w < 61:
			o = c50Op{Op: "G", K: c50DrawKey(rt, pool, "k")}
		case w < 66:
			o = c50Op{Op: "H", K: c50DrawKey(rt, pool, "k")}
		case w < 70:
			o = c50Op{Op: "K", K: c50DrawKey(rt, pool, "k")}
		case w < 72:
			o = c50Op{Op: "N"}
		case w < 79:
			o = c50Op{Op: "X", A: rapid.IntRange(-1, 40).Draw(rt, "idx")}
		case w < 91:
			o = c50Op{Op: rapid.SampledFrom([]string{"I", "J"}).Draw(rt, "dir")}
			if rapid.IntRange(0, 3).Draw(rt, "hasStart") > 0 {
				o.K = c50DrawKey(rt, pool, "s")
			}
			if rapid.IntRange(0, 3).Draw(rt, "hasEnd") > 0 {
				o.E = c50DrawKey(rt, pool, "e")
			}
			if rapid.IntRange(0, 2).Draw(rt, "stops") == 0 {
				o.Stop = rapid.IntRange(1, 6).Draw(rt, "stop")
			}
		default:
			o = c50Op{Op: rapid.SampledFrom([]string{"O", "Q"}).Draw(rt, "dir"),
				A: rapid.IntRange(-2, 30).Draw(rt, "off"), B: rapid.IntRange(-1, 30).Draw(rt, "cnt")}
			if rapid.IntRange(0, 2).Draw(rt, "stops") == 0 {
				o.Stop = rapid.IntRange(1, 6).Draw(rt, "stop")
			}
		}
		c.Ops = append(c.Ops, o)
	}
	return c
}

// ---- ordered-map reference model

type c50KV struct {
	k string
	v string // "~" = nil
}

type c50Model struct{ kv []c50KV }

func (m *c50Model) find(k string) (int, bool) {
	i := sort.Search(len(m.kv), func(i int) bool { return m.kv[i].k >= k })
	return i, i < len(m.kv) && m.kv[i].k == k
}

func (m *c50Model) set(k, v string) bool {
	i, ok := m.find(k)
	if ok {
		m.kv[i].v = v
		return true
	}
	m.kv = append(m.kv, c50KV{})
	copy(m.kv[i+1:], m.kv[i:])
	m.kv[i] = c50KV{k, v}
	return false
}

func (m *c50Model) remove(k string) (string, bool) {
	i, ok := m.find(k)
	if !ok {
		return "~", false
	}
	v := m.kv[i].v
	m.kv = append(m.kv[:i], m.kv[i+1:]...)
	return v, true
}

func c50Val(v int) string {
	if v < 0 {
		return "~"
	}
	return "v" + strconv.Itoa(v)
}

func c50Item(e c50KV) string { return "k" + e.k + "=" + e.v }

// visit renders what an iteration over items with the stopping callback sees.
func c50Visit(items []c50KV, stop int) (string, bool) {
	var seen []string
	stopped := false
	for _, e := range items {
		seen = append(seen, c50Item(e))
		if stop > 0 && len(seen) >= stop {
			stopped = true
			break
		}
	}
	return strings.Join(seen, ","), stopped
}

// ---- structure check: rebuild the shape from the pre-order dump

type c50Shape struct {
	height, size int
	min, max     string
	leaves       []string
}

func c50Parse(toks []string, pos *int) (c50Shape, error) {
	if *pos >= len(toks) {
		return c50Shape{}, fmt.Errorf("dump ends inside an inner node")
	}
	t := toks[*pos]
	*pos++
	if strings.HasPrefix(t, "L") {
		k := t[1:]
		return c50Shape{0, 1, k, k, []string{k}}, nil
	}
	if !strings.HasPrefix(t, "N") {
		return c50Shape{}, fmt.Errorf("bad dump token %q", t)
	}
	c := strings.LastIndex(t, ":")
	key := t[1:c]
	size, _ := strconv.Atoi(t[c+1:])
	l, err := c50Parse(toks, pos)
	if err != nil {
		return l, err
	}
	r, err := c50Parse(toks, pos)
	if err != nil {
		return r, err
	}
	if size != l.size+r.size {
		return l, fmt.Errorf("inner node %q reports size %d, its subtrees hold %d+%d leaves", key, size, l.size, r.size)
	}
	if d := l.height - r.height; d > 1 || d < -1 {
		return l, fmt.Errorf("inner node %q is not height-balanced: left height %d, right height %d", key, l.height, r.height)
	}
	if !(l.max < key && key <= r.min) {
		return l, fmt.Errorf("inner node %q does not separate its subtrees (left max %q, right min %q)", key, l.max, r.min)
	}
	h := l.height
	if r.height > h {
		h = r.height
	}
	return c50Shape{h + 1, size, l.min, r.max, append(l.leaves, r.leaves...)}, nil
}

func c50CheckDump(dump string, m *c50Model) (height int, err error) {
	if dump == "" {
		if len(m.kv) != 0 {
			return 0, fmt.Errorf("tree is empty, model holds %d keys", len(m.kv))
		}
		return 0, nil
	}
	toks := strings.Split(dump, ",")
	pos := 0
	sh, err := c50Parse(toks, &pos)
	if err != nil {
		return 0, err
	}
	if pos != len(toks) {
		return 0, fmt.Errorf("dump has %d trailing tokens", len(toks)-pos)
	}
	if len(sh.leaves) != len(m.kv) {
		return 0, fmt.Errorf("tree has %d leaves, model %d keys", len(sh.leaves), len(m.kv))
	}
	for i, k := range sh.leaves {
		if k != m.kv[i].k {
			return 0, fmt.Errorf("leaf %d is %q, model %q", i, k, m.kv[i].k)
		}
	}
	return sh.height, nil
}

func c50Bool(b bool) string {
	if b {
		return "t"
	}
	return "f"
}

func c50Exec(ctx *vk.Ctx, c c50Case) error {
	vm := c50Machine()
	m := &c50Model{}
	var prog, want []string
	var isWrite []bool
	add := func(p, w string, write bool) {
		prog = append(prog, p)
		want = append(want, w)
		isWrite = append(isWrite, write)
	}
	if c.Zero {
		add("Z", "z", false)
	}
	maxSize, removeHits, updates, iterNonEmpty, emptyKey, adjacent := 0, 0, 0, 0, false, false
	// model pass: compute the expected transcript and the concrete program
	type snap struct{ kv []c50KV }
	var snaps []snap
	for _, o := range c.Ops {
		switch o.Op {
		case "S":
			upd := m.set(o.K, c50Val(o.V))
			if upd {
				updates++
			}
			add("S|"+o.K+"|"+c50Val(o.V), c50Bool(upd), true)
		case "R":
			v, ok := m.remove(o.K)
			if ok {
				removeHits++
			}
			add("R|"+o.K, v+","+c50Bool(ok), true)
		case "G":
			i, ok := m.find(o.K)
			v := "~"
			if ok {
				v = m.kv[i].v
			}
			add("G|"+o.K, v, false)
		case "H":
			_, ok := m.find(o.K)
			add("H|"+o.K, c50Bool(ok), false)
		case "K":
			i, ok := m.find(o.K)
			v := "~"
			if ok {
				v = m.kv[i].v
			}
			// the index of an absent key is not documented: only compared for present keys
			idx := "*"
			if ok {
				idx = strconv.Itoa(i)
			}
			add("K|"+o.K, idx+","+v+","+c50Bool(ok), false)
		case "N":
			add("N", strconv.Itoa(len(m.kv)), false)
		case "X":
			// index selector: -1 stays -1 (negative index), otherwise folded into 0..size
			// (size itself = first invalid index)
			idx := o.A
			if idx >= 0 {
				idx = idx % (len(m.kv) + 1)
			}
			w := "P"
			if idx >= 0 && idx < len(m.kv) {
				w = c50Item(m.kv[idx])
			}
			add("X|"+strconv.Itoa(idx), w, false)
		case "I", "J":
			var items []c50KV
			for _, e := range m.kv {
				// "" = unbounded; ascending: [start,end) ; descending: [start,end]
				if o.K != "" && e.k < o.K {
					continue
				}
				if o.E != "" && (e.k > o.E || (o.Op == "I" && e.k == o.E)) {
					continue
				}
				items = append(items, e)
			}
			if o.Op == "J" {
				for i, j := 0, len(items)-1; i < j; i, j = i+1, j-1 {
					items[i], items[j] = items[j], items[i]
				}
			}
			if len(items) > 0 {
				iterNonEmpty++
			}
			s, stopped := c50Visit(items, o.Stop)
			st := o.Stop
			if st == 0 {
				st = -1
			}
			add(o.Op+"|"+o.K+"|"+o.E+"|"+strconv.Itoa(st), c50Bool(stopped)+"#"+s, false)
		case "O", "Q":
			all := append([]c50KV{}, m.kv...)
			if o.Op == "Q" {
				for i, j := 0, len(all)-1; i < j; i, j = i+1, j-1 {
					all[i], all[j] = all[j], all[i]
				}
			}
			off := o.A
			if off < 0 {
				off = 0
			}
			var items []c50KV
			if o.B > 0 && off < len(all) {
				end := off + o.B
				if end > len(all) {
					end = len(all)
				}
				items = all[off:end]
			}
			if len(items) > 0 {
				iterNonEmpty++
			}
			s, _ := c50Visit(items, o.Stop)
			st := o.Stop
			if st == 0 {
				st = -1
			}
			// the boolean result of the *ByOffset variants is not specified; only the visits are compared
			add(o.Op+"|"+strconv.Itoa(o.A)+"|"+strconv.Itoa(o.B)+"|"+strconv.Itoa(st), "*#"+s, false)
		default:
			return fmt.Errorf("bad op %q", o.Op)
		}
		if len(m.kv) > maxSize {
			maxSize = len(m.kv)
		}
		if o.Op == "S" || o.Op == "R" {
			snaps = append(snaps, snap{append([]c50KV{}, m.kv...)})
			for i, e := range m.kv {
				if e.k == "" {
					emptyKey = true
				}
				if i > 0 && e.k == m.kv[i-1].k+"\x00" {
					adjacent = true
				}
			}
		}
	}
	res, pmsg := vm.call(c50Pkg, "Run", strings.Join(prog, "\n"), false)
	if pmsg != "" {
		return fmt.Errorf("avl driver run ended with a panic: %s", pmsg)
	}
	got := strings.Split(res, "\n")
	if len(got) != len(want) {
		return fmt.Errorf("transcript has %d lines, expected %d", len(got), len(want))
	}
	maxHeight, si := 0, 0
	for i := range want {
		g, w := got[i], want[i]
		var dump string
		if isWrite[i] {
			p := strings.Index(g, "#")
			if p < 0 {
				return fmt.Errorf("op %d %q: no dump in %q", i, prog[i], g)
			}
			g, dump = g[:p], g[p+1:]
		}
		if strings.HasPrefix(w, "*#") {
			g = "*" + g[1:]
		}
		if strings.HasPrefix(w, "*,") {
			if p := strings.Index(g, ","); p >= 0 {
				g = "*" + g[p:]
			}
		}
		if g != w {
			return fmt.Errorf("op %d %q: avl answered %q, ordered-map model %q", i, prog[i], g, w)
		}
		if isWrite[i] {
			h, err := c50CheckDump(dump, &c50Model{kv: snaps[si].kv})
			si++
			if err != nil {
				return fmt.Errorf("after op %d %q: %v (dump %q)", i, prog[i], err, dump)
			}
			if h > maxHeight {
				maxHeight = h
			}
		}
	}
	ctx.NTIf(maxSize >= 4 && removeHits > 0 && iterNonEmpty > 0)
	ctx.ClassIf(emptyKey, "empty-key-stored")
	ctx.ClassIf(adjacent, "adjacent-keys-stored")
	ctx.ClassIf(updates > 0, "update-of-present-key")
	ctx.ClassIf(removeHits > 0, "remove-of-present-key")
	ctx.ClassIf(iterNonEmpty > 0, "non-empty-iteration")
	ctx.ClassIf(c.Zero, "zero-value-tree")
	ctx.Class("maxsize=" + c50Bucket(maxSize))
	ctx.Class("maxheight=" + strconv.Itoa(maxHeight))
	return nil
}

func c50Bucket(n int) string {
	switch {
	case n < 4:
		return "0-3"
	case n < 8:
		return "4-7"
	case n < 16:
		return "8-15"
	default:
		return "16+"
	}
}

func TestC50_AvlOrderedMap(t *testing.T) {
	vk.Run(t, vk.Spec[c50Case]{
		ID: "C50", Name: "TestC50_AvlOrderedMap",
		Rule: "rapid: history of <=90 ops (Set incl. nil values, Remove, Get, Has, node Get index, Size, GetByIndex incl. -1 and size, Iterate/ReverseIterate over [start,end) / [start,end] with unbounded ends and early stop, IterateByOffset/ReverseIterateByOffset incl. negative offset and count<=0) over a pool of <=41 keys (length 0..4) on the alphabet {00,a,b,7f,é} with the empty key, immediate successors k+00 and prefixes; run once by the Gno driver on GnoVM; non-trivial = tree reached >=4 keys, a present key was removed and an iteration visited something; distinct by case hash",
		Draw: c50Draw,
		Exec: c50Exec,
	})
}
