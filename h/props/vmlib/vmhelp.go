// Package vmlib holds the checks that drive Gno library packages (avl, grc20)
// through a warm GnoVM machine: a fixed Gno driver package interprets a compact
// op string and returns a transcript; each generated case is one evaluation in
// a transaction fork of the store that is dropped afterwards.
package vmlib

import (
	"bytes"
	"fmt"
	"os"
	"path/filepath"
	"sort"
	"strings"

	"github.com/gnolang/gno/gnovm/pkg/gnoenv"
	gno "github.com/gnolang/gno/gnovm/pkg/gnolang"
	"github.com/gnolang/gno/gnovm/pkg/test"
	"github.com/gnolang/gno/tm2/pkg/std"
)

// libVM is a warm store with the stdlibs/examples getter of /repo (GNOROOT)
// plus driver packages added by the harness.
type libVM struct {
	store gno.Store
	out   bytes.Buffer
	pkgs  map[string]*gno.PackageValue
}

func newLibVM() *libVM {
	v := &libVM{pkgs: map[string]*gno.PackageValue{}}
	_, v.store = test.ProdStore(gnoenv.RootDir(), &v.out, nil)
	return v
}

// readDriver loads testdata/<dir>/*.gno of the harness package.
func readDriver(dir string) map[string]string {
	files := map[string]string{}
	ents, err := os.ReadDir(filepath.Join("testdata", dir))
	if err != nil {
		panic(err)
	}
	for _, e := range ents {
		if strings.HasSuffix(e.Name(), ".gno") {
			b, err := os.ReadFile(filepath.Join("testdata", dir, e.Name()))
			if err != nil {
				panic(err)
			}
			files[e.Name()] = string(b)
		}
	}
	return files
}

// addPackage runs (declares + inits) a driver package on the root store so
// that all imports (stdlibs, examples) land in the root store once.
func (v *libVM) addPackage(pkgPath, name string, files map[string]string) {
	mpkg := &std.MemPackage{Type: gno.MPUserProd, Name: name, Path: pkgPath}
	mpkg.Files = append(mpkg.Files, &std.MemFile{Name: "gnomod.toml", Body: gno.GenGnoModLatest(pkgPath)})
	names := make([]string, 0, len(files))
	for n := range files {
		names = append(names, n)
	}
	sort.Strings(names)
	for _, n := range names {
		mpkg.Files = append(mpkg.Files, &std.MemFile{Name: n, Body: files[n]})
	}
	// imports (stdlibs, examples) are loaded once on the root store itself: a
	// package imported inside a transaction fork leaves its block nodes behind.
	if err := test.LoadImports(v.store, mpkg, true); err != nil {
		panic(fmt.Sprintf("loading imports of %s: %v", pkgPath, err))
	}
	txs := v.store.BeginTransaction(nil, nil, nil, nil)
	m := gno.NewMachineWithOptions(gno.MachineOptions{
		PkgPath: pkgPath, Output: &v.out, Store: txs,
		Context: test.Context(test.DefaultCaller, pkgPath, nil), ReviveEnabled: true, SkipPackage: true,
	})
	m.RunMemPackage(mpkg, true)
	m.Release()
	txs.Write()
	v.pkgs[pkgPath] = v.store.GetPackage(pkgPath, false)
	if v.pkgs[pkgPath] == nil {
		panic("driver package not stored: " + pkgPath)
	}
}

// call evaluates pkg.<fn>(arg) (or pkg.<fn>(cross-from-origin, arg) when the
// function is a crossing one) in a dropped transaction fork. A Gno panic that
// escapes is returned as panicMsg.
func (v *libVM) call(pkgPath, fn, arg string, crossing bool) (res string, panicMsg string) {
	txs := v.store.BeginTransaction(nil, nil, nil, nil)
	pv := txs.GetPackage(pkgPath, false)
	mpn := gno.NewPackageNode("main", "", nil)
	mpn.Define("pkg", gno.TypedValue{T: &gno.PackageType{}, V: pv})
	mpv := mpn.NewPackage(txs.GetAllocator())
	m := gno.NewMachineWithOptions(gno.MachineOptions{
		PkgPath: "", Output: &v.out, Store: txs,
		Context: test.Context(test.DefaultCaller, pkgPath, nil), ReviveEnabled: true,
	})
	defer m.Release()
	defer func() {
		v.out.Reset()
		if r := recover(); r != nil {
			switch x := r.(type) {
			case *gno.TypedValue:
				panicMsg = "gno panic: " + x.Sprint(m)
			case gno.UnhandledPanicError:
				panicMsg = "gno unhandled panic: " + x.Error()
			case *gno.PreprocessError:
				panicMsg = "gno preprocess error: " + x.Unwrap().Error()
			default:
				panic(r) // a Go-level crash of the VM: let the kit report it
			}
		}
	}()
	var xn gno.Expr
	if crossing {
		xn = m.MustParseExpr(fmt.Sprintf("pkg.%s(cross, %q)", fn, arg))
		xn.(*gno.CallExpr).Args[0] = gno.Nx(".origin")
	} else {
		xn = m.MustParseExpr(fmt.Sprintf("pkg.%s(%q)", fn, arg))
	}
	m.SetActivePackage(mpv)
	rtvs := m.Eval(xn)
	if len(rtvs) != 1 {
		return "", fmt.Sprintf("driver returned %d values", len(rtvs))
	}
	return rtvs[0].GetString(), ""
}
