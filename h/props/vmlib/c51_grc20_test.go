package vmlib

import (
	"fmt"
	"math"
	"strconv"
	"strings"
	"sync"
	"testing"

	"github.com/gnolang/gno/tm2/pkg/crypto"
	"pgregory.net/rapid"
	"verif/vk"
)

// C51 — GRC20 tokens conserve supply and honour allowances.
//
// One case = one history of mint/burn/transfer/approve/transferFrom/
// spendAllowance calls (PrivateLedger methods directly, through an
// impersonating Teller, or through the read-only Teller), run once by the
// fixed Gno driver realm testdata/grc20drv. After every call the driver
// reports the returned error and the whole observable state. Oracle: a ledger
// model keyed on the reported outcome: a call that returned an error must
// leave the state untouched, a call that returned nil must have had its
// preconditions (funds, allowance, non-negative amount, no supply overflow)
// and must have changed exactly what the ledger model says; calls that are
// plainly valid must succeed; Σ balances == total supply always.

const c51Pkg = "gno.land/r/verif/grc20drv"

const c51NAcct = 5 // 4 valid addresses + 1 invalid one (which one: case flag)

type c51Op struct {
	Op  string `json:"op"`            // M B T P F D
	Via string `json:"via,omitempty"` // l (ledger) t (impersonating teller) r (read-only teller)
	A   int    `json:"a"`             // account / from / owner
	B   int    `json:"b,omitempty"`   // to (T) / spender (P F D)
	C   int    `json:"c,omitempty"`   // to (F)
	Amt int64  `json:"amt"`
}

type c51Case struct {
	BadEmpty bool    `json:"bad_empty"` // the invalid address is "" (else: a bech32 string with a broken checksum)
	Ops      []c51Op `json:"ops"`
}

var (
	c51Once  sync.Once
	c51VM    *libVM
	c51Addrs []string
)

func c51Machine() *libVM {
	c51Once.Do(func() {
		c51VM = newLibVM()
		c51VM.addPackage(c51Pkg, "grc20drv", readDriver("grc20drv"))
		for i := 0; i < 4; i++ {
			c51Addrs = append(c51Addrs, crypto.AddressFromPreimage([]byte("verif-c51-acct-"+strconv.Itoa(i))).String())
		}
		// not bech32 at all, and a valid-looking address with a broken checksum
		bad := []byte(c51Addrs[0])
		if bad[len(bad)-1] == 'q' {
			bad[len(bad)-1] = 'p'
		} else {
			bad[len(bad)-1] = 'q'
		}
		c51Addrs = append(c51Addrs, string(bad))
	})
	return c51VM
}

func c51Valid(i int) bool { return i < 4 }

// ---- ledger model

type c51State struct {
	supply int64
	bal    [c51NAcct]int64
	allow  [c51NAcct][c51NAcct]int64
}

func (s *c51State) render() string {
	var bs, as []string
	for i := 0; i < c51NAcct; i++ {
		bs = append(bs, strconv.FormatInt(s.bal[i], 10))
		for j := 0; j < c51NAcct; j++ {
			as = append(as, strconv.FormatInt(s.allow[i][j], 10))
		}
	}
	return strconv.FormatInt(s.supply, 10) + "|" + strings.Join(bs, ",") + "|" + strings.Join(as, ",")
}

func c51ParseState(line string, prev *c51State) (c51State, error) {
	var s c51State
	f := strings.Split(line, "|")
	if len(f) != 3 {
		return s, fmt.Errorf("bad state %q", line)
	}
	var err error
	if s.supply, err = strconv.ParseInt(f[0], 10, 64); err != nil {
		return s, err
	}
	bs, as := strings.Split(f[1], ","), strings.Split(f[2], ",")
	short := f[2] == "-" // allowances not dumped for this op: carried over from prev
	if len(bs) != c51NAcct || (!short && len(as) != c51NAcct*c51NAcct) {
		return s, fmt.Errorf("bad state %q", line)
	}
	if short {
		s.allow = prev.allow
	}
	for i := 0; i < c51NAcct; i++ {
		if s.bal[i], err = strconv.ParseInt(bs[i], 10, 64); err != nil {
			return s, err
		}
		for j := 0; j < c51NAcct && !short; j++ {
			if s.allow[i][j], err = strconv.ParseInt(as[i*c51NAcct+j], 10, 64); err != nil {
				return s, err
			}
		}
	}
	return s, nil
}

const (
	c51MustFail = iota
	c51MustSucceed
	c51Either
)

// classify says what the property demands of op in state s; why names the
// violated precondition for must-fail ops.
func (s *c51State) classify(o c51Op) (int, string) {
	if o.Via == "r" {
		return c51MustFail, "read-only teller"
	}
	if o.Amt < 0 {
		return c51MustFail, "negative amount"
	}
	valid := true
	switch o.Op {
	case "M":
		if o.Amt > math.MaxInt64-s.supply {
			return c51MustFail, "supply overflow"
		}
		valid = c51Valid(o.A)
	case "B":
		if s.bal[o.A] < o.Amt {
			return c51MustFail, "insufficient balance"
		}
		valid = c51Valid(o.A)
	case "T":
		if s.bal[o.A] < o.Amt {
			return c51MustFail, "insufficient balance"
		}
		valid = c51Valid(o.A) && c51Valid(o.B) && o.A != o.B
	case "P":
		valid = c51Valid(o.A) && c51Valid(o.B)
	case "F":
		if s.bal[o.A] < o.Amt {
			return c51MustFail, "insufficient balance"
		}
		if s.allow[o.A][o.B] < o.Amt {
			return c51MustFail, "insufficient allowance"
		}
		valid = c51Valid(o.A) && c51Valid(o.B) && c51Valid(o.C) && o.A != o.C
	case "D":
		if s.allow[o.A][o.B] < o.Amt {
			return c51MustFail, "insufficient allowance"
		}
		valid = c51Valid(o.A) && c51Valid(o.B)
	}
	if valid {
		return c51MustSucceed, ""
	}
	return c51Either, ""
}

// apply is the effect of a successful op.
func (s *c51State) apply(o c51Op) {
	switch o.Op {
	case "M":
		s.bal[o.A] += o.Amt
		s.supply += o.Amt
	case "B":
		s.bal[o.A] -= o.Amt
		s.supply -= o.Amt
	case "T":
		s.bal[o.A] -= o.Amt
		s.bal[o.B] += o.Amt
	case "P":
		s.allow[o.A][o.B] = o.Amt
	case "F":
		s.allow[o.A][o.B] -= o.Amt
		s.bal[o.A] -= o.Amt
		s.bal[o.C] += o.Amt
	case "D":
		s.allow[o.A][o.B] -= o.Amt
	}
}

func (o c51Op) line() string {
	a := strconv.FormatInt(o.Amt, 10)
	i := strconv.Itoa
	switch o.Op {
	case "M", "B":
		return o.Op + "|" + i(o.A) + "|" + a
	case "T", "P":
		return o.Op + "|" + o.Via + "|" + i(o.A) + "|" + i(o.B) + "|" + a
	case "F":
		return o.Op + "|" + o.Via + "|" + i(o.A) + "|" + i(o.B) + "|" + i(o.C) + "|" + a
	case "D":
		return o.Op + "|" + i(o.A) + "|" + i(o.B) + "|" + a
	}
	return "?"
}

func c51DrawAcct(rt *rapid.T, label string) int {
	// mostly the four valid accounts, sometimes the invalid address
	if rapid.IntRange(0, 19).Draw(rt, label+"inv") == 0 {
		return 4
	}
	return rapid.IntRange(0, 3).Draw(rt, label)
}

func c51Draw(rt *rapid.T) c51Case {
	c := c51Case{BadEmpty: rapid.Bool().Draw(rt, "badEmpty")}
	var s c51State // generator-side copy of the model: only used to aim accounts and amounts at interesting spots
	n := rapid.IntRange(1, 36).Draw(rt, "nops")
	for k := 0; k < n; k++ {
		var o c51Op
		w := rapid.IntRange(0, 99).Draw(rt, "w")
		if k < 2 && w >= 50 {
			w = 0
		}
		live := false
		for i := 0; i < c51NAcct && !live; i++ {
			for j := 0; j < c51NAcct; j++ {
				if s.allow[i][j] > 0 && s.bal[i] > 0 {
					live = true
				}
			}
		}
		if live && w < 48 && w%3 == 0 {
			w = 70 // a spendable allowance exists: use it more often
		} else if !live && s.supply > 0 && w >= 66 && w < 93 && w%2 == 0 {
			w = 50 // nothing to spend yet: approve instead
		}
		switch {
		case w < 18:
			o.Op = "M"
		case w < 28:
			o.Op = "B"
		case w < 48:
			o.Op = "T"
		case w < 66:
			o.Op = "P"
		case w < 93:
			o.Op = "F"
		default:
			o.Op = "D"
		}
		o.A = c51DrawAcct(rt, "a")
		if o.Op != "M" && o.Op != "B" {
			o.B = c51DrawAcct(rt, "b")
		}
		if o.Op == "F" {
			o.C = c51DrawAcct(rt, "c")
		}
		aim := rapid.IntRange(0, 9).Draw(rt, "aim") < 7
		if aim {
			// aim at accounts that can act: funded owners, pairs with a live allowance
			var funded []int
			var pairs [][2]int
			for i := 0; i < c51NAcct; i++ {
				if s.bal[i] > 0 {
					funded = append(funded, i)
				}
				for j := 0; j < c51NAcct; j++ {
					if s.allow[i][j] > 0 && (o.Op == "D" || s.bal[i] > 0) {
						pairs = append(pairs, [2]int{i, j})
					}
				}
			}
			switch o.Op {
			case "B", "T", "P":
				if len(funded) > 0 {
					o.A = rapid.SampledFrom(funded).Draw(rt, "fundedA")
				}
			case "F", "D":
				if len(pairs) > 0 {
					pr := rapid.SampledFrom(pairs).Draw(rt, "pair")
					o.A, o.B = pr[0], pr[1]
				}
			}
		}
		if o.Op == "T" || o.Op == "P" || o.Op == "F" {
			o.Via = rapid.SampledFrom([]string{"l", "l", "l", "t", "t", "t", "r"}).Draw(rt, "via")
		}
		// boundary candidates relative to the current model state
		cands := []int64{0, 1, int64(rapid.IntRange(2, 1000).Draw(rt, "small")), math.MaxInt64, -1, math.MinInt64}
		around := func(v int64) {
			cands = append(cands, v)
			if v > 0 {
				cands = append(cands, v-1)
			}
			if v < math.MaxInt64 {
				cands = append(cands, v+1)
			}
		}
		switch o.Op {
		case "M":
			around(math.MaxInt64 - s.supply)
			for i := 0; i < 6; i++ {
				cands = append(cands, int64(rapid.IntRange(1, 1000).Draw(rt, "m")))
			}
			cands = append(cands, 1<<62)
		case "B", "T":
			around(s.bal[o.A])
			around(s.bal[o.A] / 2)
		case "P":
			around(s.bal[o.A])
			around(s.bal[o.A] / 2)
			cands = append(cands, int64(rapid.IntRange(1, 1000).Draw(rt, "p2")))
		case "F":
			lo := s.bal[o.A]
			if s.allow[o.A][o.B] < lo {
				lo = s.allow[o.A][o.B]
			}
			around(lo)
			around(lo / 2)
			around(s.bal[o.A])
			around(s.allow[o.A][o.B])
		case "D":
			around(s.allow[o.A][o.B])
			around(s.allow[o.A][o.B] / 2)
		}
		// the six fixed candidates get picked less often than the state-relative ones
		idx := rapid.IntRange(0, 2*len(cands)-7).Draw(rt, "amt")
		if idx >= len(cands) {
			idx = 6 + (idx - len(cands))
		}
		o.Amt = cands[idx]
		c.Ops = append(c.Ops, o)
		if cl, _ := s.classify(o); cl == c51MustSucceed {
			s.apply(o)
		}
	}
	return c
}

func c51Exec(ctx *vk.Ctx, c c51Case) error {
	vm := c51Machine()
	addrs := append([]string{}, c51Addrs...)
	if c.BadEmpty {
		addrs[4] = ""
	}
	prog := []string{strings.Join(addrs, "|")}
	for _, o := range c.Ops {
		if o.A < 0 || o.A >= c51NAcct || o.B < 0 || o.B >= c51NAcct || o.C < 0 || o.C >= c51NAcct {
			return fmt.Errorf("bad case: account index out of range")
		}
		prog = append(prog, o.line())
	}
	res, pmsg := vm.call(c51Pkg, "Run", strings.Join(prog, "\n"), true)
	if pmsg != "" {
		return fmt.Errorf("grc20 driver run ended with a panic: %s", pmsg)
	}
	lines := strings.Split(res, "\n")
	if len(lines) != len(c.Ops)+1 {
		return fmt.Errorf("transcript has %d lines, expected %d", len(lines), len(c.Ops)+1)
	}
	var s c51State
	if lines[0] != s.render() {
		return fmt.Errorf("fresh token state %q, expected all zero", lines[0])
	}
	okFrom, rejectedFunded, okKinds, failKinds := 0, 0, map[string]bool{}, map[string]bool{}
	for i, o := range c.Ops {
		p := strings.Index(lines[i+1], "|")
		errText, stateLine := lines[i+1][:p], lines[i+1][p+1:]
		got, err := c51ParseState(stateLine, &s)
		if err != nil {
			return err
		}
		failed := errText != ""
		cl, why := s.classify(o)
		desc := fmt.Sprintf("op %d %q (state before: %s)", i, o.line(), s.render())
		// Σ balances == supply, on the observed state alone
		var sum int64
		for _, b := range got.bal {
			if b < 0 || sum > math.MaxInt64-b {
				return fmt.Errorf("%s: observed balances negative or overflowing: %s", desc, stateLine)
			}
			sum += b
		}
		if sum != got.supply {
			return fmt.Errorf("%s: total supply %d != sum of balances %d (%s)", desc, got.supply, sum, stateLine)
		}
		if failed {
			if got != s {
				// exactly this divergence: TransferFrom(owner, spender, to == owner, amt > 0) with
				// enough funds and allowance is rejected as a self-transfer after the allowance
				// was already spent; nothing but that one allowance entry may differ.
				exp := s
				exp.allow[o.A][o.B] -= o.Amt
				if o.Op == "F" && o.A == o.C && o.Amt > 0 && cl != c51MustFail && got == exp &&
					ctx.Known("transferfrom-to-owner-spends-allowance") {
					s = got
					continue
				}
				return fmt.Errorf("%s: returned error %q but changed the state to %s", desc, errText, stateLine)
			}
			if cl == c51MustSucceed {
				return fmt.Errorf("%s: valid operation rejected with %q", desc, errText)
			}
			failKinds[o.Op] = true
			if s.supply > 0 {
				rejectedFunded++
			}
			continue
		}
		if cl == c51MustFail {
			return fmt.Errorf("%s: succeeded although the ledger model forbids it (%s); state after: %s", desc, why, stateLine)
		}
		s.apply(o)
		if got != s {
			return fmt.Errorf("%s: succeeded; state after %s, ledger model %s", desc, stateLine, s.render())
		}
		okKinds[o.Op] = true
		if o.Op == "F" && o.Amt > 0 {
			okFrom++
		}
	}
	ctx.NTIf(okFrom > 0 && rejectedFunded > 0)
	for _, k := range []string{"M", "B", "T", "P", "F", "D"} {
		ctx.ClassIf(okKinds[k], "ok-"+k)
		ctx.ClassIf(failKinds[k], "rejected-"+k)
	}
	ctx.ClassIf(okFrom > 0, "transferFrom-moved-tokens")
	ctx.ClassIf(s.supply == math.MaxInt64, "supply-at-max")
	return nil
}

func TestC51_Grc20Ledger(t *testing.T) {
	vk.Run(t, vk.Spec[c51Case]{
		ID: "C51", Name: "TestC51_Grc20Ledger",
		Rule: "rapid: history of <=36 calls of Mint/Burn/Transfer/Approve/TransferFrom/SpendAllowance (PrivateLedger directly, via ImpersonateTeller, via ReadonlyTeller) over 4 valid addresses and 1 invalid one with amounts aimed at the model's boundaries {0,1,bal-1,bal,bal+1,allowance±1,MaxInt64-supply±1,MaxInt64,-1,MinInt64}; run once by the Gno driver realm; non-trivial = a TransferFrom moved a positive amount and some call was rejected on a funded ledger; distinct by case hash",
		Draw: c51Draw,
		Exec: c51Exec,
	})
}
