//go:build verif

package cons

import (
	"fmt"
	"os"
	"path/filepath"
	"sync/atomic"
	"testing"

	"pgregory.net/rapid"
	ec "verif/eng/cons"
	"verif/eng/faultdb"
	"verif/vk"
)

// C33 — a node recovers from a crash at any point of block processing.
// Node X of a 4-validator network has a real WAL, a file-based privval and
// its block-store / state DBs behind a write-counting wrapper. A fault-free
// run gives the number W of physical writes; then X is killed after write k
// (every k in the enumerator, a drawn k in the rapid test), rebuilt from what
// survived (handshake + WAL catch-up) and must rejoin.

type c33Case struct {
	Powers  []int64 `json:"powers"`
	X       int     `json:"x"`
	Heights int64   `json:"heights"`
	K       int     `json:"k"`  // crash after K physical writes of X (0 = no crash)
	K2      int     `json:"k2"` // second crash, counted in the rebooted image (0 = none)
}

var c33dir atomic.Int64

func c33Scratch() string {
	base := os.Getenv("VERIF_TMP")
	if base == "" {
		base = "/var/tmp"
	}
	d := filepath.Join(base, fmt.Sprintf("c33-%d-%d", os.Getpid(), c33dir.Add(1)))
	os.MkdirAll(d, 0o755)
	return d
}

type c33Result struct {
	Writes  int
	Sinks   []string
	Crashed int
	AtBoot  bool
}

// c33Run executes the scenario; it returns the number of writes of the first
// process image when no crash was armed.
func c33Run(c c33Case) (res c33Result, err error) {
	dir := c33Scratch()
	defer os.RemoveAll(dir)
	byz := make([]bool, len(c.Powers))
	net, e := ec.NewNet(c.Powers, byz)
	if e != nil {
		return res, fmt.Errorf("harness: %v", e)
	}
	dur := ec.NewDurable(dir)
	net.Nodes[c.X] = nil
	boot := func(crashAt int) (crashed bool, err error) {
		defer func() {
			if p := recover(); p != nil {
				if _, ok := p.(faultdb.Crash); ok {
					crashed = true
					return
				}
				panic(p)
			}
		}()
		net.XDead = false
		return false, net.BootX(c.X, dur, crashAt)
	}
	pending := []int{c.K, c.K2}
	next := func() int {
		k := pending[0]
		pending = append(pending[1:], 0)
		return k
	}
	// first boot
	for attempt := 0; ; attempt++ {
		crashed, berr := boot(next())
		if berr != nil {
			return res, fmt.Errorf("boot %d of X failed: %v", attempt, berr)
		}
		if !crashed {
			break
		}
		res.Crashed++
		res.AtBoot = true
		net.Nodes[c.X] = nil
		if attempt > 3 {
			return res, fmt.Errorf("harness: too many boot crashes")
		}
	}
	net.Start()
	target := c.Heights
	for round := 0; round < 6; round++ {
		from := map[int]int64{}
		for _, i := range net.Honest() {
			from[i] = 0
		}
		ok, _ := net.SyncSuffix(from, target, 60*len(c.Powers))
		if net.XDead && net.Nodes[c.X] != nil {
			// X hit its crash point: kill the process image and restart it
			res.Crashed++
			net.KillX()
			for attempt := 0; ; attempt++ {
				crashed, berr := boot(next())
				if berr != nil {
					return res, fmt.Errorf("restart of X after crash failed: %v", berr)
				}
				if !crashed {
					break
				}
				res.Crashed++
				res.AtBoot = true
				net.Nodes[c.X] = nil
				if attempt > 3 {
					return res, fmt.Errorf("harness: too many boot crashes")
				}
			}
			if err := net.CheckSafety(); err != nil {
				return res, err
			}
			// after a crash everybody (X included) must get one height further
			target = c.Heights + 1
			continue
		}
		if err := net.CheckSafety(); err != nil {
			return res, err
		}
		if !ok {
			return res, fmt.Errorf("no progress: heights %v, wanted %d everywhere (X=%d, crashes=%d)", net.Heights(), target, c.X, res.Crashed)
		}
		break
	}
	hs := net.Heights()
	if hs[c.X] < target {
		return res, fmt.Errorf("X did not rejoin: heights %v, wanted %d", hs, target)
	}
	res.Writes = dur.Counter.N
	res.Sinks = dur.Counter.Log
	if nd := net.Nodes[c.X]; nd != nil {
		nd.CS.VerifStop()
	}
	return res, nil
}

func c33Exec(ctx *vk.Ctx, c c33Case) error {
	res, err := c33Run(c)
	if err != nil {
		return err
	}
	ctx.ClassIf(res.Crashed > 0, "crashed")
	ctx.ClassIf(res.Crashed > 1, "crashed-twice")
	ctx.ClassIf(res.AtBoot, "crashed-during-boot")
	ctx.NTIf(res.Crashed > 0)
	ctx.Note("crashes", res.Crashed)
	return nil
}

func TestC33_Crash(t *testing.T) {
	vk.Run(t, vk.Spec[c33Case]{
		ID: "C33", Name: "TestC33_Crash",
		Rule: "rapid: 4 validators with drawn powers, a drawn crashing node X, 2-4 heights, a crash after a drawn number K of physical writes of X's block-store, state and application DBs (handshake writes included) and optionally a second crash K2 in the rebooted image; X is rebuilt from the surviving DBs, WAL files, privval state and app, and must pass the handshake, rejoin and commit the same blocks; non-trivial = at least one crash actually happened",
		Draw: func(rt *rapid.T) c33Case {
			c := c33Case{Powers: make([]int64, 4)}
			for i := range c.Powers {
				c.Powers[i] = int64(rapid.SampledFrom([]int{1, 1, 2, 3}).Draw(rt, "p"))
			}
			c.X = rapid.IntRange(0, 3).Draw(rt, "x")
			c.Heights = int64(rapid.IntRange(2, 4).Draw(rt, "heights"))
			c.K = rapid.IntRange(1, 40).Draw(rt, "k")
			if rapid.IntRange(0, 2).Draw(rt, "second") == 0 {
				c.K2 = rapid.IntRange(1, 25).Draw(rt, "k2")
			}
			return c
		},
		Exec: c33Exec,
	})
}

// TestC33_Sweep enumerates EVERY crash point of fixed histories.
func TestC33_Sweep(t *testing.T) {
	r := vk.Open(t, "C33", "TestC33_Sweep", "enumeration: for each base history (powers, X, heights) a fault-free run counts the W physical writes of X, then every k in 1..W is used as the crash point (exhaustive per history); non-trivial = the crash fell between two writes of one height's commit window")
	defer r.Close()
	if vk.Replaying() {
		t.Skip()
	}
	r.ReplayAs = "TestC33_Crash"
	r.Extra("exhaustive", true)
	bases := []c33Case{
		{Powers: []int64{1, 1, 1, 1}, X: 0, Heights: 2},
		{Powers: []int64{3, 1, 2, 1}, X: 2, Heights: 3},
	}
	if r.Thorough() {
		bases = append(bases,
			c33Case{Powers: []int64{1, 2, 1, 3}, X: 3, Heights: 4},
			c33Case{Powers: []int64{2, 2, 1, 1}, X: 1, Heights: 4},
			c33Case{Powers: []int64{1, 1, 1, 1}, X: 2, Heights: 5},
		)
	}
	points := 0
	for _, b := range bases {
		res, err := c33Run(b)
		if err != nil {
			r.Fail(b, fmt.Errorf("fault-free run: %v", err))
			return
		}
		for k := 1; k <= res.Writes; k++ {
			c := b
			c.K = k
			sink := res.Sinks[k-1]
			nextSink := ""
			if k < len(res.Sinks) {
				nextSink = res.Sinks[k]
			}
			if r.Do(c, func(ctx *vk.Ctx) error {
				ctx.Class("after:" + sink)
				ctx.NTIf(nextSink != "")
				return c33Exec(ctx, c)
			}) != nil {
				return
			}
			points++
		}
	}
	r.Extra("crash_points", points)
}
