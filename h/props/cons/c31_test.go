//go:build verif

package cons

import (
	"fmt"
	"os"
	"testing"

	"github.com/gnolang/gno/tm2/pkg/bft/types"
	"pgregory.net/rapid"
	ec "verif/eng/cons"
	"verif/vk"
)

// C31 — honest nodes never commit conflicting blocks (safety, after every
// action of a harness-owned schedule with byzantine injections) and make
// progress once the network is synchronous (bounded stand-in for liveness).

type c31Action struct {
	K string `json:"k"`
	A int    `json:"a"`
	B int    `json:"b"`
	C int    `json:"c"`
}

type c31Case struct {
	Powers  []int64     `json:"powers"`
	Byz     []bool      `json:"byz"`
	Actions []c31Action `json:"actions"`
}

var c31Kinds = []string{"deliver", "deliver", "deliver", "flush", "flush", "flushgroup", "flushgroup", "flushgroup", "drop", "dropto", "dup", "fire", "fire", "fireall", "byzvote", "byzvote", "byzvote", "byzprop", "byzprop"}

func c31Draw(rt *rapid.T) c31Case {
	n := rapid.SampledFrom([]int{4, 4, 5, 7}).Draw(rt, "n")
	c := c31Case{Powers: make([]int64, n), Byz: make([]bool, n)}
	var total int64
	for i := range c.Powers {
		c.Powers[i] = int64(rapid.SampledFrom([]int{1, 1, 1, 2, 3}).Draw(rt, "power"))
		total += c.Powers[i]
	}
	// choose byzantine validators while their power stays < 1/3
	var byzPower int64
	for i := range c.Byz {
		if rapid.IntRange(0, 2).Draw(rt, "byz") == 0 && 3*(byzPower+c.Powers[i]) < total {
			c.Byz[i] = true
			byzPower += c.Powers[i]
		}
	}
	na := rapid.IntRange(20, 260).Draw(rt, "nactions")
	for i := 0; i < na; i++ {
		c.Actions = append(c.Actions, c31Action{
			K: rapid.SampledFrom(c31Kinds).Draw(rt, "k"),
			A: rapid.IntRange(0, 1<<12).Draw(rt, "a"),
			B: rapid.IntRange(0, 1<<12).Draw(rt, "b"),
			C: rapid.IntRange(0, 1<<12).Draw(rt, "c"),
		})
	}
	return c
}

func c31Exec(ctx *vk.Ctx, c c31Case) error {
	net, err := ec.NewNet(c.Powers, c.Byz)
	if err != nil {
		return fmt.Errorf("harness: %v", err)
	}
	net.Start()
	honest := net.Honest()
	var byz []int
	for i, b := range c.Byz {
		if b {
			byz = append(byz, i)
		}
	}
	group := func(mask int) map[int]bool {
		g := map[int]bool{}
		for bit, i := range honest {
			if mask&(1<<uint(bit)) != 0 {
				g[i] = true
			}
		}
		return g
	}
	equivDelivered := 0
	const heightCap = 4
	for ai, a := range c.Actions {
		over := false
		for _, h := range net.Heights() {
			if h >= heightCap {
				over = true
			}
		}
		if over {
			break
		}
		switch a.K {
		case "deliver":
			if len(net.Pool) > 0 {
				net.Deliver(a.A % len(net.Pool))
			}
		case "flush":
			g := map[int]bool{honest[a.A%len(honest)]: true}
			net.FlushWithin(g, false, 200)
		case "flushgroup":
			net.FlushWithin(group(a.A), a.B%2 == 0, 400)
		case "drop":
			if len(net.Pool) > 0 {
				net.Drop(a.A % len(net.Pool))
			}
		case "dropto":
			to := honest[a.A%len(honest)]
			for k := len(net.Pool) - 1; k >= 0; k-- {
				if net.Pool[k].To == to {
					net.Drop(k)
				}
			}
		case "dup":
			if len(net.Pool) > 0 && len(net.Pool) < 5000 {
				net.Dup(a.A % len(net.Pool))
			}
		case "fire":
			net.Fire(honest[a.A%len(honest)])
		case "fireall":
			for _, i := range honest {
				net.Fire(i)
			}
		case "byzvote":
			if len(byz) == 0 {
				continue
			}
			v := byz[a.A%len(byz)]
			ref := honest[a.C%len(honest)]
			rs := net.Nodes[ref].CS.GetRoundState()
			typ := types.PrevoteType
			if a.B&1 == 1 {
				typ = types.PrecommitType
			}
			var bid types.BlockID
			switch (a.B >> 1) % 4 {
			case 0: // nil
			case 1:
				if rs.ProposalBlock != nil && rs.ProposalBlockParts != nil {
					bid = types.BlockID{Hash: rs.ProposalBlock.Hash(), PartsHeader: rs.ProposalBlockParts.Header()}
				}
			case 2:
				if rs.LockedBlock != nil && rs.LockedBlockParts != nil {
					bid = types.BlockID{Hash: rs.LockedBlock.Hash(), PartsHeader: rs.LockedBlockParts.Header()}
				}
			case 3:
				h := make([]byte, 32)
				h[0] = byte(a.B)
				bid = types.BlockID{Hash: h, PartsHeader: types.PartSetHeader{Total: 1, Hash: h}}
			}
			round := rs.Round
			if (a.B>>4)%4 == 0 && round > 0 {
				round--
			}
			msg := net.ByzVote(v, rs.Height, round, typ, bid)
			var dests []int
			for bit, i := range honest {
				if (a.C>>4)&(1<<uint(bit)) != 0 {
					dests = append(dests, i)
				}
			}
			if len(dests) == 0 {
				dests = honest
			}
			net.SendTo(v, msg, dests)
			ctx.Class("byz-vote-injected")
		case "byzprop":
			if len(byz) == 0 {
				continue
			}
			ref := honest[a.C%len(honest)]
			rs := net.Nodes[ref].CS.GetRoundState()
			p := net.ProposerAt(ref, rs.Round)
			if p < 0 || !c.Byz[p] {
				continue
			}
			pm1, parts1, _, err1 := net.ByzProposal(p, ref, rs.Round, -1, []types.Tx{types.Tx(fmt.Sprintf("a=%d", ai))})
			pm2, parts2, _, err2 := net.ByzProposal(p, ref, rs.Round, -1, []types.Tx{types.Tx(fmt.Sprintf("b=%d", ai))})
			if err1 != nil || err2 != nil {
				continue
			}
			g := group(a.A)
			var d1, d2 []int
			for _, i := range honest {
				if g[i] {
					d1 = append(d1, i)
				} else {
					d2 = append(d2, i)
				}
			}
			if a.B%3 == 0 { // honest-looking: same proposal to everyone
				d1, d2 = honest, nil
			}
			net.SendTo(p, pm1, d1)
			for _, bp := range parts1 {
				net.SendTo(p, bp, d1)
			}
			if len(d2) > 0 {
				net.SendTo(p, pm2, d2)
				for _, bp := range parts2 {
					net.SendTo(p, bp, d2)
				}
				if len(d1) > 0 {
					equivDelivered++
				}
			}
			ctx.Class("byz-proposal-injected")
		}
		if err := net.CheckSafety(); err != nil {
			return fmt.Errorf("after action %d (%+v): %v", ai, a, err)
		}
	}
	ctx.ClassIf(net.MaxRoundSeen >= 1, "reached-round>=1")
	ctx.ClassIf(net.LockedAtRound1, "locked-at-round>=1")
	ctx.ClassIf(equivDelivered > 0, "equivocating-proposal")
	ctx.ClassIf(len(byz) > 0, "has-byzantine")
	ctx.NTIf(net.LockedAtRound1 || equivDelivered > 0)
	// bounded liveness: synchronous, fault-free suffix
	from := net.Heights()
	ok, iters := net.SyncSuffix(from, 1, 40*len(c.Powers))
	if err := net.CheckSafety(); err != nil {
		return fmt.Errorf("in the synchronous suffix: %v", err)
	}
	if !ok {
		if os.Getenv("VERIF_DEBUG") != "" {
			for _, i := range net.Honest() {
				rs := net.Nodes[i].CS.GetRoundState()
				fmt.Printf("node %d store=%d: %s\n", i, net.Nodes[i].BS.Height(), rs.StringIndented("  "))
				if tk, ok := net.Nodes[i].Ticker.Pending(); ok {
					fmt.Printf("  pending timeout %+v\n", tk)
				}
			}
		}
		return fmt.Errorf("no progress: after a synchronous fault-free suffix of %d iterations some honest node did not commit a further height: before %v after %v", iters, from, net.Heights())
	}
	ctx.Note("suffix_iters", iters)
	return nil
}

func TestC31_Safety(t *testing.T) {
	vk.Run(t, vk.Spec[c31Case]{
		ID: "C31", Name: "TestC31_Safety",
		Rule: "rapid: n in {4,5,7} validators with powers 1-3, a byzantine subset with < 1/3 power, and a schedule of 20-260 actions over real ConsensusStates driven by the step driver: deliver one/flush to a node/flush inside a partition, drop, cut a node off, duplicate, fire one/all armed timeouts, byzantine votes (nil / current proposal / locked block / fake id, current or previous round, to a subset) and equivocating proposals when a byzantine validator is the proposer; agreement and no-double-sign are checked after every action, then a synchronous fault-free suffix must make every honest node commit one more height; non-trivial = an honest node was locked at round >= 1 or an equivocating proposal was sent to two disjoint honest groups",
		Draw: c31Draw, Exec: c31Exec,
	})
}
