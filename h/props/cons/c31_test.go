//go:build verif

package cons

import (
	"fmt"
	"os"
	"testing"

	"github.com/gnolang/gno/tm2/pkg/bft/types"
	"pgregory.net/rapid"
	cstypes "github.com/gnolang/gno/tm2/pkg/bft/consensus/types"
	ec "verif/eng/cons"
	"verif/vk"
)

// C31 — honest nodes never commit conflicting blocks (safety, after every
// action of a harness-owned schedule with byzantine injections) and make
// progress once the network is synchronous (bounded stand-in for liveness).

type c31Action struct {
	K string `json:"k"`
	A int    `json:"a"`
	B int    `json:"b"`
	C int    `json:"c"`
}

type c31Case struct {
	Powers  []int64     `json:"powers"`
	Byz     []bool      `json:"byz"`
	Actions []c31Action `json:"actions"`
}

var c31Kinds = []string{"flushkind", "flushkind", "flushkind", "flushkind", "flushkind", "flushkind", "firegroup", "firegroup", "deliver", "deliver", "deliver", "flush", "flush", "flushgroup", "flushgroup", "flushgroup", "drop", "dropto", "dup", "fire", "fire", "fireall", "byzvote", "byzvote", "byzvote", "byzprop", "byzprop"}

func c31Draw(rt *rapid.T) c31Case {
	n := rapid.SampledFrom([]int{4, 4, 5, 7}).Draw(rt, "n")
	c := c31Case{Powers: make([]int64, n), Byz: make([]bool, n)}
	var total int64
	for i := range c.Powers {
		c.Powers[i] = int64(rapid.SampledFrom([]int{1, 1, 1, 2, 3}).Draw(rt, "power"))
		total += c.Powers[i]
	}
	// choose byzantine validators while their power stays < 1/3
	var byzPower int64
	for i := range c.Byz {
		if rapid.IntRange(0, 2).Draw(rt, "byz") == 0 && 3*(byzPower+c.Powers[i]) < total {
			c.Byz[i] = true
			byzPower += c.Powers[i]
		}
	}
	na := rapid.IntRange(20, 260).Draw(rt, "nactions")
	for i := 0; i < na; i++ {
		c.Actions = append(c.Actions, c31Action{
			K: rapid.SampledFrom(c31Kinds).Draw(rt, "k"),
			A: rapid.IntRange(0, 1<<12).Draw(rt, "a"),
			B: rapid.IntRange(0, 1<<12).Draw(rt, "b"),
			C: rapid.IntRange(0, 1<<12).Draw(rt, "c"),
		})
	}
	return c
}


// c31AbandonedCommit reports whether the lack of progress is explained by this
// exact situation: some honest node holds, at its current height, +2/3
// precommits for a block at an earlier round (so it had entered the commit
// step) but a round skip (+2/3-any votes of a later round) took it out of the
// commit step, and nothing re-triggers the commit once its peers have moved
// on. Every other honest node that did not progress must be ahead of those
// nodes and unable to form a quorum without them (the byzantine validators are
// silent in the suffix).
func c31AbandonedCommit(net *ec.Net, from map[int]int64) bool {
	abandoned := map[int]bool{}
	var minAbandonedHeight int64 = -1
	for _, i := range net.Honest() {
		nd := net.Nodes[i]
		if nd.BS.Height() > from[i] {
			continue
		}
		rs := nd.CS.GetRoundState()
		if rs.Votes == nil || rs.Step == cstypes.RoundStepCommit {
			continue
		}
		for r := 0; r < rs.Round; r++ {
			if pc := rs.Votes.Precommits(r); pc != nil {
				if bid, ok := pc.TwoThirdsMajority(); ok && len(bid.Hash) != 0 {
					abandoned[i] = true
				}
			}
		}
		if abandoned[i] && (minAbandonedHeight < 0 || rs.Height < minAbandonedHeight) {
			minAbandonedHeight = rs.Height
		}
	}
	if len(abandoned) == 0 {
		return false
	}
	var total, others int64
	for i, p := range net.Powers {
		total += p
		if net.Nodes[i] != nil && !abandoned[i] {
			others += p
		}
	}
	for _, i := range net.Honest() {
		if abandoned[i] || net.Nodes[i].BS.Height() > from[i] {
			continue
		}
		// a non-abandoned node that did not progress: it must be ahead of the
		// abandoned ones, and the remaining honest power must be short of a quorum
		if net.Nodes[i].CS.GetRoundState().Height <= minAbandonedHeight || 3*others > 2*total {
			return false
		}
	}
	return true
}

// c31StaleTime reports whether the lack of progress is explained by the
// block-time finding: every honest node that is not behind builds, from the
// commit it holds, a block whose weighted-median time is not after the last
// block time (a byzantine precommit with an old timestamp is the lower median
// of a minimal commit when voting powers are tiny).
func c31StaleTime(net *ec.Net) bool {
	var maxH int64
	for _, i := range net.Honest() {
		if h := net.Nodes[i].CS.GetRoundState().Height; h > maxH {
			maxH = h
		}
	}
	n := 0
	for _, i := range net.Honest() {
		if net.Nodes[i].CS.GetRoundState().Height != maxH {
			continue
		}
		if !net.StaleBlockTime(i) {
			return false
		}
		n++
	}
	return n > 0
}

// c31Apply applies schedule actions to the network, checking safety after each.
func c31Apply(ctx *vk.Ctx, net *ec.Net, byzMask []bool, actions []c31Action, equiv *int) error {
	honest := net.Honest()
	var byz []int
	for i, b := range byzMask {
		if b {
			byz = append(byz, i)
		}
	}
	c := struct{ Byz []bool }{byzMask}
	group := func(mask int) map[int]bool {
		g := map[int]bool{}
		for bit, i := range honest {
			if mask&(1<<uint(bit)) != 0 {
				g[i] = true
			}
		}
		return g
	}
	const heightCap = 4
	for ai, a := range actions {
		over := false
		for _, h := range net.Heights() {
			if h >= heightCap {
				over = true
			}
		}
		if over {
			break
		}
		switch a.K {
		case "deliver":
			if len(net.Pool) > 0 {
				net.Deliver(a.A % len(net.Pool))
			}
		case "flush":
			g := map[int]bool{honest[a.A%len(honest)]: true}
			net.FlushWithin(g, false, 200)
		case "flushgroup":
			net.FlushWithin(group(a.A), a.B%2 == 0, 400)
		case "flushkind":
			kinds := []int{1, 2, 4, 3, 6, 7, 1, 2, 4}[a.A%9]
			dst, src := group(a.B), group(a.C)
			if a.B%5 == 0 {
				dst = group(1<<12 - 1)
			}
			if a.C%3 == 0 {
				src = group(1<<12 - 1)
			}
			net.FlushKinds(kinds, dst, src, 400)
		case "firegroup":
			g := group(a.A)
			for _, i := range honest {
				if g[i] {
					net.Fire(i)
				}
			}
		case "drop":
			if len(net.Pool) > 0 {
				net.Drop(a.A % len(net.Pool))
			}
		case "dropto":
			to := honest[a.A%len(honest)]
			for k := len(net.Pool) - 1; k >= 0; k-- {
				if net.Pool[k].To == to {
					net.Drop(k)
				}
			}
		case "dup":
			if len(net.Pool) > 0 && len(net.Pool) < 5000 {
				net.Dup(a.A % len(net.Pool))
			}
		case "fire":
			net.Fire(honest[a.A%len(honest)])
		case "fireall":
			for _, i := range honest {
				net.Fire(i)
			}
		case "byzvote":
			if len(byz) == 0 {
				continue
			}
			v := byz[a.A%len(byz)]
			ref := honest[a.C%len(honest)]
			rs := net.Nodes[ref].CS.GetRoundState()
			typ := types.PrevoteType
			if a.B&1 == 1 {
				typ = types.PrecommitType
			}
			var bid types.BlockID
			switch (a.B >> 1) % 4 {
			case 0: // nil
			case 1:
				if rs.ProposalBlock != nil && rs.ProposalBlockParts != nil {
					bid = types.BlockID{Hash: rs.ProposalBlock.Hash(), PartsHeader: rs.ProposalBlockParts.Header()}
				}
			case 2:
				if rs.LockedBlock != nil && rs.LockedBlockParts != nil {
					bid = types.BlockID{Hash: rs.LockedBlock.Hash(), PartsHeader: rs.LockedBlockParts.Header()}
				}
			case 3:
				h := make([]byte, 32)
				h[0] = byte(a.B)
				bid = types.BlockID{Hash: h, PartsHeader: types.PartSetHeader{Total: 1, Hash: h}}
			}
			round := rs.Round
			if (a.B>>4)%4 == 0 && round > 0 {
				round--
			}
			oldTime := (a.B>>6)%8 == 0 // rarely: a timestamp far in the past (see known finding byzantine-old-timestamp-halts-chain)
			ctx.ClassIf(oldTime, "byz-vote-old-timestamp")
			msg := net.ByzVoteAt(v, rs.Height, round, typ, bid, oldTime)
			var dests []int
			for bit, i := range honest {
				if (a.C>>4)&(1<<uint(bit)) != 0 {
					dests = append(dests, i)
				}
			}
			if len(dests) == 0 {
				dests = honest
			}
			net.SendTo(v, msg, dests)
			ctx.Class("byz-vote-injected")
		case "byzprop":
			if len(byz) == 0 {
				continue
			}
			ref := honest[a.C%len(honest)]
			rs := net.Nodes[ref].CS.GetRoundState()
			p := net.ProposerAt(ref, rs.Round)
			if p < 0 || !c.Byz[p] {
				continue
			}
			pm1, parts1, _, err1 := net.ByzProposal(p, ref, rs.Round, -1, []types.Tx{types.Tx(fmt.Sprintf("a=%d", ai))})
			pm2, parts2, _, err2 := net.ByzProposal(p, ref, rs.Round, -1, []types.Tx{types.Tx(fmt.Sprintf("b=%d", ai))})
			if err1 != nil || err2 != nil {
				continue
			}
			g := group(a.A)
			var d1, d2 []int
			for _, i := range honest {
				if g[i] {
					d1 = append(d1, i)
				} else {
					d2 = append(d2, i)
				}
			}
			if a.B%3 == 0 { // honest-looking: same proposal to everyone
				d1, d2 = honest, nil
			}
			net.SendTo(p, pm1, d1)
			for _, bp := range parts1 {
				net.SendTo(p, bp, d1)
			}
			if len(d2) > 0 {
				net.SendTo(p, pm2, d2)
				for _, bp := range parts2 {
					net.SendTo(p, bp, d2)
				}
				if len(d1) > 0 {
					*equiv++
				}
			}
			ctx.Class("byz-proposal-injected")
		}
		if err := net.CheckSafety(); err != nil {
			return fmt.Errorf("after action %d (%+v): %v", ai, a, err)
		}
	}
	return nil
}

func c31Exec(ctx *vk.Ctx, c c31Case) error {
	net, err := ec.NewNet(c.Powers, c.Byz)
	if err != nil {
		return fmt.Errorf("harness: %v", err)
	}
	net.Start()
	nbyz := 0
	for _, b := range c.Byz {
		if b {
			nbyz++
		}
	}
	equivDelivered := 0
	if err := c31Apply(ctx, net, c.Byz, c.Actions, &equivDelivered); err != nil {
		return err
	}
	ctx.ClassIf(net.MaxRoundSeen >= 1, "reached-round>=1")
	ctx.ClassIf(net.LockedAtRound1, "locked-at-round>=1")
	ctx.ClassIf(equivDelivered > 0, "equivocating-proposal")
	ctx.ClassIf(nbyz > 0, "has-byzantine")
	ctx.NTIf(net.LockedAtRound1 || equivDelivered > 0)
	// bounded liveness: synchronous, fault-free suffix
	from := net.Heights()
	ok, iters := net.SyncSuffix(from, 1, 40*len(c.Powers))
	if err := net.CheckSafety(); err != nil {
		return fmt.Errorf("in the synchronous suffix: %v", err)
	}
	if !ok && c31AbandonedCommit(net, from) && ctx.Known("commit-abandoned-by-round-skip") {
		ok = true
	}
	if !ok && c31StaleTime(net) && ctx.Known("byzantine-old-timestamp-halts-chain") {
		ok = true
	}
	if !ok {
		if os.Getenv("VERIF_DEBUG") != "" {
			for _, i := range net.Honest() {
				rs := net.Nodes[i].CS.GetRoundState()
				fmt.Printf("node %d store=%d: %s\n", i, net.Nodes[i].BS.Height(), rs.StringIndented("  "))
				if tk, ok := net.Nodes[i].Ticker.Pending(); ok {
					fmt.Printf("  pending timeout %+v\n", tk)
				}
			}
		}
		return fmt.Errorf("no progress: after a synchronous fault-free suffix of %d iterations some honest node did not commit a further height: before %v after %v", iters, from, net.Heights())
	}
	ctx.Note("suffix_iters", iters)
	return nil
}

func TestC31_Safety(t *testing.T) {
	vk.Run(t, vk.Spec[c31Case]{
		ID: "C31", Name: "TestC31_Safety",
		Rule: "rapid: n in {4,5,7} validators with powers 1-3, a byzantine subset with < 1/3 power, and a schedule of 20-260 actions over real ConsensusStates driven by the step driver: deliver one/flush to a node/flush inside a partition/flush one message kind (proposal+parts, prevotes, precommits) from a source group to a destination group, drop, cut a node off, duplicate, fire one/all armed timeouts, byzantine votes (nil / current proposal / locked block / fake id, current or previous round, to a subset) and equivocating proposals when a byzantine validator is the proposer; agreement and no-double-sign are checked after every action, then a synchronous fault-free suffix must make every honest node commit one more height; non-trivial = an honest node was locked at round >= 1 or an equivocating proposal was sent to two disjoint honest groups",
		Draw: c31Draw, Exec: c31Exec,
	})
}

// ---------------------------------------------------------------------------
// Directed schedules: the situations in which the locking rules matter are a
// tiny region of the schedule space, so this generator constructs them — a
// polka forms for block A at round 0 while one validator (preferably the
// proposer of round 1) misses it, a subset S1 of nodes sees +2/3 precommits
// for A and commits, the rest time out into round 1 where a different block B
// can be proposed — and surrounds the template with drawn noise.

type c31Directed struct {
	Powers []int64     `json:"powers"`
	Miss   int         `json:"miss"`   // which honest node misses the round-0 proposal: 0 = the round-1 proposer, k>0 = honest[k-1]
	S1     int         `json:"s1"`     // mask of nodes that receive all round-0 precommits
	Leak   int         `json:"leak"`   // mask of extra prevote deliveries to the missing node (0 = none)
	Noise  []c31Action `json:"noise"`  // actions inserted between template steps
	Where  []int       `json:"where"`  // step index before which each noise action runs
	Tail   []c31Action `json:"tail"`   // random actions after the template
	Rounds int         `json:"rounds"` // how many further rounds to push through with "flush everything then fire all"
}

func c31DirectedExec(ctx *vk.Ctx, c c31Directed) error {
	byzMask := make([]bool, len(c.Powers))
	net, err := ec.NewNet(c.Powers, byzMask)
	if err != nil {
		return fmt.Errorf("harness: %v", err)
	}
	net.Start()
	honest := net.Honest()
	all := map[int]bool{}
	for _, i := range honest {
		all[i] = true
	}
	group := func(mask int) map[int]bool {
		g := map[int]bool{}
		for bit, i := range honest {
			if mask&(1<<uint(bit)) != 0 {
				g[i] = true
			}
		}
		return g
	}
	equiv := 0
	noiseAt := func(step int) error {
		for k, w := range c.Where {
			if w == step && k < len(c.Noise) {
				if err := c31Apply(ctx, net, byzMask, c.Noise[k:k+1], &equiv); err != nil {
					return err
				}
			}
		}
		return nil
	}
	check := func(step string) error {
		if err := net.CheckSafety(); err != nil {
			return fmt.Errorf("directed step %s: %v", step, err)
		}
		return nil
	}
	// step 0: everybody starts height 1 round 0
	for _, i := range honest {
		net.Fire(i) // NewHeight -> NewRound/Propose
	}
	miss := -1
	if c.Miss == 0 {
		miss = net.ProposerAt(honest[0], 1)
		if p0 := net.ProposerAt(honest[0], 0); miss == p0 {
			miss = -1 // same proposer in both rounds: nobody can miss its own proposal
		}
	} else {
		miss = honest[(c.Miss-1)%len(honest)]
	}
	rest := map[int]bool{}
	for _, i := range honest {
		if i != miss {
			rest[i] = true
		}
	}
	if err := noiseAt(1); err != nil {
		return err
	}
	// step 1: proposal and parts reach everybody except the missing node, which times out of propose
	net.FlushKinds(1, rest, all, 400)
	if miss >= 0 {
		net.Fire(miss) // propose timeout -> prevote nil
	}
	if err := check("1"); err != nil {
		return err
	}
	if err := noiseAt(2); err != nil {
		return err
	}
	// step 2: prevotes reach the rest (polka for A -> lock A, precommit A); the missing node only gets a leak
	net.FlushKinds(2, rest, all, 400)
	if miss >= 0 {
		net.FlushKinds(2, map[int]bool{miss: true}, group(c.Leak), 400)
		net.Fire(miss) // prevote-wait timeout if armed
	}
	if err := check("2"); err != nil {
		return err
	}
	if err := noiseAt(3); err != nil {
		return err
	}
	// step 3: precommits reach only S1 (they commit A); everybody else gets them from a strict subset
	s1 := group(c.S1)
	net.FlushKinds(4, s1, all, 400)
	if err := check("3"); err != nil {
		return err
	}
	locked := 0
	for _, i := range honest {
		if rs := net.Nodes[i].CS.GetRoundState(); rs.Height == 1 && rs.LockedBlock != nil {
			locked++
		}
	}
	committed := 0
	for _, h := range net.Heights() {
		if h >= 1 {
			committed++
		}
	}
	ctx.ClassIf(locked > 0, "some-locked-after-round0")
	ctx.ClassIf(committed > 0 && committed < len(honest), "split-commit")
	if err := noiseAt(4); err != nil {
		return err
	}
	// step 4: the others see only part of the precommits and time out into round 1
	notS1 := map[int]bool{}
	for _, i := range honest {
		if !s1[i] {
			notS1[i] = true
		}
	}
	net.FlushKinds(4, notS1, notS1, 400)
	for _, i := range honest {
		if notS1[i] {
			net.Fire(i)
		}
	}
	if err := check("4"); err != nil {
		return err
	}
	// further rounds: synchronous among the not-yet-committed nodes only
	for r := 0; r < c.Rounds; r++ {
		if err := noiseAt(5 + r); err != nil {
			return err
		}
		net.FlushKinds(7, notS1, notS1, 2000)
		if err := check(fmt.Sprintf("round+%d flush", r)); err != nil {
			return err
		}
		for _, i := range honest {
			if notS1[i] {
				net.Fire(i)
			}
		}
		if err := check(fmt.Sprintf("round+%d fire", r)); err != nil {
			return err
		}
	}
	if err := c31Apply(ctx, net, byzMask, c.Tail, &equiv); err != nil {
		return err
	}
	ctx.ClassIf(net.MaxRoundSeen >= 1, "reached-round>=1")
	ctx.ClassIf(net.LockedAtRound1, "locked-at-round>=1")
	ctx.NTIf(net.LockedAtRound1 && committed > 0 && committed < len(honest))
	from := net.Heights()
	ok, iters := net.SyncSuffix(from, 1, 40*len(c.Powers))
	if err := net.CheckSafety(); err != nil {
		return fmt.Errorf("in the synchronous suffix: %v", err)
	}
	if !ok && c31AbandonedCommit(net, from) && ctx.Known("commit-abandoned-by-round-skip") {
		ok = true
	}
	if !ok && c31StaleTime(net) && ctx.Known("byzantine-old-timestamp-halts-chain") {
		ok = true
	}
	if !ok {
		if os.Getenv("VERIF_DEBUG") != "" {
			for _, i := range net.Honest() {
				rs := net.Nodes[i].CS.GetRoundState()
				fmt.Printf("node %d store=%d: %s\n", i, net.Nodes[i].BS.Height(), rs.StringIndented("  "))
				if tk, ok := net.Nodes[i].Ticker.Pending(); ok {
					fmt.Printf("  pending timeout %+v\n", tk)
				}
			}
		}
		return fmt.Errorf("no progress in the synchronous suffix (%d iterations): before %v after %v", iters, from, net.Heights())
	}
	return nil
}

func TestC31_Directed(t *testing.T) {
	vk.Run(t, vk.Spec[c31Directed]{
		ID: "C31", Name: "TestC31_Directed",
		Rule: "rapid: directed schedules over 4-5 honest validators with drawn powers: round 0 forms a polka for block A while a drawn validator (by default the round-1 proposer) misses the proposal, a drawn subset S1 receives all precommits (and commits A), the others receive only their own group's precommits and time out into round 1, then 1-3 further synchronous rounds among the uncommitted nodes; drawn noise actions are inserted between the steps and a random tail follows; safety after every step, then the synchronous suffix; non-trivial = some node was locked at round >= 1 while a strict subset had already committed",
		Draw: func(rt *rapid.T) c31Directed {
			n := rapid.SampledFrom([]int{4, 4, 5}).Draw(rt, "n")
			c := c31Directed{Powers: make([]int64, n)}
			for i := range c.Powers {
				c.Powers[i] = int64(rapid.SampledFrom([]int{1, 1, 1, 2}).Draw(rt, "power"))
			}
			c.Miss = rapid.SampledFrom([]int{0, 0, 0, 1, 2, 3, 4}).Draw(rt, "miss")
			c.S1 = rapid.IntRange(0, 1<<uint(n)-1).Draw(rt, "s1")
			if rapid.IntRange(0, 2).Draw(rt, "single") > 0 {
				c.S1 = 1 << uint(rapid.IntRange(0, n-1).Draw(rt, "s1bit"))
			}
			c.Leak = rapid.SampledFrom([]int{0, 0, 1, 2, 3, 5, 6}).Draw(rt, "leak")
			c.Rounds = rapid.IntRange(1, 3).Draw(rt, "rounds")
			nn := rapid.IntRange(0, 3).Draw(rt, "nnoise")
			for i := 0; i < nn; i++ {
				c.Noise = append(c.Noise, c31Action{K: rapid.SampledFrom(c31Kinds).Draw(rt, "k"), A: rapid.IntRange(0, 1<<12).Draw(rt, "a"), B: rapid.IntRange(0, 1<<12).Draw(rt, "b"), C: rapid.IntRange(0, 1<<12).Draw(rt, "c")})
				c.Where = append(c.Where, rapid.IntRange(1, 7).Draw(rt, "where"))
			}
			nt := rapid.IntRange(0, 30).Draw(rt, "ntail")
			for i := 0; i < nt; i++ {
				c.Tail = append(c.Tail, c31Action{K: rapid.SampledFrom(c31Kinds).Draw(rt, "k"), A: rapid.IntRange(0, 1<<12).Draw(rt, "a"), B: rapid.IntRange(0, 1<<12).Draw(rt, "b"), C: rapid.IntRange(0, 1<<12).Draw(rt, "c")})
			}
			return c
		},
		Exec: c31DirectedExec,
	})
}

// ---------------------------------------------------------------------------
// Second directed template ("relock without the proposal"): X and Y lock block
// B in round 0 without anybody committing; in round 1 B is re-proposed, X
// times out of propose before the proposal arrives and prevotes B from its
// lock, sees the polka and precommits B through the relock path; Y collects
// +2/3 precommits (with the byzantine W) and commits B while X and the
// never-locked Z move to round 2, where a different block D is offered and W
// supports it. Safe iff X is still locked on B.

type c31Relock struct {
	WChoice int         `json:"w_choice"` // which admissible validator is byzantine
	Txs     int         `json:"txs"`
	Noise   []c31Action `json:"noise"`
	Where   []int       `json:"where"`
	Tail    []c31Action `json:"tail"`
}

func c31RelockExec(ctx *vk.Ctx, c c31Relock) error {
	powers := []int64{1, 1, 1, 1}
	probe, err := ec.NewNet(powers, []bool{false, false, false, false})
	if err != nil {
		return fmt.Errorf("harness: %v", err)
	}
	p0, p1, p2 := probe.ProposerAt(0, 0), probe.ProposerAt(0, 1), probe.ProposerAt(0, 2)
	for _, i := range probe.Honest() {
		probe.Nodes[i].CS.VerifStop()
	}
	// roles: Y proposes round 1 (or W does), Z proposes round 2 (or W does), X is the rest
	var cands []int // admissible byzantine validators
	for w := 0; w < 4; w++ {
		// need p1 in {Y,W} and p2 in {Z,W} with X,Y,Z distinct honest
		var honest []int
		for i := 0; i < 4; i++ {
			if i != w {
				honest = append(honest, i)
			}
		}
		_ = honest
		if p1 != p2 || p1 == w {
			cands = append(cands, w)
		}
	}
	if len(cands) == 0 {
		ctx.Class("no-admissible-role-assignment")
		return nil
	}
	W := cands[c.WChoice%len(cands)]
	byz := make([]bool, 4)
	byz[W] = true
	net, err := ec.NewNet(powers, byz)
	if err != nil {
		return fmt.Errorf("harness: %v", err)
	}
	net.Start()
	var X, Y, Z = -1, -1, -1
	used := map[int]bool{W: true}
	if p1 != W {
		Y = p1
		used[Y] = true
	}
	if p2 != W && !used[p2] {
		Z = p2
		used[Z] = true
	}
	for i := 0; i < 4; i++ {
		if used[i] {
			continue
		}
		switch {
		case Y < 0:
			Y = i
		case Z < 0:
			Z = i
		default:
			X = i
		}
		used[i] = true
	}
	if X < 0 || Y < 0 || Z < 0 {
		ctx.Class("no-admissible-role-assignment")
		return nil
	}
	all := map[int]bool{X: true, Y: true, Z: true}
	only := func(xs ...int) map[int]bool {
		m := map[int]bool{}
		for _, x := range xs {
			m[x] = true
		}
		return m
	}
	equiv := 0
	noiseAt := func(step int) error {
		for k, w := range c.Where {
			if w == step && k < len(c.Noise) {
				if err := c31Apply(ctx, net, byz, c.Noise[k:k+1], &equiv); err != nil {
					return err
				}
			}
		}
		return nil
	}
	check := func(step string) error {
		if os.Getenv("VERIF_DEBUG") != "" {
			fmt.Printf("-- %s  (W=%d X=%d Y=%d Z=%d p=%d,%d,%d) pool=%d\n", step, W, X, Y, Z, p0, p1, p2, len(net.Pool))
			for _, i := range []int{X, Y, Z} {
				rs := net.Nodes[i].CS.GetRoundState()
				lb := "-"
				if rs.LockedBlock != nil {
					lb = fmt.Sprintf("%X", rs.LockedBlock.Hash()[:3])
				}
				pb := "-"
				if rs.ProposalBlock != nil {
					pb = fmt.Sprintf("%X", rs.ProposalBlock.Hash()[:3])
				}
				fmt.Printf("   node %d: H%d R%d %v locked=%s(r%d) prop=%s store=%d\n", i, rs.Height, rs.Round, rs.Step, lb, rs.LockedRound, pb, net.Nodes[i].BS.Height())
			}
		}
		if err := net.CheckSafety(); err != nil {
			return fmt.Errorf("relock template step %s: %v", step, err)
		}
		return nil
	}
	h := func() int64 { return net.Nodes[X].CS.GetRoundState().Height }
	// ---- round 0
	for _, i := range []int{X, Y, Z} {
		net.Fire(i)
	}
	if p0 == W {
		pm, parts, _, err := net.ByzProposal(W, X, 0, -1, []types.Tx{types.Tx(fmt.Sprintf("b=%d", c.Txs))})
		if err != nil {
			return fmt.Errorf("harness: %v", err)
		}
		net.SendTo(W, pm, []int{X, Y, Z})
		for _, bp := range parts {
			net.SendTo(W, bp, []int{X, Y, Z})
		}
	}
	net.FlushKinds(1, all, all, 400)
	rsX := net.Nodes[X].CS.GetRoundState()
	if rsX.ProposalBlock == nil || rsX.ProposalBlockParts == nil {
		ctx.Class("template-diverged:no-proposal")
		return check("r0-proposal")
	}
	bidB := types.BlockID{Hash: rsX.ProposalBlock.Hash(), PartsHeader: rsX.ProposalBlockParts.Header()}
	net.SendTo(W, net.ByzVote(W, h(), 0, types.PrevoteType, bidB), []int{X, Y})
	net.SendTo(W, net.ByzVote(W, h(), 0, types.PrevoteType, types.BlockID{}), []int{Z})
	net.FlushKinds(2, only(X), all, 400)
	net.FlushKinds(2, only(Y), all, 400)
	net.FlushKinds(2, only(Z), only(X), 400)
	net.Fire(Z) // prevote-wait -> precommit nil
	if err := check("r0-prevotes"); err != nil {
		return err
	}
	if err := noiseAt(1); err != nil {
		return err
	}
	net.FlushKinds(4, all, all, 400)
	for _, i := range []int{X, Y, Z} {
		net.Fire(i) // precommit-wait -> round 1
	}
	if err := check("r0-precommits"); err != nil {
		return err
	}
	lockedXY := net.Nodes[X].CS.GetRoundState().LockedBlock != nil && net.Nodes[Y].CS.GetRoundState().LockedBlock != nil
	ctx.ClassIf(lockedXY, "x-and-y-locked-after-round0")
	if h() != 1 || !lockedXY || net.Nodes[X].CS.GetRoundState().Round != 1 {
		ctx.Class("template-diverged:round0")
	}
	// ---- round 1
	if p1 == W {
		pm, parts, _, err := net.ByzRepropose(W, Y, 1, 0)
		if err == nil {
			net.SendTo(W, pm, []int{Y, Z})
			for _, bp := range parts {
				net.SendTo(W, bp, []int{Y, Z})
			}
		}
	}
	net.Fire(X) // propose timeout before the proposal arrives: X prevotes from its lock
	net.FlushKinds(1, only(Y, Z), all, 400)
	// the re-proposal carries POLRound 0, whose polka Z never saw: Z only prevotes at its propose timeout
	if net.Nodes[Z].CS.GetRoundState().Step <= cstypes.RoundStepPropose {
		net.Fire(Z)
	}
	if err := noiseAt(2); err != nil {
		return err
	}
	net.SendTo(W, net.ByzVote(W, h(), 1, types.PrevoteType, bidB), []int{X, Y})
	net.SendTo(W, net.ByzVote(W, h(), 1, types.PrevoteType, types.BlockID{}), []int{Z})
	net.FlushKinds(2, only(X), all, 400)
	net.FlushKinds(2, only(Y), all, 400)
	net.FlushKinds(2, only(Z), only(X), 400)
	if os.Getenv("VERIF_DEBUG") != "" {
		tk, ok := net.Nodes[Z].Ticker.Pending()
		rs := net.Nodes[Z].CS.GetRoundState()
		fmt.Printf("   Z before fire: pending=%+v %v step=%v prevotes=%s\n", tk, ok, rs.Step, rs.Votes.Prevotes(1).BitArray())
	}
	net.Fire(Z)
	net.Fire(X) // X has no complete proposal: it enters precommit through the prevote-wait timeout
	if err := check("r1-prevotes"); err != nil {
		return err
	}
	net.SendTo(W, net.ByzVote(W, h(), 1, types.PrecommitType, bidB), []int{Y})
	net.FlushKinds(4, only(Y), all, 400) // Y commits B
	net.FlushKinds(4, only(X), only(Y, Z), 400)
	net.FlushKinds(4, only(Z), only(X, Y), 400)
	if err := check("r1-precommits"); err != nil {
		return err
	}
	ycommitted := net.Nodes[Y].BS.Height() >= 1
	ctx.ClassIf(ycommitted, "y-committed-in-round1")
	if err := noiseAt(3); err != nil {
		return err
	}
	net.Fire(X)
	net.Fire(Z) // precommit-wait -> round 2
	// ---- round 2: a different block is offered to X and Z, W supports it
	rsZ := net.Nodes[Z].CS.GetRoundState()
	if rsZ.Height == 1 && net.Nodes[X].CS.GetRoundState().Height == 1 {
		if p2 == W || p2 == Y {
			pm, parts, _, err := net.ByzProposal(W, Z, rsZ.Round, -1, []types.Tx{types.Tx(fmt.Sprintf("d=%d", c.Txs))})
			if err == nil && p2 == W {
				net.SendTo(W, pm, []int{X, Z})
				for _, bp := range parts {
					net.SendTo(W, bp, []int{X, Z})
				}
			}
		}
		xz := only(X, Z)
		net.FlushKinds(1, xz, xz, 400)
		var bidD types.BlockID
		if rz := net.Nodes[Z].CS.GetRoundState(); rz.ProposalBlock != nil && rz.ProposalBlockParts != nil {
			bidD = types.BlockID{Hash: rz.ProposalBlock.Hash(), PartsHeader: rz.ProposalBlockParts.Header()}
		}
		if len(bidD.Hash) > 0 && string(bidD.Hash) != string(bidB.Hash) {
			ctx.Class("different-block-offered-in-round2")
			ctx.NTIf(ycommitted && lockedXY)
			r2 := net.Nodes[Z].CS.GetRoundState().Round
			net.SendTo(W, net.ByzVote(W, 1, r2, types.PrevoteType, bidD), []int{X, Z})
			net.FlushKinds(2, xz, xz, 400)
			if err := check("r2-prevotes"); err != nil {
				return err
			}
			net.SendTo(W, net.ByzVote(W, 1, r2, types.PrecommitType, bidD), []int{X, Z})
			net.FlushKinds(4, xz, xz, 400)
			if err := check("r2-precommits"); err != nil {
				return err
			}
		}
	}
	if err := c31Apply(ctx, net, byz, c.Tail, &equiv); err != nil {
		return err
	}
	from := net.Heights()
	ok, iters := net.SyncSuffix(from, 1, 160)
	if err := net.CheckSafety(); err != nil {
		return fmt.Errorf("in the synchronous suffix: %v", err)
	}
	if !ok && c31AbandonedCommit(net, from) && ctx.Known("commit-abandoned-by-round-skip") {
		ok = true
	}
	if !ok && c31StaleTime(net) && ctx.Known("byzantine-old-timestamp-halts-chain") {
		ok = true
	}
	if !ok {
		if os.Getenv("VERIF_DEBUG") != "" {
			for _, i := range net.Honest() {
				rs := net.Nodes[i].CS.GetRoundState()
				fmt.Printf("node %d store=%d: %s\n", i, net.Nodes[i].BS.Height(), rs.StringIndented("  "))
				if tk, ok := net.Nodes[i].Ticker.Pending(); ok {
					fmt.Printf("  pending timeout %+v\n", tk)
				}
				if rs.ProposalBlock != nil {
					for _, j := range net.Honest() {
						fmt.Printf("  ValidateBlock of node %d's proposal block by node %d: %v\n", i, j, net.Nodes[j].CS.GetState().ValidateBlock(rs.ProposalBlock))
					}
				}
			}
		}
		return fmt.Errorf("no progress in the synchronous suffix (%d iterations): before %v after %v", iters, from, net.Heights())
	}
	return nil
}

func TestC31_Relock(t *testing.T) {
	vk.Run(t, vk.Spec[c31Relock]{
		ID: "C31", Name: "TestC31_Relock",
		Rule: "rapid: second directed template over 4 equal validators, one byzantine (drawn among the admissible ones): X and Y lock B in round 0 with no commit; B is re-proposed in round 1, X times out of propose before the proposal arrives, prevotes from its lock, sees the polka and precommits through the relock path; Y commits B with the byzantine precommit; X and the never-locked Z move to round 2 where a different block is offered with byzantine support; drawn noise actions between the steps and a random tail; safety after every step, then the synchronous suffix; non-trivial = Y committed in round 1 while X and Y had been locked, and a different block was offered in round 2",
		Draw: func(rt *rapid.T) c31Relock {
			c := c31Relock{WChoice: rapid.IntRange(0, 3).Draw(rt, "w"), Txs: rapid.IntRange(0, 9).Draw(rt, "txs")}
			nn := rapid.IntRange(0, 2).Draw(rt, "nnoise")
			for i := 0; i < nn; i++ {
				c.Noise = append(c.Noise, c31Action{K: rapid.SampledFrom(c31Kinds).Draw(rt, "k"), A: rapid.IntRange(0, 1<<12).Draw(rt, "a"), B: rapid.IntRange(0, 1<<12).Draw(rt, "b"), C: rapid.IntRange(0, 1<<12).Draw(rt, "c")})
				c.Where = append(c.Where, rapid.IntRange(1, 3).Draw(rt, "where"))
			}
			nt := rapid.IntRange(0, 20).Draw(rt, "ntail")
			for i := 0; i < nt; i++ {
				c.Tail = append(c.Tail, c31Action{K: rapid.SampledFrom(c31Kinds).Draw(rt, "k"), A: rapid.IntRange(0, 1<<12).Draw(rt, "a"), B: rapid.IntRange(0, 1<<12).Draw(rt, "b"), C: rapid.IntRange(0, 1<<12).Draw(rt, "c")})
			}
			return c
		},
		Exec: c31RelockExec,
	})
}
