//go:build verif

package cons

import (
	"fmt"
	"os"
	"testing"

	"github.com/gnolang/gno/tm2/pkg/bft/consensus"
	cstypes "github.com/gnolang/gno/tm2/pkg/bft/consensus/types"
	"github.com/gnolang/gno/tm2/pkg/bft/types"
	"pgregory.net/rapid"
	ec "verif/eng/cons"
	"verif/vk"
)

// Third directed template ("a later polka for another block must not pull a
// node off its lock"). 4 equal validators; the byzantine W is the proposer of
// round 2. Round 0: X, Y, Z all see the polka for A and lock it, but nobody
// sees +2/3 precommits (each gets two precommits for A and W's nil). Round 1:
// everybody prevotes A from the lock, yet each node sees only two of those
// prevotes plus W's nil, so nobody re-locks and round 1 ends in nil
// precommits; the missing round-1 prevotes arrive only in round 2, where they
// complete a polka for A at round 1 that is too late to re-lock on. Round 2:
// W proposes a different valid block C citing POLRound = 1 to X and Y and
// prevotes / precommits C. An honest node locked on A at round 0 must keep
// prevoting A (the polka at round 1 was for A, not for C). Finally the
// withheld round-0 precommit reaches Z, which commits A. Safe iff X and Y did
// not commit C.

type c31PolPull struct {
	Perm int         `json:"perm"` // which of the 6 assignments of the honest nodes to X, Y, Z
	Txs  int         `json:"txs"`
	ToZ  bool        `json:"to_z"` // also offer C to Z
	Tail []c31Action `json:"tail"`
}

func c31TakeVotes(net *ec.Net, typ types.SignedMsgType, round int, from, to map[int]bool) []ec.Msg {
	var taken []ec.Msg
	for k := 0; k < len(net.Pool); {
		m := net.Pool[k]
		if vm, ok := m.M.(*consensus.VoteMessage); ok && vm.Vote.Type == typ && vm.Vote.Round == round && from[m.From] && to[m.To] {
			taken = append(taken, m)
			net.Drop(k)
			continue
		}
		k++
	}
	return taken
}

func c31PolPullExec(ctx *vk.Ctx, c c31PolPull) error {
	powers := []int64{1, 1, 1, 1}
	probe, err := ec.NewNet(powers, []bool{false, false, false, false})
	if err != nil {
		return fmt.Errorf("harness: %v", err)
	}
	p0, W := probe.ProposerAt(0, 0), probe.ProposerAt(0, 2)
	for _, i := range probe.Honest() {
		probe.Nodes[i].CS.VerifStop()
	}
	byz := make([]bool, 4)
	byz[W] = true
	net, err := ec.NewNet(powers, byz)
	if err != nil {
		return fmt.Errorf("harness: %v", err)
	}
	net.Start()
	var hs []int
	for i := 0; i < 4; i++ {
		if i != W {
			hs = append(hs, i)
		}
	}
	perms := [][3]int{{0, 1, 2}, {0, 2, 1}, {1, 0, 2}, {1, 2, 0}, {2, 0, 1}, {2, 1, 0}}
	pm := perms[c.Perm%6]
	X, Y, Z := hs[pm[0]], hs[pm[1]], hs[pm[2]]
	only := func(xs ...int) map[int]bool {
		m := map[int]bool{}
		for _, x := range xs {
			m[x] = true
		}
		return m
	}
	all := only(X, Y, Z)
	check := func(step string) error {
		if os.Getenv("VERIF_DEBUG") != "" {
			fmt.Printf("-- %s  (W=%d X=%d Y=%d Z=%d p0=%d) pool=%d\n", step, W, X, Y, Z, p0, len(net.Pool))
			for _, i := range []int{X, Y, Z} {
				rs := net.Nodes[i].CS.GetRoundState()
				lb, pb := "-", "-"
				if rs.LockedBlock != nil {
					lb = fmt.Sprintf("%X", rs.LockedBlock.Hash()[:3])
				}
				if rs.ProposalBlock != nil {
					pb = fmt.Sprintf("%X", rs.ProposalBlock.Hash()[:3])
				}
				fmt.Printf("   node %d: H%d R%d %v locked=%s(r%d) prop=%s store=%d\n", i, rs.Height, rs.Round, rs.Step, lb, rs.LockedRound, pb, net.Nodes[i].BS.Height())
			}
		}
		if err := net.CheckSafety(); err != nil {
			return fmt.Errorf("pol-pull template step %s: %v", step, err)
		}
		return nil
	}
	rsOf := func(i int) (int64, int) {
		rs := net.Nodes[i].CS.GetRoundState()
		return rs.Height, rs.Round
	}
	// ---- round 0: everybody locks A, nobody commits
	for _, i := range []int{X, Y, Z} {
		net.Fire(i)
	}
	if p0 == W {
		m, parts, _, err := net.ByzProposal(W, X, 0, -1, []types.Tx{types.Tx(fmt.Sprintf("a=%d", c.Txs))})
		if err != nil {
			return fmt.Errorf("harness: %v", err)
		}
		net.SendTo(W, m, []int{X, Y, Z})
		for _, bp := range parts {
			net.SendTo(W, bp, []int{X, Y, Z})
		}
	}
	net.FlushKinds(1, all, all, 400)
	rsX := net.Nodes[X].CS.GetRoundState()
	if rsX.ProposalBlock == nil || rsX.ProposalBlockParts == nil {
		ctx.Class("template-diverged:no-proposal")
		return check("r0-proposal")
	}
	bidA := types.BlockID{Hash: rsX.ProposalBlock.Hash(), PartsHeader: rsX.ProposalBlockParts.Header()}
	net.SendTo(W, net.ByzVote(W, 1, 0, types.PrevoteType, bidA), []int{X, Y, Z})
	net.FlushKinds(2, all, all, 400)
	if err := check("r0-prevotes"); err != nil {
		return err
	}
	// precommits of round 0: X hears Y, Y hears X, Z hears X; W says nil to everybody
	net.SendTo(W, net.ByzVote(W, 1, 0, types.PrecommitType, types.BlockID{}), []int{X, Y, Z})
	c31TakeVotes(net, types.PrecommitType, 0, only(Z), only(X, Y)) // lost
	heldForZ := c31TakeVotes(net, types.PrecommitType, 0, only(Y), only(Z))
	net.FlushKinds(4, all, all, 400)
	for _, i := range []int{X, Y, Z} {
		net.Fire(i) // precommit-wait -> round 1
	}
	if err := check("r0-precommits"); err != nil {
		return err
	}
	locked := true
	for _, i := range []int{X, Y, Z} {
		rs := net.Nodes[i].CS.GetRoundState()
		if rs.LockedBlock == nil || rs.LockedRound != 0 || rs.Round != 1 || rs.Height != 1 {
			locked = false
		}
	}
	ctx.ClassIf(locked, "all-honest-locked-at-round0-and-in-round1")
	if !locked {
		ctx.Class("template-diverged:round0")
	}
	// ---- round 1: prevotes for A from the locks, but nobody sees the polka in time
	net.FlushKinds(1, all, all, 400)
	for _, i := range []int{X, Y, Z} {
		if _, r := rsOf(i); r == 1 && net.Nodes[i].CS.GetRoundState().Step <= cstypes.RoundStepPropose {
			net.Fire(i)
		}
	}
	net.SendTo(W, net.ByzVote(W, 1, 1, types.PrevoteType, types.BlockID{}), []int{X, Y, Z})
	late := c31TakeVotes(net, types.PrevoteType, 1, only(Y), only(X, Z))
	late = append(late, c31TakeVotes(net, types.PrevoteType, 1, only(X), only(Y))...)
	net.FlushKinds(2, all, all, 400)
	for _, i := range []int{X, Y, Z} {
		net.Fire(i) // prevote-wait -> precommit nil
	}
	if err := check("r1-prevotes"); err != nil {
		return err
	}
	net.FlushKinds(4, all, all, 400)
	for _, i := range []int{X, Y, Z} {
		if _, r := rsOf(i); r == 1 {
			net.Fire(i) // precommit-wait -> round 2
		}
	}
	if err := check("r1-precommits"); err != nil {
		return err
	}
	inR2 := true
	for _, i := range []int{X, Y, Z} {
		rs := net.Nodes[i].CS.GetRoundState()
		if rs.Height != 1 || rs.Round != 2 || rs.LockedRound != 0 || rs.LockedBlock == nil {
			inR2 = false
		}
	}
	ctx.ClassIf(inR2, "all-honest-in-round2-still-locked-at-round0")
	// ---- round 2: the late prevotes complete a polka for A at round 1; W proposes C citing it
	net.Pool = append(net.Pool, late...)
	net.FlushKinds(2, all, all, 400)
	if inR2 {
		m, parts, bidC, err := net.ByzProposal(W, X, 2, 1, []types.Tx{types.Tx(fmt.Sprintf("c=%d", c.Txs))})
		if err != nil {
			return fmt.Errorf("harness: %v", err)
		}
		dst := []int{X, Y}
		if c.ToZ {
			dst = append(dst, Z)
		}
		net.SendTo(W, m, dst)
		for _, bp := range parts {
			net.SendTo(W, bp, dst)
		}
		net.FlushKinds(1, all, all, 400)
		polka1 := net.Nodes[X].CS.GetRoundState().Votes.Prevotes(1).HasTwoThirdsMajority()
		ctx.ClassIf(polka1, "late-polka-at-round1-known-to-x")
		offered := false
		if rs := net.Nodes[X].CS.GetRoundState(); rs.ProposalBlock != nil && string(rs.ProposalBlock.Hash()) == string(bidC.Hash) {
			offered = true
		}
		ctx.ClassIf(offered, "different-block-citing-late-polka-offered-in-round2")
		ctx.NTIf(polka1 && offered && locked)
		net.SendTo(W, net.ByzVote(W, 1, 2, types.PrevoteType, bidC), dst)
		xy := only(X, Y)
		net.FlushKinds(2, xy, xy, 400)
		if err := check("r2-prevotes"); err != nil {
			return err
		}
		net.SendTo(W, net.ByzVote(W, 1, 2, types.PrecommitType, bidC), dst)
		net.FlushKinds(4, xy, xy, 400)
		if err := check("r2-precommits"); err != nil {
			return err
		}
	}
	// ---- the withheld round-0 precommit reaches Z: Z commits A
	net.Pool = append(net.Pool, heldForZ...)
	net.FlushKinds(4, only(Z), all, 400)
	ctx.ClassIf(net.Nodes[Z].BS.Height() >= 1, "z-committed-the-locked-block")
	if err := check("z-commit"); err != nil {
		return err
	}
	equiv := 0
	if err := c31Apply(ctx, net, byz, c.Tail, &equiv); err != nil {
		return err
	}
	from := net.Heights()
	ok, iters := net.SyncSuffix(from, 1, 160)
	if err := net.CheckSafety(); err != nil {
		return fmt.Errorf("in the synchronous suffix: %v", err)
	}
	if !ok && c31AbandonedCommit(net, from) && ctx.Known("commit-abandoned-by-round-skip") {
		ok = true
	}
	if !ok && c31StaleTime(net) && ctx.Known("byzantine-old-timestamp-halts-chain") {
		ok = true
	}
	if !ok {
		return fmt.Errorf("no progress in the synchronous suffix (%d iterations): before %v after %v", iters, from, net.Heights())
	}
	return nil
}

func TestC31_PolPull(t *testing.T) {
	vk.Run(t, vk.Spec[c31PolPull]{
		ID: "C31", Name: "TestC31_PolPull",
		Rule: "rapid: third directed template over 4 equal validators, the byzantine one being the proposer of round 2: all honest nodes lock A in round 0 without a commit; in round 1 their prevotes for A reach each other too late to re-lock (a polka for A at round 1 becomes known only in round 2); in round 2 the byzantine proposer offers a different valid block citing POLRound = 1 and supports it with prevote and precommit; finally a withheld round-0 precommit lets the third honest node commit A; drawn role assignment, block content, whether the third node is offered the block too, and a random tail; safety after every step, then the synchronous suffix; non-trivial = the late polka was known and the different block was the complete proposal of a node locked at round 0",
		Draw: func(rt *rapid.T) c31PolPull {
			c := c31PolPull{Perm: rapid.IntRange(0, 5).Draw(rt, "perm"), Txs: rapid.IntRange(0, 9).Draw(rt, "txs"), ToZ: rapid.Bool().Draw(rt, "toz")}
			nt := rapid.IntRange(0, 12).Draw(rt, "ntail")
			for i := 0; i < nt; i++ {
				c.Tail = append(c.Tail, c31Action{K: rapid.SampledFrom(c31Kinds).Draw(rt, "k"), A: rapid.IntRange(0, 1<<12).Draw(rt, "a"), B: rapid.IntRange(0, 1<<12).Draw(rt, "b"), C: rapid.IntRange(0, 1<<12).Draw(rt, "c")})
			}
			return c
		},
		Exec: c31PolPullExec,
	})
}
