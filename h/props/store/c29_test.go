package store

import (
	"bytes"
	"errors"
	"fmt"
	"os"
	"path/filepath"
	"runtime"
	"strings"
	"sync/atomic"
	"testing"

	dbm "github.com/gnolang/gno/tm2/pkg/db"
	_ "github.com/gnolang/gno/tm2/pkg/db/_all"
	"github.com/gnolang/gno/tm2/pkg/db/goleveldb"
	"github.com/syndtr/goleveldb/leveldb/opt"
	"pgregory.net/rapid"
	"verif/vk"
)

// C29 — every database back-end implements the same key-value semantics as an
// in-memory ordered map (reference: OMap in model.go).
//
// One case = one back-end (optionally under one wrapper DB) + one history.

type c29BOp struct {
	Del bool `json:"del,omitempty"`
	Key B    `json:"key"`
	Val B    `json:"val"`
}

type c29It struct {
	Start B    `json:"start"`
	End   B    `json:"end"`
	Rev   bool `json:"rev,omitempty"`
	Steps int  `json:"steps"` // <0: until exhausted
	Mut   bool `json:"mut,omitempty"`
	Get   bool `json:"get,omitempty"` // point-read the current key between steps
}

type c29Op struct {
	Op    string   `json:"op"`            // set del get has batch iter snap snapget snaphas snapiter snapclose reopen drain
	Via   string   `json:"via,omitempty"` // raw | wrap
	Key   B        `json:"key"`
	Val   B        `json:"val"`
	Sync  bool     `json:"sync,omitempty"`
	Size  int      `json:"size,omitempty"` // batch: >0 -> NewBatchWithSize
	Batch []c29BOp `json:"batch,omitempty"`
	Fin   string   `json:"fin,omitempty"` // write | writesync | close
	Its   []c29It  `json:"its,omitempty"`
	Snap  int      `json:"snap,omitempty"`
	SDB   bool     `json:"sdb,omitempty"` // read the snapshot through NewSnapshotDB
}

type c29Case struct {
	Backend string  `json:"backend"`
	Wrap    string  `json:"wrap"` // none | prefix | immutable | collecting
	Prefix  B       `json:"prefix"`
	Small   bool    `json:"small,omitempty"` // goleveldb: open with small engine buffers
	Ops     []c29Op `json:"ops"`
}

var c29Alphabet = []byte{0x00, 'a', 'b', 0xFF}

// back-ends that keep their data in a directory
var c29Persistent = map[string]bool{"goleveldb": true, "pebbledb": true, "boltdb": true, "lmdbdb": true, "mdbxdb": true}

// back-ends whose NewSnapshot is implemented (the others document an error)
var c29Snapshots = map[string]bool{"memdb": true, "pebbledb": true}

func c29Backends() []string {
	if only := os.Getenv("VERIF_C29_ONLY"); only != "" { // debugging aid: restrict the search to one back-end
		return []string{only}
	}
	var out []string
	for _, b := range dbm.BackendList() {
		out = append(out, string(b))
	}
	return out
}

func c29DrawBytes(rt *rapid.T, label string, maxLen int) []byte {
	n := rapid.IntRange(1, maxLen).Draw(rt, label+"n")
	out := make([]byte, n)
	for i := range out {
		out[i] = rapid.SampledFrom(c29Alphabet).Draw(rt, label+"c")
	}
	return out
}

func c29DrawKey(rt *rapid.T, label string, pre []byte) B {
	switch rapid.IntRange(0, 19).Draw(rt, label+"kind") {
	case 0:
		return nil // documented: a nil key is interpreted as an empty byteslice
	case 1, 2:
		return B{}
	}
	if len(pre) > 0 {
		switch rapid.IntRange(0, 9).Draw(rt, label+"pre") {
		case 0, 1, 2: // unrelated key
		case 3: // prefix-adjacent keys: the prefix itself, the first key after the prefix range, their neighbours
			adj := [][]byte{clone(pre), prefixSucc(pre), append(clone(pre), 0xFF), pre[:len(pre)-1]}
			if s := prefixSucc(pre); s != nil {
				adj = append(adj, append(s, 0x00))
			}
			k := adj[rapid.IntRange(0, len(adj)-1).Draw(rt, label+"adj")]
			if k == nil {
				k = []byte{}
			}
			return k
		default:
			k := c29DrawBytes(rt, label, 3)
			return append(clone(pre), k[:len(k)-1]...)
		}
	}
	return c29DrawBytes(rt, label, 3)
}

// prefixSucc returns the smallest byte string greater than every string with
// the given prefix (nil when there is none): drop trailing 0xFF bytes, then
// increment the last byte.
func prefixSucc(p []byte) []byte {
	q := clone(p)
	for len(q) > 0 && q[len(q)-1] == 0xFF {
		q = q[:len(q)-1]
	}
	if len(q) == 0 {
		return nil
	}
	q[len(q)-1]++
	return q
}

func c29DrawVal(rt *rapid.T, label string) B {
	switch rapid.IntRange(0, 9).Draw(rt, label+"kind") {
	case 0:
		return nil // stored as empty
	case 1, 2:
		return B{}
	case 3:
		return bytes.Repeat([]byte{'v'}, rapid.IntRange(20, 200).Draw(rt, label+"long"))
	}
	return c29DrawBytes(rt, label, 3)
}

func c29DrawBound(rt *rapid.T, label string, pre []byte) B {
	if rapid.IntRange(0, 3).Draw(rt, label+"nil") == 0 {
		return nil
	}
	k := c29DrawKey(rt, label, pre)
	if k == nil {
		return B{}
	}
	return k
}

func c29DrawIt(rt *rapid.T, label string, pre []byte) c29It {
	it := c29It{Start: c29DrawBound(rt, label+"s", pre), End: c29DrawBound(rt, label+"e", pre), Rev: rapid.Bool().Draw(rt, label+"rev")}
	it.Steps = -1
	if rapid.IntRange(0, 3).Draw(rt, label+"partial") == 0 {
		it.Steps = rapid.IntRange(0, 3).Draw(rt, label+"steps")
	}
	it.Mut = rapid.IntRange(0, 2).Draw(rt, label+"mut") == 0
	it.Get = rapid.IntRange(0, 3).Draw(rt, label+"get") == 0
	return it
}

func c29Draw(rt *rapid.T) c29Case { return c29DrawFor(rt, false) }

// c29DrawFor draws a case; wrappersOnly pins the back-end to memdb and always
// puts a wrapper DB on top (the wrappers are back-end independent and memdb
// histories cost microseconds).
func c29DrawFor(rt *rapid.T, wrappersOnly bool) c29Case {
	var c c29Case
	if wrappersOnly {
		c.Backend = "memdb"
		c.Wrap = rapid.SampledFrom([]string{"prefix", "prefix", "prefix", "immutable", "collecting", "collecting"}).Draw(rt, "wrap")
	} else {
		c.Backend = rapid.SampledFrom(c29Backends()).Draw(rt, "backend")
		c.Wrap = rapid.SampledFrom([]string{"none", "none", "none", "prefix", "prefix", "immutable", "collecting"}).Draw(rt, "wrap")
	}
	if c.Wrap == "prefix" {
		// cpIncr (util.go) has CONTRACT len(bz) > 0, so a PrefixDB prefix is never empty.
		c.Prefix = c29DrawBytes(rt, "prefix", 2)
	}
	if c.Backend == "goleveldb" {
		c.Small = rapid.IntRange(0, 7).Draw(rt, "small") > 0
	}
	rawPre := []byte(c.Prefix)
	nsnap := 0
	n := rapid.IntRange(3, 30).Draw(rt, "nops")
	for i := 0; i < n; i++ {
		var op c29Op
		op.Via = "raw"
		if c.Wrap != "none" && rapid.IntRange(0, 9).Draw(rt, "via") < 6 {
			op.Via = "wrap"
		}
		pre := rawPre
		if op.Via == "wrap" {
			pre = nil
		}
		kinds := []string{"set", "set", "set", "set", "del", "del", "get", "get", "has", "batch", "batch", "iter", "iter", "iter", "snap", "snapget", "snapiter", "snapclose"}
		if c29Persistent[c.Backend] {
			kinds = append(kinds, "reopen")
		}
		if c.Wrap == "collecting" {
			kinds = append(kinds, "drain", "drain")
		}
		op.Op = rapid.SampledFrom(kinds).Draw(rt, "op")
		switch op.Op {
		case "set":
			op.Key, op.Val, op.Sync = c29DrawKey(rt, "k", pre), c29DrawVal(rt, "v"), rapid.Bool().Draw(rt, "sync")
		case "del":
			op.Key, op.Sync = c29DrawKey(rt, "k", pre), rapid.Bool().Draw(rt, "sync")
		case "get", "has":
			op.Key = c29DrawKey(rt, "k", pre)
		case "batch":
			if rapid.Bool().Draw(rt, "sized") {
				op.Size = rapid.IntRange(1, 64).Draw(rt, "size")
			}
			m := rapid.IntRange(0, 6).Draw(rt, "nb")
			for j := 0; j < m; j++ {
				b := c29BOp{Key: c29DrawKey(rt, "bk", pre)}
				if rapid.IntRange(0, 2).Draw(rt, "bdel") == 0 {
					b.Del = true
				} else {
					b.Val = c29DrawVal(rt, "bv")
				}
				op.Batch = append(op.Batch, b)
			}
			op.Fin = rapid.SampledFrom([]string{"write", "write", "writesync", "close"}).Draw(rt, "fin")
		case "iter":
			k := 1
			if rapid.IntRange(0, 4).Draw(rt, "two") == 0 {
				k = 2
			}
			for j := 0; j < k; j++ {
				op.Its = append(op.Its, c29DrawIt(rt, "it", pre))
			}
		case "snap":
			nsnap++
		case "snapget", "snaphas":
			op.Snap = rapid.IntRange(0, max(nsnap-1, 0)).Draw(rt, "snapid")
			op.Key = c29DrawKey(rt, "k", rawPre)
			op.SDB = rapid.Bool().Draw(rt, "sdb")
			if rapid.Bool().Draw(rt, "has") {
				op.Op = "snaphas"
			}
		case "snapiter":
			op.Snap = rapid.IntRange(0, max(nsnap-1, 0)).Draw(rt, "snapid")
			op.Its = []c29It{c29DrawIt(rt, "it", rawPre)}
			op.SDB = rapid.Bool().Draw(rt, "sdb")
		case "snapclose":
			op.Snap = rapid.IntRange(0, max(nsnap-1, 0)).Draw(rt, "snapid")
		}
		c.Ops = append(c.Ops, op)
	}
	return c
}

// ---------------------------------------------------------------- model side

// c29World is the reference state: physical contents of the raw DB plus, for
// the CollectingDB wrapper, the ordered not-yet-drained operations.
type c29World struct {
	phys *OMap
	km   func([]byte) []byte // physical key mapping (identity in the primary world)
	pend []c29BOp            // CollectingDB: ops in the collector, in order
}

func c29Ident(k []byte) []byte { return k }

func (w *c29World) rawSet(k, v []byte) { w.phys.Set(w.km(k), v) }
func (w *c29World) rawDel(k []byte)    { w.phys.Delete(w.km(k)) }
func (w *c29World) rawGet(k []byte) ([]byte, bool) {
	return w.phys.Get(w.km(k))
}

// pendGet looks the key up in the collector (documented read-your-writes).
func (w *c29World) pendGet(k []byte) (v []byte, del, found bool) {
	for i := len(w.pend) - 1; i >= 0; i-- {
		if bytes.Equal(w.pend[i].Key, k) {
			return w.pend[i].Val, w.pend[i].Del, true
		}
	}
	return nil, false, false
}

func (w *c29World) drain() {
	for _, op := range w.pend {
		if op.Del {
			w.rawDel(op.Key)
		} else {
			w.rawSet(op.Key, op.Val)
		}
	}
	w.pend = nil
}

// view returns what handle `via` must show for point reads / iteration.
func (w *c29World) get(c *c29Case, via string, k []byte) ([]byte, bool) {
	if via == "wrap" {
		switch c.Wrap {
		case "prefix":
			return w.rawGet(append(clone(c.Prefix), k...))
		case "collecting":
			if v, del, found := w.pendGet(k); found {
				if del {
					return nil, false
				}
				return append([]byte{}, v...), true
			}
		}
	}
	return w.rawGet(k)
}

func (w *c29World) rng(c *c29Case, via string, it c29It) []KV {
	if via == "wrap" && c.Wrap == "prefix" {
		return w.phys.Sub(c.Prefix).Range(it.Start, it.End, it.Rev)
	}
	// CollectingDB documents that iterators read the underlying DB only.
	return w.phys.Range(it.Start, it.End, it.Rev)
}

func (w *c29World) write(c *c29Case, via string, ops []c29BOp) {
	for _, op := range ops {
		k := []byte(op.Key)
		if k == nil {
			k = []byte{}
		}
		if via == "wrap" {
			switch c.Wrap {
			case "prefix":
				k = append(clone(c.Prefix), k...)
			case "collecting":
				w.pend = append(w.pend, c29BOp{Del: op.Del, Key: k, Val: op.Val})
				continue
			}
		}
		if op.Del {
			w.rawDel(k)
		} else {
			w.rawSet(k, op.Val)
		}
	}
}

// ---------------------------------------------------------------- execution

var c29Seq atomic.Int64

func c29TmpDir() (string, error) {
	base := os.Getenv("VERIF_TMP")
	if base == "" {
		return os.MkdirTemp("/var/tmp", "verif-store-")
	}
	d := filepath.Join(base, fmt.Sprintf("c29-%d-%d", os.Getpid(), c29Seq.Add(1)))
	return d, os.MkdirAll(d, 0o755)
}

type c29Held struct {
	what string
	s    []byte
	want []byte
}

type c29Snap struct {
	s      dbm.Snapshot
	frozen [2]*OMap // per world
	open   bool
}

type c29Run struct {
	ctx       *vk.Ctx
	c         *c29Case
	dir       string
	raw, wrap dbm.DB
	coll      *dbm.BatchCollector
	worlds    []*c29World // [0] primary, [1] alternative (known key-mapping quirk), if any
	cur       int
	altKey    string
	held      []c29Held
	snaps     []*c29Snap
}

func (r *c29Run) open() error {
	var db dbm.DB
	var err error
	if r.c.Backend == "goleveldb" && r.c.Small {
		// same wrapper, smaller engine buffers: the default 4 MiB write buffer costs ~40 ms per
		// open, and a tiny one also moves data into table files within a short history.
		db, err = goleveldb.NewGoLevelDBWithOpts("db", r.dir, &opt.Options{WriteBuffer: 2 << 10, BlockCacheCapacity: 64 << 10, OpenFilesCacheCapacity: 16})
	} else {
		db, err = dbm.NewDB("db", dbm.BackendType(r.c.Backend), r.dir)
	}
	if err != nil {
		return fmt.Errorf("NewDB(%s): %v", r.c.Backend, err)
	}
	r.raw = db
	switch r.c.Wrap {
	case "prefix":
		r.wrap = dbm.NewPrefixDB(db, clone(r.c.Prefix))
	case "immutable":
		r.wrap = dbm.NewImmutableDB(db)
	case "collecting":
		if r.coll == nil {
			r.coll = dbm.NewBatchCollector()
		}
		r.wrap = dbm.NewCollectingDB(db, r.coll)
	}
	return nil
}

func (r *c29Run) h(via string) dbm.DB {
	if via == "wrap" {
		return r.wrap
	}
	return r.raw
}

// check evaluates a comparison against the current reference world; when the
// primary world disagrees but the alternative world (the back-end's known
// empty-key mapping) explains the observation exactly and that finding is
// listed as known, the run continues against the alternative world.
func (r *c29Run) check(f func(w *c29World, wi int) error) error {
	err := f(r.worlds[r.cur], r.cur)
	if err == nil {
		return nil
	}
	if r.cur == 0 && len(r.worlds) > 1 && f(r.worlds[1], 1) == nil {
		if r.ctx.Known(r.altKey) {
			r.cur = 1
			r.ctx.Class("known:" + r.altKey)
			return nil
		}
		return fmt.Errorf("%v [the divergence is exactly the back-end's empty-key mapping: %s]", err, r.altKey)
	}
	return err
}

func (r *c29Run) hold(what string, s []byte) {
	if len(s) == 0 {
		return
	}
	r.held = append(r.held, c29Held{what, s, clone(s)})
}

func (r *c29Run) checkHeld(when string) error {
	for _, h := range r.held {
		if !bytes.Equal(h.s, h.want) {
			return fmt.Errorf("a slice returned earlier by %s changed from %q to %q after %s: returned data aliases an internal buffer", h.what, h.want, h.s, when)
		}
	}
	return nil
}

func c29Recover(f func()) (p any) {
	defer func() { p = recover() }()
	f()
	return nil
}

func c29Arg(b B) []byte { return clone(b) }

// c29OpenErr is an error returned by Iterator/ReverseIterator itself.
type c29OpenErr struct {
	it  c29It
	err error
}

func (e *c29OpenErr) Error() string { return e.err.Error() }

type c29Obs struct {
	k, v       []byte
	k2, v2     []byte // re-read after mutating the returned slices
	reread     bool
	gv         []byte // point read of the current key
	gnil, gdid bool
}

// iterate opens all iterators of the op, steps them round-robin and returns
// the transcripts.
func (r *c29Run) iterate(open func(it c29It) (dbm.Iterator, error), get func(k []byte) ([]byte, error), its []c29It, limit int) (obs [][]c29Obs, exhausted []bool, err error) {
	hs := make([]dbm.Iterator, len(its))
	defer func() {
		for _, h := range hs {
			if h != nil {
				h.Close()
			}
		}
	}()
	for i, it := range its {
		s, e := c29Arg(it.Start), c29Arg(it.End)
		h, err := open(c29It{Start: s, End: e, Rev: it.Rev})
		if err != nil {
			return nil, nil, &c29OpenErr{it, fmt.Errorf("opening iterator %d [%v,%v) rev=%v: %w", i, it.Start, it.End, it.Rev, err)}
		}
		if h == nil {
			return nil, nil, fmt.Errorf("iterator %d is nil without error", i)
		}
		hs[i] = h
		if !bytes.Equal(s, it.Start) || !bytes.Equal(e, it.End) {
			return nil, nil, fmt.Errorf("Iterator modified its bounds (CONTRACT: start, end readonly)")
		}
		ds, de := h.Domain()
		if !bytes.Equal(ds, it.Start) || !bytes.Equal(de, it.End) || (de == nil) != (it.End == nil) {
			return nil, nil, fmt.Errorf("Domain() = [%q,%q) for an iterator opened on [%v,%v)", ds, de, it.Start, it.End)
		}
	}
	obs = make([][]c29Obs, len(its))
	exhausted = make([]bool, len(its))
	done := make([]bool, len(its))
	for left := len(its); left > 0; {
		for i, it := range its {
			if done[i] {
				continue
			}
			h := hs[i]
			if it.Steps >= 0 && len(obs[i]) >= it.Steps {
				done[i] = true
				left--
				continue
			}
			if !h.Valid() {
				if h.Valid() {
					return nil, nil, fmt.Errorf("iterator %d became valid again after reporting invalid", i)
				}
				exhausted[i], done[i] = true, true
				left--
				continue
			}
			if len(obs[i]) > limit {
				return nil, nil, fmt.Errorf("iterator %d yields more than %d items", i, limit)
			}
			var o c29Obs
			k, v := h.Key(), h.Value()
			o.k, o.v = clone(k), clone(v)
			if it.Mut {
				for j := range k {
					k[j] ^= 0x5A
				}
				for j := range v {
					v[j] ^= 0x5A
				}
				o.k2, o.v2, o.reread = clone(h.Key()), clone(h.Value()), true
				// undo, so that an aliasing implementation is left in its original state
				copy(k, o.k)
				copy(v, o.v)
			} else {
				r.hold("Iterator.Key", k)
				r.hold("Iterator.Value", v)
			}
			if it.Get && get != nil {
				gv, err := get(clone(o.k))
				if err != nil {
					return nil, nil, fmt.Errorf("Get(%q) while an iterator is open: %v", o.k, err)
				}
				o.gv, o.gnil, o.gdid = clone(gv), gv == nil, true
			}
			obs[i] = append(obs[i], o)
			h.Next()
		}
	}
	for i, h := range hs {
		if e := h.Error(); e != nil {
			return nil, nil, fmt.Errorf("iterator %d Error() = %v", i, e)
		}
		e := h.Close()
		hs[i] = nil
		if e != nil {
			return nil, nil, fmt.Errorf("iterator %d Close() = %v", i, e)
		}
	}
	return obs, exhausted, nil
}

// cmpTranscript compares one iterator transcript with the expected range.
func c29CmpTranscript(it c29It, obs []c29Obs, exhausted bool, want []KV, getCheck func(k, got []byte, gotNil bool) error, aliased *bool) error {
	desc := fmt.Sprintf("iterator [%v,%v) rev=%v", it.Start, it.End, it.Rev)
	for i, o := range obs {
		if i >= len(want) {
			return fmt.Errorf("%s: item %d = %q=%q but the model has only %d items in the domain %v", desc, i, o.k, o.v, len(want), want)
		}
		if !bytes.Equal(o.k, want[i].K) || !bytes.Equal(o.v, want[i].V) {
			return fmt.Errorf("%s: item %d = %q=%q, model %v (full model range %v)", desc, i, o.k, o.v, want[i], want)
		}
		if o.reread {
			if !bytes.Equal(o.k2, o.k) {
				return fmt.Errorf("%s: Key() of item %d changed from %q to %q after the caller modified the returned slice (documented as a copy, safe for modification)", desc, i, o.k, o.k2)
			}
			if !bytes.Equal(o.v2, o.v) {
				*aliased = true
			}
		}
		if o.gdid {
			if err := getCheck(o.k, o.gv, o.gnil); err != nil {
				return fmt.Errorf("%s: while the iterator is open: %v", desc, err)
			}
		}
	}
	if exhausted && len(obs) != len(want) {
		return fmt.Errorf("%s: ended after %d items, model has %d: %v", desc, len(obs), len(want), want)
	}
	return nil
}

func (r *c29Run) doIter(via string, its []c29It, open func(it c29It) (dbm.Iterator, error), get func([]byte) ([]byte, error), rng func(w *c29World, wi int, it c29It) []KV, getWant func(w *c29World, wi int, k []byte) ([]byte, bool), what string) error {
	const limit = 2000 // far above the number of distinct keys a history can create
	obs, exhausted, err := r.iterate(open, get, its, limit)
	if err != nil {
		var oe *c29OpenErr
		if errors.As(err, &oe) && r.c.Backend == "lmdbdb" && strings.Contains(err.Error(), "MDB_BAD_VALSIZE") {
			// LMDB rejects a zero-length seek key: an empty but non-nil bound makes Iterator fail
			// instead of yielding the (documented) range.
			seek := oe.it.Start
			if oe.it.Rev {
				seek = oe.it.End
			}
			if seek != nil && len(seek) == 0 && r.ctx.Known("lmdbdb-iterator-error-on-empty-non-nil-bound") {
				r.ctx.Class("known:lmdbdb-iterator-error-on-empty-non-nil-bound")
				return nil
			}
		}
		return fmt.Errorf("%s: %v", what, err)
	}
	aliased := false
	for i, it := range its {
		cmp := func(w *c29World, wi int, want []KV) error {
			return c29CmpTranscript(it, obs[i], exhausted[i], want, func(k, got []byte, gotNil bool) error {
				want, ok := getWant(w, wi, k)
				return r.cmpGet(w, via, k, got, gotNil, want, ok)
			}, &aliased)
		}
		if err := r.check(func(w *c29World, wi int) error { return cmp(w, wi, rng(w, wi, it)) }); err != nil {
			return fmt.Errorf("%s: %v", what, err)
		}
	}
	if aliased {
		// Iterator.Value is documented "should be a copy and thus safe for modification".
		if r.c.Backend == "memdb" && r.ctx.Known("memdb-iterator-value-aliases-stored-value") {
			r.ctx.Class("known:memdb-iterator-value-aliases-stored-value")
		} else {
			return fmt.Errorf("%s: Value() changed after the caller modified the returned slice: the iterator hands out the stored value itself (types.go: \"the value returned should be a copy and thus safe for modification\")", what)
		}
	}
	return nil
}

func c29Exec(ctx *vk.Ctx, c c29Case) (err error) {
	ctx.Class("backend=" + c.Backend)
	ctx.Class("wrap=" + c.Wrap)
	if c.Backend == "lmdbdb" || c.Backend == "mdbxdb" {
		// LMDB/MDBX bind read transactions to the OS thread.
		runtime.LockOSThread()
		defer runtime.UnlockOSThread()
	}
	r := &c29Run{ctx: ctx, c: &c}
	r.worlds = []*c29World{{phys: NewOMap(), km: c29Ident}}
	switch c.Backend {
	case "boltdb":
		r.altKey = "boltdb-empty-key-stored-as-nil"
		r.worlds = append(r.worlds, &c29World{phys: NewOMap(), km: func(k []byte) []byte {
			if len(k) == 0 {
				return []byte("nil")
			}
			return k
		}})
	case "lmdbdb", "mdbxdb":
		r.altKey = c.Backend + "-empty-key-stored-as-00"
		r.worlds = append(r.worlds, &c29World{phys: NewOMap(), km: func(k []byte) []byte {
			if len(k) == 0 {
				return []byte{0}
			}
			return k
		}})
	}
	if c29Persistent[c.Backend] {
		if r.dir, err = c29TmpDir(); err != nil {
			return nil // environment problem, not a property violation
		}
		defer os.RemoveAll(r.dir)
		defer func() {
			// A scratch directory removed from outside (e.g. a /var/tmp clean-up while the check
			// runs) makes any result meaningless: stop the worker without a verdict (the driver
			// reports INCONCLUSIVE), never a violation.
			if p := recover(); p != nil || err != nil {
				if _, serr := os.Stat(r.dir); serr != nil {
					fmt.Printf("scratch directory %s vanished during the case (%v); aborting without verdict\n", r.dir, serr)
					os.Exit(3)
				}
				if p != nil {
					panic(p)
				}
			}
		}()
	}
	if err := r.open(); err != nil {
		return err
	}
	defer func() {
		for _, s := range r.snaps {
			if s.open {
				s.s.Close()
			}
		}
		if r.raw != nil {
			r.raw.Close()
		}
	}()

	var ntEmpty, ntBoundKey, ntSnapAfterBatch bool
	batchSeq := 0
	snapBatchSeq := map[int]int{}

	for i, op := range c.Ops {
		what := fmt.Sprintf("op %d %s via %s", i, op.Op, op.Via)
		h := r.h(op.Via)
		immut := op.Via == "wrap" && c.Wrap == "immutable"
		switch op.Op {
		case "set", "del":
			k, v := c29Arg(op.Key), c29Arg(op.Val)
			var e error
			p := c29Recover(func() {
				switch {
				case op.Op == "set" && op.Sync:
					e = h.SetSync(k, v)
				case op.Op == "set":
					e = h.Set(k, v)
				case op.Sync:
					e = h.DeleteSync(k)
				default:
					e = h.Delete(k)
				}
			})
			if immut {
				if p == nil {
					return fmt.Errorf("%s: ImmutableDB accepted a mutation (documented to panic)", what)
				}
				break
			}
			if p != nil {
				return fmt.Errorf("%s(%v,%v): panic %v", what, op.Key, op.Val, p)
			}
			if e != nil {
				return fmt.Errorf("%s(%v,%v): %v", what, op.Key, op.Val, e)
			}
			if !bytes.Equal(k, op.Key) || !bytes.Equal(v, op.Val) {
				return fmt.Errorf("%s modified its arguments (CONTRACT: key, value readonly)", what)
			}
			for _, w := range r.worlds {
				w.write(&c, op.Via, []c29BOp{{Del: op.Op == "del", Key: op.Key, Val: op.Val}})
			}
			ntEmpty = ntEmpty || len(op.Key) == 0 || (op.Op == "set" && len(op.Val) == 0)
		case "get":
			k := c29Arg(op.Key)
			v, e := h.Get(k)
			if e != nil {
				return fmt.Errorf("%s(%v): %v", what, op.Key, e)
			}
			got, gotNil := clone(v), v == nil
			if err := r.check(func(w *c29World, _ int) error {
				want, ok := w.get(&c, op.Via, op.Key)
				if err := r.cmpGet(w, op.Via, op.Key, got, gotNil, want, ok); err != nil {
					return fmt.Errorf("%s: %v", what, err)
				}
				return nil
			}); err != nil {
				return err
			}
			r.hold("Get", v)
			ntEmpty = ntEmpty || len(op.Key) == 0
		case "has":
			b, e := h.Has(c29Arg(op.Key))
			if e != nil {
				return fmt.Errorf("%s(%v): %v", what, op.Key, e)
			}
			if err := r.check(func(w *c29World, _ int) error {
				if _, ok := w.get(&c, op.Via, op.Key); ok != b {
					return fmt.Errorf("%s(%v) = %v, model %v", what, op.Key, b, ok)
				}
				return nil
			}); err != nil {
				return err
			}
		case "batch":
			var b dbm.Batch
			if op.Size > 0 {
				b = h.NewBatchWithSize(op.Size)
			} else {
				b = h.NewBatch()
			}
			if b == nil {
				return fmt.Errorf("%s: NewBatch returned nil", what)
			}
			for j, bo := range op.Batch {
				k, v := c29Arg(bo.Key), c29Arg(bo.Val)
				var e error
				if bo.Del {
					e = b.Delete(k)
				} else {
					e = b.Set(k, v)
				}
				if e != nil {
					return fmt.Errorf("%s: staging op %d: %v", what, j, e)
				}
				ntEmpty = ntEmpty || len(bo.Key) == 0 || (!bo.Del && len(bo.Val) == 0)
			}
			switch op.Fin {
			case "write", "writesync":
				var e error
				p := c29Recover(func() {
					if op.Fin == "write" {
						e = b.Write()
					} else {
						e = b.WriteSync()
					}
				})
				if immut {
					if p == nil {
						return fmt.Errorf("%s: batch of an ImmutableDB was written (documented to panic)", what)
					}
					break
				}
				if p != nil || e != nil {
					return fmt.Errorf("%s: %s: err=%v panic=%v", what, op.Fin, e, p)
				}
				for _, w := range r.worlds {
					w.write(&c, op.Via, op.Batch)
				}
				batchSeq++
			}
			var ce error
			if p := c29Recover(func() { ce = b.Close() }); p != nil {
				// pebble: a batch pre-sized below its 12-byte header and never staged into panics in
				// Batch.Reset (data[:12] on a smaller buffer) when it is released.
				if c.Backend == "pebbledb" && op.Size > 0 && op.Size < 12 && len(op.Batch) == 0 && !immut &&
					!(op.Via == "wrap" && c.Wrap == "collecting") && ctx.Known("pebbledb-close-panics-on-empty-batch-presized-below-12") {
					ctx.Class("known:pebbledb-close-panics-on-empty-batch-presized-below-12")
					break
				}
				return fmt.Errorf("%s: Batch.Close panicked: %v", what, p)
			}
			if ce != nil {
				return fmt.Errorf("%s: Close: %v", what, ce)
			}
			if e := b.Close(); e != nil {
				return fmt.Errorf("%s: second Close (documented idempotent): %v", what, e)
			}
		case "iter":
			for _, it := range op.Its {
				for _, bnd := range [][]byte{it.Start, it.End} {
					if bnd != nil && r.worlds[0].phys.Has(r.physKey(op.Via, bnd)) {
						ntBoundKey = true
					}
				}
			}
			if err := r.doIter(op.Via, op.Its,
				func(it c29It) (dbm.Iterator, error) {
					if it.Rev {
						return h.ReverseIterator(it.Start, it.End)
					}
					return h.Iterator(it.Start, it.End)
				},
				func(k []byte) ([]byte, error) { return h.Get(k) },
				func(w *c29World, _ int, it c29It) []KV { return w.rng(&c, op.Via, it) },
				func(w *c29World, _ int, k []byte) ([]byte, bool) { return w.get(&c, op.Via, k) }, what); err != nil {
				return err
			}
		case "snap":
			s, e := h.NewSnapshot()
			supported := c29Snapshots[c.Backend] && !(op.Via == "wrap" && c.Wrap == "prefix")
			if !supported {
				if e == nil {
					if s != nil {
						s.Close()
					}
					return fmt.Errorf("%s: NewSnapshot on a handle that documents \"snapshots not supported\" returned no error", what)
				}
				r.snaps = append(r.snaps, &c29Snap{})
				ctx.Class("snapshot-unsupported-error")
				break
			}
			if e != nil || s == nil {
				return fmt.Errorf("%s: NewSnapshot: %v (snapshot nil=%v)", what, e, s == nil)
			}
			sn := &c29Snap{s: s, open: true}
			for wi, w := range r.worlds {
				sn.frozen[wi] = w.phys.Clone()
			}
			snapBatchSeq[len(r.snaps)] = batchSeq
			r.snaps = append(r.snaps, sn)
		case "snapget", "snaphas", "snapiter", "snapclose":
			if op.Snap >= len(r.snaps) || !r.snaps[op.Snap].open {
				break
			}
			sn := r.snaps[op.Snap]
			var rd interface {
				Get([]byte) ([]byte, error)
				Has([]byte) (bool, error)
				Iterator(start, end []byte) (dbm.Iterator, error)
				ReverseIterator(start, end []byte) (dbm.Iterator, error)
			} = sn.s
			if op.SDB {
				rd = dbm.NewSnapshotDB(sn.s)
			}
			if batchSeq > snapBatchSeq[op.Snap] && op.Op != "snapclose" {
				ntSnapAfterBatch = true
			}
			switch op.Op {
			case "snapget":
				v, e := rd.Get(c29Arg(op.Key))
				if e != nil {
					return fmt.Errorf("%s: %v", what, e)
				}
				got, gotNil := clone(v), v == nil
				if err := r.check(func(w *c29World, wi int) error {
					want, ok := sn.frozen[wi].Get(w.km(nonNil(op.Key)))
					if ok != !gotNil || (ok && !bytes.Equal(got, want)) {
						return fmt.Errorf("%s: snapshot %d Get(%v) = %q (nil=%v), state when the snapshot was taken: present=%v value=%q", what, op.Snap, op.Key, got, gotNil, ok, want)
					}
					return nil
				}); err != nil {
					return err
				}
				r.hold("Snapshot.Get", v)
			case "snaphas":
				b, e := rd.Has(c29Arg(op.Key))
				if e != nil {
					return fmt.Errorf("%s: %v", what, e)
				}
				if err := r.check(func(w *c29World, wi int) error {
					if ok := sn.frozen[wi].Has(w.km(nonNil(op.Key))); ok != b {
						return fmt.Errorf("%s: snapshot %d Has(%v) = %v, state when the snapshot was taken: %v", what, op.Snap, op.Key, b, ok)
					}
					return nil
				}); err != nil {
					return err
				}
			case "snapiter":
				if err := r.doIter("raw", op.Its,
					func(it c29It) (dbm.Iterator, error) {
						if it.Rev {
							return rd.ReverseIterator(it.Start, it.End)
						}
						return rd.Iterator(it.Start, it.End)
					},
					func(k []byte) ([]byte, error) { return rd.Get(k) },
					func(_ *c29World, wi int, it c29It) []KV { return sn.frozen[wi].Range(it.Start, it.End, it.Rev) },
					func(w *c29World, wi int, k []byte) ([]byte, bool) { return sn.frozen[wi].Get(w.km(k)) },
					fmt.Sprintf("%s (snapshot %d)", what, op.Snap)); err != nil {
					return err
				}
			case "snapclose":
				sn.open = false
				if e := sn.s.Close(); e != nil {
					return fmt.Errorf("%s: %v", what, e)
				}
			}
		case "drain":
			if r.coll == nil {
				break
			}
			b := r.raw.NewBatch()
			if e := r.coll.Drain(b); e != nil {
				return fmt.Errorf("%s: Drain: %v", what, e)
			}
			if e := b.Write(); e != nil {
				return fmt.Errorf("%s: Write: %v", what, e)
			}
			b.Close()
			for _, w := range r.worlds {
				w.drain()
			}
			batchSeq++
			ctx.Class("drain")
		case "reopen":
			if !c29Persistent[c.Backend] {
				break
			}
			for _, s := range r.snaps {
				if s.open {
					s.open = false
					s.s.Close()
				}
			}
			if err := r.checkHeld(what + " (before Close)"); err != nil {
				return err
			}
			e := r.raw.Close()
			r.raw = nil
			if e != nil {
				return fmt.Errorf("%s: Close: %v", what, e)
			}
			if err := r.open(); err != nil {
				return fmt.Errorf("%s: %v", what, err)
			}
			ctx.Class("reopen")
		}
		if err := r.checkHeld(what); err != nil {
			return err
		}
	}
	// final sweep: whole contents through the raw handle
	all := []c29It{{Steps: -1}, {Steps: -1, Rev: true}}
	for _, it := range all {
		if err := r.doIter("raw", []c29It{it},
			func(it c29It) (dbm.Iterator, error) {
				if it.Rev {
					return r.raw.ReverseIterator(nil, nil)
				}
				return r.raw.Iterator(nil, nil)
			}, nil,
			func(w *c29World, _ int, it c29It) []KV { return w.phys.Range(nil, nil, it.Rev) }, nil, "final sweep"); err != nil {
			return err
		}
	}
	if err := r.checkHeld("the final sweep"); err != nil {
		return err
	}
	ctx.ClassIf(ntEmpty, "nt:empty-key-or-value")
	ctx.ClassIf(ntBoundKey, "nt:bound-equals-key")
	ctx.ClassIf(ntSnapAfterBatch, "nt:snapshot-read-after-batch")
	ctx.NTIf(ntEmpty || ntBoundKey || ntSnapAfterBatch)
	return nil
}

// cmpGet compares one point read with the model ("Get returns nil iff key doesn't exist").
func (r *c29Run) cmpGet(w *c29World, via string, key, got []byte, gotNil bool, want []byte, ok bool) error {
	if ok == !gotNil && (!ok || bytes.Equal(got, want)) {
		return nil
	}
	if ok && gotNil && len(want) == 0 && via == "wrap" && r.c.Wrap == "collecting" {
		// CollectingDB.Set copies the value with append([]byte(nil), value...): an empty value
		// becomes nil and the not-yet-drained key reads as absent through Get (Has says present).
		if v, del, pending := w.pendGet(nonNil(key)); pending && !del && len(v) == 0 && r.ctx.Known("collectingdb-get-nil-for-pending-empty-value") {
			r.ctx.Class("known:collectingdb-get-nil-for-pending-empty-value")
			return nil
		}
	}
	return fmt.Errorf("Get(%q) = %q (nil=%v), model: present=%v value=%q (Get returns nil iff the key does not exist)", key, got, gotNil, ok, want)
}

func nonNil(k []byte) []byte {
	if k == nil {
		return []byte{}
	}
	return k
}

// physKey maps a handle-level key to the physical key of the primary world.
func (r *c29Run) physKey(via string, k []byte) []byte {
	if via == "wrap" && r.c.Wrap == "prefix" {
		return append(clone(r.c.Prefix), k...)
	}
	return k
}

const c29Rule = "rapid: one back-end (all registered: memdb, goleveldb, pebbledb, boltdb, lmdbdb, mdbxdb) optionally under PrefixDB/ImmutableDB/CollectingDB, and a history of 3-30 ops (set/setSync/delete/deleteSync, get/has, batches written/written-sync/discarded, 1-2 simultaneously open iterators over generated bounds in both directions consumed fully or partly with optional mutation of the returned slices and point reads in between, snapshots taken/read (directly and through SnapshotDB)/closed, drain, close+reopen) over keys from {00,'a','b',FF}^0..3 (nil and empty included) and values incl. nil/empty; non-trivial = the history uses an empty key or value, an iterator bound equal to a stored key, or a snapshot read after a later batch"

func TestC29_Wrappers(t *testing.T) {
	vk.Run(t, vk.Spec[c29Case]{ID: "C29", Name: "TestC29_Wrappers", Rule: "as TestC29_Backends, but always memdb under one of PrefixDB (prefix of 1-2 bytes, keys adjacent to the prefix range included) / ImmutableDB / CollectingDB (with drains), ops addressed to the wrapper and to the raw DB; " + c29Rule[strings.Index(c29Rule, "non-trivial"):],
		Draw: func(rt *rapid.T) c29Case { return c29DrawFor(rt, true) }, Exec: c29Exec})
}

func TestC29_Backends(t *testing.T) {
	vk.Run(t, vk.Spec[c29Case]{ID: "C29", Name: "TestC29_Backends", Rule: c29Rule, Draw: c29Draw, Exec: c29Exec})
}
