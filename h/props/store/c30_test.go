package store

import (
	"bytes"
	"errors"
	"fmt"
	"math"
	"sort"
	"strconv"
	"testing"

	ics23 "github.com/cosmos/ics23/go"
	dbm "github.com/gnolang/gno/tm2/pkg/db"
	"github.com/gnolang/gno/tm2/pkg/db/memdb"
	"github.com/gnolang/gno/tm2/pkg/iavl"
	"pgregory.net/rapid"
	"verif/vk"
)

// C30 — the IAVL tree is a correct versioned, provable map.
//
// One case = a configuration (node-cache size, fast storage on/off), a twin
// configuration and a history. The history runs against a versioned
// ordered-map model under the first configuration, then again under the twin
// configuration (with extra reopen points); both runs must produce the same
// root hash for every saved version.

type c30Cfg struct {
	Cache int  `json:"cache"`
	Fast  bool `json:"fast"` // fast storage enabled (skipFastStorageUpgrade=false)
}

type c30Op struct {
	Op    string  `json:"op"` // set rm run get has index iter save rollback imm getver delto reopen loadold overwrite proof replay
	Key   B       `json:"key"`
	Val   B       `json:"val"`
	N     int     `json:"n,omitempty"`    // run: number of keys
	Step  int     `json:"step,omitempty"` // run: stride
	Del   bool    `json:"del,omitempty"`  // run: remove instead of set
	Start B       `json:"start"`
	End   B       `json:"end"`
	Asc   bool    `json:"asc,omitempty"`
	How   int     `json:"how,omitempty"`   // iter: 0 Iterator, 1 IterateRange, 2 Iterate; proof: mutation selector (7: sweep of every key and gap); replay: handle selector
	Ver   int     `json:"ver,omitempty"`   // selector into the retained versions
	VKind int     `json:"vkind,omitempty"` // 0 retained, 1 pruned/never existed, 2 future
	Cfg   *c30Cfg `json:"cfg,omitempty"`
}

type c30Case struct {
	Cfg        c30Cfg  `json:"cfg"`
	Twin       c30Cfg  `json:"twin"`
	TwinReopen bool    `json:"twin_reopen"` // twin run reopens the tree after every save
	Ops        []c30Op `json:"ops"`
}

var c30Caches = []int{0, 1, 8, 10000}

func c30DrawCfg(rt *rapid.T, label string) c30Cfg {
	return c30Cfg{Cache: rapid.SampledFrom(c30Caches).Draw(rt, label+"cache"), Fast: rapid.Bool().Draw(rt, label+"fast")}
}

func c30NumKey(n int) B { return B{'k', byte(n >> 8), byte(n)} }

// keys: non-empty; either short strings over {00,'a','b',FF} or numeric keys
// "k"+uint16 (dense clusters and sequential runs force rotations).
func c30DrawKey(rt *rapid.T, label string) B {
	switch rapid.IntRange(0, 5).Draw(rt, label+"kind") {
	case 0, 1:
		return c29DrawBytes(rt, label, 3)
	case 2: // cluster around a multiple of 32
		return c30NumKey(32*rapid.IntRange(0, 7).Draw(rt, label+"c") + rapid.IntRange(0, 5).Draw(rt, label+"o"))
	}
	return c30NumKey(rapid.IntRange(0, 255).Draw(rt, label+"num"))
}

func c30DrawVal(rt *rapid.T, label string) B {
	switch rapid.IntRange(0, 29).Draw(rt, label+"kind") {
	case 0: // empty (non-nil) values are legal but rare: ics23 cannot prove them (known finding)
		return B{}
	case 1, 2, 3:
		return bytes.Repeat([]byte{'v'}, rapid.IntRange(10, 80).Draw(rt, label+"long"))
	}
	return c29DrawBytes(rt, label, 3)
}

func c30DrawBound(rt *rapid.T, label string) B {
	if rapid.IntRange(0, 2).Draw(rt, label+"nil") == 0 {
		return nil
	}
	return c30DrawKey(rt, label)
}

func c30Draw(rt *rapid.T) c30Case {
	c := c30Case{Cfg: c30DrawCfg(rt, "cfg"), Twin: c30DrawCfg(rt, "twin"), TwinReopen: rapid.Bool().Draw(rt, "twinreopen")}
	n := rapid.IntRange(10, 100).Draw(rt, "nops")
	kinds := []string{
		"set", "set", "set", "set", "set", "set", "rm", "rm", "rm", "run", "run",
		"get", "has", "index", "iter", "iter",
		"save", "save", "save", "save", "rollback",
		"imm", "imm", "getver", "delto", "delto", "reopen", "loadold", "overwrite", "proof", "proof", "proof",
		"replay", "replay",
	}
	for i := 0; i < n; i++ {
		op := c30Op{Op: rapid.SampledFrom(kinds).Draw(rt, "op")}
		switch op.Op {
		case "set":
			op.Key, op.Val = c30DrawKey(rt, "k"), c30DrawVal(rt, "v")
		case "rm", "get", "has", "index":
			op.Key = c30DrawKey(rt, "k")
		case "run":
			op.Key = c30NumKey(rapid.IntRange(0, 255).Draw(rt, "from"))
			op.N = rapid.IntRange(3, 40).Draw(rt, "n")
			op.Step = rapid.SampledFrom([]int{1, 1, 1, -1, -1, 2, 7}).Draw(rt, "step")
			op.Del = rapid.IntRange(0, 3).Draw(rt, "del") == 0
			op.Val = c30DrawVal(rt, "v")
		case "iter":
			op.Start, op.End, op.Asc = c30DrawBound(rt, "s"), c30DrawBound(rt, "e"), rapid.Bool().Draw(rt, "asc")
			op.How = rapid.IntRange(0, 2).Draw(rt, "how")
		case "imm", "getver", "loadold", "overwrite", "proof", "replay":
			op.Ver = rapid.IntRange(0, 15).Draw(rt, "ver")
			op.VKind = rapid.SampledFrom([]int{0, 0, 0, 0, 1, 2}).Draw(rt, "vkind")
			op.Key = c30DrawKey(rt, "k")
			op.Start, op.End, op.Asc = c30DrawBound(rt, "s"), c30DrawBound(rt, "e"), rapid.Bool().Draw(rt, "asc")
			op.How = rapid.IntRange(0, 7).Draw(rt, "how")
		case "delto":
			op.Ver = rapid.IntRange(0, 15).Draw(rt, "ver")
			op.VKind = rapid.SampledFrom([]int{0, 0, 0, 1, 2}).Draw(rt, "vkind")
		case "reopen":
			cfg := c30DrawCfg(rt, "re")
			op.Cfg = &cfg
		}
		c.Ops = append(c.Ops, op)
	}
	return c
}

// ---------------------------------------------------------------- run

type c30Run struct {
	ctx      *vk.Ctx
	twin     bool
	db       dbm.DB
	cfg      c30Cfg
	tree     *iavl.MutableTree
	work     *OMap
	saved    *VMap
	hashes   map[int64][]byte // hash recorded when the version was saved (retained versions only)
	diverged bool             // a known finding left this run with another set of versions than its twin
	unsaved  bool             // Set/Remove was called since the last save/rollback/reopen
	// on-disk fast index bookkeeping: the live-state version recorded with it (-1: never built)
	// and whether versions were saved/overwritten since then with fast storage switched off
	fastRecorded int64
	fastStale    bool
	ghosts       *VMap            // pruned versions (contents at save time); they need not be readable any more,
	ghostH       map[int64][]byte // but when the tree still serves one it must serve exactly this
	latest       int64
	log          [][]byte // hash after every save, in order
	classes      map[string]bool
	// the Set/Remove calls made since the working tree last equalled the latest saved version, and
	// the calls that turned version lastLogVer-1 into version lastLogVer (0: not known)
	pending    []c30Mut
	lastLog    []c30Mut
	lastLogVer int64
	replayed   bool // a replay happened; replayedAt = the version that was re-executed last
	replayedAt int64
}

type c30Mut struct {
	del  bool
	k, v []byte
}

func (r *c30Run) class(s string) {
	if !r.twin {
		r.classes[s] = true
	}
}

func (r *c30Run) openTree(cfg c30Cfg) error {
	r.cfg = cfg
	r.unsaved = false
	r.tree = iavl.NewMutableTree(r.db, cfg.Cache, !cfg.Fast, iavl.NewNopLogger())
	v, err := r.tree.Load()
	if err != nil {
		return fmt.Errorf("Load(): %v", err)
	}
	if v != r.latest {
		return fmt.Errorf("Load() = version %d, model latest %d", v, r.latest)
	}
	if !cfg.Fast {
		return nil
	}
	if r.fastRecorded == r.latest && r.fastStale {
		// The fast index was built for another history that happened to end at the same version
		// number (versions were overwritten and re-saved while fast storage was off). IAVL decides
		// "index matches live state" by that number alone.
		m := NewOMap()
		if lm, ok := r.saved.Get(r.latest); ok {
			m = lm
		}
		if err := r.checkReads("tree reopened with fast storage", r.tree, m, c30Op{Asc: true}); err != nil {
			if r.ctx.Known("iavl-stale-fast-index-trusted-when-version-number-matches") {
				r.class("known:iavl-stale-fast-index-trusted-when-version-number-matches")
				r.tree.Close()
				cfg.Fast = false // resynchronise: keep using the tree without the stale index
				return r.openTree(cfg)
			}
			return fmt.Errorf("%v [fast index recorded for version %d of an overwritten history]", err, r.fastRecorded)
		}
	}
	r.fastRecorded, r.fastStale = r.latest, false
	return nil
}

// pickVersion resolves a version selector: kind 0 = a retained version, 1 = a
// version that was pruned / overwritten / never existed (<= latest), 2 = a
// future version.
func (r *c30Run) pickVersion(sel, kind int) (v int64, retained, ok bool) {
	vs := r.saved.Versions()
	switch kind {
	case 0:
		if len(vs) == 0 {
			return 0, false, false
		}
		return vs[sel%len(vs)], true, true
	case 1:
		gs := r.ghosts.Versions()
		if len(gs) == 0 {
			return 0, false, false
		}
		return gs[sel%len(gs)], false, true
	}
	return r.latest + 1 + int64(sel%3), false, true
}

type c30Reader interface {
	Get(key []byte) ([]byte, error)
	Has(key []byte) (bool, error)
	Size() int64
	Height() int8
	Iterator(start, end []byte, ascending bool) (dbm.Iterator, error)
	GetWithIndex(key []byte) (int64, []byte, error)
	GetByIndex(index int64) (key []byte, value []byte, err error)
}

func c30Drain(it dbm.Iterator) (out []KV, err error) {
	defer it.Close()
	for ; it.Valid(); it.Next() {
		out = append(out, KV{clone(it.Key()), clone(it.Value())})
		if len(out) > 5000 {
			return nil, fmt.Errorf("iterator does not terminate")
		}
	}
	return out, it.Error()
}

// checkReads compares a tree (working tree or an immutable version) with a map.
func (r *c30Run) checkReads(what string, t c30Reader, m *OMap, op c30Op) error {
	if sz := t.Size(); sz != int64(m.Len()) {
		return fmt.Errorf("%s: Size() = %d, model %d", what, sz, m.Len())
	}
	// AVL balance: height <= 1.44*log2(n+2)
	if h, n := float64(t.Height()), float64(m.Len()); n > 0 && h > 1.44*math.Log2(n+2) {
		return fmt.Errorf("%s: Height() = %v with %v keys exceeds the AVL bound %.2f", what, h, n, 1.44*math.Log2(n+2))
	}
	if op.Key != nil {
		v, err := t.Get(clone(op.Key))
		if err != nil {
			return fmt.Errorf("%s: Get(%v): %v", what, op.Key, err)
		}
		want, ok := m.Get(op.Key)
		if (ok && !bytes.Equal(v, want)) || (!ok && v != nil) {
			return fmt.Errorf("%s: Get(%v) = %q (nil=%v), model present=%v value=%q", what, op.Key, v, v == nil, ok, want)
		}
		h, err := t.Has(clone(op.Key))
		if err != nil || h != ok {
			return fmt.Errorf("%s: Has(%v) = %v, %v; model %v", what, op.Key, h, err, ok)
		}
		// index semantics
		keys := m.Keys()
		rank := sort.SearchStrings(keys, string(op.Key))
		idx, iv, err := t.GetWithIndex(clone(op.Key))
		if err != nil {
			return fmt.Errorf("%s: GetWithIndex(%v): %v", what, op.Key, err)
		}
		if idx != int64(rank) || (ok && !bytes.Equal(iv, want)) || (!ok && iv != nil) {
			return fmt.Errorf("%s: GetWithIndex(%v) = (%d, %q), model (%d, %q present=%v)", what, op.Key, idx, iv, rank, want, ok)
		}
		if len(keys) > 0 {
			i := op.How % len(keys)
			k, v, err := t.GetByIndex(int64(i))
			wv, _ := m.Get([]byte(keys[i]))
			if err != nil || string(k) != keys[i] || !bytes.Equal(v, wv) {
				return fmt.Errorf("%s: GetByIndex(%d) = (%q, %q, %v), model (%q, %q)", what, i, k, v, err, keys[i], wv)
			}
		}
	}
	it, err := t.Iterator(clone(op.Start), clone(op.End), op.Asc)
	if err != nil {
		return fmt.Errorf("%s: Iterator: %v", what, err)
	}
	got, err := c30Drain(it)
	if err != nil {
		return fmt.Errorf("%s: Iterator [%v,%v) asc=%v: %v", what, op.Start, op.End, op.Asc, err)
	}
	if want := m.Range(op.Start, op.End, !op.Asc); !sameKVs(got, want) {
		return fmt.Errorf("%s: Iterator [%v,%v) asc=%v = %v, model %v", what, op.Start, op.End, op.Asc, got, want)
	}
	return nil
}

var c30Spec = ics23.IavlSpec

// checkProofs: proofs for present and absent keys verify only for the true answer.
func (r *c30Run) checkProofs(what string, t *iavl.ImmutableTree, m *OMap, ver int64, op c30Op) error {
	if m.Len() == 0 {
		return nil
	}
	root := t.Hash()
	keys := m.Keys()
	// a second root that must not accept the proofs
	var otherRoot []byte
	for _, v := range r.saved.Versions() {
		if h := r.hashes[v]; v != ver && !bytes.Equal(h, root) {
			otherRoot = h
			break
		}
	}
	flip := func(b []byte, sel int) bool {
		if len(b) == 0 {
			return false
		}
		b[sel%len(b)] ^= 1 << uint(sel%8)
		return true
	}
	mutateExist := func(e *ics23.ExistenceProof, sel int) string {
		n := len(e.Path)
		switch which := sel % 4; {
		case which == 0 && n > 0:
			p := e.Path[(sel/4)%n]
			p.Prefix = clone(p.Prefix)
			if flip(p.Prefix, sel/8) {
				return "inner prefix"
			}
		case which == 1 && n > 0:
			p := e.Path[(sel/4)%n]
			p.Suffix = clone(p.Suffix)
			if flip(p.Suffix, sel/8) {
				return "inner suffix"
			}
		case which == 2:
			e.Leaf.Prefix = clone(e.Leaf.Prefix)
			if flip(e.Leaf.Prefix, sel/4) {
				return "leaf prefix"
			}
		}
		if n > 0 { // drop one step of the path
			i := (sel / 4) % n
			e.Path = append(append([]*ics23.InnerOp{}, e.Path[:i]...), e.Path[i+1:]...)
			return "path step removed"
		}
		return ""
	}

	key := []byte(op.Key)
	val, present := m.Get(key)
	if !present && op.How%2 == 0 { // also exercise a present key
		key = []byte(keys[op.Ver%len(keys)])
		val, present = m.Get(key)
	}
	if present {
		r.class("proof:membership")
		proof, err := t.GetMembershipProof(clone(key))
		if len(val) == 0 {
			// ics23 cannot express an empty value ("Leaf op needs value"): a present key with an
			// empty value has no verifying membership proof.
			if err == nil && ics23.VerifyMembership(c30Spec, root, proof, key, val) {
				return nil
			}
			if r.ctx.Known("iavl-empty-value-has-no-verifying-membership-proof") {
				r.class("known:iavl-empty-value-has-no-verifying-membership-proof")
				return nil
			}
			return fmt.Errorf("%s: key %q is present with an empty value but its membership proof does not verify (GetMembershipProof err=%v)", what, key, err)
		}
		if err != nil {
			return fmt.Errorf("%s: GetMembershipProof(%q) of a present key: %v", what, key, err)
		}
		if !ics23.VerifyMembership(c30Spec, root, proof, key, val) {
			return fmt.Errorf("%s: honest membership proof of %q=%q does not verify against the version's root", what, key, val)
		}
		if ok, err := t.VerifyMembership(proof, clone(key)); err != nil || !ok {
			return fmt.Errorf("%s: ImmutableTree.VerifyMembership(%q) = %v, %v for the honest proof", what, key, ok, err)
		}
		if ics23.VerifyMembership(c30Spec, root, proof, key, append(clone(val), 'x')) {
			return fmt.Errorf("%s: membership proof of %q verifies for a different value", what, key)
		}
		if ics23.VerifyMembership(c30Spec, root, proof, append(clone(key), 0), val) {
			return fmt.Errorf("%s: membership proof of %q verifies for a different key", what, key)
		}
		if ics23.VerifyNonMembership(c30Spec, root, proof, key) {
			return fmt.Errorf("%s: membership proof of %q verifies as a non-membership proof", what, key)
		}
		if otherRoot != nil && ics23.VerifyMembership(c30Spec, otherRoot, proof, key, val) {
			return fmt.Errorf("%s: membership proof of %q verifies against the different root of another version", what, key)
		}
		if np, err := t.GetNonMembershipProof(clone(key)); err == nil && ics23.VerifyNonMembership(c30Spec, root, np, key) {
			return fmt.Errorf("%s: a verifying NON-membership proof was produced for the present key %q", what, key)
		}
		// mutated proof
		p2, err := t.GetMembershipProof(clone(key))
		if err != nil {
			return fmt.Errorf("%s: second GetMembershipProof: %v", what, err)
		}
		if how := mutateExist(p2.GetExist(), op.How); how != "" {
			r.class("proof:mutated")
			if ics23.VerifyMembership(c30Spec, root, p2, key, val) {
				return fmt.Errorf("%s: membership proof of %q still verifies after mutation (%s)", what, key, how)
			}
		}
		// transplant: the proof of this key must not prove another present key
		if len(keys) > 1 {
			other := []byte(keys[(op.Ver+1)%len(keys)])
			if !bytes.Equal(other, key) {
				ov, _ := m.Get(other)
				if ics23.VerifyMembership(c30Spec, root, proof, other, ov) {
					return fmt.Errorf("%s: membership proof of %q verifies for the other key %q", what, key, other)
				}
			}
		}
		return nil
	}
	// absent key
	r.class("proof:non-membership")
	rank := sort.SearchStrings(keys, string(key))
	if rank == 0 || rank == len(keys) {
		r.class("proof:non-membership-at-edge")
	}
	if _, err := t.GetMembershipProof(clone(key)); err == nil {
		return fmt.Errorf("%s: GetMembershipProof(%q) of an absent key returned no error", what, key)
	}
	proof, err := t.GetNonMembershipProof(clone(key))
	if err != nil {
		// a neighbour with an empty value cannot be expressed either
		return fmt.Errorf("%s: GetNonMembershipProof(%q) of an absent key: %v", what, key, err)
	}
	if !ics23.VerifyNonMembership(c30Spec, root, proof, key) {
		emptyNeighbour := false
		for _, i := range []int{rank - 1, rank} {
			if i >= 0 && i < len(keys) {
				if v, _ := m.Get([]byte(keys[i])); len(v) == 0 {
					emptyNeighbour = true
				}
			}
		}
		if emptyNeighbour && r.ctx.Known("iavl-empty-value-has-no-verifying-membership-proof") {
			r.class("known:iavl-empty-value-has-no-verifying-membership-proof")
			return nil
		}
		return fmt.Errorf("%s: honest non-membership proof of %q does not verify (neighbour with empty value: %v)", what, key, emptyNeighbour)
	}
	if ok, err := t.VerifyNonMembership(proof, clone(key)); err != nil || !ok {
		return fmt.Errorf("%s: ImmutableTree.VerifyNonMembership(%q) = %v, %v for the honest proof", what, key, ok, err)
	}
	if otherRoot != nil && ics23.VerifyNonMembership(c30Spec, otherRoot, proof, key) {
		return fmt.Errorf("%s: non-membership proof of %q verifies against the different root of another version", what, key)
	}
	// the same proof must not show absence of a key that is present
	for _, i := range []int{rank - 1, rank} {
		if i >= 0 && i < len(keys) {
			if ics23.VerifyNonMembership(c30Spec, root, proof, []byte(keys[i])) {
				return fmt.Errorf("%s: non-membership proof of %q verifies for the present key %q", what, key, keys[i])
			}
		}
	}
	// nor absence of a key in another gap
	var probes [][]byte
	if rank-2 >= 0 {
		if p := append([]byte(keys[rank-2]), 0); bytes.Compare(p, []byte(keys[rank-1])) < 0 {
			probes = append(probes, p)
		}
	}
	if rank < len(keys) {
		if p := append([]byte(keys[rank]), 0); rank+1 == len(keys) || bytes.Compare(p, []byte(keys[rank+1])) < 0 {
			probes = append(probes, p)
		}
	}
	for _, probe := range probes {
		if ics23.VerifyNonMembership(c30Spec, root, proof, probe) {
			return fmt.Errorf("%s: non-membership proof of %q verifies for %q which lies in another gap", what, key, probe)
		}
	}
	// mutated neighbour proofs
	p2, _ := t.GetNonMembershipProof(clone(key))
	ne := p2.GetNonexist()
	target := ne.Left
	if target == nil || (op.How%2 == 1 && ne.Right != nil) {
		target = ne.Right
	}
	if target != nil {
		if how := mutateExist(target, op.How); how != "" {
			r.class("proof:mutated")
			if ics23.VerifyNonMembership(c30Spec, root, p2, key) {
				return fmt.Errorf("%s: non-membership proof of %q still verifies after mutation (%s)", what, key, how)
			}
		}
	}
	return nil
}

// sweepProofs asks for the honest proof of EVERY key of a version and of a probe
// in EVERY gap between them (and before the first / after the last key) and
// verifies each against the version's root hash. Keys with an empty value and
// gaps next to one are left to checkProofs (ics23 cannot express them).
func (r *c30Run) sweepProofs(what string, t *iavl.ImmutableTree, m *OMap) error {
	keys := m.Keys()
	if len(keys) == 0 {
		return nil
	}
	root := t.Hash()
	empty := make([]bool, len(keys))
	for i, k := range keys {
		val, _ := m.Get([]byte(k))
		if empty[i] = len(val) == 0; empty[i] {
			continue
		}
		proof, err := t.GetMembershipProof([]byte(k))
		if err != nil {
			return fmt.Errorf("%s: proof sweep: GetMembershipProof(%q) of a present key: %v", what, k, err)
		}
		if !ics23.VerifyMembership(c30Spec, root, proof, []byte(k), val) {
			return fmt.Errorf("%s: proof sweep: honest membership proof of %q=%q does not verify against the version's root %X (key %d of %d)", what, k, val, root, i, len(keys))
		}
	}
	// gap i lies below keys[i]; gap len(keys) lies above the last key
	for i := 0; i <= len(keys); i++ {
		if (i > 0 && empty[i-1]) || (i < len(keys) && empty[i]) {
			continue
		}
		var probe []byte
		if i > 0 {
			probe = append([]byte(keys[i-1]), 0)
			if i < len(keys) && bytes.Compare(probe, []byte(keys[i])) >= 0 {
				continue // adjacent keys: the gap is empty
			}
		} else {
			first := []byte(keys[0])
			switch {
			case len(first) > 1:
				probe = first[:len(first)-1]
			case first[0] > 0:
				probe = []byte{first[0] - 1}
			default:
				continue // nothing non-empty sorts below "\x00"
			}
		}
		proof, err := t.GetNonMembershipProof(clone(probe))
		if err != nil {
			return fmt.Errorf("%s: proof sweep: GetNonMembershipProof(%q) of an absent key: %v", what, probe, err)
		}
		if !ics23.VerifyNonMembership(c30Spec, root, proof, probe) {
			return fmt.Errorf("%s: proof sweep: honest non-membership proof of %q does not verify against the version's root %X (gap %d of %d)", what, probe, root, i, len(keys))
		}
	}
	r.class("proof:sweep")
	return nil
}

// afterLoad checks the working tree right after a LoadVersion-family call.
// dirty = the tree had unsaved changes when the call was made.
func (r *c30Run) afterLoad(what string, m *OMap, op c30Op, dirty bool) (resynced bool, err error) {
	err = r.checkReads(what, r.tree, m, op)
	if err == nil {
		err = r.checkReads(what, r.tree, m, c30Op{Asc: true})
	}
	if err == nil {
		return false, nil
	}
	if dirty && r.cfg.Fast && r.ctx.Known("iavl-loadversion-keeps-unsaved-fast-node-changes") {
		// LoadVersion replaces the working tree but keeps unsavedFastNodeAdditions/Removals
		// (Rollback clears them); with fast storage the reloaded tree shows the unsaved changes.
		r.class("known:iavl-loadversion-keeps-unsaved-fast-node-changes")
		r.tree.Rollback() // resynchronise: drops the stale unsaved fast-node changes
		if err2 := r.checkReads(what+" (after Rollback)", r.tree, m, c30Op{Asc: true}); err2 != nil {
			return true, err2
		}
		return true, nil
	}
	if dirty && r.cfg.Fast {
		return false, fmt.Errorf("%v [the tree had unsaved changes before the load and fast storage is on]", err)
	}
	return false, err
}

// sameVersions: every retained version is listed by AvailableVersions, and
// everything listed is a retained version or a pruned one that is still served.
func (r *c30Run) sameVersions(what string) error {
	got := r.tree.AvailableVersions()
	listed := map[int64]bool{}
	for _, v := range got {
		listed[int64(v)] = true
		_, isRetained := r.saved.Get(int64(v))
		_, isGhost := r.ghosts.Get(int64(v))
		if !isRetained && !isGhost && !(v == 0 && r.latest == 0) { // an empty database reports the placeholder version 0
			return fmt.Errorf("%s: AvailableVersions() = %v lists %d, which was never saved or was overwritten (retained %v)", what, got, v, r.saved.Versions())
		}
	}
	for _, v := range r.saved.Versions() {
		if !listed[v] {
			return fmt.Errorf("%s: AvailableVersions() = %v misses the retained version %d", what, got, v)
		}
	}
	return nil
}

func (r *c30Run) run(c *c30Case, cfg c30Cfg) error {
	r.db = memdb.NewMemDB()
	r.work, r.saved, r.hashes = NewOMap(), NewVMap(), map[int64][]byte{}
	r.ghosts, r.ghostH = NewVMap(), map[int64][]byte{}
	r.fastRecorded = -1
	if err := r.openTree(cfg); err != nil {
		return err
	}
	defer func() {
		if r.tree != nil {
			r.tree.Close()
		}
	}()
	lastSaved := func() *OMap {
		if m, ok := r.saved.Get(r.latest); ok {
			return m.Clone()
		}
		return NewOMap()
	}
	setOne := func(what string, k, v []byte) error {
		v = nonNil(v) // nil values are documented invalid; the generator never draws one
		upd, err := r.tree.Set(clone(k), clone(v))
		if err != nil {
			return fmt.Errorf("%s: Set(%q,%q): %v", what, k, v, err)
		}
		if upd != r.work.Has(k) {
			return fmt.Errorf("%s: Set(%q) reported updated=%v, model had the key: %v", what, k, upd, r.work.Has(k))
		}
		r.work.Set(k, v)
		r.unsaved = true
		r.pending = append(r.pending, c30Mut{k: clone(k), v: clone(v)})
		return nil
	}
	rmOne := func(what string, k []byte) error {
		old, removed, err := r.tree.Remove(clone(k))
		if err != nil {
			return fmt.Errorf("%s: Remove(%q): %v", what, k, err)
		}
		want, ok := r.work.Get(k)
		if removed != ok || (ok && !bytes.Equal(old, want)) {
			return fmt.Errorf("%s: Remove(%q) = (%q, %v), model (%q, %v)", what, k, old, removed, want, ok)
		}
		r.work.Delete(k)
		r.unsaved = true
		r.pending = append(r.pending, c30Mut{del: true, k: clone(k)})
		return nil
	}
	for i, op := range c.Ops {
		what := fmt.Sprintf("op %d %s (cache=%d fast=%v twin=%v)", i, op.Op, r.cfg.Cache, r.cfg.Fast, r.twin)
		switch op.Op {
		case "set":
			if err := setOne(what, op.Key, op.Val); err != nil {
				return err
			}
		case "rm":
			if err := rmOne(what, op.Key); err != nil {
				return err
			}
		case "run":
			if len(op.Key) != 3 {
				break
			}
			from := int(op.Key[1])<<8 | int(op.Key[2])
			for j := 0; j < op.N; j++ {
				n := from + j*op.Step
				if n < 0 || n > 0xFFFF {
					break
				}
				var err error
				if op.Del {
					err = rmOne(what, c30NumKey(n))
				} else {
					err = setOne(what, c30NumKey(n), op.Val)
				}
				if err != nil {
					return err
				}
			}
		case "get", "has", "index":
			if err := r.checkReads(what+": working tree", r.tree, r.work, op); err != nil {
				return err
			}
		case "iter":
			var got []KV
			switch op.How {
			case 1:
				r.tree.ImmutableTree.IterateRange(clone(op.Start), clone(op.End), op.Asc, func(k, v []byte) bool {
					got = append(got, KV{clone(k), clone(v)})
					return false
				})
			case 2:
				if _, err := r.tree.Iterate(func(k, v []byte) bool {
					got = append(got, KV{clone(k), clone(v)})
					return false
				}); err != nil {
					return fmt.Errorf("%s: Iterate: %v", what, err)
				}
				op.Start, op.End, op.Asc = nil, nil, true
			default:
				it, err := r.tree.Iterator(clone(op.Start), clone(op.End), op.Asc)
				if err != nil {
					return fmt.Errorf("%s: Iterator: %v", what, err)
				}
				if got, err = c30Drain(it); err != nil {
					return fmt.Errorf("%s: %v", what, err)
				}
			}
			if want := r.work.Range(op.Start, op.End, !op.Asc); !sameKVs(got, want) {
				return fmt.Errorf("%s: working tree iteration how=%d [%v,%v) asc=%v = %v, model %v", what, op.How, op.Start, op.End, op.Asc, got, want)
			}
		case "save":
			wh := clone(r.tree.WorkingHash())
			hash, ver, err := r.tree.SaveVersion()
			if err != nil {
				return fmt.Errorf("%s: SaveVersion: %v", what, err)
			}
			if ver != r.latest+1 {
				return fmt.Errorf("%s: SaveVersion returned version %d, model %d", what, ver, r.latest+1)
			}
			if !bytes.Equal(hash, wh) || !bytes.Equal(hash, r.tree.Hash()) {
				return fmt.Errorf("%s: SaveVersion hash %X, WorkingHash before %X, Hash() after %X", what, hash, wh, r.tree.Hash())
			}
			r.latest = ver
			r.unsaved = false
			r.lastLog, r.lastLogVer, r.pending = r.pending, ver, nil
			if r.cfg.Fast {
				r.fastRecorded, r.fastStale = ver, false
			} else if r.fastRecorded >= 0 {
				r.fastStale = true
			}
			r.saved.Save(ver, r.work)
			r.hashes[ver] = clone(hash)
			r.log = append(r.log, clone(hash))
			// equal contents at consecutive versions need not hash equally (the version is part
			// of the node hash), but a version's hash must never change afterwards
			if r.twin && c.TwinReopen {
				r.tree.Close()
				if err := r.openTree(r.cfg); err != nil {
					return fmt.Errorf("%s: reopen after save: %v", what, err)
				}
			}
		case "rollback":
			r.tree.Rollback()
			r.work = lastSaved()
			r.unsaved = false
			r.pending = nil
		case "imm":
			v, retained, ok := r.pickVersion(op.Ver, op.VKind)
			if !ok {
				break
			}
			t, err := r.tree.GetImmutable(v)
			ex := r.tree.VersionExists(v)
			if gm, isGhost := r.ghosts.Get(v); isGhost {
				// A pruned version may remain readable (its root can survive as a shared node and
				// is rediscovered after a restart); if it is served, it must be the original one.
				if err == nil {
					if h := t.Hash(); !bytes.Equal(h, r.ghostH[v]) {
						return fmt.Errorf("%s: pruned version %d is still served but hashes to %X, it was saved as %X", what, v, h, r.ghostH[v])
					}
					if err := r.checkReads(fmt.Sprintf("%s: pruned but still served version %d", what, v), t, gm, op); err != nil {
						return err
					}
					r.class("imm:pruned-version-still-served")
				} else {
					r.class("imm:missing-version-error")
				}
				break
			}
			if ex != retained {
				return fmt.Errorf("%s: VersionExists(%d) = %v, model %v", what, v, ex, retained)
			}
			if !retained {
				if err == nil {
					return fmt.Errorf("%s: GetImmutable(%d) of a version that does not exist returned no error", what, v)
				}
				r.class("imm:missing-version-error")
				break
			}
			if err != nil {
				return fmt.Errorf("%s: GetImmutable(%d) of a retained version: %v", what, v, err)
			}
			m, _ := r.saved.Get(v)
			if t.Version() != v {
				return fmt.Errorf("%s: GetImmutable(%d).Version() = %d", what, v, t.Version())
			}
			if h := t.Hash(); !bytes.Equal(h, r.hashes[v]) {
				return fmt.Errorf("%s: version %d now hashes to %X, it was saved as %X (saved versions are immutable)", what, v, h, r.hashes[v])
			}
			if err := r.checkReads(fmt.Sprintf("%s: immutable version %d", what, v), t, m, op); err != nil {
				return err
			}
			if v < r.latest {
				r.class("imm:old-version-read")
			}
		case "getver":
			v, retained, ok := r.pickVersion(op.Ver, op.VKind)
			if !ok {
				break
			}
			got, err := r.tree.GetVersioned(clone(op.Key), v)
			if err != nil {
				return fmt.Errorf("%s: GetVersioned(%q,%d): %v", what, op.Key, v, err)
			}
			var want []byte
			present := false
			if retained {
				m, _ := r.saved.Get(v)
				want, present = m.Get(op.Key)
			} else if gm, isGhost := r.ghosts.Get(v); isGhost && got != nil {
				want, present = gm.Get(op.Key) // a pruned version that is still served
			}
			if (present && !bytes.Equal(got, want)) || (!present && got != nil) {
				return fmt.Errorf("%s: GetVersioned(%q,%d) = %q (nil=%v), model present=%v value=%q (version retained=%v)", what, op.Key, v, got, got == nil, present, want, retained)
			}
		case "delto":
			v, _, ok := r.pickVersion(op.Ver, op.VKind)
			if !ok {
				break
			}
			err := r.tree.DeleteVersionsTo(v)
			if v >= r.latest {
				if err == nil {
					return fmt.Errorf("%s: DeleteVersionsTo(%d) with latest version %d returned no error", what, v, r.latest)
				}
				break
			}
			if err != nil {
				// After a restart getFirstVersion() rediscovers a pruned version whose root node
				// survived as a shared node (a single-leaf root); pruning then starts there, needs
				// the (really deleted) next version and fails for every target.
				if av := r.tree.AvailableVersions(); errors.Is(err, iavl.ErrVersionDoesNotExist) && len(av) > 0 {
					if _, isGhost := r.ghosts.Get(int64(av[0])); isGhost && r.ctx.Known("iavl-pruning-fails-after-restart-when-pruned-root-survives") {
						r.class("known:iavl-pruning-fails-after-restart-when-pruned-root-survives")
						r.diverged = true
						break // nothing was deleted
					}
				}
				return fmt.Errorf("%s: DeleteVersionsTo(%d) (latest %d, AvailableVersions %v): %v", what, v, r.latest, r.tree.AvailableVersions(), err)
			}
			for _, x := range r.saved.Versions() {
				if x <= v {
					m, _ := r.saved.Get(x)
					r.ghosts.Save(x, m)
					r.ghostH[x] = r.hashes[x]
					r.saved.Drop(x)
					delete(r.hashes, x)
				}
			}
			r.class("delto")
			if err := r.sameVersions(what); err != nil {
				return err
			}
		case "reopen":
			if op.Cfg == nil {
				break
			}
			cfg := *op.Cfg
			if r.twin { // the twin keeps its own configuration
				cfg = r.cfg
			}
			r.tree.Close()
			r.work = lastSaved()
			r.pending = nil
			if err := r.openTree(cfg); err != nil {
				return fmt.Errorf("%s: %v", what, err)
			}
			r.class("reopen")
		case "loadold":
			v, retained, ok := r.pickVersion(op.Ver, 0)
			if !ok || !retained {
				break
			}
			dirty := r.unsaved
			if _, err := r.tree.LoadVersion(v); err != nil {
				return fmt.Errorf("%s: LoadVersion(%d) of a retained version: %v", what, v, err)
			}
			m, _ := r.saved.Get(v)
			resynced, err := r.afterLoad(fmt.Sprintf("%s: tree after LoadVersion(%d)", what, v), m, op, dirty)
			if err != nil {
				return err
			}
			if h := r.tree.Hash(); !bytes.Equal(h, r.hashes[v]) {
				return fmt.Errorf("%s: after LoadVersion(%d) Hash() = %X, saved as %X", what, v, h, r.hashes[v])
			}
			// back to the latest version (saving on top of an old version is undefined unless idempotent)
			if lv, err := r.tree.Load(); err != nil || lv != r.latest {
				return fmt.Errorf("%s: Load() after LoadVersion = %d, %v; model latest %d", what, lv, err, r.latest)
			}
			r.work = lastSaved()
			r.pending = nil
			resynced2, err := r.afterLoad(what+": tree after Load()", r.work, op, dirty && !resynced)
			if err != nil {
				return err
			}
			if !r.cfg.Fast || resynced || resynced2 {
				r.unsaved = false
			}
			r.class("loadold")
		case "overwrite":
			v, retained, ok := r.pickVersion(op.Ver, 0)
			if !ok || !retained {
				break
			}
			dirty := r.unsaved
			if err := r.tree.LoadVersionForOverwriting(v); err != nil {
				return fmt.Errorf("%s: LoadVersionForOverwriting(%d): %v", what, v, err)
			}
			for _, x := range r.saved.Versions() {
				if x > v {
					r.saved.Drop(x)
					delete(r.hashes, x)
				}
			}
			for _, x := range r.ghosts.Versions() {
				if x > v {
					r.ghosts.Drop(x)
					delete(r.ghostH, x)
				}
			}
			rolled := v < r.latest
			if rolled {
				r.class("overwrite:rolled-back-versions")
			}
			r.latest = v
			r.work = lastSaved()
			r.pending = nil
			if rolled {
				r.lastLogVer = 0
				if r.replayedAt > v {
					r.replayed = false
				}
			}
			if r.cfg.Fast {
				r.fastRecorded, r.fastStale = v, false
			} else if r.fastRecorded >= 0 && rolled {
				r.fastStale = true
			}
			resynced, err := r.afterLoad(fmt.Sprintf("%s: tree after LoadVersionForOverwriting(%d)", what, v), r.work, op, dirty)
			if err != nil {
				return err
			}
			if !r.cfg.Fast || resynced {
				r.unsaved = false
			}
			if err := r.sameVersions(what); err != nil {
				return err
			}
		case "proof":
			v, retained, ok := r.pickVersion(op.Ver, 0)
			if !ok || !retained {
				break
			}
			t, err := r.tree.GetImmutable(v)
			if err != nil {
				return fmt.Errorf("%s: GetImmutable(%d): %v", what, v, err)
			}
			m, _ := r.saved.Get(v)
			if err := r.checkProofs(fmt.Sprintf("%s: version %d", what, v), t, m, v, op); err != nil {
				return err
			}
			if op.How == 7 {
				if err := r.sweepProofs(fmt.Sprintf("%s: version %d", what, v), t, m); err != nil {
					return err
				}
			}
		case "replay":
			// Crash-recovery style reload: go back to the version before the latest one, execute
			// the Set/Remove calls of the latest version again and save. The version already
			// exists; the same history must give the same root hash, which SaveVersion documents
			// as idempotent ("the same hash means idempotent (i.e. no-op)"). The history then
			// continues on this handle.
			base := r.latest - 1
			mb, okb := r.saved.Get(base)
			ml, okl := r.saved.Get(r.latest)
			if base < 1 || !okb || !okl || r.lastLogVer != r.latest {
				break
			}
			fresh := op.How % 3
			if fresh == 2 && r.cfg.Fast && (r.fastRecorded != r.latest || r.fastStale) {
				fresh = 1 // the on-disk fast index is not the one of the latest version: let Load() rebuild it first
			}
			switch fresh {
			case 0: // on the live handle
				if r.unsaved {
					r.tree.Rollback()
				}
			case 1: // new handle, Load() the latest version first
				r.tree.Close()
				if err := r.openTree(r.cfg); err != nil {
					return fmt.Errorf("%s: %v", what, err)
				}
			case 2: // new handle that goes straight to the previous version
				r.tree.Close()
				r.tree = iavl.NewMutableTree(r.db, r.cfg.Cache, !r.cfg.Fast, iavl.NewNopLogger())
			}
			r.unsaved, r.pending = false, nil
			if _, err := r.tree.LoadVersion(base); err != nil {
				return fmt.Errorf("%s: LoadVersion(%d) of a retained version (handle kind %d): %v", what, base, fresh, err)
			}
			r.work = mb.Clone()
			if _, err := r.afterLoad(fmt.Sprintf("%s: tree after LoadVersion(%d)", what, base), r.work, op, false); err != nil {
				return err
			}
			for _, mu := range r.lastLog {
				var err error
				if mu.del {
					err = rmOne(what+": replay", mu.k)
				} else {
					err = setOne(what+": replay", mu.k, mu.v)
				}
				if err != nil {
					return err
				}
			}
			r.pending = nil
			if err := r.checkReads(what+": working tree after re-executing the latest version", r.tree, ml, op); err != nil {
				return err
			}
			want := r.hashes[r.latest]
			if wh := r.tree.WorkingHash(); !bytes.Equal(wh, want) {
				return fmt.Errorf("%s: re-executing the %d calls of version %d on top of version %d gives WorkingHash %X, the version was saved as %X: the hash is not a function of the history", what, len(r.lastLog), r.latest, base, wh, want)
			}
			hash, ver, err := r.tree.SaveVersion()
			if err != nil || ver != r.latest || !bytes.Equal(hash, want) {
				return fmt.Errorf("%s: SaveVersion after re-executing version %d = (%X, %d, %v), expected the idempotent answer (%X, %d)", what, r.latest, hash, ver, err, want, r.latest)
			}
			r.work = ml.Clone()
			// the idempotent branch of SaveVersion leaves the replayed unsaved fast-node changes in
			// place (equal to the saved contents); a later LoadVersion of another version keeps
			// serving them, which is the known LoadVersion finding
			r.unsaved = r.cfg.Fast && len(r.lastLog) > 0
			if h := r.tree.Hash(); !bytes.Equal(h, want) {
				return fmt.Errorf("%s: Hash() = %X after the idempotent save of version %d, saved as %X", what, h, r.latest, want)
			}
			for _, o := range []c30Op{op, {Asc: true}} {
				if err := r.checkReads(what+": working tree after the idempotent save", r.tree, r.work, o); err != nil {
					return err
				}
			}
			t, err := r.tree.GetImmutable(r.latest)
			if err != nil {
				return fmt.Errorf("%s: GetImmutable(%d) after the idempotent save: %v", what, r.latest, err)
			}
			if err := r.sweepProofs(fmt.Sprintf("%s: version %d after the idempotent save", what, r.latest), t, ml); err != nil {
				return err
			}
			r.class(fmt.Sprintf("replay:handle-kind-%d", fresh))
			r.replayed, r.replayedAt = true, r.latest
		}
		// cheap invariants after every op
		if sz := r.tree.Size(); sz != int64(r.work.Len()) {
			return fmt.Errorf("%s: afterwards working Size() = %d, model %d", what, sz, r.work.Len())
		}
		if v := r.tree.Version(); v != r.latest {
			return fmt.Errorf("%s: afterwards Version() = %d, model %d", what, v, r.latest)
		}
	}
	// final: every retained version and the working tree agree with the model
	full := c30Op{Asc: true}
	if err := r.checkReads("final: working tree", r.tree, r.work, full); err != nil {
		return err
	}
	for _, v := range r.saved.Versions() {
		t, err := r.tree.GetImmutable(v)
		if err != nil {
			return fmt.Errorf("final: GetImmutable(%d) of a retained version: %v", v, err)
		}
		m, _ := r.saved.Get(v)
		if err := r.checkReads(fmt.Sprintf("final: version %d", v), t, m, full); err != nil {
			return err
		}
		if h := t.Hash(); !bytes.Equal(h, r.hashes[v]) {
			return fmt.Errorf("final: version %d hashes to %X, saved as %X", v, h, r.hashes[v])
		}
		// every key and every gap of every retained version has a verifying honest proof
		if err := r.sweepProofs(fmt.Sprintf("final: version %d", v), t, m); err != nil {
			return err
		}
		if r.replayed && v > r.replayedAt {
			r.class("replay:version-saved-afterwards-proof-swept")
		}
	}
	return r.sameVersions("final")
}

// c30ASCII keeps violation messages printable: errors returned by the code under
// test may embed raw key bytes.
func c30ASCII(err error) error {
	if err == nil {
		return nil
	}
	msg := err.Error()
	for i := 0; i < len(msg); i++ {
		if b := msg[i]; (b < 0x20 && b != '\n' && b != '\t') || b > 0x7e {
			q := strconv.QuoteToASCII(msg)
			return errors.New(q[1 : len(q)-1])
		}
	}
	return err
}

func c30Exec(ctx *vk.Ctx, c c30Case) error { return c30ASCII(c30ExecRaw(ctx, c)) }

func c30ExecRaw(ctx *vk.Ctx, c c30Case) error {
	a := &c30Run{ctx: ctx, classes: map[string]bool{}}
	if err := a.run(&c, c.Cfg); err != nil {
		return err
	}
	b := &c30Run{ctx: ctx, twin: true, classes: map[string]bool{}}
	if err := b.run(&c, c.Twin); err != nil {
		return fmt.Errorf("twin run: %v", err)
	}
	if a.diverged || b.diverged {
		// version selectors resolve against the retained versions, which now differ between
		// the runs: the histories are no longer the same, so their hashes are not comparable
		ctx.Class("twin-hash-comparison-skipped-after-known-pruning-failure")
		b.log = a.log
	}
	if len(a.log) != len(b.log) {
		return fmt.Errorf("the twin run saved %d versions, the first run %d", len(b.log), len(a.log))
	}
	for i := range a.log {
		if !bytes.Equal(a.log[i], b.log[i]) {
			return fmt.Errorf("save #%d: root hash %X under cache=%d fast=%v but %X under cache=%d fast=%v reopen-after-save=%v: the hash is not a function of the history", i+1, a.log[i], c.Cfg.Cache, c.Cfg.Fast, b.log[i], c.Twin.Cache, c.Twin.Fast, c.TwinReopen)
		}
	}
	cls := make([]string, 0, len(a.classes))
	for k := range a.classes {
		cls = append(cls, k)
	}
	sort.Strings(cls)
	for _, k := range cls {
		ctx.Class(k)
	}
	ctx.Class(fmt.Sprintf("fast=%v", c.Cfg.Fast))
	ctx.ClassIf(len(a.log) >= 2, "nt:two-or-more-saved-versions")
	ctx.NTIf(len(a.log) >= 2 && (a.classes["imm:old-version-read"] || a.classes["delto"] || a.classes["proof:membership"] || a.classes["proof:non-membership"] || a.classes["overwrite:rolled-back-versions"]))
	return nil
}

const c30Rule = "rapid: configuration (node cache 0/1/8/10000, fast storage on/off), a twin configuration, and 10-100 ops over a MutableTree on memdb: set/remove of non-empty keys (short strings over {00,'a','b',FF} and numeric keys in dense clusters), sequential runs of 3-40 sets/removes (strides 1,-1,2,7), get/has/index reads, iterators (Iterator, IterateRange, Iterate; generated bounds, both directions), SaveVersion, Rollback, GetImmutable/GetVersioned of retained, pruned and future versions, DeleteVersionsTo (valid and >= latest), close+reopen with another configuration, LoadVersion of an old version, LoadVersionForOverwriting, crash-recovery style replay (LoadVersion(latest-1) on the live handle / a reopened handle / a new handle, the Set/Remove calls of the latest version executed again, idempotent SaveVersion, history continues), ics23 membership/non-membership proofs with wrong value/key/root, transplanted and bit-flipped/truncated proofs, honest-proof sweeps over every key and gap (on request, after a replay, and of every retained version at the end); the whole history is replayed under the twin configuration and every root hash must agree; non-trivial = at least two saved versions and a read of an old version, a version deletion/overwrite, or a proof check"

func TestC30_Tree(t *testing.T) {
	vk.Run(t, vk.Spec[c30Case]{ID: "C30", Name: "TestC30_Tree", Rule: c30Rule, Draw: c30Draw, Exec: c30Exec})
}
