package store

import (
	"bytes"
	"fmt"
	"sort"
	"strings"
	"testing"

	abci "github.com/gnolang/gno/tm2/pkg/bft/abci/types"
	dbm "github.com/gnolang/gno/tm2/pkg/db"
	"github.com/gnolang/gno/tm2/pkg/db/memdb"
	"github.com/gnolang/gno/tm2/pkg/iavl"
	storeiavl "github.com/gnolang/gno/tm2/pkg/store/iavl"
	"github.com/gnolang/gno/tm2/pkg/store/types"
	"pgregory.net/rapid"
	"verif/vk"
)

// C30 (store level) — tm2/pkg/store/iavl.Store over the IAVL tree: the working
// store and every version the store still serves read like the ordered map of
// that version; commit hashes equal those of a bare tree fed the same history;
// /key queries return the versioned value with a proof that recomputes the
// commit hash of that version.

type c30sOp struct {
	Op     string   `json:"op"` // set del get has iter commit imm query reopen cache replay
	Key    B        `json:"key"`
	Val    B        `json:"val"`
	Start  B        `json:"start"`
	End    B        `json:"end"`
	Rev    bool     `json:"rev,omitempty"`
	Steps  int      `json:"steps,omitempty"` // iter: <0 all
	Ver    int      `json:"ver,omitempty"`
	Height int      `json:"height,omitempty"` // query: 0 = default height, else selector
	Sub    []c30sOp `json:"sub,omitempty"`    // cache: writes done through CacheWrap()+Write()
}

type c30sCase struct {
	KeepRecent int64    `json:"keep_recent"`
	KeepEvery  int64    `json:"keep_every"`
	Ops        []c30sOp `json:"ops"`
}

func c30sDraw(rt *rapid.T) c30sCase {
	c := c30sCase{KeepRecent: rapid.SampledFrom([]int64{0, 0, 1, 2, 5}).Draw(rt, "recent"), KeepEvery: rapid.SampledFrom([]int64{0, 0, 1}).Draw(rt, "every")}
	kinds := []string{"set", "set", "set", "set", "set", "del", "del", "get", "has", "iter", "iter", "commit", "commit", "commit", "imm", "imm", "query", "query", "query", "reopen", "cache", "replay"}
	n := rapid.IntRange(8, 70).Draw(rt, "nops")
	for i := 0; i < n; i++ {
		op := c30sOp{Op: rapid.SampledFrom(kinds).Draw(rt, "op")}
		switch op.Op {
		case "set":
			op.Key, op.Val = c30DrawKey(rt, "k"), c30DrawVal(rt, "v")
		case "del", "get", "has":
			op.Key = c30DrawKey(rt, "k")
		case "iter", "imm":
			op.Key = c30DrawKey(rt, "k")
			op.Start, op.End, op.Rev = c30DrawBound(rt, "s"), c30DrawBound(rt, "e"), rapid.Bool().Draw(rt, "rev")
			op.Steps = -1
			if rapid.IntRange(0, 3).Draw(rt, "partial") == 0 {
				op.Steps = rapid.IntRange(0, 3).Draw(rt, "steps")
			}
			op.Ver = rapid.IntRange(0, 15).Draw(rt, "ver")
		case "query":
			op.Key = c30DrawKey(rt, "k")
			op.Height = rapid.IntRange(0, 8).Draw(rt, "height")
		case "replay":
			op.Key = c30DrawKey(rt, "k")
			op.Steps = -1
			op.Ver = rapid.IntRange(0, 1).Draw(rt, "handle")
		case "cache":
			m := rapid.IntRange(1, 5).Draw(rt, "nsub")
			for j := 0; j < m; j++ {
				s := c30sOp{Op: "set", Key: c30DrawKey(rt, "ck"), Val: c30DrawVal(rt, "cv")}
				if rapid.IntRange(0, 2).Draw(rt, "cdel") == 0 {
					s = c30sOp{Op: "del", Key: s.Key}
				}
				op.Sub = append(op.Sub, s)
			}
		}
		c.Ops = append(c.Ops, op)
	}
	return c
}

func c30sDrainStore(it types.Iterator, steps int) (out []KV, exhausted bool, err error) {
	defer it.Close()
	for it.Valid() {
		if steps >= 0 && len(out) >= steps {
			return out, false, nil
		}
		out = append(out, KV{clone(it.Key()), clone(it.Value())})
		if len(out) > 5000 {
			return nil, false, fmt.Errorf("iterator does not terminate")
		}
		it.Next()
	}
	return out, true, nil
}

func c30sCheckStore(what string, s types.Store, m *OMap, op c30sOp) error {
	v := s.Get(nil, clone(op.Key))
	want, ok := m.Get(op.Key)
	if (ok && (v == nil || !bytes.Equal(v, want))) || (!ok && v != nil) {
		return fmt.Errorf("%s: Get(%v) = %q (nil=%v), model present=%v value=%q", what, op.Key, v, v == nil, ok, want)
	}
	if h := s.Has(nil, clone(op.Key)); h != ok {
		return fmt.Errorf("%s: Has(%v) = %v, model %v", what, op.Key, h, ok)
	}
	var it types.Iterator
	if op.Rev {
		it = s.ReverseIterator(nil, clone(op.Start), clone(op.End))
	} else {
		it = s.Iterator(nil, clone(op.Start), clone(op.End))
	}
	got, exhausted, err := c30sDrainStore(it, op.Steps)
	if err != nil {
		return fmt.Errorf("%s: %v", what, err)
	}
	full := m.Range(op.Start, op.End, op.Rev)
	w := full
	if !exhausted && len(w) > len(got) {
		w = w[:len(got)]
	}
	if !sameKVs(got, w) {
		return fmt.Errorf("%s: iterator [%v,%v) rev=%v = %v, model %v", what, op.Start, op.End, op.Rev, got, full)
	}
	return nil
}

func c30sExec(ctx *vk.Ctx, c c30sCase) error { return c30ASCII(c30sExecRaw(ctx, c)) }

func c30sExecRaw(ctx *vk.Ctx, c c30sCase) error {
	var db dbm.DB = memdb.NewMemDB()
	opts := types.StoreOptions{PruningOptions: types.PruningOptions{KeepRecent: c.KeepRecent, KeepEvery: c.KeepEvery}}
	open := func() (*storeiavl.Store, error) {
		st := storeiavl.StoreConstructor(db, opts).(*storeiavl.Store)
		if err := st.LoadLatestVersion(); err != nil {
			return nil, fmt.Errorf("LoadLatestVersion: %v", err)
		}
		return st, nil
	}
	st, err := open()
	if err != nil {
		return err
	}
	shadow := iavl.NewMutableTree(memdb.NewMemDB(), 0, true, iavl.NewNopLogger())
	if _, err := shadow.Load(); err != nil {
		return fmt.Errorf("shadow tree Load: %v", err)
	}
	work, saved, hashes := NewOMap(), NewVMap(), map[int64][]byte{}
	var latest int64
	lastSaved := func() *OMap {
		if m, ok := saved.Get(latest); ok {
			return m.Clone()
		}
		return NewOMap()
	}
	// the tree-level writes since the last commit, and those that made version lastLogVer out of lastLogVer-1
	var pending, lastLog []c30sOp
	var lastLogVer int64
	applyShadow := func(op c30sOp) {
		pending = append(pending, op)
		if op.Op == "set" {
			shadow.Set(clone(op.Key), nonNil(clone(op.Val)))
		} else {
			shadow.Remove(clone(op.Key))
		}
	}
	apply := func(s types.Store, op c30sOp, toShadow bool) {
		if op.Op == "set" {
			s.Set(nil, clone(op.Key), nonNil(clone(op.Val)))
			work.Set(op.Key, op.Val)
		} else {
			s.Delete(nil, clone(op.Key))
			work.Delete(op.Key)
		}
		if toShadow {
			applyShadow(op)
		}
	}
	var ntOld, ntProof bool
	var replayedAt int64 // the version whose writes were applied again last (0: no replay yet)
	var queryAt func(what string, key []byte, h int64) (bool, error)
	reopened := false
	// knownGhost recognises the consequences of one IAVL defect: after a restart the first
	// version is rediscovered by probing root keys, and the root of a pruned single-key version
	// survives as a shared leaf; VersionExists then answers true for really pruned versions
	// (GetImmutable fails, Query panics) and pruning fails from then on.
	knownGhost := func(msg string) bool {
		if !reopened || !strings.Contains(msg, "version does not exist") {
			return false
		}
		single := false
		for _, v := range saved.Versions() {
			if m, _ := saved.Get(v); m.Len() == 1 {
				single = true
			}
		}
		if single && ctx.Known("iavl-pruning-fails-after-restart-when-pruned-root-survives") {
			ctx.Class("known:iavl-pruning-fails-after-restart-when-pruned-root-survives")
			return true
		}
		return false
	}
	// queryAt runs the /key query with proof for key at height h (0 = default height) and checks value and proof.
	queryAt = func(what string, key []byte, h int64) (proved bool, err error) {
		op := c30sOp{Key: key}
		var res abci.ResponseQuery
		if p := c29Recover(func() {
			res = st.Query(abci.RequestQuery{Path: "/key", Data: clone(op.Key), Height: h, Prove: true})
		}); p != nil {
			if knownGhost(fmt.Sprint(p)) {
				return false, nil
			}
			return false, fmt.Errorf("%s: Query(%v@%d) panicked: %v", what, op.Key, h, p)
		}
		wantH := h
		if h == 0 { // documented: latest-1 if present, else latest
			wantH = latest
			if st.VersionExists(latest - 1) {
				wantH = latest - 1
			}
		}
		if res.Height != wantH {
			return false, fmt.Errorf("%s: Query height %d answered for height %d, expected %d", what, h, res.Height, wantH)
		}
		if !st.VersionExists(wantH) {
			if res.Value != nil || res.Proof != nil {
				return false, fmt.Errorf("%s: Query at pruned height %d returned data", what, wantH)
			}
			ctx.Class("query:pruned")
			return false, nil
		}
		if res.Error != nil {
			return false, fmt.Errorf("%s: Query(%v@%d): %v", what, op.Key, wantH, res.Error)
		}
		m, _ := saved.Get(wantH)
		want, ok := m.Get(op.Key)
		if (ok && (res.Value == nil || !bytes.Equal(res.Value, want))) || (!ok && res.Value != nil) {
			return false, fmt.Errorf("%s: Query(%v@%d) value %q (nil=%v), model present=%v value=%q (log %q)", what, op.Key, wantH, res.Value, res.Value == nil, ok, want, res.Log)
		}
		emptyNear := ok && len(want) == 0
		if !ok { // a neighbour with an empty value cannot be expressed by ics23 either
			for _, kv := range [][]KV{m.Range(nil, op.Key, true), m.Range(op.Key, nil, false)} {
				if len(kv) > 0 && len(kv[0].V) == 0 {
					emptyNear = true
				}
			}
		}
		verr := func() error {
			if res.Proof == nil || len(res.Proof.Ops) != 1 {
				return fmt.Errorf("no single proof op (log %q)", res.Log)
			}
			po, err := types.CommitmentOpDecoder(res.Proof.Ops[0])
			if err != nil {
				return fmt.Errorf("proof op does not decode: %v", err)
			}
			var args [][]byte
			if ok {
				args = [][]byte{want}
			}
			roots, err := po.Run(args)
			if err != nil {
				return fmt.Errorf("proof op does not verify: %v", err)
			}
			if len(roots) != 1 || !bytes.Equal(roots[0], hashes[wantH]) {
				return fmt.Errorf("proof recomputes root %X, version %d was committed with hash %X", roots, wantH, hashes[wantH])
			}
			// the same proof must not establish the opposite answer
			if ok {
				if _, err := po.Run(nil); err == nil {
					return fmt.Errorf("membership proof also verifies absence")
				}
				if _, err := po.Run([][]byte{append(clone(want), 'x')}); err == nil {
					return fmt.Errorf("membership proof verifies another value")
				}
			} else if _, err := po.Run([][]byte{[]byte("v")}); err == nil {
				return fmt.Errorf("non-membership proof verifies presence")
			}
			return nil
		}()
		if verr != nil {
			if emptyNear && m.Len() > 0 && ctx.Known("iavl-empty-value-has-no-verifying-membership-proof") {
				ctx.Class("known:iavl-empty-value-has-no-verifying-membership-proof")
				return false, nil
			}
			if m.Len() == 0 { // an empty tree has no ics23 non-membership proof; the value answer was checked
				ctx.Class("query:empty-tree")
				return false, nil
			}
			return false, fmt.Errorf("%s: Query(%v@%d) present=%v: %v", what, op.Key, wantH, ok, verr)
		}
		return true, nil
	}
	for i, op := range c.Ops {
		what := fmt.Sprintf("op %d %s", i, op.Op)
		ctx.Class(op.Op)
		switch op.Op {
		case "set", "del":
			apply(st, op, true)
		case "cache":
			cw := st.CacheWrap()
			net := map[string]c30sOp{}
			for _, s := range op.Sub {
				apply(cw, s, false)
				net[string(s.Key)] = s
			}
			cw.Write()
			// the tree shape (and so the hash) depends on the order of updates; a cache layer
			// flushes its net changes in ascending key order
			keys := make([]string, 0, len(net))
			for k := range net {
				keys = append(keys, k)
			}
			sort.Strings(keys)
			for _, k := range keys {
				applyShadow(net[k])
			}
		case "get", "has", "iter":
			if err := c30sCheckStore(what+": working store", st, work, op); err != nil {
				return err
			}
		case "commit":
			cid := st.Commit()
			latest++
			if cid.Version != latest {
				return fmt.Errorf("%s: Commit() version %d, model %d", what, cid.Version, latest)
			}
			sh, sv, err := shadow.SaveVersion()
			if err != nil || sv != latest {
				return fmt.Errorf("%s: shadow tree SaveVersion = %d, %v", what, sv, err)
			}
			if !bytes.Equal(cid.Hash, sh) {
				return fmt.Errorf("%s: Commit() hash %X differs from the hash %X of a bare tree fed the same history", what, cid.Hash, sh)
			}
			if l := st.LastCommitID(); !l.Equals(cid) {
				return fmt.Errorf("%s: LastCommitID() = %v after Commit() = %v", what, l, cid)
			}
			saved.Save(latest, work)
			hashes[latest] = clone(cid.Hash)
			lastLog, lastLogVer, pending = pending, latest, nil
			// "KeepRecent: how many old versions we hold onto"
			for v := latest; v >= 1 && v >= latest-c.KeepRecent; v-- {
				if !st.VersionExists(v) {
					return fmt.Errorf("%s: version %d does not exist right after committing %d with KeepRecent=%d", what, v, latest, c.KeepRecent)
				}
			}
		case "reopen":
			var err error
			if st, err = open(); err != nil {
				return fmt.Errorf("%s: %v", what, err)
			}
			work = lastSaved()
			shadow.Rollback()
			pending = nil
			reopened = true
			if l := st.LastCommitID(); l.Version != latest || (latest > 0 && !bytes.Equal(l.Hash, hashes[latest])) {
				return fmt.Errorf("%s: LastCommitID() = %v after reopen, model version %d hash %X", what, l, latest, hashes[latest])
			}
		case "imm":
			if latest == 0 {
				break
			}
			v := int64(op.Ver)%latest + 1
			im, err := st.GetImmutable(v)
			if !st.VersionExists(v) {
				if err == nil {
					return fmt.Errorf("%s: GetImmutable(%d) succeeded although VersionExists says no", what, v)
				}
				ctx.Class("imm:pruned")
				break
			}
			if err != nil {
				if knownGhost(err.Error()) {
					break
				}
				return fmt.Errorf("%s: GetImmutable(%d) of an existing version: %v", what, v, err)
			}
			m, _ := saved.Get(v)
			if err := c30sCheckStore(fmt.Sprintf("%s: immutable store of version %d", what, v), im, m, op); err != nil {
				return err
			}
			if p := c29Recover(func() { im.Set(nil, []byte("x"), []byte("y")) }); p == nil {
				return fmt.Errorf("%s: Set on the immutable store of version %d did not panic", what, v)
			}
			ntOld = ntOld || v < latest
		case "query":
			if latest == 0 {
				break
			}
			var h int64
			if op.Height > 0 {
				h = int64(op.Height-1)%latest + 1
			}
			proved, err := queryAt(what, op.Key, h)
			if err != nil {
				return err
			}
			ntProof = ntProof || proved
		case "replay":
			// Crash-recovery style reload (Committer.LoadVersion of the previous version by a caller
			// whose own records are one commit behind): apply the writes of the latest commit
			// again and Commit. The version exists with the same hash, so the commit is idempotent
			// and must answer with the same CommitID; the history continues on this handle.
			base := latest - 1
			if base < 1 || lastLogVer != latest || !st.VersionExists(base) {
				break
			}
			rst := st
			if op.Ver%2 == 1 {
				rst = storeiavl.StoreConstructor(db, opts).(*storeiavl.Store)
				reopened = true
			}
			if err := rst.LoadVersion(base); err != nil {
				if knownGhost(err.Error()) {
					break
				}
				return fmt.Errorf("%s: LoadVersion(%d) of an existing version: %v", what, base, err)
			}
			st = rst
			shadow.Rollback()
			pending = nil
			mb, _ := saved.Get(base)
			if err := c30sCheckStore(fmt.Sprintf("%s: store after LoadVersion(%d)", what, base), st, mb, op); err != nil {
				return err
			}
			for _, w := range lastLog {
				if w.Op == "set" {
					st.Set(nil, clone(w.Key), nonNil(clone(w.Val)))
				} else {
					st.Delete(nil, clone(w.Key))
				}
			}
			var cid types.CommitID
			if p := c29Recover(func() { cid = st.Commit() }); p != nil {
				return fmt.Errorf("%s: Commit() after applying the %d writes of version %d again on top of version %d panicked: %v", what, len(lastLog), latest, base, p)
			}
			if cid.Version != latest || !bytes.Equal(cid.Hash, hashes[latest]) {
				return fmt.Errorf("%s: Commit() after applying the writes of version %d again = version %d hash %X, committed before as hash %X", what, latest, cid.Version, cid.Hash, hashes[latest])
			}
			if l := st.LastCommitID(); !l.Equals(cid) {
				return fmt.Errorf("%s: LastCommitID() = %v after the idempotent Commit() = %v", what, l, cid)
			}
			work = lastSaved()
			if err := c30sCheckStore(what+": working store after the idempotent commit", st, work, op); err != nil {
				return err
			}
			ctx.Class(fmt.Sprintf("replay:new-handle=%v", op.Ver%2 == 1))
			replayedAt = latest
		}
	}
	// every key and every gap of the latest version has a query proof that recomputes its commit hash
	if m, ok := saved.Get(latest); ok && st.VersionExists(latest) {
		keys := m.Keys()
		probes := make([][]byte, 0, 2*len(keys)+1)
		if len(keys) > 0 {
			if first := []byte(keys[0]); len(first) > 1 {
				probes = append(probes, first[:len(first)-1])
			}
		}
		for i, k := range keys {
			probes = append(probes, []byte(k))
			if g := append([]byte(k), 0); i+1 == len(keys) || string(g) < keys[i+1] {
				probes = append(probes, g)
			}
		}
		for _, k := range probes {
			if _, err := queryAt("final: proof sweep", k, latest); err != nil {
				return err
			}
		}
		ctx.ClassIf(len(keys) > 0, "query:proof-sweep-of-latest-version")
		ctx.ClassIf(replayedAt > 0 && latest > replayedAt, "replay:version-committed-afterwards-proof-swept")
	}
	full := c30sOp{Key: B("k"), Steps: -1}
	if err := c30sCheckStore("final: working store", st, work, full); err != nil {
		return err
	}
	for _, v := range saved.Versions() {
		if !st.VersionExists(v) {
			continue
		}
		im, err := st.GetImmutable(v)
		if err != nil {
			if knownGhost(err.Error()) {
				continue
			}
			return fmt.Errorf("final: GetImmutable(%d) of an existing version: %v", v, err)
		}
		m, _ := saved.Get(v)
		if err := c30sCheckStore(fmt.Sprintf("final: version %d", v), im, m, full); err != nil {
			return err
		}
	}
	ctx.ClassIf(ntOld, "nt:old-version-read")
	ctx.ClassIf(ntProof, "nt:query-proof-verified")
	ctx.NTIf(latest >= 2 && (ntOld || ntProof))
	return nil
}

const c30sRule = "rapid: pruning options (KeepRecent 0/1/2/5, KeepEvery 0/1) and 8-70 ops over store/iavl.Store on memdb: set/delete (directly and through CacheWrap()+Write()), get/has, (reverse) iterators over generated domains consumed fully or partly, Commit, reopen (new store over the same DB + LoadLatestVersion), crash-recovery style replay (LoadVersion(latest-1) on the live or a new store, the tree-level writes of the latest commit applied again, idempotent Commit, history continues), GetImmutable(version) reads, /key queries with proof at explicit and default heights, and a final query-proof sweep over every key and gap of the latest version; a bare MutableTree is fed the same history as a hash reference; non-trivial = at least two commits and a read of an older version or a verified query proof"

func TestC30_Store(t *testing.T) {
	vk.Run(t, vk.Spec[c30sCase]{ID: "C30", Name: "TestC30_Store", Rule: c30sRule, Draw: c30sDraw, Exec: c30sExec})
}
