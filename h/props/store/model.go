// Package store holds the generated checks for the key-value layers of tm2:
// C22 (cache/prefix store overlays), C29 (database back-ends) and C30 (IAVL).
//
// This file is the shared reference model: an ordered byte-string map with
// range queries in both directions, cheap snapshots and a versioned variant.
// It deliberately shares no code with the implementations under test.
package store

import (
	"bytes"
	"encoding/hex"
	"encoding/json"
	"fmt"
	"sort"
)

// B is a byte string whose JSON form is a hex string (null for nil), so that
// replay files stay readable and the nil/empty distinction survives.
type B []byte

func (b B) MarshalJSON() ([]byte, error) {
	if b == nil {
		return []byte("null"), nil
	}
	return json.Marshal(hex.EncodeToString(b))
}

func (b *B) UnmarshalJSON(data []byte) error {
	if string(data) == "null" {
		*b = nil
		return nil
	}
	var s string
	if err := json.Unmarshal(data, &s); err != nil {
		return err
	}
	d, err := hex.DecodeString(s)
	if err != nil {
		return err
	}
	if d == nil {
		d = []byte{}
	}
	*b = d
	return nil
}

func (b B) String() string {
	if b == nil {
		return "nil"
	}
	return fmt.Sprintf("%q", []byte(b))
}

// clone returns an independent copy preserving nil.
func clone(b []byte) []byte {
	if b == nil {
		return nil
	}
	out := make([]byte, len(b))
	copy(out, b)
	return out
}

// KV is one entry of a range result.
type KV struct {
	K, V []byte
}

func (kv KV) String() string { return fmt.Sprintf("%q=%q", kv.K, kv.V) }

// OMap is the reference ordered map. Values are never nil once stored (a nil
// value is stored as the empty string, as every layer under test documents).
type OMap struct {
	m map[string][]byte
}

func NewOMap() *OMap { return &OMap{m: map[string][]byte{}} }

func (o *OMap) Len() int { return len(o.m) }

// Get returns (value, present). The value is a fresh copy.
func (o *OMap) Get(k []byte) ([]byte, bool) {
	v, ok := o.m[string(k)]
	if !ok {
		return nil, false
	}
	out := make([]byte, len(v))
	copy(out, v)
	return out, true
}

func (o *OMap) Has(k []byte) bool {
	_, ok := o.m[string(k)]
	return ok
}

func (o *OMap) Set(k, v []byte) {
	c := make([]byte, len(v))
	copy(c, v)
	o.m[string(k)] = c
}

func (o *OMap) Delete(k []byte) { delete(o.m, string(k)) }

// Clone is a deep snapshot.
func (o *OMap) Clone() *OMap {
	n := &OMap{m: make(map[string][]byte, len(o.m))}
	for k, v := range o.m {
		n.m[k] = v // values are immutable inside the model (Set copies)
	}
	return n
}

// Keys returns all keys ascending.
func (o *OMap) Keys() []string {
	ks := make([]string, 0, len(o.m))
	for k := range o.m {
		ks = append(ks, k)
	}
	sort.Strings(ks)
	return ks
}

// InDomain is the documented domain rule: start inclusive (nil = unbounded
// below, which equals the empty string), end exclusive (nil = unbounded).
func InDomain(k, start, end []byte) bool {
	if start != nil && bytes.Compare(k, start) < 0 {
		return false
	}
	if end != nil && bytes.Compare(k, end) >= 0 {
		return false
	}
	return true
}

// Range returns the entries inside [start,end) in ascending or descending
// order.
func (o *OMap) Range(start, end []byte, reverse bool) []KV {
	var out []KV
	for _, k := range o.Keys() {
		if InDomain([]byte(k), start, end) {
			v := o.m[k]
			c := make([]byte, len(v))
			copy(c, v)
			out = append(out, KV{[]byte(k), c})
		}
	}
	if reverse {
		for i, j := 0, len(out)-1; i < j; i, j = i+1, j-1 {
			out[i], out[j] = out[j], out[i]
		}
	}
	return out
}

// Equal compares contents.
func (o *OMap) Equal(p *OMap) bool {
	if len(o.m) != len(p.m) {
		return false
	}
	for k, v := range o.m {
		w, ok := p.m[k]
		if !ok || !bytes.Equal(v, w) {
			return false
		}
	}
	return true
}

func (o *OMap) String() string {
	var sb bytes.Buffer
	sb.WriteString("{")
	for i, k := range o.Keys() {
		if i > 0 {
			sb.WriteString(", ")
		}
		fmt.Fprintf(&sb, "%q=%q", k, o.m[k])
	}
	sb.WriteString("}")
	return sb.String()
}

// Sub returns the view of o restricted to keys with the prefix, with the
// prefix stripped (a fresh map).
func (o *OMap) Sub(prefix []byte) *OMap {
	n := NewOMap()
	for k, v := range o.m {
		if bytes.HasPrefix([]byte(k), prefix) {
			n.m[k[len(prefix):]] = v
		}
	}
	return n
}

// VMap is the versioned variant: version -> frozen map.
type VMap struct {
	vs map[int64]*OMap
}

func NewVMap() *VMap { return &VMap{vs: map[int64]*OMap{}} }

func (v *VMap) Save(ver int64, o *OMap) { v.vs[ver] = o.Clone() }
func (v *VMap) Get(ver int64) (*OMap, bool) {
	o, ok := v.vs[ver]
	return o, ok
}
func (v *VMap) Drop(ver int64) { delete(v.vs, ver) }
func (v *VMap) Versions() []int64 {
	out := make([]int64, 0, len(v.vs))
	for k := range v.vs {
		out = append(out, k)
	}
	sort.Slice(out, func(i, j int) bool { return out[i] < out[j] })
	return out
}

// sameKVs compares two transcripts.
func sameKVs(a, b []KV) bool {
	if len(a) != len(b) {
		return false
	}
	for i := range a {
		if !bytes.Equal(a[i].K, b[i].K) || !bytes.Equal(a[i].V, b[i].V) {
			return false
		}
	}
	return true
}
