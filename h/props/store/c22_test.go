package store

import (
	"bytes"
	"fmt"
	"testing"

	"github.com/gnolang/gno/tm2/pkg/db/memdb"
	"github.com/gnolang/gno/tm2/pkg/store/cache"
	"github.com/gnolang/gno/tm2/pkg/store/cachemulti"
	"github.com/gnolang/gno/tm2/pkg/store/dbadapter"
	"github.com/gnolang/gno/tm2/pkg/store/prefix"
	"github.com/gnolang/gno/tm2/pkg/store/types"
	"pgregory.net/rapid"
	"verif/vk"
)

// C22 — cache and prefix store layers behave like their overlay model.
//
// A case is a stack memdb -> dbadapter.Store -> k layers (cache.New,
// prefix.New, cachemulti) and a history of operations addressed to layers.

type c22Layer struct {
	Kind   string `json:"kind"` // cache | prefix | multi
	Prefix B      `json:"prefix"`
}

type c22It struct {
	Start B    `json:"start"`
	End   B    `json:"end"`
	Rev   bool `json:"rev,omitempty"`
	Steps int  `json:"steps"` // <0: until exhausted
}

// c22W is a write performed on the iterated layer while its iterators are open
// (allowed only when it lands in a cache store: "Exceptionally allowed for
// cachekv.Store, safe to write in the modules").
type c22W struct {
	At  int  `json:"at"` // after this many items were consumed in total
	Del bool `json:"del,omitempty"`
	Key B    `json:"key"`
	Val B    `json:"val"`
}

type c22Op struct {
	Op     string    `json:"op"` // get has set del iter write ckpt wckpt wrap drop
	L      int       `json:"l"`  // 0 = dbadapter base, i = i-th layer
	Key    B         `json:"key"`
	Val    B         `json:"val"`
	Its    []c22It   `json:"its,omitempty"`
	During []c22W    `json:"during,omitempty"`
	Layer  *c22Layer `json:"layer,omitempty"` // wrap
}

type c22Case struct {
	Gas    bool       `json:"gas,omitempty"`
	Layers []c22Layer `json:"layers"`
	Ops    []c22Op    `json:"ops"`
}

var c22Alphabet = []byte{0x00, 'a', 'b', 0xFF}

func c22IsCache(kind string) bool { return kind == "cache" || kind == "multi" }

func c22DrawBytes(rt *rapid.T, label string, lo, hi int) B {
	n := rapid.IntRange(lo, hi).Draw(rt, label+"n")
	out := make(B, n)
	for i := range out {
		out[i] = rapid.SampledFrom(c22Alphabet).Draw(rt, label+"c")
	}
	return out
}

// c22DrawKey draws a key for layer L. Most keys come from a small per-case pool
// of base-level keys (translated into the key space of layer L by stripping the
// prefixes of the prefix layers up to L), so that deletes, overwrites and
// iterator bounds frequently hit keys that exist in lower layers; the rest are
// short strings over the alphabet, often placed under the prefixes of the
// prefix layers above L (so that they stay visible through those views).
func c22DrawKey(rt *rapid.T, label string, layers []c22Layer, L int, pool []B) B {
	if len(pool) > 0 && rapid.IntRange(0, 9).Draw(rt, label+"pool") < 7 {
		var down []byte // prefixes of layers 1..L
		for i := 0; i < L && i < len(layers); i++ {
			if layers[i].Kind == "prefix" {
				down = append(down, layers[i].Prefix...)
			}
		}
		var cands []B
		for _, k := range pool {
			if bytes.HasPrefix(k, down) {
				cands = append(cands, B(clone(k[len(down):])))
			}
		}
		if len(cands) > 0 {
			k := cands[rapid.IntRange(0, len(cands)-1).Draw(rt, label+"pk")]
			if k == nil {
				k = B{}
			}
			return k
		}
	}
	k := c22DrawBytes(rt, label, 0, 3)
	// path of prefixes from L upwards
	var path []byte
	for i := L; i < len(layers); i++ { // layers[i] is layer i+1
		if layers[i].Kind == "prefix" {
			path = append(path, layers[i].Prefix...)
		}
	}
	if len(path) > 0 {
		switch rapid.IntRange(0, 5).Draw(rt, label+"pp") {
		case 0, 1, 2:
			return append(clone(path), k...)
		case 3:
			if s := prefixSucc(path); s != nil { // first key after the prefix range
				return s
			}
		case 4:
			return clone(path)
		}
	}
	return k
}

func c22DrawVal(rt *rapid.T, label string) B {
	if rapid.IntRange(0, 4).Draw(rt, label+"e") == 0 {
		return B{}
	}
	return c22DrawBytes(rt, label, 1, 2)
}

func c22DrawBound(rt *rapid.T, label string, layers []c22Layer, L int, pool []B) B {
	if rapid.IntRange(0, 2).Draw(rt, label+"nil") == 0 {
		return nil
	}
	return c22DrawKey(rt, label, layers, L, pool)
}

func c22DrawLayer(rt *rapid.T, label string) c22Layer {
	switch rapid.IntRange(0, 9).Draw(rt, label+"kind") {
	case 0, 1, 2:
		p := c22DrawBytes(rt, label+"p", 0, 2)
		if rapid.IntRange(0, 3).Draw(rt, label+"ff") == 0 && len(p) > 0 {
			p[len(p)-1] = 0xFF
		}
		return c22Layer{Kind: "prefix", Prefix: p}
	case 3:
		return c22Layer{Kind: "multi"}
	}
	return c22Layer{Kind: "cache"}
}

func c22Draw(rt *rapid.T) c22Case {
	var c c22Case
	c.Gas = rapid.Bool().Draw(rt, "gas")
	n := rapid.IntRange(1, 5).Draw(rt, "nlayers")
	hasCache := false
	for i := 0; i < n; i++ {
		l := c22DrawLayer(rt, "layer")
		hasCache = hasCache || c22IsCache(l.Kind)
		c.Layers = append(c.Layers, l)
	}
	if !hasCache {
		c.Layers[n-1] = c22Layer{Kind: "cache"}
	}
	layers := append([]c22Layer{}, c.Layers...)
	// pool of base-level keys, most of them visible through all prefix layers
	var all []byte
	for _, l := range layers {
		if l.Kind == "prefix" {
			all = append(all, l.Prefix...)
		}
	}
	var pool []B
	for i, n := 0, rapid.IntRange(3, 8).Draw(rt, "npool"); i < n; i++ {
		k := c22DrawBytes(rt, "pool", 0, 2)
		if rapid.IntRange(0, 4).Draw(rt, "poolin") > 0 {
			k = append(B(clone(all)), k...)
		}
		pool = append(pool, k)
	}
	// symbolic state used to respect the usage contract
	touched := make([]bool, len(layers)+1) // cache layer holds cached reads or dirty entries
	ckpt := make([]bool, len(layers)+1)
	touch := func(L int) {
		for m := 1; m <= L; m++ {
			if c22IsCache(layers[m-1].Kind) {
				touched[m] = true
			}
		}
	}
	// a layer's contents may be changed only while every cache layer above it is
	// pristine (a cache store assumes its parent does not change underneath it)
	canMutate := func(L int) bool {
		for m := L + 1; m <= len(layers); m++ {
			if c22IsCache(layers[m-1].Kind) && touched[m] {
				return false
			}
		}
		return true
	}
	// the store that finally receives a write addressed to L
	landsInCache := func(L int) bool {
		for m := L; m >= 1; m-- {
			if layers[m-1].Kind != "prefix" {
				return true
			}
		}
		return false
	}
	nops := rapid.IntRange(8, 60).Draw(rt, "nops")
	for i := 0; i < nops; i++ {
		top := len(layers)
		// prefer the upper layers
		L := top - rapid.SampledFrom([]int{0, 0, 0, 0, 1, 1, 2, 3, 4, 5}).Draw(rt, "down")
		if L < 0 {
			L = 0
		}
		op := c22Op{L: L}
		kinds := []string{"get", "get", "get", "has", "iter", "iter", "iter", "iter"}
		if canMutate(L) {
			kinds = append(kinds, "set", "set", "set", "set", "set", "set", "del", "del", "del", "del")
		}
		if L >= 1 && c22IsCache(layers[L-1].Kind) {
			kinds = append(kinds, "write", "write", "write", "ckpt", "ckpt")
			if ckpt[L] && canMutate(L) {
				kinds = append(kinds, "wckpt", "wckpt", "wckpt", "wckpt")
			}
		}
		if top < 7 {
			kinds = append(kinds, "wrap")
		}
		if top > 1 {
			kinds = append(kinds, "drop")
		}
		op.Op = rapid.SampledFrom(kinds).Draw(rt, "op")
		switch op.Op {
		case "get", "has":
			op.Key = c22DrawKey(rt, "k", layers, L, pool)
			touch(L)
		case "set":
			op.Key, op.Val = c22DrawKey(rt, "k", layers, L, pool), c22DrawVal(rt, "v")
			touch(L)
		case "del":
			op.Key = c22DrawKey(rt, "k", layers, L, pool)
			touch(L)
		case "iter":
			k := 1
			if rapid.IntRange(0, 4).Draw(rt, "two") == 0 {
				k = 2
			}
			for j := 0; j < k; j++ {
				it := c22It{Start: c22DrawBound(rt, "s", layers, L, pool), End: c22DrawBound(rt, "e", layers, L, pool), Rev: rapid.Bool().Draw(rt, "rev"), Steps: -1}
				if rapid.IntRange(0, 4).Draw(rt, "partial") == 0 {
					it.Steps = rapid.IntRange(0, 3).Draw(rt, "steps")
				}
				op.Its = append(op.Its, it)
			}
			if L >= 1 && landsInCache(L) && canMutate(L) && rapid.IntRange(0, 2).Draw(rt, "during") == 0 {
				m := rapid.IntRange(1, 3).Draw(rt, "nw")
				for j := 0; j < m; j++ {
					w := c22W{At: rapid.IntRange(0, 4).Draw(rt, "at"), Key: c22DrawKey(rt, "wk", layers, L, pool)}
					if rapid.IntRange(0, 2).Draw(rt, "wdel") == 0 {
						w.Del = true
					} else {
						w.Val = c22DrawVal(rt, "wv")
					}
					op.During = append(op.During, w)
				}
			}
			touch(L) // conservative: treat iteration like a read
		case "write":
			touch(L - 1)
			touched[L], ckpt[L] = false, false
		case "ckpt":
			ckpt[L] = true
		case "wckpt":
			touch(L - 1)
			touched[L], ckpt[L] = false, false
		case "wrap":
			op.L = top
			l := c22DrawLayer(rt, "wl")
			if l.Kind == "prefix" && rapid.Bool().Draw(rt, "wc") {
				l = c22Layer{Kind: "cache"}
			}
			op.Layer = &l
			layers = append(layers, l)
			touched = append(touched, false)
			ckpt = append(ckpt, false)
		case "drop":
			op.L = top
			layers = layers[:top-1]
			touched = touched[:top]
			ckpt = ckpt[:top]
		}
		c.Ops = append(c.Ops, op)
	}
	return c
}

// ---------------------------------------------------------------- model

type c22MLayer struct {
	kind    string
	prefix  []byte
	over    map[string]*[]byte // cache overlay: nil = deleted
	ckpt    map[string]*[]byte
	hasCkpt bool
}

type c22Model struct {
	base   *OMap
	layers []*c22MLayer // layers[i-1] is layer i
}

func (m *c22Model) view(L int) *OMap {
	if L == 0 {
		return m.base.Clone()
	}
	l := m.layers[L-1]
	p := m.view(L - 1)
	if l.kind == "prefix" {
		return p.Sub(l.prefix)
	}
	for k, v := range l.over {
		if v == nil {
			p.Delete([]byte(k))
		} else {
			p.Set([]byte(k), *v)
		}
	}
	return p
}

func (m *c22Model) put(L int, k []byte, v *[]byte) {
	if L == 0 {
		if v == nil {
			m.base.Delete(k)
		} else {
			m.base.Set(k, *v)
		}
		return
	}
	l := m.layers[L-1]
	if l.kind == "prefix" {
		m.put(L-1, append(clone(l.prefix), k...), v)
		return
	}
	if v != nil {
		c := clone(*v)
		if c == nil {
			c = []byte{}
		}
		v = &c
	}
	l.over[string(k)] = v
}

func (m *c22Model) write(L int) {
	l := m.layers[L-1]
	for k, v := range l.over {
		m.put(L-1, []byte(k), v)
	}
	l.over = map[string]*[]byte{}
	l.ckpt, l.hasCkpt = nil, false
}

func (m *c22Model) checkpoint(L int) {
	l := m.layers[L-1]
	l.ckpt = make(map[string]*[]byte, len(l.over))
	for k, v := range l.over {
		l.ckpt[k] = v
	}
	l.hasCkpt = true
}

func (m *c22Model) overlayEqualsCkpt(L int) bool {
	l := m.layers[L-1]
	if len(l.over) != len(l.ckpt) {
		return false
	}
	for k, v := range l.over {
		w, ok := l.ckpt[k]
		if !ok || (v == nil) != (w == nil) || (v != nil && !bytes.Equal(*v, *w)) {
			return false
		}
	}
	return true
}

func (m *c22Model) writeCheckpoint(L int) {
	l := m.layers[L-1]
	l.over = l.ckpt
	m.write(L)
}

// ---------------------------------------------------------------- execution

type c22RLayer struct {
	kind  string
	store types.Store
	cms   *cachemulti.Store
}

var c22Key = types.NewStoreKey("c22")

type c22Run struct {
	ctx    *vk.Ctx
	gctx   *types.GasContext
	base   types.Store
	layers []*c22RLayer
	m      *c22Model
}

func (r *c22Run) store(L int) types.Store {
	if L == 0 {
		return r.base
	}
	return r.layers[L-1].store
}

func (r *c22Run) push(l c22Layer, viaCacheWrap bool) {
	parent := r.store(len(r.layers))
	rl := &c22RLayer{kind: l.Kind}
	switch l.Kind {
	case "cache":
		if viaCacheWrap {
			rl.store = parent.CacheWrap()
		} else {
			rl.store = cache.New(parent)
		}
	case "prefix":
		rl.store = prefix.New(parent, clone(l.Prefix))
	case "multi":
		var cms cachemulti.Store
		if n := len(r.layers); n > 0 && r.layers[n-1].kind == "multi" {
			cms = r.layers[n-1].cms.MultiCacheWrap().(cachemulti.Store)
		} else {
			cms = cachemulti.New(map[types.StoreKey]types.Store{c22Key: parent}, map[string]types.StoreKey{"c22": c22Key})
		}
		rl.cms = &cms
		rl.store = cms.GetStore(c22Key)
	}
	r.layers = append(r.layers, rl)
	r.m.layers = append(r.m.layers, &c22MLayer{kind: l.Kind, prefix: clone(l.Prefix), over: map[string]*[]byte{}})
}

func (r *c22Run) sweep(L int, rev bool, when string) error {
	var it types.Iterator
	s := r.store(L)
	if rev {
		it = s.ReverseIterator(nil, nil, nil)
	} else {
		it = s.Iterator(nil, nil, nil)
	}
	var got []KV
	for ; it.Valid(); it.Next() {
		got = append(got, KV{clone(it.Key()), clone(it.Value())})
		if len(got) > 5000 {
			it.Close()
			return fmt.Errorf("%s: full iteration of layer %d does not terminate", when, L)
		}
	}
	it.Close()
	want := r.m.view(L).Range(nil, nil, rev)
	if !sameKVs(got, want) {
		return fmt.Errorf("%s: contents of layer %d (%s, rev=%v) = %v, model %v", when, L, r.kindOf(L), rev, got, want)
	}
	return nil
}

func (r *c22Run) kindOf(L int) string {
	if L == 0 {
		return "dbadapter"
	}
	return r.layers[L-1].kind
}

func c22Exec(ctx *vk.Ctx, c c22Case) error {
	r := &c22Run{ctx: ctx, m: &c22Model{base: NewOMap()}}
	if c.Gas {
		r.gctx = &types.GasContext{Meter: types.NewInfiniteGasMeter(), Config: types.DefaultGasConfig()}
	}
	r.base = dbadapter.Store{DB: memdb.NewMemDB()}
	for _, l := range c.Layers {
		r.push(l, false)
	}
	var ntShadow, ntRestore bool
	for i, op := range c.Ops {
		if op.L < 0 || op.L > len(r.layers) {
			return nil // malformed (hand-edited) case
		}
		what := fmt.Sprintf("op %d %s at layer %d (%s)", i, op.Op, op.L, r.kindOf(op.L))
		s := r.store(op.L)
		ctx.Class(op.Op)
		switch op.Op {
		case "get":
			v := s.Get(r.gctx, clone(op.Key))
			want, ok := r.m.view(op.L).Get(op.Key)
			if ok != (v != nil) || (ok && !bytes.Equal(v, want)) {
				return fmt.Errorf("%s: Get(%v) = %q (nil=%v), model present=%v value=%q", what, op.Key, v, v == nil, ok, want)
			}
		case "has":
			b := s.Has(r.gctx, clone(op.Key))
			if want := r.m.view(op.L).Has(op.Key); b != want {
				return fmt.Errorf("%s: Has(%v) = %v, model %v", what, op.Key, b, want)
			}
		case "set":
			s.Set(r.gctx, clone(op.Key), clone(op.Val))
			v := []byte(op.Val)
			r.m.put(op.L, op.Key, &v)
		case "del":
			s.Delete(r.gctx, clone(op.Key))
			r.m.put(op.L, op.Key, nil)
		case "iter":
			view := r.m.view(op.L)
			// non-trivial rule 1: a delete in the nearest cache overlay shadows a parent key at a domain boundary
			if cl := r.nearestCache(op.L); cl > 0 {
				pre := r.prefixPath(cl, op.L)
				pv := r.m.view(cl - 1)
				for _, it := range op.Its {
					dom := pv.Sub(pre).Range(it.Start, it.End, false)
					for k, v := range r.m.layers[cl-1].over {
						if v != nil || !pv.Has([]byte(k)) || !bytes.HasPrefix([]byte(k), pre) {
							continue
						}
						kk := []byte(k)[len(pre):]
						if len(dom) > 0 && (bytes.Equal(kk, dom[0].K) || bytes.Equal(kk, dom[len(dom)-1].K)) {
							ntShadow = true
						}
					}
				}
			}
			its := make([]types.Iterator, len(op.Its))
			wants := make([][]KV, len(op.Its))
			closeAll := func() {
				for _, h := range its {
					if h != nil {
						h.Close()
					}
				}
			}
			for j, it := range op.Its {
				st, en := clone(it.Start), clone(it.End)
				if it.Rev {
					its[j] = s.ReverseIterator(r.gctx, st, en)
				} else {
					its[j] = s.Iterator(r.gctx, st, en)
				}
				wants[j] = view.Range(it.Start, it.End, it.Rev)
				ds, de := its[j].Domain()
				if !bytes.Equal(ds, it.Start) || !bytes.Equal(de, it.End) {
					closeAll()
					return fmt.Errorf("%s: Domain() = [%q,%q) for an iterator opened on [%v,%v)", what, ds, de, it.Start, it.End)
				}
			}
			got := make([][]KV, len(op.Its))
			done := make([]bool, len(op.Its))
			exhausted := make([]bool, len(op.Its))
			consumed := 0
			applied := make([]bool, len(op.During))
			applyDuring := func(final bool) {
				for wi, w := range op.During {
					if applied[wi] || (!final && w.At > consumed) {
						continue
					}
					applied[wi] = true
					if w.Del {
						s.Delete(r.gctx, clone(w.Key))
						r.m.put(op.L, w.Key, nil)
					} else {
						s.Set(r.gctx, clone(w.Key), clone(w.Val))
						v := []byte(w.Val)
						r.m.put(op.L, w.Key, &v)
					}
					ctx.Class("write-while-iterating")
				}
			}
			for left := len(its); left > 0; {
				for j, it := range op.Its {
					if done[j] {
						continue
					}
					applyDuring(false)
					h := its[j]
					if it.Steps >= 0 && len(got[j]) >= it.Steps {
						done[j] = true
						left--
						continue
					}
					if !h.Valid() {
						done[j], exhausted[j] = true, true
						left--
						continue
					}
					if len(got[j]) > 5000 {
						closeAll()
						return fmt.Errorf("%s: iterator %d does not terminate", what, j)
					}
					got[j] = append(got[j], KV{clone(h.Key()), clone(h.Value())})
					consumed++
					h.Next()
				}
			}
			applyDuring(true)
			for j, h := range its {
				if e := h.Close(); e != nil {
					return fmt.Errorf("%s: Close: %v", what, e)
				}
				its[j] = nil
				it := op.Its[j]
				w := wants[j]
				if !exhausted[j] && len(w) > len(got[j]) {
					w = w[:len(got[j])]
				}
				if !sameKVs(got[j], w) {
					return fmt.Errorf("%s: iterator [%v,%v) rev=%v yielded %v, model (state when the iterator was created) %v", what, it.Start, it.End, it.Rev, got[j], wants[j])
				}
			}
		case "write":
			l := r.layers[op.L-1]
			if l.cms != nil {
				l.cms.MultiWrite()
			} else {
				s.Write()
			}
			r.m.write(op.L)
			if err := r.sweep(op.L-1, i%2 == 1, what+": parent after Write"); err != nil {
				return err
			}
		case "ckpt":
			l := r.layers[op.L-1]
			if l.cms != nil {
				l.cms.Checkpoint()
			} else {
				s.(types.Checkpointable).Checkpoint()
			}
			r.m.checkpoint(op.L)
		case "wckpt":
			if !r.m.layers[op.L-1].hasCkpt {
				break // malformed case: WriteCheckpoint without Checkpoint is documented to panic
			}
			if !r.m.overlayEqualsCkpt(op.L) {
				ntRestore = true
			}
			l := r.layers[op.L-1]
			if l.cms != nil {
				l.cms.WriteCheckpoint()
			} else {
				s.(types.Checkpointable).WriteCheckpoint()
			}
			r.m.writeCheckpoint(op.L)
			if err := r.sweep(op.L-1, i%2 == 1, what+": parent after WriteCheckpoint"); err != nil {
				return err
			}
			if err := r.sweep(op.L, i%2 == 0, what+": layer after WriteCheckpoint"); err != nil {
				return err
			}
		case "wrap":
			if op.Layer == nil {
				break
			}
			r.push(*op.Layer, true)
		case "drop":
			if len(r.layers) < 2 {
				break
			}
			r.layers = r.layers[:len(r.layers)-1]
			r.m.layers = r.m.layers[:len(r.m.layers)-1]
		}
		// HasCheckpoint agrees with the model on every cache layer
		for L := 1; L <= len(r.layers); L++ {
			l := r.layers[L-1]
			if !c22IsCache(l.kind) {
				continue
			}
			var has bool
			if l.cms != nil {
				has = l.cms.HasCheckpoint()
			} else {
				has = l.store.(types.Checkpointable).HasCheckpoint()
			}
			if has != r.m.layers[L-1].hasCkpt {
				return fmt.Errorf("%s: afterwards HasCheckpoint() of layer %d = %v, model %v", what, L, has, r.m.layers[L-1].hasCkpt)
			}
		}
	}
	// final: every layer shows its model view, in both directions
	for L := len(r.layers); L >= 0; L-- {
		for _, rev := range []bool{false, true} {
			if err := r.sweep(L, rev, "final sweep"); err != nil {
				return err
			}
		}
	}
	ctx.ClassIf(ntShadow, "nt:delete-shadows-parent-key-at-domain-boundary")
	ctx.ClassIf(ntRestore, "nt:checkpoint-restored-after-later-writes")
	ctx.ClassIf(c.Gas, "gas-metered")
	ctx.NTIf(ntShadow || ntRestore)
	return nil
}

// nearestCache returns the highest cache layer <= L reachable through prefix
// layers only (0 if the path ends at the dbadapter).
func (r *c22Run) nearestCache(L int) int {
	for m := L; m >= 1; m-- {
		if r.layers[m-1].kind != "prefix" {
			return m
		}
	}
	return 0
}

// prefixPath is the concatenated prefix that maps keys of layer L to keys of
// layer cl (all layers in between are prefix layers).
func (r *c22Run) prefixPath(cl, L int) []byte {
	var p []byte
	for m := cl + 1; m <= L; m++ {
		p = append(p, r.m.layers[m-1].prefix...)
	}
	return p
}

const c22Rule = "rapid: a stack memdb -> dbadapter -> 1-5 layers of cache.New / prefix.New (prefix length 0-2, often ending in FF) / cachemulti, gas-metered or not, and 8-60 ops addressed to any layer: get, has, set, delete, 1-2 simultaneously open (reverse) iterators over generated domains (nil bounds, bounds equal to keys, empty and inverted domains) consumed fully or partly, optionally with writes to the iterated cache layer while they are open, Write, Checkpoint, WriteCheckpoint, further CacheWrap, drop of the top layer; keys over {00,'a','b',FF}^0..3 placed under the prefixes above the addressed layer, values incl. empty; the generator keeps the usage contract (a layer is mutated only while all cache layers above it are freshly written/created; no nil key or value; WriteCheckpoint only with an active checkpoint); non-trivial = an iterator is opened on a layer whose cache overlay holds a delete that shadows a parent key at the first or last position of the iterator's domain, or a checkpoint is restored after later writes"

func TestC22_Overlay(t *testing.T) {
	vk.Run(t, vk.Spec[c22Case]{ID: "C22", Name: "TestC22_Overlay", Rule: c22Rule, Draw: c22Draw, Exec: c22Exec})
}
