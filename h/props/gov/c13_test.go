package gov

import (
	"bytes"
	"fmt"
	"sort"
	"strconv"
	"strings"
	"testing"

	"github.com/gnolang/gno/gno.land/pkg/sdk/vm"
	"github.com/gnolang/gno/tm2/pkg/amino"
	"github.com/gnolang/gno/tm2/pkg/sdk"
	"github.com/gnolang/gno/tm2/pkg/std"
	"pgregory.net/rapid"
	ec "verif/eng/chain"
	"verif/vk"
)

// C13 — chain parameters can be written only by their owners.
//
// A fixed set of attacker realms is deployed on the real gno.land app; a case
// is a sequence of parameter-write attempts, one transaction per block. The
// oracle never asks the implementation which realm is "current": every
// attempt carries, by construction, the set of realms that take part in the
// call chain, and after each transaction the complete set of params records
// (main-store keys under "/pv/") read through an independent multistore is
// compared with the snapshot taken before it.

const (
	c13PathHelp = "gno.land/p/atk/help"
	c13PathA    = "gno.land/r/atk/atka"
	c13PathB    = "gno.land/r/atk/atkb"
	c13PathS    = "gno.land/r/atk/atks"
	c13PathSys  = "gno.land/r/sys/params"
)

// c13Apply is the setter dispatcher pasted into every attacker package.
const c13Apply = `
func apply(setter, k, v string) {
	switch setter {
	case "string":
		params.SetString(k, v)
	case "bool":
		params.SetBool(k, v == "true")
	case "int64":
		n, _ := strconv.ParseInt(v, 10, 64)
		params.SetInt64(k, n)
	case "uint64":
		n, _ := strconv.ParseUint(v, 10, 64)
		params.SetUint64(k, n)
	case "bytes":
		params.SetBytes(k, []byte(v))
	case "strings":
		params.SetStrings(k, strings.Split(v, ","))
	case "upd+":
		params.UpdateParamStrings(k, strings.Split(v, ","), true)
	case "upd-":
		params.UpdateParamStrings(k, strings.Split(v, ","), false)
	default:
		panic("bad setter")
	}
}
`

const c13SrcHelp = `package help

import (
	"chain/params"
	"strconv"
	"strings"
)

func Apply(setter, k, v string) { apply(setter, k, v) }
func Call(f func())              { f() }

// Writer's methods write a parameter; instances live wherever they are stored.
type Writer struct{ Tag string }

func (w *Writer) Set(setter, k, v string) { apply(setter, k, v) }
func (w Writer) SetV(setter, k, v string) { apply(setter, k, v) }

type Setter interface{ Set(setter, k, v string) }
` + c13Apply

const c13SrcB = `package atkb

import (
	"chain/params"
	"strconv"
	"strings"

	"gno.land/p/atk/help"
)

func Invoke(cur realm, f func())          { f() }
func Do(cur realm, setter, k, v string) { apply(setter, k, v) }

// Objects stored (and therefore owned) by this realm whose methods write a
// parameter: calling them from another realm borrows this realm's storage
// context without crossing into it.
var (
	W  = &help.Writer{Tag: "b"}
	WV = help.Writer{Tag: "bv"}
	BI = &Own{N: 1}
)

func GetW() *help.Writer { return W }

type Own struct{ N int }

func (o *Own) Set(setter, k, v string) { apply(setter, k, v) }
` + c13Apply

const c13SrcA = `package atka

import (
	"chain/params"
	"strconv"
	"strings"

	"gno.land/p/atk/help"
	"gno.land/r/atk/atkb"
)

type setter struct{ s, k, v string }

func (x setter) run() { apply(x.s, x.k, x.v) }

func Do(cur realm, ctx, s, k, v string) {
	switch ctx {
	case "direct":
		apply(s, k, v)
	case "method":
		setter{s, k, v}.run()
	case "phelper":
		help.Apply(s, k, v)
	case "pcallback":
		help.Call(func() { apply(s, k, v) })
	case "callback":
		atkb.Invoke(cross(cur), func() { apply(s, k, v) })
	case "crossb":
		atkb.Do(cross(cur), s, k, v)
	case "defer":
		defer func() { apply(s, k, v) }()
	case "recover":
		func() {
			defer func() { recover() }()
			apply(s, k, v)
		}()
	case "selfcross":
		Do(cross(cur), "direct", s, k, v)
	case "bw-method":
		atkb.W.Set(s, k, v)
	case "bw-methodvalue":
		f := atkb.W.Set
		help.Call(func() { f(s, k, v) })
	case "bw-iface":
		var i help.Setter = atkb.W
		i.Set(s, k, v)
	case "bw-getter":
		atkb.GetW().Set(s, k, v)
	case "bw-value":
		atkb.WV.SetV(s, k, v)
	case "bw-realmtype":
		atkb.BI.Set(s, k, v)
	case "bw-realmtype-iface":
		var i help.Setter = atkb.BI
		func(j help.Setter) { j.Set(s, k, v) }(i)
	default:
		panic("bad ctx")
	}
}
` + c13Apply

// c13SysBody is shared by the stand-in system realm and by the foreign realm
// that calls the sys/params natives directly.
const c13SysBody = `
import (
	"strconv"
	"strings"
	sp "sys/params"
)

func Set(cur realm, typ, m, s, n, v string) {
	switch typ {
	case "string":
		sp.SetSysParamString(m, s, n, v)
	case "bool":
		sp.SetSysParamBool(m, s, n, v == "true")
	case "int64":
		x, _ := strconv.ParseInt(v, 10, 64)
		sp.SetSysParamInt64(m, s, n, x)
	case "uint64":
		x, _ := strconv.ParseUint(v, 10, 64)
		sp.SetSysParamUint64(m, s, n, x)
	case "bytes":
		sp.SetSysParamBytes(m, s, n, []byte(v))
	case "strings":
		sp.SetSysParamStrings(m, s, n, strings.Split(v, ","))
	case "upd+":
		sp.UpdateSysParamStrings(m, s, n, strings.Split(v, ","), true)
	case "upd-":
		sp.UpdateSysParamStrings(m, s, n, strings.Split(v, ","), false)
	default:
		panic("bad typ")
	}
}
`

type c13Op struct {
	Kind   string `json:"kind"` // realm | run | init | sys
	Ctx    string `json:"ctx,omitempty"`
	Setter string `json:"setter"`
	Key    string `json:"key,omitempty"`
	Val    string `json:"val"`
	Via    string `json:"via,omitempty"` // sys: sysrealm | foreign
	Mod    string `json:"mod,omitempty"`
	Sub    string `json:"sub,omitempty"`
	Name   string `json:"name,omitempty"`
	// Pre: before a realm write of a string, the system realm creates the very
	// record the write addresses (same length, other content), so that the
	// write is a same-size overwrite.
	Pre bool `json:"pre,omitempty"`
	// PreVictim: before a borrowed-receiver write, the victim realm creates
	// its own parameter under the same key through its own crossing function.
	PreVictim bool `json:"pre_victim,omitempty"`
}

type c13Case struct {
	Ops []c13Op `json:"ops"`
}

var c13Ctxs = []string{"direct", "direct", "method", "phelper", "pcallback", "callback", "crossb", "defer", "recover", "selfcross",
	// borrowed receiver: a non-crossing method call on an object that lives in the victim realm atkb
	"bw-method", "bw-methodvalue", "bw-iface", "bw-getter", "bw-value", "bw-realmtype", "bw-realmtype-iface"}

var c13BwCalls = map[string]string{
	"bw-method": "atkb.W.Set(S, K, V)", "bw-methodvalue": "f := atkb.W.Set\n\tfunc(g func(string, string, string)) { g(S, K, V) }(f)",
	"bw-iface": "var i help.Setter = atkb.W\n\ti.Set(S, K, V)", "bw-getter": "atkb.GetW().Set(S, K, V)", "bw-value": "atkb.WV.SetV(S, K, V)",
	"bw-realmtype": "atkb.BI.Set(S, K, V)",
}
var c13Setters = []string{"string", "string", "bool", "int64", "uint64", "bytes", "strings", "upd+", "upd-"}

// Hostile key material. Everything without an ASCII ':' and non-empty is a
// key the API accepts; the rest must be refused.
var c13HostileKeys = []string{
	"", ":", "a:b", ":a", "a:", "a::b", "p:chain_domain", "vm:p:chain_domain", "auth:p:max_memo_bytes", "bank:p:restricted_denoms",
	c13PathB + ":k", "vm:" + c13PathB + ":k", c13PathSys + ":k", "x:" + c13PathA + ":y",
	"/", "//", "a/b", "../" + c13PathB, "\x00", "a\x00b", "a\x00:b", "a\nb", " ", "a b", "%3A", "a%3Ab", "a：b", "é", "ключ", "a​b",
	"#", "a#b", "_realmmeta_" + c13PathB, "vm", "p", "k", "K", "chain_domain",
}

func c13DrawKey(rt *rapid.T) string {
	switch rapid.IntRange(0, 9).Draw(rt, "keykind") {
	case 0, 1:
		return rapid.StringMatching("[a-c_]{1,4}").Draw(rt, "plain")
	case 2:
		return strings.Repeat(rapid.SampledFrom([]string{"k", "é", "a:", ":"}).Draw(rt, "rep"), rapid.SampledFrom([]int{64, 300, 1000}).Draw(rt, "n"))
	case 3:
		// arbitrary short string with separators likely
		return rapid.StringOfN(rapid.RuneFrom([]rune{'a', 'b', ':', '/', '.', '_', 0, 0xFF1A, 'p', 'v', 'm'}), 0, 8, -1).Draw(rt, "mix")
	default:
		return rapid.SampledFrom(c13HostileKeys).Draw(rt, "hostile")
	}
}

func c13DrawVal(rt *rapid.T, setter string) string {
	switch setter {
	case "bool":
		return rapid.SampledFrom([]string{"true", "false"}).Draw(rt, "bv")
	case "int64":
		return strconv.FormatInt(rapid.SampledFrom([]int64{0, 1, -1, 65536, -9223372036854775808, 9223372036854775807}).Draw(rt, "iv"), 10)
	case "uint64":
		return strconv.FormatUint(rapid.SampledFrom([]uint64{0, 1, 70000, 18446744073709551615}).Draw(rt, "uv"), 10)
	case "strings", "upd+", "upd-":
		return rapid.SampledFrom([]string{"a", "a,b", "b,c,a", "x"}).Draw(rt, "lv")
	default:
		return rapid.StringMatching("[a-z0-9]{1,6}").Draw(rt, "sv")
	}
}

// Curated module writes (typ, module, submodule, name, value).
var c13SysTable = [][5]string{
	// acceptable values
	{"int64", "auth", "p", "max_memo_bytes", "70000"},
	{"int64", "auth", "p", "tx_sig_limit", "8"},
	{"int64", "auth", "p", "target_gas_ratio", "80"},
	{"int64", "vm", "p", "min_get_read_depth_100", "150"},
	{"int64", "vm", "p", "iter_next_cost_flat", "1200"},
	{"string", "vm", "p", "storage_price", "101ugnot"},
	{"strings", "bank", "p", "restricted_denoms", "foo,bar"},
	{"string", "node", "p", "halt_min_version", "v9"},
	{"string", "vm", c13PathA, "k", "sys"},
	{"string", "vm", c13PathB, "a", "sys"},
	// values or keys the module must refuse
	{"int64", "auth", "p", "max_memo_bytes", "0"},
	{"int64", "auth", "p", "max_memo_bytes", "-5"},
	{"int64", "auth", "p", "tx_sig_limit", "0"},
	{"int64", "auth", "p", "target_gas_ratio", "101"},
	{"int64", "auth", "p", "tx_size_cost_per_byte", "-1"},
	{"string", "auth", "p", "max_memo_bytes", "70000"},
	{"uint64", "auth", "p", "max_memo_bytes", "70000"},
	{"string", "auth", "p", "fee_collector", "notanaddress"},
	{"string", "auth", "p", "initial_gasprice", "garbage"},
	{"string", "auth", "p", "nonexistent", "x"},
	{"bytes", "auth", "p", "max_memo_bytes", "70000"},
	{"string", "vm", "p", "chain_domain", "bad domain!"},
	{"string", "vm", "p", "sysnames_pkgpath", "not a path"},
	{"string", "vm", "p", "default_deposit", "xyz"},
	{"string", "vm", "p", "storage_fee_collector", "g1bad"},
	{"int64", "vm", "p", "iter_next_cost_flat", "0"},
	{"int64", "vm", "p", "preprocess_gas_per_byte", "0"},
	{"int64", "vm", "p", "min_write_depth_100", "-1"},
	{"int64", "vm", "p", "fixed_write_depth_100", "10001"},
	{"string", "vm", "p", "unknown_key", "x"},
	{"bool", "vm", "p", "chain_domain", "true"},
	{"strings", "bank", "p", "restricted_denoms", "BAD DENOM!"},
	{"string", "bank", "p", "restricted_denoms", "foo"},
	{"string", "bank", "p", "other", "foo"},
	{"int64", "node", "p", "halt_height", "-1"},
	{"string", "node", "p", "halt_height", "5"},
	{"string", "foo", "p", "x", "y"},
	{"string", "", "p", "x", "y"},
	{"string", "auth", "", "max_memo_bytes", "1"},
	{"string", "auth", "p", "a:b", "1"},
	{"string", "auth:p", "x", "max_memo_bytes", "1"},
	{"string", "params", "p", "x", "1"},
}

func c13DrawOp(rt *rapid.T) c13Op {
	switch k := rapid.IntRange(0, 11).Draw(rt, "opkind"); {
	case k <= 5:
		s := rapid.SampledFrom(c13Setters).Draw(rt, "setter")
		op := c13Op{Kind: "realm", Ctx: rapid.SampledFrom(c13Ctxs).Draw(rt, "ctx"), Setter: s, Key: c13DrawKey(rt), Val: c13DrawVal(rt, s)}
		op.Pre = s == "string" && op.Ctx != "callback" && rapid.IntRange(0, 2).Draw(rt, "pre") == 0
		op.PreVictim = strings.HasPrefix(op.Ctx, "bw-") && rapid.Bool().Draw(rt, "previctim")
		return op
	case k == 6:
		s := rapid.SampledFrom(c13Setters).Draw(rt, "setter")
		op := c13Op{Kind: "run", Ctx: rapid.SampledFrom([]string{"main", "cross", "bw-method", "bw-methodvalue", "bw-iface", "bw-getter", "bw-value", "bw-realmtype"}).Draw(rt, "ctx"), Setter: s, Key: c13DrawKey(rt), Val: c13DrawVal(rt, s)}
		op.PreVictim = strings.HasPrefix(op.Ctx, "bw-") && rapid.Bool().Draw(rt, "previctim")
		return op
	case k == 7:
		return c13Op{Kind: "init", Setter: "string", Key: c13DrawKey(rt), Val: "i"}
	default:
		via := rapid.SampledFrom([]string{"sysrealm", "sysrealm", "foreign"}).Draw(rt, "via")
		if rapid.IntRange(0, 3).Draw(rt, "curated") > 0 {
			e := rapid.SampledFrom(c13SysTable).Draw(rt, "entry")
			return c13Op{Kind: "sys", Via: via, Setter: e[0], Mod: e[1], Sub: e[2], Name: e[3], Val: e[4]}
		}
		s := rapid.SampledFrom(c13Setters).Draw(rt, "setter")
		return c13Op{Kind: "sys", Via: via, Setter: s,
			Mod:  rapid.SampledFrom([]string{"auth", "bank", "vm", "node", "foo", "", "auth:p", "vm:" + c13PathA}).Draw(rt, "mod"),
			Sub:  rapid.SampledFrom([]string{"p", "p", "", c13PathA, c13PathB, "valset", "p:x"}).Draw(rt, "sub"),
			Name: rapid.SampledFrom([]string{"max_memo_bytes", "chain_domain", "restricted_denoms", "k", "a:b", "", "x"}).Draw(rt, "name"),
			Val:  c13DrawVal(rt, s)}
	}
}

// ---------------------------------------------------------------------------

type c13Env struct {
	c      *ec.Chain
	keys   []ec.Key
	tsec   int64
	pKeys0 map[string]bool // module "<m>:p:*" keys present after genesis
}

func c13Deploy(c *ec.Chain, k ec.Key, path, src string) error {
	r, _, err := c.Send([]std.Msg{ec.AddPkg(k.Addr, path, map[string]string{"a.gno": src}, nil)}, 80_000_000, 1_000_000, k)
	if err != nil {
		return err
	}
	if r.Error != nil {
		return fmt.Errorf("harness: deploy %s: %v %s", path, r.Error, r.Log)
	}
	return nil
}

func c13Setup() (*c13Env, error) {
	e := &c13Env{keys: ec.Keys(2), tsec: 1}
	c, _, err := ec.New(nil, ec.GenesisWithBalances(1e14, e.keys...), ec.Options{})
	if err != nil {
		return nil, err
	}
	e.c = c
	c.Begin(e.tsec)
	for _, d := range [][2]string{
		{c13PathHelp, c13SrcHelp}, {c13PathB, c13SrcB}, {c13PathA, c13SrcA},
		{c13PathS, "package atks\n" + c13SysBody}, {c13PathSys, "package params\n" + c13SysBody},
	} {
		if err := c13Deploy(c, e.keys[0], d[0], d[1]); err != nil {
			return nil, err
		}
	}
	c.End()
	return e, nil
}

// c13Snap returns every params record of the committed state.
func c13Snap(c *ec.Chain) (map[string][]byte, *ec.Reader, error) {
	rd, err := ec.OpenReader(c.DB)
	if err != nil {
		return nil, nil, err
	}
	out := map[string][]byte{}
	for _, kv := range rd.MainDump()["main"] {
		if bytes.HasPrefix(kv[0], []byte("/pv/")) {
			out[string(kv[0][4:])] = kv[1]
		}
	}
	return out, rd, nil
}

func c13Changed(a, b map[string][]byte) []string {
	set := map[string]bool{}
	for k, v := range a {
		if w, ok := b[k]; !ok || !bytes.Equal(v, w) {
			set[k] = true
		}
	}
	for k := range b {
		if _, ok := a[k]; !ok {
			set[k] = true
		}
	}
	out := make([]string, 0, len(set))
	for k := range set {
		out = append(out, k)
	}
	sort.Strings(out)
	return out
}

type c13NoopKeeper struct{}

func (c13NoopKeeper) WillSetParam(ctx sdk.Context, key string, value any) {}

// c13ModulesValid reads the three module parameter structs through the
// independent keeper stack and runs each module's own Validate.
func c13ModulesValid(rd *ec.Reader) (err error) {
	defer func() {
		if p := recover(); p != nil {
			err = fmt.Errorf("module parameters no longer decode: %v", p)
		}
	}()
	if e := rd.Acck.GetParams(rd.Ctx).Validate(); e != nil {
		return fmt.Errorf("auth params invalid: %v", e)
	}
	bp := rd.Bankk.GetParams(rd.Ctx)
	if e := bp.Validate(); e != nil {
		return fmt.Errorf("bank params invalid: %v", e)
	}
	if !rd.Prmk.IsRegistered("vm") {
		rd.Prmk.Register("vm", c13NoopKeeper{})
	}
	var vp vm.Params
	rd.Prmk.GetStruct(rd.Ctx, "vm:p", &vp)
	if e := vp.Validate(); e != nil {
		return fmt.Errorf("vm params invalid: %v", e)
	}
	return nil
}

func c13ModulePKeys(snap map[string][]byte) map[string]bool {
	out := map[string]bool{}
	for k := range snap {
		for _, m := range []string{"auth:p:", "bank:p:", "vm:p:"} { // struct-backed modules: every field is written at genesis
			if strings.HasPrefix(k, m) {
				out[k] = true
			}
		}
	}
	return out
}

// c13Expected is the encoding documented for each typed setter (amino JSON;
// raw bytes for SetBytes); ok=false when the value depends on prior state.
func c13Expected(setter, v string) ([]byte, bool) {
	switch setter {
	case "string":
		return amino.MustMarshalJSON(v), true
	case "bool":
		return amino.MustMarshalJSON(v == "true"), true
	case "int64":
		n, _ := strconv.ParseInt(v, 10, 64)
		return amino.MustMarshalJSON(n), true
	case "uint64":
		n, _ := strconv.ParseUint(v, 10, 64)
		return amino.MustMarshalJSON(n), true
	case "bytes":
		return []byte(v), v != ""
	case "strings":
		return amino.MustMarshalJSON(strings.Split(v, ",")), true
	}
	return nil, false
}

func c13RunSrc(op c13Op) string {
	if call, ok := c13BwCalls[op.Ctx]; ok {
		call = strings.NewReplacer("S", strconv.Quote(op.Setter), "K", strconv.Quote(op.Key), "V", strconv.Quote(op.Val)).Replace(call)
		imp := "import \"" + c13PathB + "\"\n"
		if strings.Contains(call, "help.") {
			imp = "import (\n\t\"" + c13PathHelp + "\"\n\t\"" + c13PathB + "\"\n)\n"
		}
		return "package main\n\n" + imp + "\nfunc main() {\n\t" + call + "\n}\n"
	}
	if op.Ctx == "cross" {
		return "package main\n\nimport \"" + c13PathA + "\"\n\nfunc main(cur realm) {\n\tatka.Do(cross(cur), \"direct\", " +
			strconv.Quote(op.Setter) + ", " + strconv.Quote(op.Key) + ", " + strconv.Quote(op.Val) + ")\n}\n"
	}
	return "package main\n\nimport (\n\t\"chain/params\"\n\t\"strconv\"\n\t\"strings\"\n)\n\nfunc main() {\n\tapply(" +
		strconv.Quote(op.Setter) + ", " + strconv.Quote(op.Key) + ", " + strconv.Quote(op.Val) + ")\n}\n" + c13Apply
}

func c13Exec(ctx *vk.Ctx, c c13Case) error {
	e, err := c13Setup()
	if err != nil {
		return err
	}
	ch := e.c
	before, rd0, err := c13Snap(ch)
	if err != nil {
		return err
	}
	if err := c13ModulesValid(rd0); err != nil {
		return fmt.Errorf("harness: genesis module params: %v", err)
	}
	e.pKeys0 = c13ModulePKeys(before)
	user := e.keys[1]
	runRealm := "gno.land/e/" + user.Addr.String() + "/run"
	nt := false
	var steps []c13Op
	for _, op := range c.Ops {
		if op.Pre && op.Kind == "realm" && op.Setter == "string" && op.Ctx != "callback" && op.Val != "" {
			rlm := c13PathA
			if op.Ctx == "crossb" {
				rlm = c13PathB
			}
			sub, name := rlm, op.Key
			if j := strings.LastIndex(op.Key, ":"); j >= 0 {
				sub, name = rlm+":"+op.Key[:j], op.Key[j+1:]
			}
			alt := []byte(op.Val)
			if alt[0] == 'z' {
				alt[0] = 'y'
			} else {
				alt[0] = 'z'
			}
			steps = append(steps, c13Op{Kind: "sys", Via: "sysrealm", Setter: "string", Mod: "vm", Sub: sub, Name: name, Val: string(alt)})
		}
		if op.PreVictim && strings.HasPrefix(op.Ctx, "bw-") {
			// the victim writes its own parameter (the key may be refused; then nothing exists, which is fine)
			vv := map[string]string{"string": "w" + op.Val, "bytes": "w" + op.Val, "bool": "true", "int64": "7", "uint64": "7"}[op.Setter]
			if vv == "" {
				vv = "w"
			}
			steps = append(steps, c13Op{Kind: "victim", Setter: op.Setter, Key: op.Key, Val: vv})
		}
		steps = append(steps, op)
	}
	for i, op := range steps {
		var msg std.Msg
		var allowed []string // realms whose namespace this tx may touch
		exactRealm := ""     // when the current realm at the setter call is determined by construction
		sysOK := false
		switch op.Kind {
		case "realm":
			msg = ec.Call(user.Addr, c13PathA, "Do", []string{op.Ctx, op.Setter, op.Key, op.Val}, nil)
			switch op.Ctx {
			case "callback":
				allowed = []string{c13PathA, c13PathB}
			case "crossb":
				allowed, exactRealm = []string{c13PathB}, c13PathB
			default:
				allowed, exactRealm = []string{c13PathA}, c13PathA
			}
		case "victim":
			msg = ec.Call(user.Addr, c13PathB, "Do", []string{op.Setter, op.Key, op.Val}, nil)
			allowed, exactRealm = []string{c13PathB}, c13PathB
		case "run":
			msg = ec.HMsg{Kind: "run", Body: c13RunSrc(op)}.Build(user.Addr, e.keys)
			if op.Ctx == "cross" {
				allowed, exactRealm = []string{c13PathA}, c13PathA
			} else {
				allowed, exactRealm = []string{runRealm}, runRealm
			}
		case "init":
			name := "ini" + strconv.Itoa(i)
			path := "gno.land/r/atk/" + name
			src := "package " + name + "\n\nimport \"chain/params\"\n\nfunc init() { params.SetString(" + strconv.Quote(op.Key) + ", " + strconv.Quote(op.Val) + ") }\n"
			msg = ec.AddPkg(user.Addr, path, map[string]string{"a.gno": src}, nil)
			allowed, exactRealm = []string{path}, path
		case "sys":
			target := c13PathSys
			if op.Via == "foreign" {
				target = c13PathS
			} else {
				sysOK = true
			}
			msg = ec.Call(user.Addr, target, "Set", []string{op.Setter, op.Mod, op.Sub, op.Name, op.Val}, nil)
		default:
			return fmt.Errorf("harness: bad op kind %q", op.Kind)
		}
		e.tsec += 5
		ch.Begin(e.tsec)
		r, _, err := ch.Send([]std.Msg{msg}, 80_000_000, 1_000_000, user)
		ch.End()
		if err != nil {
			return fmt.Errorf("harness: %v", err)
		}
		after, rd, err := c13Snap(ch)
		if err != nil {
			return err
		}
		ok := r.Error == nil
		errs := ""
		if r.Error != nil {
			errs = r.Error.Error()
		}
		changed := c13Changed(before, after)
		label := fmt.Sprintf("op %d %+v (ok=%v err=%.120q)", i, op, ok, errs)

		hostile := op.Kind != "sys" && (op.Key == "" || strings.ContainsAny(op.Key, ":/\x00 #%\n") || len(op.Key) > 32 || !isASCII(op.Key))
		reached := ok || strings.Contains(errs, "param key") || strings.Contains(r.Log, "param key")
		if op.Kind != "sys" {
			ctx.Class("ctx=" + op.Kind + "/" + op.Ctx)
			ctx.ClassIf(ok, "realm-write-accepted")
			ctx.ClassIf(ok && strings.HasPrefix(op.Ctx, "bw-"), "borrowed-receiver-write-accepted/"+op.Kind)
			ctx.ClassIf(!ok && (op.Key == "" || strings.Contains(op.Key, ":")), "realm-write-refused-bad-key")
			ctx.ClassIf(!ok && op.Key != "" && !strings.Contains(op.Key, ":"), "realm-write-failed-other")
			if hostile && reached {
				nt = true
				ctx.Class("hostile-key-reached-native")
			}
		} else {
			ctx.Class("sys/" + op.Via)
			ctx.ClassIf(ok, "sys-accepted/"+op.Via)
			nt = true
		}

		if !ok && len(changed) > 0 {
			return fmt.Errorf("%s: transaction failed but params records changed: %q", label, changed)
		}
		for _, k := range changed {
			if sysOK {
				continue // checked below
			}
			if !c13KeyOwned(k, allowed) {
				return fmt.Errorf("%s: params record %q was created/changed/deleted; the transaction's code runs only as %v (before=%q after=%q)", label, k, allowed, before[k], after[k])
			}
		}
		if ok && op.Kind != "sys" && exactRealm != "" {
			want := "vm:" + exactRealm + ":" + op.Key
			for _, k := range changed {
				if k != want && k != "_realmmeta_"+exactRealm {
					return fmt.Errorf("%s: wrote %q, expected only %q", label, k, want)
				}
			}
			// inside the recover block a refused write is swallowed and the tx still succeeds
			swallowed := op.Ctx == "recover" && len(changed) == 0
			ctx.ClassIf(swallowed, "refusal-swallowed-by-recover")
			if exp, det := c13Expected(op.Setter, op.Val); det && !swallowed {
				got, present := after[want]
				if !present || !bytes.Equal(got, exp) {
					return fmt.Errorf("%s: after an accepted write record %q holds %q (present=%v), want %q", label, want, got, present, exp)
				}
			}
		}
		if sysOK && ok {
			want := op.Mod + ":" + op.Sub + ":" + op.Name
			for _, k := range changed {
				if k == want {
					continue
				}
				if op.Mod == "vm" && k == "_realmmeta_"+op.Sub {
					continue
				}
				return fmt.Errorf("%s: system-realm write touched %q, expected only %q", label, k, want)
			}
			if op.Sub == "" || strings.Contains(op.Name, ":") {
				return fmt.Errorf("%s: system-realm write with empty submodule or ':' in the name was accepted", label)
			}
		}
		if ok && op.Kind == "sys" || len(changed) > 0 {
			if err := c13ModulesValid(rd); err != nil {
				return fmt.Errorf("%s: %v", label, err)
			}
			for k := range c13ModulePKeys(after) {
				if !e.pKeys0[k] {
					return fmt.Errorf("%s: a module parameter record %q exists that no module defines/validates", label, k)
				}
			}
			for k := range e.pKeys0 {
				if _, okk := after[k]; !okk {
					return fmt.Errorf("%s: module parameter record %q disappeared", label, k)
				}
			}
		}
		before = after
	}
	ctx.NTIf(nt)
	return nil
}

func isASCII(s string) bool {
	for i := 0; i < len(s); i++ {
		if s[i] >= 0x80 {
			return false
		}
	}
	return true
}

// c13KeyOwned reports whether params key k (without the "/pv/" store prefix)
// belongs to the namespace of one of the realms: exactly vm:<realm>:<name>
// with a non-empty ':'-free name, or that realm's byte-accounting record.
func c13KeyOwned(k string, realms []string) bool {
	for _, r := range realms {
		if k == "_realmmeta_"+r {
			return true
		}
		p := "vm:" + r + ":"
		if strings.HasPrefix(k, p) {
			rest := k[len(p):]
			if rest != "" && !strings.Contains(rest, ":") {
				return true
			}
		}
	}
	return false
}

func TestC13_ParamOwnership(t *testing.T) {
	vk.Run(t, vk.Spec[c13Case]{
		ID: "C13", Name: "TestC13_ParamOwnership",
		Rule: "rapid: 3-8 parameter-write attempts, one tx per block, on the real app with attacker realms deployed: chain/params setters (7 setters) called with hostile keys (':' in every position, module/realm-path prefixes, NUL, '/', unicode look-alikes, empty, 1000 bytes) from a crossing function, a method, a /p/ helper, borrowed receivers (methods of /p/- and realm-declared types on objects stored in a victim realm, called directly, as method value, through an interface, through a getter, by value; optionally after the victim created its own parameter under the same key), a /p/ callback, a closure run inside another realm, a second realm, a defer, a recover block, a self-cross, MsgRun main, MsgRun->cross, and package init; plus sys/params natives called from a foreign realm and from a stand-in gno.land/r/sys/params with acceptable and unacceptable module values; non-trivial = a hostile key reached the native (accepted, or refused by the key check) or a sys/params call was made",
		Draw: func(rt *rapid.T) c13Case {
			n := rapid.IntRange(3, 8).Draw(rt, "nops")
			var c c13Case
			for i := 0; i < n; i++ {
				c.Ops = append(c.Ops, c13DrawOp(rt))
			}
			return c
		},
		Exec: c13Exec,
	})
}
