package gov

import (
	"fmt"
	"strings"
	"testing"

	"github.com/gnolang/gno/tm2/pkg/std"
	ec "verif/eng/chain"
)

const probeHelp = `package help

import "chain/params"

func Set(k, v string) { params.SetString(k, v) }
func Call(f func())   { f() }
`

const probeB = `package atkb

import "chain/params"

func Invoke(cur realm, f func()) { f() }
func SetS(cur realm, k, v string) { params.SetString(k, v) }
`

const probeA = `package atka

import (
	"chain/params"
	"gno.land/p/atk/help"
	"gno.land/r/atk/atkb"
)

func set(k, v string) { params.SetString(k, v) }

func Do(cur realm, ctx, k, v string) {
	switch ctx {
	case "direct":
		params.SetString(k, v)
	case "noncross":
		set(k, v)
	case "phelper":
		help.Set(k, v)
	case "pcallback":
		help.Call(func() { params.SetString(k, v) })
	case "callback":
		atkb.Invoke(cross(cur), func() { params.SetString(k, v) })
	case "crossb":
		atkb.SetS(cross(cur), k, v)
	case "defer":
		defer func() { params.SetString(k, v) }()
	case "bytes":
		params.SetBytes(k, []byte(v))
	case "strings":
		params.SetStrings(k, []string{v, v})
	case "upd":
		params.UpdateParamStrings(k, []string{v}, true)
	}
}
`

const probeSysUser = `package atks

import sp "sys/params"

func Do(cur realm, m, s, n, v string) { sp.SetSysParamString(m, s, n, v) }
`

const probeSys = `package params

import sp "sys/params"

func SetS(cur realm, m, s, n, v string) { sp.SetSysParamString(m, s, n, v) }
func SetI(cur realm, m, s, n string, v int64) { sp.SetSysParamInt64(m, s, n, v) }
`

func pvKeys(t *testing.T, c *ec.Chain) map[string]string {
	rd, err := ec.OpenReader(c.DB)
	if err != nil {
		t.Fatal(err)
	}
	out := map[string]string{}
	for _, kv := range rd.MainDump()["main"] {
		if strings.HasPrefix(string(kv[0]), "/pv/") {
			out[string(kv[0])] = string(kv[1])
		}
	}
	return out
}

func TestProbe(t *testing.T) {
	keys := ec.Keys(2)
	c, _, err := ec.New(nil, ec.GenesisWithBalances(1e13, keys...), ec.Options{})
	if err != nil {
		t.Fatal(err)
	}
	c.Begin(1)
	for _, d := range []struct{ p, s string }{
		{"gno.land/p/atk/help", probeHelp}, {"gno.land/r/atk/atkb", probeB}, {"gno.land/r/atk/atka", probeA},
		{"gno.land/r/atk/atks", probeSysUser}, {"gno.land/r/sys/params", probeSys},
	} {
		r, _, err := c.Send([]std.Msg{ec.AddPkg(keys[0].Addr, d.p, map[string]string{"a.gno": d.s}, nil)}, 50_000_000, 1_000_000, keys[0])
		fmt.Printf("deploy %s: err=%v resp=%v log=%.300s gas=%d\n", d.p, err, r.Error, r.Log, r.GasUsed)
	}
	c.End()
	before := pvKeys(t, c)
	for k, v := range before {
		fmt.Printf("GENESIS %q = %q\n", k, v)
	}
	tsec := int64(5)
	do := func(label string, msg std.Msg) {
		c.Begin(tsec)
		tsec += 5
		r, _, err := c.Send([]std.Msg{msg}, 50_000_000, 1_000_000, keys[1])
		c.End()
		after := pvKeys(t, c)
		fmt.Printf("== %s: err=%v resp=%v gas=%d log=%.200s\n", label, err, r.Error, r.GasUsed, strings.ReplaceAll(r.Log, "\n", " | "))
		for k, v := range after {
			if before[k] != v {
				fmt.Printf("   CHANGED %q: %q -> %q\n", k, before[k], v)
			}
		}
		for k := range before {
			if _, ok := after[k]; !ok {
				fmt.Printf("   DELETED %q\n", k)
			}
		}
		before = after
	}
	for _, cx := range []string{"direct", "noncross", "phelper", "pcallback", "callback", "crossb", "defer", "bytes", "strings", "upd"} {
		do(cx, ec.Call(keys[1].Addr, "gno.land/r/atk/atka", "Do", []string{cx, "k_" + cx, "v"}, nil))
	}
	do("colon", ec.Call(keys[1].Addr, "gno.land/r/atk/atka", "Do", []string{"direct", "a:b", "v"}, nil))
	do("empty", ec.Call(keys[1].Addr, "gno.land/r/atk/atka", "Do", []string{"direct", "", "v"}, nil))
	do("nul", ec.Call(keys[1].Addr, "gno.land/r/atk/atka", "Do", []string{"direct", "a\x00b/é", "v"}, nil))
	do("sysuser", ec.Call(keys[1].Addr, "gno.land/r/atk/atks", "Do", []string{"vm", "p", "chain_domain", "evil.land"}, nil))
	do("sys-valid", ec.Call(keys[1].Addr, "gno.land/r/sys/params", "SetI", []string{"auth", "p", "max_memo_bytes", "70000"}, nil))
	do("sys-invalid", ec.Call(keys[1].Addr, "gno.land/r/sys/params", "SetI", []string{"auth", "p", "max_memo_bytes", "0"}, nil))
	do("sys-badtype", ec.Call(keys[1].Addr, "gno.land/r/sys/params", "SetS", []string{"auth", "p", "max_memo_bytes", "x"}, nil))
	do("sys-unknown", ec.Call(keys[1].Addr, "gno.land/r/sys/params", "SetS", []string{"auth", "p", "nonexistent", "x"}, nil))
	do("sys-unreg", ec.Call(keys[1].Addr, "gno.land/r/sys/params", "SetS", []string{"foo", "p", "x", "x"}, nil))
	do("sys-realmkey", ec.Call(keys[1].Addr, "gno.land/r/sys/params", "SetS", []string{"vm", "gno.land/r/atk/atka", "k_direct", "overwritten"}, nil))
	run := `package main

import "chain/params"

func main() { params.SetString("fromrun", "v") }
`
	do("run", ecRun(keys[1], run))
}

func ecRun(k ec.Key, body string) std.Msg {
	return ec.HMsg{Kind: "run", Body: body}.Build(k.Addr, []ec.Key{k})
}
