package gov

import (
	"bytes"
	"encoding/hex"
	"fmt"
	"regexp"
	"sort"
	"strconv"
	"strings"
	"testing"

	"github.com/gnolang/gno/gno.land/pkg/sdk/vm"
	"github.com/gnolang/gno/gnovm/pkg/gnolang"
	"github.com/gnolang/gno/tm2/pkg/std"
	"pgregory.net/rapid"
	ec "verif/eng/chain"
	"verif/vk"
)

// C12 — published package code is immutable and namespace-protected.
//
// A case is a history of add-package transactions (one or two messages each,
// one tx per block) over a small pool of colliding paths and hostile
// variants of them, with public/private flags, several file sets and three
// creators, optionally with a namespace registry deployed at
// gno.land/r/sys/names; interleaved with MsgRun scripts and realm calls that
// try to mutate the state of a /p/ package. The oracle is a Go model
// path -> (files, private, creator, height) compared with vm/qfile and with
// the raw pkg: records after every transaction.

const (
	c12PathPst   = "gno.land/p/vv/pst"
	c12PathMutr  = "gno.land/r/vv/mutr"
	c12PathNames = "gno.land/r/sys/names"
)

const c12SrcPst = `package pst

import "strconv"

type Box struct{ N int }

func (b *Box) Set(n int) { b.N = n }

type Node struct {
	V    int
	Next *Node
}

func (n *Node) Push(v int) { n.Next = &Node{V: v, Next: n.Next} }

var (
	Counter = 1
	S       = []int{1, 2, 3}
	M       = map[string]int{"a": 1}
	B       = &Box{N: 1}
	P       = new(int)
	Arr     = [3]int{1, 2, 3}
	L       = &Node{V: 1}
)

func Bump()                 { Counter++ }
func AppendS(n int)         { S = append(S, n) }
func PutM(k string, v int)  { M[k] = v }
func DelM(k string)         { delete(M, k) }
func Run(f func())          { f() }
func Ptr() *int             { return &Counter }

func Snapshot() string {
	s := "c=" + strconv.Itoa(Counter) + " S="
	for _, x := range S {
		s += strconv.Itoa(x) + ","
	}
	s += " M=" + strconv.Itoa(len(M)) + ":" + strconv.Itoa(M["a"]) + ":" + strconv.Itoa(M["k"]) + ":" + strconv.Itoa(M["z"])
	s += " B=" + strconv.Itoa(B.N) + " P=" + strconv.Itoa(*P) + " A="
	for _, x := range Arr {
		s += strconv.Itoa(x) + ","
	}
	s += " L="
	for n := L; n != nil; n = n.Next {
		s += strconv.Itoa(n.V) + ">"
	}
	return s
}
`

// Mutation attempts against pst. Attempts whose index is < c12NRealmAttacks
// also exist as branches of the realm gno.land/r/vv/mutr (they type-check).
var c12Attacks = []string{
	`pst.Bump()`,
	`pst.B.Set(7)`,
	`pst.S[0] = 9`,
	`pst.M["k"] = 2`,
	`*pst.P = 5`,
	`pst.B.N = 3`,
	`pst.AppendS(4)`,
	`pst.PutM("z", 1)`,
	`pst.DelM("a")`,
	`pst.Arr[1] = 3`,
	`pst.L.Push(2)`,
	`pst.L.Next = &pst.Node{V: 5}`,
	`x := pst.B; x.N = 8`,
	`*pst.Ptr() = 6`,
	`pst.Run(func() { pst.B.Set(4) })`,
	`s := pst.S; s[1] = 7`,
	`delete(pst.M, "a")`,
	// the following may be refused before execution
	`pst.Counter = 5`,
	`pst.S = append(pst.S, 1)`,
	`pst.Arr = [3]int{}`,
	`pst.B = &pst.Box{N: 9}`,
}

const c12NRealmAttacks = 17

// c12PstBaseline is pst.Snapshot() right after initialization.
const c12PstBaseline = "c=1 S=1,2,3, M=1:1:0:0 B=1 P=0 A=1,2,3, L=1>"

// c12Observe is appended to every attempt: the attempt itself looks at the
// package state afterwards, so that a write which is visible inside the
// transaction (even if it is never persisted) is reported.
const c12Observe = `if s := pst.Snapshot(); s != "` + c12PstBaseline + `" {
		panic("P-STATE-MUTATED: " + s)
	}`

func c12MutrSrc() string {
	var sb strings.Builder
	sb.WriteString("package mutr\n\nimport \"" + c12PathPst + "\"\n\nvar Keep *pst.Box\n\nfunc Do(cur realm, n int, obs bool) {\n\tswitch n {\n")
	for i := 0; i < c12NRealmAttacks; i++ {
		fmt.Fprintf(&sb, "\tcase %d:\n\t\t%s\n", i, strings.ReplaceAll(c12Attacks[i], "; ", "\n\t\t"))
	}
	sb.WriteString("\tcase 100:\n\t\tKeep = pst.B\n\tcase 101:\n\t\tKeep.N = 11\n\tcase 102:\n\t\t// observe only\n\t}\n\tif obs {\n\t" + c12Observe + "\n\t}\n}\n")
	return sb.String()
}

type c12Deploy struct {
	Path    string `json:"path"`
	Name    string `json:"name"`
	Files   int    `json:"files"`
	Ver     int    `json:"ver"`
	Private bool   `json:"private,omitempty"`
}

type c12Op struct {
	Kind    string      `json:"kind"` // deploy | mutp
	Creator int         `json:"creator"`
	Deploys []c12Deploy `json:"deploys,omitempty"`
	Attack  int         `json:"attack,omitempty"`
	Via     string      `json:"via,omitempty"` // run | realm
	Obs     bool        `json:"obs,omitempty"` // the attempt itself re-reads the package state afterwards
}

type c12Case struct {
	Registry bool    `json:"registry"`
	Ops      []c12Op `json:"ops"`
}

var c12BasePaths = []string{
	"gno.land/r/c12/aa", "gno.land/r/c12/aa", "gno.land/r/c12/bb", "gno.land/p/c12/aa", "gno.land/r/c12/aa/v2",
	"gno.land/r/alice/xx", "gno.land/r/bob/xx", "gno.land/p/alice/lib", "gno.land/r/carol/xx", "gno.land/r/c12/sub-x_y/aa",
	"gno.land/r/alice/yy", "gno.land/p/bob/lib", "gno.land/r/bob/zz/v2",
}

// c12Hostile builds near-valid variants of a valid path.
func c12Hostile(rt *rapid.T, base string, addr string) string {
	i := strings.LastIndex(base, "/")
	dir, last := base[:i], base[i+1:]
	vs := []string{
		strings.ToUpper(base[:10]) + base[10:], strings.Replace(base, "/r/", "/R/", 1), dir + "/" + strings.ToUpper(last),
		base + "/", base + "//", strings.Replace(base, "/c12/", "//c12/", 1), dir + "/../" + last, dir + "/./" + last, dir + "/..",
		strings.Replace(base, "a", "а", 1) /* cyrillic */, base + "_test", base + "_filetest", base + "/x_test",
		"gno.land/e/" + addr + "/run", "gno.land/e/c12/a", "example.com/r/c12/" + last, "gno.land.evil.com/r/c12/" + last, "gno.land" + base[8:9] + "r/c12",
		"r/c12/" + last, last, "gno.land/x/c12/" + last, "gno.land/r/", "gno.land/r", "gno.land/r//" + last,
		base + "#b", base + ":b", base + " ", " " + base, "/" + base, base + "\x00", strings.Replace(base, "/", "%2F", 1), base + "%00",
		"gno.land/r/1abc/" + last, dir + "/" + last + "-", dir + "/" + last + "__b", dir + "/_" + last, dir + "/internal/" + last,
		dir + "/" + strings.Repeat("a", 250), "gno.land/r/c12/" + last + ".gno", "gno.land/r/c12/a.b/" + last, "gnoXland/r/c12/" + last, "gno.land:80/r/c12/" + last,
		"GNO.LAND/r/c12/" + last, "gno.land/r/c12/" + last + "/v2/v3", "gno.land/p/c12/" + last + "_test", "gno.land/r/sys/names",
	}
	return rapid.SampledFrom(vs).Draw(rt, "hostile")
}

var c12IdentRe = regexp.MustCompile(`^[a-z][a-z0-9_]*$`)

func c12NameFor(path string) string {
	segs := strings.Split(path, "/")
	last := segs[len(segs)-1]
	if regexp.MustCompile(`^v(0|[1-9][0-9]*)$`).MatchString(last) && len(segs) > 1 {
		last = segs[len(segs)-2]
	}
	if c12IdentRe.MatchString(last) {
		return last
	}
	return "aa"
}

const c12ChainDomain = "gno.land"

// c12ConfusedDomains are host names that contain the chain domain as a strict
// string prefix or suffix, or differ from it by case / a trailing dot / one
// character. The first rows are syntactically valid domains, so nothing but an
// exact comparison of the domain segment keeps them out.
var c12ConfusedDomains = []string{
	c12ChainDomain + "ing", c12ChainDomain + "x", c12ChainDomain + "s", c12ChainDomain + ".example.com", c12ChainDomain + ".co", c12ChainDomain + ".land",
	"x" + c12ChainDomain, "x." + c12ChainDomain, "my-" + c12ChainDomain, "test3." + c12ChainDomain, "gno.lan", "gno.lands", "gno-land.land", "gnoo.land",
	// not valid host names (digit/hyphen in the TLD, trailing dot, case, port, userinfo)
	c12ChainDomain + "2", c12ChainDomain + "-x", c12ChainDomain + "_x", c12ChainDomain + ".", c12ChainDomain + "..com", "Gno.land", "gno.Land", "GNO.LAND",
	c12ChainDomain + ":443", "user@" + c12ChainDomain, c12ChainDomain + "%2e", c12ChainDomain + "\u2024com",
}

// c12DomainConfusion keeps everything after the domain of a valid base path.
func c12DomainConfusion(rt *rapid.T, base string) string {
	return rapid.SampledFrom(c12ConfusedDomains).Draw(rt, "domain") + base[len(c12ChainDomain):]
}

func c12DrawDeploy(rt *rapid.T, addr string) c12Deploy {
	base := rapid.SampledFrom(c12BasePaths).Draw(rt, "base")
	d := c12Deploy{Path: base}
	switch rapid.IntRange(0, 11).Draw(rt, "hostile?") {
	case 0, 1:
		d.Path = c12Hostile(rt, base, addr)
	case 2, 3:
		d.Path = c12DomainConfusion(rt, base)
	}
	d.Name = c12NameFor(d.Path)
	if rapid.IntRange(0, 9).Draw(rt, "badname") == 0 {
		d.Name = rapid.SampledFrom([]string{"other", "main", "aa_test", "a", ""}).Draw(rt, "name")
	}
	d.Files = rapid.SampledFrom([]int{0, 0, 1, 2, 3, 4, 5}).Draw(rt, "files")
	d.Ver = rapid.IntRange(0, 3).Draw(rt, "ver")
	d.Private = rapid.IntRange(0, 2).Draw(rt, "private") == 0
	return d
}

func c12Draw(rt *rapid.T) c12Case {
	c := c12Case{Registry: rapid.Bool().Draw(rt, "registry")}
	n := rapid.IntRange(4, 10).Draw(rt, "nops")
	var prev []c12Deploy
	for i := 0; i < n; i++ {
		op := c12Op{Creator: rapid.IntRange(0, 2).Draw(rt, "creator")}
		if rapid.IntRange(0, 4).Draw(rt, "kind") == 0 {
			op.Kind = "mutp"
			op.Via = rapid.SampledFrom([]string{"run", "realm"}).Draw(rt, "via")
			op.Obs = rapid.Bool().Draw(rt, "obs")
			if op.Via == "realm" {
				op.Attack = rapid.SampledFrom([]int{0, 1, 2, 3, 4, 5, 6, 7, 8, 9, 10, 11, 12, 13, 14, 15, 16, 100, 101, 102, 102}).Draw(rt, "attack")
			} else {
				op.Attack = rapid.IntRange(0, len(c12Attacks)-1).Draw(rt, "attack")
			}
		} else {
			op.Kind = "deploy"
			addr := ec.Keys(3)[op.Creator].Addr.String()
			nd := 1
			if rapid.IntRange(0, 5).Draw(rt, "two") == 0 {
				nd = 2
			}
			for j := 0; j < nd; j++ {
				d := c12DrawDeploy(rt, addr)
				if len(prev) > 0 && rapid.IntRange(0, 1).Draw(rt, "again") == 0 {
					// come back to a path used before, with another file set / version / visibility
					d0 := prev[rapid.IntRange(0, len(prev)-1).Draw(rt, "prev")]
					d.Path, d.Name = d0.Path, c12NameFor(d0.Path)
					d.Private = rapid.Bool().Draw(rt, "private2")
					if d0.Private && (d0.Files == 1 || d0.Files == 4 || d0.Files == 5) {
						d.Files = rapid.SampledFrom([]int{0, 2, 0, 2, 1, 3}).Draw(rt, "files2") // mostly drop the test files
					}
				}
				prev = append(prev, d)
				op.Deploys = append(op.Deploys, d)
			}
		}
		c.Ops = append(c.Ops, op)
	}
	return c
}

// c12Files returns the submitted files (sorted by name) of a deployment.
func c12Files(d c12Deploy) []*std.MemFile {
	isP := strings.Contains(d.Path, "/p/")
	prod := fmt.Sprintf("package %s\n\nconst V = %d\n\nfunc Get() int { return V }\n", d.Name, d.Ver)
	if !isP {
		prod += "\nvar N int\n\nfunc Inc(cur realm) int { N++; return N }\n"
	}
	test := fmt.Sprintf("package %s\n\nfunc helperT() int { return V + %d }\n", d.Name, d.Ver)
	var fs []*std.MemFile
	add := func(n, b string) { fs = append(fs, &std.MemFile{Name: n, Body: b}) }
	switch d.Files {
	case 0:
		add("a.gno", prod)
	case 1:
		add("a.gno", prod)
		add("a_test.gno", test)
	case 2:
		add("a.gno", prod)
		add("b.gno", fmt.Sprintf("package %s\n\nconst W = %d\n", d.Name, d.Ver+10))
		add("README.md", fmt.Sprintf("# v%d\n", d.Ver))
	case 3: // test-only file set
		add("a_test.gno", fmt.Sprintf("package %s\n\nconst V = %d\n", d.Name, d.Ver))
	case 4:
		add("a.gno", prod)
		add("z_filetest.gno", fmt.Sprintf("package main\n\nfunc main() { println(%d) }\n\n// Output:\n// %d\n", d.Ver, d.Ver))
	case 5:
		add("a.gno", prod)
		add("a_test.gno", test)
		add("LICENSE", fmt.Sprintf("license %d\n", d.Ver))
	}
	mod := fmt.Sprintf("module = %q\ngno = \"0.9\"\n", d.Path)
	if d.Private {
		mod += "private = true\n"
	}
	add("gnomod.toml", mod)
	sort.Slice(fs, func(i, j int) bool { return fs[i].Name < fs[j].Name })
	return fs
}

func c12Msg(creator ec.Key, d c12Deploy) vm.MsgAddPackage {
	return vm.MsgAddPackage{Creator: creator.Addr, Package: &std.MemPackage{Name: d.Name, Path: d.Path, Files: c12Files(d)}}
}

// ---- independent statement of the acceptance rules -------------------------

var c12SegRe = regexp.MustCompile(`^[a-z][a-z0-9]*([_-][a-z0-9]+)*$`)

// c12ValidPath is the documented grammar of deployable paths under the chain
// domain "gno.land": gno.land/(r|p)/name(/name)*, each name starting with a
// letter, lower-case alphanumerics with single '_'/'-' separators between
// them, at most 256 bytes, not ending in _test or _filetest.
func c12ValidPath(p string) (realm bool, ok bool) {
	all := strings.Split(p, "/")
	// the first segment (the domain) must be the chain domain exactly, not a
	// string that merely starts or ends with it
	if len(p) > 256 || len(all) < 3 || all[0] != c12ChainDomain {
		return false, false
	}
	segs := all[1:]
	if segs[0] != "r" && segs[0] != "p" {
		return false, false
	}
	for _, s := range segs[1:] {
		if !c12SegRe.MatchString(s) {
			return false, false
		}
	}
	if strings.HasSuffix(p, "_test") || strings.HasSuffix(p, "_filetest") {
		return false, false
	}
	return segs[0] == "r", true
}

// c12Authorized mirrors the rule of the stand-in registry realm.
func c12Authorized(keys []ec.Key, creator int, path string) bool {
	segs := strings.Split(path, "/")
	if len(segs) < 3 {
		return false
	}
	switch ns := segs[2]; ns {
	case "c12", "vv", "sys":
		return true
	case "alice":
		return creator == 0
	case "bob":
		return creator == 1
	}
	return false
}

func c12NamesSrc(keys []ec.Key) string {
	return fmt.Sprintf(`package names

var owners = map[string]string{"alice": %q, "bob": %q}

func IsAuthorizedAddressForNamespace(addr address, ns string) bool {
	if ns == "c12" || ns == "vv" || ns == "sys" {
		return true
	}
	o, ok := owners[ns]
	return ok && o == string(addr)
}
`, keys[0].Addr.String(), keys[1].Addr.String())
}

type c12Entry struct {
	files   map[string]string // name -> body as submitted (gnomod.toml: as first observed)
	private bool
	creator string
	height  int64
	blobs   map[string][]byte // pkg: records right after the deployment
}

type c12Env struct {
	c        *ec.Chain
	keys     []ec.Key
	tsec     int64
	basePkg  map[string][]byte
	pstSnap  string
	pstObjs  map[string][]byte
	pstPref  string
	registry bool
}

func c12Setup(registry bool) (*c12Env, error) {
	e := &c12Env{keys: ec.Keys(3), tsec: 1, registry: registry}
	c, _, err := ec.New(nil, ec.GenesisWithBalances(1e14, e.keys...), ec.Options{})
	if err != nil {
		return nil, err
	}
	e.c = c
	c.Begin(e.tsec)
	deps := [][2]string{{c12PathPst, c12SrcPst}, {c12PathMutr, c12MutrSrc()}}
	if registry {
		deps = append(deps, [2]string{c12PathNames, c12NamesSrc(e.keys)})
	}
	for _, d := range deps {
		if err := c13Deploy(c, e.keys[0], d[0], d[1]); err != nil {
			return nil, err
		}
	}
	c.End()
	pid := gnolang.PkgIDFromPkgPath(c12PathPst)
	e.pstPref = "oid:" + hex.EncodeToString(pid.Hashlet[:]) + ":"
	return e, nil
}

func c12PkgRecords(d ec.Dump) map[string][]byte {
	out := map[string][]byte{}
	for _, kv := range d["main"] {
		if bytes.HasPrefix(kv[0], []byte("pkg:")) {
			out[string(kv[0])] = kv[1]
		}
	}
	return out
}

func (e *c12Env) pstState() (string, map[string][]byte, error) {
	s, err := e.c.QEval(c12PathPst, "Snapshot()")
	if err != nil {
		return "", nil, fmt.Errorf("harness: qeval Snapshot: %v", err)
	}
	d, err := e.c.Dump()
	if err != nil {
		return "", nil, err
	}
	objs := map[string][]byte{}
	for _, kv := range d["base"] {
		if bytes.HasPrefix(kv[0], []byte(e.pstPref)) {
			objs[string(kv[0])] = kv[1]
		}
	}
	return s, objs, nil
}

func (e *c12Env) qfile(path string) (string, error) {
	r := e.c.Query("vm/qfile", []byte(path))
	if r.Error != nil {
		return "", fmt.Errorf("%v", r.Error)
	}
	return string(r.Data), nil
}

func c12Exec(ctx *vk.Ctx, c c12Case) error {
	e, err := c12Setup(c.Registry)
	if err != nil {
		return err
	}
	ch := e.c
	rd, err := ec.OpenReader(ch.DB)
	if err != nil {
		return err
	}
	e.basePkg = c12PkgRecords(rd.MainDump())
	if e.pstSnap, e.pstObjs, err = e.pstState(); err != nil {
		return err
	}
	if !strings.Contains(e.pstSnap, c12PstBaseline) {
		return fmt.Errorf("harness: unexpected initial state of %s: %s", c12PathPst, e.pstSnap)
	}
	if len(e.pstObjs) < 5 {
		return fmt.Errorf("harness: only %d persisted objects found for %s", len(e.pstObjs), c12PathPst)
	}
	ctx.ClassIf(c.Registry, "registry")
	model := map[string]*c12Entry{}
	nt := false
	for i, op := range c.Ops {
		creator := e.keys[op.Creator%len(e.keys)]
		e.tsec += 5
		ch.Begin(e.tsec)
		height := ch.Height + 1
		label := fmt.Sprintf("op %d %+v", i, op)
		switch op.Kind {
		case "mutp":
			var msg std.Msg
			if op.Via == "realm" {
				msg = ec.Call(creator.Addr, c12PathMutr, "Do", []string{strconv.Itoa(op.Attack), strconv.FormatBool(op.Obs || op.Attack == 102)}, nil)
			} else {
				body := "package main\n\nimport \"" + c12PathPst + "\"\n\nfunc main() {\n\t" + strings.ReplaceAll(c12Attacks[op.Attack%len(c12Attacks)], "; ", "\n\t") + "\n\t" + map[bool]string{true: c12Observe, false: ""}[op.Obs] + "\n}\n"
				msg = vm.NewMsgRun(creator.Addr, nil, []*std.MemFile{{Name: "main.gno", Body: body}})
			}
			r, _, err := ch.Send([]std.Msg{msg}, 80_000_000, 1_000_000, creator)
			ch.End()
			if err != nil {
				return fmt.Errorf("harness: %v", err)
			}
			ctx.Class("mutp/" + op.Via)
			ctx.ClassIf(r.Error == nil, "mutp-tx-succeeded")
			if r.Error != nil && strings.Contains(r.Log+r.Error.Error(), "immutable") {
				ctx.Class("mutp-refused-immutable")
			} else if r.Error != nil && strings.Contains(r.Log+r.Error.Error(), "readonly") {
				ctx.Class("mutp-refused-readonly")
			}
			nt = true
			if r.Error != nil && strings.Contains(r.Log+r.Error.Error(), "P-STATE-MUTATED") {
				return fmt.Errorf("%s: inside the transaction the state of %s was observed changed after initialization: %.300s", label, c12PathPst, r.Error.Error()+" "+r.Log)
			}
			snap, objs, err := e.pstState()
			if err != nil {
				return err
			}
			if snap != e.pstSnap {
				return fmt.Errorf("%s: state of %s changed after initialization: %q -> %q (tx err=%v)", label, c12PathPst, e.pstSnap, snap, r.Error)
			}
			if d := c12DiffMaps(e.pstObjs, objs); d != "" {
				return fmt.Errorf("%s: persisted objects of %s changed after initialization: %s (tx err=%v)", label, c12PathPst, d, r.Error)
			}
		case "deploy":
			msgs := make([]std.Msg, len(op.Deploys))
			for j, d := range op.Deploys {
				msgs[j] = c12Msg(creator, d)
			}
			r, _, err := ch.Send(msgs, 200_000_000, 1_000_000, creator)
			ch.End()
			if err != nil {
				return fmt.Errorf("harness: %v", err)
			}
			accepted := r.Error == nil
			touched := map[string]bool{}
			if accepted {
				for j, d := range op.Deploys {
					prev := model[d.Path]
					lab := fmt.Sprintf("%s msg %d", label, j)
					isRealm, ok := c12ValidPath(d.Path)
					if !ok {
						return fmt.Errorf("%s: deployment accepted at %q, which is not a valid path under the chain domain", lab, d.Path)
					}
					if c.Registry && !c12Authorized(e.keys, op.Creator, d.Path) {
						return fmt.Errorf("%s: deployment by %s accepted in a namespace the registry does not grant to it", lab, creator.Addr)
					}
					if _, setup := e.basePkg["pkg:"+d.Path]; setup {
						return fmt.Errorf("%s: the public package %q deployed during setup was replaced", lab, d.Path)
					}
					if prev != nil && !prev.private {
						return fmt.Errorf("%s: public package %q (deployed at height %d) was replaced", lab, d.Path, prev.height)
					}
					if prev != nil && prev.private && !d.Private {
						return fmt.Errorf("%s: private package %q was overridden by a public one", lab, d.Path)
					}
					if d.Private && !isRealm {
						return fmt.Errorf("%s: a private /p/ package was accepted", lab)
					}
					if prev != nil {
						nt = true
						ctx.Class("private-redeploy-accepted")
						hadTests := false
						for n := range prev.files {
							hadTests = hadTests || strings.HasSuffix(n, "_test.gno") || strings.HasSuffix(n, "_filetest.gno")
						}
						ctx.ClassIf(hadTests && (d.Files == 0 || d.Files == 2), "private-redeploy-drops-test-files")
					}
					ent := &c12Entry{files: map[string]string{}, private: d.Private, creator: creator.Addr.String(), height: height}
					for _, f := range c12Files(d) {
						ent.files[f.Name] = f.Body
					}
					model[d.Path] = ent
					touched[d.Path] = true
					ctx.Class(map[bool]string{true: "accepted-private", false: "accepted-public"}[d.Private])
				}
			} else {
				for _, d := range op.Deploys {
					if model[d.Path] != nil {
						nt = true
						ctx.Class(map[bool]string{true: "collision-refused-on-private", false: "collision-refused-on-public"}[model[d.Path].private])
					}
					if _, ok := c12ValidPath(d.Path); !ok {
						ctx.Class("refused-hostile-path")
						if dom, _, _ := strings.Cut(d.Path, "/"); dom != c12ChainDomain && (strings.HasPrefix(dom, c12ChainDomain) || strings.HasSuffix(dom, c12ChainDomain)) {
							ctx.Class("refused-domain-has-chain-domain-as-affix")
						}
					} else if c.Registry && !c12Authorized(e.keys, op.Creator, d.Path) {
						ctx.Class("refused-valid-path-unauthorized-creator")
					}
				}
				ctx.Class("deploy-tx-refused")
			}
			// storage level: exactly the modelled packages exist, byte-stable.
			rd, err := ec.OpenReader(ch.DB)
			if err != nil {
				return err
			}
			recs := c12PkgRecords(rd.MainDump())
			want := map[string]bool{}
			for k := range e.basePkg {
				want[k] = true
			}
			for p, ent := range model {
				hasProd, hasRest := false, false
				for n := range ent.files {
					if strings.HasSuffix(n, "_test.gno") || strings.HasSuffix(n, "_filetest.gno") {
						hasRest = true
					} else if strings.HasSuffix(n, ".gno") {
						hasProd = true
					}
				}
				if hasProd {
					want["pkg:"+p] = true
				}
				if hasRest {
					want["pkg:"+p+"#allbutprod"] = true
				}
			}
			for k := range recs {
				if !want[k] {
					return fmt.Errorf("%s (accepted=%v): unexpected package record %q in the store", label, accepted, k)
				}
			}
			for k := range want {
				if _, ok := recs[k]; !ok {
					return fmt.Errorf("%s (accepted=%v): package record %q missing from the store", label, accepted, k)
				}
			}
			for k, v := range e.basePkg {
				if !bytes.Equal(recs[k], v) {
					return fmt.Errorf("%s: record %q of a package deployed during setup changed", label, k)
				}
			}
			for p, ent := range model {
				if touched[p] {
					ent.blobs = map[string][]byte{}
					for _, k := range []string{"pkg:" + p, "pkg:" + p + "#allbutprod"} {
						if v, ok := recs[k]; ok {
							ent.blobs[k] = v
						}
					}
					continue
				}
				for k, v := range ent.blobs {
					if !bytes.Equal(recs[k], v) {
						return fmt.Errorf("%s: stored record %q changed after its deployment at height %d", label, k, ent.height)
					}
				}
			}
			// query level
			paths := make([]string, 0, len(model))
			for p := range model {
				paths = append(paths, p)
			}
			sort.Strings(paths)
			for _, p := range paths {
				if err := e.checkQueries(p, model[p], touched[p]); err != nil {
					return fmt.Errorf("%s: %v", label, err)
				}
			}
			for _, d := range op.Deploys {
				if _, setup := e.basePkg["pkg:"+d.Path]; model[d.Path] == nil && !setup {
					if _, ok := c12ValidPath(d.Path); ok {
						if got, err := e.qfile(d.Path); err == nil {
							return fmt.Errorf("%s: vm/qfile lists files %q for %q although no deployment there was accepted", label, got, d.Path)
						}
					}
				}
			}
		default:
			return fmt.Errorf("harness: bad op kind")
		}
	}
	ctx.NTIf(nt)
	return nil
}

func (e *c12Env) checkQueries(p string, ent *c12Entry, fresh bool) error {
	names := make([]string, 0, len(ent.files))
	for n := range ent.files {
		names = append(names, n)
	}
	sort.Strings(names)
	got, err := e.qfile(p)
	if err != nil {
		return fmt.Errorf("vm/qfile %q failed: %v", p, err)
	}
	if got != strings.Join(names, "\n") {
		return fmt.Errorf("vm/qfile %q lists %q, deployed file set is %q", p, got, strings.Join(names, "\n"))
	}
	for _, n := range names {
		body, err := e.qfile(p + "/" + n)
		if err != nil {
			return fmt.Errorf("vm/qfile %q failed: %v", p+"/"+n, err)
		}
		if n == "gnomod.toml" && fresh {
			for _, must := range []string{fmt.Sprintf("module = %q", p), fmt.Sprintf("creator = %q", ent.creator), fmt.Sprintf("height = %d", ent.height)} {
				if !strings.Contains(body, must) {
					return fmt.Errorf("gnomod.toml of %q lacks %q:\n%s", p, must, body)
				}
			}
			if strings.Contains(body, "private = true") != ent.private {
				return fmt.Errorf("gnomod.toml of %q: private flag does not match the deployment (want %v):\n%s", p, ent.private, body)
			}
			ent.files[n] = body
			continue
		}
		if body != ent.files[n] {
			return fmt.Errorf("vm/qfile %q returns %q, deployed source is %q", p+"/"+n, body, ent.files[n])
		}
	}
	return nil
}

func c12DiffMaps(a, b map[string][]byte) string {
	var out []string
	for k, v := range a {
		if w, ok := b[k]; !ok {
			out = append(out, k+" deleted")
		} else if !bytes.Equal(v, w) {
			out = append(out, k+" changed")
		}
	}
	for k := range b {
		if _, ok := a[k]; !ok {
			out = append(out, k+" created")
		}
	}
	sort.Strings(out)
	return strings.Join(out, "; ")
}

func TestC12_CodeImmutable(t *testing.T) {
	vk.Run(t, vk.Spec[c12Case]{
		ID: "C12", Name: "TestC12_CodeImmutable",
		Rule: "rapid: 4-10 transactions (one per block) on the real app, with or without a namespace registry realm at gno.land/r/sys/names: add-package txs of 1-2 messages over 12 colliding base paths (/r/, /p/, versioned, three namespaces) 26 confused domains (chain domain as strict prefix/suffix of the host name, case, trailing dot, port) and ~45 hostile variants (case, '/', '//', '..', unicode look-alike, _test/_filetest, /e/ run paths, other domains, '#', ':', NUL, %-escapes, over-long, bad separators), 6 file sets (prod only, with _test, several files + README, test-only, with _filetest, LICENSE), 4 content versions, public/private, 3 creators, mismatching package names; interleaved with 21 kinds of writes to the state of a /p/ package from MsgRun and from a realm; non-trivial = an accepted deployment was followed by a colliding attempt on the same path, or a /p/ mutation attempt ran",
		Draw: c12Draw,
		Exec: c12Exec,
	})
}
