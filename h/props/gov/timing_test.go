package gov

import (
	"strings"
	"github.com/gnolang/gno/gno.land/pkg/sdk/vm"
	ec "verif/eng/chain"
	"github.com/gnolang/gno/tm2/pkg/std"
	"fmt"
	"testing"
	"time"
)

func TestTimingC13(t *testing.T) {
	for i := 0; i < 3; i++ {
		t0 := time.Now()
		e, err := c13Setup()
		if err != nil {
			t.Fatal(err)
		}
		t1 := time.Now()
		_, _, _ = c13Snap(e.c)
		t2 := time.Now()
		e.c.Begin(100)
		e.c.End()
		t3 := time.Now()
		fmt.Printf("setup=%v snap=%v emptyblock=%v\n", t1.Sub(t0), t2.Sub(t1), t3.Sub(t2))
	}
}

func TestDebugC53(t *testing.T) {
	c := c53Case{
		Bals:      []c53Bal{{Acc: 1, Coins: []c53Coin{{"ugnot", 5000000}}}, {Acc: 0, Coins: []c53Coin{{"ugnot", 10_000_000_000_000}}}},
		Txs:       []c53Tx{{Kind: "addpkg", Gas: 100_000_000}, {Kind: "call", Gas: 100_000_000, Meta: 2, H: 5, TS: 1700000000}, {Kind: "call-bad", Gas: 100_000_000}, {Kind: "setparam", Gas: 100_000_000}, {Kind: "send", Gas: 100_000_000, Meta: 4, H: 7}},
		MaxMemo:   65536,
		StoragePr: "100ugnot",
		DocIH:     5,
	}
	for i := 0; i < 2; i++ {
		t0 := time.Now()
		r, err := c53Apply(c53Build(c))
		fmt.Printf("apply took %v err=%v load=%q init=%q ih=%d hash=%s\n", time.Since(t0), err, r.LoadErr, r.InitErr, r.IH, r.AppHash)
		for _, x := range r.Txs {
			fmt.Printf("   tx: err=%.100q gas=%d/%d log=%.100q\n", x.Err, x.GasUsed, x.GasWanted, x.Log)
		}
	}
}

func TestDebugC12(t *testing.T) {
	for _, reg := range []bool{false, true} {
		e, err := c12Setup(reg)
		if err != nil {
			t.Fatal(err)
		}
		s, objs, err := e.pstState()
		fmt.Printf("registry=%v pst snapshot=%q objs=%d err=%v\n", reg, s, len(objs), err)
		for i, d := range []c12Deploy{
			{Path: "gno.land/r/c12/aa", Name: "aa", Files: 0},
			{Path: "gno.land/r/c12/bb", Name: "bb", Files: 1, Private: true},
			{Path: "gno.land/p/c12/aa", Name: "aa", Files: 2},
			{Path: "gno.land/r/c12/aa/v2", Name: "aa", Files: 4},
			{Path: "gno.land/r/alice/xx", Name: "xx", Files: 5},
			{Path: "gno.land/r/c12/sub-x_y/aa", Name: "aa", Files: 3},
			{Path: "gno.land/r/c12/bb", Name: "bb", Files: 0, Private: true, Ver: 1},
			{Path: "gno.land/r/c12/bb", Name: "bb", Files: 0, Private: false, Ver: 2},
		} {
			e.tsec += 5
			e.c.Begin(e.tsec)
			r, _, err := e.c.Send([]std.Msg{c12Msg(e.keys[0], d)}, 200_000_000, 1_000_000, e.keys[0])
			e.c.End()
			fmt.Printf("  deploy %d %+v: err=%v resp=%v gas=%d\n", i, d, err, r.Error, r.GasUsed)
			if r.Error != nil {
				fmt.Printf("     log=%.300s\n", r.Log)
			} else {
				l, _ := e.qfile(d.Path)
				m, _ := e.qfile(d.Path + "/gnomod.toml")
				fmt.Printf("     files=%q\n     gnomod=%q\n", l, m)
			}
		}
	}
}

func TestDebugC12Attacks(t *testing.T) {
	e, err := c12Setup(false)
	if err != nil {
		t.Fatal(err)
	}
	for _, via := range []string{"run", "realm"} {
		for a := 0; a < len(c12Attacks)+3; a++ {
			att := a
			if a >= len(c12Attacks) {
				att = 100 + a - len(c12Attacks)
			}
			if via == "realm" && att >= c12NRealmAttacks && att < 100 {
				continue
			}
			if via == "run" && att >= 100 {
				continue
			}
			var msg std.Msg
			if via == "realm" {
				msg = ec.Call(e.keys[0].Addr, c12PathMutr, "Do", []string{fmt.Sprint(att), "true"}, nil)
			} else {
				body := "package main\n\nimport \"" + c12PathPst + "\"\n\nfunc main() {\n\t" + strings.ReplaceAll(c12Attacks[att], "; ", "\n\t") + "\n\t" + c12Observe + "\n}\n"
				msg = vm.NewMsgRun(e.keys[0].Addr, nil, []*std.MemFile{{Name: "main.gno", Body: body}})
			}
			e.tsec += 5
			e.c.Begin(e.tsec)
			r, _, _ := e.c.Send([]std.Msg{msg}, 80_000_000, 1_000_000, e.keys[0])
			e.c.End()
			es := "<ok>"
			if r.Error != nil {
				es = r.Error.Error()
			}
			snap, _, _ := e.pstState()
			name := fmt.Sprint(att)
			if att < len(c12Attacks) {
				name = c12Attacks[att]
			}
			fmt.Printf("%-5s %-36s -> %.110s | persisted-same=%v\n", via, name, strings.ReplaceAll(es, "\n", " "), snap == e.pstSnapOrInit(snap))
		}
	}
}
