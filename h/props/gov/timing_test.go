package gov

import (
	"fmt"
	"testing"
	"time"
)

func TestTimingC13(t *testing.T) {
	for i := 0; i < 3; i++ {
		t0 := time.Now()
		e, err := c13Setup()
		if err != nil {
			t.Fatal(err)
		}
		t1 := time.Now()
		_, _, _ = c13Snap(e.c)
		t2 := time.Now()
		e.c.Begin(100)
		e.c.End()
		t3 := time.Now()
		fmt.Printf("setup=%v snap=%v emptyblock=%v\n", t1.Sub(t0), t2.Sub(t1), t3.Sub(t2))
	}
}

func TestDebugC53(t *testing.T) {
	c := c53Case{
		Bals:      []c53Bal{{Acc: 1, Coins: []c53Coin{{"ugnot", 5000000}}}, {Acc: 0, Coins: []c53Coin{{"ugnot", 10_000_000_000_000}}}},
		Txs:       []c53Tx{{Kind: "addpkg", Gas: 100_000_000}, {Kind: "call", Gas: 100_000_000, Meta: 2, H: 5, TS: 1700000000}, {Kind: "call-bad", Gas: 100_000_000}, {Kind: "setparam", Gas: 100_000_000}, {Kind: "send", Gas: 100_000_000, Meta: 4, H: 7}},
		MaxMemo:   65536,
		StoragePr: "100ugnot",
		DocIH:     5,
	}
	for i := 0; i < 2; i++ {
		t0 := time.Now()
		r, err := c53Apply(c53Build(c))
		fmt.Printf("apply took %v err=%v load=%q init=%q ih=%d hash=%s\n", time.Since(t0), err, r.LoadErr, r.InitErr, r.IH, r.AppHash)
		for _, x := range r.Txs {
			fmt.Printf("   tx: err=%.100q gas=%d/%d log=%.100q\n", x.Err, x.GasUsed, x.GasWanted, x.Log)
		}
	}
}
