package gov

import (
	"github.com/gnolang/gno/tm2/pkg/std"
	"fmt"
	"testing"
	"time"
)

func TestTimingC13(t *testing.T) {
	for i := 0; i < 3; i++ {
		t0 := time.Now()
		e, err := c13Setup()
		if err != nil {
			t.Fatal(err)
		}
		t1 := time.Now()
		_, _, _ = c13Snap(e.c)
		t2 := time.Now()
		e.c.Begin(100)
		e.c.End()
		t3 := time.Now()
		fmt.Printf("setup=%v snap=%v emptyblock=%v\n", t1.Sub(t0), t2.Sub(t1), t3.Sub(t2))
	}
}

func TestDebugC53(t *testing.T) {
	c := c53Case{
		Bals:      []c53Bal{{Acc: 1, Coins: []c53Coin{{"ugnot", 5000000}}}, {Acc: 0, Coins: []c53Coin{{"ugnot", 10_000_000_000_000}}}},
		Txs:       []c53Tx{{Kind: "addpkg", Gas: 100_000_000}, {Kind: "call", Gas: 100_000_000, Meta: 2, H: 5, TS: 1700000000}, {Kind: "call-bad", Gas: 100_000_000}, {Kind: "setparam", Gas: 100_000_000}, {Kind: "send", Gas: 100_000_000, Meta: 4, H: 7}},
		MaxMemo:   65536,
		StoragePr: "100ugnot",
		DocIH:     5,
	}
	for i := 0; i < 2; i++ {
		t0 := time.Now()
		r, err := c53Apply(c53Build(c))
		fmt.Printf("apply took %v err=%v load=%q init=%q ih=%d hash=%s\n", time.Since(t0), err, r.LoadErr, r.InitErr, r.IH, r.AppHash)
		for _, x := range r.Txs {
			fmt.Printf("   tx: err=%.100q gas=%d/%d log=%.100q\n", x.Err, x.GasUsed, x.GasWanted, x.Log)
		}
	}
}

func TestDebugC12(t *testing.T) {
	for _, reg := range []bool{false, true} {
		e, err := c12Setup(reg)
		if err != nil {
			t.Fatal(err)
		}
		s, objs, err := e.pstState()
		fmt.Printf("registry=%v pst snapshot=%q objs=%d err=%v\n", reg, s, len(objs), err)
		for i, d := range []c12Deploy{
			{Path: "gno.land/r/c12/aa", Name: "aa", Files: 0},
			{Path: "gno.land/r/c12/bb", Name: "bb", Files: 1, Private: true},
			{Path: "gno.land/p/c12/aa", Name: "aa", Files: 2},
			{Path: "gno.land/r/c12/aa/v2", Name: "aa", Files: 4},
			{Path: "gno.land/r/alice/xx", Name: "xx", Files: 5},
			{Path: "gno.land/r/c12/sub-x_y/aa", Name: "aa", Files: 3},
			{Path: "gno.land/r/c12/bb", Name: "bb", Files: 0, Private: true, Ver: 1},
			{Path: "gno.land/r/c12/bb", Name: "bb", Files: 0, Private: false, Ver: 2},
		} {
			e.tsec += 5
			e.c.Begin(e.tsec)
			r, _, err := e.c.Send([]std.Msg{c12Msg(e.keys[0], d)}, 200_000_000, 1_000_000, e.keys[0])
			e.c.End()
			fmt.Printf("  deploy %d %+v: err=%v resp=%v gas=%d\n", i, d, err, r.Error, r.GasUsed)
			if r.Error != nil {
				fmt.Printf("     log=%.300s\n", r.Log)
			} else {
				l, _ := e.qfile(d.Path)
				m, _ := e.qfile(d.Path + "/gnomod.toml")
				fmt.Printf("     files=%q\n     gnomod=%q\n", l, m)
			}
		}
	}
}
