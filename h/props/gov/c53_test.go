package gov

import (
	"encoding/hex"
	"fmt"
	"os"
	"path/filepath"
	"regexp"
	"strconv"
	"strings"
	"testing"
	"time"

	"github.com/gnolang/gno/gno.land/pkg/gnoland"
	"github.com/gnolang/gno/gno.land/pkg/sdk/vm"
	"github.com/gnolang/gno/tm2/pkg/amino"
	abci "github.com/gnolang/gno/tm2/pkg/bft/abci/types"
	bft "github.com/gnolang/gno/tm2/pkg/bft/types"
	"github.com/gnolang/gno/tm2/pkg/crypto/ed25519"
	"github.com/gnolang/gno/tm2/pkg/db/memdb"
	"github.com/gnolang/gno/tm2/pkg/log"
	"github.com/gnolang/gno/tm2/pkg/sdk"
	"github.com/gnolang/gno/tm2/pkg/sdk/bank"
	sdkparams "github.com/gnolang/gno/tm2/pkg/sdk/params"
	"github.com/gnolang/gno/tm2/pkg/std"
	"pgregory.net/rapid"
	ec "verif/eng/chain"
	"verif/vk"
)

// C53 — genesis application is deterministic and representation-independent.
//
// One generated genesis document is applied four times to fresh applications:
// twice with the in-memory GnoGenesisState, twice after being written to a
// genesis.json and loaded back through LoadStreamingGenesisDoc (first with a
// cold cache, then with the warm cache). The InitChain request is built from
// the document exactly as the consensus handshaker does. All four runs must
// agree on the InitChain outcome, every genesis tx response, the app hash of
// the first commit and the full committed state.

type c53Coin struct {
	Denom string `json:"d"`
	Amt   int64  `json:"a"`
}

type c53Bal struct {
	Acc   int       `json:"acc"`
	Coins []c53Coin `json:"coins"`
	Vest  int       `json:"vest,omitempty"` // 0 none, 1 continuous, 2 delayed
	VAmt  int64     `json:"vamt,omitempty"`
	Start int64     `json:"start,omitempty"`
	End   int64     `json:"end,omitempty"`
}

type c53Tx struct {
	Kind   string `json:"kind"` // addpkg | addpkg-bad | addpkg-dup | call | call-bad | send | send-bad | run | setparam
	Signer int    `json:"signer"`
	Arg    int    `json:"arg"`
	Gas    int64  `json:"gas"`
	Meta   int    `json:"meta"` // 0 none, 1 timestamp only, 2 historical, 3 historical+failed, 4 historical+signer info, 5 empty metadata
	TS     int64  `json:"ts,omitempty"`
	H      int64  `json:"h,omitempty"`
	Chain  int    `json:"chain,omitempty"` // 0 none, 1 past chain id, 2 unknown chain id
	Memo   string `json:"memo,omitempty"`
}

type c53RP struct {
	Realm int    `json:"realm"`
	Name  string `json:"name"`
	Type  string `json:"type"`
	Val   string `json:"val"`
}

type c53Case struct {
	Bals        []c53Bal `json:"bals"`
	Txs         []c53Tx  `json:"txs"`
	MaxMemo     int64    `json:"max_memo"`
	Unrestrict  []int    `json:"unrestrict,omitempty"`
	Restricted  []string `json:"restricted,omitempty"`
	StoragePr   string   `json:"storage_price"`
	RealmParams []c53RP  `json:"realm_params,omitempty"`
	Past        bool     `json:"past"`
	GasMode     string   `json:"gas_mode,omitempty"`
	DocIH       int64    `json:"doc_ih,omitempty"`
	AppIH       int64    `json:"app_ih,omitempty"`
	NVals       int      `json:"nvals"`
	Indent      bool     `json:"indent"`
	Invalid     string   `json:"invalid,omitempty"` // "" | signerinfo-collision | initial-height-mismatch | gas-mode
	Big         *c53Big  `json:"big,omitempty"`
}

// c53Big is one genesis tx padded so that its compact JSON encoding (one line
// of the streaming cache) is exactly Line bytes long.
type c53Big struct {
	Kind string `json:"kind"` // readme: realm deployment with a padded README.md | memo: bank send with a padded memo
	Line int    `json:"line"` // length of the element's JSON encoding in bytes
	Pos  int    `json:"pos"`  // 0 first, 1 middle, 2 last among the genesis txs
}

const c53ChainID = "verif-g53"

var c53T0 = time.Date(2026, 3, 1, 12, 0, 0, 0, time.UTC)

func c53Keys() []ec.Key { return ec.Keys(6) }

const c53Realm = `package %s

import (
	"chain/params"
	"chain/runtime"
	"strconv"
	"time"
)

var N int
var Log []string

func init() { N = %d; note("init") }

// note records what the transaction sees of its block context, so that the
// per-tx metadata overrides (chain id, height, time) become part of the state.
func note(what string) {
	Log = append(Log, what+"@"+runtime.ChainID()+"/"+strconv.FormatInt(runtime.ChainHeight(), 10)+"/"+strconv.FormatInt(time.Now().Unix(), 10))
}

func Add(cur realm, n int) int {
	N += n
	note("add")
	return N
}

func SetP(cur realm, v string) { params.SetString("k", v) }

func Boom(cur realm) { N++; panic("boom") }
`

func c53Draw(rt *rapid.T) c53Case {
	c := c53Case{}
	nb := rapid.IntRange(1, 8).Draw(rt, "nbal")
	for i := 0; i < nb; i++ {
		b := c53Bal{Acc: rapid.IntRange(0, 5).Draw(rt, "acc")}
		b.Coins = append(b.Coins, c53Coin{"ugnot", rapid.SampledFrom([]int64{1, 5_000_000, 10_000_000_000_000}).Draw(rt, "ugnot")})
		if rapid.IntRange(0, 2).Draw(rt, "multi") == 0 {
			b.Coins = append([]c53Coin{{"atom", rapid.Int64Range(1, 1000).Draw(rt, "atom")}}, b.Coins...)
		}
		if rapid.IntRange(0, 7).Draw(rt, "empty") == 0 {
			b.Coins = nil
		}
		if len(b.Coins) > 0 {
			b.Vest = rapid.SampledFrom([]int{0, 0, 0, 1, 2}).Draw(rt, "vest")
		}
		if b.Vest != 0 {
			ug := b.Coins[len(b.Coins)-1].Amt
			b.VAmt = rapid.SampledFrom([]int64{1, ug/2 + 1, ug}).Draw(rt, "vamt")
			if b.VAmt > ug {
				b.VAmt = ug
			}
			b.Start = rapid.SampledFrom([]int64{0, 100, 1772366400}).Draw(rt, "start")
			b.End = b.Start + rapid.SampledFrom([]int64{1, 1000, 400000000}).Draw(rt, "dur")
		}
		c.Bals = append(c.Bals, b)
	}
	// make sure account 0 is rich enough to pay for txs
	c.Bals = append(c.Bals, c53Bal{Acc: 0, Coins: []c53Coin{{"ugnot", 10_000_000_000_000}}})
	nt := rapid.IntRange(0, 7).Draw(rt, "ntx")
	for i := 0; i < nt; i++ {
		tx := c53Tx{
			Kind:   rapid.SampledFrom([]string{"addpkg", "addpkg", "addpkg-bad", "addpkg-dup", "call", "call", "call-bad", "send", "send-bad", "run", "setparam"}).Draw(rt, "kind"),
			Signer: rapid.SampledFrom([]int{0, 0, 0, 1, 2}).Draw(rt, "signer"),
			Arg:    rapid.IntRange(0, 3).Draw(rt, "arg"),
			Gas:    rapid.SampledFrom([]int64{100_000_000, 100_000_000, 100_000_000, 3_000_000, 50_000}).Draw(rt, "gas"),
			Meta:   rapid.SampledFrom([]int{0, 0, 1, 2, 2, 3, 4, 5}).Draw(rt, "meta"),
			Memo:   rapid.SampledFrom([]string{"", "", "m", "unicode é <&> \" \\ \n tab\t"}).Draw(rt, "memo"),
		}
		if tx.Meta != 0 && tx.Meta != 5 {
			tx.TS = rapid.SampledFrom([]int64{0, 1, 1700000000, 1772366400 + 86400}).Draw(rt, "ts")
		}
		if tx.Meta >= 2 && tx.Meta <= 4 {
			tx.H = rapid.Int64Range(1, 500).Draw(rt, "h")
			tx.Chain = rapid.IntRange(0, 2).Draw(rt, "chain")
		}
		c.Txs = append(c.Txs, tx)
	}
	c.MaxMemo = rapid.SampledFrom([]int64{65536, 65536, 10, 300}).Draw(rt, "maxmemo")
	if rapid.IntRange(0, 3).Draw(rt, "unr") == 0 {
		c.Unrestrict = []int{0} // account 0's last balance entry is a plain (non-vesting) one: applyUnrestrictedAddrs requires a GnoAccount
	}
	c.Restricted = rapid.SampledFrom([][]string{nil, nil, {"atom"}, {"ugnot"}}).Draw(rt, "restricted")
	c.StoragePr = rapid.SampledFrom([]string{"100ugnot", "100ugnot", "1ugnot", "250ugnot"}).Draw(rt, "sp")
	nrp := rapid.IntRange(0, 3).Draw(rt, "nrp")
	for i := 0; i < nrp; i++ {
		ty := rapid.SampledFrom([]string{"string", "int64", "uint64", "bool", "bytes", "strings"}).Draw(rt, "rpt")
		rp := c53RP{Realm: rapid.IntRange(0, 3).Draw(rt, "rprealm"), Name: rapid.SampledFrom([]string{"k", "limit", "a_b"}).Draw(rt, "rpname"), Type: ty}
		switch ty {
		case "string":
			rp.Val = rapid.SampledFrom([]string{"v", "hello world", "a=b", "x.y", "é"}).Draw(rt, "rpv")
		case "int64":
			rp.Val = rapid.SampledFrom([]string{"0", "-7", "9223372036854775807"}).Draw(rt, "rpv")
		case "uint64":
			rp.Val = rapid.SampledFrom([]string{"0", "7", "18446744073709551615"}).Draw(rt, "rpv")
		case "bool":
			rp.Val = rapid.SampledFrom([]string{"true", "false"}).Draw(rt, "rpv")
		case "bytes":
			rp.Val = rapid.SampledFrom([]string{"00", "deadbeef", "ff"}).Draw(rt, "rpv")
		case "strings":
			rp.Val = rapid.SampledFrom([]string{"a", "a,b", "x y,z"}).Draw(rt, "rpv")
		}
		c.RealmParams = append(c.RealmParams, rp)
	}
	c.Past = rapid.Bool().Draw(rt, "past")
	c.GasMode = rapid.SampledFrom([]string{"", "", "strict", "source"}).Draw(rt, "gasmode")
	c.NVals = rapid.IntRange(0, 2).Draw(rt, "nvals")
	// element-size family: one tx whose JSON line sits at a common buffer boundary
	if rapid.IntRange(0, 2).Draw(rt, "big?") != 0 {
		bounds := []int{4 << 10, 64 << 10, 64 << 10, 1 << 20, 1 << 20, 1 << 20, 2<<20 + 300_000, 4 << 10}
		offs := []int{-1, 0, 1, 17, -4096, 4096}
		b := &c53Big{Kind: []string{"readme", "memo"}[rapid.IntRange(0, 1).Draw(rt, "bigkind")], Pos: rapid.IntRange(0, 2).Draw(rt, "bigpos")}
		b.Line = bounds[int(rapid.Uint8().Draw(rt, "bigbound"))%len(bounds)] + offs[int(rapid.Uint8().Draw(rt, "bigoff"))%len(offs)]
		if b.Line < 2048 {
			b.Line = 2048
		}
		c.Big = b
	}
	c.Indent = rapid.Bool().Draw(rt, "indent")
	// (rapid favours the ends of a range: the rarer classes sit in the middle)
	switch rapid.IntRange(0, 19).Draw(rt, "ih") {
	case 7, 10:
		c.DocIH = rapid.SampledFrom([]int64{1, 2, 57}).Draw(rt, "docih")
	case 13:
		c.DocIH = rapid.SampledFrom([]int64{1, 2, 57}).Draw(rt, "docih")
		c.AppIH = c.DocIH
	}
	switch rapid.IntRange(0, 15).Draw(rt, "invalid") - 6 {
	case 0:
		c.Invalid = "signerinfo-collision"
		c.DocIH, c.AppIH = 0, 0
	case 1:
		c.Invalid = "initial-height-mismatch"
		c.DocIH = rapid.SampledFrom([]int64{0, 1}).Draw(rt, "docih2")
		c.AppIH = c.DocIH + 3
	case 2:
		c.Invalid = "gas-mode"
		c.GasMode = "bogus"
		c.DocIH, c.AppIH = 0, 0
	}
	return c
}

// c53Build turns the case into a genesis document (fresh values every call).
func c53Build(c c53Case) *bft.GenesisDoc {
	keys := c53Keys()
	gs := gnoland.DefaultGenState()
	lastIdx := map[string]int{}
	for i, b := range c.Bals {
		addr := keys[b.Acc%len(keys)].Addr
		var coins std.Coins
		for _, x := range b.Coins {
			coins = append(coins, std.NewCoin(x.Denom, x.Amt))
		}
		bal := gnoland.Balance{Address: addr, Amount: coins}
		if b.Vest != 0 && len(coins) > 0 {
			vs := &std.VestingSchedule{OriginalVesting: std.Coins{std.NewCoin("ugnot", b.VAmt)}, StartTime: b.Start, EndTime: b.End}
			if b.Vest == 2 {
				vs.Type = std.VestingDelayed
			}
			bal.Vesting = vs
		}
		gs.Balances = append(gs.Balances, bal)
		lastIdx[addr.String()] = i
	}
	gs.Auth.Params.MaxMemoBytes = c.MaxMemo
	for _, a := range c.Unrestrict {
		gs.Auth.Params.UnrestrictedAddrs = append(gs.Auth.Params.UnrestrictedAddrs, keys[a%len(keys)].Addr)
	}
	gs.Bank.Params.RestrictedDenoms = append([]string{}, c.Restricted...)
	gs.VM.Params.StoragePrice = c.StoragePr
	for _, rp := range c.RealmParams {
		key := "gno.land/r/g53/r" + strconv.Itoa(rp.Realm) + ":" + rp.Name
		var v any
		switch rp.Type {
		case "string":
			v = rp.Val
		case "int64":
			n, _ := strconv.ParseInt(rp.Val, 10, 64)
			v = n
		case "uint64":
			n, _ := strconv.ParseUint(rp.Val, 10, 64)
			v = n
		case "bool":
			v = rp.Val == "true"
		case "bytes":
			bz, _ := hex.DecodeString(rp.Val)
			v = bz
		case "strings":
			v = strings.Split(rp.Val, ",")
		}
		gs.VM.RealmParams = append(gs.VM.RealmParams, sdkparams.NewParam(key, v))
	}
	if c.Past {
		gs.PastChainIDs = []string{"old-chain-1", "old-chain-2"}
	}
	gs.GasReplayMode = c.GasMode
	gs.InitialHeight = c.AppIH

	deployed := 0
	for i, t := range c.Txs {
		k := keys[t.Signer%len(keys)]
		var msg std.Msg
		switch t.Kind {
		case "addpkg":
			name := "r" + strconv.Itoa(t.Arg)
			msg = ec.AddPkg(k.Addr, "gno.land/r/g53/"+name, map[string]string{"a.gno": fmt.Sprintf(c53Realm, name, i)}, nil)
			deployed++
		case "addpkg-dup":
			msg = ec.AddPkg(k.Addr, "gno.land/r/g53/r0", map[string]string{"a.gno": fmt.Sprintf(c53Realm, "r0", 100+i)}, nil)
		case "addpkg-bad":
			name := "bad" + strconv.Itoa(t.Arg)
			msg = ec.AddPkg(k.Addr, "gno.land/r/g53/"+name, map[string]string{"a.gno": "package " + name + "\n\nvar X int = \"s\"\n"}, nil)
		case "call":
			msg = ec.Call(k.Addr, "gno.land/r/g53/r"+strconv.Itoa(t.Arg), "Add", []string{strconv.Itoa(i + 1)}, nil)
		case "call-bad":
			msg = ec.Call(k.Addr, "gno.land/r/g53/r"+strconv.Itoa(t.Arg), "Boom", nil, nil)
		case "setparam":
			msg = ec.Call(k.Addr, "gno.land/r/g53/r"+strconv.Itoa(t.Arg), "SetP", []string{"v" + strconv.Itoa(i)}, nil)
		case "send":
			msg = bank.MsgSend{FromAddress: k.Addr, ToAddress: keys[(t.Signer+1+t.Arg)%len(keys)].Addr, Amount: std.Coins{std.NewCoin("ugnot", int64(1000+i))}}
		case "send-bad":
			msg = bank.MsgSend{FromAddress: k.Addr, ToAddress: keys[5].Addr, Amount: std.Coins{std.NewCoin("atom", 1_000_000_000)}}
		case "run":
			msg = vm.NewMsgRun(k.Addr, nil, []*std.MemFile{{Name: "main.gno", Body: "package main\n\nfunc main() {\n\tprintln(" + strconv.Itoa(i) + ")\n}\n"}})
		}
		tx := std.Tx{Msgs: []std.Msg{msg}, Fee: std.Fee{GasWanted: t.Gas, GasFee: std.NewCoin("ugnot", 1_000_000)}, Signatures: []std.Signature{{}}, Memo: t.Memo}
		tm := gnoland.TxWithMetadata{Tx: tx}
		switch t.Meta {
		case 1:
			tm.Metadata = &gnoland.GnoTxMetadata{Timestamp: t.TS}
		case 2, 3, 4:
			md := &gnoland.GnoTxMetadata{Timestamp: t.TS, BlockHeight: t.H, Failed: t.Meta == 3, GasUsed: 12345, GasWanted: t.Gas}
			switch t.Chain {
			case 1:
				md.ChainID = "old-chain-2"
			case 2:
				md.ChainID = "never-heard-of"
			}
			if t.Meta == 4 {
				num := uint64(1000 + t.Signer)
				if j, ok := lastIdx[k.Addr.String()]; ok {
					num = uint64(j)
				}
				md.SignerInfo = []gnoland.SignerAccountInfo{{Address: k.Addr, AccountNum: num, Sequence: uint64(i + 3)}}
			}
			tm.Metadata = md
		case 5:
			tm.Metadata = &gnoland.GnoTxMetadata{}
		}
		gs.Txs = append(gs.Txs, tm)
	}
	if c.Big != nil {
		mk := func(pad int) gnoland.TxWithMetadata {
			k := keys[0]
			padding := strings.Repeat("x", pad)
			tx := std.Tx{Fee: std.Fee{GasWanted: 2_900_000_000, GasFee: std.NewCoin("ugnot", 100_000_000)}, Signatures: []std.Signature{{}}}
			if c.Big.Kind == "memo" {
				tx.Msgs = []std.Msg{bank.MsgSend{FromAddress: k.Addr, ToAddress: keys[1].Addr, Amount: std.Coins{std.NewCoin("ugnot", 5)}}}
				tx.Memo = padding
			} else {
				tx.Msgs = []std.Msg{ec.AddPkg(k.Addr, "gno.land/r/g53/big", map[string]string{"a.gno": fmt.Sprintf(c53Realm, "big", 7), "README.md": "# big\n" + padding + "\n"}, nil)}
			}
			return gnoland.TxWithMetadata{Tx: tx}
		}
		// pad so that the element's compact JSON is exactly Line bytes ('x' is one byte in JSON)
		base := len(amino.MustMarshalJSON(mk(0)))
		big := mk(max(0, c.Big.Line-base))
		at := map[int]int{0: 0, 1: len(gs.Txs) / 2, 2: len(gs.Txs)}[c.Big.Pos%3]
		gs.Txs = append(gs.Txs[:at], append([]gnoland.TxWithMetadata{big}, gs.Txs[at:]...)...)
	}
	if c.Invalid == "signerinfo-collision" {
		mk := func(k ec.Key, h int64) gnoland.TxWithMetadata {
			return gnoland.TxWithMetadata{
				Tx: std.Tx{Msgs: []std.Msg{bank.MsgSend{FromAddress: k.Addr, ToAddress: keys[0].Addr, Amount: std.Coins{std.NewCoin("ugnot", 1)}}},
					Fee: std.Fee{GasWanted: 10_000_000, GasFee: std.NewCoin("ugnot", 1_000_000)}, Signatures: []std.Signature{{}}},
				Metadata: &gnoland.GnoTxMetadata{Timestamp: 1700000000, BlockHeight: h,
					SignerInfo: []gnoland.SignerAccountInfo{{Address: k.Addr, AccountNum: 7777, Sequence: 1}}},
			}
		}
		gs.Txs = append(gs.Txs, mk(ec.NewKey("g53-x"), 10), mk(ec.NewKey("g53-y"), 11))
	}

	doc := &bft.GenesisDoc{
		GenesisTime:   c53T0,
		ChainID:       c53ChainID,
		InitialHeight: c.DocIH,
		ConsensusParams: abci.ConsensusParams{
			Block: &abci.BlockParams{MaxTxBytes: 1_000_000, MaxDataBytes: 2_000_000, MaxGas: 3_000_000_000, TimeIotaMS: 100},
		},
		AppState: gs,
	}
	for i := 0; i < c.NVals; i++ {
		pk := ed25519.GenPrivKeyFromSecret([]byte("g53-val" + strconv.Itoa(i))).PubKey()
		doc.Validators = append(doc.Validators, bft.GenesisValidator{Address: pk.Address(), PubKey: pk, Power: int64(10 + i), Name: "v" + strconv.Itoa(i)})
	}
	return doc
}

type c53Result struct {
	LoadErr string
	InitErr string
	IH      int64
	Txs     []ec.TxResult
	NVals   int
	AppHash string
	Dump    ec.Dump
}

// c53Apply runs InitChain + the first (empty) block over a fresh app, building
// the request from the document as consensus/replay.go does.
func c53Apply(doc *bft.GenesisDoc) (res c53Result, err error) {
	if e := doc.ValidateAndComplete(); e != nil {
		res.LoadErr = "ValidateAndComplete: " + e.Error()
		return res, nil
	}
	db := memdb.NewMemDB()
	ao := gnoland.TestAppOptions(db)
	ao.GenesisTxResultHandler = gnoland.NoopGenesisTxResultHandler
	ao.Logger = log.NewNoopLogger()
	app, e := gnoland.NewAppWithOptions(ao)
	if e != nil {
		return res, fmt.Errorf("harness: NewAppWithOptions: %v", e)
	}
	ba := app.(*sdk.BaseApp)
	vals := make([]*bft.Validator, len(doc.Validators))
	for i, v := range doc.Validators {
		vals[i] = bft.NewValidator(v.PubKey, v.Power)
	}
	cs := doc.ConsensusParams
	req := abci.RequestInitChain{
		Time:            doc.GenesisTime,
		ChainID:         doc.ChainID,
		ConsensusParams: &cs,
		Validators:      bft.NewValidatorSet(vals).ABCIValidatorUpdates(),
		AppState:        doc.AppState,
		InitialHeight:   doc.InitialHeight,
	}
	res.IH = req.InitialHeight
	var ir abci.ResponseInitChain
	func() {
		defer func() {
			if p := recover(); p != nil {
				res.InitErr = fmt.Sprintf("panic: %v", p)
			}
		}()
		ir = ba.InitChain(req)
	}()
	if res.InitErr != "" {
		return res, nil
	}
	if ir.Error != nil {
		res.InitErr = ir.Error.Error()
	}
	for _, r := range ir.TxResponses {
		tr := ec.ResultOf(r)
		tr.Log = c53NormLog(tr.Log)
		res.Txs = append(res.Txs, tr)
	}
	res.NVals = len(ir.Validators)
	if res.InitErr != "" {
		return res, nil
	}
	h := req.InitialHeight
	if h < 1 {
		h = 1
	}
	ba.BeginBlock(abci.RequestBeginBlock{Header: &bft.Header{ChainID: doc.ChainID, Height: h, Time: doc.GenesisTime.Add(5 * time.Second)}})
	ba.EndBlock(abci.RequestEndBlock{Height: h})
	cr := ba.Commit()
	res.AppHash = hex.EncodeToString(cr.Data)
	d, _, e := ec.DumpDB(db)
	if e != nil {
		return res, fmt.Errorf("harness: dump: %v", e)
	}
	res.Dump = d
	return res, nil
}

// c53NormLog removes what is debugging output rather than a transaction
// result: the Go stack of a recovered panic (addresses) and the "Stack Trace"
// section of error logs, which lists the call sites of the genesis loader that
// delivered the tx (app.go:590 vs app.go:680) and therefore differs between
// the two modes by construction. The error message traces before it are kept.
func c53NormLog(l string) string {
	for _, cut := range []string{"\nstack:", "\nStack Trace:"} {
		if i := strings.Index(l, cut); i >= 0 {
			l = l[:i]
		}
	}
	// %#v of wrapped errors prints heap addresses ("(*errors.joinError)(0xc007430a98)")
	return c53PtrRe.ReplaceAllString(l, "(0xPTR)")
}

var c53PtrRe = regexp.MustCompile(`\(0x[0-9a-f]+\)`)

func c53Compare(a, b c53Result) string {
	if a.LoadErr != b.LoadErr {
		return fmt.Sprintf("load outcome differs: %q vs %q", a.LoadErr, b.LoadErr)
	}
	if a.InitErr != b.InitErr {
		return fmt.Sprintf("InitChain outcome differs: %q vs %q", a.InitErr, b.InitErr)
	}
	if max(a.IH, 1) != max(b.IH, 1) { // 0 and 1 both mean "start at height 1"
		return fmt.Sprintf("InitialHeight handed to the application differs: %d vs %d", a.IH, b.IH)
	}
	if len(a.Txs) != len(b.Txs) {
		return fmt.Sprintf("number of genesis tx responses differs: %d vs %d", len(a.Txs), len(b.Txs))
	}
	for i := range a.Txs {
		if a.Txs[i] != b.Txs[i] {
			return fmt.Sprintf("genesis tx %d response differs:\n A=%+v\n B=%+v", i, a.Txs[i], b.Txs[i])
		}
	}
	if a.NVals != b.NVals {
		return fmt.Sprintf("validators in the response differ: %d vs %d", a.NVals, b.NVals)
	}
	if a.AppHash != b.AppHash {
		return fmt.Sprintf("first-commit app hash differs: %s vs %s\n%s", a.AppHash, b.AppHash, ec.Diff(a.Dump, b.Dump, nil))
	}
	if d := ec.Diff(a.Dump, b.Dump, nil); d != "" {
		return "committed state differs:\n" + d
	}
	return ""
}

func c53Tmp() (string, error) {
	base := os.Getenv("VERIF_TMP")
	if base == "" {
		base = "/var/tmp"
	}
	return os.MkdirTemp(base, "c53-")
}

func c53Exec(ctx *vk.Ctx, c c53Case) error {
	dir, err := c53Tmp()
	if err != nil {
		return fmt.Errorf("harness: %v", err)
	}
	defer os.RemoveAll(dir)

	// in-memory, twice
	m1, err := c53Apply(c53Build(c))
	if err != nil {
		return err
	}
	m2, err := c53Apply(c53Build(c))
	if err != nil {
		return err
	}
	if d := c53Compare(m1, m2); d != "" {
		return fmt.Errorf("two in-memory applications of the same genesis disagree: %s", d)
	}

	// on disk -> streaming, cold cache then warm cache
	doc := c53Build(c)
	var bz []byte
	if c.Indent {
		bz, err = amino.MarshalJSONIndent(doc, "", "  ")
	} else {
		bz, err = amino.MarshalJSON(doc)
	}
	if err != nil {
		return fmt.Errorf("harness: marshal genesis: %v", err)
	}
	file := filepath.Join(dir, "genesis.json")
	if err := os.WriteFile(file, bz, 0o644); err != nil {
		return fmt.Errorf("harness: %v", err)
	}
	cache := filepath.Join(dir, "cache")
	logger := log.NewNoopLogger()
	var st [2]c53Result
	for i := range st {
		sdoc, lerr := gnoland.LoadStreamingGenesisDoc(file, cache, logger)
		if lerr != nil {
			st[i].LoadErr = lerr.Error()
			continue
		}
		if _, ok := sdoc.AppState.(*gnoland.GenesisStateRef); !ok {
			return fmt.Errorf("harness: streaming loader returned AppState %T", sdoc.AppState)
		}
		if st[i], err = c53Apply(sdoc); err != nil {
			return err
		}
	}
	if d := c53Compare(st[0], st[1]); d != "" {
		return fmt.Errorf("two streamed applications (cold cache, warm cache) of the same genesis file disagree: %s", d)
	}

	ok := m1.InitErr == "" && m1.LoadErr == ""
	nOK, nFail := 0, 0
	for _, r := range m1.Txs {
		if r.OK() {
			nOK++
		} else {
			nFail++
		}
	}
	ctx.ClassIf(ok, "genesis-accepted-in-memory")
	ctx.ClassIf(!ok, "genesis-refused-in-memory")
	ctx.ClassIf(st[0].InitErr == "" && st[0].LoadErr == "", "genesis-accepted-streaming")
	ctx.ClassIf(c.Invalid != "", "invalid:"+c.Invalid)
	ctx.ClassIf(nOK > 0, "has-successful-genesis-tx")
	ctx.ClassIf(nFail > 0, "has-failed-genesis-tx")
	ctx.ClassIf(c.DocIH > 1 && c.Invalid == "", "initial-height>1")
	ctx.ClassIf(len(c.RealmParams) > 0, "realm-params")
	if c.Big != nil {
		ctx.ClassIf(c.Big.Line >= 64<<10, "element>=64KiB")
		ctx.ClassIf(c.Big.Line >= 1<<20, "element>=1MiB")
		ctx.ClassIf(c.Big.Line < 64<<10, "element~4KiB")
		ctx.Class("big-element/" + c.Big.Kind + "/pos=" + strconv.Itoa(c.Big.Pos%3))
		at := map[int]int{0: 0, 1: len(c.Txs) / 2, 2: len(c.Txs)}[c.Big.Pos%3]
		if ok && at < len(m1.Txs) {
			ctx.ClassIf(m1.Txs[at].OK(), "big-element-tx-succeeded")
			ctx.ClassIf(!m1.Txs[at].OK(), "big-element-tx-failed")
		}
	}
	for _, t := range c.Txs {
		ctx.Class("meta=" + strconv.Itoa(t.Meta))
	}
	ctx.NTIf(len(m1.Txs) > 0 || c.Invalid != "")
	ctx.Note("txs_ok_fail", fmt.Sprintf("%d/%d", nOK, nFail))
	if !ok {
		ctx.Note("in_memory_refusal", m1.LoadErr+m1.InitErr)
		ctx.Class("refusal: " + fmt.Sprintf("%.24s", m1.LoadErr+m1.InitErr))
	}

	if d := c53Compare(m1, st[0]); d != "" {
		key := ""
		switch {
		case c.DocIH > 1 && m1.IH == c.DocIH && st[0].IH == 0:
			// the document's initial_height never reaches the application; every later difference is a consequence
			key = "streaming-loader-drops-initial-height"
		case c.Invalid == "signerinfo-collision" && strings.Contains(m1.InitErr, "SignerInfo collision") && st[0].InitErr == "":
			key = "streaming-skips-signerinfo-preflight"
		case c.Invalid == "initial-height-mismatch" && strings.Contains(m1.InitErr, "InitialHeight mismatch") && st[0].InitErr == "":
			key = "streaming-skips-initial-height-crosscheck"
		}
		if key != "" && ctx.Known(key) {
			return nil
		}
		// triage aid: how does the non-streaming file loader behave?
		third := "n/a"
		if fdoc, ferr := bft.GenesisDocFromFile(file); ferr != nil {
			third = "GenesisDocFromFile: " + ferr.Error()
		} else if f, ferr := c53Apply(fdoc); ferr == nil {
			if dd := c53Compare(m1, f); dd == "" {
				third = "the same file loaded by GenesisDocFromFile agrees with the in-memory run"
			} else {
				third = "the same file loaded by GenesisDocFromFile also differs from the in-memory run: " + dd
			}
		}
		return fmt.Errorf("in-memory and streamed applications of the same genesis disagree [%s]: %s\n(%s)", key, d, third)
	}
	return nil
}

func TestC53_GenesisModes(t *testing.T) {
	vk.Run(t, vk.Spec[c53Case]{
		ID: "C53", Name: "TestC53_GenesisModes",
		Rule: "rapid: a genesis document (1-9 balance entries over 6 addresses with repeats, multi-denom and empty amounts, continuous/delayed vesting; 0-7 genesis txs: realm deployments incl. duplicates and type errors, realm calls incl. panics and chain/params writes, bank sends incl. unfunded, MsgRun; tx metadata: none, timestamp, historical height with known/unknown chain id, failed flag, signer info, empty; auth/bank/vm params, typed realm params, past chain ids, gas replay mode, 0-2 validators, initial height at document and app level, indented or compact file; in 2/3 of the cases one extra tx - a realm deployment with a padded README.md or a bank send with a padded memo - whose JSON element is exactly 4 KiB, 64 KiB, 1 MiB or 2.3 MiB long -1/+0/+1/+17/-4096/+4096 bytes, placed first, in the middle or last) applied in memory twice and streamed from disk twice (cold and warm cache); plus an invalid-genesis class (signer-info collision, initial-height mismatch, unknown gas replay mode); non-trivial = at least one genesis tx was delivered or the genesis is of the invalid class",
		Draw: c53Draw,
		Exec: c53Exec,
	})
}
