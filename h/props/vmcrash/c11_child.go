package vmcrash

import (
	"bufio"
	"bytes"
	"encoding/json"
	"fmt"
	"io"
	"os"
	"os/exec"
	"runtime"
	"runtime/debug"
	"strconv"
	"strings"
	"sync"
	"time"
)

// ---------------------------------------------------------------- child side

const c11ChildEnv = "VERIF_C11_CHILD"

// c11RSSMB returns the current and the peak resident set of this process in MB.
func c11RSSMB() (cur, peak int64) {
	b, err := os.ReadFile("/proc/self/status")
	if err != nil {
		return 0, 0
	}
	for _, l := range strings.Split(string(b), "\n") {
		f := strings.Fields(l)
		if len(f) >= 2 {
			switch f[0] {
			case "VmRSS:":
				v, _ := strconv.ParseInt(f[1], 10, 64)
				cur = v / 1024
			case "VmHWM:":
				v, _ := strconv.ParseInt(f[1], 10, 64)
				peak = v / 1024
			}
		}
	}
	return
}

// c11MemCapMB is the resident-set size above the warm baseline at which the
// child reports "memory far above the allocator limit": 4x the production
// allocation limit (500 MB).
const c11MemCapMB = 4 * c11MaxAllocTx / 1_000_000

// c11ChildMain is the body of the re-executed test binary: it answers one
// JSON line per input on fd 3 and reads inputs from stdin.
func c11ChildMain() {
	resp := os.NewFile(3, "resp")
	if resp == nil {
		fmt.Fprintln(os.Stderr, "c11 child: fd 3 missing")
		os.Exit(3)
	}
	// keep the Go heap from ballooning just because garbage is not collected
	// yet: the observation is about live memory.
	debug.SetGCPercent(400)
	env := c11NewEnv()
	env.mInit()
	debug.SetGCPercent(50)
	runtime.GC()
	debug.FreeOSMemory()
	base, _ := c11RSSMB()
	var mu sync.Mutex // serialises writes on resp
	write := func(o c11Outcome) {
		b, _ := json.Marshal(o)
		mu.Lock()
		resp.Write(append(b, '\n'))
		mu.Unlock()
	}
	write(c11Outcome{ID: -1, Class: "ready", BaseMB: base})
	// memory watchdog: reports and exits when the resident set exceeds the cap.
	cur := -1
	var curMu sync.Mutex
	go func() {
		for {
			time.Sleep(50 * time.Millisecond)
			rss, _ := c11RSSMB()
			if rss-base > c11MemCapMB {
				// garbage not yet collected or not yet returned to the OS does
				// not count: collect, release, look again.
				runtime.GC()
				debug.FreeOSMemory()
				rss, _ = c11RSSMB()
			}
			if rss-base > c11MemCapMB {
				curMu.Lock()
				id := cur
				curMu.Unlock()
				// where is the main goroutine? (phase of the handler)
				buf := make([]byte, 1<<20)
				buf = buf[:runtime.Stack(buf, true)]
				phase, top := c11Phase(string(buf))
				holder, hmb := c11TopAllocator()
				write(c11Outcome{ID: id, Class: "mem-exceeded", RSSMB: rss, BaseMB: base, Site: phase + ":" + holder, Func: top, Stack: c11Bound(string(buf), 4000),
					Detail: fmt.Sprintf("resident set %d MB after a forced GC, warm baseline %d MB, cap %d MB above baseline (4x the 500 MB allocation limit); handler phase: %s, at %s; largest holder of live heap: %s (%d MB)", rss, base, c11MemCapMB, phase, top, holder, hmb)})
				os.Exit(4)
			}
		}
	}()
	rd := bufio.NewReaderSize(os.Stdin, 1<<20)
	for {
		line, err := rd.ReadBytes('\n')
		if len(line) > 0 {
			var in c11Input
			if jerr := json.Unmarshal(line, &in); jerr != nil {
				fmt.Fprintln(os.Stderr, "c11 child: bad input:", jerr)
				os.Exit(3)
			}
			curMu.Lock()
			cur = in.ID
			curMu.Unlock()
			t0 := time.Now()
			out := env.c11RunK(in)
			if out.Class == "vm-panic" {
				k := out
				runtime.GC()
				debug.FreeOSMemory()
				out = env.c11RunM(in)
				// the replica must reproduce the keeper's observation
				if out.Class == c11OK || out.Class == c11TypeCheck || out.Class == c11Invalid || out.Class == c11Rejected {
					out.Detail = "keeper: " + k.Detail + " || replica: " + out.Class + " " + out.Detail
					out.Class = c11Mismatch
				} else if out.Class != c11OutOfGas {
					out.Detail = out.Detail + " || keeper: " + c11Bound(k.Detail, 200)
				}
				out.GasUsed = k.GasUsed
			}
			out.MS = time.Since(t0).Milliseconds()
			out.RSSMB, _ = c11RSSMB() // resident set right after the input, before any forced GC
			out.BaseMB = base
			curMu.Lock()
			cur = -1
			curMu.Unlock()
			write(out)
			// give memory back so that the watchdog observes one input at a time
			if rss, _ := c11RSSMB(); rss-base > 300 {
				runtime.GC()
				debug.FreeOSMemory()
			}
		}
		if err != nil {
			if err == io.EOF {
				os.Exit(0)
			}
			os.Exit(3)
		}
	}
}

// --------------------------------------------------------------- parent side

// c11Child is a handle on one running child process.
type c11Child struct {
	cmd    *exec.Cmd
	stdin  io.WriteCloser
	lines  chan []byte // responses
	stderr *c11Tail
	served int
	dead   bool
	waited chan struct{}
	werr   error
}

// c11Tail keeps the head and the tail of a stream (crash diagnostics).
type c11Tail struct {
	mu   sync.Mutex
	head []byte
	tail []byte
}

func (t *c11Tail) Write(p []byte) (int, error) {
	t.mu.Lock()
	defer t.mu.Unlock()
	if len(t.head) < 8192 {
		n := 8192 - len(t.head)
		if n > len(p) {
			n = len(p)
		}
		t.head = append(t.head, p[:n]...)
	}
	t.tail = append(t.tail, p...)
	if len(t.tail) > 16384 {
		t.tail = t.tail[len(t.tail)-16384:]
	}
	return len(p), nil
}

func (t *c11Tail) String() string {
	t.mu.Lock()
	defer t.mu.Unlock()
	if len(t.tail) <= 8192 || bytes.HasSuffix(t.tail, t.head) {
		if len(t.head) >= len(t.tail) {
			return string(t.head)
		}
	}
	return string(t.head) + "\n...\n" + string(t.tail)
}

func c11Spawn() (*c11Child, error) {
	pr, pw, err := os.Pipe()
	if err != nil {
		return nil, err
	}
	cmd := exec.Command(os.Args[0], "-test.run", "^TestC11_ChildEntry$")
	cmd.Env = append(os.Environ(), c11ChildEnv+"=1", "GOTRACEBACK=single")
	cmd.ExtraFiles = []*os.File{pw}
	st := &c11Tail{}
	cmd.Stderr = st
	cmd.Stdout = st
	in, err := cmd.StdinPipe()
	if err != nil {
		return nil, err
	}
	if err := cmd.Start(); err != nil {
		return nil, err
	}
	pw.Close()
	c := &c11Child{cmd: cmd, stdin: in, lines: make(chan []byte, 4), stderr: st, waited: make(chan struct{})}
	go func() {
		rd := bufio.NewReaderSize(pr, 1<<20)
		for {
			l, err := rd.ReadBytes('\n')
			if len(l) > 0 {
				c.lines <- l
			}
			if err != nil {
				break
			}
		}
		pr.Close()
		c.werr = cmd.Wait()
		close(c.waited)
		close(c.lines)
	}()
	// wait for "ready" (stdlib load; generous: the machine is shared)
	select {
	case l, ok := <-c.lines:
		if !ok {
			return nil, fmt.Errorf("child died during warm-up: %v\n%s", c.werr, st.String())
		}
		var o c11Outcome
		if json.Unmarshal(l, &o) != nil || o.Class != "ready" {
			c.kill()
			return nil, fmt.Errorf("child: unexpected first line %q", l)
		}
	case <-time.After(10 * time.Minute):
		c.kill()
		return nil, fmt.Errorf("child warm-up took more than 10 minutes")
	}
	return c, nil
}

func (c *c11Child) kill() {
	if c.dead {
		return
	}
	c.dead = true
	c.stdin.Close()
	if c.cmd.Process != nil {
		c.cmd.Process.Kill()
	}
	select {
	case <-c.waited:
	case <-time.After(30 * time.Second):
	}
}

// c11Result is the parent's view of one submission.
type c11Result struct {
	Out      c11Outcome
	Died     bool   // the child died while serving the input
	DeathMsg string // exit status + stderr excerpt
	TimedOut bool   // no answer within the budget (child killed)
}

// ask sends one input and waits for the answer.
func (c *c11Child) ask(in c11Input, budget time.Duration) c11Result {
	b, _ := json.Marshal(in)
	if _, err := c.stdin.Write(append(b, '\n')); err != nil {
		// died before (should not happen: deaths are noticed on the answer)
		<-c.waited
		c.dead = true
		return c11Result{Died: true, DeathMsg: fmt.Sprintf("write: %v; %v\n%s", err, c.werr, c.stderr.String())}
	}
	c.served++
	select {
	case l, ok := <-c.lines:
		if !ok {
			c.dead = true
			return c11Result{Died: true, DeathMsg: fmt.Sprintf("%v\n%s", c.werr, c.stderr.String())}
		}
		var o c11Outcome
		if err := json.Unmarshal(l, &o); err != nil {
			c.kill()
			return c11Result{Died: true, DeathMsg: "garbled answer: " + string(l)}
		}
		if o.Class == "mem-exceeded" {
			// the watchdog reported and exited
			select {
			case <-c.waited:
			case <-time.After(10 * time.Second):
			}
			c.dead = true
		}
		return c11Result{Out: o}
	case <-time.After(budget):
		c.kill()
		return c11Result{TimedOut: true}
	}
}

// c11Pool owns the long-lived child of this process and replaces it after a
// death, a timeout or every c11Recycle inputs.
type c11Pool struct {
	mu    sync.Mutex
	child *c11Child
}

const c11Recycle = 1000

func (p *c11Pool) get() (*c11Child, error) {
	if p.child != nil && !p.child.dead && p.child.served < c11Recycle {
		return p.child, nil
	}
	if p.child != nil {
		p.child.kill()
	}
	c, err := c11Spawn()
	if err != nil {
		p.child = nil
		return nil, err
	}
	p.child = c
	return c, nil
}

func (p *c11Pool) close() {
	p.mu.Lock()
	defer p.mu.Unlock()
	if p.child != nil {
		p.child.kill()
		p.child = nil
	}
}

// c11Alone runs one input in a fresh child of its own.
func c11Alone(in c11Input, budget time.Duration) (c11Result, error) {
	c, err := c11Spawn()
	if err != nil {
		return c11Result{}, err
	}
	defer c.kill()
	return c.ask(in, budget), nil
}

// c11Phase tells from an all-goroutine dump in which phase of the handler the
// main goroutine is: typecheck (go/types under TypeCheckMemPackage),
// preprocess, or run; top is the innermost non-runtime function.
func c11Phase(dump string) (phase, top string) {
	g := dump
	if i := strings.Index(g, "goroutine 1 ["); i >= 0 {
		g = g[i:]
		if j := strings.Index(g, "\n\n"); j >= 0 {
			g = g[:j]
		}
	}
	phase = "run"
	switch {
	case strings.Contains(g, "gnolang.TypeCheckMemPackage"):
		phase = "typecheck"
	case strings.Contains(g, "gnolang.Preprocess") || strings.Contains(g, "gnolang.preprocess1") || strings.Contains(g, "gnolang.predefineRecursively"):
		phase = "preprocess"
	case strings.Contains(g, "ParseMemPackage") || strings.Contains(g, "gnolang.Go2Gno"):
		phase = "parse"
	}
	top = "?"
	for _, l := range strings.Split(g, "\n")[1:] {
		if l == "" || strings.HasPrefix(l, "\t") || strings.HasPrefix(l, "runtime.") || strings.HasPrefix(l, "runtime/") {
			continue
		}
		top = l
		if p := strings.LastIndex(top, "("); p > 0 {
			top = top[:p]
		}
		break
	}
	return
}

// c11TopAllocator returns the function (first non-runtime frame of the
// allocation stacks of the heap profile, as of the last GC) that holds the
// most live heap bytes, and that amount in MB. When the heap does not explain
// the memory (a huge goroutine stack, say) it answers "stack-or-other".
func c11TopAllocator() (string, int64) {
	n, _ := runtime.MemProfile(nil, true)
	recs := make([]runtime.MemProfileRecord, n+200)
	n, ok := runtime.MemProfile(recs, true)
	if !ok {
		return "?", 0
	}
	by := map[string]int64{}
	for _, r := range recs[:n] {
		if r.InUseBytes() <= 0 {
			continue
		}
		name := "?"
		frames := runtime.CallersFrames(r.Stack())
		for {
			f, more := frames.Next()
			if f.Function != "" && !strings.HasPrefix(f.Function, "runtime.") && !strings.HasPrefix(f.Function, "runtime/") &&
				!strings.HasPrefix(f.Function, "strings.(*Builder)") && !strings.HasPrefix(f.Function, "bytes.") && !strings.HasPrefix(f.Function, "slices.") {
				name = f.Function
				if k := strings.LastIndex(name, "/"); k >= 0 && strings.HasPrefix(name, "github.com/") {
					name = name[k+1:]
				}
				break
			}
			if !more {
				break
			}
		}
		by[name] += r.InUseBytes()
	}
	best, bytes := "stack-or-other", int64(0)
	for k, v := range by {
		if v > bytes || (v == bytes && k < best) {
			best, bytes = k, v
		}
	}
	if bytes < 500<<20 {
		return "stack-or-other", bytes >> 20
	}
	return best, bytes >> 20
}
