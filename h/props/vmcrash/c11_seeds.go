package vmcrash

import (
	"go/scanner"
	"go/token"
	"os"
	"path/filepath"
	"regexp"
	"sort"
	"strings"
	"sync"

	"github.com/gnolang/gno/gnovm/pkg/gnoenv"
)

// c11Seed is one unmutated submission taken from the repository: a file test
// of gnovm/tests/files (one file) or a whole example package whose production
// files import nothing but standard libraries.
type c11Seed struct {
	Rel   string // path relative to the repository root
	Mode  string
	Name  string
	Path  string
	Files []c11File // .gno files first (sorted), gnomod.toml last when present
	NGno  int       // number of .gno files (mutation targets)
}

var (
	c11SeedOnce sync.Once
	c11Seeds    []c11Seed
	c11PkgRE    = regexp.MustCompile(`(?m)^package\s+([A-Za-z_][A-Za-z0-9_]*)`)
	c11PathRE   = regexp.MustCompile(`(?m)^//\s*PKGPATH:\s*(\S+)`)
)

func c11PkgName(body string) string {
	m := c11PkgRE.FindStringSubmatch(body)
	if m == nil {
		return "main"
	}
	return m[1]
}

// c11SubmissionFor derives how a single-file text is submitted: package main
// goes through MsgRun, anything else is deployed with MsgAddPackage under a
// path whose last element is the package name (as gnokey does).
func c11SubmissionFor(body string) (mode, name, path string) {
	name = c11PkgName(body)
	if name == "main" {
		return "run", "main", ""
	}
	kind := "r"
	if m := c11PathRE.FindStringSubmatch(body); m != nil && strings.Contains(m[1], "/p/") {
		kind = "p"
	}
	return "addpkg", name, "gno.land/" + kind + "/c11x/" + name
}

func c11LoadSeeds() []c11Seed {
	c11SeedOnce.Do(func() {
		root := gnoenv.RootDir()
		dir := filepath.Join(root, "gnovm", "tests", "files")
		ents, err := os.ReadDir(dir)
		if err != nil {
			panic(err)
		}
		for _, e := range ents { // ReadDir sorts by name
			if e.IsDir() || !strings.HasSuffix(e.Name(), ".gno") {
				continue
			}
			b, err := os.ReadFile(filepath.Join(dir, e.Name()))
			if err != nil {
				panic(err)
			}
			body := string(b)
			mode, name, path := c11SubmissionFor(body)
			s := c11Seed{Rel: "gnovm/tests/files/" + e.Name(), Mode: mode, Name: name, Path: path, NGno: 1}
			fname := "main.gno"
			if mode == "addpkg" {
				fname = name + ".gno"
				s.Files = []c11File{{fname, body}, {"gnomod.toml", "module = \"" + path + "\"\ngno = \"0.9\"\n"}}
			} else {
				s.Files = []c11File{{fname, body}}
			}
			c11Seeds = append(c11Seeds, s)
		}
		// example packages with stdlib-only production imports
		ex := filepath.Join(root, "examples", "gno.land")
		var dirs []string
		filepath.Walk(ex, func(p string, info os.FileInfo, err error) error {
			if err == nil && !info.IsDir() && info.Name() == "gnomod.toml" {
				dirs = append(dirs, filepath.Dir(p))
			}
			return nil
		})
		sort.Strings(dirs)
		for _, d := range dirs {
			rel, _ := filepath.Rel(ex, d) // p/nt/avl/v0
			parts := strings.SplitN(filepath.ToSlash(rel), "/", 2)
			if len(parts) != 2 || (parts[0] != "p" && parts[0] != "r") {
				continue
			}
			ents, _ := os.ReadDir(d)
			var files []c11File
			total, ok, name := 0, true, ""
			for _, e := range ents {
				n := e.Name()
				if e.IsDir() || !strings.HasSuffix(n, ".gno") || strings.HasSuffix(n, "_test.gno") || strings.HasSuffix(n, "_filetest.gno") {
					continue
				}
				b, err := os.ReadFile(filepath.Join(d, n))
				if err != nil {
					ok = false
					break
				}
				if strings.Contains(string(b), "\"gno.land/") {
					ok = false
					break
				}
				total += len(b)
				if name == "" {
					name = c11PkgName(string(b))
				}
				files = append(files, c11File{n, string(b)})
			}
			if !ok || len(files) == 0 || total > 80_000 {
				continue
			}
			path := "gno.land/" + parts[0] + "/c11x/" + parts[1]
			mod, err := os.ReadFile(filepath.Join(d, "gnomod.toml"))
			if err != nil {
				continue
			}
			modBody := strings.Replace(string(mod), "gno.land/"+parts[0]+"/"+parts[1], path, 1)
			s := c11Seed{Rel: "examples/gno.land/" + filepath.ToSlash(rel), Mode: "addpkg", Name: name, Path: path, NGno: len(files)}
			s.Files = append(files, c11File{"gnomod.toml", modBody})
			c11Seeds = append(c11Seeds, s)
		}
	})
	return c11Seeds
}

// ---- tokenisation (Go's scanner; used to place mutations at token borders)

type c11Tok struct {
	Off, End int
	Tok      token.Token
	Lit      string
}

func c11Tokens(src string) []c11Tok {
	var out []c11Tok
	fs := token.NewFileSet()
	f := fs.AddFile("x.gno", -1, len(src))
	var sc scanner.Scanner
	sc.Init(f, []byte(src), func(token.Position, string) {}, scanner.ScanComments)
	for {
		pos, tok, lit := sc.Scan()
		if tok == token.EOF {
			break
		}
		off := f.Offset(pos)
		n := len(lit)
		if n == 0 {
			n = len(tok.String())
		}
		if tok == token.SEMICOLON && lit == "\n" {
			continue // automatic semicolon
		}
		if off+n > len(src) {
			n = len(src) - off
		}
		out = append(out, c11Tok{off, off + n, tok, lit})
	}
	return out
}
