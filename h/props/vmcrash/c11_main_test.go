package vmcrash

import (
	"os"
	"testing"
)

func TestMain(m *testing.M) {
	if os.Getenv(c11ChildEnv) != "" {
		c11ChildMain() // never returns
	}
	os.Exit(m.Run())
}

// TestC11_ChildEntry is the -test.run target of the re-executed binary; the
// child never reaches it (TestMain diverts), the parent skips it.
func TestC11_ChildEntry(t *testing.T) { t.Skip("child entry point") }
