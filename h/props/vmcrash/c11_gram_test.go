package vmcrash

import (
	"fmt"
	"os"
	"regexp"
	"strings"

	"pgregory.net/rapid"
)

// Grammar-level pathological programs. Every family draws its parameters with
// rapid and renders a complete `package main` (MsgRun) or realm (MsgAddPackage)
// source text.

type c11Fam struct {
	Name string
	Gen  func(rt *rapid.T) (src string, note []string)
}

func c11Depth(rt *rapid.T, l string) int {
	switch c11Uniform(rt, 10, l+"c") {
	case 0, 1, 2:
		return rapid.IntRange(1, 60).Draw(rt, l)
	case 3, 4, 5:
		return rapid.IntRange(61, 2000).Draw(rt, l)
	case 6, 7:
		return rapid.IntRange(2001, 20000).Draw(rt, l)
	default:
		return c11Pick(rt, []int{50000, 99990, 100001, 150000}, l)
	}
}

func c11Rep(s string, n int) string { return strings.Repeat(s, n) }

// ---- nesting

var c11NestKinds = []string{"paren", "neg", "not", "xor", "index", "call", "funclit", "funclitcall", "block", "if", "ifelse", "for", "switch",
	"slicelit", "structlit", "ptrlit", "maplit", "typslice", "typptr", "typfunc", "typstruct", "typmap", "typarray", "binleft", "binright", "strcat",
	"selector", "sliceexpr", "deref", "conv", "andand", "closurecall", "label", "select", "typeassert", "cmpchain", "shiftchain", "elseif", "rangenest", "deferlit"}

func c11GenNest(rt *rapid.T) (string, []string) {
	k := c11Pick(rt, c11NestKinds, "nk")
	n := c11Depth(rt, "n")
	if k == "deref" && os.Getenv("VERIF_TIER") != "thorough" {
		// `type P *P; p = &p` kills the process (known finding death@...fillValueTV,
		// replay/C11/finding-death-fillValueTV.json); every hit costs a child
		// restart, so the quick tier does not regenerate it
		k = "paren"
	}
	// keep the text below ~1 MB
	max := map[string]int{"funclit": 30000, "funclitcall": 30000, "if": 50000, "ifelse": 30000, "for": 50000, "switch": 25000, "typfunc": 60000, "typstruct": 40000,
		"typmap": 60000, "structlit": 20000, "closurecall": 20000, "label": 30000, "select": 40000, "typeassert": 40000, "elseif": 30000, "rangenest": 30000, "deferlit": 30000, "conv": 100000}
	if m, ok := max[k]; ok && n > m {
		n = m
	}
	var b strings.Builder
	b.WriteString("package main\n\n")
	switch k {
	case "paren":
		fmt.Fprintf(&b, "func main() {\n\tx := %s1%s\n\tprintln(x)\n}\n", c11Rep("(", n), c11Rep(")", n))
	case "neg":
		fmt.Fprintf(&b, "func main() {\n\ty := 1\n\tx := %sy\n\tprintln(x)\n}\n", c11Rep("- ", n))
	case "not":
		fmt.Fprintf(&b, "func main() {\n\ty := true\n\tx := %sy\n\tprintln(x)\n}\n", c11Rep("!", n))
	case "xor":
		fmt.Fprintf(&b, "func main() {\n\tx := %s1\n\tprintln(x)\n}\n", c11Rep("^", n))
	case "index":
		fmt.Fprintf(&b, "func main() {\n\ta := []int{0}\n\tx := %s0%s\n\tprintln(x)\n}\n", c11Rep("a[", n), c11Rep("]", n))
	case "call":
		fmt.Fprintf(&b, "func f(x int) int { return x }\n\nfunc main() {\n\tx := %s0%s\n\tprintln(x)\n}\n", c11Rep("f(", n), c11Rep(")", n))
	case "funclit":
		fmt.Fprintf(&b, "func main() {\n\tf := %s%s\n\t_ = f\n}\n", c11Rep("func() { _ = ", n), "0"+c11Rep(" }", n))
	case "funclitcall":
		fmt.Fprintf(&b, "func main() {\n\t%s%s\n}\n", c11Rep("func() { ", n), c11Rep(" }()", n))
	case "block":
		fmt.Fprintf(&b, "func main() {\n\t%sprintln(1)%s\n}\n", c11Rep("{", n), c11Rep("}", n))
	case "if":
		fmt.Fprintf(&b, "func main() {\n\tx := 1\n\t%sprintln(x)%s\n}\n", c11Rep("if x > 0 { ", n), c11Rep(" }", n))
	case "ifelse":
		fmt.Fprintf(&b, "func main() {\n\tx := 1\n\t%sprintln(x)%s\n}\n", c11Rep("if x < 0 { } else { ", n), c11Rep(" }", n))
	case "elseif":
		fmt.Fprintf(&b, "func main() {\n\tx := 1\n\tif x < 0 {\n\t}%s else {\n\t\tprintln(x)\n\t}\n}\n", c11Rep(" else if x < 0 {\n\t}", n))
	case "for":
		fmt.Fprintf(&b, "func main() {\n\t%sprintln(1)%s\n}\n", c11Rep("for i := 0; i < 1; i++ { ", n), c11Rep(" }", n))
	case "rangenest":
		fmt.Fprintf(&b, "func main() {\n\ta := []int{1}\n\t%sprintln(1)%s\n}\n", c11Rep("for range a { ", n), c11Rep(" }", n))
	case "switch":
		fmt.Fprintf(&b, "func main() {\n\tx := 1\n\t%sprintln(x)%s\n}\n", c11Rep("switch x { case 1: ", n), c11Rep(" }", n))
	case "select":
		fmt.Fprintf(&b, "func main() {\n\tvar e interface{} = 1\n\t%sprintln(1)%s\n}\n", c11Rep("switch e.(type) { case int: ", n), c11Rep(" }", n))
	case "slicelit":
		fmt.Fprintf(&b, "func main() {\n\tx := %sint%s\n\tprintln(len(x))\n}\n", c11Rep("[]", n), c11Rep("{", n)+c11Rep("}", n))
	case "structlit":
		fmt.Fprintf(&b, "type T struct{ P *T }\n\nfunc main() {\n\tx := %snil%s\n\tprintln(x != nil)\n}\n", c11Rep("&T{P: ", n), c11Rep("}", n))
	case "ptrlit":
		fmt.Fprintf(&b, "type T struct{ P []T }\n\nfunc main() {\n\tx := T{}\n\tx = %s\n\tprintln(len(x.P))\n}\n", c11Rep("T{P: []T{", n)+c11Rep("}}", n))
	case "maplit":
		fmt.Fprintf(&b, "type M map[string]M\n\nfunc main() {\n\tx := %snil%s\n\tprintln(len(x))\n}\n", c11Rep("M{\"k\": ", n), c11Rep("}", n))
	case "typslice":
		fmt.Fprintf(&b, "var x %sint\n\nfunc main() {\n\tprintln(x == nil)\n}\n", c11Rep("[]", n))
	case "typptr":
		fmt.Fprintf(&b, "var x %sint\n\nfunc main() {\n\tprintln(x == nil)\n}\n", c11Rep("*", n))
	case "typfunc":
		fmt.Fprintf(&b, "var x %sint%s\n\nfunc main() {\n\tprintln(x == nil)\n}\n", c11Rep("func(", n), c11Rep(")", n))
	case "typstruct":
		fmt.Fprintf(&b, "var x %sint%s\n\nfunc main() {\n\tprintln(x)\n}\n", c11Rep("struct{ F ", n), c11Rep(" }", n))
	case "typmap":
		fmt.Fprintf(&b, "var x %sint\n\nfunc main() {\n\tprintln(x == nil)\n}\n", c11Rep("map[string]", n))
	case "typarray":
		fmt.Fprintf(&b, "var x %sint\n\nfunc main() {\n\tprintln(len(x))\n}\n", c11Rep("[1]", n))
	case "binleft":
		op := c11Pick(rt, []string{"+", "-", "*", "|", "^", "&"}, "op")
		fmt.Fprintf(&b, "func main() {\n\ty := 1\n\tx := y%s\n\tprintln(x)\n}\n", c11Rep(" "+op+" y", n))
	case "binright":
		fmt.Fprintf(&b, "func main() {\n\ty := 1\n\tx := %sy%s\n\tprintln(x)\n}\n", c11Rep("y + (", n), c11Rep(")", n))
	case "strcat":
		lit := c11Pick(rt, []string{`"a"`, `"0123456789abcdef0123456789abcdef0123456789abcdef0123456789abcdef"`, "s"}, "lit")
		fmt.Fprintf(&b, "const s = \"xy\"\n\nfunc main() {\n\tx := %s%s\n\tprintln(len(x))\n}\n", lit, c11Rep(" + "+lit, n))
	case "cmpchain":
		fmt.Fprintf(&b, "func main() {\n\ty := true\n\tx := y%s\n\tprintln(x)\n}\n", c11Rep(" == y", n))
	case "shiftchain":
		fmt.Fprintf(&b, "func main() {\n\ty := uint(1)\n\tx := y%s\n\tprintln(x)\n}\n", c11Rep(" << y", n))
	case "andand":
		fmt.Fprintf(&b, "func main() {\n\ty := true\n\tx := y%s\n\tprintln(x)\n}\n", c11Rep(" && y", n))
	case "selector":
		fmt.Fprintf(&b, "type T struct{ P *T }\n\nfunc main() {\n\tt := &T{}\n\tt.P = t\n\tx := t%s\n\tprintln(x != nil)\n}\n", c11Rep(".P", n))
	case "sliceexpr":
		fmt.Fprintf(&b, "func main() {\n\ta := []int{1, 2}\n\tx := a%s\n\tprintln(len(x))\n}\n", c11Rep("[:]", n))
	case "deref":
		fmt.Fprintf(&b, "type P *P\n\nfunc main() {\n\tvar p P\n\tp = &p\n\tx := %sp\n\tprintln(x != nil)\n}\n", c11Rep("*", n))
	case "conv":
		fmt.Fprintf(&b, "func main() {\n\ty := 1\n\tx := %sy%s\n\tprintln(x)\n}\n", c11Rep("int(", n), c11Rep(")", n))
	case "closurecall":
		fmt.Fprintf(&b, "func main() {\n\tx := %s1%s\n\tprintln(x)\n}\n", c11Rep("func() int { return ", n), c11Rep(" }()", n))
	case "label":
		for i := 0; i < n; i++ {
			if i == 0 {
				b.WriteString("func main() {\n")
			}
			fmt.Fprintf(&b, "L%d:\n\tfor {\n", i)
		}
		b.WriteString("\tbreak L0\n")
		for i := n - 1; i >= 0; i-- {
			fmt.Fprintf(&b, "\tbreak L%d\n\t}\n", i)
		}
		b.WriteString("}\n")
	case "typeassert":
		fmt.Fprintf(&b, "func main() {\n\tvar e interface{} = 1\n\tx := e%s\n\tprintln(x)\n}\n", c11Rep(".(interface{})", n))
	case "deferlit":
		fmt.Fprintf(&b, "func main() {\n\t%sprintln(1)%s\n}\n", c11Rep("defer func() { ", n), c11Rep(" }()", n))
	}
	return b.String(), []string{k, fmt.Sprint(n)}
}

// ---- constants

var c11ConstExprs = []string{
	"1 << %d", "1 << %d >> %d", "-1 << %d", "(1 << %d) - 1", "1e%d", "1e-%d", "0x1p%d", "0x1p-%d", "1.0 / 3.0", "1 / 3.0 * 3", "(1 << %d) * (1 << %d)",
	"(1 << %d) / 3", "(1 << %d) %% 7", "1.5e%d * 1.5e%d", "1 / 0", "1 %% 0", "1.0 / 0", "1.0 / 0.0", "1 << -1", "1 << 1.5", "1.0 << %d", "1 << (1 << %d)",
	"int8(%d)", "uint8(%d)", "int64(1 << %d)", "uint64(1<<%d - 1)", "float32(1e%d)", "float64(1e%d)", "int(1e%d)", "int(1.5)", "uint(-1)", "string(rune(%d))",
	"'\\U0010ffff' + %d", "len(\"abc\") << %d", "^0 << %d", "^uint64(0) >> %d", "0.1 + 0.2", "1e%d / 1e%d", "(1e%d + 1) - 1e%d", "-0.0", "1e400 * 0",
	"9223372036854775807 + %d", "-9223372036854775808 - %d", "18446744073709551615 + %d", "0x7fffffffffffffff * %d", "1<<63 - 1 + %d", "(1<<%d + 1) * (1<<%d - 1)",
	"1 << %d << %d << %d", "float64(1<<%d) / 3", "1e%d > 1e%d", "\"a\" < \"b\"", "(1 << %d) == (1 << %d)", "1<<%d + 1e%d", "1<<%d | 1", "(1<<%d)&^(1<<%d)", "- - - (1 << %d)",
	"0b1%s", "0o7%s", "0x1%s", "1%s", "1_0%s", "0.%s1", "1%s.5", "0x1.%sp0", "1e0%s1",
}

var c11ConstUses = []string{
	"var x = %s\n\nfunc main() { println(x) }\n",
	"const c = %s\n\nfunc main() { println(c) }\n",
	"const c = %s\n\nfunc main() { x := c; println(x) }\n",
	"func main() { var a [%s]int; println(len(a)) }\n",
	"func main() { a := make([]int, %s); println(len(a)) }\n",
	"func main() { a := []int{1, 2, 3}; println(a[%s]) }\n",
	"func main() { s := \"abc\"; println(s[%s]) }\n",
	"func main() { x := 1; println(x << %s) }\n",
	"func main() { x := uint8(1); println(x >> %s) }\n",
	"func main() { x := 1; switch x { case %s: println(1) } }\n",
	"func main() { var f float32 = %s; println(f) }\n",
	"func main() { var f float64 = %s; println(f) }\n",
	"func main() { var i int64 = %s; println(i) }\n",
	"func main() { var u uint8 = %s; println(u) }\n",
	"func main() { var e interface{} = %s; println(e) }\n",
	"func main() { x := 7; println(x / (%s)) }\n",
	"func main() { x := 7.0; println(x * (%s)) }\n",
	"func main() { a := [...]int{%s: 1}; println(len(a)) }\n",
	"func main() { a := []int{%s: 1}; println(len(a)) }\n",
	"func main() { m := map[int]int{%s: 1}; println(len(m)) }\n",
	"type T [%s]byte\n\nfunc main() { var t T; println(len(t)) }\n",
	"func main() { a := []int{1,2,3}; println(len(a[:%s])) }\n",
	"func f(x int) int { return x }\n\nfunc main() { println(f(%s)) }\n",
	"func main() { println(%s) }\n",
	"func main() { x := %s; _ = x }\n",
	"const (\n\ta = %s\n\tb = a * a\n\tc = b * b\n\td = c * c\n)\n\nfunc main() { println(d > 0) }\n",
	"func main() { for i := range %s { _ = i; break } }\n",
	"var x = [...]string{%s: \"a\"}\n\nfunc main() { println(len(x)) }\n",
}

func c11Num(rt *rapid.T, l string) int {
	return c11Pick(rt, []int{0, 1, 2, 7, 8, 31, 32, 53, 62, 63, 64, 65, 100, 127, 128, 255, 256, 308, 309, 400, 511, 512, 513, 1000, 1023, 1024, 4096, 10000, 65536, 100000, 1000000, 10000000, 100000000, 1000000000, 2147483647}, l)
}

func c11ConstExpr(rt *rapid.T, l string) string {
	f := c11Pick(rt, c11ConstExprs, l+"f")
	if strings.Contains(f, "%s") {
		n := c11Pick(rt, []int{1, 10, 18, 19, 20, 40, 100, 1000, 10000, 100000}, l+"digits")
		d := c11Pick(rt, []string{"0", "1", "7", "_1"}, l+"digit")
		return fmt.Sprintf(f, c11Rep(d, n))
	}
	args := make([]any, strings.Count(f, "%d"))
	for i := range args {
		args[i] = c11Num(rt, fmt.Sprintf("%sn%d", l, i))
	}
	return fmt.Sprintf(f, args...)
}

func c11GenConst(rt *rapid.T) (string, []string) {
	e := c11ConstExpr(rt, "e")
	if c11Uniform(rt, 5, "combine") == 0 {
		op := c11Pick(rt, []string{"+", "-", "*", "/", "%", "<<", ">>", "&", "|", "==", "<"}, "cop")
		e = "(" + e + ") " + op + " (" + c11ConstExpr(rt, "e2") + ")"
	}
	use := c11Pick(rt, c11ConstUses, "use")
	return "package main\n\n" + fmt.Sprintf(use, e), []string{c11Bound(e, 80), c11Bound(use, 40)}
}

// ---- string constant doubling and other compile-time growth

func c11GenGrowth(rt *rapid.T) (string, []string) {
	k := c11Pick(rt, []string{"conststr", "conststrlocal", "constmul", "arrayofarray", "arrtype", "structbig", "varstr", "constshl", "iota", "typealiaschain", "embedchain"}, "gk")
	n := c11Pick(rt, []int{2, 5, 10, 16, 20, 24, 28, 31, 34, 40, 64, 200, 2000}, "n")
	if k == "conststr" || k == "conststrlocal" || k == "varstr" {
		// 16<<n bytes of constant string. The Go type checker materialises it
		// outside any meter (known finding memory@typecheck): n in 23..27 is a
		// tar pit of minutes per case that neither finishes soon nor crosses the
		// memory cap soon, so it is skipped; the sizes that do cross the cap are
		// drawn rarely, and only in the thorough tier.
		big := os.Getenv("VERIF_TIER") == "thorough" && c11Uniform(rt, 20, "big") == 0
		switch {
		case big:
			n = c11Pick(rt, []int{28, 30, 34, 40, 59, 60, 64}, "nbig")
		case n > 22:
			n = 2 + n%21
		}
	}
	var b strings.Builder
	b.WriteString("package main\n\n")
	switch k {
	case "conststr", "conststrlocal", "varstr":
		kw := "const"
		if k == "varstr" {
			kw = "var"
		}
		if n > 64 {
			n = 64
		}
		if k == "conststrlocal" {
			b.WriteString("func main() {\n")
		}
		fmt.Fprintf(&b, "%s s0 = \"0123456789abcdef\"\n", kw)
		for i := 1; i <= n; i++ {
			fmt.Fprintf(&b, "%s s%d = s%d + s%d\n", kw, i, i-1, i-1)
		}
		if k == "conststrlocal" {
			fmt.Fprintf(&b, "\tprintln(len(s%d))\n}\n", n)
		} else {
			use := c11Pick(rt, []string{"println(len(s%d))", "x := s%d; println(len(x))", "println(s%d[0])", "println(s%d == s%d)", "var e interface{} = s%d; _ = e"}, "use")
			use = strings.ReplaceAll(use, "%d", fmt.Sprint(n))
			fmt.Fprintf(&b, "\nfunc main() {\n\t%s\n}\n", use)
		}
	case "constmul":
		if n > 64 {
			n = 64
		}
		b.WriteString("const c0 = 1 << 62\n")
		for i := 1; i <= n; i++ {
			fmt.Fprintf(&b, "const c%d = c%d * c%d\n", i, i-1, i-1)
		}
		fmt.Fprintf(&b, "\nfunc main() {\n\tprintln(c%d > 0)\n}\n", n)
	case "constshl":
		if n > 200 {
			n = 200
		}
		b.WriteString("const c0 = 1\n")
		for i := 1; i <= n; i++ {
			fmt.Fprintf(&b, "const c%d = c%d << %d\n", i, i-1, c11Num(rt, fmt.Sprintf("sh%d", i%4)))
		}
		fmt.Fprintf(&b, "\nfunc main() {\n\tprintln(c%d > 0)\n}\n", n)
	case "arrayofarray":
		if n > 40 {
			n = 40
		}
		m := c11Pick(rt, []int{2, 4, 16, 256}, "m")
		b.WriteString("type A0 [1]byte\n")
		for i := 1; i <= n; i++ {
			fmt.Fprintf(&b, "type A%d [%d]A%d\n", i, m, i-1)
		}
		use := c11Pick(rt, []string{"var x A%d\n\nfunc main() { println(len(x)) }\n", "func main() { var x A%d; println(len(x)) }\n", "func main() { x := new(A%d); println(x != nil) }\n",
			"func main() { x := make([]A%d, 1); println(len(x)) }\n", "func main() { var x *A%d; println(x == nil) }\n", "func main() { var x, y A%d; println(x == y) }\n"}, "use")
		fmt.Fprintf(&b, use, n)
	case "arrtype":
		e := c11ConstExpr(rt, "len")
		el := c11Pick(rt, []string{"byte", "int", "struct{}", "[0]int", "string", "[1 << 20]int"}, "el")
		use := c11Pick(rt, []string{"var x [%s]%s\n\nfunc main() { println(len(x)) }\n", "func main() { var x [%s]%s; println(len(x)) }\n", "func main() { x := new([%s]%s); println(len(x)) }\n",
			"func main() { var x *[%s]%s; println(len(x)) }\n", "func main() { x := [%s]%s{}; println(len(x)) }\n", "func main() { var x [][%s]%s; x = append(x, [%[1]s]%[2]s{}); println(len(x)) }\n"}, "use")
		fmt.Fprintf(&b, use, e, el)
	case "structbig":
		if n > 2000 {
			n = 2000
		}
		n *= 5
		b.WriteString("type T struct {\n")
		for i := 0; i < n; i++ {
			fmt.Fprintf(&b, "\tF%d int\n", i)
		}
		fmt.Fprintf(&b, "}\n\nfunc main() {\n\tvar t T\n\tt.F%d = 1\n\tu := t\n\tprintln(u == t, u.F%d)\n}\n", n-1, n-1)
	case "iota":
		n *= 10
		b.WriteString("const (\n\tc0 = 1 << iota\n")
		for i := 1; i < n; i++ {
			fmt.Fprintf(&b, "\tc%d\n", i)
		}
		fmt.Fprintf(&b, ")\n\nfunc main() {\n\tprintln(c%d > 0)\n}\n", n-1)
	case "typealiaschain":
		n *= 10
		alias := c11Pick(rt, []string{"", "= "}, "alias")
		b.WriteString("type T0 int\n")
		for i := 1; i <= n; i++ {
			fmt.Fprintf(&b, "type T%d %sT%d\n", i, alias, i-1)
		}
		fmt.Fprintf(&b, "\nfunc main() {\n\tvar x T%d\n\tprintln(x)\n}\n", n)
	case "embedchain":
		n *= 5
		b.WriteString("type T0 struct{ X int }\n\nfunc (t T0) M() int { return t.X }\n")
		for i := 1; i <= n; i++ {
			fmt.Fprintf(&b, "type T%d struct{ T%d }\n", i, i-1)
		}
		fmt.Fprintf(&b, "\nfunc main() {\n\tvar x T%d\n\tx.X = 3\n\tprintln(x.M(), x.X)\n\tvar i interface{ M() int } = x\n\tprintln(i.M())\n}\n", n)
	}
	return b.String(), []string{k, fmt.Sprint(n)}
}

// ---- recursive and mutually recursive types

var c11RecTypes = []string{
	"type T struct{ t T }", "type T struct{ t *T }", "type T []T", "type T map[string]T", "type T map[T]int", "type T func(T) T", "type T *T", "type T [2]T", "type T [0]T",
	"type T interface{ M() T }", "type T interface{ T }", "type T struct{ a [len(T{}.a)]int }", "type A struct{ b B }\ntype B struct{ a A }", "type A struct{ b *B }\ntype B struct{ a *A }",
	"type A []B\ntype B []A", "type A [1]B\ntype B [1]A", "type A B\ntype B A", "type A = B\ntype B = A", "type A = []A", "type A = *A", "type T struct{ f func() T }", "type T struct{ m map[string]T; s []T; p *T }",
	"type T chan T", "type T interface{ M(T) }\ntype U struct{}\nfunc (U) M(T) {}", "type T struct{ T }", "type T struct{ *T }", "type A struct{ B }\ntype B struct{ *A }", "type T [unsafeSizeof]T",
	"type T struct{ a [1]T }", "type T struct{ a [0]T }", "type T func() (T, T)", "type T interface{ M() interface{ N() T } }", "type T struct{ next *T; val interface{} }",
	"type A interface{ B }\ntype B interface{ A }", "type A interface{ M() B }\ntype B interface{ N() A }", "type T map[string]*T", "type T []*T", "type T struct{ f [2]*T }",
	"type T[P any] struct{ t *T[P] }", "type T interface{}", "type T func(...T)", "type T [len(x)]int\nvar x T", "const c = len(T{})\ntype T [c]int",
}

var c11RecUses = []string{
	"var x T; _ = x", "var x T; println(x)", "var x, y T; println(x == y)", "x := new(T); println(x != nil)", "var x []T; x = append(x, T{}); println(len(x))",
	"var e interface{} = T{}; println(e)", "var x T; y := x; _ = y", "x := T{}; x = append(x, x); x[0] = x; println(len(x))", "x := T{}; x[\"a\"] = x; println(len(x), x)",
	"var x T; x = &x; println(x == *x)", "var x T; x = &x; println(***x == x)", "var x T; x = &x; println(x)", "var x T; x = &x; panic(x)", "x := make(T, 1); x[0] = x; println(x)", "x := &T{}; x.p = x; println(x)", "x := &T{}; x.next = x; x.val = x; println(x)",
	"x := &T{}; x.next = x; x.val = x; y := &T{}; y.next = y; y.val = y; println(*x == *y)", "var a A; var b B; _, _ = a, b", "var a A; println(a)", "a := A{}; b := B{}; a = append(a, b); b = append(b, a); println(len(a), len(b))",
	"var e interface{} = T{}; _, ok := e.(T); println(ok)", "m := map[interface{}]int{}; var x T; m[x] = 1; println(len(m))", "var x T; x = func(T) T { return x }; println(x(x) == nil)",
	"var x T; panic(x)", "var x T; x = &x; panic(x)", "x := T{}; x[\"a\"] = x; panic(x)", "x := make(T, 1); x[0] = x; panic(x)", "x := &T{}; x.next = x; x.val = x; panic(x)", "x := &T{}; x.next = x; x.val = x; var e interface{} = x; println(e == e)",
	"var u U; var t T = u; t.M(t); println(1)", "x := T{}; x.f = func() T { return x }; println(x.f().f != nil)",
}

func c11GenRecType(rt *rapid.T) (string, []string) {
	ty := c11Pick(rt, c11RecTypes, "ty")
	// only uses whose type names the declaration provides
	var uses []string
	for _, u := range c11RecUses {
		ok := true
		for _, n := range []string{"T", "A", "B", "U"} {
			if regexp.MustCompile(`\b`+n+`\b`).MatchString(u) && !regexp.MustCompile(`type `+n+`\b`).MatchString(ty) {
				ok = false
			}
		}
		if ok && strings.Contains(u, "x = &x") && os.Getenv("VERIF_TIER") != "thorough" {
			ok = false // the known process-killer (see c11GenNest "deref")
		}
		if ok {
			uses = append(uses, u)
		}
	}
	use := c11Pick(rt, uses, "use")
	where := c11Pick(rt, []string{"pkg", "pkg", "local"}, "where")
	var src string
	if where == "local" && !strings.Contains(ty, "func (") {
		src = "package main\n\nfunc main() {\n\t" + strings.ReplaceAll(ty, "\n", "\n\t") + "\n\t" + use + "\n}\n"
	} else {
		src = "package main\n\n" + ty + "\n\nfunc main() {\n\t" + use + "\n}\n"
	}
	return src, []string{ty, use, where}
}

// ---- shadowed builtins / predeclared names

var c11Predeclared = []string{"len", "cap", "append", "make", "new", "copy", "delete", "panic", "recover", "print", "println", "nil", "true", "false", "iota",
	"int", "int8", "uint8", "byte", "rune", "string", "bool", "error", "float64", "uint", "uint64", "any", "realm", "address", "cross", "cur", "revive", "attach", "istypednil", "min", "max", "clear", "complex", "close", "gnocoin", "main", "init", "_"}

var c11ShadowDecls = []string{"var %s = 1", "var %s int", "const %s = 1", "const %s = \"s\"", "type %s int", "type %s struct{ X int }", "type %s = string", "func %s(x int) int { return x }", "func %s() {}",
	"var %s = func(xs ...interface{}) int { return 0 }", "type %s interface{ M() }", "var %s, _ = 1, 2", "type %s []%[1]s", "var %s = %[1]s", "const %s = iota", "type %s func(%[1]s) %[1]s", "var %s [3]int", "var %s = map[string]int{}", "import %s \"strings\""}

var c11ShadowUses = []string{
	"a := []int{1, 2, 3}; println(len(a), cap(a))", "a := make([]int, 2); a = append(a, 1); println(a[2])", "var p *int = new(int); println(*p)", "var e error; println(e == nil)",
	"defer func() { r := recover(); println(r) }(); panic(\"x\")", "x := true; y := false; println(x && !y)", "var s string = \"a\"; var b byte = s[0]; println(b)", "m := map[string]int{\"a\": 1}; delete(m, \"a\"); println(len(m))",
	"const ( a = iota; b ); println(a, b)", "var i int = 1; var f float64 = float64(i); println(f)", "var x interface{} = nil; println(x == nil)", "a := [3]int{}; b := a[:]; copy(b, []int{1}); println(a[0])",
	"var r rune = 'x'; println(string(r))", "var x any = 1; switch x.(type) { case int: println(1) }", "var a address; println(a)", "type T struct{ error }; var t T; println(t.error == nil)",
	"var x uint8 = 255; x++; println(x)", "func() { defer func() { recover() }(); var m map[string]int; m[\"a\"] = 1 }()", "x := []byte(\"abc\"); println(string(x))",
}

func c11GenShadow(rt *rapid.T) (string, []string) {
	n := rapid.IntRange(1, 4).Draw(rt, "n")
	var pkg, loc []string
	var note []string
	for i := 0; i < n; i++ {
		name := c11Pick(rt, c11Predeclared, fmt.Sprintf("name%d", i))
		d := c11Pick(rt, c11ShadowDecls, fmt.Sprintf("decl%d", i))
		decl := fmt.Sprintf(d, name)
		decl = strings.ReplaceAll(decl, "%!(EXTRA string="+name+")", "")
		note = append(note, decl)
		if strings.HasPrefix(decl, "func ") || strings.HasPrefix(decl, "import ") || rapid.Bool().Draw(rt, fmt.Sprintf("pkg%d", i)) {
			pkg = append(pkg, decl)
		} else {
			loc = append(loc, decl+"; _ = "+name)
		}
	}
	use := c11Pick(rt, c11ShadowUses, "use")
	var imports, decls []string
	for _, p := range pkg {
		if strings.HasPrefix(p, "import ") {
			imports = append(imports, p)
		} else {
			decls = append(decls, p)
		}
	}
	fn := c11Pick(rt, []string{"main", "main", "main", "init"}, "fn")
	src := "package main\n\n" + strings.Join(imports, "\n") + "\n\n" + strings.Join(decls, "\n") + "\n\nfunc " + fn + "() {\n\t" + strings.Join(loc, "\n\t") + "\n\t" + use + "\n}\n"
	if fn == "init" {
		src += "\nfunc main() {}\n"
	}
	return src, append(note, use)
}

// ---- initialisation order and cycles

var c11InitProgs = []string{
	"var a = b\nvar b = a", "var a = f()\nfunc f() int { return a }", "var a = f()\nfunc f() int { return g() }\nfunc g() int { return a }", "var a = func() int { return a }()",
	"var a = b + 1\nvar b = c + 1\nvar c = 1", "var a, b = b, a", "var a = T{}.M()\ntype T struct{}\nfunc (T) M() int { return a }", "var a = T.M\ntype T struct{}\nfunc (T) M() int { _ = a; return 1 }",
	"var a = i.M()\nvar i I = T{}\ntype I interface{ M() int }\ntype T struct{}\nfunc (T) M() int { return a }", "var a = [len(b)]int{}\nvar b = [len(a)]int{}", "const a = b\nconst b = a", "const a = len([a]int{})",
	"var a = &b\nvar b = &a", "var a interface{} = &a", "var a = []interface{}{&a}", "type T struct{ p *T }\nvar a = T{&a}", "var a = map[string]interface{}{\"a\": &a}", "var f = func() { f() }",
	"var f func()\nfunc init() { f = func() { f() } }", "func init() { init2() }\nfunc init2() { x = 1 }\nvar x int", "func init() { main() }", "func init() { panic(\"init\") }", "var x = func() int { panic(\"varinit\") }()",
	"func init() {}\nfunc init() {}\nfunc init() {}\nvar _ = init", "var _ = main", "var a = b()\nvar b = func() int { return c }\nvar c = a", "var x = y\nvar y = z\nvar z = f()\nfunc f() int { return x }",
	"var (\n\ta = c + b\n\tb = f()\n\tc = f()\n\td = 3\n)\nfunc f() int { d++; return d }", "var a = g(h)\nfunc g(f func() int) int { return f() }\nfunc h() int { return a }", "type T struct{}\nfunc (t T) M() int { return x }\nvar x = T{}.M()",
	"type T [len(a)]int\nvar a T", "var a = b\nvar b = func() int { return 1 }()\nvar _ = func() int { a = 2; return a }()", "var x int = func() int { defer func() { recover() }(); var p *int; return *p }()",
	"var once = func() int { if cnt > 0 { return cnt }; cnt++; return once2() }()\nvar cnt int\nfunc once2() int { return 7 }", "var s = []int{0: len(s)}", "var m = map[int]int{len(m): 1}", "var p = &[1]int{len(p)}",
	"import \"strings\"\nvar strings2 = strings.Repeat\nvar x = strings2(\"a\", 1<<10)", "var a [1 << 20]int\nvar b = a\nvar c = b", "var x, y = f()\nfunc f() (int, int) { return y, x }",
}

func c11GenInit(rt *rapid.T) (string, []string) {
	p := c11Pick(rt, c11InitProgs, "p")
	realm := c11Uniform(rt, 4, "realm") == 0
	if realm {
		p = strings.ReplaceAll(p, "func init() { main() }", "func init() { init() }")
		return "package initx\n\n" + p + "\n", []string{"realm", p}
	}
	bodies := []string{"", "println(1)"}
	for _, v := range []string{"a", "x", "f", "s", "m", "p", "once"} {
		if regexp.MustCompile(`(?m)^var ` + v + `\b`).MatchString(p) {
			bodies = append(bodies, "println("+v+")", "_ = "+v)
		}
	}
	if strings.Contains(p, "var f = func() {") || strings.Contains(p, "var f func()") {
		bodies = append(bodies, "f()")
	}
	body := c11Pick(rt, bodies, "body")
	return "package main\n\n" + p + "\n\nfunc main() {\n\t" + body + "\n}\n", []string{"main", p, body}
}

// ---- giant composite literals

func c11GenGiant(rt *rapid.T) (string, []string) {
	k := c11Pick(rt, []string{"slice", "array", "map", "structs", "strings", "nested", "sparse", "args", "params", "returns", "cases", "fields", "assign", "vars", "funcs", "methods", "ifaces", "imports", "byteslit", "dupkeys"}, "k")
	n := c11Pick(rt, []int{10, 100, 1000, 5000, 20000, 60000}, "n")
	var b strings.Builder
	b.WriteString("package main\n\n")
	seq := func(f func(i int) string, sep string) string {
		var s strings.Builder
		for i := 0; i < n; i++ {
			if i > 0 {
				s.WriteString(sep)
			}
			s.WriteString(f(i))
		}
		return s.String()
	}
	num := func(i int) string { return fmt.Sprint(i) }
	switch k {
	case "slice":
		fmt.Fprintf(&b, "var x = []int{%s}\n\nfunc main() { println(len(x)) }\n", seq(num, ", "))
	case "array":
		fmt.Fprintf(&b, "func main() {\n\tx := [...]int{%s}\n\ty := x\n\tprintln(len(y), x == y)\n}\n", seq(num, ", "))
	case "map":
		fmt.Fprintf(&b, "func main() {\n\tx := map[int]int{%s}\n\tprintln(len(x))\n}\n", seq(func(i int) string { return fmt.Sprintf("%d: %d", i, i) }, ", "))
	case "dupkeys":
		fmt.Fprintf(&b, "func main() {\n\tk := 1\n\tx := map[int]int{%s}\n\tprintln(len(x))\n}\n", seq(func(i int) string { return "k: 1" }, ", "))
	case "structs":
		fmt.Fprintf(&b, "type T struct{ A, B int; S string }\n\nfunc main() {\n\tx := []T{%s}\n\tprintln(len(x))\n}\n", seq(func(i int) string { return fmt.Sprintf("{%d, %d, \"s\"}", i, i) }, ", "))
	case "strings":
		fmt.Fprintf(&b, "func main() {\n\tx := []string{%s}\n\tprintln(len(x))\n}\n", seq(func(i int) string { return fmt.Sprintf("\"s%d\"", i) }, ", "))
	case "byteslit":
		fmt.Fprintf(&b, "func main() {\n\tx := []byte{%s}\n\tprintln(len(x), string(x[:2]))\n}\n", seq(func(i int) string { return fmt.Sprint(i % 256) }, ", "))
	case "nested":
		if n > 5000 {
			n = 5000
		}
		fmt.Fprintf(&b, "func main() {\n\tx := [][]int{%s}\n\tprintln(len(x))\n}\n", seq(func(i int) string { return "{1, 2, 3, 4, 5, 6, 7, 8}" }, ", "))
	case "sparse":
		idx := c11Pick(rt, []string{"1 << 10", "1 << 20", "1 << 26", "1 << 30", "1 << 31", "1 << 40", "1<<63 - 1", "100000000"}, "idx")
		ty := c11Pick(rt, []string{"[]int", "[...]int", "[]byte", "[...]byte", "[]string", "[]struct{}", "[...]struct{}", "[][8]int"}, "ty")
		el := "1"
		if strings.Contains(ty, "string") {
			el = "\"a\""
		} else if strings.Contains(ty, "struct") {
			el = "{}"
		} else if strings.Contains(ty, "[8]") {
			el = "{}"
		}
		fmt.Fprintf(&b, "func main() {\n\tx := %s{%s: %s}\n\tprintln(len(x))\n}\n", ty, idx, el)
	case "args":
		fmt.Fprintf(&b, "func f(xs ...int) int { return len(xs) }\n\nfunc main() { println(f(%s)) }\n", seq(num, ", "))
	case "params":
		if n > 5000 {
			n = 5000
		}
		fmt.Fprintf(&b, "func f(%s int) int { return p0 }\n\nfunc main() { println(f(%s)) }\n", seq(func(i int) string { return fmt.Sprintf("p%d", i) }, ", "), seq(num, ", "))
	case "returns":
		if n > 5000 {
			n = 5000
		}
		fmt.Fprintf(&b, "func f() (%s int) { return }\n\nfunc main() {\n\t%s := f()\n\tprintln(r0)\n}\n", seq(func(i int) string { return fmt.Sprintf("r%d", i) }, ", "), seq(func(i int) string {
			if i == 0 {
				return "r0"
			}
			return "_"
		}, ", "))
	case "cases":
		if n > 20000 {
			n = 20000
		}
		fmt.Fprintf(&b, "func main() {\n\tx := %d\n\tswitch x {\n%s\n\t}\n}\n", n-1, seq(func(i int) string { return fmt.Sprintf("\tcase %d:\n\t\tprintln(%d)", i, i) }, "\n"))
	case "fields":
		if n > 20000 {
			n = 20000
		}
		fmt.Fprintf(&b, "type T struct {\n%s\n}\n\nfunc main() {\n\tx := T{F%d: 1}\n\tprintln(x.F%d)\n\tprintln(x)\n}\n", seq(func(i int) string { return fmt.Sprintf("\tF%d int", i) }, "\n"), n-1, n-1)
	case "assign":
		if n > 5000 {
			n = 5000
		}
		fmt.Fprintf(&b, "func main() {\n\ta := make([]int, %d)\n\t%s = %s\n\tprintln(a[0])\n}\n", n, seq(func(i int) string { return fmt.Sprintf("a[%d]", i) }, ", "), seq(func(i int) string { return fmt.Sprintf("a[%d]", n-1-i) }, ", "))
	case "vars":
		if n > 20000 {
			n = 20000
		}
		fmt.Fprintf(&b, "%s\n\nfunc main() { println(v%d) }\n", seq(func(i int) string {
			if i == 0 {
				return "var v0 = 1"
			}
			return fmt.Sprintf("var v%d = v%d + 1", i, i-1)
		}, "\n"), n-1)
	case "funcs":
		if n > 20000 {
			n = 20000
		}
		fmt.Fprintf(&b, "%s\n\nfunc main() { println(f%d()) }\n", seq(func(i int) string {
			if i == 0 {
				return "func f0() int { return 1 }"
			}
			return fmt.Sprintf("func f%d() int { return f%d() + 1 }", i, i-1)
		}, "\n"), n-1)
	case "methods":
		if n > 20000 {
			n = 20000
		}
		fmt.Fprintf(&b, "type T struct{}\n\n%s\n\nfunc main() { println(T{}.M%d()) }\n", seq(func(i int) string { return fmt.Sprintf("func (T) M%d() int { return %d }", i, i) }, "\n"), n-1)
	case "ifaces":
		if n > 10000 {
			n = 10000
		}
		fmt.Fprintf(&b, "type I interface {\n%s\n}\n\ntype T struct{}\n\n%s\n\nfunc main() {\n\tvar i I = T{}\n\tprintln(i.M%d())\n\t_, ok := interface{}(i).(I)\n\tprintln(ok)\n}\n",
			seq(func(i int) string { return fmt.Sprintf("\tM%d() int", i) }, "\n"), seq(func(i int) string { return fmt.Sprintf("func (T) M%d() int { return %d }", i, i) }, "\n"), n-1)
	case "imports":
		if n > 2000 {
			n = 2000
		}
		fmt.Fprintf(&b, "import (\n%s\n)\n\nfunc main() { println(s0.Repeat(\"a\", 2)) }\n", seq(func(i int) string { return fmt.Sprintf("\ts%d \"strings\"", i) }, "\n"))
	}
	return b.String(), []string{k, fmt.Sprint(n)}
}

// ---- deep recursion

var c11RecurProgs = []string{
	"func f(n int) int { return f(n+1) + 1 }\n\nfunc main() { println(f(0)) }",
	"func f(n int) int { if n == 0 { return 0 }; return f(n-1) + 1 }\n\nfunc main() { println(f(%d)) }",
	"func f(n int) int { return g(n + 1) }\nfunc g(n int) int { return f(n + 1) }\n\nfunc main() { println(f(0)) }",
	"func main() { var f func(int) int; f = func(n int) int { return f(n+1) + 1 }; println(f(0)) }",
	"func f(n int) { defer f(n + 1) }\n\nfunc main() { f(0) }",
	"func f(n int) { defer func() { f(n + 1) }() }\n\nfunc main() { f(0) }",
	"func f(n int) { defer func() { recover(); f(n + 1) }(); panic(n) }\n\nfunc main() { f(0) }",
	"func f(n int) { defer func() { panic(n) }(); panic(n) }\n\nfunc main() { defer func() { println(recover()) }(); f(0) }",
	"func main() { for { defer func() {}() } }",
	"func main() { for i := 0; i < %d; i++ { defer func() { recover() }() }; panic(\"x\") }",
	"func main() { for i := 0; i < %d; i++ { defer func(i int) { if i %% 2 == 0 { panic(i) }; recover() }(i) } }",
	"type T struct{}\nfunc (t T) String() string { return t.String() }\n\nfunc main() { println(T{}.String()) }",
	"type T struct{}\nfunc (t T) Error() string { panic(t) }\n\nfunc main() { panic(T{}) }",
	"type T struct{}\nfunc (t T) Error() string { return t.Error() }\n\nfunc main() { panic(T{}) }",
	"type T struct{}\nfunc (t T) Error() string { var p *int; return string(rune(*p)) }\n\nfunc main() { panic(T{}) }",
	"type T struct{}\nfunc (t *T) Error() string { return \"e\" }\n\nfunc main() { var t *T; var e error = t; panic(e) }",
	"type T struct{}\nfunc (t T) String() string { panic(\"in String\") }\n\nfunc main() { var e interface{} = T{}; println(e); panic(e) }",
	"type E struct{ e error }\nfunc (e E) Error() string { return e.e.Error() }\n\nfunc main() { var e E; e.e = &e; panic(e) }",
	"type I interface{ M(int) int }\ntype A struct{ i I }\nfunc (a *A) M(n int) int { return a.i.M(n+1) + 1 }\n\nfunc main() { a := &A{}; a.i = a; println(a.M(0)) }",
	"func f(a [1024]int, n int) int { return f(a, n+1) + a[0] }\n\nfunc main() { var a [1024]int; println(f(a, 0)) }",
	"func f(s string, n int) int { return f(s+s, n+1) }\n\nfunc main() { println(f(\"0123456789\", 0)) }",
	"func f(xs []int) []int { return f(append(xs, xs...)) }\n\nfunc main() { println(len(f([]int{1, 2, 3}))) }",
	"func f(n int) (r int) { defer func() { r = f(n+1) }(); return 0 }\n\nfunc main() { println(f(0)) }",
	"func main() { main() }",
	"func init() { init2() }\nfunc init2() { init2() }\n\nfunc main() {}",
	"var x = f(0)\nfunc f(n int) int { return f(n+1) + 1 }\n\nfunc main() {}",
	"func main() {\nL:\n\tgoto L\n}",
	"func main() { i := 0\nL:\n\ti++\n\tif i < %d { goto L }\n\tprintln(i) }",
	"func main() { defer func() { for { } }(); panic(1) }",
	"func main() { defer func() { defer func() { defer func() { panic(3) }(); panic(2) }(); panic(1) }(); panic(0) }",
	"func f(n int) { if n == 0 { panic(\"bottom\") }; defer func() { if r := recover(); r != nil { panic(r) } }(); f(n - 1) }\n\nfunc main() { f(%d) }",
	"func f(n int) int { if n == 0 { var p *int; return *p }; return f(n-1) + 1 }\n\nfunc main() { defer func() { println(recover() != nil) }(); f(%d) }",
	"func f(n int) interface{} { if n == 0 { return nil }; return []interface{}{f(n - 1)} }\n\nfunc main() { x := f(%d); println(x) }",
	"func f(n int) interface{} { if n == 0 { return nil }; return []interface{}{f(n - 1)} }\n\nfunc main() { x := f(%d); panic(x) }",
	"func f(n int) interface{} { if n == 0 { return 1 }; return [1]interface{}{f(n - 1)} }\n\nfunc main() { x, y := f(%d), f(%[1]d); println(x == y) }",
	"type L struct{ next *L }\n\nfunc main() { var h *L; for i := 0; i < %d; i++ { h = &L{h} }; println(h); panic(h) }",
	"type L struct{ next *L }\n\nfunc main() { var h *L; for i := 0; i < %d; i++ { h = &L{h} }; m := map[interface{}]int{}; m[*h] = 1; println(len(m)) }",
	"type L struct{ next interface{} }\n\nfunc main() { var h interface{}; for i := 0; i < %d; i++ { h = L{h} }; g := h; println(g == h); m := map[interface{}]int{h: 1}; println(len(m)) }",
}

func c11GenRecur(rt *rapid.T) (string, []string) {
	p := c11Pick(rt, c11RecurProgs, "p")
	note := []string{c11Bound(p, 60)}
	if strings.Contains(p, "%d") || strings.Contains(p, "%[1]d") {
		n := c11Pick(rt, []int{10, 1000, 10000, 100000, 1000000, 100000000}, "n")
		p = strings.ReplaceAll(fmt.Sprintf(p, n), "%!(EXTRA int="+fmt.Sprint(n)+")", "")
		note = append(note, fmt.Sprint(n))
	} else {
		p = strings.ReplaceAll(p, "%%", "%")
	}
	return "package main\n\n" + p + "\n", note
}

// ---- big allocations

var c11AllocSizes = []string{"-1", "0", "1", "1 << 10", "1 << 20", "1 << 24", "1 << 27", "1 << 28", "1 << 29", "1 << 30", "1 << 31", "1 << 32", "1 << 33", "1 << 40", "1 << 48", "1 << 59", "1 << 60", "1 << 61", "1 << 62", "1<<63 - 1", "500000000", "499999000", "62500000", "62499000"}

var c11AllocProgs = []string{
	"n := %s; a := make([]%s, n); println(len(a))", "n := %s; a := make([]%s, 0, n); println(cap(a))", "n := %s; a := make([]%s, 1, n); a = append(a, a...); println(cap(a) > 0)",
	"a := make([]%[2]s, %[1]s); println(len(a))", "n := %s; m := make(map[int]%s, n); println(len(m))", "n := %s; var a []%s; for i := 0; i < n; i++ { a = append(a, a...); a = append(a, make([]%[2]s, 1)...) }; println(len(a))",
	"n := %s; _ = n; var a []%s; for { a = append(a, make([]%[2]s, 1<<16)...) }", "n := %s; a := make([][]%s, 0); for i := 0; i < 1<<20; i++ { a = append(a, make([]%[2]s, n)) }; println(len(a))",
	"n := %s; type E = %s; s := \"0123456789abcdef\"; for i := 0; i < 64 && len(s) < n; i++ { s += s }; println(len(s))", "n := %s; type E = %s; s := \"x\"; for { s += s; _ = n }",
	"n := %s; type E = %s; b := []byte(\"0123456789abcdef\"); for len(b) < n { b = append(b, b...) }; s := string(b); t := s + s; println(len(t))",
	"n := %s; type E = %s; m := map[int][]byte{}; for i := 0; i < n; i++ { m[i] = make([]byte, 1<<20) }; println(len(m))", "n := %s; type E = %s; m := map[string]string{}; k := \"k\"; for i := 0; i < n; i++ { k += \"k\"; m[k] = k }; println(len(m))",
	"n := %s; a := make([]%s, 8); b := a[:n]; println(len(b))", "n := %s; a := make([]%s, 8); b := a[2:4:n]; println(cap(b))", "n := %s; a := make([]%s, 8); copy(a[n:], a); println(len(a))",
	"n := %s; var a []%s; a = append(a[:0], make([]%[2]s, n)...); a = a[:cap(a)]; println(len(a))", "n := %s; type E = %s; println(len(strings.Repeat(\"ab\", n)))", "n := %s; type E = %s; println(len(bytes.Repeat([]byte(\"ab\"), n)))",
	"n := %s; type E = %s; var sb strings.Builder; for i := 0; i < n; i++ { sb.WriteString(\"0123456789abcdef0123456789abcdef\") }; println(sb.Len())", "n := %s; type E = %s; s := strconv.Itoa(n); println(strings.Repeat(s, n %% 1000))",
	"n := %s; p := new([1 << 20]%s); q := *p; q[0] = q[n %% 2]; println(len(q))", "n := %s; a := [][]%s{}; for i := 0; i < n; i++ { a = append(a, nil) }; println(len(a))", "n := %s; type E = %s; a := make([]string, n); for i := range a { a[i] = \"x\" }; println(strings.Join(a, \",\")[:1])",
	"n := %s; type E = %s; a := make([]interface{}, n); for i := range a { a[i] = a }; println(len(a))", "n := %s; a := make([]%s, n); for i := 0; i < 40; i++ { a = append(a, a...) }; println(len(a))",
	"n := %s; type E = %s; s := make([]byte, n); t := string(s); u := []byte(t); v := string(u); println(len(v))", "n := %s; type E = %s; r := make([]rune, n); s := string(r); println(len(s))",
	"n := %s; type E = %s; s := string(make([]byte, n)); r := []rune(s); println(len(r))", "n := %s; type E = %s; s := string(make([]byte, n)); c := 0; for range s { c++ }; println(c)", "n := %s; type E = %s; s := string(make([]byte, n)); println(strings.ToUpper(s) == s, strings.Count(s, \"\"))",
}

func c11GenAlloc(rt *rapid.T) (string, []string) {
	p := c11Pick(rt, c11AllocProgs, "p")
	sizes := c11AllocSizes
	if os.Getenv("VERIF_TIER") != "thorough" {
		// sizes just below the limit really allocate hundreds of MB (seconds
		// each on a loaded machine): thorough tier only
		sizes = nil
		for _, z := range c11AllocSizes {
			switch z {
			case "1 << 27", "1 << 28", "1 << 29", "500000000", "499999000", "62500000", "62499000":
			default:
				sizes = append(sizes, z)
			}
		}
	}
	n := c11Pick(rt, sizes, "n")
	ty := c11Pick(rt, []string{"byte", "int", "string", "struct{}", "[64]int", "interface{}", "bool", "[0]int", "float64", "*int", "[]int", "map[int]int", "struct{ a, b int; s string }", "[1 << 16]byte"}, "ty")
	body := strings.ReplaceAll(fmt.Sprintf(p, n, ty), "%!(EXTRA string="+ty+")", "")
	if i := strings.Index(body, "%!(EXTRA"); i >= 0 {
		body = body[:i]
	}
	var imps []string
	for _, im := range []string{"strings", "bytes", "strconv"} {
		if strings.Contains(body, im+".") {
			imps = append(imps, "\""+im+"\"")
		}
	}
	src := "package main\n\n"
	if len(imps) > 0 {
		src += "import (\n\t" + strings.Join(imps, "\n\t") + "\n)\n\n"
	}
	guard := rapid.Bool().Draw(rt, "guard")
	if guard {
		src += "func main() {\n\tdefer func() { r := recover(); println(r != nil) }()\n\t" + body + "\n}\n"
	} else {
		src += "func main() {\n\t" + body + "\n}\n"
	}
	return src, []string{c11Bound(p, 50), n, ty}
}
