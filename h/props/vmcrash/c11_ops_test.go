package vmcrash

import (
	"fmt"
	"os"
	"strings"

	"pgregory.net/rapid"
)

// Well-typed programs made of "risky" runtime operations over variables whose
// values are drawn from boundary sets: every operation either succeeds or must
// end in a Gno panic - never in a Go panic of the interpreter.

const c11OpsPrelude = `package main

type S struct {
	A int
	B string
	P *S
	F func(int) int
	M map[string]int
	X []int
}

type I interface{ Get() int }

func (s S) Get() int   { return s.A }
func (s *S) Set(v int) { s.A = v }

type E struct{ code int }

func (e E) Error() string { return "E" }

func try(f func()) {
	defer func() {
		if r := recover(); r != nil {
			println("recovered")
		}
	}()
	f()
}

func id(x int) int { return x }
`

var c11IntTypes = []string{"int", "int8", "int16", "int32", "int64", "uint", "uint8", "uint16", "uint32", "uint64"}

func c11IntVal(rt *rapid.T, ty, l string) string {
	v := c11Pick(rt, []string{"0", "1", "2", "-1", "-2", "MIN", "MAX", "MAX-1", "MIN+1", "7", "63", "64", "65", "31", "32", "8", "100", "-100", "255", "256", "1000000"}, l)
	bits := map[string]int{"int": 64, "int8": 8, "int16": 16, "int32": 32, "int64": 64, "uint": 64, "uint8": 8, "uint16": 16, "uint32": 32, "uint64": 64}[ty]
	uns := strings.HasPrefix(ty, "u")
	min, max := fmt.Sprintf("(-1 << %d)", bits-1), fmt.Sprintf("(1<<%d - 1)", bits-1)
	if uns {
		min, max = "0", fmt.Sprintf("(1<<%d - 1)", bits)
	}
	v = strings.ReplaceAll(strings.ReplaceAll(v, "MIN", min), "MAX", max)
	if uns && strings.HasPrefix(v, "-") {
		v = v[1:]
	}
	// keep the literal inside the type's range (the Go type checker would reject it otherwise)
	switch v {
	case "255", "256", "1000000", "100", "-100", "63", "64", "65", "31", "32":
		if bits == 8 {
			v = "7"
		}
	}
	if v == "1000000" && bits == 16 {
		v = "1000"
	}
	return ty + "(" + v + ")"
}

var c11FloatVals = []string{"0.0", "1.0", "-1.0", "0.5", "1e308", "-1e308", "1e-320", "9.3e18", "-9.3e18", "1.9e19", "4.3e9", "2.2e9", "300.0", "-129.0", "1e30", "0.1"}

// each template uses some of: a, b (ints of type T), u (unsigned shift count), sh (signed shift count), f, g (float64), h (float32), s, t (string), i, j, k (int), xs ([]int), bs ([]byte), arr ([4]int), m, mnil (map[string]int), p, pnil (*S), e (interface{}), fn, fnil (func(int) int), it (I), err (error)
var c11OpTemplates = []string{
	"println(a / b)", "println(a % b)", "a /= b; println(a)", "a %= b; println(a)", "println(a + b, a - b, a * b)", "println(-a, ^a, +a)", "a++; println(a)", "a--; println(a)", "println(a << u)", "println(a >> u)", "println(a << sh)", "println(a >> sh)",
	"a <<= u; println(a)", "a >>= sh; println(a)", "println(a & b, a | b, a ^ b, a &^ b)", "println(a < b, a == b, a >= b)", "println(T(f), T(g))", "println(T(h))", "println(float64(a), float32(b))", "println(int8(a), uint8(a), int16(b), uint64(a), int(b))",
	"println(1 << u)", "println(uint8(1) << u)", "println(int64(1) << sh)", "var c T = 1 << u; println(c)", "println(f / g, f * g, f - g, f + g)", "println(f < g, f == g, f != f)", "println(h * h, float32(f))", "println(int(f), int64(g), uint(f), uint8(g), int8(f), uint64(g))",
	"println(s[i])", "println(s[i:j])", "println(s[i:])", "println(s[:j])", "println(len(s+t), s+t == t+s, s < t)", "println(string(rune(i)), string(rune(a)))", "println([]byte(s)[i])", "println([]rune(s)[i])", "for x, r := range s { _, _ = x, r }; println(len(s))",
	"println(xs[i])", "xs[i] = j; println(xs[i])", "println(len(xs[i:j]))", "println(len(xs[i:j:k]), cap(xs[i:j:k]))", "println(len(xs[:j]), cap(xs[i:]))", "xs = append(xs[:i], xs[j:]...); println(len(xs))", "println(copy(xs[i:], xs[j:]))", "xs = xs[:k]; println(len(xs))",
	"println(arr[i])", "arr[i] = 1; println(arr[i])", "println(len(arr[i:j]))", "pa := &arr; println(pa[i], len(pa[i:j]))", "var pa *[4]int; println(len(pa)); println(pa[i])", "println(bs[i], string(bs[i:j]))",
	"println(m[s])", "m[s] = i; println(len(m))", "mnil[s] = i", "println(mnil[s], len(mnil))", "delete(mnil, s); delete(m, s); println(len(m))", "for k2, v := range m { m[k2+\"x\"] = v; delete(m, k2) }; println(len(m) >= 0)", "v, ok := m[t]; println(v, ok)",
	"println(p.A, p.B)", "println(pnil.A)", "pnil.A = 1", "println(pnil.Get())", "pnil.Set(1)", "println((*pnil).A)", "println(p.P.A)", "p.P = p; println(p.P.P.P.A)", "println(p.F(i))", "println(p.M[s]); p.M[s] = 1", "println(p.X[i])", "q := *p; q.A = i; println(p.A == q.A)",
	"println(fn(i))", "println(fnil(i))", "defer fnil(i)", "defer fn(i)", "println(it.Get())", "var it2 I; println(it2.Get())", "it = pnil; println(it.Get())", "println(e.(int))", "println(e.(string))", "println(e.(I).Get())", "v, ok := e.(I); println(v == nil, ok)", "println(e.(interface{ Foo() }))",
	"println(e == e)", "var e2 interface{} = xs; println(e2 == e2)", "var e2 interface{} = m; println(e == e2)", "var e2 interface{} = fn; println(e2 == e2)", "me := map[interface{}]int{}; me[e] = 1; println(len(me))", "me := map[interface{}]int{}; me[xs] = 1",
	"me := map[interface{}]int{}; me[[1]interface{}{xs}] = 1", "me := map[[2]string]int{}; me[[2]string{s, t}] = 1; println(me[[2]string{s, t}])", "println(err.Error())", "err = E{i}; println(err.Error(), err == E{i})",
	"panic(err)", "panic(e)", "panic(p)", "panic(xs)", "panic(m)", "panic(fn)", "panic(f)", "panic(a)", "panic(nil)", "panic(it)", "panic(arr)", "panic(S{})", "panic(&arr)", "panic(E{i})", "panic([]interface{}{e, xs, m, p, fn})", "panic(struct{ a interface{} }{e})",
	"println(p, xs, m, arr, e, fn, it, err)", "println(pnil, mnil, fnil)", "print(a, f, s, h, '\\n')", "println(S{}, &S{}, []S{{}}, map[string]S{\"a\": {}})", "println([]interface{}{e, nil, 1, \"s\", 1.5})",
	"switch { case a > b: println(1); fallthrough; case a < b: println(2); default: println(3) }", "switch x := e.(type) { case int: println(x + 1); case string: println(x + \"s\"); case nil: println(\"nil\"); case I, error: println(x != nil); default: println(\"other\") }",
	"for i2 := range xs { xs = append(xs, i2); if len(xs) > 100 { break } }; println(len(xs))", "for i2, v := range arr { arr[(i2+1)%4] = v + 1 }; println(arr[0])", "for k2 := range mnil { println(k2) }",
	"var fs []func() int; for i2 := 0; i2 < 3; i2++ { fs = append(fs, func() int { return i2 }) }; println(fs[0](), fs[2]())", "x := 0; defer func() { x++; println(x) }(); func() { defer func() { recover(); x += 10 }(); panic(x) }()",
	"func() { defer func() { println(recover()) }(); defer func() { panic(\"second\") }(); panic(\"first\") }()", "func() { defer func() { recover(); recover() }(); panic(1) }()", "r := recover(); println(r)", "func() { defer recover(); panic(1) }()", "func() { defer println(recover()); panic(1) }()",
	"func() (r int) { defer func() { r = r / id(0) }(); return 1 }()", "func() (r int) { defer func() { recover(); r = 7 }(); return xs[i] }()", "var z struct{}; var y [0]int; println(z == struct{}{}, len(y), y == [0]int{})", "type Z [0]func(); var z Z; println(len(z))",
	"var aa [][]int; aa = append(aa, nil); aa[0] = append(aa[0], i); println(aa[0][0], len(aa[j]))", "mm := map[string]map[string]int{}; mm[s][t] = 1", "mm := map[string][]int{}; mm[s] = append(mm[s], i); println(mm[s][0])", "ms := map[string]*S{}; ms[s].A = 1", "ms := map[string]S{}; println(ms[s].A)",
	"x, y := i, j; x, y = y, x; xs[x], xs[y] = xs[y], xs[x]; println(xs[0])", "i, xs[i] = j, k; println(i, xs[0])", "xs[i], i = k, j; println(i)", "p, p.A = pnil, 5", "var q *S; q, q.A = p, 5; println(q.A)",
	"println(len(xs[j:i]))", "println(len(s[j:i]))", "println(xs[len(xs)])", "println(xs[-i])", "println(cap(xs[i:]) - len(xs))", "ys := xs[i:j]; ys = append(ys, 99); println(xs[j %% len(xs)])",
	"var u8 uint8 = uint8(a); println(u8 + 200, u8 * u8, -u8)", "var i8 int8 = int8(a); println(i8 * i8, -i8, i8 / int8(b|1))", "x := a; x *= x; x *= x; x *= x; println(x)", "println(a*b/b == a)", "var d T; println(a / (d + b - b))", "println(i / j, i % j, k / (i - i))", "println(f / (g - g), int(f/(g-g)))",
	"println(uint(i), uint32(j), int32(k << 31), uint16(i * j))", "println(string(rune(k)), string(rune(-1)), string(rune(0x10ffff+i)))", "println(strconv.Itoa(i), strconv.Quote(s))", "n, err2 := strconv.Atoi(s); println(n, err2)", "println(strings.Repeat(s, i))", "println(strings.Index(s, t), strings.Split(s, t), strings.Fields(s))",
	// boundary-directed: the index is computed from the length at run time
	"i = len(s); println(s[i])", "i = len(s) - 1; println(s[i])", "i = len(s) + 1; println(s[i])", "j = len(s) + 1; println(s[:j])", "j = len(s) + 1; println(s[1:j])", "i = len(s) + 1; println(s[i:])", "i, j = len(s), len(s); println(s[i:j])",
	"i = len(bs); println(bs[i])", "i = len(bs) - 1; println(bs[i])", "i = len(bs); bs[i] = 1", "j = cap(bs) + 1; println(len(bs[:j]))", "i = len(bs) + 1; println(len(bs[i:]))", "i = len(bs); b2 := []byte(s); println(b2[len(b2)%(i+1)], b2[len(b2)])",
	"i = len(xs); println(xs[i])", "i = len(xs) - 1; println(xs[i])", "i = len(xs); xs[i] = 1", "j = cap(xs) + 1; println(len(xs[:j]))", "i = len(xs) + 1; println(len(xs[i:]))", "i, j, k = 1, 2, cap(xs)+1; println(len(xs[i:j:k]))", "i, j, k = 1, 3, 2; println(len(xs[i:j:k]))",
	"i = len(arr); println(arr[i])", "i = len(arr); arr[i] = 1", "j = len(arr) + 1; println(len(arr[:j]))", "pa := &arr; i = len(pa); println(pa[i])", "ys := xs[1:3]; i = len(ys); println(ys[i])", "ys := xs[1:3]; j = cap(ys) + 1; println(len(ys[:j]))", "ys := bs[1:3]; i = len(ys); println(ys[i])",
	"rs := []rune(s); i = len(rs); println(rs[i])", "ss := []string{s, t}; i = len(ss); println(ss[i])", "i = len(s); println(string(s[i]))", "i = len(t) + len(s); println((s + t)[i])", "xs = xs[:0]; println(xs[0])", "bs = bs[:0]; println(bs[0])", "xs = xs[len(xs):]; println(len(xs), xs[0])",
	"j = 0; println(i / j)", "j = 0; println(i % j)", "j = 0; i /= j", "j = 0; i %= j", "b = 0; println(a / b)", "b = 0; println(a % b)", "b = 0; a /= b", "b = 0; a %= b", "g = 0; println(f / g, int(f/g))", "var z8 int8; println(int8(a) / z8)", "var z64 uint64; println(uint64(a) % z64)",
	"sh = -1; println(a << sh)", "sh = -1; println(a >> sh)", "sh = -1; a <<= sh", "sh = -1; a >>= sh", "sh = -1; println(1 << sh)", "u = 64; println(a << u, a >> u)", "u = 1 << 40; println(a << u, a >> u)",
	// cyclic values reaching the renderers and the comparison / hashing code
	"cy := []interface{}{nil}; cy[0] = cy; println(cy)", "cy := []interface{}{nil}; cy[0] = cy; panic(cy)", "cm := map[string]interface{}{}; cm[\"a\"] = cm; println(cm)", "cm := map[string]interface{}{}; cm[\"a\"] = cm; panic(cm)",
	"cp := &S{}; cp.P = cp; println(cp, *cp)", "cp := &S{}; cp.P = cp; panic(cp)", "cp := &S{}; cp.P = cp; panic(*cp)", "ca := [1]interface{}{}; ca[0] = &ca; println(ca); panic(ca)",
	"type N struct{ v interface{} }; cn := &N{}; cn.v = cn; println(*cn == *cn); panic(*cn)", "type N struct{ v interface{} }; cn := &N{}; cn.v = cn; me := map[interface{}]int{}; me[*cn] = 1; println(len(me))", "cy := []interface{}{nil}; cy[0] = &cy; var e2 interface{} = cy[0]; println(e2 == e2)",
	"println(it.(*S).A)", "println(it.(S).A)", "var n interface{}; println(n.(int))", "var n I; n.(*S).Set(1)", "f2 := it.Get; println(f2())", "f2 := pnil.Get; println(f2())", "f2 := S.Get; println(f2(S{A: i}))", "f2 := (*S).Set; f2(pnil, 1)", "f2 := I.Get; println(f2(it))", "var n I; f2 := n.Get; println(f2())",
}

func c11GenOps(rt *rapid.T) (string, []string) {
	T := c11Pick(rt, c11IntTypes, "T")
	var b strings.Builder
	b.WriteString(c11OpsPrelude)
	n := rapid.IntRange(4, 12).Draw(rt, "nops")
	var ops []string
	needStrconv, needStrings := false, false
	for i := 0; i < n; i++ {
		op := c11Pick(rt, c11OpTemplates, fmt.Sprintf("op%d", i))
		op = strings.ReplaceAll(op, "%%", "%")
		ops = append(ops, op)
		needStrconv = needStrconv || strings.Contains(op, "strconv.")
		needStrings = needStrings || strings.Contains(op, "strings.")
	}
	src := b.String()
	if needStrconv || needStrings {
		imp := "\nimport (\n"
		if needStrconv {
			imp += "\t\"strconv\"\n"
		}
		if needStrings {
			imp += "\t\"strings\"\n"
		}
		src = strings.Replace(src, "package main\n", "package main\n"+imp+")\n", 1)
	}
	b.Reset()
	b.WriteString(src)
	fmt.Fprintf(&b, "\ntype T = %s\n\nfunc main() {\n", T)
	idx := func(l string) string {
		return c11Pick(rt, []string{"0", "1", "2", "3", "4", "5", "-1", "1 << 40", "-1 << 63", "1<<63 - 1", "100"}, l)
	}
	fmt.Fprintf(&b, "\tvar a, b T = %s, %s\n", c11IntVal(rt, T, "a"), c11IntVal(rt, T, "b"))
	fmt.Fprintf(&b, "\tvar u uint = %s\n", c11Pick(rt, []string{"0", "1", "7", "8", "31", "32", "63", "64", "65", "1000", "1 << 40", "1<<64 - 1"}, "u"))
	fmt.Fprintf(&b, "\tvar sh int = %s\n", c11Pick(rt, []string{"0", "1", "63", "64", "-1", "-64", "1 << 40", "-1 << 63", "1<<63 - 1"}, "sh"))
	fmt.Fprintf(&b, "\tvar f, g float64 = %s, %s\n", c11Pick(rt, c11FloatVals, "f"), c11Pick(rt, c11FloatVals, "g"))
	fmt.Fprintf(&b, "\tvar h float32 = %s\n", c11Pick(rt, []string{"0.0", "1.5", "3e38", "-3e38", "1e-45", "2.2e9", "300.0"}, "h"))
	fmt.Fprintf(&b, "\tvar s, t string = %s, %s\n", c11Pick(rt, []string{`""`, `"a"`, `"abc"`, `"héllo"`, `"\xff\xfe"`, `"12"`, `"-9223372036854775808"`}, "s"), c11Pick(rt, []string{`""`, `"a"`, `"b"`, `"abc"`}, "t"))
	fmt.Fprintf(&b, "\tvar i, j, k int = %s, %s, %s\n", idx("i"), idx("j"), idx("k"))
	b.WriteString("\txs := []int{10, 20, 30, 40}\n\tbs := []byte(\"bytes\")\n\tarr := [4]int{1, 2, 3, 4}\n\tm := map[string]int{\"a\": 1, \"b\": 2}\n\tvar mnil map[string]int\n")
	b.WriteString("\tp := &S{A: 1, B: \"b\", F: id, M: map[string]int{}, X: []int{1}}\n\tvar pnil *S\n")
	fmt.Fprintf(&b, "\tvar e interface{} = %s\n", c11Pick(rt, []string{"nil", "1", `"s"`, "1.5", "S{A: 2}", "&S{A: 3}", "[]int{1}", "map[string]int{}", "id", "E{1}", "[2]int{1, 2}", "struct{}{}", "int8(3)", "pnil", "[1]interface{}{[]int{1}}"}, "e"))
	b.WriteString("\tfn := id\n\tvar fnil func(int) int\n\tvar it I = p\n\tvar err error\n")
	b.WriteString("\t_, _, _, _, _, _, _, _, _, _, _, _ = a, b, u, sh, f, g, h, s, t, i, j, k\n\t_, _, _, _, _, _, _, _, _, _, _, _, _ = xs, bs, arr, m, mnil, p, pnil, e, fn, fnil, it, err, T(0)\n")
	wrap := c11Pick(rt, []string{"try", "try", "try", "bare"}, "wrap")
	for _, op := range ops {
		if wrap == "try" && !strings.HasPrefix(op, "r := recover()") {
			fmt.Fprintf(&b, "\ttry(func() { %s })\n", op)
		} else {
			fmt.Fprintf(&b, "\t{ %s }\n", op)
		}
	}
	b.WriteString("}\n")
	return b.String(), append([]string{T, wrap}, ops...)
}

// ---- control-flow shapes: switch / fallthrough / closures / goto / labels

func c11GenFlow(rt *rapid.T) (string, []string) {
	var b strings.Builder
	b.WriteString("package main\n\nfunc main() {\n")
	nsw := rapid.IntRange(1, 2).Draw(rt, "nsw")
	var note []string
	for w := 0; w < nsw; w++ {
		l := func(s string, c int) string { return fmt.Sprintf("w%d%s%d", w, s, c) }
		shape := c11Pick(rt, []string{"switch", "switch", "switch", "switchinit", "forswitch", "typeswitch", "gotoloop", "labelnest", "rangeclosure", "deferloop"}, l("shape", 0))
		note = append(note, shape)
		switch shape {
		case "switch", "switchinit", "forswitch":
			nc := rapid.IntRange(2, 5).Draw(rt, l("nc", 0))
			x := rapid.IntRange(0, nc).Draw(rt, l("x", 0))
			if shape == "forswitch" {
				fmt.Fprintf(&b, "\tfor x := 0; x <= %d; x++ {\n", nc)
			} else {
				fmt.Fprintf(&b, "\t{\n\tx := %d\n", x)
			}
			if shape == "switchinit" {
				b.WriteString("\tswitch y := x + 1; x {\n")
			} else {
				b.WriteString("\tswitch x {\n")
			}
			for c := 0; c < nc; c++ {
				last := c == nc-1
				if last && rapid.Bool().Draw(rt, l("def", c)) {
					b.WriteString("\tdefault:\n")
				} else {
					fmt.Fprintf(&b, "\tcase %d:\n", c)
				}
				nl := c11Uniform(rt, 4, l("nl", c))
				for v := 0; v < nl; v++ {
					init := c11Pick(rt, []string{"%d", "\"s%d\"", "[]int{%d}", "&x", "func() int { return %d }", "x + %d"}, l(fmt.Sprintf("init%d_", v), c))
					if strings.Contains(init, "%d") {
						init = fmt.Sprintf(init, c*10+v)
					}
					fmt.Fprintf(&b, "\t\tv%d_%d := %s\n\t\t_ = v%d_%d\n", c, v, init, c, v)
				}
				if nl > 0 && rapid.Bool().Draw(rt, l("cap", c)) {
					fmt.Fprintf(&b, "\t\tf%d := func() { _ = v%d_0; x++ }\n\t\tf%d()\n", c, c, c)
				}
				if shape == "switchinit" && rapid.Bool().Draw(rt, l("usey", c)) {
					b.WriteString("\t\ty++\n\t\tg := func() int { return y }\n\t\tprintln(g())\n")
				}
				fmt.Fprintf(&b, "\t\tprintln(\"c%d\", x)\n", c)
				if c11Uniform(rt, 6, l("blk", c)) == 0 {
					b.WriteString("\t\t{\n\t\t\tz := 1\n\t\t\t_ = z\n\t\t}\n")
				}
				if !last && c11Uniform(rt, 3, l("ft", c)) > 0 {
					b.WriteString("\t\tfallthrough\n")
				} else if c11Uniform(rt, 6, l("brk", c)) == 0 {
					b.WriteString("\t\tbreak\n")
				}
			}
			b.WriteString("\t}\n\t}\n")
		case "typeswitch":
			v := c11Pick(rt, []string{"1", "\"s\"", "nil", "1.5", "[]int{1}", "func() {}", "struct{}{}", "&x0", "error(nil)"}, l("v", 0))
			fmt.Fprintf(&b, "\t{\n\tx0 := 1\n\t_ = x0\n\tvar e interface{} = %s\n\tswitch v := e.(type) {\n", v)
			for c, ty := range []string{"int", "string", "nil", "[]int, float64", "func()", "error"} {
				if rapid.Bool().Draw(rt, l("has", c)) {
					fmt.Fprintf(&b, "\tcase %s:\n\t\tw := v\n\t\tf := func() interface{} { return w }\n\t\tprintln(f() == nil, %d)\n", ty, c)
				}
			}
			b.WriteString("\tdefault:\n\t\t_ = v\n\t\tprintln(\"d\")\n\t}\n\t}\n")
		case "gotoloop":
			n := rapid.IntRange(1, 5).Draw(rt, l("n", 0))
			fmt.Fprintf(&b, "\t{\n\ti := 0\n\tvar fs []func() int\nL%d:\n\tif i < %d {\n\t\tv := i\n\t\tfs = append(fs, func() int { v++; return v })\n\t\ti++\n\t\tgoto L%d\n\t}\n\tfor _, f := range fs {\n\t\tprintln(f())\n\t}\n\t}\n", w, n, w)
		case "labelnest":
			kind := c11Pick(rt, []string{"break A", "continue A", "break B", "continue B", "break", "goto C"}, l("kind", 0))
			fmt.Fprintf(&b, "\t{\n\tn := 0\nA%[1]d:\n\tfor i := 0; i < 3; i++ {\n\tB%[1]d:\n\t\tfor j := 0; j < 3; j++ {\n\t\t\tv := i * j\n\t\t\tdefer func() { _ = v }()\n\t\t\tswitch {\n\t\t\tcase v == 2:\n\t\t\t\tn++\n\t\t\t\t%[2]s\n\t\t\tcase v > 2:\n\t\t\t\tcontinue B%[1]d\n\t\t\t}\n\t\t\tn += 10\n\t\t\tif n > 1000 {\n\t\t\t\tbreak A%[1]d\n\t\t\t}\n\t\t}\n\t}\n%[3]s\tprintln(n)\n\t}\n", w,
				strings.NewReplacer(" A", fmt.Sprintf(" A%d", w), " B", fmt.Sprintf(" B%d", w), " C", fmt.Sprintf(" C%d", w)).Replace(kind),
				map[bool]string{true: fmt.Sprintf("C%d:\n", w), false: ""}[kind == "goto C"])
		case "rangeclosure":
			over := c11Pick(rt, []string{"[]int{1, 2, 3}", "[3]int{1, 2, 3}", "\"abc\"", "map[int]int{1: 1}", "&[2]int{1, 2}"}, l("over", 0))
			fmt.Fprintf(&b, "\t{\n\tvar fs []func() int\n\tfor k, v := range %s {\n\t\tk2 := k\n\t\tfs = append(fs, func() int { k2++; _ = v; return int(k2) })\n\t\tif k2 > 100 {\n\t\t\tcontinue\n\t\t}\n\t}\n\tfor _, f := range fs {\n\t\tprintln(f())\n\t}\n\t}\n", over)
			if over == "3" {
				s := b.String()
				b.Reset()
				b.WriteString(strings.Replace(s, "for k, v := range 3 {\n\t\tk2 := k\n", "for k := range 3 {\n\t\tk2 := k\n\t\tv := k\n", 1))
			}
		case "deferloop":
			n := rapid.IntRange(1, 4).Draw(rt, l("n", 0))
			what := c11Pick(rt, []string{"recover()", "panic(i)", "println(i)", "func() { defer func() { recover() }(); panic(i) }()"}, l("what", 0))
			fmt.Fprintf(&b, "\tfunc() {\n\t\tdefer func() { recover() }()\n\t\tfor i := 0; i < %d; i++ {\n\t\t\tdefer func() { %s }()\n\t\t}\n\t\tpanic(\"p\")\n\t}()\n", n, what)
		}
	}
	b.WriteString("}\n")
	return b.String(), note
}

var c11Families = []c11Fam{
	{"nest", c11GenNest}, {"const", c11GenConst}, {"growth", c11GenGrowth}, {"rectype", c11GenRecType}, {"shadow", c11GenShadow},
	{"init", c11GenInit}, {"giant", c11GenGiant}, {"recur", c11GenRecur}, {"alloc", c11GenAlloc}, {"ops", c11GenOps}, {"flow", c11GenFlow},
}

func c11DrawGram(rt *rapid.T) c11Case {
	// weights: the cheap, wide families get most of the draws
	w := []int{10, 12, 4, 10, 8, 7, 4, 5, 5, 22, 13}
	quick := os.Getenv("VERIF_TIER") != "thorough"
	if quick {
		// the memory- and time-hungry families are thinned out in the quick tier
		w = []int{10, 10, 2, 10, 6, 6, 3, 2, 2, 32, 17}
	}
	tot := 0
	for _, x := range w {
		tot += x
	}
	r := c11Uniform(rt, tot, "fam")
	fi := 0
	for r >= w[fi] {
		r -= w[fi]
		fi++
	}
	fam := c11Families[fi]
	src, note := fam.Gen(rt)
	c := c11Case{Src: "gram:" + fam.Name, Note: note}
	mode, name, path := c11SubmissionFor(src)
	c.Mode, c.Name, c.Path = mode, name, path
	if mode == "addpkg" {
		c.Files = []c11File{{name + ".gno", src}, {"gnomod.toml", "module = \"" + path + "\"\ngno = \"0.9\"\n"}}
	} else {
		c.Files = []c11File{{"main.gno", src}}
	}
	switch fam.Name {
	case "recur", "alloc", "growth":
		if quick {
			c.Gas = c11Pick(rt, []int64{5_000_000, 10_000_000, 30_000_000}, "gas")
		} else {
			c.Gas = c11Pick(rt, []int64{10_000_000, 30_000_000, 100_000_000, 300_000_000}, "gas")
		}
	case "ops", "flow":
		// the prelude alone needs ~2.5M gas to preprocess
		c.Gas = c11Pick(rt, []int64{10_000_000, 30_000_000, 100_000_000}, "gas")
	default:
		c.Gas = c11Pick(rt, []int64{3_000_000, 10_000_000, 30_000_000, 100_000_000}, "gas")
	}
	return c
}
