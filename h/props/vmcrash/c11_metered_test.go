package vmcrash

import (
	"encoding/json"
	"fmt"
	"os"
	"strconv"
	"strings"
	"testing"

	"pgregory.net/rapid"
	"verif/vk"
)

// "Size-dependent work is metered" - a deterministic, metamorphic family that
// looks at gas numbers only (never at the wall clock).
//
// The gas meter is the only bound on the CPU time a transaction may make the
// node spend; an operation whose work is linear in the size of an operand in
// ANY implementation (it has to read or write every byte / element) must
// therefore cost gas that grows with that size. For each such operation a
// MsgRun script builds an operand of size n ONCE and then performs the
// operation K times in a loop. It is run through the real keeper four times:
// sizes n and F*n, each with the loop bound K and with the loop bound 0 (same
// text otherwise, so set-up and preprocessing cancel exactly):
//
//	loop(n)  = gas(n, K)   - gas(n, 0)
//	loop(Fn) = gas(F*n, K) - gas(F*n, 0)
//
// and the property is  loop(Fn) - loop(n) >= K*(F-1)*n / 1024 , i.e. at least
// one gas per 1024 bytes/elements processed - three to five orders of
// magnitude below what the correctly metered operations charge, so the oracle
// only fires on flat (size-insensitive) pricing of linear work.
// Operations that are legitimately O(1) (len, slicing, passing a slice or a
// string) are not in the family.

type c11MOp struct {
	Name    string
	Unit    string // bytes | elems: what n counts
	Small   bool   // interpreted per element (tens to a thousand gas per element): small sizes
	Tiny    bool   // library code written in Gno that costs thousands of gas per byte: tiny sizes
	Imports []string
	Decl    string // package-level declarations; $N is the size
	Setup   string // statements before the loop; $N is the size
	Body    string // the measured operation (must depend on the operand of size $N)
}

var c11MOps = []c11MOp{
	// ---- copy
	{Name: "copy-bytes", Unit: "bytes", Setup: "src := make([]byte, $N); dst := make([]byte, $N); src[0] = 7", Body: "sink += copy(dst, src)"},
	{Name: "copy-bytes-overlap", Unit: "bytes", Setup: "b := make([]byte, $N+1)", Body: "sink += copy(b[1:], b)"},
	{Name: "copy-bytes-from-conv", Unit: "bytes", Setup: "src := []byte(string(make([]byte, $N))); dst := make([]byte, $N)", Body: "sink += copy(dst, src)"},
	{Name: "copy-bytes-appended", Unit: "bytes", Setup: "src := append([]byte{1, 2}, make([]byte, $N)...); src = src[:$N]; dst := make([]byte, $N)", Body: "sink += copy(dst, src)"},
	{Name: "copy-from-string", Unit: "bytes", Setup: "s := string(make([]byte, $N)); dst := make([]byte, $N)", Body: "sink += copy(dst, s)"},
	{Name: "copy-ints", Unit: "elems", Small: true, Setup: "src := make([]int, $N); dst := make([]int, $N)", Body: "sink += copy(dst, src)"},
	{Name: "copy-strings", Unit: "elems", Small: true, Setup: "src := make([]string, $N); dst := make([]string, $N)", Body: "sink += copy(dst, src)"},
	{Name: "copy-array-bytes", Unit: "bytes", Setup: "var a, b [$N]byte", Body: "sink += copy(a[:], b[:])"},
	// ---- append
	{Name: "append-bytes-alloc", Unit: "bytes", Setup: "src := make([]byte, $N)", Body: "d := append([]byte(nil), src...); sink += len(d)"},
	{Name: "append-bytes-inplace", Unit: "bytes", Setup: "src := make([]byte, $N); dst := make([]byte, 0, $N)", Body: "dst = append(dst[:0], src...); sink += len(dst)"},
	{Name: "append-string-inplace", Unit: "bytes", Setup: "s := string(make([]byte, $N)); dst := make([]byte, 0, $N)", Body: "dst = append(dst[:0], s...); sink += len(dst)"},
	{Name: "append-ints-alloc", Unit: "elems", Small: true, Setup: "src := make([]int, $N)", Body: "d := append([]int(nil), src...); sink += len(d)"},
	{Name: "append-ints-inplace", Unit: "elems", Small: true, Setup: "src := make([]int, $N); dst := make([]int, 0, $N)", Body: "dst = append(dst[:0], src...); sink += len(dst)"},
	// ---- strings: concatenation, conversions, comparisons
	{Name: "string-concat", Unit: "bytes", Setup: "s := string(make([]byte, $N))", Body: "t := s + \"x\"; sink += len(t)"},
	{Name: "string-concat-assign", Unit: "bytes", Setup: "s := string(make([]byte, $N))", Body: "t := \"x\"; t += s; sink += len(t)"},
	{Name: "bytes-to-string", Unit: "bytes", Setup: "b := make([]byte, $N)", Body: "t := string(b); sink += len(t)"},
	{Name: "string-to-bytes", Unit: "bytes", Setup: "s := string(make([]byte, $N))", Body: "b := []byte(s); sink += len(b)"},
	{Name: "string-to-runes", Unit: "bytes", Setup: "s := string(make([]byte, $N))", Body: "r := []rune(s); sink += len(r)"},
	{Name: "runes-to-string", Unit: "elems", Setup: "r := make([]rune, $N)", Body: "t := string(r); sink += len(t)"},
	{Name: "string-eq", Unit: "bytes", Setup: "s := string(make([]byte, $N)); t := string(make([]byte, $N))", Body: "if s == t { sink++ }"},
	{Name: "string-neq", Unit: "bytes", Setup: "s := string(make([]byte, $N)); t := string(make([]byte, $N))", Body: "if s != t { sink++ }"},
	{Name: "string-less", Unit: "bytes", Setup: "s := string(make([]byte, $N)); t := string(make([]byte, $N))", Body: "if s < t { sink++ }"},
	{Name: "string-geq", Unit: "bytes", Setup: "s := string(make([]byte, $N)); t := string(make([]byte, $N))", Body: "if s >= t { sink++ }"},
	{Name: "string-switch", Unit: "bytes", Setup: "s := string(make([]byte, $N)); t := string(make([]byte, $N))", Body: "switch s { case t: sink++ }"},
	{Name: "map-string-key-lookup", Unit: "bytes", Setup: "s := string(make([]byte, $N)); m := map[string]int{\"a\": 1}", Body: "sink += m[s]"},
	{Name: "map-string-key-store", Unit: "bytes", Setup: "s := string(make([]byte, $N)); m := map[string]int{}", Body: "m[s] = i; sink += len(m)"},
	{Name: "print-string", Unit: "bytes", Setup: "s := string(make([]byte, $N))", Body: "print(s); sink++"},
	// ---- arrays and structs holding arrays: value semantics copy
	{Name: "array-bytes-assign", Unit: "bytes", Setup: "var a [$N]byte", Body: "b := a; sink += int(b[0])"},
	{Name: "array-ints-assign", Unit: "elems", Small: true, Setup: "var a [$N]int", Body: "b := a; sink += b[0]"},
	{Name: "array-bytes-pass", Unit: "bytes", Decl: "func first(a [$N]byte) int { return int(a[0]) }", Setup: "var a [$N]byte", Body: "sink += first(a)"},
	{Name: "array-bytes-return", Unit: "bytes", Decl: "var ga [$N]byte\n\nfunc get() [$N]byte { return ga }", Setup: "", Body: "b := get(); sink += int(b[0])"},
	{Name: "array-bytes-deref", Unit: "bytes", Setup: "p := new([$N]byte)", Body: "b := *p; sink += int(b[0])"},
	{Name: "array-bytes-to-iface", Unit: "bytes", Setup: "var a [$N]byte; var e interface{}", Body: "e = a; if e != nil { sink++ }"},
	{Name: "struct-array-assign", Unit: "bytes", Decl: "type S struct {\n\tA [$N]byte\n\tX int\n}", Setup: "var s S", Body: "t := s; sink += t.X"},
	{Name: "array-bytes-eq", Unit: "bytes", Setup: "var a, b [$N]byte", Body: "if a == b { sink++ }"},
	{Name: "array-ints-eq", Unit: "elems", Small: true, Setup: "var a, b [$N]int", Body: "if a == b { sink++ }"},
	{Name: "struct-array-eq", Unit: "bytes", Decl: "type S struct {\n\tA [$N]byte\n\tX int\n}", Setup: "var s, t S", Body: "if s == t { sink++ }"},
	{Name: "array-bytes-map-key", Unit: "bytes", Setup: "var a [$N]byte; m := map[[$N]byte]int{}", Body: "sink += m[a]"},
	// ---- iteration with an empty body
	{Name: "range-bytes", Unit: "elems", Small: true, Setup: "b := make([]byte, $N)", Body: "for range b {\n\t\t}"},
	{Name: "range-ints", Unit: "elems", Small: true, Setup: "b := make([]int, $N)", Body: "for _, x := range b {\n\t\t\t_ = x\n\t\t}"},
	{Name: "range-string", Unit: "elems", Small: true, Setup: "s := string(make([]byte, $N))", Body: "for range s {\n\t\t}"},
	{Name: "range-array", Unit: "elems", Small: true, Setup: "var a [$N]int", Body: "for range a {\n\t\t}"},
	{Name: "range-map", Unit: "elems", Small: true, Setup: "m := map[int]int{}; for j := 0; j < $N; j++ { m[j] = j }", Body: "for range m {\n\t\t}"},
	// ---- standard library functions that scan their argument
	{Name: "bytes.Equal", Unit: "bytes", Imports: []string{"bytes"}, Setup: "a := make([]byte, $N); b := make([]byte, $N)", Body: "if bytes.Equal(a, b) { sink++ }"},
	{Name: "bytes.Compare", Unit: "bytes", Tiny: true, Imports: []string{"bytes"}, Setup: "a := make([]byte, $N); b := make([]byte, $N)", Body: "sink += bytes.Compare(a, b) + 1"},
	{Name: "bytes.IndexByte", Unit: "bytes", Small: true, Imports: []string{"bytes"}, Setup: "a := make([]byte, $N)", Body: "sink += bytes.IndexByte(a, 1)"},
	{Name: "bytes.Index", Unit: "bytes", Tiny: true, Imports: []string{"bytes"}, Setup: "a := make([]byte, $N); sep := []byte(\"xy\")", Body: "sink += bytes.Index(a, sep)"},
	{Name: "bytes.Repeat", Unit: "bytes", Imports: []string{"bytes"}, Setup: "ab := []byte(\"ab\")", Body: "sink += len(bytes.Repeat(ab, $N/2))"},
	{Name: "strings.Index", Unit: "bytes", Tiny: true, Imports: []string{"strings"}, Setup: "s := string(make([]byte, $N))", Body: "sink += strings.Index(s, \"xy\")"},
	{Name: "strings.IndexByte", Unit: "bytes", Small: true, Imports: []string{"strings"}, Setup: "s := string(make([]byte, $N))", Body: "sink += strings.IndexByte(s, 'x')"},
	{Name: "strings.Contains", Unit: "bytes", Tiny: true, Imports: []string{"strings"}, Setup: "s := string(make([]byte, $N))", Body: "if strings.Contains(s, \"xy\") { sink++ }"},
	{Name: "strings.Count", Unit: "bytes", Tiny: true, Imports: []string{"strings"}, Setup: "s := string(make([]byte, $N))", Body: "sink += strings.Count(s, \"x\")"},
	{Name: "strings.Repeat", Unit: "bytes", Imports: []string{"strings"}, Setup: "", Body: "sink += len(strings.Repeat(\"ab\", $N/2))"},
	{Name: "strings.HasSuffix-long", Unit: "bytes", Imports: []string{"strings"}, Setup: "s := string(make([]byte, $N)); t := string(make([]byte, $N))", Body: "if strings.HasSuffix(s, t) { sink++ }"},
	{Name: "strings.EqualFold", Unit: "bytes", Tiny: true, Imports: []string{"strings"}, Setup: "s := string(make([]byte, $N)); t := string(make([]byte, $N))", Body: "if strings.EqualFold(s, t) { sink++ }"},
	{Name: "strings.ToUpper", Unit: "bytes", Tiny: true, Imports: []string{"strings"}, Setup: "var sb strings.Builder; for sb.Len() < $N { sb.WriteString(\"abcdefgh\") }; s := sb.String()", Body: "sink += len(strings.ToUpper(s))"},
	{Name: "strings.Builder.WriteString", Unit: "bytes", Imports: []string{"strings"}, Setup: "s := string(make([]byte, $N))", Body: "var sb strings.Builder; sb.WriteString(s); sink += sb.Len()"},
	{Name: "utf8.RuneCountInString", Unit: "bytes", Tiny: true, Imports: []string{"unicode/utf8"}, Setup: "s := string(make([]byte, $N))", Body: "sink += utf8.RuneCountInString(s)"},
	{Name: "utf8.Valid", Unit: "bytes", Tiny: true, Imports: []string{"unicode/utf8"}, Setup: "b := make([]byte, $N)", Body: "if utf8.Valid(b) { sink++ }"},
	{Name: "sha256.Sum256", Unit: "bytes", Imports: []string{"crypto/sha256"}, Setup: "b := make([]byte, $N)", Body: "h := sha256.Sum256(b); sink += int(h[0])"},
	{Name: "keccak256.Sum256", Unit: "bytes", Imports: []string{"crypto/keccak256"}, Setup: "b := make([]byte, $N)", Body: "h := keccak256.Sum256(b); sink += int(h[0])"},
	{Name: "merkle.LeafHash", Unit: "bytes", Imports: []string{"crypto/merkle"}, Setup: "b := make([]byte, $N)", Body: "sink += len(merkle.LeafHash(b))"},
	{Name: "merkle.InnerHash", Unit: "bytes", Imports: []string{"crypto/merkle"}, Setup: "l := make([]byte, $N); r := make([]byte, 32)", Body: "sink += len(merkle.InnerHash(l, r))"},
	{Name: "merkle.HashFromByteSlices", Unit: "bytes", Imports: []string{"crypto/merkle"}, Setup: "n := $N; enc := make([]byte, n+8); enc[3] = 1; enc[4] = byte(n >> 24); enc[5] = byte(n >> 16); enc[6] = byte(n >> 8); enc[7] = byte(n)", Body: "sink += len(merkle.HashFromByteSlices(enc))"},
	{Name: "merkle.VerifySimpleProof-leaf", Unit: "bytes", Imports: []string{"crypto/merkle"}, Setup: "leaf := make([]byte, $N); root := make([]byte, 32)", Body: "if merkle.VerifySimpleProof(root, leaf, 0, 1, nil) { sink++ }"},
	{Name: "ed25519.Verify", Unit: "bytes", Imports: []string{"crypto/ed25519"}, Setup: "pk := make([]byte, 32); sig := make([]byte, 64); msg := make([]byte, $N)", Body: "if ed25519.Verify(pk, msg, sig) { sink++ }"},
	{Name: "markdown.EscapeInline", Unit: "bytes", Imports: []string{"chain/markdown"}, Setup: "s := string(make([]byte, $N))", Body: "sink += len(markdown.EscapeInline(s))"},
	{Name: "markdown.NormalizeBreaks", Unit: "bytes", Imports: []string{"chain/markdown"}, Setup: "s := string(make([]byte, $N))", Body: "sink += len(markdown.NormalizeBreaks(s))"},
	{Name: "markdown.StripBidiAndZeroWidth", Unit: "bytes", Imports: []string{"chain/markdown"}, Setup: "s := string(make([]byte, $N))", Body: "sink += len(markdown.StripBidiAndZeroWidth(s))"},
	{Name: "markdown.PercentEncodeURL", Unit: "bytes", Imports: []string{"chain/markdown"}, Setup: "s := string(make([]byte, $N))", Body: "sink += len(markdown.PercentEncodeURL(s))"},
	{Name: "markdown.EscapeBlockHazards", Unit: "bytes", Imports: []string{"chain/markdown"}, Setup: "s := string(make([]byte, $N))", Body: "sink += len(markdown.EscapeBlockHazards(s))"},
	{Name: "markdown.CodeFence", Unit: "bytes", Imports: []string{"chain/markdown"}, Setup: "s := string(make([]byte, $N))", Body: "sink += len(markdown.CodeFence(s, 3))"},
	{Name: "chain.PackageAddress", Unit: "bytes", Imports: []string{"chain", "strings"}, Setup: "s := \"gno.land/r/x/\" + strings.Repeat(\"a\", $N)", Body: "sink += len(chain.PackageAddress(s))"},
	{Name: "adler32.Checksum", Unit: "bytes", Tiny: true, Imports: []string{"hash/adler32"}, Setup: "b := make([]byte, $N)", Body: "sink += int(adler32.Checksum(b) & 1)"},
	{Name: "hex.EncodeToString", Unit: "bytes", Tiny: true, Imports: []string{"encoding/hex"}, Setup: "b := make([]byte, $N)", Body: "sink += len(hex.EncodeToString(b))"},
	{Name: "base64.EncodeToString", Unit: "bytes", Tiny: true, Imports: []string{"encoding/base64"}, Setup: "b := make([]byte, $N)", Body: "sink += len(base64.StdEncoding.EncodeToString(b))"},
	{Name: "strconv.Quote", Unit: "bytes", Tiny: true, Imports: []string{"strconv"}, Setup: "s := string(make([]byte, $N))", Body: "sink += len(strconv.Quote(s))"},
	{Name: "sort.Ints-sorted", Unit: "elems", Tiny: true, Imports: []string{"sort"}, Setup: "a := make([]int, $N)", Body: "sort.Ints(a); sink += a[0]"},
}

func c11MOpByName(name string) *c11MOp {
	for i := range c11MOps {
		if c11MOps[i].Name == name {
			return &c11MOps[i]
		}
	}
	return nil
}

// c11MCase is one metamorphic measurement.
type c11MCase struct {
	Op string `json:"op"`
	N  int    `json:"n"` // base size
	F  int    `json:"f"` // size factor (the second size is F*N)
	K  int    `json:"k"` // loop count
}

func c11MScript(op *c11MOp, n, k int) string {
	r := strings.NewReplacer("$N", strconv.Itoa(n))
	var b strings.Builder
	b.WriteString("package main\n\n")
	if len(op.Imports) > 0 {
		b.WriteString("import (\n")
		for _, im := range op.Imports {
			fmt.Fprintf(&b, "\t%q\n", im)
		}
		b.WriteString(")\n\n")
	}
	b.WriteString("var sink int\n\n")
	if op.Decl != "" {
		b.WriteString(r.Replace(op.Decl) + "\n\n")
	}
	b.WriteString("func main() {\n")
	if op.Setup != "" {
		b.WriteString("\t" + strings.ReplaceAll(r.Replace(op.Setup), "; ", "\n\t") + "\n")
	}
	fmt.Fprintf(&b, "\tfor i := 0; i < %d; i++ {\n\t\t%s\n\t}\n", k, strings.ReplaceAll(r.Replace(op.Body), "; ", "\n\t\t"))
	b.WriteString("\tprintln(sink)\n}\n")
	return b.String()
}

const c11MGas = 3_000_000_000 // a block's worth: the measurement must not run out of gas

// c11MExec wraps the oracle (C11_COLLECT: calibration aid, see c11Exec).
func c11MExec(ctx *vk.Ctx, c c11MCase) error {
	err := c11MOracle(ctx, c)
	if p := os.Getenv("C11_COLLECT"); p != "" && err != nil {
		if f, ferr := os.OpenFile(p, os.O_APPEND|os.O_CREATE|os.O_WRONLY, 0o644); ferr == nil {
			b, _ := json.Marshal(map[string]any{"err": c11Bound(err.Error(), 3000), "case": c})
			f.Write(append(b, '\n'))
			f.Close()
		}
		ctx.Class("collected-violation")
		return nil
	}
	return err
}

// c11MOracle runs the four scripts and applies the oracle.
func c11MOracle(ctx *vk.Ctx, c c11MCase) error {
	op := c11MOpByName(c.Op)
	if op == nil || c.N <= 0 || c.F < 2 || c.K <= 0 {
		return fmt.Errorf("malformed case %+v", c)
	}
	ctx.Class("metered-op:" + op.Name)
	gas := map[[2]int]int64{}
	for _, n := range []int{c.N, c.N * c.F} {
		for _, k := range []int{0, c.K} {
			src := c11MScript(op, n, k)
			pc := c11Case{Src: "metered:" + op.Name, Note: []string{fmt.Sprint(n), fmt.Sprint(k)}, Mode: "run", Name: "main",
				Files: []c11File{{"main.gno", src}}, Gas: c11MGas}
			res, err := c11OracleRes(ctx, pc)
			if err != nil {
				return err // a crash / death / memory finding in its own right
			}
			if res.Died || res.TimedOut || res.Out.Class != c11OK {
				// the script did not run to completion: no measurement. On the
				// unchanged tree every script of the family completes (calibrated);
				// this class being populated means the generator needs fixing.
				ctx.Class("metered-unmeasured:" + op.Name + ":" + res.Out.Class)
				ctx.Note("unmeasured", c11Bound(res.Out.Detail, 300))
				return nil
			}
			gas[[2]int{n, k}] = res.Out.GasUsed
		}
	}
	loopN := gas[[2]int{c.N, c.K}] - gas[[2]int{c.N, 0}]
	loopFN := gas[[2]int{c.N * c.F, c.K}] - gas[[2]int{c.N * c.F, 0}]
	units := int64(c.K) * int64(c.F-1) * int64(c.N)
	need := units / 1024
	diff := loopFN - loopN
	ctx.NT()
	// slope in milli-gas per unit, for the evidence
	ctx.Note("loop_gas_n", loopN)
	ctx.Note("loop_gas_fn", loopFN)
	ctx.Note("milligas_per_"+op.Unit[:len(op.Unit)-1], diff*1000/units)
	if p := os.Getenv("C11_LOG"); p != "" {
		if f, ferr := os.OpenFile(p, os.O_APPEND|os.O_CREATE|os.O_WRONLY, 0o644); ferr == nil {
			fmt.Fprintf(f, "{\"metered\":%q,\"n\":%d,\"f\":%d,\"k\":%d,\"loop_n\":%d,\"loop_fn\":%d,\"slope\":%.4f,\"unit\":%q}\n", op.Name, c.N, c.F, c.K, loopN, loopFN, float64(diff)/float64(units), op.Unit)
			f.Close()
		}
	}
	if diff >= need {
		return nil
	}
	key := "unmetered-work:" + op.Name
	if ctx.Known(key) {
		ctx.Class("known:" + key)
		return nil
	}
	return fmt.Errorf("size-dependent work is not metered: %s performed %d times costs %d gas on an operand of %d %s and %d gas on an operand of %d %s "+
		"(difference %d gas for %d more %s processed; at least %d required = 1 gas per 1024 %s); key %q\nscript (n=%d):\n%s",
		op.Name, c.K, loopN, c.N, op.Unit, loopFN, c.N*c.F, op.Unit, diff, units, op.Unit, need, op.Unit, key, c.N, c11MScript(op, c.N, c.K))
}

func c11MSizes(op *c11MOp) (ns []int, ks []int) {
	if op.Tiny {
		return []int{16, 32, 64}, []int{2, 4}
	}
	if op.Small {
		return []int{64, 256, 1024}, []int{2, 4}
	}
	return []int{4096, 16384, 65536}, []int{4, 8, 16}
}

func c11MDraw(rt *rapid.T) c11MCase {
	op := &c11MOps[c11Uniform(rt, len(c11MOps), "op")]
	ns, ks := c11MSizes(op)
	fs := []int{16, 64}
	if op.Tiny {
		fs = []int{16}
	}
	return c11MCase{Op: op.Name, N: c11Pick(rt, ns, "n"), F: c11Pick(rt, fs, "f"), K: c11Pick(rt, ks, "k")}
}

const c11MRule = "for every operation of the list whose work is necessarily linear in an operand size (copy, append, string concatenation/conversion/comparison, " +
	"array and struct value copies and comparisons, map keys, range loops with empty bodies, scanning stdlib functions) a MsgRun script builds the operand once and " +
	"repeats the operation K times; it runs through the real keeper at sizes n and F*n with loop bounds K and 0, and gas(loop, F*n) - gas(loop, n) must be at least " +
	"K*(F-1)*n/1024 (gas numbers only, no wall clock); every operation is measured once per run at a VERIF_SEED-derived size, then random (op, n, F, K) are drawn; " +
	"non-trivial = all four scripts completed and the loop gas was measured"

// TestC11_Metered measures every operation of the family once (sizes derived
// from VERIF_SEED), then draws further (op, n, F, K) combinations with rapid.
func TestC11_Metered(t *testing.T) {
	defer c11ThePool.close()
	vk.Run(t, vk.Spec[c11MCase]{
		ID: "C11", Name: "TestC11_Metered", Rule: c11MRule,
		Draw: c11MDraw,
		Exec: c11MExec,
		Setup: func(r *vk.Rec) {
			if vk.Replaying() {
				return
			}
			seed := int(r.Seed)
			r.Extra("ops_in_family", len(c11MOps))
			for i := range c11MOps {
				op := &c11MOps[i]
				ns, ks := c11MSizes(op)
				if !r.Thorough() {
					ns = ns[:2] // quick tier: keep the large sizes for the thorough tier
				}
				c := c11MCase{Op: op.Name, N: ns[(seed+i)%len(ns)], F: []int{16, 64}[(seed+i/2)%2], K: ks[(seed+i)%len(ks)]}
				if op.Tiny || (!r.Thorough() && !op.Small) {
					c.F = 16
				}
				if !r.Thorough() && (op.Tiny || op.Small) {
					c.K = 2
				}
				if r.Do(c, func(ctx *vk.Ctx) error { return c11MExec(ctx, c) }) != nil {
					return
				}
			}
		},
	})
}
