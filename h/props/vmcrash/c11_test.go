package vmcrash

import (
	"encoding/json"
	"fmt"
	"os"
	"regexp"
	"strconv"
	"strings"
	"testing"
	"time"

	"pgregory.net/rapid"
	"verif/vk"
)

// C11 - the VM never crashes and stays within its resource limits.

const c11Rule = "program texts = byte/token/line mutations (0-4 ops, splices between files) of gnovm/tests/files/*.gno and of stdlib-only example packages, " +
	"plus grammar-level pathological programs (nesting, constants, compile-time growth, recursive types, shadowed predeclared names, init cycles, giant literals, " +
	"deep recursion, big allocations, boundary-value runtime operations, switch/fallthrough/closure/goto shapes), each submitted through the real VMKeeper " +
	"(MsgRun / MsgAddPackage) in a child process under the production allocation limit and a gas meter; non-trivial = the text passed the Go type checker " +
	"(reached the GnoVM preprocessor/machine) or is a nesting program deeper than 100; distinct = distinct submissions"

var c11ThePool = &c11Pool{}

func c11Budget(gas int64) time.Duration {
	return 60*time.Second + time.Duration(gas/1_000_000)*3*time.Second
}

var c11FatalRE = regexp.MustCompile(`(?m)^(fatal error: .*|runtime: goroutine stack exceeds.*|panic: .*|SIGSEGV.*|signal: killed.*)$`)

// c11DeathSite summarises a dead child's stderr: the fatal line and the first
// gno frame of the printed stack.
func c11DeathSite(msg string) (what, site string) {
	what = "child died"
	if m := c11FatalRE.FindString(msg); m != "" {
		what = c11Bound(m, 120)
	}
	lines := strings.Split(msg, "\n")
	for i := 0; i+1 < len(lines); i++ {
		l := lines[i]
		if strings.HasPrefix(l, "github.com/gnolang/gno/") || strings.HasPrefix(l, "go/") {
			if m := c11FrameRE.FindStringSubmatch(lines[i+1]); m != nil {
				f := m[1]
				if k := strings.Index(f, "/gnovm/"); k >= 0 {
					f = f[k+1:]
				} else if k := strings.Index(f, "/gno.land/"); k >= 0 {
					f = f[k+1:]
				} else if k := strings.Index(f, "/tm2/"); k >= 0 {
					f = f[k+1:]
				}
				return what, f + ":" + m[2]
			}
		}
	}
	return what, "?"
}

var c11DeathFuncRE = regexp.MustCompile(`^github\.com/gnolang/gno/(?:[^\s(]*/)?([^/\s(]+(?:\(\*[^)]+\))?[^/\s(]*)\(`)

// c11DeathFunc returns the function of the first gno frame of a dead child's trace.
func c11DeathFunc(msg string) string {
	for _, l := range strings.Split(msg, "\n") {
		if m := c11DeathFuncRE.FindStringSubmatch(l); m != nil {
			return m[1]
		}
	}
	return "?"
}

func c11InputOf(c c11Case) c11Input {
	return c11Input{Mode: c.Mode, Name: c.Name, Path: c.Path, Files: c.Files, Gas: c.Gas}
}

// c11Submit runs the input in the shared child. When the observation is a
// candidate violation (death, no answer, memory, Go-level fault) whose key is
// not a known finding, the input runs once more ALONE in a fresh child; only a
// confirmed observation is returned as such. confirmed=false with a non-empty
// note means "observed once, not reproduced".
func c11Submit(in c11Input, known func(c11Result) bool) (res c11Result, confirmed bool, note string, err error) {
	c11ThePool.mu.Lock()
	defer c11ThePool.mu.Unlock()
	ch, err := c11ThePool.get()
	if err != nil {
		return res, false, "", err
	}
	budget := c11Budget(in.Gas)
	in.ID = ch.served + 1
	res = ch.ask(in, budget)
	suspect := res.Died || res.TimedOut || res.Out.Class == "mem-exceeded" || res.Out.Class == c11GoRuntime || res.Out.Class == c11GoInvariant
	if !suspect || known(res) {
		return res, true, "", nil
	}
	first := res
	b2 := budget
	if first.TimedOut {
		b2 = 10 * budget
	}
	res2, err := c11Alone(in, b2)
	if err != nil {
		return res, false, "", err
	}
	same := (first.Died && res2.Died) || (first.TimedOut && res2.TimedOut) ||
		(!first.Died && !first.TimedOut && !res2.Died && !res2.TimedOut && first.Out.Class == res2.Out.Class && first.Out.Site == res2.Out.Site)
	if same {
		return res2, true, "", nil
	}
	what := first.Out.Class
	if first.Died {
		what = "death"
	} else if first.TimedOut {
		what = "timeout"
	}
	return res2, false, "unconfirmed-" + what, nil
}

// c11Keys lists the known-finding keys under which an observation may be filed.
func c11Keys(res c11Result) []string {
	switch {
	case res.Died:
		_, site := c11DeathSite(res.DeathMsg)
		return []string{"death@" + site, "death@" + c11DeathFunc(res.DeathMsg)}
	case res.TimedOut:
		return nil
	case res.Out.Class == "mem-exceeded":
		return []string{"memory@" + res.Out.Site}
	case res.Out.Class == c11GoRuntime || res.Out.Class == c11GoInvariant:
		return []string{res.Out.Class + "@" + res.Out.Site, res.Out.Class + "@" + res.Out.Func}
	}
	return nil
}

// c11Exec wraps the oracle; with C11_COLLECT=<file> (calibration only) every
// violation is appended to the file and the search continues.
func c11Exec(ctx *vk.Ctx, c c11Case) error {
	err := c11Oracle(ctx, c)
	if p := os.Getenv("C11_COLLECT"); p != "" && err != nil {
		f, ferr := os.OpenFile(p, os.O_APPEND|os.O_CREATE|os.O_WRONLY, 0o644)
		if ferr == nil {
			b, _ := json.Marshal(map[string]any{"err": c11Bound(err.Error(), 3000), "case": c})
			f.Write(append(b, '\n'))
			f.Close()
		}
		ctx.Class("collected-violation")
		return nil
	}
	return err
}

func c11Oracle(ctx *vk.Ctx, c c11Case) error {
	_, err := c11OracleRes(ctx, c)
	return err
}

// c11OracleRes is the outcome oracle; it also hands back what was observed.
func c11OracleRes(ctx *vk.Ctx, c c11Case) (c11Result, error) {
	ctx.Class("src=" + c.Src)
	ctx.Class("mode=" + c.Mode)
	t0 := time.Now()
	isKnown := func(r c11Result) bool {
		for _, k := range c11Keys(r) {
			if ctx.Known(k) {
				ctx.Class("known:" + k)
				return true
			}
		}
		return false
	}
	knownHit := false
	res, confirmed, note, err := c11Submit(c11InputOf(c), func(r c11Result) bool { knownHit = isKnown(r); return knownHit })
	wall := time.Since(t0).Milliseconds()
	if err != nil {
		// harness trouble (cannot start a child): not a verdict about gno
		panic(fmt.Sprintf("c11 harness: %v", err))
	}
	if note != "" {
		ctx.Class(note)
		ctx.Note("unconfirmed", note)
	}
	depth := 0
	if c.Src == "gram:nest" && len(c.Note) == 2 {
		depth, _ = strconv.Atoi(c.Note[1])
	}
	switch {
	case res.Died:
		what, site := c11DeathSite(res.DeathMsg)
		if !confirmed {
			ctx.Class("death-unconfirmed")
			return res, nil
		}
		ctx.NT()
		key := "death@" + site
		if knownHit || isKnown(res) {
			return res, nil
		}
		return res, fmt.Errorf("the node process died while handling the submission (confirmed alone): %s; key %q\n%s", what, key, c11Bound(res.DeathMsg, 5000))
	case res.TimedOut:
		if !confirmed {
			ctx.Class("timeout-unconfirmed")
			return res, nil
		}
		ctx.NT()
		return res, fmt.Errorf("no answer within %v for a run bounded by %d gas (confirmed alone with a 10x budget)", 10*c11Budget(c.Gas), c.Gas)
	}
	o := res.Out
	if p := os.Getenv("C11_LOG"); p != "" { // calibration aid
		if f, ferr := os.OpenFile(p, os.O_APPEND|os.O_CREATE|os.O_WRONLY, 0o644); ferr == nil {
			b, _ := json.Marshal(map[string]any{"src": c.Src, "note": c.Note, "gas": c.Gas, "class": o.Class, "reached": o.Reached, "site": o.Site, "detail": c11Bound(o.Detail, 300), "ms": o.MS, "wall": wall, "t": time.Now().UnixMilli(), "rss": o.RSSMB - o.BaseMB, "gas_used": o.GasUsed})
			f.Write(append(b, '\n'))
			f.Close()
		}
	}
	ctx.Class("out=" + o.Class)
	ctx.Class("reached=" + o.Reached)
	ctx.NTIf(o.Reached == "vm" || depth > 100)
	ctx.Note("class", o.Class)
	if o.Detail != "" {
		ctx.Note("detail", c11Bound(o.Detail, 160))
	}
	peak := o.RSSMB - o.BaseMB
	switch {
	case peak > 1500:
		ctx.Class("peak>1500MB")
	case peak > 750:
		ctx.Class("peak>750MB")
	}
	switch o.Class {
	case c11OK, c11Invalid, c11TypeCheck, c11Rejected, c11Preprocess, c11GnoPanic, c11OutOfGas, c11AllocLimit, c11VMReject:
		if o.Class == c11VMReject {
			ctx.Class("vm-rejected@" + o.Site)
		}
		return res, nil
	case c11Mismatch:
		// the replica did not reproduce the keeper's VM panic: no verdict
		ctx.Class("replica-mismatch")
		return res, nil
	case "mem-exceeded":
		if !confirmed {
			return res, nil
		}
		ctx.NT()
		key := "memory@" + o.Site
		if knownHit || isKnown(res) {
			return res, nil
		}
		return res, fmt.Errorf("live memory far above the allocation limit (confirmed alone): %s; key %q\n%s", o.Detail, key, o.Stack)
	case c11GoRuntime, c11GoInvariant:
		if !confirmed {
			return res, nil
		}
		k1, k2 := o.Class+"@"+o.Site, o.Class+"@"+o.Func
		if knownHit || isKnown(res) {
			return res, nil
		}
		return res, fmt.Errorf("Go-level fault of the interpreter (%s, %s): %s\nsite %s (%s); keys %q / %q\n%s", o.Class, o.GoType, o.Detail, o.Site, o.Func, k1, k2, o.Stack)
	}
	return res, fmt.Errorf("unclassified outcome %+v", o)
}

func c11Draw(rt *rapid.T) c11Case {
	if c11Uniform(rt, 100, "source") < 45 {
		return c11DrawMutant(rt)
	}
	return c11DrawGram(rt)
}

func TestC11_Programs(t *testing.T) {
	defer c11ThePool.close()
	vk.Run(t, vk.Spec[c11Case]{
		ID: "C11", Name: "TestC11_Programs", Rule: c11Rule,
		Draw: c11Draw,
		Exec: c11Exec,
	})
}

// TestC11_Seeds submits every unmutated seed (all file tests, all selected
// example packages): a fixed, exhaustive sub-space. Shards split it.
func TestC11_Seeds(t *testing.T) {
	defer c11ThePool.close()
	r := vk.Open(t, "C11", "TestC11_Seeds", "every unmutated gnovm/tests/files/*.gno file and every stdlib-only example package, submitted as is; "+
		"non-trivial = passed the Go type checker")
	defer r.Close()
	if vk.Replaying() {
		t.Skip()
	}
	r.ReplayAs = "TestC11_Programs"
	seeds := c11LoadSeeds()
	r.Extra("exhaustive", true)
	r.Extra("seeds_total", len(seeds))
	idx := make([]int, len(seeds))
	for i := range idx {
		idx[i] = i
	}
	for _, i := range idx {
		s := seeds[i]
		c := c11Case{Src: "seed", Note: []string{s.Rel}, Mode: s.Mode, Name: s.Name, Path: s.Path, Files: s.Files, Gas: 100_000_000}
		if r.Do(c, func(ctx *vk.Ctx) error { return c11Exec(ctx, c) }) != nil {
			return
		}
	}
}
