package vmcrash

import (
	"fmt"
	"go/token"
	"strings"

	"pgregory.net/rapid"
)

// c11Case is one submission: the final program text is part of the case, so a
// replay file is self-contained.
type c11Case struct {
	Src   string    `json:"src"`  // generator family: mut | gram:<family>
	Note  []string  `json:"note"` // provenance: seed file and mutation ops, or template parameters
	Mode  string    `json:"mode"` // run | addpkg
	Name  string    `json:"name,omitempty"`
	Path  string    `json:"path,omitempty"`
	Files []c11File `json:"files"`
	Gas   int64     `json:"gas"`
}

// tokens inserted / substituted by the mutator
var c11Dict = []string{
	"fallthrough", "goto L", "L:", "break", "continue", "defer", "go", "return", "recover()", "panic(nil)", "panic(1)",
	"nil", "iota", "_", "...", "<-", "chan int", "select {}", "struct{}", "interface{}", "map[string]int", "[]int", "[...]int", "*", "&",
	"1<<63", "1<<64", "-1<<63", "1<<62", "9223372036854775807", "-9223372036854775808", "18446744073709551615", "1e308", "1e-400", "1e1000",
	"0x7fffffff", "0xffffffff", "1<<31", "1<<32", "255", "256", "-1", "0", "1", "2", "100000000", "1<<40", "0.1", "1.0", "'a'", "'\\x00'", "\"\"",
	"\"\\xff\"", "`x`", "int8", "uint8", "int16", "uint", "int64", "uint64", "float32", "float64", "string", "bool", "rune", "byte", "error", "any",
	"realm", "cur", "cross", "address", "len", "cap", "append", "make", "new", "copy", "delete", "print", "println", "true", "false",
	"func(){}", "func(){}()", "x", "i", "s", "a", "b", "f", "t", "v", "err", "main", "init",
	"{", "}", "(", ")", "[", "]", ",", ";", ":", ".", ":=", "=", "==", "!=", "+", "-", "/", "%", "<<", ">>", "&^", "&&", "||", "!", "^", "++", "--", "+=", "<<=", "/=", "%=",
	"if", "else", "for", "range", "switch", "case", "default", "type", "var", "const", "func", "import", "package", "struct", "interface", "map",
}

var c11OpClasses = [][]token.Token{
	{token.ADD, token.SUB, token.MUL, token.QUO, token.REM, token.AND, token.OR, token.XOR, token.SHL, token.SHR, token.AND_NOT},
	{token.ADD_ASSIGN, token.SUB_ASSIGN, token.MUL_ASSIGN, token.QUO_ASSIGN, token.REM_ASSIGN, token.AND_ASSIGN, token.OR_ASSIGN, token.XOR_ASSIGN, token.SHL_ASSIGN, token.SHR_ASSIGN, token.AND_NOT_ASSIGN},
	{token.EQL, token.NEQ, token.LSS, token.LEQ, token.GTR, token.GEQ},
	{token.LAND, token.LOR},
	{token.INC, token.DEC},
	{token.ASSIGN, token.DEFINE},
	{token.BREAK, token.CONTINUE, token.FALLTHROUGH, token.RETURN},
}

var c11IntLits = []string{"0", "1", "-1", "2", "3", "7", "8", "63", "64", "65", "127", "128", "255", "256", "1<<31", "1<<32", "1<<62", "1<<63 - 1", "-1<<63", "1<<63", "1<<64", "100000", "100000000", "1<<40", "0x7fffffffffffffff"}
var c11FloatLits = []string{"0.0", "1.0", "-1.0", "0.5", "1e308", "1e309", "1e-324", "1e-400", "3.4e38", "1e39", "0x1p-1074", "1e1000"}
var c11StrLits = []string{`""`, `"a"`, `"\x00"`, `"\xff\xfe"`, "`raw`", `"héllo"`, `"\U0010ffff"`, `"aaaaaaaaaaaaaaaaaaaaaaaaaaaaaaaaaaaaaaaaaaaaaaaaaaaaaaaaaaaaaaaaaaaaaaaaaaaaaaaaaaaaaaaaaaaaaaaaaaaaaaaaaaaaaaaaaaaaaaaaaaaaaaaa"`}

// c11Uniform draws an index in [0,n) uniformly (rapid's integer generators
// favour small and boundary values, which would starve most templates and
// seeds); built from fair bits, so it still shrinks towards 0.
func c11Uniform(rt *rapid.T, n int, label string) int {
	if n <= 1 {
		return 0
	}
	bits := 0
	for 1<<bits < n {
		bits++
	}
	v := 0
	for b := bits + 3; b >= 0; b-- { // 3 extra bits keep the modulo bias below 1/8
		if rapid.Bool().Draw(rt, fmt.Sprintf("%s.b%d", label, b)) {
			v |= 1 << b
		}
	}
	return v % n
}

// c11Pick draws one of items uniformly.
func c11Pick[T any](rt *rapid.T, items []T, label string) T {
	return items[c11Uniform(rt, len(items), label)]
}

func c11Lines(s string) []string { return strings.SplitAfter(s, "\n") }

// c11Mutate applies one drawn mutation to body and returns the new text and a
// short description. donors supplies text for splices.
func c11Mutate(rt *rapid.T, body string, k int, donor func() string) (string, string) {
	lbl := func(s string) string { return fmt.Sprintf("%s%d", s, k) }
	toks := c11Tokens(body)
	// Mutations stay behind the package clause (a broken clause is rejected by
	// the message validation before anything interesting runs) - except rarely.
	lo, loLine := 0, 1
	if c11Uniform(rt, 20, lbl("anywhere")) != 0 {
		for i, t := range toks {
			if t.Tok == token.PACKAGE && i+1 < len(toks) {
				lo = toks[i+1].End
				loLine = strings.Count(body[:lo], "\n") + 1
				break
			}
		}
	}
	kind := c11Pick(rt, []string{
		"tokrep", "tokrep", "tokrep", "lit", "lit", "lit", "op", "op", "op", "ident", "ident",
		"tokdel", "tokins", "tokins", "tokswap", "linedel", "linedup", "lineswap", "splice", "splice",
		"byte", "bytedel", "bytedup", "wrap", "repeat",
	}, lbl("kind"))
	pickTok := func(pred func(c11Tok) bool, l string) int {
		var idx []int
		for i, t := range toks {
			if t.Tok != token.COMMENT && t.Off >= lo && (pred == nil || pred(t)) {
				idx = append(idx, i)
			}
		}
		if len(idx) == 0 {
			return -1
		}
		return idx[c11Uniform(rt, len(idx), lbl(l))]
	}
	repl := func(t c11Tok, with string) string { return body[:t.Off] + with + body[t.End:] }
	switch kind {
	case "tokrep":
		i := pickTok(nil, "ti")
		if i < 0 {
			break
		}
		w := c11Pick(rt, c11Dict, lbl("w"))
		return repl(toks[i], w), fmt.Sprintf("tokrep@%d %q->%q", toks[i].Off, body[toks[i].Off:toks[i].End], w)
	case "lit":
		i := pickTok(func(t c11Tok) bool {
			return t.Tok == token.INT || t.Tok == token.FLOAT || t.Tok == token.STRING || t.Tok == token.CHAR
		}, "li")
		if i < 0 {
			break
		}
		var w string
		switch toks[i].Tok {
		case token.INT, token.CHAR:
			w = c11Pick(rt, append(append([]string{}, c11IntLits...), c11FloatLits[:3]...), lbl("w"))
		case token.FLOAT:
			w = c11Pick(rt, append(append([]string{}, c11FloatLits...), c11IntLits[:6]...), lbl("w"))
		default:
			w = c11Pick(rt, c11StrLits, lbl("w"))
		}
		if toks[i].Tok != token.STRING {
			w = "(" + w + ")"
		}
		return repl(toks[i], w), fmt.Sprintf("lit@%d %q->%q", toks[i].Off, body[toks[i].Off:toks[i].End], w)
	case "op":
		cls := -1
		i := pickTok(func(t c11Tok) bool {
			for _, c := range c11OpClasses {
				for _, o := range c {
					if o == t.Tok {
						return true
					}
				}
			}
			return false
		}, "oi")
		if i < 0 {
			break
		}
		for ci, c := range c11OpClasses {
			for _, o := range c {
				if o == toks[i].Tok {
					cls = ci
				}
			}
		}
		w := c11Pick(rt, c11OpClasses[cls], lbl("w")).String()
		return repl(toks[i], w), fmt.Sprintf("op@%d %q->%q", toks[i].Off, body[toks[i].Off:toks[i].End], w)
	case "ident":
		i := pickTok(func(t c11Tok) bool { return t.Tok == token.IDENT }, "ii")
		j := pickTok(func(t c11Tok) bool { return t.Tok == token.IDENT }, "ij")
		if i < 0 || j < 0 {
			break
		}
		w := toks[j].Lit
		return repl(toks[i], w), fmt.Sprintf("ident@%d %q->%q", toks[i].Off, toks[i].Lit, w)
	case "tokdel":
		i := pickTok(nil, "di")
		if i < 0 {
			break
		}
		n := rapid.IntRange(1, 4).Draw(rt, lbl("n"))
		j := i + n - 1
		if j >= len(toks) {
			j = len(toks) - 1
		}
		return body[:toks[i].Off] + body[toks[j].End:], fmt.Sprintf("tokdel@%d..%d", toks[i].Off, toks[j].End)
	case "tokins":
		i := pickTok(nil, "ni")
		if i < 0 {
			break
		}
		w := c11Pick(rt, c11Dict, lbl("w"))
		return body[:toks[i].Off] + w + " " + body[toks[i].Off:], fmt.Sprintf("tokins@%d %q", toks[i].Off, w)
	case "tokswap":
		i := pickTok(nil, "si")
		j := pickTok(nil, "sj")
		if i < 0 || j < 0 || i == j {
			break
		}
		if i > j {
			i, j = j, i
		}
		a, b := toks[i], toks[j]
		return body[:a.Off] + body[b.Off:b.End] + body[a.End:b.Off] + body[a.Off:a.End] + body[b.End:], fmt.Sprintf("tokswap@%d,%d", a.Off, b.Off)
	case "linedel", "linedup", "lineswap":
		ls := c11Lines(body)
		if len(ls) < 3 || loLine >= len(ls)-1 {
			break
		}
		i := rapid.IntRange(loLine, len(ls)-1).Draw(rt, lbl("l"))
		switch kind {
		case "linedel":
			ls = append(ls[:i:i], ls[i+1:]...)
		case "linedup":
			n := c11Pick(rt, []int{1, 1, 1, 2, 3, 50}, lbl("n"))
			var dup []string
			for x := 0; x < n; x++ {
				dup = append(dup, ls[i])
			}
			ls = append(ls[:i:i], append(dup, ls[i:]...)...)
		case "lineswap":
			j := rapid.IntRange(loLine, len(ls)-1).Draw(rt, lbl("j"))
			ls[i], ls[j] = ls[j], ls[i]
		}
		return strings.Join(ls, ""), fmt.Sprintf("%s@%d", kind, i)
	case "splice":
		d := c11Lines(donor())
		ls := c11Lines(body)
		if len(d) < 3 || len(ls) < 2 || loLine > len(ls)-1 {
			break
		}
		a := rapid.IntRange(1, len(d)-1).Draw(rt, lbl("a"))
		n := rapid.IntRange(1, 12).Draw(rt, lbl("n"))
		if a+n > len(d) {
			n = len(d) - a
		}
		at := rapid.IntRange(loLine, len(ls)-1).Draw(rt, lbl("at"))
		out := append(append(append([]string{}, ls[:at]...), d[a:a+n]...), ls[at:]...)
		return strings.Join(out, ""), fmt.Sprintf("splice@%d +%d lines", at, n)
	case "byte":
		if len(body) == 0 || lo > len(body)-1 {
			break
		}
		p := rapid.IntRange(lo, len(body)-1).Draw(rt, lbl("p"))
		b := byte(c11Pick(rt, []int{0, '\n', ' ', '{', '}', '(', ')', '"', '`', '\'', '\\', '/', '*', '0', '9', 'a', 0x80, 0xff, ';', '.', '-'}, lbl("b")))
		return body[:p] + string([]byte{b}) + body[p+1:], fmt.Sprintf("byte@%d=%#x", p, b)
	case "bytedel":
		if len(body) < 2 || lo > len(body)-2 {
			break
		}
		p := rapid.IntRange(lo, len(body)-2).Draw(rt, lbl("p"))
		n := rapid.IntRange(1, 40).Draw(rt, lbl("n"))
		if p+n > len(body) {
			n = len(body) - p
		}
		return body[:p] + body[p+n:], fmt.Sprintf("bytedel@%d+%d", p, n)
	case "bytedup":
		if len(body) < 2 || lo > len(body)-2 {
			break
		}
		p := rapid.IntRange(lo, len(body)-2).Draw(rt, lbl("p"))
		n := rapid.IntRange(1, 60).Draw(rt, lbl("n"))
		if p+n > len(body) {
			n = len(body) - p
		}
		return body[:p+n] + body[p:p+n] + body[p+n:], fmt.Sprintf("bytedup@%d+%d", p, n)
	case "wrap":
		// wrap one token (an operand, usually) in a nest of parens / unary ops / calls
		i := pickTok(func(t c11Tok) bool {
			return t.Tok == token.IDENT || t.Tok == token.INT || t.Tok == token.FLOAT || t.Tok == token.STRING
		}, "wi")
		if i < 0 {
			break
		}
		n := c11Pick(rt, []int{1, 2, 10, 100, 1000, 20000}, lbl("n"))
		w := c11Pick(rt, [][2]string{{"(", ")"}, {"-(", ")"}, {"+(", ")"}, {"^(", ")"}, {"!(", ")"}, {"func() int { return ", "}()"}, {"[]int{", "}[0]"}, {"*&[]int{", "}[0]"}}, lbl("w"))
		t := toks[i]
		return body[:t.Off] + strings.Repeat(w[0], n) + body[t.Off:t.End] + strings.Repeat(w[1], n) + body[t.End:], fmt.Sprintf("wrap@%d %q x%d", t.Off, w[0], n)
	case "repeat":
		// repeat a token range many times (long chains, giant literals)
		i := pickTok(nil, "ri")
		if i < 0 {
			break
		}
		m := rapid.IntRange(1, 3).Draw(rt, lbl("m"))
		j := i + m
		if j >= len(toks) {
			j = len(toks) - 1
		}
		n := c11Pick(rt, []int{2, 3, 10, 100, 1000, 10000}, lbl("n"))
		seg := body[toks[i].Off:toks[j].Off]
		if len(seg)*n > 400_000 {
			n = 400_000/(len(seg)+1) + 1
		}
		return body[:toks[i].Off] + strings.Repeat(seg, n) + body[toks[i].Off:], fmt.Sprintf("repeat@%d %q x%d", toks[i].Off, c11Bound(seg, 30), n)
	}
	return body, kind + ":noop"
}

// c11DrawMutant draws a seed and 1..4 mutations of one of its .gno files.
func c11DrawMutant(rt *rapid.T) c11Case {
	seeds := c11LoadSeeds()
	// example packages are ~2% of the pool; give them ~15% of the draws
	var si int
	nFT := 0
	for _, s := range seeds {
		if strings.HasPrefix(s.Rel, "gnovm/") {
			nFT++
		}
	}
	if nFT < len(seeds) && c11Uniform(rt, 100, "pool") < 15 {
		si = nFT + c11Uniform(rt, len(seeds)-nFT, "seed")
	} else {
		si = c11Uniform(rt, nFT, "seed")
	}
	s := seeds[si]
	c := c11Case{Src: "mut", Mode: s.Mode, Name: s.Name, Path: s.Path, Note: []string{s.Rel}}
	c.Files = append([]c11File{}, s.Files...)
	fi := 0
	if s.NGno > 1 {
		fi = rapid.IntRange(0, s.NGno-1).Draw(rt, "file")
	}
	nops := c11Pick(rt, []int{0, 1, 1, 1, 1, 2, 2, 2, 3, 4}, "nops")
	body := c.Files[fi].Body
	for k := 0; k < nops; k++ {
		var d string
		body, d = c11Mutate(rt, body, k, func() string {
			return seeds[c11Uniform(rt, nFT, fmt.Sprintf("donor%d", k))].Files[0].Body
		})
		c.Note = append(c.Note, d)
	}
	if len(body) > 1_000_000 {
		body = body[:1_000_000]
	}
	c.Files[fi].Body = body
	if s.NGno == 1 && strings.HasPrefix(s.Rel, "gnovm/") {
		// the package clause may have been mutated: submit the way a client would
		mode, name, path := c11SubmissionFor(body)
		if mode != c.Mode || name != c.Name {
			c.Mode, c.Name, c.Path = mode, name, path
			if mode == "addpkg" {
				c.Files = []c11File{{name + ".gno", body}, {"gnomod.toml", "module = \"" + path + "\"\ngno = \"0.9\"\n"}}
			} else {
				c.Files = []c11File{{"main.gno", body}}
			}
		}
	}
	c.Gas = c11Pick(rt, []int64{3_000_000, 10_000_000, 10_000_000, 30_000_000, 100_000_000}, "gas")
	return c
}
