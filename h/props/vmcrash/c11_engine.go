// Package vmcrash holds check C11 (the VM never crashes and stays within its
// resource limits). Program texts are submitted through the production path of
// the gno.land VM keeper (MsgRun / MsgAddPackage: validation -> Go type check
// -> preprocess -> run, with the production allocation limit and a gas meter)
// inside a CHILD process (the test binary re-executed), so that a Go stack
// overflow or a fatal runtime error is observed as a child death and not as a
// crash of the harness.
//
// Two levels are used inside the child:
//
//	K  the real vm.VMKeeper (vm.NewVMKeeper wired like gno.land/pkg/sdk/vm's
//	   own tests, from exported API). The keeper's doRecover turns every Go
//	   panic of the machine into an error whose text starts with "VM panic:",
//	   which hides the Go type of the recovered value.
//	M  for exactly those "VM panic" results the same input is run again through
//	   a replica of the keeper's VM section (same calls, same options, same
//	   limits) with the harness's own recover below it, which sees the Go value
//	   and the Go stack: this decides Gno panic / preprocess rejection /
//	   allocation limit (all allowed) against runtime.Error and
//	   internal-invariant panics (violations), and yields the panic site.
package vmcrash

import (
	goerrors "errors"
	"fmt"
	"io"
	"path/filepath"
	"reflect"
	"regexp"
	"runtime"
	"runtime/debug"
	"sort"
	"strings"
	"unsafe"

	"github.com/gnolang/gno/gno.land/pkg/sdk/vm"
	"github.com/gnolang/gno/gnovm/pkg/gnoenv"
	gno "github.com/gnolang/gno/gnovm/pkg/gnolang"
	"github.com/gnolang/gno/gnovm/pkg/gnomod"
	"github.com/gnolang/gno/gnovm/stdlibs"
	bft "github.com/gnolang/gno/tm2/pkg/bft/types"
	"github.com/gnolang/gno/tm2/pkg/crypto"
	"github.com/gnolang/gno/tm2/pkg/db/memdb"
	"github.com/gnolang/gno/tm2/pkg/log"
	"github.com/gnolang/gno/tm2/pkg/sdk"
	authm "github.com/gnolang/gno/tm2/pkg/sdk/auth"
	bankm "github.com/gnolang/gno/tm2/pkg/sdk/bank"
	pm "github.com/gnolang/gno/tm2/pkg/sdk/params"
	"github.com/gnolang/gno/tm2/pkg/std"
	"github.com/gnolang/gno/tm2/pkg/store"
	storebptree "github.com/gnolang/gno/tm2/pkg/store/bptree"
	"github.com/gnolang/gno/tm2/pkg/store/dbadapter"
	stypes "github.com/gnolang/gno/tm2/pkg/store/types"
)

// c11MaxAllocTx mirrors the unexported production constant maxAllocTx of
// gno.land/pkg/sdk/vm/keeper.go (the per-transaction allocation limit).
const c11MaxAllocTx = 500_000_000

// c11File is one file of a submitted package.
type c11File struct {
	Name string `json:"name"`
	Body string `json:"body"`
}

// c11Input is what the parent sends to the child for one submission.
type c11Input struct {
	ID    int       `json:"id"`
	Mode  string    `json:"mode"`           // run | addpkg
	Name  string    `json:"name,omitempty"` // package name (addpkg)
	Path  string    `json:"path,omitempty"` // package path (addpkg)
	Files []c11File `json:"files"`
	Gas   int64     `json:"gas"`
}

// c11Outcome is the child's answer.
type c11Outcome struct {
	ID    int    `json:"id"`
	Class string `json:"class"` // see the c11* constants
	// Reached tells how far the submission got: validate | typecheck | vm
	Reached string `json:"reached"`
	Detail  string `json:"detail,omitempty"` // bounded text of the error / panic value
	GoType  string `json:"gotype,omitempty"` // Go type of the recovered value (M level / escaped panics)
	Site    string `json:"site,omitempty"`   // file:line of the top gnovm (or first non-runtime) frame at the panic
	Func    string `json:"func,omitempty"`   // function of that frame
	Stack   string `json:"stack,omitempty"`  // bounded Go stack (violations only)
	GasUsed int64  `json:"gas_used"`
	RSSMB   int64  `json:"rss_mb"`  // resident set of the child right after the input
	BaseMB  int64  `json:"base_mb"` // resident set of the child after warm-up
	MS      int64  `json:"ms"`
}

const (
	c11OK          = "ok"
	c11Invalid     = "invalid"      // message / mempackage validation error
	c11TypeCheck   = "typecheck"    // Go type check (or parse) error
	c11Rejected    = "rejected"     // keeper-level rejection after type check (gnomod, deposit, ...)
	c11Preprocess  = "preprocess"   // GnoVM preprocessor rejected the program
	c11GnoPanic    = "gno-panic"    // unhandled Gno panic
	c11OutOfGas    = "out-of-gas"   //
	c11AllocLimit  = "alloc-limit"  // allocation limit exceeded
	c11VMReject    = "vm-rejected"  // deliberate Go panic of the VM with a user-facing message (not an invariant failure)
	c11GoRuntime   = "go-runtime"   // VIOLATION: Go runtime.Error surfaced from the VM
	c11GoInvariant = "go-invariant" // VIOLATION: internal invariant panic ("should not happen", "unexpected ...")
	c11Mismatch    = "replica-mismatch"
)

type c11Env struct {
	ms      store.CommitMultiStore
	baseKey store.StoreKey
	iavlKey store.StoreKey
	ctx     sdk.Context
	vmk     *vm.VMKeeper
	acck    authm.AccountKeeper
	bankk   bankm.BankKeeper
	prmk    pm.ParamsKeeper
	addr    crypto.Address

	// M level (lazily built)
	mstore gno.Store
	mcache gno.TypeCheckCache
}

// c11NewEnv wires a VMKeeper exactly like gno.land/pkg/sdk/vm/common_test.go
// does, from exported API, loads the standard libraries and funds one account.
func c11NewEnv() *c11Env {
	db := memdb.NewMemDB()
	e := &c11Env{}
	e.baseKey = store.NewStoreKey("baseCapKey")
	e.iavlKey = store.NewStoreKey("iavlCapKey")
	ms := store.NewCommitMultiStore(db)
	ms.MountStoreWithDB(e.baseKey, dbadapter.StoreConstructor, db)
	ms.MountStoreWithDB(e.iavlKey, storebptree.FastStoreConstructor, db)
	ms.LoadLatestVersion()
	e.ms = ms
	ctx := sdk.NewContext(sdk.RunTxModeDeliver, ms, &bft.Header{ChainID: "test-chain-id", Height: 42}, log.NewNoopLogger())
	e.prmk = pm.NewParamsKeeper(e.iavlKey)
	e.acck = authm.NewAccountKeeper(e.iavlKey, e.prmk.ForModule(authm.ModuleName), std.ProtoBaseAccount, std.ProtoBaseSessionAccount)
	e.bankk = bankm.NewBankKeeper(e.acck, e.prmk.ForModule(bankm.ModuleName), e.iavlKey, []string{"ugnot"})
	e.vmk = vm.NewVMKeeper(e.baseKey, e.iavlKey, e.acck, e.bankk, e.prmk)
	e.vmk.Output = io.Discard
	e.prmk.Register(authm.ModuleName, e.acck)
	e.prmk.Register(bankm.ModuleName, e.bankk)
	e.prmk.Register(vm.ModuleName, e.vmk)
	e.acck.SetParams(ctx, authm.DefaultParams())
	e.bankk.SetParams(ctx, bankm.DefaultParams())
	e.vmk.SetParams(ctx, vm.DefaultParams())

	mcw := ms.MultiCacheWrap()
	e.vmk.Initialize(log.NewNoopLogger(), mcw)
	stdlibCtx := e.vmk.MakeGnoTransactionStore(ctx.WithMultiStore(mcw))
	e.vmk.LoadStdlib(stdlibCtx, filepath.Join(gnoenv.RootDir(), "gnovm", "stdlibs")) // the node's own cold-start path (one load per process)
	e.vmk.CommitGnoTransactionStore(stdlibCtx)
	mcw.MultiWrite()
	e.vmk.PopulateStdlibCache()

	e.addr = crypto.AddressFromPreimage([]byte("c11-submitter"))
	acc := e.acck.NewAccountWithAddress(ctx, e.addr)
	e.acck.SetAccount(ctx, acc)
	e.bankk.SetCoins(ctx, e.addr, std.MustParseCoins("1000000000000ugnot"))
	e.ctx = ctx
	return e
}

func c11MemFiles(in c11Input) []*std.MemFile {
	fs := make([]*std.MemFile, len(in.Files))
	for i, f := range in.Files {
		fs[i] = &std.MemFile{Name: f.Name, Body: f.Body}
	}
	// a client submits the files sorted by name (MemPackage.ValidateBasic requires it)
	sort.Slice(fs, func(i, j int) bool { return fs[i].Name < fs[j].Name })
	return fs
}

func c11Bound(s string, n int) string {
	if len(s) > n {
		return s[:n] + "...(truncated)"
	}
	return s
}

// txCtx returns a context for one transaction: a cache-wrapped multistore that
// is dropped afterwards, a gas meter with the tx's limit (what the ante
// handler installs) and the VM transaction store (what BeginTxHook installs).
func (e *c11Env) txCtx(gas int64) (sdk.Context, store.GasMeter) {
	gm := store.NewGasMeter(gas)
	ctx := e.ctx.WithMultiStore(e.ms.MultiCacheWrap()).WithGasMeter(gm)
	return e.vmk.MakeGnoTransactionStore(ctx), gm
}

// c11RunK submits the input through the real keeper.
func (e *c11Env) c11RunK(in c11Input) (out c11Outcome) {
	out.ID = in.ID
	ctx, gm := e.txCtx(in.Gas)
	defer func() { out.GasUsed = gm.GasConsumed() }()
	defer func() {
		// only out-of-gas is re-panicked by the keeper's doRecover; anything
		// else arriving here escaped the keeper (in production: caught by
		// BaseApp.runTx and reported as an internal error).
		if r := recover(); r != nil {
			c11ClassifyPanic(&out, r, debug.Stack(), true)
		}
	}()
	var err error
	switch in.Mode {
	case "run":
		msg := vm.MsgRun{Caller: e.addr, Package: &std.MemPackage{Name: "main", Path: "", Files: c11MemFiles(in)},
			MaxDeposit: std.MustParseCoins("100000000000ugnot")}
		out.Reached = "validate"
		if err = msg.ValidateBasic(); err != nil {
			out.Class, out.Detail = c11Invalid, c11Bound(err.Error(), 400)
			return
		}
		_, err = e.vmk.Run(ctx, msg)
	case "addpkg":
		msg := vm.MsgAddPackage{Creator: e.addr, Package: &std.MemPackage{Name: in.Name, Path: in.Path, Files: c11MemFiles(in)},
			MaxDeposit: std.MustParseCoins("100000000000ugnot")}
		out.Reached = "validate"
		if err = msg.ValidateBasic(); err != nil {
			out.Class, out.Detail = c11Invalid, c11Bound(err.Error(), 400)
			return
		}
		err = e.vmk.AddPackage(ctx, msg)
	default:
		panic("bad mode " + in.Mode)
	}
	if err == nil {
		out.Class, out.Reached = c11OK, "vm"
		return
	}
	out.Detail = c11Bound(err.Error(), 600)
	if tr := fmt.Sprintf("%+v", err); len(tr) > len(out.Detail) {
		// tm2 errors keep the messages on a trace that Error() does not show
		if i := strings.Index(tr, "Msg Traces:"); i >= 0 {
			out.Detail = c11Bound(out.Detail+" | "+strings.TrimSpace(tr[i+len("Msg Traces:"):]), 700)
		}
	}
	switch {
	case goerrors.As(err, new(vm.TypeCheckError)):
		out.Class, out.Reached = c11TypeCheck, "typecheck"
	case goerrors.As(err, new(vm.InvalidPkgPathError)), goerrors.As(err, new(vm.InvalidFileError)):
		out.Class, out.Reached = c11Invalid, "validate"
	case strings.Contains(fmt.Sprintf("%+v", err), "VM panic: "):
		out.Class, out.Reached = "vm-panic", "vm" // to be refined at M level
	default:
		// InvalidPackageError (gnomod checks), deposit / bank errors, ...
		out.Class, out.Reached = c11Rejected, "typecheck"
		if goerrors.As(err, new(vm.InvalidPackageError)) || goerrors.As(err, new(std.InsufficientCoinsError)) {
			out.Reached = "vm"
		}
	}
	return
}

// ---- M level: replica of the VM section of VMKeeper.Run / AddPackage

func (e *c11Env) mInit() {
	if e.mstore != nil {
		return
	}
	// Fast path: look at the keeper's own persistent gno store and type-check
	// cache (unexported fields, read through reflection - observation only).
	// BeginTransaction forks it exactly like VMKeeper.newGnoTransactionStore.
	if gs, cache, ok := c11PeekKeeper(e.vmk); ok {
		e.mstore, e.mcache = gs, cache
		return
	}
	// Slow path, same construction as VMKeeper.Initialize on a node restart: a
	// gno store over the committed base/iavl stores, every stored package
	// re-preprocessed, the standard libraries type-checked into the cache.
	alloc := gno.NewAllocator(c11MaxAllocTx)
	gs := gno.NewStore(alloc, e.ms.GetStore(e.baseKey), e.ms.GetStore(e.iavlKey))
	gs.SetNativeResolver(stdlibs.NativeResolver)
	m2 := gno.NewMachineWithOptions(gno.MachineOptions{PkgPath: "", Output: io.Discard, Store: gs, BoundedPanicRender: true})
	gno.DisableDebug()
	m2.PreprocessAllFilesAndSaveBlockNodes()
	gno.EnableDebug()
	m2.Release()
	cache := gno.TypeCheckCache{}
	opts := gno.TypeCheckOptions{Getter: gs, TestGetter: gs, Mode: gno.TCLatestStrict, Cache: cache}
	for _, lib := range stdlibs.InitOrder() {
		pkg, err := gno.TypeCheckMemPackage(gs.GetMemPackage(lib), opts)
		if err != nil {
			panic(fmt.Errorf("M level: type checking stdlib %q: %w", lib, err))
		}
		cache[lib] = pkg
	}
	gs.PopulateStdlibCache(stdlibs.InitOrder())
	e.mstore, e.mcache = gs, cache
}

// c11PeekKeeper reads VMKeeper.gnoStore and VMKeeper.typeCheckCache.
func c11PeekKeeper(k *vm.VMKeeper) (gs gno.Store, cache gno.TypeCheckCache, ok bool) {
	defer func() {
		if recover() != nil {
			ok = false
		}
	}()
	v := reflect.ValueOf(k).Elem()
	f := v.FieldByName("gnoStore")
	c := v.FieldByName("typeCheckCache")
	if !f.IsValid() || !c.IsValid() {
		return nil, nil, false
	}
	gs, ok1 := reflect.NewAt(f.Type(), unsafe.Pointer(f.UnsafeAddr())).Elem().Interface().(gno.Store)
	cache, ok2 := reflect.NewAt(c.Type(), unsafe.Pointer(c.UnsafeAddr())).Elem().Interface().(gno.TypeCheckCache)
	return gs, cache, ok1 && ok2 && gs != nil && cache != nil
}

// c11RunM runs the VM section of the keeper's handler with the harness's own
// recover directly above the machine. Only the steps that can raise the "VM
// panic" are replicated (the deposit and namespace steps are keeper business
// and already happened at K level).
func (e *c11Env) c11RunM(in c11Input) (out c11Outcome) {
	e.mInit()
	out.ID = in.ID
	out.Reached = "vm"
	gm := store.NewGasMeter(in.Gas)
	ctx := e.ctx.WithMultiStore(e.ms.MultiCacheWrap()).WithGasMeter(gm)
	gctx := ctx.GasContext()
	cfg := gctx.Config
	e.vmk.GetParams(ctx).ApplyToGasConfig(&cfg)
	gctx = &store.GasContext{Meter: gctx.Meter, Config: cfg}
	gnostore := e.mstore.BeginTransaction(ctx.Store(e.baseKey), ctx.Store(e.iavlKey), gctx, gm)
	cache := gno.TypeCheckCache{}
	for k, v := range e.mcache {
		cache[k] = v
	}
	defer func() { out.GasUsed = gm.GasConsumed() }()
	defer func() {
		if r := recover(); r != nil {
			c11ClassifyPanic(&out, r, debug.Stack(), false)
		}
	}()
	params := e.vmk.GetParams(ctx)
	chargePre := func(mpkg *std.MemPackage, d string) {
		var n int64
		for _, f := range mpkg.Files {
			if strings.HasSuffix(f.Name, ".gno") {
				n += int64(len(f.Body))
			}
		}
		gm.ConsumeGas(params.PreprocessGasPerByte*n, d)
	}
	ctx = vm.ContextWithParamsAccum(ctx)
	msgCtx := stdlibs.ExecContext{
		ChainID: ctx.ChainID(), ChainDomain: "gno.land", Height: ctx.BlockHeight(), Timestamp: ctx.BlockTime().Unix(),
		OriginCaller: e.addr.Bech32(), OriginSend: nil, OriginSendSpent: new(std.Coins),
		Banker: vm.NewSDKBanker(e.vmk, ctx), Params: vm.NewSDKParams(e.prmk, ctx), EventLogger: ctx.EventLogger(),
	}
	preAlloc := gno.NewAllocator(c11MaxAllocTx)
	preAlloc.SetGasMeter(gm)
	switch in.Mode {
	case "run":
		memPkg := &std.MemPackage{Name: "main", Files: c11MemFiles(in)}
		memPkg.Type = gno.MPUserProd
		memPkg.Path = "gno.land/e/" + e.addr.String() + "/run"
		if err := gno.ValidateMemPackage(memPkg); err != nil {
			out.Class = c11Invalid
			return
		}
		chargePre(memPkg, "RunPreprocess")
		if _, err := gno.TypeCheckMemPackage(memPkg, gno.TypeCheckOptions{Getter: gnostore, TestGetter: gnostore, Mode: gno.TCLatestRelaxed, Cache: cache}); err != nil {
			out.Class = c11TypeCheck
			return
		}
		gmod := new(gnomod.File)
		gmod.Module = memPkg.Path
		gmod.Gno = gno.GnoVerLatest
		gmod.Private = true
		memPkg.SetFile("gnomod.toml", gmod.WriteString())
		alloc := gnostore.GetAllocator()
		gnostore.SetPreprocessAllocator(preAlloc)
		defer gnostore.SetPreprocessAllocator(nil)
		m := gno.NewMachineWithOptions(gno.MachineOptions{PkgPath: "", Output: io.Discard, Store: gnostore, Alloc: alloc,
			Context: msgCtx, GasMeter: gm, BoundedPanicRender: true})
		_, pv := m.RunMemPackage(memPkg, false)
		m.Release()
		m2 := gno.NewMachineWithOptions(gno.MachineOptions{PkgPath: "", Output: io.Discard, Store: gnostore, Alloc: alloc,
			Context: msgCtx, GasMeter: gm, BoundedPanicRender: true})
		m2.SetActivePackage(pv)
		m2.RunMainMaybeCrossing()
		m2.Release()
	case "addpkg":
		memPkg := &std.MemPackage{Name: in.Name, Path: in.Path, Files: c11MemFiles(in)}
		memPkg.Type = gno.MPUserAll
		if err := gno.ValidateMemPackageAny(memPkg); err != nil {
			out.Class = c11Invalid
			return
		}
		chargePre(memPkg, "AddPackagePreprocess")
		if _, err := gno.TypeCheckMemPackage(memPkg, gno.TypeCheckOptions{Getter: gnostore, TestGetter: gnostore, Mode: gno.TCLatestStrict, Cache: cache}); err != nil {
			out.Class = c11TypeCheck
			return
		}
		gmod, err := gnomod.ParseMemPackage(memPkg)
		if err != nil {
			out.Class = c11Rejected
			return
		}
		gmod.Module = in.Path
		gmod.AddPkg.Creator = e.addr.String()
		gmod.AddPkg.Height = int(ctx.BlockHeight())
		memPkg.SetFile("gnomod.toml", gmod.WriteString())
		m2 := gno.NewMachineWithOptions(gno.MachineOptions{PkgPath: "", Output: io.Discard, Store: gnostore, Alloc: gnostore.GetAllocator(),
			Context: msgCtx, GasMeter: gm, BoundedPanicRender: true})
		gnostore.SetPreprocessAllocator(preAlloc)
		defer gnostore.SetPreprocessAllocator(nil)
		m2.RunMemPackage(memPkg, true)
		m2.Release()
	}
	out.Class = c11OK
	return
}

// ---- classification of a recovered Go value

var (
	// Messages by which the VM's own code says that one of its internal
	// invariants broke. A panic carrying one of these (and not raised by the
	// Gno program itself, which is a typed *Exception / UnhandledPanicError) is
	// an internal fault of the interpreter, not a clean rejection.
	c11InvariantRE = regexp.MustCompile(`(?i)should not happen|should never happen|unexpected|unreachable|impossible|invariant|internal error|not possible`)
	c11FrameRE     = regexp.MustCompile(`^\t(\S+\.go):(\d+)`)
)

// c11Site extracts the panic site from a Go stack captured inside a deferred
// recover: the first non-runtime frame below the DEEPEST "panic(" line (nested
// re-panics, e.g. the preprocessor's doRecover or Machine.runOnce, keep the
// original frames on the stack), preferring frames of the gno repository.
func c11Site(stack []byte) (site, fn string) {
	lines := strings.Split(string(stack), "\n")
	last := -1
	for i, l := range lines {
		if strings.HasPrefix(l, "panic(") {
			last = i
		}
	}
	for i := last + 1; i+1 < len(lines); i++ {
		l := lines[i]
		if strings.HasPrefix(l, "\t") || l == "" {
			continue
		}
		if strings.HasPrefix(l, "runtime.") || strings.HasPrefix(l, "runtime/") || strings.HasPrefix(l, "panic(") ||
			strings.HasPrefix(l, "created by") || strings.HasPrefix(l, "goroutine ") {
			continue
		}
		m := c11FrameRE.FindStringSubmatch(lines[i+1])
		if m == nil {
			continue
		}
		file := m[1]
		if k := strings.Index(file, "/gnovm/"); k >= 0 {
			file = file[k+1:]
		} else if k := strings.Index(file, "/gno.land/"); k >= 0 {
			file = file[k+1:]
		} else if k := strings.Index(file, "/tm2/"); k >= 0 {
			file = file[k+1:]
		} else if k := strings.Index(file, "/src/"); k >= 0 {
			file = "go/" + file[k+5:]
		}
		fn = l
		if p := strings.LastIndex(fn, "("); p > 0 {
			fn = fn[:p]
		}
		if p := strings.LastIndex(fn, "/"); p >= 0 {
			fn = fn[p+1:]
		}
		return file + ":" + m[2], fn
	}
	return "?", "?"
}

// c11ClassifyPanic decides what a recovered Go value means. escaped tells that
// the value escaped the keeper itself (K level) instead of being observed
// below doRecover (M level).
func c11ClassifyPanic(out *c11Outcome, r any, stack []byte, escaped bool) {
	out.GoType = fmt.Sprintf("%T", r)
	out.Detail = c11Bound(c11Render(r), 600)
	if out.Reached == "" {
		out.Reached = "vm"
	}
	var err error
	if e, ok := r.(error); ok {
		err = e
	}
	if err != nil {
		var oog stypes.OutOfGasError
		if goerrors.As(err, &oog) {
			out.Class = c11OutOfGas
			if strings.HasSuffix(oog.Descriptor, "Preprocess") {
				out.Reached = "validate" // the per-byte charge before the type check
			} else {
				out.Reached = "vm"
			}
			return
		}
		var rte runtime.Error
		if goerrors.As(err, &rte) {
			out.Class = c11GoRuntime
			out.Site, out.Func = c11Site(stack)
			out.Stack = c11Bound(string(stack), 6000)
			return
		}
		var up gno.UnhandledPanicError
		if goerrors.As(err, &up) {
			out.Class = c11GnoPanic
			return
		}
	}
	if _, ok := r.(*gno.Exception); ok {
		out.Class = c11GnoPanic
		return
	}
	msg := c11Render(r)
	// the text of a runtime.Error that was flattened into a string on the way
	if strings.Contains(msg, "runtime error: ") || strings.Contains(msg, "interface conversion: ") {
		// A Gno program can raise the same words as an *Exception; that case
		// returned above. Here the value is a plain Go value.
		out.Class = c11GoRuntime
		out.Site, out.Func = c11Site(stack)
		out.Stack = c11Bound(string(stack), 6000)
		return
	}
	if strings.Contains(msg, "allocation limit exceeded") {
		out.Class = c11AllocLimit
		return
	}
	if c11InvariantRE.MatchString(c11StripLoc(msg)) {
		out.Class = c11GoInvariant
		out.Site, out.Func = c11Site(stack)
		out.Stack = c11Bound(string(stack), 6000)
		return
	}
	if _, ok := r.(*gno.PreprocessError); ok {
		out.Class = c11Preprocess
		return
	}
	out.Class = c11VMReject
	out.Site, out.Func = c11Site(stack)
}

// c11StripLoc removes quoted program text from a message so that identifiers
// or string literals of the submitted program cannot trigger the invariant
// matcher by themselves ("unexpected" as a variable name, say).
func c11StripLoc(msg string) string {
	msg = regexp.MustCompile("\"(?:[^\"\\\\]|\\\\.)*\"").ReplaceAllString(msg, `""`)
	msg = regexp.MustCompile("`[^`]*`").ReplaceAllString(msg, "``")
	return msg
}

func c11Render(r any) (s string) {
	defer func() {
		if p := recover(); p != nil {
			s = fmt.Sprintf("<%T: rendering panicked: %v>", r, p)
		}
	}()
	switch v := r.(type) {
	case error:
		return v.Error()
	case string:
		return v
	case fmt.Stringer:
		return v.String()
	}
	return fmt.Sprintf("%v", r)
}
