package vmcrash

import (
	"encoding/json"
	"fmt"
	"os"
	"testing"
	"time"
)

// TestDev_Probe runs the programs of $C11_DEV (a JSON list of c11Input) through one child.
func TestDev_Probe(t *testing.T) {
	p := os.Getenv("C11_DEV")
	if p == "" {
		t.Skip()
	}
	b, err := os.ReadFile(p)
	if err != nil {
		t.Fatal(err)
	}
	var ins []c11Input
	if err := json.Unmarshal(b, &ins); err != nil {
		t.Fatal(err)
	}
	t0 := time.Now()
	c, err := c11Spawn()
	if err != nil {
		t.Fatal(err)
	}
	fmt.Println("spawn", time.Since(t0))
	for i, in := range ins {
		in.ID = i
		if c == nil || c.dead {
			c, err = c11Spawn()
			if err != nil {
				t.Fatal(err)
			}
		}
		r := c.ask(in, 10*time.Minute)
		r.Out.Stack = c11Bound(r.Out.Stack, 1500)
		ob, _ := json.Marshal(r.Out)
		fmt.Printf("#%d died=%v timeout=%v %s\n", i, r.Died, r.TimedOut, ob)
		if r.Died {
			fmt.Println(c11Bound(r.DeathMsg, 3000))
		}
	}
	c.kill()
}
