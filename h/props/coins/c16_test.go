package coins

import (
	"fmt"
	"sort"
	"strings"
	"testing"

	"github.com/gnolang/gno/gno.land/pkg/sdk/vm"
	"github.com/gnolang/gno/tm2/pkg/amino"
	"github.com/gnolang/gno/tm2/pkg/crypto"
	"github.com/gnolang/gno/tm2/pkg/sdk/auth"
	"github.com/gnolang/gno/tm2/pkg/sdk/bank"
	"github.com/gnolang/gno/tm2/pkg/std"
	"pgregory.net/rapid"
	ec "verif/eng/chain"
	"verif/vk"
)

// C16 — session keys cannot exceed their spend limit or allowed actions.
//
// Histories of session creation / revocation / clock advance and session-signed
// transactions, one per block. The oracle is an independent model: the spend
// window documented in tm2/pkg/sdk/auth/spend.go fed with the MEASURED outflow
// of the master account (balance decrease recomputed from raw keys), the
// session's existence/expiry as declared at creation, and a re-implementation
// of the allow-path grammar documented in chain/runtime.GetSessionInfo.

const (
	c16PathA   = "gno.land/r/ss/aa"
	c16PathAB  = "gno.land/r/ss/aab"
	c16PathASB = "gno.land/r/ss/aa/bb"
	c16Tok     = "/" + ec.PathBank + ":tok"
)

func c16RealmSrc(name string) string {
	return `package ` + name + `

import "chain/runtime/unsafe"

var Got int64
var Pad []string

func Take(cur realm) int64 {
	Got += unsafe.OriginSend().AmountOf("ugnot")
	return Got
}

func Grow(cur realm, n int) int {
	for i := 0; i < n; i++ {
		Pad = append(Pad, "0123456789abcdef0123456789abcdef0123456789abcdef0123456789abcdef0123456789abcdef0123456789abcdef")
	}
	return len(Pad)
}
`
}

var c16Realms = []string{c16PathA, c16PathAB, c16PathASB}

var c16AllowPool = []string{
	"*", "vm/exec", "vm/run", "bank/send", "bank/multisend",
	"vm/exec:" + c16PathA, "vm/exec:" + c16PathASB, "vm/exec:" + c16PathAB, "vm/exec:gno.land/r/ss",
	// malformed or never-grantable entries
	"", "bank", "vm/exec:", "vm/exec:" + c16PathA + "/", "*:x", "vm/add_package", "auth/create_session", "bank/send:foo", "vm",
}

const c16ValidAllow = 9 // the first 9 pool entries are well-formed

type c16Msg struct {
	Kind  string `json:"kind"` // send | take | grow | run | nope | addpkg | create | revoke | revokeall
	Amt   int64  `json:"amt,omitempty"`
	Realm int    `json:"realm,omitempty"`
	N     int    `json:"n,omitempty"`
	Tok   bool   `json:"tok,omitempty"`
	Dep   int64  `json:"dep,omitempty"`
}

type c16Op struct {
	Kind      string   `json:"kind"` // create | revoke | revokeall | stx | mtx
	DT        int64    `json:"dt"`
	Master    int      `json:"master"`
	Sess      int      `json:"sess"`
	Limit     int64    `json:"limit,omitempty"`
	LimitTok  int64    `json:"limit_tok,omitempty"`
	Period    int64    `json:"period,omitempty"`
	ExpiresIn int64    `json:"expires_in,omitempty"`
	Allow     []int    `json:"allow,omitempty"`
	Fee       int64    `json:"fee,omitempty"`
	Msgs      []c16Msg `json:"msgs,omitempty"`
	Second    bool     `json:"second,omitempty"` // the session signs as second signer; the other master's own key pays the fee
}

type c16Case struct {
	Ops []c16Op `json:"ops"`
}

func c16DrawMsg(rt *rapid.T) c16Msg {
	m := c16Msg{}
	m.Kind = rapid.SampledFrom([]string{"send", "take", "grow", "run", "send", "take", "grow", "nope", "send", "take", "grow", "run", "addpkg", "send", "take", "create", "grow", "send", "revoke", "take", "nope", "revokeall", "send"}).Draw(rt, "mkind")
	m.Amt = rapid.SampledFrom([]int64{50_000, 1, 10_000, 200_000, 1_500_000}).Draw(rt, "amt")
	m.Realm = rapid.IntRange(0, 2).Draw(rt, "realm")
	m.N = rapid.IntRange(1, 30).Draw(rt, "n")
	m.Tok = rapid.IntRange(0, 6).Draw(rt, "tok") == 4
	m.Dep = rapid.SampledFrom([]int64{0, 0, 0, 1}).Draw(rt, "dep")
	return m
}

// c16MsgFor draws a message that one of the session's allow-path entries
// covers, or (for path entries) a near miss on a sibling realm.
func c16MsgFor(rt *rapid.T, allow []int) c16Msg {
	m := c16DrawMsg(rt)
	if len(allow) == 0 {
		return m
	}
	exec := []string{"take", "grow", "take", "nope"}
	switch e := rapid.SampledFrom(allow).Draw(rt, "entry"); e {
	case 1:
		m.Kind = rapid.SampledFrom(exec).Draw(rt, "ekind")
	case 2:
		m.Kind = "run"
	case 3:
		m.Kind = "send"
	case 5, 6, 7:
		m.Kind = rapid.SampledFrom(exec).Draw(rt, "ekind")
		m.Realm = rapid.SampledFrom(map[int][]int{5: {0, 1, 2, 1}, 6: {2, 0, 2}, 7: {1, 0, 1}}[e]).Draw(rt, "near")
	case 8:
		m.Kind = rapid.SampledFrom(exec).Draw(rt, "ekind")
	}
	return m
}

// c16WindowStress follows a freshly created periodic session with three
// session-signed sends: ~2/3 of the limit right away, the same again one second
// before the first window ends (must not fit), and again at the boundary.
func c16WindowStress(o c16Op, second bool) []c16Op {
	sendOK := false
	for _, a := range o.Allow {
		sendOK = sendOK || a == 0 || a == 3
	}
	var amt int64
	k := 1
	switch o.Limit {
	case 300_000:
		amt = 200_000
	case 1_000_000:
		amt, k = 200_000, 3
	case 3_000_000:
		amt = 1_500_000
	}
	if !sendOK || amt == 0 || o.Period < 4 {
		return nil
	}
	mk := func(dt int64) c16Op {
		so := c16Op{Kind: "stx", DT: dt, Master: o.Master, Sess: o.Sess, Fee: 1, Second: second}
		for i := 0; i < k; i++ {
			so.Msgs = append(so.Msgs, c16Msg{Kind: "send", Amt: amt})
		}
		return so
	}
	return []c16Op{mk(1), mk(o.Period - 2), mk(1)}
}

// c16Gen is generator-side bookkeeping (what the history created so far), used
// only to aim traffic at live sessions and at expiry / period boundaries.
type c16Gen struct {
	clock   int64
	created map[[2]int]int64
	expires map[[2]int]int64
	period  map[[2]int]int64
}

func c16DrawOp(rt *rapid.T, first bool, live *[][2]int, allowOf map[[2]int][]int, g *c16Gen) c16Op {
	o := c16Op{}
	kinds := []string{"stx", "stx", "stx", "stx", "stx", "stx", "stx", "create", "stx", "stx", "stx", "stx", "mtx", "stx", "revoke", "stx", "stx", "revokeall", "stx", "stx"}
	if first || len(*live) == 0 {
		kinds = []string{"create"}
	}
	o.Kind = rapid.SampledFrom(kinds).Draw(rt, "kind")
	o.DT = rapid.SampledFrom([]int64{1, 1, 1, 1, 5, 5, 20, 50, 100, 300, 2000}).Draw(rt, "dt")
	o.Master = rapid.IntRange(0, 1).Draw(rt, "master")
	o.Sess = rapid.IntRange(0, 2).Draw(rt, "sess")
	// aim most session traffic and revocations at sessions that were created earlier in the history
	isLive := func(m, s int) int {
		for i, p := range *live {
			if p == [2]int{m, s} {
				return i
			}
		}
		return -1
	}
	if o.Kind != "create" && len(*live) > 0 && rapid.IntRange(0, 11).Draw(rt, "aim") != 6 {
		p := rapid.SampledFrom(*live).Draw(rt, "live")
		o.Master, o.Sess = p[0], p[1]
	}
	if o.Kind == "create" && isLive(o.Master, o.Sess) >= 0 && rapid.IntRange(0, 5).Draw(rt, "dup") != 3 {
		// prefer a free slot (a duplicate create is refused)
		for k := 0; k < 6; k++ {
			if isLive(k/3, k%3) < 0 {
				o.Master, o.Sess = k/3, k%3
				break
			}
		}
	}
	o.Fee = rapid.SampledFrom([]int64{1, 1, 50_000, 200_000}).Draw(rt, "fee")
	if k := [2]int{o.Master, o.Sess}; o.Kind == "stx" && isLive(o.Master, o.Sess) >= 0 {
		// sometimes step the clock exactly onto (or next to) the session's expiry or a period boundary
		var targets []int64
		if e := g.expires[k]; e > 0 && g.created[k]+e > g.clock {
			targets = append(targets, g.created[k]+e-g.clock)
		}
		if p := g.period[k]; p > 0 {
			targets = append(targets, p-(g.clock-g.created[k])%p)
		}
		if len(targets) > 0 && rapid.IntRange(0, 3).Draw(rt, "boundary") == 2 {
			dt := rapid.SampledFrom(targets).Draw(rt, "target") + rapid.SampledFrom([]int64{0, 0, -1, 1}).Draw(rt, "off")
			if dt >= 1 {
				o.DT = dt
			}
		}
	}
	g.clock += o.DT
	switch o.Kind {
	case "create":
		o.Limit = rapid.SampledFrom([]int64{1_000_000, 300_000, 3_000_000, 0, 10_000_000}).Draw(rt, "limit")
		o.LimitTok = rapid.SampledFrom([]int64{0, 0, 50}).Draw(rt, "limtok")
		o.Period = rapid.SampledFrom([]int64{0, 0, 50, 400}).Draw(rt, "period")
		o.ExpiresIn = rapid.SampledFrom([]int64{0, 0, 0, 100, 1000, 100_000}).Draw(rt, "expires")
		n := rapid.IntRange(1, 3).Draw(rt, "nallow")
		if rapid.IntRange(0, 3).Draw(rt, "pathonly") == 2 {
			// a session restricted to one realm path (plus, sometimes, plain sends)
			o.Allow = []int{rapid.SampledFrom([]int{5, 6, 7, 5}).Draw(rt, "pathentry")}
			if rapid.Bool().Draw(rt, "plussend") {
				o.Allow = append(o.Allow, 3)
			}
			n = 0
		}
		for i := 0; i < n; i++ {
			switch rapid.IntRange(0, 11).Draw(rt, "allowkind") {
			case 7:
				o.Allow = append(o.Allow, rapid.IntRange(c16ValidAllow, len(c16AllowPool)-1).Draw(rt, "allow"))
			case 0, 1, 2, 3:
				o.Allow = append(o.Allow, 0) // "*"
			default:
				o.Allow = append(o.Allow, rapid.IntRange(1, c16ValidAllow-1).Draw(rt, "allow"))
			}
		}
		wellFormed := true
		for _, a := range o.Allow {
			wellFormed = wellFormed && a < c16ValidAllow
		}
		if wellFormed && isLive(o.Master, o.Sess) < 0 {
			*live = append(*live, [2]int{o.Master, o.Sess})
			k := [2]int{o.Master, o.Sess}
			allowOf[k] = o.Allow
			g.created[k], g.expires[k], g.period[k] = g.clock, o.ExpiresIn, o.Period
		}
	case "revoke":
		if i := isLive(o.Master, o.Sess); i >= 0 {
			*live = append(append([][2]int{}, (*live)[:i]...), (*live)[i+1:]...)
		}
	case "revokeall":
		var keep [][2]int
		for _, p := range *live {
			if p[0] != o.Master {
				keep = append(keep, p)
			}
		}
		*live = keep
	case "stx", "mtx":
		n := rapid.SampledFrom([]int{1, 1, 1, 2, 2, 3}).Draw(rt, "nmsgs")
		conform := o.Kind == "stx" && rapid.IntRange(0, 3).Draw(rt, "conform") != 2
		for i := 0; i < n; i++ {
			if conform {
				o.Msgs = append(o.Msgs, c16MsgFor(rt, allowOf[[2]int{o.Master, o.Sess}]))
			} else {
				o.Msgs = append(o.Msgs, c16DrawMsg(rt))
			}
		}
		o.Second = o.Kind == "stx" && rapid.IntRange(0, 6).Draw(rt, "second") == 4
	}
	return o
}

func c16Draw(rt *rapid.T) c16Case {
	n := rapid.IntRange(14, 30).Draw(rt, "nops")
	c := c16Case{}
	var live [][2]int
	allowOf := map[[2]int][]int{}
	g := &c16Gen{created: map[[2]int]int64{}, expires: map[[2]int]int64{}, period: map[[2]int]int64{}}
	for i := 0; i < n; i++ {
		o := c16DrawOp(rt, i == 0, &live, allowOf, g)
		c.Ops = append(c.Ops, o)
		if o.Kind == "create" && rapid.IntRange(0, 2).Draw(rt, "stress") == 1 {
			for _, so := range c16WindowStress(o, rapid.Bool().Draw(rt, "stress2nd")) {
				g.clock += so.DT
				c.Ops = append(c.Ops, so)
			}
		}
	}
	return c
}

// ---------------------------------------------------------------------------
// Independent model.

type c16Session struct {
	exists    bool
	limit     map[string]int64
	period    int64
	expiresAt int64
	allow     []string
	reset     int64
	used      map[string]int64
	// statistics for the non-trivial rule
	inWindow       int
	failedInWindow bool
	ntHit          bool
}

// c16Allows re-implements the documented grammar: "*", "<route>/<type>",
// "vm/exec:<path>" (exact realm or sub-realm). auth/* and vm/add_package are
// never permitted.
func c16Allows(allow []string, route, typ, path string) bool {
	if route == "auth" || (route == "vm" && typ == "add_package") {
		return false
	}
	for _, e := range allow {
		if e == "*" {
			return true
		}
		rt, p, hasPath := strings.Cut(e, ":")
		switch rt {
		case "vm/exec", "vm/run", "bank/send", "bank/multisend":
		default:
			continue
		}
		if rt != route+"/"+typ {
			continue
		}
		if !hasPath {
			return true
		}
		if rt != "vm/exec" || p == "" || strings.HasSuffix(p, "/") {
			continue
		}
		if path == p || strings.HasPrefix(path, p+"/") {
			return true
		}
	}
	return false
}

type c16World struct {
	masters [2]ec.Key
	sess    [2][3]ec.Key
	rcpt    crypto.Address
}

func c16NewWorld() *c16World {
	w := &c16World{}
	for m := 0; m < 2; m++ {
		w.masters[m] = ec.NewKey(fmt.Sprintf("c16-master%d", m))
		for s := 0; s < 3; s++ {
			w.sess[m][s] = ec.NewKey(fmt.Sprintf("c16-sess%d-%d", m, s))
		}
	}
	w.rcpt = ec.NewKey("c16-rcpt").Addr
	return w
}

type c16MsgInfo struct {
	msg         std.Msg
	route, typ  string
	path        string
	bySessioned bool // signed for by the session's master
}

func (w *c16World) buildMsg(m c16Msg, from crypto.Address, op c16Op, idx int) c16MsgInfo {
	coin := func() std.Coins {
		if m.Tok {
			amt := m.Amt % 97
			if amt == 0 {
				amt = 1
			}
			return std.Coins{std.NewCoin(c16Tok, amt)}
		}
		return std.Coins{std.NewCoin("ugnot", m.Amt)}
	}
	dep := func() std.Coins {
		if m.Dep > 0 {
			return std.Coins{std.NewCoin("ugnot", m.Dep)}
		}
		return nil
	}
	realm := c16Realms[m.Realm%len(c16Realms)]
	switch m.Kind {
	case "send":
		return c16MsgInfo{msg: bank.MsgSend{FromAddress: from, ToAddress: w.rcpt, Amount: coin()}, route: "bank", typ: "send"}
	case "take":
		return c16MsgInfo{msg: ec.Call(from, realm, "Take", nil, std.Coins{std.NewCoin("ugnot", m.Amt)}), route: "vm", typ: "exec", path: realm}
	case "grow":
		c := ec.Call(from, realm, "Grow", []string{fmt.Sprint(m.N)}, nil)
		c.MaxDeposit = dep()
		return c16MsgInfo{msg: c, route: "vm", typ: "exec", path: realm}
	case "nope":
		return c16MsgInfo{msg: ec.Call(from, realm, "Missing", nil, nil), route: "vm", typ: "exec", path: realm}
	case "run":
		body := fmt.Sprintf("package main\n\nimport (\n\t\"chain\"\n\t\"chain/banker\"\n)\n\nfunc main(cur realm) {\n\tb := banker.NewBanker(banker.BankerTypeRealmSend, cur)\n\tb.SendCoins(cur.Address(), address(%q), chain.Coins{{\"ugnot\", %d}})\n}\n", w.rcpt.String(), m.Amt)
		return c16MsgInfo{msg: vm.NewMsgRun(from, nil, []*std.MemFile{{Name: "main.gno", Body: body}}), route: "vm", typ: "run"}
	case "addpkg":
		name := fmt.Sprintf("xx%d", idx)
		return c16MsgInfo{msg: ec.AddPkg(from, "gno.land/r/ss/"+name, map[string]string{"a.gno": "package " + name + "\n\nvar X = 1\n"}, nil), route: "vm", typ: "add_package"}
	case "create":
		// privilege escalation attempt: a session minting an unrestricted session
		k := ec.NewKey(fmt.Sprintf("c16-escalate-%d", idx))
		return c16MsgInfo{msg: auth.MsgCreateSession{Creator: from, SessionKey: k.Pub, AllowPaths: []string{"*"}, SpendLimit: std.Coins{std.NewCoin("ugnot", 1e12)}}, route: "auth", typ: "create_session"}
	case "revoke":
		return c16MsgInfo{msg: auth.MsgRevokeSession{Creator: from, SessionKey: w.sess[op.Master%2][(op.Sess+1)%3].Pub}, route: "auth", typ: "revoke_session"}
	case "revokeall":
		return c16MsgInfo{msg: auth.MsgRevokeAllSessions{Creator: from}, route: "auth", typ: "revoke_all_sessions"}
	}
	panic("bad msg kind " + m.Kind)
}

// signer describes how one required signer signs.
type c16Signer struct {
	addr    crypto.Address
	key     ec.Key
	session bool
}

const c16Gas = 60_000_000

func c16Exec(ctx *vk.Ctx, c c16Case) error {
	w := c16NewWorld()
	gen := ec.GenesisWithBalances(1e12, w.masters[0], w.masters[1])
	ch, _, err := ec.New(nil, gen, ec.Options{})
	if err != nil {
		return fmt.Errorf("harness: %v", err)
	}
	ch.Begin(1)
	ch.End()
	ch.Begin(2)
	m0 := w.masters[0]
	setup := []std.Msg{
		ec.AddPkg(m0.Addr, c16PathA, map[string]string{"a.gno": c16RealmSrc("aa")}, nil),
		ec.AddPkg(m0.Addr, c16PathAB, map[string]string{"a.gno": c16RealmSrc("aab")}, nil),
		ec.AddPkg(m0.Addr, c16PathASB, map[string]string{"a.gno": c16RealmSrc("bb")}, nil),
		ec.AddPkg(m0.Addr, ec.PathBank, map[string]string{"a.gno": ec.RealmBank}, nil),
		ec.Call(m0.Addr, ec.PathBank, "Mint", []string{w.masters[0].Addr.String(), "100000"}, nil),
		ec.Call(m0.Addr, ec.PathBank, "Mint", []string{w.masters[1].Addr.String(), "100000"}, nil),
	}
	for i, m := range setup {
		r, _, err := ch.Send([]std.Msg{m}, 100_000_000, 1_000_000, m0)
		if err != nil || r.Error != nil {
			return fmt.Errorf("harness: setup step %d: %v %v %s", i, err, r.Error, trimLog(r.Log))
		}
	}
	// master 1 signs once so that its public key is on record
	if r, _, err := ch.Send([]std.Msg{bank.MsgSend{FromAddress: w.masters[1].Addr, ToAddress: w.rcpt, Amount: ugnot(1)}}, 10_000_000, 1_000_000, w.masters[1]); err != nil || r.Error != nil {
		return fmt.Errorf("harness: setup: %v %v", err, r.Error)
	}
	ch.End()

	model := map[string]*c16Session{}
	key := func(m, s int) string { return fmt.Sprintf("%d/%d", m%2, s%3) }
	for m := 0; m < 2; m++ {
		for s := 0; s < 3; s++ {
			model[key(m, s)] = &c16Session{}
		}
	}
	ledger := func() (*ec.Ledger, *ec.Reader, error) {
		rd, err := ec.OpenReader(ch.DB)
		if err != nil {
			return nil, nil, err
		}
		l := ec.LedgerOf(rd.MainDump())
		if len(l.Problems) > 0 {
			return nil, nil, fmt.Errorf("malformed ledger: %s", strings.Join(l.Problems, "; "))
		}
		return l, rd, nil
	}
	tsec := int64(100)
	accepted, denied := 0, 0
	for i, op := range c.Ops {
		tsec += op.DT
		now := ec.T0.Unix() + tsec
		mi := op.Master % 2
		master := w.masters[mi]
		skey := w.sess[mi][op.Sess%3]
		sm := model[key(mi, op.Sess)]
		before, rd, err := ledger()
		if err != nil {
			return err
		}
		// ---- assemble the transaction ----
		var infos []c16MsgInfo
		var signers []c16Signer
		fee := op.Fee
		if fee <= 0 {
			fee = 1
		}
		switch op.Kind {
		case "create":
			var allow []string
			for _, a := range op.Allow {
				allow = append(allow, c16AllowPool[a%len(c16AllowPool)])
			}
			var lim std.Coins
			if op.LimitTok > 0 {
				lim = append(lim, std.NewCoin(c16Tok, op.LimitTok))
			}
			if op.Limit > 0 {
				lim = append(lim, std.NewCoin("ugnot", op.Limit))
			}
			exp := int64(0)
			if op.ExpiresIn > 0 {
				exp = now + op.ExpiresIn
			}
			infos = []c16MsgInfo{{msg: auth.MsgCreateSession{Creator: master.Addr, SessionKey: skey.Pub, ExpiresAt: exp, AllowPaths: allow, SpendLimit: lim, SpendPeriod: op.Period}}}
			signers = []c16Signer{{addr: master.Addr, key: master}}
		case "revoke":
			infos = []c16MsgInfo{{msg: auth.MsgRevokeSession{Creator: master.Addr, SessionKey: skey.Pub}}}
			signers = []c16Signer{{addr: master.Addr, key: master}}
		case "revokeall":
			infos = []c16MsgInfo{{msg: auth.MsgRevokeAllSessions{Creator: master.Addr}}}
			signers = []c16Signer{{addr: master.Addr, key: master}}
		case "mtx":
			for j, m := range op.Msgs {
				if m.Kind == "create" || m.Kind == "revoke" || m.Kind == "revokeall" || m.Kind == "addpkg" {
					m.Kind = "send" // the master's own traffic stays plain; sessions are managed by explicit ops
				}
				infos = append(infos, w.buildMsg(m, master.Addr, op, i*10+j))
			}
			signers = []c16Signer{{addr: master.Addr, key: master}}
		case "stx":
			if op.Second {
				other := w.masters[1-mi]
				infos = append(infos, c16MsgInfo{msg: bank.MsgSend{FromAddress: other.Addr, ToAddress: w.rcpt, Amount: ugnot(7)}})
				signers = append(signers, c16Signer{addr: other.Addr, key: other})
			}
			for j, m := range op.Msgs {
				mi2 := w.buildMsg(m, master.Addr, op, i*10+j)
				mi2.bySessioned = true
				infos = append(infos, mi2)
			}
			signers = append(signers, c16Signer{addr: master.Addr, key: skey, session: true})
		default:
			return fmt.Errorf("harness: bad op kind %q", op.Kind)
		}
		msgs := make([]std.Msg, len(infos))
		for j, in := range infos {
			msgs[j] = in.msg
			if in.route != "" && (in.msg.Route() != in.route || in.msg.Type() != in.typ) {
				return fmt.Errorf("harness: message table out of date: %T is %s/%s", in.msg, in.msg.Route(), in.msg.Type())
			}
		}
		tx := std.Tx{Msgs: msgs, Fee: std.Fee{GasWanted: c16Gas, GasFee: std.NewCoin("ugnot", fee)}}
		if got := tx.GetSigners(); len(got) != len(signers) {
			return fmt.Errorf("harness: signer list mismatch %v", got)
		}
		tx.Signatures = make([]std.Signature, len(signers))
		for j, sg := range signers {
			var num, seq uint64
			if sg.session {
				if sa := rd.Acck.GetSessionAccount(rd.Ctx, sg.addr, sg.key.Addr); sa != nil {
					num, seq = sa.GetAccountNumber(), sa.GetSequence()
				}
			} else if acc := rd.Acck.GetAccount(rd.Ctx, sg.addr); acc != nil {
				num, seq = acc.GetAccountNumber(), acc.GetSequence()
			}
			sb, err := tx.GetSignBytes(ec.ChainID, num, seq)
			if err != nil {
				return fmt.Errorf("harness: %v", err)
			}
			sig, _ := sg.key.Priv.Sign(sb)
			tx.Signatures[j] = std.Signature{PubKey: sg.key.Pub, Signature: sig}
			if sg.session {
				tx.Signatures[j].SessionAddr = sg.key.Addr
			}
		}
		bz, err := amino.Marshal(tx)
		if err != nil {
			return fmt.Errorf("harness: %v", err)
		}
		ch.Begin(tsec)
		r := ch.Deliver(bz)
		ch.End()
		after, _, err := ledger()
		if err != nil {
			return err
		}
		antePassed := r.GasWanted > 0
		ok := r.Error == nil
		what := fmt.Sprintf("op %d %s (master %d, session %d, t=%d)", i, op.Kind, mi, op.Sess%3, now)
		// ---- judge ----
		switch op.Kind {
		case "create":
			ctx.Class(fmt.Sprintf("create ok=%v", ok))
			if !ok {
				ctx.Class("create failed: " + c16CreateReason(r.Log))
			}
			if ok {
				if sm.exists {
					// the handler refuses duplicates; nothing in the property forbids replacing, so resync
					ctx.Class("create-replaced-existing")
				}
				infoMsg := infos[0].msg.(auth.MsgCreateSession)
				*sm = c16Session{exists: true, limit: map[string]int64{}, period: op.Period, expiresAt: infoMsg.ExpiresAt, allow: infoMsg.AllowPaths, reset: now, used: map[string]int64{}}
				for _, cn := range infoMsg.SpendLimit {
					sm.limit[cn.Denom] = cn.Amount
				}
			}
		case "revoke":
			ctx.Class(fmt.Sprintf("revoke ok=%v", ok))
			if ok {
				sm.exists = false
			}
		case "revokeall":
			ctx.Class(fmt.Sprintf("revokeall ok=%v", ok))
			if ok {
				for s := 0; s < 3; s++ {
					model[key(mi, s)].exists = false
				}
			}
		case "mtx":
			ctx.Class(fmt.Sprintf("mtx ok=%v", ok))
		case "stx":
			if !antePassed {
				denied++
				ctx.Class("stx rejected: " + c16Reason(r.Error, r.Log))
				if ok {
					return fmt.Errorf("%s: response OK but GasWanted=0", what)
				}
				// a rejected tx moves nobody's coins
				if d := c16LedgerDiff(before, after); d != "" {
					return fmt.Errorf("%s: session-signed tx was rejected (%v) but balances changed: %s", what, r.Error, d)
				}
				break
			}
			accepted++
			ctx.Class(fmt.Sprintf("stx accepted msgs-ok=%v", ok))
			if !sm.exists {
				return fmt.Errorf("%s: a tx signed by a revoked or never-created session key was authorised (err=%v)", what, r.Error)
			}
			if sm.expiresAt != 0 && now >= sm.expiresAt {
				return fmt.Errorf("%s: a tx signed by a session that expired at %d was authorised at %d", what, sm.expiresAt, now)
			}
			for j, in := range infos {
				if !in.bySessioned {
					continue
				}
				if !c16Allows(sm.allow, in.route, in.typ, in.path) {
					return fmt.Errorf("%s: message %d (%s/%s path %q) was accepted from a session whose allow-paths are %q", what, j, in.route, in.typ, in.path, sm.allow)
				}
			}
			// measured outflow of the session's master
			ma := master.Addr.String()
			dens := map[string]bool{}
			for d := range before.Balances[ma] {
				dens[d] = true
			}
			for d := range sm.limit {
				dens[d] = true
			}
			out := map[string]int64{}
			any := false
			for d := range dens {
				if dec := before.Balances[ma][d] - after.Balances[ma][d]; dec > 0 {
					out[d] = dec
					any = true
				}
			}
			if any {
				if sm.period > 0 && now >= sm.reset+sm.period {
					sm.reset = now
					sm.used = map[string]int64{}
					sm.inWindow, sm.failedInWindow = 0, false
				}
				ds := make([]string, 0, len(out))
				for d := range out {
					ds = append(ds, d)
				}
				sort.Strings(ds)
				for _, d := range ds {
					sm.used[d] += out[d]
					if sm.used[d] > sm.limit[d] {
						return fmt.Errorf("%s: session-signed txs moved %d%s out of the master account in the spend window opened at %d (period %d), limit is %d%s (this tx: %d, err=%v)",
							what, sm.used[d], d, sm.reset, sm.period, sm.limit[d], d, out[d], r.Error)
					}
				}
			}
			sm.inWindow++
			if !ok && sm.inWindow >= 2 {
				sm.failedInWindow = true
			}
			if ok && sm.failedInWindow && sm.inWindow >= 3 {
				sm.ntHit = true
			}
		}
		ctx.Note(fmt.Sprintf("op%d", i), fmt.Sprintf("%s ante=%v ok=%v", op.Kind, antePassed, ok))
	}
	nt := false
	for _, s := range model {
		nt = nt || s.ntHit
	}
	ctx.ClassIf(accepted > 0, "has-accepted-session-tx")
	ctx.ClassIf(denied > 0, "has-rejected-session-tx")
	ctx.NTIf(nt)
	return nil
}

func c16Reason(err error, log string) string {
	if err == nil {
		return "none"
	}
	s := err.Error() + " " + log
	for _, p := range []string{"unknown session", "session expired", "spend limit", "no spend limit", "cannot be signed by a session", "not permitted by session AllowPaths", "signature verification failed", "insufficient"} {
		if strings.Contains(s, p) {
			return p
		}
	}
	s = err.Error()
	if len(s) > 40 {
		s = s[:40]
	}
	return s
}

func c16CreateReason(log string) string {
	for _, p := range []string{"already exists", "allow_paths", "allow-paths", "AllowPaths", "collides", "expired", "too many", "insufficient", "out of gas"} {
		if strings.Contains(log, p) {
			return p
		}
	}
	if len(log) > 160 {
		log = log[:160]
	}
	return log
}

func c16LedgerDiff(a, b *ec.Ledger) string {
	addrs := map[string]bool{}
	for x := range a.Balances {
		addrs[x] = true
	}
	for x := range b.Balances {
		addrs[x] = true
	}
	var out []string
	for x := range addrs {
		dens := map[string]bool{}
		for d := range a.Balances[x] {
			dens[d] = true
		}
		for d := range b.Balances[x] {
			dens[d] = true
		}
		for d := range dens {
			if a.Balances[x][d] != b.Balances[x][d] {
				out = append(out, fmt.Sprintf("%s %s: %d -> %d", x, d, a.Balances[x][d], b.Balances[x][d]))
			}
		}
	}
	sort.Strings(out)
	return strings.Join(out, "; ")
}

func TestC16_Sessions(t *testing.T) {
	vk.Run(t, vk.Spec[c16Case]{
		ID: "C16", Name: "TestC16_Sessions",
		Rule: "rapid: histories of 14-30 ops (one tx per block, clock steps 1-2000 s incl. exactly one period / one expiry span) over 2 masters x 3 session keys: create (limit ugnot 0/0.3M/1M/3M/10M and optional realm-denom limit, period 0/50/400 s, expiry never/100/1000/100000 s, 1-3 allow-path entries from a pool of 9 well-formed and 9 malformed ones), revoke, revoke-all, master-signed traffic, and session-signed txs with 1-3 messages (bank send in ugnot or a realm denom, calls with coins attached to realms aa, aab, aa/bb, calls locking storage deposits with or without a too-small limit, MsgRun scripts spending the master's coins through a banker, a call to a missing function, add_package, create/revoke/revoke-all session) with fees 1/50k/200k, sometimes as second signer next to the other master's own key. Oracle: window model fed with the measured balance decrease of the master; session must exist, be unexpired and its allow-paths (independent matcher) must cover every message; rejected txs move no coins; non-trivial = one session has >=3 accepted txs in one window with a failing one in the middle",
		Draw: c16Draw, Exec: c16Exec,
	})
}
