package coins

import (
	"bytes"
	"encoding/hex"
	"fmt"
	"math/big"
	"regexp"
	"sort"
	"strings"
	"testing"

	"github.com/gnolang/gno/gno.land/pkg/sdk/vm"
	"github.com/gnolang/gno/gnovm/pkg/gnolang"
	"github.com/gnolang/gno/tm2/pkg/amino"
	"github.com/gnolang/gno/tm2/pkg/std"
	"pgregory.net/rapid"
	ec "verif/eng/chain"
	"verif/vk"
)

// C09 — realm storage usage and deposits are accounted exactly.
//
// Histories of growth and shrink over four realms (one of them the only realm
// allowed to change the storage price), one transaction per block. After every
// block the recorded Storage/Deposit of EVERY realm record found in the base
// store is compared with a recount of the object bytes under oid:<pkgid>:* plus
// the bytes of its chain parameters in the main store, and the per-transaction
// lock/refund amounts are recomputed from the byte deltas and the price that
// was in force when the message started.

type c09Op struct {
	Kind       string `json:"kind"`
	S          string `json:"s,omitempty"`
	K          string `json:"k,omitempty"`
	N          int    `json:"n,omitempty"`
	Signer     int    `json:"signer"`
	Dep        int    `json:"dep"`                   // 0 unset (default limit), 1 ample, 2 one ugnot, 3 small fixed, 4 requirement learnt from a rolled-back probe + D
	D          int64  `json:"d,omitempty"`           // offset for Dep 4
	Price      int64  `json:"price,omitempty"`       // price ops: new price
	PriceFirst int64  `json:"price_first,omitempty"` // >0: the tx has two messages, SetPrice(PriceFirst) then the op
}

type c09Case struct {
	Ops []c09Op `json:"ops"`
}

const (
	c09DefaultLimit = 600_000_000
	c09Ample        = 1_000_000_000
)

var c09Requires = regexp.MustCompile(`requires (\d+)ugnot`)

var c09Kinds = []string{
	"push", "push", "pop", "set", "del", "make", "add", "add", "trim", "drop", "note", "unnote", "both", "growshrink",
	"setS", "setS", "setB", "delB", "setI", "setgrow", "price", "pricegrow", "growprice", "sysshrink", "addpkg", "run",
}

func c09DrawOp(rt *rapid.T) c09Op {
	o := c09Op{Kind: rapid.SampledFrom(c09Kinds).Draw(rt, "kind")}
	o.Signer = rapid.IntRange(0, 2).Draw(rt, "signer")
	o.S = rapid.StringMatching("[a-z]{0,40}").Draw(rt, "s")
	o.K = rapid.SampledFrom([]string{"a", "b", "kk", "long_key_name"}).Draw(rt, "k")
	o.N = rapid.IntRange(0, 4).Draw(rt, "n")
	o.Dep = rapid.SampledFrom([]int{0, 0, 0, 4, 1, 2, 3, 4}).Draw(rt, "dep")
	o.D = rapid.SampledFrom([]int64{0, -1, 1, 0, -100, 100}).Draw(rt, "d")
	o.Price = rapid.SampledFrom([]int64{1, 50, 100, 250, 1000}).Draw(rt, "price")
	if rapid.IntRange(0, 7).Draw(rt, "pf") == 0 && !strings.Contains(o.Kind, "price") {
		o.PriceFirst = rapid.SampledFrom([]int64{1, 50, 250, 1000}).Draw(rt, "pricefirst")
	}
	return o
}

func c09Draw(rt *rapid.T) c09Case {
	n := rapid.IntRange(8, 24).Draw(rt, "nops")
	c := c09Case{}
	for i := 0; i < n; i++ {
		c.Ops = append(c.Ops, c09DrawOp(rt))
	}
	return c
}

// ---------------------------------------------------------------------------

type c09Realm struct {
	Path     string
	Storage  int64 // recorded
	Deposit  int64 // recorded
	ObjBytes int64 // recount: sum of len(value) over oid:<pkgid>:*
	PrmBytes int64 // recount: bytes of vm:<path>:* chain parameters
	DepBal   int64 // ugnot at the storage-deposit address
}

type c09Snap struct {
	realms map[string]*c09Realm
	bal    map[string]int64 // user -> ugnot
}

// c09Snapshot re-reads everything from the committed DB through an
// independent multistore.
//
// known == nil scans every oid: key of the base store (all realm records,
// stdlibs included); otherwise only the key ranges of the listed realm paths
// are read (the per-transaction fast path).
func c09Snapshot(ch *ec.Chain, users []ec.Key, known []string) (*c09Snap, error) {
	rd, err := ec.OpenReader(ch.DB)
	if err != nil {
		return nil, err
	}
	s := &c09Snap{realms: map[string]*c09Realm{}, bal: map[string]int64{}}
	objBytes := map[string]int64{} // hex pkgid -> bytes
	recs := map[string]*gnolang.Realm{}
	st := rd.MS.GetStore(rd.BaseKey)
	ranges := [][2][]byte{{[]byte("oid:"), []byte("oid;")}}
	if known != nil {
		ranges = nil
		for _, p := range known {
			id := gnolang.PkgIDFromPkgPath(p)
			pre := "oid:" + hex.EncodeToString(id.Hashlet[:])
			ranges = append(ranges, [2][]byte{[]byte(pre + ":"), []byte(pre + ";")})
		}
	}
	for _, rg := range ranges {
		if err := c09Scan(st.Iterator(nil, rg[0], rg[1]), objBytes, recs); err != nil {
			return nil, err
		}
	}
	return c09Finish(s, rd, objBytes, recs, users)
}

func c09Scan(it interface {
	Valid() bool
	Next()
	Key() []byte
	Value() []byte
	Close() error
}, objBytes map[string]int64, recs map[string]*gnolang.Realm) error {
	for ; it.Valid(); it.Next() {
		k := string(it.Key())
		rest := k[len("oid:"):]
		i := strings.IndexByte(rest, ':')
		if i < 0 {
			it.Close()
			return fmt.Errorf("unexpected base-store key %q", k)
		}
		pid := rest[:i]
		if strings.HasSuffix(k, "#realm") {
			var rlm *gnolang.Realm
			if err := amino.Unmarshal(it.Value(), &rlm); err != nil {
				it.Close()
				return fmt.Errorf("realm record %q does not decode: %v", k, err)
			}
			recs[pid] = rlm
			continue
		}
		objBytes[pid] += int64(len(it.Value()))
	}
	it.Close()
	return nil
}

func c09Finish(s *c09Snap, rd *ec.Reader, objBytes map[string]int64, recs map[string]*gnolang.Realm, users []ec.Key) (*c09Snap, error) {
	l := ec.LedgerOf(rd.MainDump())
	if len(l.Problems) > 0 {
		return nil, fmt.Errorf("malformed ledger: %s", strings.Join(l.Problems, "; "))
	}
	prm := map[string]int64{}
	for _, kv := range rd.MainDump()["main"] {
		k := kv[0]
		if !bytes.HasPrefix(k, []byte("/pv/vm:")) {
			continue
		}
		key := string(k[len("/pv/"):]) // "vm:<realm>:<name>"
		rest := key[len("vm:"):]
		j := strings.LastIndexByte(rest, ':')
		if j < 0 || !strings.Contains(rest[:j], "/") {
			continue // module parameters (vm:p:...)
		}
		prm[rest[:j]] += int64(len(key) + len(kv[1]))
	}
	for pid, rlm := range recs {
		if !gnolang.IsRealmPath(rlm.Path) {
			continue // stdlib and /p/ packages carry a record but are not realms
		}
		wantID := gnolang.PkgIDFromPkgPath(rlm.Path)
		want := hex.EncodeToString(wantID.Hashlet[:])
		if want != pid {
			return nil, fmt.Errorf("realm record of %q stored under package id %s", rlm.Path, pid)
		}
		dep := gnolang.DeriveStorageDepositCryptoAddr(rlm.Path)
		s.realms[rlm.Path] = &c09Realm{Path: rlm.Path, Storage: int64(rlm.Storage), Deposit: int64(rlm.Deposit),
			ObjBytes: objBytes[pid], PrmBytes: prm[rlm.Path], DepBal: l.Balances[dep.String()]["ugnot"]}
	}
	for _, u := range users {
		s.bal[u.Addr.String()] = l.Balances[u.Addr.String()]["ugnot"]
	}
	return s, nil
}

func (s *c09Snap) paths() []string {
	var ps []string
	for p := range s.realms {
		ps = append(ps, p)
	}
	sort.Strings(ps)
	return ps
}

// invariants: the per-realm statements that must hold after every commit.
func (s *c09Snap) invariants() error {
	for _, p := range s.paths() {
		r := s.realms[p]
		if r.Storage != r.ObjBytes+r.PrmBytes {
			return fmt.Errorf("realm %s: recorded storage %d != %d bytes of objects under its package id + %d bytes of its chain parameters", p, r.Storage, r.ObjBytes, r.PrmBytes)
		}
		if r.DepBal < r.Deposit {
			return fmt.Errorf("realm %s: recorded deposit %d is backed by only %d ugnot at its storage-deposit address", p, r.Deposit, r.DepBal)
		}
	}
	return nil
}

func c09Refund(depBefore, stBefore, released int64) int64 {
	if released == stBefore {
		return depBefore
	}
	x := new(big.Int).Mul(big.NewInt(depBefore), big.NewInt(released))
	x.Div(x, big.NewInt(stBefore))
	return x.Int64()
}

// ---------------------------------------------------------------------------

func c09Msg(o c09Op, i int, caller ec.Key) std.Msg {
	call := func(pkg, fn string, args ...string) std.Msg { return ec.Call(caller.Addr, pkg, fn, args, nil) }
	n := fmt.Sprint(o.N)
	switch o.Kind {
	case "push":
		return call(c09PathOwn, "Push", o.S)
	case "pop":
		return call(c09PathOwn, "Pop", n)
	case "set":
		return call(c09PathOwn, "Set", o.K, o.S)
	case "del":
		return call(c09PathOwn, "Del", o.K)
	case "make":
		return call(c09PathUsr, "Make")
	case "add":
		return call(c09PathUsr, "Add", o.S)
	case "trim":
		return call(c09PathUsr, "Trim", n)
	case "drop":
		return call(c09PathUsr, "Drop")
	case "note":
		return call(c09PathUsr, "Note", o.S)
	case "unnote":
		return call(c09PathUsr, "Unnote", n)
	case "both":
		return call(c09PathUsr, "Both", o.S)
	case "growshrink":
		return call(c09PathUsr, "GrowShrink", o.S, n)
	case "setS":
		return call(c09PathPrm, "SetS", o.K, o.S)
	case "setB":
		return call(c09PathPrm, "SetB", o.K, o.S)
	case "delB":
		return call(c09PathPrm, "DelB", o.K)
	case "setI":
		return call(c09PathPrm, "SetI", o.K, n)
	case "setgrow":
		return call(c09PathPrm, "SetAndGrow", o.K, o.S, n)
	case "price":
		return call(c09PathSys, "SetPrice", fmt.Sprintf("%dugnot", o.Price))
	case "pricegrow":
		return call(c09PathSys, "SetPriceAndGrow", fmt.Sprintf("%dugnot", o.Price), n)
	case "growprice":
		return call(c09PathSys, "GrowThenSetPrice", fmt.Sprintf("%dugnot", o.Price), n)
	case "sysshrink":
		return call(c09PathSys, "Shrink", n)
	case "addpkg":
		name := fmt.Sprintf("n%d", i)
		body := fmt.Sprintf("package %s\n\nvar Data = %q\n\nvar L []string\n\nfunc Add(cur realm, s string) { L = append(L, s) }\n", name, strings.Repeat(o.S, o.N))
		return ec.AddPkg(caller.Addr, "gno.land/r/st/"+name, map[string]string{"a.gno": body}, nil)
	case "run":
		body := fmt.Sprintf("package main\n\nimport (\n\t%q\n\t%q\n)\n\nfunc main(cur realm) {\n\town.Push(cross(cur), %q)\n\tusr.Note(cross(cur), %q)\n\town.Pop(cross(cur), %d)\n}\n", c09PathOwn, c09PathUsr, o.S, o.K, o.N%2)
		return vm.NewMsgRun(caller.Addr, nil, []*std.MemFile{{Name: "main.gno", Body: body}})
	}
	panic("bad op kind " + o.Kind)
}

func c09WithDeposit(m std.Msg, limit int64) std.Msg {
	var dep std.Coins
	if limit > 0 {
		dep = std.Coins{std.NewCoin("ugnot", limit)}
	}
	switch x := m.(type) {
	case vm.MsgCall:
		x.MaxDeposit = dep
		return x
	case vm.MsgAddPackage:
		x.MaxDeposit = dep
		return x
	case vm.MsgRun:
		x.MaxDeposit = dep
		return x
	}
	return m
}

func (o c09Op) newPrice() int64 {
	switch o.Kind {
	case "price", "pricegrow", "growprice":
		return o.Price
	}
	return 0
}

const (
	c09Gas = 100_000_000
	c09Fee = 1_000_000
)

func c09Exec(ctx *vk.Ctx, c c09Case) error {
	users := []ec.Key{ec.NewKey("c09-u0"), ec.NewKey("c09-u1"), ec.NewKey("c09-u2")}
	ch, _, err := ec.New(nil, ec.GenesisWithBalances(1e12, users...), ec.Options{})
	if err != nil {
		return fmt.Errorf("harness: %v", err)
	}
	ch.Begin(1)
	ch.End()
	ch.Begin(2)
	for _, d := range [][2]string{{c09PathOwn, c09SrcOwn}, {c09PathUsr, c09SrcUsr}, {c09PathPrm, c09SrcPrm}, {c09PathSys, c09SrcSys}} {
		r, _, err := ch.Send([]std.Msg{ec.AddPkg(users[0].Addr, d[0], map[string]string{"a.gno": d[1]}, nil)}, c09Gas, c09Fee, users[0])
		if err != nil || r.Error != nil {
			return fmt.Errorf("harness: deploy %s: %v %v %s", d[0], err, r.Error, trimLog(r.Log))
		}
	}
	ch.End()
	known := []string{c09PathOwn, c09PathUsr, c09PathPrm, c09PathSys}
	full, err := c09Snapshot(ch, users, nil)
	if err != nil {
		return err
	}
	if err := full.invariants(); err != nil {
		return fmt.Errorf("after deployment: %v", err)
	}
	if len(full.realms) != len(known) {
		return fmt.Errorf("harness: %d realm records after deployment, expected %d: %v", len(full.realms), len(known), full.paths())
	}
	before, err := c09Snapshot(ch, users, known)
	if err != nil {
		return err
	}
	for _, p := range []string{c09PathOwn, c09PathUsr, c09PathPrm, c09PathSys} {
		r := before.realms[p]
		if r == nil {
			return fmt.Errorf("harness: no realm record for %s", p)
		}
		if r.Deposit != r.Storage*100 {
			return fmt.Errorf("deployment of %s: %d bytes at 100 ugnot/byte locked %d", p, r.Storage, r.Deposit)
		}
	}
	price := int64(100)
	tsec := int64(10)
	// non-trivial rule bookkeeping
	grew, priceChangedAfterGrowth, ntDone := false, false, false
	foreign, insufficient, exact := 0, 0, 0

	// run delivers one tx in its own block and judges it; it returns the
	// total locked by the tx and whether it failed for lack of deposit.
	hint := int64(0) // sum of the "requires N ugnot" figures of the last deposit failure (generator aid only)
	run := func(i int, o c09Op, limit int64, what string) (locked int64, depositFailure bool, err error) {
		k := users[o.Signer%len(users)]
		msgs := []std.Msg{}
		msgPrice := price
		if o.PriceFirst > 0 {
			msgs = append(msgs, ec.Call(k.Addr, c09PathSys, "SetPrice", []string{fmt.Sprintf("%dugnot", o.PriceFirst)}, nil))
			msgPrice = o.PriceFirst
		}
		effLimit := limit
		if limit == 0 {
			effLimit = c09DefaultLimit
		}
		msgs = append(msgs, c09WithDeposit(c09Msg(o, i, k), limit))
		ch.Begin(tsec)
		tsec += 5
		r, _, err := ch.Send(msgs, c09Gas, c09Fee, k)
		if err != nil {
			return 0, false, fmt.Errorf("harness: %v", err)
		}
		ch.End()
		if r.GasWanted == 0 {
			return 0, false, fmt.Errorf("harness: %s rejected by the ante handler: %v", what, r.Error)
		}
		if o.Kind == "addpkg" {
			if p := fmt.Sprintf("gno.land/r/st/n%d", i); !strings.Contains(strings.Join(known, " ")+" ", p+" ") {
				known = append(known, p)
			}
		}
		after, err := c09Snapshot(ch, users, known)
		if err != nil {
			return 0, false, fmt.Errorf("%s: %v", what, err)
		}
		defer func() { before = after }()
		if err := after.invariants(); err != nil {
			return 0, false, fmt.Errorf("%s (ok=%v): %v", what, r.Error == nil, err)
		}
		signer := k.Addr.String()
		if r.Error != nil {
			// a failed tx changes no realm's accounting and costs the signer the fee only
			for _, p := range after.paths() {
				a, b := after.realms[p], before.realms[p]
				if b == nil {
					return 0, false, fmt.Errorf("%s failed (%v) but left a new realm record %s", what, r.Error, p)
				}
				if *a != *b {
					return 0, false, fmt.Errorf("%s failed (%v) but realm %s changed: %+v -> %+v", what, r.Error, p, *b, *a)
				}
			}
			if d := before.bal[signer] - after.bal[signer]; d != c09Fee {
				return 0, false, fmt.Errorf("%s failed (%v) and cost the signer %d, fee is %d", what, r.Error, d, c09Fee)
			}
			depFail := strings.Contains(r.Error.Error()+r.Log, "not enough deposit to cover the storage usage")
			hint = 0
			for _, m := range c09Requires.FindAllStringSubmatch(r.Error.Error(), -1) {
				var n int64
				fmt.Sscan(m[1], &n)
				hint += n
			}
			ctx.Class("failed:" + map[bool]string{true: "deposit-limit", false: "other"}[depFail])
			return 0, depFail, nil
		}
		// successful tx: recompute locks and refunds per realm
		var refunded int64
		for _, p := range after.paths() {
			a := after.realms[p]
			b := before.realms[p]
			if b == nil {
				b = &c09Realm{Path: p}
			}
			dS, dD, dBal := a.Storage-b.Storage, a.Deposit-b.Deposit, a.DepBal-b.DepBal
			if dBal != dD {
				return 0, false, fmt.Errorf("%s: realm %s: recorded deposit changed by %d but its deposit address by %d", what, p, dD, dBal)
			}
			switch {
			case dS > 0:
				want := dS * msgPrice
				if dD != want {
					return 0, false, fmt.Errorf("%s: realm %s grew by %d bytes at a message-start price of %d: deposit should grow by %d, grew by %d (price after tx %d)", what, p, dS, msgPrice, want, dD, after.priceHint(o, msgPrice))
				}
				locked += dD
				if p != c09PathUsr && (o.Kind == "make" || o.Kind == "add") {
					foreign++
				}
			case dS < 0:
				want := c09Refund(b.Deposit, b.Storage, -dS)
				if -dD != want {
					return 0, false, fmt.Errorf("%s: realm %s released %d of %d bytes holding %d: refund should be %d, was %d", what, p, -dS, b.Storage, b.Deposit, want, -dD)
				}
				refunded += -dD
				if grew && priceChangedAfterGrowth && a.Storage > 0 {
					ntDone = true
				}
			default:
				if dD != 0 {
					return 0, false, fmt.Errorf("%s: realm %s: storage unchanged but deposit changed by %d", what, p, dD)
				}
			}
		}
		if locked > effLimit {
			return 0, false, fmt.Errorf("%s: locked %d ugnot although the message's deposit limit was %d", what, locked, effLimit)
		}
		if locked == effLimit {
			exact++
		}
		if o.Dep == 4 && limit != c09Ample && locked > 0 {
			ctx.Class(fmt.Sprintf("dep4 ok, limit-lock=%s", c09Bucket(effLimit-locked)))
		}
		if d := before.bal[signer] - after.bal[signer]; d != c09Fee+locked-refunded {
			return 0, false, fmt.Errorf("%s: signer paid %d; fee %d + locked %d - refunded %d = %d", what, d, c09Fee, locked, refunded, c09Fee+locked-refunded)
		}
		if locked > 0 {
			grew = true
		}
		np := o.newPrice()
		if np == 0 && o.PriceFirst > 0 {
			np = o.PriceFirst
		}
		if np > 0 && np != price {
			price = np
			if grew {
				priceChangedAfterGrowth = true
			}
		}
		ctx.Class("ok:" + o.Kind)
		return locked, false, nil
	}

	for i, o := range c.Ops {
		what := fmt.Sprintf("op %d %s(dep mode %d)", i, o.Kind, o.Dep)
		limit := int64(0) // unset: the chain's default limit applies
		switch o.Dep {
		case 1:
			limit = c09Ample
		case 2:
			limit = 1
		case 3:
			limit = 20_000
		case 4:
			// probe: with a limit of 1 ugnot any growing message fails and is rolled back;
			// its error text names the requirement, which (+D) becomes the real limit
			limit = 1
			_, depFail, err := run(i, o, 1, what+" probed with a limit of 1 ugnot")
			if err != nil {
				return err
			}
			if !depFail {
				continue // no growth (or another failure): nothing to bound
			}
			if hint > 0 && hint+o.D > 0 {
				limit = hint + o.D
			}
		}
		effLimit := limit
		if limit == 0 {
			effLimit = c09DefaultLimit
		}
		what = fmt.Sprintf("%s limit %d", what, effLimit)
		_, depFail, err := run(i, o, limit, what)
		if err != nil {
			return err
		}
		if depFail {
			insufficient++
			// confirm by re-executing the identical message (state was rolled back) with an ample limit
			locked, depFail2, err := run(i, o, c09Ample, what+" re-executed with an ample limit")
			if err != nil {
				return err
			}
			if depFail2 {
				return fmt.Errorf("%s: failed for lack of deposit even with a limit of %d ugnot", what, c09Ample)
			}
			if o.Dep == 4 {
				ctx.Class(fmt.Sprintf("dep4 failed, lock-limit=%s", c09Bucket(locked-effLimit)))
			}
			if locked <= effLimit && locked > 0 {
				return fmt.Errorf("%s failed with 'not enough deposit', yet the identical message needs only %d", what, locked)
			}
		}
	}
	// closing full scan: every realm record of the chain, not only the ones the history names
	full, err = c09Snapshot(ch, users, nil)
	if err != nil {
		return err
	}
	if err := full.invariants(); err != nil {
		return fmt.Errorf("closing full scan: %v", err)
	}
	for _, p := range full.paths() {
		if before.realms[p] == nil {
			return fmt.Errorf("closing full scan: realm record %s appeared outside the realms named by the history", p)
		}
	}
	ctx.ClassIf(foreign > 0, "foreign-owner-charged")
	ctx.ClassIf(insufficient > 0, "deposit-limit-failure")
	ctx.ClassIf(exact > 0, "limit-hit-exactly")
	ctx.ClassIf(priceChangedAfterGrowth, "price-change-after-growth")
	ctx.NTIf(ntDone)
	return nil
}

func c09Bucket(d int64) string {
	switch {
	case d == 0:
		return "0"
	case d == 1:
		return "1"
	case d <= 100:
		return "2..100"
	}
	return ">100"
}

// priceHint is only used in error messages.
func (s *c09Snap) priceHint(o c09Op, p int64) int64 {
	if np := o.newPrice(); np > 0 {
		return np
	}
	return p
}

func TestC09_Storage(t *testing.T) {
	vk.Run(t, vk.Spec[c09Case]{
		ID: "C09", Name: "TestC09_Storage",
		Rule: "rapid: histories of 8-24 txs (one per block, 3 signers) over 4 realms: list/map growth and shrink, objects allocated under another realm's storage context and attached/modified/dropped by a second realm (owner is charged), cross calls growing two realms or growing one while releasing the other, chain/params writes and deletes (per-realm byte accumulator), storage-price changes through gno.land/r/sys/params alone, before the op in the same tx, and inside a growing message (before and after the growth), new realm deployments and MsgRun scripts; deposit limits unset / ample / 1 ugnot / small / the requirement learnt from a rolled-back 1-ugnot probe of the same message -1,0,+1,+-100; a message failing for lack of deposit is re-executed with an ample limit to confirm the shortage. Oracle: recount of oid:<pkgid>:* bytes and vm:<realm>:* parameter bytes for every realm record, deposit-address balances, lock = bytes x message-start price, proportional refund, signer's exact balance delta; non-trivial = growth, then a price change, then a partial shrink",
		Draw: c09Draw, Exec: c09Exec,
	})
}
