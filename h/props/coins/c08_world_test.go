package coins

import (
	"fmt"
	"sort"
	"strings"

	"github.com/gnolang/gno/gnovm/pkg/gnolang"
	"github.com/gnolang/gno/tm2/pkg/crypto"
	ec "verif/eng/chain"
)

// ---------------------------------------------------------------------------
// The C08 world: three users, four victim realms that never hand out spending
// authority, and two attacker realms whose bodies are rendered per case from a
// banker grammar.

const (
	c08PathHook   = "gno.land/r/att/hook"
	c08PathA1     = "gno.land/r/att/a1"
	c08PathVault  = "gno.land/r/vic/vault"
	c08PathRelay  = "gno.land/r/vic/relay"
	c08PathPayout = "gno.land/r/vic/payout"
	c08PathMint   = "gno.land/r/vic/mint"
	c08PathMid    = "gno.land/r/vic/mid"
	c08VTok       = "/" + c08PathMint + ":vtok"
	c08SubPath    = "s"
)

// Address indexes used by statements (From / To / Addr).
const (
	aAttUser = iota
	aVicUser
	aAdmin
	aVault
	aVaultDep
	aA1Dep
	aFeeColl
	aRelay
	aPayout
	aMint
	aA1
	aHook
	aA1Sub
	aStorFeeColl
	aRelayDep
	aMid
	aNumConst
	aRXAddr  = 20 // <realm expression>.Address()
	aCurAddr = 21 // cur.Address()
)

type c08World struct {
	admin, att, vic ec.Key
	addr            [aNumConst]crypto.Address
	realms          []string // all realm paths (for storage queries)
}

func c08NewWorld() *c08World {
	w := &c08World{admin: ec.NewKey("c08-admin"), att: ec.NewKey("c08-att"), vic: ec.NewKey("c08-vic")}
	w.addr[aAttUser] = w.att.Addr
	w.addr[aVicUser] = w.vic.Addr
	w.addr[aAdmin] = w.admin.Addr
	w.addr[aVault] = gnolang.DerivePkgCryptoAddr(c08PathVault)
	w.addr[aVaultDep] = gnolang.DeriveStorageDepositCryptoAddr(c08PathVault)
	w.addr[aA1Dep] = gnolang.DeriveStorageDepositCryptoAddr(c08PathA1)
	w.addr[aFeeColl] = crypto.AddressFromPreimage([]byte("fee_collector"))
	w.addr[aRelay] = gnolang.DerivePkgCryptoAddr(c08PathRelay)
	w.addr[aPayout] = gnolang.DerivePkgCryptoAddr(c08PathPayout)
	w.addr[aMint] = gnolang.DerivePkgCryptoAddr(c08PathMint)
	w.addr[aA1] = gnolang.DerivePkgCryptoAddr(c08PathA1)
	w.addr[aHook] = gnolang.DerivePkgCryptoAddr(c08PathHook)
	w.addr[aA1Sub] = gnolang.DerivePkgCryptoAddr(c08PathA1 + "#" + c08SubPath)
	w.addr[aStorFeeColl] = crypto.AddressFromPreimage([]byte("storage_fee_collector"))
	w.addr[aRelayDep] = gnolang.DeriveStorageDepositCryptoAddr(c08PathRelay)
	w.addr[aMid] = gnolang.DerivePkgCryptoAddr(c08PathMid)
	w.realms = []string{c08PathHook, c08PathA1, c08PathVault, c08PathRelay, c08PathPayout, c08PathMint, c08PathMid}
	return w
}

// attackerOwned reports whether coins at addr are under the attacker's own
// authority (its user key, its realms and their sub-identities).
func (w *c08World) attackerOwned(a crypto.Address) bool {
	switch a {
	case w.addr[aAttUser], w.addr[aA1], w.addr[aHook], w.addr[aA1Sub],
		gnolang.DerivePkgCryptoAddr(c08PathHook + "#" + c08SubPath):
		return true
	}
	return false
}

func (w *c08World) name(a crypto.Address) string {
	names := []string{"attUser", "vicUser", "admin", "vault", "vaultDeposit", "a1Deposit", "feeCollector", "relay", "payout", "mint", "a1", "hook", "a1#s", "storageFeeCollector", "relayDeposit", "mid"}
	for i, x := range w.addr {
		if x == a {
			return names[i]
		}
	}
	for _, p := range w.realms {
		if gnolang.DeriveStorageDepositCryptoAddr(p) == a {
			return "deposit(" + p + ")"
		}
	}
	return a.String()
}

// depositRealm returns the realm path whose storage-deposit address is a.
func (w *c08World) depositRealm(a crypto.Address) (string, bool) {
	for _, p := range w.realms {
		if gnolang.DeriveStorageDepositCryptoAddr(p) == a {
			return p, true
		}
	}
	return "", false
}

// ---------------------------------------------------------------------------
// Fixed victim realms.

func (w *c08World) srcVault() string {
	return `package vault

import (
	"chain/runtime/unsafe"

	"` + c08PathHook + `"
	"` + c08PathMid + `"
)

var Got int64
var Log []string

type Visitor interface{ Visit() }

func Deposit(cur realm) int64 {
	Got += unsafe.OriginSend().AmountOf("ugnot")
	return Got
}

// Poke calls out into an untrusted realm (a token-callback shape).
func Poke(cur realm, n int) {
	Got++
	hook.Hook(cross(cur), n)
}

// PokeVia reaches the untrusted realm through an innocent intermediate realm.
func PokeVia(cur realm, n int) {
	Got++
	mid.Pass(cross(cur), n)
}

// Visit and VisitI run caller-supplied code inside the vault's frame.
func Visit(cur realm, f func()) {
	Got++
	f()
}

func VisitI(cur realm, v Visitor) {
	Got++
	v.Visit()
}

// Cb and CbI run a caller-supplied crossing callback with the vault's own cur
// in every call form, relying on the VM to refuse a callee of another realm.
type Runner interface{ Run(cur realm) }

type holder struct{ f func(realm) }

func (h holder) run(cur realm) { h.f(cur) }

var stored func(realm)

func Cb(cur realm, form int, cb func(realm)) {
	Got++
	switch form {
	case 0:
		cb(cur)
	case 1:
		defer cb(cur)
	case 2:
		func() { cb(cur) }()
	case 3:
		defer func() { cb(cur) }()
	case 4:
		stored = cb
		f := stored
		stored = nil
		f(cur)
	case 5:
		m := holder{cb}.run
		m(cur)
	case 6:
		stored = cb
		defer func() { stored = nil }()
		defer stored(cur)
	default:
		h := holder{cb}
		defer h.f(cur)
	}
}

func CbI(cur realm, form int, v Runner) {
	Got++
	switch form % 4 {
	case 0:
		v.Run(cur)
	case 1:
		defer v.Run(cur)
	case 2:
		m := v.Run
		m(cur)
	default:
		m := v.Run
		defer m(cur)
	}
}

func Grow(cur realm, n int) int {
	for i := 0; i < n; i++ {
		Log = append(Log, "0123456789abcdef0123456789abcdef")
	}
	return len(Log)
}

func Shrink(cur realm, n int) int {
	if n > len(Log) {
		n = len(Log)
	}
	nl := make([]string, len(Log)-n)
	copy(nl, Log)
	Log = nl
	return len(Log)
}
`
}

// mid holds coins of its own and merely forwards calls.
func (w *c08World) srcMid() string {
	return `package mid

import "` + c08PathHook + `"

var Passed int

func Pass(cur realm, n int) {
	Passed++
	hook.Hook(cross(cur), n)
}
`
}

func (w *c08World) srcRelay() string {
	return `package relay

import (
	"chain"
	"chain/banker"
)

var Calls int

// Forward passes on coins sent along with the call, using only an
// origin-send banker: the relay's own funds must never shrink.
func Forward(cur realm, to address, amt int64, times int) {
	Calls++
	b := banker.NewBanker(banker.BankerTypeOriginSend, cur)
	for i := 0; i < times; i++ {
		b.SendCoins(cur.Address(), to, chain.Coins{{"ugnot", amt}})
	}
}
`
}

func (w *c08World) srcPayout() string {
	return `package payout

import (
	"chain"
	"chain/banker"
)

const admin = address("` + w.admin.Addr.String() + `")

var Paid int64

func Payout(cur realm, to address, amt int64) {
	if !cur.IsCurrent() || !cur.Previous().IsUserCall() || cur.Previous().Address() != admin {
		panic("payout: denied")
	}
	Paid += amt
	b := banker.NewBanker(banker.BankerTypeRealmSend, cur)
	b.SendCoins(cur.Address(), to, chain.Coins{{"ugnot", amt}})
}
`
}

func (w *c08World) srcMint() string {
	return `package mint

import (
	"chain"
	"chain/banker"
)

const admin = address("` + w.admin.Addr.String() + `")

var Ops int

func gate(cur realm) {
	if !cur.IsCurrent() || !cur.Previous().IsUserCall() || cur.Previous().Address() != admin {
		panic("mint: denied")
	}
}

func MintTo(cur realm, to address, amt int64) {
	gate(cur)
	Ops++
	b := banker.NewBanker(banker.BankerTypeRealmIssue, cur)
	b.IssueCoin(to, chain.CoinDenom(cur.PkgPath(), "vtok"), amt)
}

func BurnFrom(cur realm, from address, amt int64) {
	gate(cur)
	Ops++
	b := banker.NewBanker(banker.BankerTypeRealmIssue, cur)
	b.RemoveCoin(from, chain.CoinDenom(cur.PkgPath(), "vtok"), amt)
}
`
}

// ---------------------------------------------------------------------------
// Banker grammar.

// c08Stmt is one attempt to move, mint or burn coins.
type c08Stmt struct {
	RX    int   `json:"rx"`    // realm expression handed to NewBanker
	BT    int   `json:"bt"`    // banker type number
	Op    int   `json:"op"`    // 0 SendCoins, 1 IssueCoin, 2 RemoveCoin
	Via   int   `json:"via"`   // how the banker value travels before use
	From  int   `json:"from"`  // address index (send: from; remove: holder)
	To    int   `json:"to"`    // address index (send: to; issue: receiver)
	Den   int   `json:"den"`   // denom index
	Amt   int64 `json:"amt"`   // amount; 0 = whole balance of From
	Twice bool  `json:"twice"` // repeat the operation
	// Forge > 0: the realm expression RX is first made the argument of a
	// cur-call into a local crossing function (route = Forge), and the banker
	// is built there from that function's own `cur`.
	Forge int `json:"forge,omitempty"`
	Inner int `json:"inner,omitempty"` // forged frame: 0 banker on cur, 1 banker on cur.Sub("s"), 2 cross-call a gated victim as cur
}

// Routes by which a realm value reaches the `cur` argument of a cur-call.
const (
	fgNone = iota
	fgAssign
	fgTuple
	fgPointer
	fgClosure
	fgHelperPtr
	fgSwap
	fgMethod
	fgFuncVar
	fgFuncLit
	fgDefer
	fgDeferClosure
	fgInline // rebinding only, no cur-call
	fgNestedCall
	fgNum
)

var c08ForgeNames = []string{"none", "assign", "tuple", "pointer", "closure", "helper-ptr", "swap", "method-callee", "func-var", "crossing-funclit", "defer-callee", "deferred-closure", "rebind-no-curcall", "curcall-in-closure"}

// c08KnownForged is the key of the confirmed finding: a crossing function's
// `cur` parameter is assignable, and the frame entered by a cur-call takes its
// Cur from the rebound slot.
const c08KnownForged = "forged-cur-by-rebinding-crossing-parameter"

// rebindsCurSlot reports whether the route puts the foreign realm value into a
// `cur` parameter slot and hands it to a cur-call (the shape the key covers).
func c08RebindsCurSlot(route int) bool {
	route %= fgNum
	return route != fgNone && route != fgInline
}

var c08RXNames = []string{"cur", "cur.Previous()", "cur.Previous().Previous()", "outer", `cur.Sub("s")`, `cur.Previous().Sub("s")`}

const (
	viaDirect = iota
	viaEmbed
	viaClosure
	viaPartner
	viaSaved
	viaNum
)

func (s c08Stmt) rx(hasOuter bool) string {
	if s.RX == 3 && !hasOuter {
		return "cur.Previous()"
	}
	return c08RXNames[s.RX%len(c08RXNames)]
}

func (w *c08World) addrExpr(i int, rx string) string {
	switch i {
	case aRXAddr:
		return rx + ".Address()"
	case aCurAddr:
		return "cur.Address()"
	}
	return `address("` + w.addr[i%aNumConst].String() + `")`
}

// denom renders a denom literal; self is the pkgpath of the executing realm.
func c08Denom(i int, self string) string {
	switch i {
	case 0:
		return "ugnot"
	case 1:
		return c08VTok
	case 2:
		return "/" + self + ":tok"
	case 3:
		return "/" + self + ":Tok"
	case 4:
		return "/" + self + ":ab"
	case 5:
		return "tok"
	case 6:
		return "/" + c08PathMint + ":fresh"
	case 7:
		return "/" + self + "x:tok"
	case 8:
		return ""
	case 9:
		return "/" + c08PathVault + ":tok"
	case 10:
		return "/" + self + ":tok:" + "vtok"
	case 11:
		return "/" + c08PathMid + ":tok"
	}
	return "ugnot"
}

const c08NumDenoms = 12

// foreign reports whether the statement reaches for coins, denoms or realm
// identities that are not the executing realm's own.
func (w *c08World) foreign(s c08Stmt, selfIdx int) bool {
	if s.RX != 0 && s.RX != 4 {
		return true
	}
	if s.Forge%fgNum != fgNone && s.Inner%3 == 2 {
		return true
	}
	switch s.Op {
	case 0:
		return s.From != aCurAddr && s.From != aRXAddr && s.From != selfIdx && !(s.RX == 4 && s.From == aA1Sub)
	case 1, 2:
		return s.Den != 2
	}
	return false
}

type c08Render struct {
	w       *c08World
	imports map[string]bool
	decls   strings.Builder // top-level declarations needed by forged cur-calls
	nfg     int
	setp    bool
}

// stmt renders the statement; with Forge > 0 the realm expression first travels
// into the `cur` argument of a cur-call by the chosen route, and the coin-moving
// code runs in the callee on its own `cur`.
func (r *c08Render) stmt(s c08Stmt, self string, hasOuter, partner bool, indent string) string {
	route := s.Forge % fgNum
	if route == fgNone {
		return r.plain(s, self, hasOuter, partner, indent)
	}
	x := s.rx(hasOuter)
	inner := s
	inner.Forge, inner.RX = 0, 0
	if s.Inner%3 == 1 {
		inner.RX = 4 // cur.Sub("s") of the forged identity
	}
	body := func(ind string) string {
		if s.Inner%3 == 2 {
			to := r.w.addrExpr(s.To, "cur")
			amt := s.Amt
			if amt <= 0 || amt > 1_000_000 {
				amt = 1000
			}
			switch s.Op % 3 {
			case 0:
				r.imports[c08PathPayout] = true
				return fmt.Sprintf("%spayout.Payout(cross(cur), %s, %d)\n", ind, to, amt)
			case 1:
				r.imports[c08PathMint] = true
				return fmt.Sprintf("%smint.MintTo(cross(cur), %s, %d)\n", ind, to, amt)
			default:
				r.imports[c08PathMint] = true
				return fmt.Sprintf("%smint.BurnFrom(cross(cur), %s, %d)\n", ind, r.w.addrExpr(aVicUser, "cur"), amt)
			}
		}
		return r.plain(inner, self, false, partner, ind)
	}
	r.nfg++
	f := fmt.Sprintf("fg%d", r.nfg)
	declare := func() {
		fmt.Fprintf(&r.decls, "func %s(cur realm) {\n%s}\n\n", f, body("\t"))
	}
	var sb strings.Builder
	p := func(format string, a ...any) { sb.WriteString(indent + fmt.Sprintf(format, a...) + "\n") }
	switch route {
	case fgAssign:
		declare()
		p("cur = %s", x)
		p("%s(cur)", f)
	case fgTuple:
		declare()
		p("var fgn int")
		p("cur, fgn = %s, 1", x)
		p("_ = fgn")
		p("%s(cur)", f)
	case fgPointer:
		declare()
		p("fgp := &cur")
		p("*fgp = %s", x)
		p("%s(cur)", f)
	case fgClosure:
		declare()
		p("func() { cur = %s }()", x)
		p("%s(cur)", f)
	case fgHelperPtr:
		declare()
		if !r.setp {
			r.setp = true
			r.decls.WriteString("func fgset(p *realm, v realm) { *p = v }\n\n")
		}
		p("fgset(&cur, %s)", x)
		p("%s(cur)", f)
	case fgSwap:
		declare()
		p("fgprev := %s", x)
		p("cur, fgprev = fgprev, cur")
		p("_ = fgprev")
		p("%s(cur)", f)
	case fgMethod:
		fmt.Fprintf(&r.decls, "type %sT struct{}\n\nfunc (%sT) run(cur realm) {\n%s}\n\n", f, f, body("\t"))
		p("cur = %s", x)
		p("%sT{}.run(cur)", f)
	case fgFuncVar:
		declare()
		p("fgf := %s", f)
		p("cur = %s", x)
		p("fgf(cur)")
	case fgFuncLit:
		p("cur = %s", x)
		p("func(cur realm) {")
		sb.WriteString(body(indent + "\t"))
		p("}(cur)")
	case fgDefer:
		declare()
		p("cur = %s", x)
		p("defer %s(cur)", f)
	case fgDeferClosure:
		declare()
		p("defer func() {")
		p("\tcur = %s", x)
		p("\t%s(cur)", f)
		p("}()")
	case fgInline:
		p("cur = %s", x)
		sb.WriteString(body(indent))
	case fgNestedCall:
		declare()
		p("cur = %s", x)
		p("func() { %s(cur) }()", f)
	}
	return sb.String()
}

// plain renders the statement as Gno code for a body that has `cur realm` (and
// optionally `outer realm`) in scope. self is the executing realm's pkgpath;
// partner says whether hook.Use is reachable from here.
func (r *c08Render) plain(s c08Stmt, self string, hasOuter, partner bool, indent string) string {
	r.imports["chain/banker"] = true
	rx := s.rx(hasOuter)
	from := r.w.addrExpr(s.From, rx)
	to := r.w.addrExpr(s.To, rx)
	den := c08Denom(s.Den%c08NumDenoms, self)
	amt := fmt.Sprintf("int64(%d)", s.Amt)
	if s.Amt == 0 {
		// whole balance of the source: a read-only banker needs no authority
		amt = fmt.Sprintf("banker.NewReadonlyBanker().GetCoin(%s, %q)", from, nonEmpty(den))
	}
	var sb strings.Builder
	p := func(f string, a ...any) { sb.WriteString(indent + fmt.Sprintf(f, a...) + "\n") }
	p("b := banker.NewBanker(banker.BankerType(%d), %s)", s.BT, rx)
	use := func(recv string) string {
		switch s.Op % 3 {
		case 0:
			r.imports["chain"] = true
			return fmt.Sprintf("%s.SendCoins(%s, %s, chain.Coins{{%q, %s}})", recv, from, to, den, amt)
		case 1:
			return fmt.Sprintf("%s.IssueCoin(%s, %q, %s)", recv, to, den, amt)
		default:
			return fmt.Sprintf("%s.RemoveCoin(%s, %q, %s)", recv, from, den, amt)
		}
	}
	n := 1
	if s.Twice {
		n = 2
	}
	via := s.Via % viaNum
	if via == viaPartner && !partner {
		via = viaDirect
	}
	for i := 0; i < n; i++ {
		switch via {
		case viaDirect:
			p("%s", use("b"))
		case viaEmbed:
			if i == 0 {
				p("w := wrap{b}")
				if s.Op%3 == 0 {
					p("var bi sender = w")
				}
			}
			if s.Op%3 == 0 {
				p("%s", use("bi"))
			} else {
				p("%s", use("w"))
			}
		case viaClosure:
			if i == 0 {
				p("f := func() { %s }", use("b"))
			}
			p("f()")
		case viaPartner:
			r.imports[c08PathHook] = true
			p("hook.Use(cross(cur), b, %d, %s, %s, %q, %s)", s.Op%3, from, to, den, amt)
		case viaSaved:
			if i == 0 {
				p("if saved == nil { saved = b }")
			}
			p("%s", use("saved"))
		}
	}
	return sb.String()
}

func nonEmpty(s string) string {
	if s == "" {
		return "ugnot"
	}
	return s
}

const c08Helpers = `
var saved banker.Banker

type sender interface {
	SendCoins(from, to address, amt chain.Coins)
}

type wrap struct{ banker.Banker }

type vis struct{ f func() }

func (v vis) Visit() { v.f() }
`

func renderImports(set map[string]bool) string {
	var ps []string
	for p := range set {
		ps = append(ps, p)
	}
	sort.Strings(ps)
	var sb strings.Builder
	sb.WriteString("import (\n")
	for _, p := range ps {
		sb.WriteString("\t\"" + p + "\"\n")
	}
	sb.WriteString(")\n")
	return sb.String()
}
