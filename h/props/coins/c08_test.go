package coins

import (
	"fmt"
	"os"
	"sort"
	"strings"
	"testing"

	"github.com/gnolang/gno/gno.land/pkg/sdk/vm"
	"github.com/gnolang/gno/gnovm/pkg/gnolang"
	"github.com/gnolang/gno/tm2/pkg/crypto"
	"github.com/gnolang/gno/tm2/pkg/sdk/bank"
	"github.com/gnolang/gno/tm2/pkg/std"
	"pgregory.net/rapid"
	ec "verif/eng/chain"
	"verif/vk"
)

// C08 — coins leave an address only with that address's authority.
//
// Each case deploys the fixed victim realms and two attacker realms rendered
// from the banker grammar (c08_world_test.go), then delivers 3-7 transactions,
// one per block. Around every transaction the balances of ALL addresses are
// recomputed from raw store keys (ec.LedgerOf) and every decrease must be
// covered by the allow rule of DESIGN §4 C08.

type c08Tx struct {
	Kind   string  `json:"kind"`   // attack | mint | burn | payout | deposit | forward | send | grow | shrink
	Ctx    int     `json:"ctx"`    // attack: execution context
	Signer int     `json:"signer"` // 0 attacker, 1 victim user, 2 admin
	Send   int64   `json:"send"`   // coins attached to the call
	Stmt   c08Stmt `json:"stmt"`
	Addr   int     `json:"addr"` // legit txs: address index
	Amt    int64   `json:"amt"`
	N      int     `json:"n"`
}

type c08Case struct {
	Txs []c08Tx `json:"txs"`
}

const (
	ctxDirect = iota
	ctxMiddle
	ctxClosure
	ctxIface
	ctxInner
	ctxRun
	ctxGated
	ctxGatedRun
	ctxRelayUser
	ctxMiddleDeep
	ctxMiddleVia // victim -> innocent intermediate realm -> attacker hook
	ctxCallback  // victim invokes an attacker callback func(realm) / Runner with its own cur
	ctxNum
)

var c08CtxNames = []string{"direct", "victim-calls-hook", "closure-in-victim", "iface-in-victim", "inner-stale-outer", "msgrun", "gated-via-realm", "gated-via-run", "relay-double-spend", "realm-victim-hook", "victim-mid-hook", "victim-runs-callback"}

// c08DrawStmt draws one statement. Besides the fully random family, three
// families aim at attacks that are coherent enough to get past all but one
// guard: spending through a banker built from somebody else's realm value,
// spending foreign coins through one's own banker, and issuing/burning foreign
// denoms through one's own issuing banker.
var c08CbForms = []string{
	"lit/cb(cur)", "lit/defer cb(cur)", "lit/closure{cb(cur)}", "lit/defer closure{cb(cur)}", "lit/stored var", "lit/method value", "lit/defer stored var", "lit/defer field",
	"named/cb(cur)", "named/defer cb(cur)", "named/closure{cb(cur)}", "named/defer closure{cb(cur)}", "named/stored var", "named/method value", "named/defer stored var", "named/defer field",
}

func init() {
	// forms 12-15 go through the Runner interface instead
	copy(c08CbForms[12:], []string{"iface/v.Run(cur)", "iface/defer v.Run(cur)", "iface/method value", "iface/defer method value"})
}

func c08DrawStmt(rt *rapid.T) c08Stmt {
	s := c08Stmt{}
	s.Via = rapid.IntRange(0, viaNum+1).Draw(rt, "via")
	s.To = rapid.SampledFrom([]int{aAttUser, aAttUser, aA1, aHook, aCurAddr, aVicUser}).Draw(rt, "to")
	s.Twice = rapid.IntRange(0, 3).Draw(rt, "twice") == 0
	victims := []int{aVicUser, aVault, aVicUser, aAdmin, aVault, aVaultDep, aA1Dep, aFeeColl, aRelay, aPayout, aMint, aStorFeeColl, aRelayDep}
	switch rapid.SampledFrom([]string{"forged-cur", "via-previous", "random", "forged-cur", "foreign-from", "foreign-denom", "forged-cur", "via-previous", "random", "forged-cur", "foreign-from", "foreign-denom"}).Draw(rt, "family") {
	case "forged-cur":
		// a realm value other than the function's own cur is made the argument of a
		// cur-call; the callee then uses every API that authorises by `cur`
		s.Forge = rapid.IntRange(1, fgNum-1).Draw(rt, "route")
		s.RX = rapid.SampledFrom([]int{1, 1, 2, 1, 3, 5, 0, 4}).Draw(rt, "rx")
		s.Inner = rapid.SampledFrom([]int{0, 0, 0, 1, 2, 0}).Draw(rt, "inner")
		s.BT = rapid.SampledFrom([]int{2, 2, 3, 1, 3, 2, 0, 4}).Draw(rt, "bt")
		s.Op = rapid.SampledFrom([]int{0, 0, 1, 2, 0}).Draw(rt, "op")
		s.From = rapid.SampledFrom([]int{aRXAddr, aRXAddr, aVicUser, aRXAddr, aAdmin, aVault, aRXAddr}).Draw(rt, "from")
		s.Den = rapid.SampledFrom([]int{0, 0, 9, 11, 1, 0, 2}).Draw(rt, "den")
		if s.Op != 0 {
			s.Den = rapid.SampledFrom([]int{9, 11, 1, 9, 2, 0}).Draw(rt, "den")
		}
		s.Amt = rapid.SampledFrom([]int64{1000, 0, 250_000, 1}).Draw(rt, "amt")
	case "via-previous":
		s.RX = rapid.SampledFrom([]int{1, 1, 3, 1, 2, 5}).Draw(rt, "rx")
		s.BT = rapid.SampledFrom([]int{2, 2, 3, 1}).Draw(rt, "bt")
		s.Op = 0
		s.From = rapid.SampledFrom([]int{aRXAddr, aRXAddr, aVault, aRXAddr, aVicUser}).Draw(rt, "from")
		s.Den = rapid.SampledFrom([]int{0, 0, 0, 1}).Draw(rt, "den")
		s.Amt = rapid.SampledFrom([]int64{1000, 0, 250_000, 1}).Draw(rt, "amt")
	case "foreign-from":
		s.RX = rapid.SampledFrom([]int{0, 0, 0, 4}).Draw(rt, "rx")
		s.BT = rapid.SampledFrom([]int{2, 2, 3, 1}).Draw(rt, "bt")
		s.Op = 0
		s.From = rapid.SampledFrom(victims).Draw(rt, "from")
		s.Den = rapid.SampledFrom([]int{0, 0, 0, 1}).Draw(rt, "den")
		s.Amt = rapid.SampledFrom([]int64{1000, 0, 250_000, 1}).Draw(rt, "amt")
	case "foreign-denom":
		s.RX = 0
		s.BT = rapid.SampledFrom([]int{3, 3, 3, 2}).Draw(rt, "bt")
		s.Op = rapid.SampledFrom([]int{1, 2}).Draw(rt, "op")
		s.From = rapid.SampledFrom([]int{aVicUser, aVault, aAttUser, aCurAddr}).Draw(rt, "from")
		s.Den = rapid.SampledFrom([]int{1, 6, 9, 1, 0, 5, 2}).Draw(rt, "den")
		s.Amt = rapid.SampledFrom([]int64{7, 1000, 0}).Draw(rt, "amt")
	default:
		s.RX = rapid.SampledFrom([]int{0, 0, 0, 0, 0, 0, 1, 1, 1, 2, 3, 3, 4, 5}).Draw(rt, "rx")
		s.BT = rapid.SampledFrom([]int{1, 1, 2, 2, 2, 2, 2, 3, 3, 3, 0, 4, 200}).Draw(rt, "bt")
		s.Op = rapid.SampledFrom([]int{0, 0, 0, 1, 2}).Draw(rt, "op")
		s.From = rapid.SampledFrom(append([]int{aRXAddr, aRXAddr, aRXAddr, aRXAddr, aRXAddr, aRXAddr, aCurAddr, aCurAddr, aCurAddr, aA1Sub}, victims...)).Draw(rt, "from")
		if s.Op == 0 {
			s.Den = rapid.SampledFrom([]int{0, 0, 0, 0, 1, 1, 2, 5, 8}).Draw(rt, "den")
		} else {
			s.Den = rapid.IntRange(0, c08NumDenoms-1).Draw(rt, "den")
		}
		s.Amt = rapid.SampledFrom([]int64{1, 1000, 250_000, 0, 0, -1000, 1 << 62}).Draw(rt, "amt")
	}
	return s
}

func c08DrawTx(rt *rapid.T) c08Tx {
	k := rapid.IntRange(0, 15).Draw(rt, "kind")
	addr := func() int {
		return rapid.SampledFrom([]int{aAttUser, aVicUser, aAdmin, aA1, aVault}).Draw(rt, "addr")
	}
	switch k {
	case 0:
		return c08Tx{Kind: "mint", Signer: 2, Addr: addr(), Amt: rapid.SampledFrom([]int64{1, 50, 700}).Draw(rt, "amt")}
	case 1:
		return c08Tx{Kind: "burn", Signer: 2, Addr: addr(), Amt: rapid.SampledFrom([]int64{1, 50, 5000}).Draw(rt, "amt")}
	case 2:
		return c08Tx{Kind: "payout", Signer: 2, Addr: addr(), Amt: rapid.SampledFrom([]int64{1, 40_000, 1 << 40}).Draw(rt, "amt")}
	case 3:
		return c08Tx{Kind: "deposit", Signer: rapid.IntRange(0, 1).Draw(rt, "signer"), Send: rapid.SampledFrom([]int64{1, 70_000}).Draw(rt, "send")}
	case 4:
		return c08Tx{Kind: "forward", Signer: rapid.IntRange(0, 1).Draw(rt, "signer"), Send: rapid.SampledFrom([]int64{1000, 90_000}).Draw(rt, "send"),
			Addr: addr(), Amt: rapid.SampledFrom([]int64{500, 1000, 90_000}).Draw(rt, "amt"), N: rapid.IntRange(1, 3).Draw(rt, "times")}
	case 5:
		return c08Tx{Kind: "send", Signer: rapid.IntRange(0, 2).Draw(rt, "signer"), Addr: addr(), Amt: rapid.SampledFrom([]int64{1, 30, 100_000}).Draw(rt, "amt"), N: rapid.IntRange(0, 1).Draw(rt, "den")}
	case 6:
		if rapid.Bool().Draw(rt, "grow") {
			return c08Tx{Kind: "grow", Signer: rapid.IntRange(0, 2).Draw(rt, "signer"), N: rapid.IntRange(1, 12).Draw(rt, "n")}
		}
		return c08Tx{Kind: "shrink", Signer: rapid.IntRange(0, 2).Draw(rt, "signer"), N: rapid.IntRange(1, 30).Draw(rt, "n")}
	default:
		tx := c08Tx{Kind: "attack", Ctx: rapid.SampledFrom([]int{ctxMiddle, ctxDirect, ctxMiddleDeep, ctxClosure, ctxMiddleVia, ctxIface, ctxInner, ctxRun, ctxGated, ctxGatedRun, ctxRelayUser, ctxMiddle, ctxDirect, ctxMiddleVia}).Draw(rt, "ctx")}
		tx.Signer = rapid.SampledFrom([]int{0, 1, 0, 2, 0, 1}).Draw(rt, "signer")
		tx.Send = rapid.SampledFrom([]int64{0, 0, 1000, 300_000}).Draw(rt, "send")
		tx.Stmt = c08DrawStmt(rt)
		if tx.Stmt.Forge != 0 {
			// the forged value should be somebody else's: a victim realm that calls the
			// attacker (directly or through an innocent realm) or an EOA that calls it
			tx.Ctx = rapid.SampledFrom([]int{ctxMiddle, ctxDirect, ctxMiddleVia, ctxMiddleDeep, ctxDirect, ctxMiddle, ctxClosure, ctxInner, ctxIface, ctxRun}).Draw(rt, "fctx")
			if tx.Ctx == ctxDirect {
				tx.Signer = rapid.SampledFrom([]int{1, 2, 1, 0}).Draw(rt, "fsigner")
			}
		}
		tx.Addr = rapid.SampledFrom([]int{aAttUser, aA1, aHook}).Draw(rt, "to")
		tx.Amt = rapid.SampledFrom([]int64{1, 1000, 300_000, 2_000_000}).Draw(rt, "amt")
		tx.N = rapid.IntRange(1, 3).Draw(rt, "times")
		if tx.Stmt.Forge == 0 && rapid.IntRange(0, 3).Draw(rt, "cbctx") == 1 {
			// the victim runs an attacker callback with its own cur: the callback spends on the received value
			tx.Ctx = ctxCallback
			tx.N = rapid.IntRange(0, 15).Draw(rt, "form")
			if rapid.IntRange(0, 3).Draw(rt, "cbcoherent") != 2 {
				tx.Stmt.RX = rapid.SampledFrom([]int{0, 0, 0, 4, 1}).Draw(rt, "cbrx")
				tx.Stmt.BT = rapid.SampledFrom([]int{2, 2, 3, 1}).Draw(rt, "cbbt")
				tx.Stmt.Op = rapid.SampledFrom([]int{0, 0, 1, 2}).Draw(rt, "cbop")
				tx.Stmt.From = rapid.SampledFrom([]int{aRXAddr, aRXAddr, aVault, aCurAddr}).Draw(rt, "cbfrom")
				tx.Stmt.Den = rapid.SampledFrom([]int{0, 0, 9, 0}).Draw(rt, "cbden")
				tx.Stmt.Amt = rapid.SampledFrom([]int64{1000, 0, 250_000}).Draw(rt, "cbamt")
			}
		}
		return tx
	}
}

func c08Draw(rt *rapid.T) c08Case {
	n := rapid.IntRange(3, 7).Draw(rt, "ntx")
	c := c08Case{}
	for i := 0; i < n; i++ {
		c.Txs = append(c.Txs, c08DrawTx(rt))
	}
	return c
}

// c08Program is the rendered code of one case.
type c08Program struct {
	hook, a1 string
	scripts  map[int]string
}

func (w *c08World) render(c c08Case) c08Program {
	p := c08Program{scripts: map[int]string{}}
	ra1 := &c08Render{w: w, imports: map[string]bool{"chain": true, "chain/banker": true}}
	rhook := &c08Render{w: w, imports: map[string]bool{"chain": true, "chain/banker": true}}
	var a1, hookCases strings.Builder
	gated := func(r *c08Render, tx c08Tx) string {
		to := `address("` + w.addr[tx.Addr%aNumConst].String() + `")`
		switch tx.Stmt.Op % 4 {
		case 0:
			r.imports[c08PathRelay] = true
			return fmt.Sprintf("\trelay.Forward(cross(cur), %s, %d, %d)\n", to, tx.Amt, tx.N)
		case 1:
			r.imports[c08PathPayout] = true
			return fmt.Sprintf("\tpayout.Payout(cross(cur), %s, %d)\n", to, tx.Amt)
		case 2:
			r.imports[c08PathMint] = true
			return fmt.Sprintf("\tmint.MintTo(cross(cur), %s, %d)\n", to, tx.Amt)
		default:
			r.imports[c08PathMint] = true
			return fmt.Sprintf("\tmint.BurnFrom(cross(cur), address(%q), %d)\n", w.vic.Addr.String(), tx.Amt)
		}
	}
	for i, tx := range c.Txs {
		if tx.Kind != "attack" {
			continue
		}
		switch tx.Ctx % ctxNum {
		case ctxDirect:
			fmt.Fprintf(&a1, "func Go%d(cur realm) {\n%s}\n\n", i, ra1.stmt(tx.Stmt, c08PathA1, false, true, "\t"))
		case ctxMiddle, ctxMiddleDeep, ctxMiddleVia:
			fmt.Fprintf(&hookCases, "\tcase %d:\n%s", i, rhook.stmt(tx.Stmt, c08PathHook, false, false, "\t\t"))
			if tx.Ctx%ctxNum == ctxMiddleDeep {
				ra1.imports[c08PathVault] = true
				fmt.Fprintf(&a1, "func Go%d(cur realm) {\n\tvault.Poke(cross(cur), %d)\n}\n\n", i, i)
			}
		case ctxClosure:
			ra1.imports[c08PathVault] = true
			fmt.Fprintf(&a1, "func Go%d(cur realm) {\n\tvault.Visit(cross(cur), func() {\n%s\t})\n}\n\n", i, ra1.stmt(tx.Stmt, c08PathA1, false, true, "\t\t"))
		case ctxIface:
			ra1.imports[c08PathVault] = true
			fmt.Fprintf(&a1, "func Go%d(cur realm) {\n\tvault.VisitI(cross(cur), vis{func() {\n%s\t}})\n}\n\n", i, ra1.stmt(tx.Stmt, c08PathA1, false, true, "\t\t"))
		case ctxCallback:
			ra1.imports[c08PathVault] = true
			form := tx.N % 16
			body := ra1.stmt(tx.Stmt, c08PathA1, true, true, "\t")
			switch {
			case form >= 12: // interface value whose method lives in the attacker realm
				fmt.Fprintf(&a1, "type run%d struct{ outer realm }\n\nfunc (r run%d) Run(cur realm) {\n\touter := r.outer\n\t_ = outer\n%s}\n\nfunc Go%d(cur realm) {\n\tvault.CbI(cross(cur), %d, run%d{cur})\n}\n\n", i, i, body, i, form%4, i)
			case form >= 8: // named top-level crossing function
				fmt.Fprintf(&a1, "func loot%d(cur realm) {\n\touter := cur\n\t_ = outer\n%s}\n\nfunc Go%d(cur realm) {\n\tvault.Cb(cross(cur), %d, loot%d)\n}\n\n", i, body, i, form%8, i)
			default: // crossing function literal capturing the attacker's own cur as outer
				fmt.Fprintf(&a1, "func Go%d(cur realm) {\n\touter := cur\n\t_ = outer\n\tvault.Cb(cross(cur), %d, func(cur realm) {\n%s\t})\n}\n\n", i, form%8, strings.ReplaceAll(body, "\n\t", "\n\t\t"))
			}
		case ctxInner:
			fmt.Fprintf(&a1, "func Go%d(cur realm) {\n\tin%d(cross(cur), cur)\n}\n\nfunc in%d(cur realm, outer realm) {\n%s}\n\n", i, i, i, ra1.stmt(tx.Stmt, c08PathA1, true, true, "\t"))
		case ctxRun:
			rr := &c08Render{w: w, imports: map[string]bool{"chain": true, "chain/banker": true}}
			self := "gno.land/e/" + w.signer(tx.Signer).Addr.String() + "/run"
			body := rr.stmt(tx.Stmt, self, false, true, "\t")
			p.scripts[i] = "package main\n\n" + renderImports(rr.imports) + c08Helpers + "\n" + rr.decls.String() + "func main(cur realm) {\n" + body + "}\n"
		case ctxGated:
			fmt.Fprintf(&a1, "func Go%d(cur realm) {\n%s}\n\n", i, gated(ra1, tx))
		case ctxGatedRun:
			rr := &c08Render{w: w, imports: map[string]bool{}}
			body := gated(rr, tx)
			p.scripts[i] = "package main\n\n" + renderImports(rr.imports) + "\nfunc main(cur realm) {\n" + body + "}\n"
		case ctxRelayUser:
			// plain MsgCall, nothing to render
		}
	}
	p.hook = "package hook\n\n" + renderImports(rhook.imports) + c08Helpers + `
var Hits int

` + rhook.decls.String() + `func Hook(cur realm, n int) {
	Hits++
	switch n {
` + hookCases.String() + `	}
}

// Use spends through a banker handed over by another realm.
func Use(cur realm, b banker.Banker, op int, from, to address, den string, amt int64) {
	Hits++
	switch op {
	case 0:
		b.SendCoins(from, to, chain.Coins{{den, amt}})
	case 1:
		b.IssueCoin(to, den, amt)
	default:
		b.RemoveCoin(from, den, amt)
	}
}
`
	p.a1 = "package a1\n\n" + renderImports(ra1.imports) + c08Helpers + "\nvar Hits int\n\nfunc Touch(cur realm) { Hits++ }\n\n" + ra1.decls.String() + a1.String()
	return p
}

func (w *c08World) signer(i int) ec.Key {
	switch i % 3 {
	case 0:
		return w.att
	case 1:
		return w.vic
	}
	return w.admin
}

func ugnot(n int64) std.Coins {
	if n <= 0 {
		return nil
	}
	return std.Coins{std.NewCoin("ugnot", n)}
}

// msg builds the message of tx i and reports what the signer declared to spend.
func (w *c08World) msg(i int, tx c08Tx, p c08Program) (m std.Msg, declared map[string]int64) {
	k := w.signer(tx.Signer)
	declared = map[string]int64{}
	a := func(i int) string { return w.addr[i%aNumConst].String() }
	switch tx.Kind {
	case "mint":
		return ec.Call(k.Addr, c08PathMint, "MintTo", []string{a(tx.Addr), fmt.Sprint(tx.Amt)}, nil), declared
	case "burn":
		return ec.Call(k.Addr, c08PathMint, "BurnFrom", []string{a(tx.Addr), fmt.Sprint(tx.Amt)}, nil), declared
	case "payout":
		return ec.Call(k.Addr, c08PathPayout, "Payout", []string{a(tx.Addr), fmt.Sprint(tx.Amt)}, nil), declared
	case "deposit":
		declared["ugnot"] = tx.Send
		return ec.Call(k.Addr, c08PathVault, "Deposit", nil, ugnot(tx.Send)), declared
	case "forward":
		declared["ugnot"] = tx.Send
		return ec.Call(k.Addr, c08PathRelay, "Forward", []string{a(tx.Addr), fmt.Sprint(tx.Amt), fmt.Sprint(tx.N)}, ugnot(tx.Send)), declared
	case "send":
		den := "ugnot"
		if tx.N%2 == 1 {
			den = c08VTok
		}
		declared[den] = tx.Amt
		return bank.MsgSend{FromAddress: k.Addr, ToAddress: w.addr[tx.Addr%aNumConst], Amount: std.Coins{std.NewCoin(den, tx.Amt)}}, declared
	case "grow":
		return ec.Call(k.Addr, c08PathVault, "Grow", []string{fmt.Sprint(tx.N)}, nil), declared
	case "shrink":
		return ec.Call(k.Addr, c08PathVault, "Shrink", []string{fmt.Sprint(tx.N)}, nil), declared
	}
	declared["ugnot"] = tx.Send
	switch tx.Ctx % ctxNum {
	case ctxMiddle:
		return ec.Call(k.Addr, c08PathVault, "Poke", []string{fmt.Sprint(i)}, ugnot(tx.Send)), declared
	case ctxMiddleVia:
		return ec.Call(k.Addr, c08PathVault, "PokeVia", []string{fmt.Sprint(i)}, ugnot(tx.Send)), declared
	case ctxRun, ctxGatedRun:
		return vm.NewMsgRun(k.Addr, ugnot(tx.Send), []*std.MemFile{{Name: "main.gno", Body: p.scripts[i]}}), declared
	case ctxRelayUser:
		amt := tx.Send
		if amt == 0 {
			amt = 1000
			declared["ugnot"] = amt
		}
		return ec.Call(k.Addr, c08PathRelay, "Forward", []string{a(tx.Addr), fmt.Sprint(amt), "2"}, ugnot(amt)), declared
	}
	return ec.Call(k.Addr, c08PathA1, fmt.Sprintf("Go%d", i), nil, ugnot(tx.Send)), declared
}

type c08Snap struct {
	l       *ec.Ledger
	storage map[string][2]int64 // realm -> {storage, deposit}
}

func c08Snapshot(c *ec.Chain, w *c08World) (*c08Snap, error) {
	rd, err := ec.OpenReader(c.DB)
	if err != nil {
		return nil, err
	}
	s := &c08Snap{l: ec.LedgerOf(rd.MainDump()), storage: map[string][2]int64{}}
	if len(s.l.Problems) > 0 {
		return nil, fmt.Errorf("malformed ledger records: %s", strings.Join(s.l.Problems, "; "))
	}
	for _, p := range w.realms {
		r := c.Query("vm/qstorage", []byte(p))
		if r.Error != nil {
			continue // not deployed (yet)
		}
		var st, dep int64
		if _, err := fmt.Sscanf(string(r.Data), "storage: %d, deposit: %d", &st, &dep); err != nil {
			return nil, fmt.Errorf("harness: cannot parse qstorage %q", r.Data)
		}
		s.storage[p] = [2]int64{st, dep}
	}
	return s, nil
}

const (
	c08Gas = 100_000_000
	c08Fee = 1_000_000
)

// c08Normalise enforces the generator's preconditions on replayed data: the
// victim user never signs a MsgRun script written by the attacker (a script
// runs with its signer's own authority, so whatever it spends is authorised).
func c08Normalise(c c08Case) c08Case {
	out := c08Case{Txs: append([]c08Tx{}, c.Txs...)}
	for i := range out.Txs {
		tx := &out.Txs[i]
		if tx.Kind == "attack" && (tx.Ctx%ctxNum == ctxRun || tx.Ctx%ctxNum == ctxGatedRun) {
			tx.Signer = 0
		}
	}
	return out
}

func c08Exec(ctx *vk.Ctx, c c08Case) error {
	c = c08Normalise(c)
	w := c08NewWorld()
	prog := w.render(c)
	gen := ec.GenesisWithBalances(1e12, w.admin, w.att, w.vic)
	ch, _, err := ec.New(nil, gen, ec.Options{})
	if err != nil {
		return fmt.Errorf("harness: %v", err)
	}
	// ---- block 1 commits genesis (account numbers become queryable);
	// block 2: deployment and funding (not judged) ----
	ch.Begin(1)
	ch.End()
	ch.Begin(2)
	must := func(what string, k ec.Key, m std.Msg) error {
		r, _, err := ch.Send([]std.Msg{m}, c08Gas, c08Fee, k)
		if err != nil {
			return fmt.Errorf("harness: %s: %v", what, err)
		}
		if r.Error != nil {
			return fmt.Errorf("harness: %s failed: %v\n%s", what, r.Error, trimLog(r.Log))
		}
		return nil
	}
	dep := func(k ec.Key, path, src string) error {
		if err := must("deploy "+path, k, ec.AddPkg(k.Addr, path, map[string]string{"a.gno": src}, nil)); err != nil {
			return fmt.Errorf("%v\n--- source ---\n%s", err, src)
		}
		return nil
	}
	steps := []func() error{
		func() error { return dep(w.admin, c08PathRelay, w.srcRelay()) },
		func() error { return dep(w.admin, c08PathPayout, w.srcPayout()) },
		func() error { return dep(w.admin, c08PathMint, w.srcMint()) },
		func() error { return dep(w.att, c08PathHook, prog.hook) },
		func() error { return dep(w.admin, c08PathMid, w.srcMid()) },
		func() error { return dep(w.admin, c08PathVault, w.srcVault()) },
		func() error { return dep(w.att, c08PathA1, prog.a1) },
		func() error {
			return must("fund vault", w.vic, ec.Call(w.vic.Addr, c08PathVault, "Deposit", nil, ugnot(5_000_000)))
		},
		func() error {
			return must("fund relay", w.admin, bank.MsgSend{FromAddress: w.admin.Addr, ToAddress: w.addr[aRelay], Amount: ugnot(3_000_000)})
		},
		func() error {
			return must("fund payout", w.admin, bank.MsgSend{FromAddress: w.admin.Addr, ToAddress: w.addr[aPayout], Amount: ugnot(3_000_000)})
		},
		func() error {
			return must("fund mid", w.admin, bank.MsgSend{FromAddress: w.admin.Addr, ToAddress: w.addr[aMid], Amount: ugnot(3_000_000)})
		},
		func() error {
			return must("fund a1", w.att, bank.MsgSend{FromAddress: w.att.Addr, ToAddress: w.addr[aA1], Amount: ugnot(2_000_000)})
		},
		func() error {
			return must("mint vic", w.admin, ec.Call(w.admin.Addr, c08PathMint, "MintTo", []string{w.vic.Addr.String(), "1000"}, nil))
		},
		func() error {
			return must("mint att", w.admin, ec.Call(w.admin.Addr, c08PathMint, "MintTo", []string{w.att.Addr.String(), "500"}, nil))
		},
		func() error {
			return must("mint vault", w.admin, ec.Call(w.admin.Addr, c08PathMint, "MintTo", []string{w.addr[aVault].String(), "300"}, nil))
		},
		func() error {
			return must("grow vault", w.admin, ec.Call(w.admin.Addr, c08PathVault, "Grow", []string{"20"}, nil))
		},
	}
	for _, s := range steps {
		if err := s(); err != nil {
			return err
		}
	}
	ch.End()
	before, err := c08Snapshot(ch, w)
	if err != nil {
		return err
	}
	if before.l.Balances[w.addr[aFeeColl].String()]["ugnot"] == 0 {
		return fmt.Errorf("harness: fee collector address not where expected")
	}
	nt := false
	tsec := int64(10)
	for i, tx := range c.Txs {
		k := w.signer(tx.Signer)
		m, declared := w.msg(i, tx, prog)
		ch.Begin(tsec)
		tsec += 7
		r, _, err := ch.Send([]std.Msg{m}, c08Gas, c08Fee, k)
		if err != nil {
			return fmt.Errorf("harness: %v", err)
		}
		ch.End()
		after, err := c08Snapshot(ch, w)
		if err != nil {
			return fmt.Errorf("after tx %d: %v", i, err)
		}
		ok := r.Error == nil
		outcome := c08Outcome(r.Error, r.Log)
		label := tx.Kind
		if tx.Kind == "attack" {
			label = "attack/" + c08CtxNames[tx.Ctx%ctxNum]
			ctx.Class("ctx=" + c08CtxNames[tx.Ctx%ctxNum])
			selfIdx := aA1
			switch tx.Ctx % ctxNum {
			case ctxMiddle, ctxMiddleDeep, ctxMiddleVia:
				selfIdx = aHook
			case ctxRun:
				selfIdx = []int{aAttUser, aVicUser, aAdmin}[tx.Signer%3]
			}
			switch tx.Ctx % ctxNum {
			case ctxGated, ctxGatedRun, ctxRelayUser:
				nt = nt || outcome != "other" || ok
			default:
				if (w.foreign(tx.Stmt, selfIdx) || tx.Ctx%ctxNum == ctxCallback) && outcome != "type-or-preprocess" {
					nt = true
					ctx.Class("foreign:" + outcome)
				} else {
					ctx.Class("own:" + outcome)
				}
			}
		} else {
			ctx.Class(fmt.Sprintf("%s ok=%v", tx.Kind, ok))
		}
		ctx.Note(fmt.Sprintf("tx%d", i), fmt.Sprintf("%s ok=%v outcome=%s", label, ok, outcome))
		if os.Getenv("C08_DEBUG") != "" && strings.HasPrefix(outcome, "other") {
			fmt.Printf("DEBUG %s %s: %v\n%s\n", label, outcome, r.Error, trimLog(r.Log))
		}
		if r.GasWanted == 0 {
			// The signer could not pass the ante handler (typically: earlier transactions of this
			// case legitimately moved its own coins away and it cannot pay the fee any more). An
			// ante rejection has no effects (that is C15's subject); the history ends here.
			ctx.Class("ante-rejected-ends-history")
			if strings.Contains(fmt.Sprint(r.Error), "insufficient funds") || strings.Contains(fmt.Sprint(r.Error), "insufficient coins") {
				break
			}
			return fmt.Errorf("harness: tx %d rejected by the ante handler: %v", i, r.Error)
		}
		if tx.Kind == "attack" && tx.Ctx%ctxNum == ctxCallback {
			ctx.Class(fmt.Sprintf("callback form=%s outcome=%s", c08CbForms[tx.N%16], outcome))
		}
		if tx.Kind == "attack" && tx.Stmt.Forge%fgNum != fgNone {
			ctx.Class(fmt.Sprintf("forge route=%s outcome=%s", c08ForgeNames[tx.Stmt.Forge%fgNum], outcome))
			ctx.Class(fmt.Sprintf("forge value=%s inner=%d", c08RXNames[tx.Stmt.RX%len(c08RXNames)], tx.Stmt.Inner%3))
		}
		if err := w.judge(i, tx, k, ok, declared, before, after); err != nil {
			// Known finding, matched narrowly: the violating tx is an attack whose foreign realm
			// value reached a cur-call through a rebound `cur` parameter slot. Any other
			// violation (no rebinding, rebinding without a cur-call, another tx kind) still alarms.
			if tx.Kind == "attack" && c08RebindsCurSlot(tx.Stmt.Forge) && tx.Stmt.RX%len(c08RXNames) != 0 && ctx.Known(c08KnownForged) {
				ctx.Class("known:forged-cur route=" + c08ForgeNames[tx.Stmt.Forge%fgNum])
				ctx.Class("known:forged-cur ctx=" + c08CtxNames[tx.Ctx%ctxNum])
				before = after // resynchronise: the oracle works on per-transaction deltas
				continue
			}
			src := ""
			if tx.Kind == "attack" {
				src = "\n--- a1 ---\n" + prog.a1 + "\n--- hook ---\n" + prog.hook + "\n--- script ---\n" + prog.scripts[i]
			}
			return fmt.Errorf("tx %d (%s, signer %s, ok=%v, err=%v): %v%s", i, label, w.name(k.Addr), ok, r.Error, err, src)
		}
		before = after
	}
	ctx.NTIf(nt)
	return nil
}

func trimLog(s string) string {
	if len(s) > 1500 {
		return s[:1500]
	}
	return s
}

// c08Outcome classifies the response of an attack transaction.
func c08Outcome(err error, log string) string {
	if err == nil {
		return "success"
	}
	s := err.Error() + " " + log
	for _, p := range [][2]string{
		{"cannot cur-call to external realm function", "foreign-cur-call-refused"},
		{"can only send coins from realm that created banker", "from!=banker-realm"},
		{"banker can only be instantiated for the current realm", "not-current-realm"},
		{"invalid banker type", "bad-banker-type"},
		{"use NewReadonlyBanker", "readonly-type"},
		{"can only issue/remove coins with the realm's prefix", "denom-prefix"},
		{"invalid denom base name", "denom-base"},
		{"cannot issue coins", "type-cannot-issue"},
		{"cannot remove coins", "type-cannot-remove"},
		{"non realm-qualified denom", "go-not-realm-denom"},
		{"not supported for sub-realm", "sub-realm-type"},
		{"Sub:", "sub-rejected"},
		{"only be instantiated by the origin package", "origin-send-not-origin"},
		{"exceeded with", "origin-send-limit"},
		{"insufficient coins", "insufficient-coins"},
		{"denied", "victim-gate-denied"},
		{"nil pointer", "nil-deref"},
		{"invalid coins", "invalid-coins"},
		{"invalid denom", "invalid-denom"},
		{"negative", "negative-amount"},
		{"overflow", "overflow"},
		{"out of gas", "out-of-gas"},
	} {
		if strings.Contains(s, p[0]) {
			return p[1]
		}
	}
	if strings.Contains(s, "VM panic") {
		return "other-vm-panic"
	}
	return "other"
}

// judge applies the allow rule to the balance deltas of every address.
func (w *c08World) judge(i int, tx c08Tx, signer ec.Key, ok bool, declared map[string]int64, before, after *c08Snap) error {
	// 1. what the signer may lose
	allowed := map[string]map[string]int64{} // addr -> denom -> max decrease
	allow := func(a crypto.Address, den string, n int64) {
		if allowed[a.String()] == nil {
			allowed[a.String()] = map[string]int64{}
		}
		allowed[a.String()][den] += n
	}
	allow(signer.Addr, "ugnot", c08Fee)
	var locked int64
	for _, p := range w.realms {
		d := gnolang.DeriveStorageDepositCryptoAddr(p).String()
		if inc := after.l.Balances[d]["ugnot"] - before.l.Balances[d]["ugnot"]; inc > 0 {
			locked += inc
		}
	}
	if ok {
		for den, n := range declared {
			allow(signer.Addr, den, n)
		}
		allow(signer.Addr, "ugnot", locked)
	} else if locked != 0 {
		return fmt.Errorf("a failed tx locked %d ugnot of storage deposit", locked)
	}
	// 2. explicit victim-side spends by their own authority
	wantSupply := map[string]int64{}
	if ok {
		switch tx.Kind {
		case "payout":
			allow(w.addr[aPayout], "ugnot", tx.Amt)
		case "burn":
			allow(w.addr[tx.Addr%aNumConst], c08VTok, tx.Amt)
			wantSupply[c08VTok] = -tx.Amt
		case "mint":
			wantSupply[c08VTok] = tx.Amt
		}
	}
	// 3. storage-deposit addresses: only when that realm's storage was released
	for _, p := range w.realms {
		if after.storage[p][0] < before.storage[p][0] {
			allow(gnolang.DeriveStorageDepositCryptoAddr(p), "ugnot", before.storage[p][1])
		}
	}
	// ---- balances ----
	addrs := map[string]bool{}
	for a := range before.l.Balances {
		addrs[a] = true
	}
	for a := range after.l.Balances {
		addrs[a] = true
	}
	sorted := make([]string, 0, len(addrs))
	for a := range addrs {
		sorted = append(sorted, a)
	}
	sort.Strings(sorted)
	attPrefix := "/gno.land/r/att/"
	runPrefix := "/gno.land/e/" + w.att.Addr.String() + "/"
	for _, a := range sorted {
		addr, _ := crypto.AddressFromBech32(a)
		dens := map[string]bool{}
		for d := range before.l.Balances[a] {
			dens[d] = true
		}
		for d := range after.l.Balances[a] {
			dens[d] = true
		}
		ds := make([]string, 0, len(dens))
		for d := range dens {
			ds = append(ds, d)
		}
		sort.Strings(ds)
		for _, den := range ds {
			dec := before.l.Balances[a][den] - after.l.Balances[a][den]
			if dec <= 0 {
				continue
			}
			if w.attackerOwned(addr) {
				continue // the attacker may do as it likes with its own coins
			}
			if strings.HasPrefix(den, attPrefix) || strings.HasPrefix(den, runPrefix) {
				// a denom issued by the attacker's realm: its issuer may burn it
				if before.l.Supply[den]-after.l.Supply[den] >= dec {
					continue
				}
			}
			if dec > allowed[a][den] {
				return fmt.Errorf("balance of %s decreased by %d%s (from %d to %d) but only %d is covered by its own authority in this tx",
					w.name(addr), dec, den, before.l.Balances[a][den], after.l.Balances[a][den], allowed[a][den])
			}
		}
	}
	// ---- supplies ----
	sd := map[string]bool{}
	for d := range before.l.Supply {
		sd[d] = true
	}
	for d := range after.l.Supply {
		sd[d] = true
	}
	sds := make([]string, 0, len(sd))
	for d := range sd {
		sds = append(sds, d)
	}
	sort.Strings(sds)
	for _, den := range sds {
		delta := after.l.Supply[den] - before.l.Supply[den]
		if strings.HasPrefix(den, attPrefix) || strings.HasPrefix(den, runPrefix) {
			continue
		}
		if delta != wantSupply[den] {
			return fmt.Errorf("supply of %s changed by %d; its issuing realm's own mint/burn in this tx accounts for %d", den, delta, wantSupply[den])
		}
	}
	return nil
}

func TestC08_Authority(t *testing.T) {
	vk.Run(t, vk.Spec[c08Case]{
		ID: "C08", Name: "TestC08_Authority",
		Rule: "rapid: 3-7 txs (one per block) over a fresh gno.land chain with 4 victim realms (vault with callbacks and an outcall, origin-send relay, admin-gated payout, admin-gated issuer) and 2 attacker realms rendered per case from a banker grammar: NewBanker(type 0-4/200, cur | cur.Previous() | Previous().Previous() | stale outer cur | cur.Sub | Previous().Sub) then SendCoins/IssueCoin/RemoveCoin with from in {victim user, admin, victim realms, deposit addresses, fee collectors, rx.Address(), own}, foreign/malformed denoms, amounts incl. whole balance, negative and 2^62, banker used directly / through embedding+interface / closure / handed to a partner realm / stored in a package var; executed as direct MsgCall, from a realm the victim calls out to, inside closures and interface methods run by the victim, in an inner crossing frame with the stale outer cur, as MsgRun scripts, against admin-gated functions via realm or script, and as origin-send double spends; interleaved with legitimate mints, burns, payouts, deposits, forwards, sends, storage growth and release. Oracle: balance deltas of ALL addresses from raw keys; non-trivial = a deployed (type-checked) attack that executed with a foreign from/denom/realm identity",
		Draw: c08Draw, Exec: c08Exec,
	})
}

// TestC08_Callbacks enumerates the callback matrix deterministically: every
// call form by which the vault invokes a supplied crossing callback with its
// own cur (plain, deferred, inside a closure, inside a deferred closure, via a
// stored function variable, via a method value, deferred stored variable,
// deferred struct field; callback given as function literal, named function or
// interface value) x the coin-moving uses of the received realm value.
func TestC08_Callbacks(t *testing.T) {
	r := vk.Open(t, "C08", "TestC08_Callbacks", "enumeration: 16 call forms by which a victim realm invokes an attacker-supplied crossing callback (func(realm) literal / named function / interface method) with its own cur x 5 uses of the received realm value (RealmSend and RealmIssue SendCoins of the victim's coins, whole balance, IssueCoin and RemoveCoin of the victim realm's denom); all-address balance and supply deltas; every case is non-trivial (the callback attack was deployed and executed)")
	defer r.Close()
	if vk.Replaying() {
		t.Skip()
	}
	r.ReplayAs = "TestC08_Authority"
	r.Extra("exhaustive", true)
	uses := []c08Stmt{
		{RX: 0, BT: 2, Op: 0, From: aRXAddr, To: aAttUser, Den: 0, Amt: 1000},
		{RX: 0, BT: 3, Op: 0, From: aRXAddr, To: aA1, Den: 0, Amt: 250_000},
		{RX: 0, BT: 2, Op: 0, From: aVault, To: aAttUser, Den: 0, Amt: 0},
		{RX: 0, BT: 3, Op: 1, From: aRXAddr, To: aAttUser, Den: 9, Amt: 7},
		{RX: 0, BT: 3, Op: 2, From: aVault, To: aAttUser, Den: 1, Amt: 7},
	}
	for form := 0; form < 16; form++ {
		for ui, u := range uses {
			if !r.Thorough() && ui >= 2 && form%4 != 1 {
				continue // quick: all forms x the two plain uses, and all uses on the deferred forms
			}
			c := c08Case{Txs: []c08Tx{
				{Kind: "deposit", Signer: 1, Send: 70_000},
				{Kind: "attack", Ctx: ctxCallback, Signer: 0, Stmt: u, N: form, Addr: aAttUser, Amt: 1000},
				{Kind: "attack", Ctx: ctxCallback, Signer: 1, Stmt: u, N: form, Addr: aAttUser, Amt: 1000},
			}}
			if r.Do(c, func(ctx *vk.Ctx) error { return c08Exec(ctx, c) }) != nil {
				return
			}
		}
	}
}
