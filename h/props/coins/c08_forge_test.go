package coins

import (
	"fmt"
	"sort"
	"strings"
	"testing"

	"github.com/gnolang/gno/gnovm/pkg/gnolang"
	"github.com/gnolang/gno/tm2/pkg/crypto"
	"github.com/gnolang/gno/tm2/pkg/sdk/bank"
	"github.com/gnolang/gno/tm2/pkg/std"
	"pgregory.net/rapid"
	ec "verif/eng/chain"
	"verif/vk"
)

// C08, "forged current realm value" matrix.
//
// One case = one syntactic route by which an attacker crossing function tries
// to make a realm value that is NOT its own current one (cur.Previous(),
// cur.Previous().Previous()) the `cur` of a frame it controls, crossed with one
// coin-moving use of that `cur` (NewBanker of each type + SendCoins / IssueCoin /
// RemoveCoin, a banker on cur.Sub, a cross call that presents the forged value
// as caller to a realm paying only its known caller). The attacker realm is a
// package of its own, so routes that the preprocessor refuses simply fail to
// deploy (class static-reject) instead of spoiling other attacks. Each case is
// run against three victims: a realm that calls the attacker, an EOA that calls
// it by MsgCall, and a realm that reaches it through an innocent intermediate
// realm. Oracle: balances of ALL addresses and all supplies before/after each
// transaction; only the signer's fee and the attacker's own coins may move.

type c08ForgeCase struct {
	Route string `json:"route"`
	Value string `json:"value"` // prev | prevprev
	BT    int    `json:"bt"`    // banker type number
	Op    int    `json:"op"`    // 0 SendCoins 1 IssueCoin 2 RemoveCoin
	Inner int    `json:"inner"` // 0 banker on cur, 1 banker on cur.Sub("s"), 2 cross call presenting cur as caller
	Third bool   `json:"third"` // spend from / burn at a third party's address instead of cur.Address()
}

const (
	fxPath   = "gno.land/r/att/fx"
	fxHelper = "gno.land/p/att/hlp"
	fxVA     = "gno.land/r/vic/va"
	fxVMid   = "gno.land/r/vic/vmid"
	fxVB     = "gno.land/r/vic/vb"
	fxGate   = "gno.land/r/vic/gate"
)

// c08Route renders the body of `func Take(cur realm)`. x is the foreign realm
// expression, f the local crossing function, inline its body for routes that
// need it in place. rebind says whether the route works by putting x into a
// `cur` parameter slot that is then handed to a cur-call (the known finding's
// shape).
type c08Route struct {
	name   string
	rebind bool
	decls  string
	body   string // placeholders: {X} {F} {INLINE}
	needP  bool   // imports the attacker's /p/ helper
}

var c08Routes = []c08Route{
	// --- the foreign value reaches a cur-call through a rebound `cur` slot ---
	{name: "assign", rebind: true, body: "cur = {X}\n\t{F}(cur)"},
	{name: "tuple", rebind: true, body: "var n int\n\tcur, n = {X}, 1\n\t_ = n\n\t{F}(cur)"},
	{name: "pointer", rebind: true, body: "p := &cur\n\t*p = {X}\n\t{F}(cur)"},
	{name: "closure", rebind: true, body: "func() { cur = {X} }()\n\t{F}(cur)"},
	{name: "helper-ptr", rebind: true, decls: "func setp(p *realm, v realm) { *p = v }\n", body: "setp(&cur, {X})\n\t{F}(cur)"},
	{name: "p-helper-ptr", rebind: true, needP: true, body: "hlp.Set(&cur, {X})\n\t{F}(cur)"},
	{name: "swap", rebind: true, body: "prev := {X}\n\tcur, prev = prev, cur\n\t_ = prev\n\t{F}(cur)"},
	{name: "pkg-var", rebind: true, decls: "var stash realm\n", body: "stash = {X}\n\tcur = stash\n\tstash = nil\n\t{F}(cur)"},
	{name: "method-callee", rebind: true, decls: "type T struct{}\n\nfunc (T) run(cur realm) {\n{INLINE}}\n", body: "cur = {X}\n\tT{}.run(cur)"},
	{name: "ptr-method-callee", rebind: true, decls: "type T struct{ n int }\n\nfunc (t *T) run(cur realm) {\n{INLINE}}\n", body: "cur = {X}\n\t(&T{}).run(cur)"},
	{name: "func-var", rebind: true, body: "g := {F}\n\tcur = {X}\n\tg(cur)"},
	{name: "crossing-funclit", rebind: true, body: "cur = {X}\n\tfunc(cur realm) {\n{INLINE}\t}(cur)"},
	{name: "defer-callee", rebind: true, body: "cur = {X}\n\tdefer {F}(cur)"},
	{name: "deferred-closure", rebind: true, body: "defer func() {\n\t\tcur = {X}\n\t\t{F}(cur)\n\t}()"},
	{name: "curcall-in-closure", rebind: true, body: "cur = {X}\n\tfunc() { {F}(cur) }()"},
	{name: "two-hops", rebind: true, decls: "func hop(cur realm) {\n\tcur = cur.Previous()\n\t{F}(cur)\n}\n", body: "hop(cur)"},
	{name: "rebind-in-callee", rebind: true, decls: "func hop(cur realm, v realm) {\n\tcur = v\n\t{F}(cur)\n}\n", body: "hop(cur, {X})"},
	{name: "named-result", rebind: true, decls: "func leak(c realm) (cur realm) {\n\tcur = c\n\t{F}(cur)\n\treturn\n}\n", body: "leak({X})"},
	// --- no cur-call on a rebound slot ---
	{name: "rebind-no-curcall", body: "cur = {X}\n{INLINE}"},
	{name: "direct", body: "c := {X}\n\t_ = c\n{DIRECT}"},
	{name: "cross-expr", body: "{F}(cross({X}))"},
	{name: "cross-named", body: "x := {X}\n\t{F}(cross(x))"},
	{name: "cross-rebound-cur", body: "cur = {X}\n\t{F}(cross(cur))"},
	{name: "named-other", body: "x := {X}\n\t{F}(x)"},
	{name: "shadow-block", body: "{\n\t\tcur := {X}\n\t\t{F}(cur)\n\t}"},
	{name: "shadow-if", body: "if cur := {X}; cur != nil {\n\t\t{F}(cur)\n\t}"},
	{name: "second-param-named-cur", decls: "func h(n int, cur realm) { {F}(cur) }\n", body: "h(1, {X})"},
	{name: "noncrossing-helper-cross", decls: "func h(rlm realm) { {F}(cross(rlm)) }\n", body: "h({X})"},
	{name: "extra-realm-arg", decls: "func two(cur realm, other realm) {\n{OTHER}}\n", body: "two(cur, {X})"},
}

func c08RouteByName(n string) (c08Route, bool) {
	for _, r := range c08Routes {
		if r.name == n {
			return r, true
		}
	}
	return c08Route{}, false
}

type fxWorld struct {
	admin, vic, thief, third ec.Key
}

func (c c08ForgeCase) use(w fxWorld, rlm, indent string) string {
	thief := fmt.Sprintf("address(%q)", w.thief.Addr.String())
	third := fmt.Sprintf("address(%q)", w.third.Addr.String())
	if c.Inner%3 == 2 {
		return fmt.Sprintf("%sgate.Pay(cross(%s), %s)\n", indent, rlm, thief)
	}
	who := rlm
	if c.Inner%3 == 1 {
		who = rlm + `.Sub("s")`
	}
	from := who + ".Address()"
	if c.Third {
		from = third
	}
	var sb strings.Builder
	fmt.Fprintf(&sb, "%sb := banker.NewBanker(banker.BankerType(%d), %s)\n", indent, c.BT, who)
	switch c.Op % 3 {
	case 0:
		fmt.Fprintf(&sb, "%sb.SendCoins(%s, %s, chain.Coins{{\"ugnot\", 1000}})\n", indent, from, thief)
	case 1:
		// mint the denom of whatever realm the banker is bound to
		fmt.Fprintf(&sb, "%sb.IssueCoin(%s, chain.CoinDenom(%s.PkgPath(), \"tok\"), 777)\n", indent, thief, rlm)
	default:
		fmt.Fprintf(&sb, "%sb.RemoveCoin(%s, chain.CoinDenom(%s.PkgPath(), \"tok\"), 5)\n", indent, from, rlm)
	}
	return sb.String()
}

func (c c08ForgeCase) useName() string {
	if c.Inner%3 == 2 {
		return "cross-call-as-caller"
	}
	n := fmt.Sprintf("banker%d/%s", c.BT, []string{"SendCoins", "IssueCoin", "RemoveCoin"}[c.Op%3])
	if c.Inner%3 == 1 {
		n += "/cur.Sub"
	}
	if c.Third {
		n += "/third-party"
	}
	return n
}

func (c c08ForgeCase) source(w fxWorld, rt c08Route) string {
	x := "cur.Previous()"
	if c.Value == "prevprev" {
		x = "cur.Previous().Previous()"
	}
	rep := strings.NewReplacer(
		"{X}", x, "{F}", "steal",
		"{INLINE}", c.use(w, "cur", "\t\t"),
		"{DIRECT}", c.use(w, "c", "\t"),
		"{OTHER}", c.use(w, "other", "\t"),
	)
	imports := []string{"chain", "chain/banker", fxGate}
	if rt.needP {
		imports = append(imports, fxHelper)
	}
	var sb strings.Builder
	sb.WriteString("package fx\n\nimport (\n")
	for _, i := range imports {
		fmt.Fprintf(&sb, "\t%q\n", i)
	}
	sb.WriteString(")\n\n// keep every import used whatever the route\nvar (\n\t_ = chain.Coins{}\n\t_ = banker.BankerTypeRealmSend\n\t_ = gate.Paid\n)\n\n")
	fmt.Fprintf(&sb, "func steal(cur realm) {\n%s}\n\n", c.use(w, "cur", "\t"))
	sb.WriteString(rep.Replace(rt.decls))
	fmt.Fprintf(&sb, "\nfunc Take(cur realm) {\n\t%s\n}\n", rep.Replace(rt.body))
	return sb.String()
}

func fxVictimSrc(name, callee, fn string) string {
	pkg := callee[strings.LastIndex(callee, "/")+1:]
	return fmt.Sprintf("package %s\n\nimport %q\n\nvar Calls int\n\nfunc Pay(cur realm) {\n\tCalls++\n\t%s.%s(cross(cur))\n}\n", name, callee, pkg, fn)
}

// gate pays out of its own funds, but only to a caller it knows: realm va,
// realm vb, or the victim user calling directly.
func fxGateSrc(w fxWorld) string {
	return `package gate

import (
	"chain"
	"chain/banker"
)

var Paid int

func Pay(cur realm, to address) {
	p := cur.Previous()
	known := p.PkgPath() == "` + fxVA + `" || p.PkgPath() == "` + fxVB + `" || (p.IsUserCall() && p.Address() == address("` + w.vic.Addr.String() + `"))
	if !cur.IsCurrent() || !known {
		panic("gate: unknown caller")
	}
	Paid++
	b := banker.NewBanker(banker.BankerTypeRealmSend, cur)
	b.SendCoins(cur.Address(), to, chain.Coins{{"ugnot", 1000}})
}
`
}

const fxGas, fxFee = 100_000_000, 1_000_000

func c08ForgeExec(ctx *vk.Ctx, c c08ForgeCase) error {
	rt, ok := c08RouteByName(c.Route)
	if !ok {
		return fmt.Errorf("harness: unknown route %q", c.Route)
	}
	w := fxWorld{admin: ec.NewKey("fx-admin"), vic: ec.NewKey("fx-vic"), thief: ec.NewKey("fx-thief"), third: ec.NewKey("fx-third")}
	ch, _, err := ec.New(nil, ec.GenesisWithBalances(1e12, w.admin, w.vic, w.thief, w.third), ec.Options{})
	if err != nil {
		return fmt.Errorf("harness: %v", err)
	}
	ch.Begin(1)
	ch.End()
	ch.Begin(2)
	send := func(k ec.Key, m std.Msg) (bool, string, error) {
		r, _, err := ch.Send([]std.Msg{m}, fxGas, fxFee, k)
		if err != nil {
			return false, "", fmt.Errorf("harness: %v", err)
		}
		if r.GasWanted == 0 {
			return false, "", fmt.Errorf("harness: ante rejection: %v", r.Error)
		}
		if r.Error != nil {
			return false, r.Error.Error() + " " + trimLog(r.Log), nil
		}
		return true, "", nil
	}
	must := func(what string, k ec.Key, m std.Msg) error {
		ok, why, err := send(k, m)
		if err != nil {
			return err
		}
		if !ok {
			return fmt.Errorf("harness: %s failed: %s", what, why)
		}
		return nil
	}
	if err := must("deploy gate", w.admin, ec.AddPkg(w.admin.Addr, fxGate, map[string]string{"a.gno": fxGateSrc(w)}, nil)); err != nil {
		return err
	}
	if rt.needP {
		if err := must("deploy /p/ helper", w.thief, ec.AddPkg(w.thief.Addr, fxHelper, map[string]string{"a.gno": "package hlp\n\nfunc Set(p *realm, v realm) { *p = v }\n"}, nil)); err != nil {
			// the helper itself may be refused (realm type in /p/): then the route is statically closed
			ch.End()
			ctx.Class("static-reject:" + c.Route)
			ctx.Note("deploy", err.Error())
			ctx.NTIf(true)
			return nil
		}
	}
	src := c.source(w, rt)
	okDep, why, err := send(w.thief, ec.AddPkg(w.thief.Addr, fxPath, map[string]string{"a.gno": src}, nil))
	if err != nil {
		return err
	}
	ctx.Note("source", src)
	if !okDep {
		ch.End()
		if !strings.Contains(why, "VM panic") && !strings.Contains(why, "type check") && !strings.Contains(why, "preprocess") {
			return fmt.Errorf("harness: attacker realm refused for an unexpected reason: %s\n%s", why, src)
		}
		ctx.Class("static-reject:" + c.Route)
		ctx.Note("deploy", why)
		ctx.NTIf(true)
		return nil
	}
	steps := []struct {
		what string
		k    ec.Key
		m    std.Msg
	}{
		{"deploy va", w.admin, ec.AddPkg(w.admin.Addr, fxVA, map[string]string{"a.gno": fxVictimSrc("va", fxPath, "Take")}, nil)},
		{"deploy vmid", w.admin, ec.AddPkg(w.admin.Addr, fxVMid, map[string]string{"a.gno": strings.Replace(fxVictimSrc("vmid", fxPath, "Take"), "func Pay(", "func Pass(", 1)}, nil)},
		{"deploy vb", w.admin, ec.AddPkg(w.admin.Addr, fxVB, map[string]string{"a.gno": fxVictimSrc("vb", fxVMid, "Pass")}, nil)},
	}
	for _, s := range steps {
		if err := must(s.what, s.k, s.m); err != nil {
			return err
		}
	}
	realms := []string{fxGate, fxPath, fxVA, fxVMid, fxVB}
	for _, p := range []string{fxVA, fxVMid, fxVB, fxGate} {
		if err := must("fund "+p, w.admin, bank.MsgSend{FromAddress: w.admin.Addr, ToAddress: gnolang.DerivePkgCryptoAddr(p), Amount: ugnot(5_000_000)}); err != nil {
			return err
		}
	}
	ch.End()
	attacker := map[string]bool{
		w.thief.Addr.String():                                 true,
		gnolang.DerivePkgCryptoAddr(fxPath).String():          true,
		gnolang.DerivePkgCryptoAddr(fxPath + "#s").String():   true,
		gnolang.DeriveStorageDepositCryptoAddr(fxPath).String(): false,
	}
	names := map[string]string{
		w.admin.Addr.String(): "admin", w.vic.Addr.String(): "victim-user", w.thief.Addr.String(): "thief-user", w.third.Addr.String(): "third-party",
	}
	for _, p := range realms {
		names[gnolang.DerivePkgCryptoAddr(p).String()] = p
		names[gnolang.DeriveStorageDepositCryptoAddr(p).String()] = "deposit(" + p + ")"
	}
	ledger := func() (*ec.Ledger, error) {
		rd, err := ec.OpenReader(ch.DB)
		if err != nil {
			return nil, err
		}
		l := ec.LedgerOf(rd.MainDump())
		if len(l.Problems) > 0 {
			return nil, fmt.Errorf("malformed ledger: %s", strings.Join(l.Problems, "; "))
		}
		return l, nil
	}
	before, err := ledger()
	if err != nil {
		return err
	}
	victims := []struct {
		name string
		msg  std.Msg
	}{
		{"realm-calls-attacker", ec.Call(w.vic.Addr, fxVA, "Pay", nil, nil)},
		{"eoa-calls-attacker", ec.Call(w.vic.Addr, fxPath, "Take", nil, nil)},
		{"realm-via-innocent-realm", ec.Call(w.vic.Addr, fxVB, "Pay", nil, nil)},
	}
	tsec := int64(10)
	for _, v := range victims {
		ch.Begin(tsec)
		tsec += 5
		okTx, why, err := send(w.vic, v.msg)
		if err != nil {
			return err
		}
		ch.End()
		after, err := ledger()
		if err != nil {
			return err
		}
		outcome := "success"
		if !okTx {
			outcome = c08Outcome(fmt.Errorf("%s", why), why)
			if strings.Contains(why, "unknown caller") {
				outcome = "victim-gate-denied"
			}
			if strings.Contains(why, "cross: rlm is not the current cur") {
				outcome = "cross-not-current"
			}
		}
		ctx.Class(fmt.Sprintf("%s %s: %s", c.Route, v.name, outcome))
		if c.Route == "assign" {
			ctx.Class(fmt.Sprintf("use %s value=%s %s: %s", c.useName(), c.Value, v.name, outcome))
		}
		ctx.Note(v.name, outcome)
		viol := fxJudge(before, after, w.vic.Addr, attacker, names)
		before = after
		if viol == "" {
			continue
		}
		// Known finding, narrow: only routes that hand a rebound `cur` slot to a cur-call.
		if rt.rebind && ctx.Known(c08KnownForged) {
			ctx.Class(fmt.Sprintf("known:forged-cur %s %s", c.Route, v.name))
			if c.Route == "assign" {
				ctx.Class(fmt.Sprintf("known:forged-cur use %s value=%s %s", c.useName(), c.Value, v.name))
			}
			continue
		}
		return fmt.Errorf("route %q, value %s, banker type %d, op %d, inner %d, third=%v, victim %s (tx ok=%v): %s\n--- attacker realm ---\n%s",
			c.Route, c.Value, c.BT, c.Op, c.Inner, c.Third, v.name, okTx, viol, src)
	}
	ctx.NTIf(true)
	return nil
}

// fxJudge: only the signer's fee (and storage deposits it pays) and the
// attacker's own coins may move; only the attacker's own denoms may change
// supply.
func fxJudge(before, after *ec.Ledger, signer crypto.Address, attacker map[string]bool, names map[string]string) string {
	var locked int64
	for a, n := range names {
		if strings.HasPrefix(n, "deposit(") {
			if inc := after.Balances[a]["ugnot"] - before.Balances[a]["ugnot"]; inc > 0 {
				locked += inc
			}
		}
	}
	addrs := map[string]bool{}
	for a := range before.Balances {
		addrs[a] = true
	}
	for a := range after.Balances {
		addrs[a] = true
	}
	sorted := make([]string, 0, len(addrs))
	for a := range addrs {
		sorted = append(sorted, a)
	}
	sort.Strings(sorted)
	name := func(a string) string {
		if n, ok := names[a]; ok {
			return n
		}
		return a
	}
	for _, a := range sorted {
		if attacker[a] {
			continue
		}
		dens := map[string]bool{}
		for d := range before.Balances[a] {
			dens[d] = true
		}
		ds := make([]string, 0, len(dens))
		for d := range dens {
			ds = append(ds, d)
		}
		sort.Strings(ds)
		for _, d := range ds {
			dec := before.Balances[a][d] - after.Balances[a][d]
			if dec <= 0 {
				continue
			}
			allowed := int64(0)
			if a == signer.String() && d == "ugnot" {
				allowed = fxFee + locked
			}
			if dec > allowed {
				return fmt.Sprintf("balance of %s decreased by %d%s (from %d to %d); its own authority covers %d in this tx", name(a), dec, d, before.Balances[a][d], after.Balances[a][d], allowed)
			}
		}
	}
	sd := map[string]bool{}
	for d := range before.Supply {
		sd[d] = true
	}
	for d := range after.Supply {
		sd[d] = true
	}
	sds := make([]string, 0, len(sd))
	for d := range sd {
		sds = append(sds, d)
	}
	sort.Strings(sds)
	for _, d := range sds {
		if strings.HasPrefix(d, "/"+fxPath+":") || strings.HasPrefix(d, "/"+fxPath+"#") {
			continue
		}
		if delta := after.Supply[d] - before.Supply[d]; delta != 0 {
			return fmt.Sprintf("supply of %s changed by %d although its issuing realm ran no issuing code of its own", d, delta)
		}
	}
	return ""
}

const c08ForgeRule = "one syntactic route (29: plain/tuple/pointer/closure/helper/ /p/ helper/swap/package var/named result assignment to the crossing parameter `cur`, rebinding in a callee or two hops up, callee as function, method, pointer method, function variable, crossing literal, deferred call, deferred closure, call inside a closure; and without a rebound slot: cross(expr), cross(name), cross(rebound cur), other name, shadowing in block/if, second parameter named cur, non-crossing helper + cross, extra realm argument, direct use) by which an attacker crossing function makes cur.Previous() or cur.Previous().Previous() the cur of a frame it controls x one use of that cur (NewBanker type 1/2/3 + SendCoins/IssueCoin/RemoveCoin from cur.Address() or a third party, banker on cur.Sub, cross call presenting cur as the caller to a realm that pays known callers), each run against a realm that calls the attacker, an EOA that calls it, and a realm reaching it through an innocent realm; all-address balance and supply deltas per tx; every case is non-trivial (a deployed attack ran or the preprocessor refused the route)"

func c08ForgeDraw(rt *rapid.T) c08ForgeCase {
	names := make([]string, len(c08Routes))
	for i, r := range c08Routes {
		names[i] = r.name
	}
	return c08ForgeCase{
		Route: rapid.SampledFrom(names).Draw(rt, "route"),
		Value: rapid.SampledFrom([]string{"prev", "prev", "prevprev"}).Draw(rt, "value"),
		BT:    rapid.SampledFrom([]int{2, 3, 1, 2, 0, 4}).Draw(rt, "bt"),
		Op:    rapid.IntRange(0, 2).Draw(rt, "op"),
		Inner: rapid.SampledFrom([]int{0, 0, 1, 2}).Draw(rt, "inner"),
		Third: rapid.IntRange(0, 3).Draw(rt, "third") == 2,
	}
}

func TestC08_Forge(t *testing.T) {
	vk.Run(t, vk.Spec[c08ForgeCase]{
		ID: "C08", Name: "TestC08_Forge", Rule: "rapid: " + c08ForgeRule,
		Draw: c08ForgeDraw, Exec: c08ForgeExec,
	})
}

// TestC08_ForgeRoutes enumerates the matrix: quick = every route with the
// plain RealmSend/SendCoins use, plus every use with the plain assignment
// route; thorough = the full product.
func TestC08_ForgeRoutes(t *testing.T) {
	r := vk.Open(t, "C08", "TestC08_ForgeRoutes", "enumeration: "+c08ForgeRule)
	defer r.Close()
	if vk.Replaying() {
		t.Skip()
	}
	r.ReplayAs = "TestC08_Forge"
	var uses []c08ForgeCase
	for _, bt := range []int{2, 3, 1} {
		for op := 0; op < 3; op++ {
			uses = append(uses, c08ForgeCase{BT: bt, Op: op})
		}
	}
	uses = append(uses, c08ForgeCase{BT: 2, Op: 0, Inner: 1}, c08ForgeCase{BT: 2, Op: 0, Inner: 2}, c08ForgeCase{BT: 2, Op: 0, Third: true}, c08ForgeCase{BT: 3, Op: 2, Third: true})
	var cases []c08ForgeCase
	if r.Thorough() {
		for _, rt := range c08Routes {
			for _, v := range []string{"prev", "prevprev"} {
				for _, u := range uses {
					u.Route, u.Value = rt.name, v
					cases = append(cases, u)
				}
			}
		}
	} else {
		for _, rt := range c08Routes {
			cases = append(cases, c08ForgeCase{Route: rt.name, Value: "prev", BT: 2, Op: 0})
		}
		for _, u := range uses[1:] {
			u.Route, u.Value = "assign", "prev"
			cases = append(cases, u)
		}
		cases = append(cases, c08ForgeCase{Route: "assign", Value: "prevprev", BT: 2, Op: 0}, c08ForgeCase{Route: "pointer", Value: "prevprev", BT: 2, Op: 0})
	}
	r.Extra("exhaustive", true)
	r.Extra("cases", len(cases))
	for _, c := range cases {
		c := c
		if r.Do(c, func(ctx *vk.Ctx) error { return c08ForgeExec(ctx, c) }) != nil {
			return
		}
	}
}
