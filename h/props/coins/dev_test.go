package coins

import (
	"encoding/hex"
	"fmt"
	"os"
	"strings"
	"testing"

	"github.com/gnolang/gno/gnovm/pkg/gnolang"
	"github.com/gnolang/gno/tm2/pkg/std"
	ec "verif/eng/chain"
)

// dev probe for C09 realm sources.
func TestDevProbe(t *testing.T) {
	if os.Getenv("DEV_PROBE") == "" {
		t.Skip()
	}
	keys := ec.Keys(3)
	c, _, err := ec.New(nil, ec.GenesisWithBalances(1e13, keys...), ec.Options{})
	if err != nil {
		t.Fatal(err)
	}
	c.Begin(1)
	c.End()
	c.Begin(2)
	deploy := func(path, src string) {
		r, _, err := c.Send([]std.Msg{ec.AddPkg(keys[0].Addr, path, map[string]string{"a.gno": src}, nil)}, 100_000_000, 1_000_000, keys[0])
		fmt.Printf("deploy %s: err=%v resErr=%v log=%.900s gas=%d\n", path, err, r.Error, r.Log, r.GasUsed)
	}
	deploy(c09PathOwn, c09SrcOwn)
	deploy(c09PathUsr, c09SrcUsr)
	deploy(c09PathPrm, c09SrcPrm)
	deploy(c09PathSys, c09SrcSys)
	c.End()
	show := func() {
		rd, _ := ec.OpenReader(c.DB)
		for _, p := range []string{c09PathOwn, c09PathUsr, c09PathPrm, c09PathSys} {
			q := c.Query("vm/qstorage", []byte(p))
			pid := gnolang.PkgIDFromPkgPath(p)
			pre := "oid:" + hex.EncodeToString(pid.Hashlet[:]) + ":"
			st := rd.MS.GetStore(rd.BaseKey)
			it := st.Iterator(nil, []byte(pre), []byte(pre[:len(pre)-1]+";"))
			sum, n := 0, 0
			var ks []string
			for ; it.Valid(); it.Next() {
				k := string(it.Key())
				if strings.HasSuffix(k, "#realm") {
					ks = append(ks, k)
					continue
				}
				sum += len(it.Value())
				n++
			}
			it.Close()
			dep := gnolang.DeriveStorageDepositCryptoAddr(p)
			ai, _ := c.Account(dep)
			fmt.Printf("  %s: %s | sum=%d n=%d realmkeys=%v depbal=%v\n", p, q.Data, sum, n, ks, ai.Coins)
		}
		for _, kv := range rd.MainDump()["main"] {
			if strings.HasPrefix(string(kv[0]), "/pv/") && (strings.Contains(string(kv[0]), "r/st") || strings.Contains(string(kv[0]), "storage_price") || strings.Contains(string(kv[0]), "realmmeta")) {
				fmt.Printf("  param %q = %q\n", kv[0], kv[1])
			}
		}
	}
	show()
	call := func(k ec.Key, pkg, fn string, dep int64, args ...string) {
		c.Begin(c.Height + 10)
		m := ec.Call(k.Addr, pkg, fn, args, nil)
		if dep > 0 {
			m.MaxDeposit = std.Coins{std.NewCoin("ugnot", dep)}
		}
		r, _, err := c.Send([]std.Msg{m}, 100_000_000, 1_000_000, k)
		c.End()
		ev := ""
		for _, e := range r.Events {
			ev += fmt.Sprintf("%+v;", e)
		}
		fmt.Printf("call %s.%s(%v): err=%v resErr=%v data=%q events=%s log=%.300s\n", pkg, fn, args, err, r.Error, r.Data, ev, r.Log)
		show()
	}
	call(keys[1], c09PathOwn, "Push", 0, "hello")
	call(keys[1], c09PathOwn, "Push", 0, "hello")
	call(keys[1], c09PathOwn, "Pop", 0, "1")
	call(keys[1], c09PathUsr, "Make", 0)
	call(keys[1], c09PathUsr, "Add", 0, "abcdefgh")
	call(keys[1], c09PathUsr, "Both", 0, "xyz")
	call(keys[1], c09PathUsr, "Drop", 0)
	call(keys[1], c09PathPrm, "SetS", 0, "k1", "value-one")
	call(keys[1], c09PathPrm, "SetS", 0, "k1", "v")
	call(keys[1], c09PathPrm, "DelB", 0, "k1")
	call(keys[1], c09PathSys, "SetPrice", 0, "250ugnot")
	call(keys[1], c09PathOwn, "Push", 0, "hello")
	call(keys[1], c09PathSys, "SetPriceAndGrow", 0, "50ugnot", "3")
	call(keys[1], c09PathOwn, "Push", 1000, "hello")
}
