package coins

import (
	"fmt"
	"os"
	"testing"
	"time"

	"verif/vk"
)

func TestDevTiming(t *testing.T) {
	if os.Getenv("DEV_PROBE") == "" {
		t.Skip()
	}
	r := vk.Open(t, "C08", "TestDevTiming", "dev")
	c := c08Case{Txs: []c08Tx{{Kind: "mint", Signer: 2, Addr: 1, Amt: 5}, {Kind: "grow", Signer: 1, N: 3}, {Kind: "shrink", Signer: 0, N: 3}}}
	for i := 0; i < 4; i++ {
		t0 := time.Now()
		err := r.Do(c, func(ctx *vk.Ctx) error { return c08Exec(ctx, c) })
		fmt.Println("iteration", i, time.Since(t0), err)
	}
}
