package coins

// Realms of the C09 histories.

const (
	c09PathOwn = "gno.land/r/st/own"
	c09PathUsr = "gno.land/r/st/usr"
	c09PathPrm = "gno.land/r/st/prm"
	c09PathSys = "gno.land/r/sys/params"
)

// own: linked list, map, slice; and a Box type whose instances stay owned by
// this realm wherever they are attached (storage = authority).
const c09SrcOwn = `package own

type Node struct {
	V    string
	Next *Node
}

var (
	Head *Node
	Len  int
	M    = map[string]string{}
)

func Push(cur realm, v string) int {
	Head = &Node{V: v, Next: Head}
	Len++
	return Len
}

func Pop(cur realm, n int) int {
	for ; n > 0 && Head != nil; n-- {
		Head = Head.Next
		Len--
	}
	return Len
}

func Set(cur realm, k, v string) int {
	M[k] = v
	return len(M)
}

func Del(cur realm, k string) int {
	delete(M, k)
	return len(M)
}

type Box struct {
	Items []string
	Inner *Node
}

// NewBox allocates under this realm's storage context even when called from
// another realm (declaring-realm borrow).
func NewBox() *Box { return &Box{} }

func (b *Box) Add(s string) int {
	b.Items = append(b.Items, s)
	b.Inner = &Node{V: s, Next: b.Inner}
	return len(b.Items)
}

func (b *Box) Trim(n int) int {
	if n > len(b.Items) {
		n = len(b.Items)
	}
	b.Items = b.Items[:len(b.Items)-n]
	for ; n > 0 && b.Inner != nil; n-- {
		b.Inner = b.Inner.Next
	}
	return len(b.Items)
}
`

const c09SrcUsr = `package usr

import "gno.land/r/st/own"

var (
	B     *own.Box
	Notes []string
)

func Make(cur realm) { B = own.NewBox() }

func Add(cur realm, s string) int {
	if B == nil {
		B = own.NewBox()
	}
	return B.Add(s)
}

func Trim(cur realm, n int) int {
	if B == nil {
		return 0
	}
	return B.Trim(n)
}

func Drop(cur realm) { B = nil }

func Note(cur realm, s string) int {
	Notes = append(Notes, s)
	return len(Notes)
}

func Unnote(cur realm, n int) int {
	if n > len(Notes) {
		n = len(Notes)
	}
	nn := make([]string, len(Notes)-n)
	copy(nn, Notes)
	Notes = nn
	return len(Notes)
}

// Both grows this realm and, through a cross call, the other one.
func Both(cur realm, s string) int {
	Notes = append(Notes, s)
	return own.Push(cross(cur), s)
}

// GrowShrink grows this realm while releasing storage of the other.
func GrowShrink(cur realm, s string, n int) int {
	Notes = append(Notes, s)
	return own.Pop(cross(cur), n)
}
`

const c09SrcPrm = `package prm

import "chain/params"

var Count int

func SetS(cur realm, k, v string) {
	Count++
	params.SetString(k, v)
}

func SetB(cur realm, k, v string) {
	Count++
	params.SetBytes(k, []byte(v))
}

func DelB(cur realm, k string) {
	Count++
	params.SetBytes(k, nil)
}

func SetI(cur realm, k string, v int64) {
	Count++
	params.SetInt64(k, v)
}

var Pad []string

func SetAndGrow(cur realm, k, v string, n int) {
	params.SetString(k, v)
	for i := 0; i < n; i++ {
		Pad = append(Pad, v)
	}
}
`

// sys/params: the governance realm path is the only one allowed to write
// system parameters; in the harness chain it is an open setter.
const c09SrcSys = `package params

import sp "sys/params"

var Log []string

func SetPrice(cur realm, p string) {
	sp.SetSysParamString("vm", "p", "storage_price", p)
}

func SetPriceAndGrow(cur realm, p string, n int) {
	sp.SetSysParamString("vm", "p", "storage_price", p)
	for i := 0; i < n; i++ {
		Log = append(Log, "0123456789abcdef")
	}
}

func GrowThenSetPrice(cur realm, p string, n int) {
	for i := 0; i < n; i++ {
		Log = append(Log, "0123456789abcdef")
	}
	sp.SetSysParamString("vm", "p", "storage_price", p)
}

func Shrink(cur realm, n int) int {
	if n > len(Log) {
		n = len(Log)
	}
	nl := make([]string, len(Log)-n)
	copy(nl, Log)
	Log = nl
	return len(Log)
}
`
