package p2p

import (
	"bytes"
	"errors"
	"fmt"
	"io"
	"runtime"
	"sync"
	"testing"
	"time"

	"github.com/gnolang/gno/tm2/pkg/amino"
	"github.com/gnolang/gno/tm2/pkg/p2p/conn"
	"pgregory.net/rapid"
	"verif/vk"
)

// C43 — multiplexed connections deliver each channel's messages intact, in
// order, exactly once; malformed packets close the connection.
//
// The transport is the harness pipe, used store-and-forward: the sending
// MConnection writes into an unbounded queue and is stopped with FlushStop();
// the captured byte stream is then fed to a receiving MConnection through a
// reader that cuts it into the read sizes chosen by the case and ends with
// EOF. Completion is the receiver's onError callback (an event), never a
// timeout; the MConnection goroutines only meet the harness through the queue.

type c43Chan struct {
	ID      byte `json:"id"`
	Prio    int  `json:"prio"`
	SendCap int  `json:"send_cap"`
	RecvBuf int  `json:"recv_buf"`
	RecvCap int  `json:"recv_cap"`
}

type c43Msg struct {
	Ch   int  `json:"ch"` // index into Chans
	Size int  `json:"size"`
	Try  bool `json:"try,omitempty"`
}

type c43Deliver struct {
	Payload int       `json:"payload"`
	FlushMs int       `json:"flush_ms"`
	Chans   []c43Chan `json:"chans"`
	Msgs    []c43Msg  `json:"msgs"`
	Chunks  []int     `json:"chunks"`
}

func c43Body(ch, seq, n int) []byte {
	b := make([]byte, n)
	for i := range b {
		b[i] = byte(i*7 + ch*53 + seq*101 + (i>>8)*13)
	}
	return b
}

func c43Config(payload, flushMs int) conn.MConnConfig {
	cfg := conn.DefaultMConnConfig()
	cfg.SendRate, cfg.RecvRate = 1<<40, 1<<40 // flow control must not dominate
	cfg.MaxPacketMsgPayloadSize = payload
	cfg.FlushThrottle = time.Duration(flushMs) * time.Millisecond
	cfg.PingInterval, cfg.PongTimeout = time.Hour, 30*time.Minute
	return cfg
}

func c43Descs(chans []c43Chan) []*conn.ChannelDescriptor {
	var out []*conn.ChannelDescriptor
	for _, c := range chans {
		out = append(out, &conn.ChannelDescriptor{ID: c.ID, Priority: c.Prio, SendQueueCapacity: c.SendCap, RecvBufferCapacity: c.RecvBuf, RecvMessageCapacity: c.RecvCap})
	}
	return out
}

// c43Settle waits (bounded, by yielding) until the goroutines started by a case are gone.
func c43Settle(base int) bool {
	for i := 0; i < 200000; i++ {
		if runtime.NumGoroutine() <= base {
			return true
		}
		if i < 1000 {
			runtime.Gosched()
		} else {
			time.Sleep(50 * time.Microsecond)
		}
	}
	return false
}

type c43Recv struct {
	mu     sync.Mutex
	msgs   map[byte][][]byte
	order  []byte
	errs   []error
	done   chan struct{}
	after  int // deliveries after the first error
}

func newC43Recv() *c43Recv { return &c43Recv{msgs: map[byte][][]byte{}, done: make(chan struct{})} }

func (r *c43Recv) onReceive(ch byte, b []byte) {
	r.mu.Lock()
	defer r.mu.Unlock()
	if len(r.errs) > 0 {
		r.after++
	}
	r.msgs[ch] = append(r.msgs[ch], append([]byte{}, b...)) // the slice is reused by the connection
	r.order = append(r.order, ch)
}

func (r *c43Recv) onError(err error) {
	r.mu.Lock()
	r.errs = append(r.errs, err)
	first := len(r.errs) == 1
	r.mu.Unlock()
	if first {
		close(r.done)
	}
}

// c43Receive feeds stream to a fresh receiving MConnection and returns once it reported an error.
func c43Receive(stream []byte, chunks []int, chans []c43Chan, payload int) (*c43Recv, []byte, error) {
	in, out := newHQueue(), newHQueue()
	in.setPending(stream)
	in.chunks = chunks
	in.closeWrite() // EOF after the last byte
	c := &hConn{r: in, w: out}
	rec := newC43Recv()
	mc := conn.NewMConnectionWithConfig(c, c43Descs(chans), rec.onReceive, rec.onError, c43Config(payload, 1))
	if err := mc.Start(); err != nil {
		return nil, nil, fmt.Errorf("harness: receiver start: %v", err)
	}
	<-rec.done
	_ = mc.Stop()
	c.Close()
	in.waitIdle()
	return rec, out.logged(), nil
}

func c43DeliverExec(ctx *vk.Ctx, c c43Deliver) error {
	base := runtime.NumGoroutine()
	// ---- sender ----
	toPeer, fromPeer := newHQueue(), newHQueue()
	sc := &hConn{r: fromPeer, w: toPeer}
	var smu sync.Mutex
	var sErrs []error
	sRecv := 0
	sender := conn.NewMConnectionWithConfig(sc, c43Descs(c.Chans),
		func(byte, []byte) { smu.Lock(); sRecv++; smu.Unlock() },
		func(err error) { smu.Lock(); sErrs = append(sErrs, err); smu.Unlock() },
		c43Config(c.Payload, c.FlushMs))
	if err := sender.Start(); err != nil {
		return fmt.Errorf("harness: sender start: %v", err)
	}
	want := map[byte][][]byte{}
	seq := map[int]int{}
	refused := 0
	multi, zero := false, false
	for _, m := range c.Msgs {
		ch := c.Chans[m.Ch%len(c.Chans)]
		body := c43Body(m.Ch%len(c.Chans), seq[m.Ch%len(c.Chans)], m.Size)
		var ok bool
		if m.Try {
			ok = sender.TrySend(ch.ID, body)
		} else {
			ok = sender.Send(ch.ID, body)
		}
		if ok {
			want[ch.ID] = append(want[ch.ID], body)
			seq[m.Ch%len(c.Chans)]++
			multi = multi || m.Size > c.Payload
			zero = zero || m.Size == 0
		} else {
			refused++
			ctx.ClassIf(!m.Try, "send-timed-out") // allowed by the API (10 s queue timeout); the message is simply not owed
		}
	}
	sender.FlushStop() // all accepted messages are written and flushed, then the conn is closed
	fromPeer.waitIdle()
	stream := toPeer.logged()
	smu.Lock()
	nErr, nRecv := len(sErrs), sRecv
	smu.Unlock()
	if nErr != 0 || nRecv != 0 {
		c43Settle(base)
		return fmt.Errorf("sender side: %d onError calls (%v), %d onReceive calls during a clean FlushStop", nErr, sErrs, nRecv)
	}
	// ---- receiver ----
	rec, _, err := c43Receive(stream, c.Chunks, c.Chans, c.Payload)
	if err != nil {
		return err
	}
	settled := c43Settle(base)
	ctx.ClassIf(!settled, "goroutines-still-winding-down")
	rec.mu.Lock()
	defer rec.mu.Unlock()
	for _, ch := range c.Chans {
		got, exp := rec.msgs[ch.ID], want[ch.ID]
		if len(got) < len(exp) {
			// narrow matcher for one known divergence: the delivered sequence is the accepted sequence
			// with only zero-length messages missing (everything else intact and in order)
			k, onlyEmptyMissing := 0, true
			for _, e := range exp {
				if k < len(got) && bytes.Equal(got[k], e) {
					k++
				} else if len(e) != 0 {
					onlyEmptyMissing = false
				}
			}
			if onlyEmptyMissing && k == len(got) && len(c.Chans) > 1 {
				ctx.Class("zero-length-message-lost")
				if ctx.Known("zero-length-message-lost-when-another-channel-is-served-first") {
					continue
				}
			}
		}
		if len(got) != len(exp) {
			sizes := func(x [][]byte) (s []int) {
				for _, b := range x {
					s = append(s, len(b))
				}
				return
			}
			return fmt.Errorf("channel %X: %d messages accepted by Send/TrySend (sizes %v), %d delivered (sizes %v); stream %d bytes, receiver error %v", ch.ID, len(exp), sizes(exp), len(got), sizes(got), len(stream), rec.errs)
		}
		for i := 0; i < len(got) && i < len(exp); i++ {
			if !bytes.Equal(got[i], exp[i]) {
				return fmt.Errorf("channel %X message %d: received %d bytes, sent %d bytes, first difference at %d (payload size %d, chunks %v)", ch.ID, i, len(got[i]), len(exp[i]), c42Diff(got[i], exp[i]), c.Payload, c.Chunks)
			}
		}
	}
	for id := range rec.msgs {
		known := false
		for _, ch := range c.Chans {
			known = known || ch.ID == id
		}
		if !known {
			return fmt.Errorf("delivery on unknown channel %X", id)
		}
	}
	if len(rec.errs) != 1 || !errors.Is(rec.errs[0], io.EOF) {
		return fmt.Errorf("receiver onError calls: %v; want exactly one, EOF, after a cleanly closed stream of %d bytes", rec.errs, len(stream))
	}
	if rec.after != 0 {
		return fmt.Errorf("%d messages delivered after onError", rec.after)
	}
	active := 0
	for _, ch := range c.Chans {
		if len(want[ch.ID]) > 0 {
			active++
		}
	}
	ctx.NTIf(multi && len(stream) > 0)
	ctx.ClassIf(multi, "multi-packet-message")
	ctx.ClassIf(zero, "zero-length-message")
	ctx.ClassIf(active >= 2, "several-channels-active")
	ctx.ClassIf(refused > 0, "trysend-refused")
	ctx.Class(fmt.Sprintf("payload=%d", c.Payload))
	return nil
}

func c43DrawChans(rt *rapid.T, maxMsg int) []c43Chan {
	n := rapid.IntRange(1, 4).Draw(rt, "nch")
	ids := rapid.SliceOfNDistinct(rapid.IntRange(0, 255), n, n, func(i int) int { return i }).Draw(rt, "ids")
	var out []c43Chan
	for _, id := range ids {
		out = append(out, c43Chan{
			ID:      byte(id),
			Prio:    rapid.IntRange(1, 10).Draw(rt, "prio"),
			SendCap: rapid.IntRange(1, 3).Draw(rt, "sendcap"),
			RecvBuf: rapid.SampledFrom([]int{0, 1, 64, 4096}).Draw(rt, "recvbuf"),
			RecvCap: maxMsg,
		})
	}
	return out
}

func c43DrawSize(rt *rapid.T, payload int) int {
	switch rapid.IntRange(0, 10).Draw(rt, "szkind") {
	case 10:
		return 0
	case 0:
		return 1
	case 1:
		return payload + rapid.IntRange(-1, 1).Draw(rt, "d1")
	case 2:
		return 2*payload + rapid.IntRange(-1, 1).Draw(rt, "d2")
	case 3:
		return rapid.IntRange(2, 6).Draw(rt, "k")*payload + rapid.IntRange(-1, 1).Draw(rt, "d3")
	case 4:
		if payload >= 100 {
			return rapid.IntRange(20000, 51200).Draw(rt, "big")
		}
		return rapid.IntRange(1, 40*payload).Draw(rt, "bigs")
	default:
		return rapid.IntRange(1, 3*payload).Draw(rt, "any")
	}
}

func c43DrawChunks(rt *rapid.T) []int {
	n := rapid.IntRange(1, 5).Draw(rt, "nchunks")
	var out []int
	for i := 0; i < n; i++ {
		out = append(out, rapid.SampledFrom([]int{1, 1, 2, 3, 5, 17, 100, 1023, 1024, 1025, 4096, 70000}).Draw(rt, "chunk"))
	}
	return out
}

func c43DeliverDraw(rt *rapid.T) c43Deliver {
	var c c43Deliver
	c.Payload = rapid.SampledFrom([]int{1024, 1024, 1024, 1, 2, 7, 100, 1000, 4096}).Draw(rt, "payload")
	c.FlushMs = rapid.SampledFrom([]int{1, 10, 100}).Draw(rt, "flush")
	c.Chans = c43DrawChans(rt, 64*1024)
	msgGen := rapid.Custom(func(rt *rapid.T) c43Msg {
		m := c43Msg{Ch: rapid.IntRange(0, len(c.Chans)-1).Draw(rt, "ch"), Size: c43DrawSize(rt, c.Payload)}
		if m.Size < 0 {
			m.Size = 0
		}
		m.Try = rapid.IntRange(0, 3).Draw(rt, "try") == 0
		return m
	})
	c.Msgs = rapid.SliceOfN(msgGen, 0, 14).Draw(rt, "msgs")
	c.Chunks = c43DrawChunks(rt)
	return c
}

func TestC43_Deliver(t *testing.T) {
	vk.Run(t, vk.Spec[c43Deliver]{
		ID: "C43", Name: "TestC43_Deliver",
		Rule: "rapid: 1-4 channels (distinct ids, priorities 1-10, send queue capacity 1-3), 0-14 messages sent with Send/TrySend, sizes 1, payload+-1, 2*payload+-1, k*payload+-1, up to 50 KB, with MaxPacketMsgPayloadSize in {1,2,7,100,1000,1024,4096}; the sender's byte stream is captured after FlushStop and replayed to a receiving MConnection through reads cut into 1-5 cycled chunk sizes (1..70000) ending in EOF; non-trivial = at least one accepted message spans more than one packet",
		Draw: c43DeliverDraw,
		Exec: c43DeliverExec,
	})
}

// ---------------------------------------------------------------------------
// crafted packet streams with an optional malformed packet

type c43Crafted struct {
	Payload int       `json:"payload"`
	Chans   []c43Chan `json:"chans"`
	Msgs    []c43Msg  `json:"msgs"`  // messages per channel, cut into packets of <= Payload bytes
	Order   []int     `json:"order"` // which channel emits its next packet (cycled over channels with packets left)
	Pings   []int     `json:"pings"` // packet positions before which a ping (even) / pong (odd) is inserted
	Bad     string    `json:"bad"`   // none unknown-channel oversize overcap garbage truncated huge-length
	BadAt   int       `json:"bad_at"`
	BadArg  int       `json:"bad_arg"`
	Chunks  []int     `json:"chunks"`
}

func c43Encode(p conn.Packet) []byte {
	var buf bytes.Buffer
	if _, err := amino.MarshalAnySizedWriter(&buf, p); err != nil {
		panic(err)
	}
	return buf.Bytes()
}

func c43CraftedExec(ctx *vk.Ctx, c c43Crafted) error {
	base := runtime.NumGoroutine()
	nch := len(c.Chans)
	type pkt struct {
		ch   int
		data []byte
		eof  bool
		msg  int // index of the message in its channel
	}
	// cut messages into packets per channel
	queues := make([][]pkt, nch)
	bodies := make([][][]byte, nch)
	for _, m := range c.Msgs {
		ch := m.Ch % nch
		body := c43Body(ch, len(bodies[ch]), m.Size)
		bodies[ch] = append(bodies[ch], body)
		for off := 0; ; off += c.Payload {
			end := off + c.Payload
			if end >= len(body) {
				queues[ch] = append(queues[ch], pkt{ch, body[off:], true, len(bodies[ch]) - 1})
				break
			}
			queues[ch] = append(queues[ch], pkt{ch, body[off:end], false, len(bodies[ch]) - 1})
		}
	}
	// interleave
	var pkts []pkt
	for i := 0; ; i++ {
		var live []int
		for ch := range queues {
			if len(queues[ch]) > 0 {
				live = append(live, ch)
			}
		}
		if len(live) == 0 {
			break
		}
		pick := live[0]
		if len(c.Order) > 0 {
			pick = live[c.Order[i%len(c.Order)]%len(live)]
		}
		pkts = append(pkts, queues[pick][0])
		queues[pick] = queues[pick][1:]
	}
	badAt := -1
	if c.Bad != "none" && c.Bad != "" {
		badAt = c.BadAt % (len(pkts) + 1)
	}
	unknownID := byte(0)
	for id := 0; id < 256; id++ {
		used := false
		for _, ch := range c.Chans {
			used = used || int(ch.ID) == id
		}
		if !used && (id+c.BadArg)%3 == 0 {
			unknownID = byte(id)
			break
		}
	}
	pingAt := map[int]int{}
	for i, p := range c.Pings {
		pingAt[p%(len(pkts)+1)] = i
	}
	var stream []byte
	want := make([][][]byte, nch)
	partial := make([]int, nch) // bytes of an unfinished message per channel at the cut
	cut := false
	for i := 0; i <= len(pkts) && !cut; i++ {
		if k, ok := pingAt[i]; ok {
			if k%2 == 0 {
				stream = append(stream, c43Encode(conn.PacketPing{})...)
			} else {
				stream = append(stream, c43Encode(conn.PacketPong{})...)
			}
		}
		if i == badAt {
			switch c.Bad {
			case "unknown-channel":
				stream = append(stream, c43Encode(conn.PacketMsg{ChannelID: unknownID, EOF: 1, Bytes: []byte("x")})...)
			case "oversize": // beyond the encoded-size limit (payload + fixed overhead + 10 bytes of slack)
				stream = append(stream, c43Encode(conn.PacketMsg{ChannelID: c.Chans[0].ID, EOF: 1, Bytes: make([]byte, c.Payload+24+c.BadArg%100)})...)
			case "overcap": // continuation packets that take channel 0 beyond its RecvMessageCapacity
				ch := c.Chans[0]
				for sent := partial[0]; sent <= ch.RecvCap; sent += c.Payload {
					stream = append(stream, c43Encode(conn.PacketMsg{ChannelID: ch.ID, EOF: 0, Bytes: make([]byte, c.Payload)})...)
				}
			case "garbage":
				stream = append(stream, 5, 0xff, 0xff, 0xff, 0xff, byte(c.BadArg))
			case "huge-length":
				stream = append(stream, 0xff, 0xff, 0xff, 0xff, 0x0f, 1, 2, 3)
			case "truncated":
				if i < len(pkts) {
					enc := c43Encode(conn.PacketMsg{ChannelID: c.Chans[pkts[i].ch].ID, EOF: 1, Bytes: pkts[i].data})
					stream = append(stream, enc[:1+c.BadArg%(len(enc)-1)]...)
				} else {
					stream = append(stream, 3, 0x0a) // announces 3 bytes, delivers 1
				}
				cut = true
				continue
			}
			// whatever follows must not be delivered: keep appending the remaining valid packets
			for _, p := range pkts[i:] {
				e := byte(0)
				if p.eof {
					e = 1
				}
				stream = append(stream, c43Encode(conn.PacketMsg{ChannelID: c.Chans[p.ch].ID, EOF: e, Bytes: p.data})...)
			}
			break
		}
		if i == len(pkts) {
			break
		}
		p := pkts[i]
		e := byte(0)
		if p.eof {
			e = 1
		}
		stream = append(stream, c43Encode(conn.PacketMsg{ChannelID: c.Chans[p.ch].ID, EOF: e, Bytes: p.data})...)
		if p.eof {
			want[p.ch] = append(want[p.ch], bodies[p.ch][p.msg])
			partial[p.ch] = 0
		} else {
			partial[p.ch] += len(p.data)
		}
	}
	rec, replies, err := c43Receive(stream, c.Chunks, c.Chans, c.Payload)
	if err != nil {
		return err
	}
	settled := c43Settle(base)
	ctx.ClassIf(!settled, "goroutines-still-winding-down")
	rec.mu.Lock()
	defer rec.mu.Unlock()
	ctx.Class("bad=" + c.Bad)
	for i, ch := range c.Chans {
		got, exp := rec.msgs[ch.ID], want[i]
		for k := 0; k < len(got) && k < len(exp); k++ {
			if !bytes.Equal(got[k], exp[k]) {
				return fmt.Errorf("channel %X message %d: received %d bytes, stream carried %d bytes, first difference at %d", ch.ID, k, len(got[k]), len(exp[k]), c42Diff(got[k], exp[k]))
			}
		}
		if len(got) != len(exp) {
			return fmt.Errorf("channel %X: %d messages were complete before position %d (%s), %d delivered (error %v)", ch.ID, len(exp), badAt, c.Bad, len(got), rec.errs)
		}
	}
	for id, m := range rec.msgs {
		known := false
		for _, ch := range c.Chans {
			known = known || ch.ID == id
		}
		if !known && len(m) > 0 {
			return fmt.Errorf("delivery on unknown channel %X", id)
		}
	}
	if len(rec.errs) != 1 {
		return fmt.Errorf("onError called %d times (%v), want once", len(rec.errs), rec.errs)
	}
	if rec.after != 0 {
		return fmt.Errorf("%d deliveries after onError", rec.after)
	}
	if badAt < 0 && !errors.Is(rec.errs[0], io.EOF) {
		return fmt.Errorf("well-formed stream of %d packets ended with %v, want EOF", len(pkts), rec.errs[0])
	}
	if badAt >= 0 && c.Bad != "truncated" && errors.Is(rec.errs[0], io.EOF) && !errors.Is(rec.errs[0], io.ErrUnexpectedEOF) {
		return fmt.Errorf("malformed packet (%s at %d) was skipped: connection ended with plain EOF after the whole stream", c.Bad, badAt)
	}
	// every ping must have been answered by a pong on the reply stream, unless the connection failed first
	_ = replies
	interleaved := false
	for i := 1; i < len(pkts); i++ {
		if pkts[i].ch != pkts[i-1].ch && !pkts[i-1].eof {
			interleaved = true
		}
	}
	ctx.ClassIf(interleaved, "channels-interleaved-mid-message")
	ctx.ClassIf(len(c.Pings) > 0, "with-ping-pong")
	ctx.NTIf(badAt > 0 || (badAt < 0 && interleaved))
	return nil
}

func c43CraftedDraw(rt *rapid.T) c43Crafted {
	var c c43Crafted
	c.Payload = rapid.SampledFrom([]int{1024, 1024, 1, 3, 7, 100, 1000}).Draw(rt, "payload")
	capacity := rapid.SampledFrom([]int{5 * c.Payload, 3*c.Payload + 1, 4096, 30000}).Draw(rt, "cap")
	c.Chans = c43DrawChans(rt, capacity)
	msgGen := rapid.Custom(func(rt *rapid.T) c43Msg {
		m := c43Msg{Ch: rapid.IntRange(0, len(c.Chans)-1).Draw(rt, "ch")}
		switch rapid.IntRange(0, 5).Draw(rt, "szkind") {
		case 0:
			m.Size = 0
		case 1:
			m.Size = capacity - rapid.IntRange(0, 1).Draw(rt, "atcap")
		default:
			m.Size = c43DrawSize(rt, c.Payload)
		}
		if m.Size > capacity {
			m.Size = capacity
		}
		if m.Size < 0 {
			m.Size = 0
		}
		return m
	})
	c.Msgs = rapid.SliceOfN(msgGen, 0, 10).Draw(rt, "msgs")
	c.Order = rapid.SliceOfN(rapid.IntRange(0, 3), 0, 12).Draw(rt, "order")
	c.Pings = rapid.SliceOfN(rapid.IntRange(0, 50), 0, 3).Draw(rt, "pings")
	c.Bad = rapid.SampledFrom([]string{"none", "none", "unknown-channel", "oversize", "overcap", "garbage", "truncated", "huge-length"}).Draw(rt, "bad")
	c.BadAt = rapid.IntRange(0, 200).Draw(rt, "badat")
	c.BadArg = rapid.IntRange(0, 1000).Draw(rt, "badarg")
	c.Chunks = c43DrawChunks(rt)
	return c
}

func TestC43_Crafted(t *testing.T) {
	vk.Run(t, vk.Spec[c43Crafted]{
		ID: "C43", Name: "TestC43_Crafted",
		Rule: "rapid: a packet stream built by the harness: 0-10 messages (sizes 0, 1, around multiples of the payload size, exactly at / one below the channel's RecvMessageCapacity) on 1-4 channels cut into packets and interleaved in a drawn order (also mid-message), ping/pong packets sprinkled in, optionally one malformed element at a drawn position (packet for an unknown channel, packet beyond the size limit, continuation packets beyond RecvMessageCapacity, undecodable bytes, absurd length prefix, stream cut inside a packet) followed by the remaining valid packets; fed through drawn read chunking to a receiving MConnection; oracle: exactly the messages completed before the malformed element are delivered, onError fires once, nothing is delivered afterwards; non-trivial = malformed element after >=1 packet, or a well-formed stream where channels interleave in the middle of a message",
		Draw: c43CraftedDraw,
		Exec: c43CraftedExec,
	})
}
