package p2p

import (
	"fmt"
	"runtime"
	"sort"
	"sync"
	"sync/atomic"
	"testing"
	"time"

	"github.com/anishathalye/porcupine"
	"github.com/gnolang/gno/tm2/pkg/clist"
	"pgregory.net/rapid"
	"verif/vk"
)

// C49 — the concurrent list is linearizable (forward direction) and never
// loses wake-ups.
//
// A case is a small concurrent program: 2-6 workers with private registers
// holding *CElement, each running a generated op list against one shared
// CList. Every call is recorded with a logical call/return time (one shared
// atomic counter) and the history is checked by porcupine against a sequential
// linked-list model. Blocking calls (NextWait, FrontWait, waits on WaitChan /
// NextWaitChan) are legal in the model only at an instant where their
// documented condition holds, so a call that returns without it, or returns
// the wrong element, is a linearizability violation. A call that never returns
// although the condition became true is a lost wake-up; that can only be
// observed with a time budget (20 s, >10^6 x the nominal cost) and is reported
// as a violation only when an isolated re-run shows it again; otherwise the
// test stops INCONCLUSIVE (no VIOLATION line).

const (
	c49MaxElems   = 120
	c49WaitBudget = 20 * time.Second
)

type c49Op struct {
	K      string `json:"k"` // push remove front frontwait waitchan next nextwait nextwaitchan len
	R      int    `json:"r"` // source register
	D      int    `json:"d"` // destination register
	Spin   int    `json:"spin,omitempty"`
	Detach bool   `json:"detach,omitempty"` // remove: call DetachPrev afterwards (as the mempool does)
}

type c49Case struct {
	Pre     int       `json:"pre"` // elements pushed before the workers start
	Workers [][]c49Op `json:"workers"`
}

const c49Regs = 3

// ---- sequential model ----

type c49State struct {
	next             [c49MaxElems]int8
	prev             [c49MaxElems]int8
	pushed, removed  [2]uint64
	head, tail       int8
	n                int16
}

func c49bit(s *[2]uint64, i int8) bool { return s[i>>6]&(1<<(uint(i)&63)) != 0 }
func c49set(s *[2]uint64, i int8)      { s[i>>6] |= 1 << (uint(i) & 63) }

type c49In struct {
	kind string
	id   int8 // element argument / pushed id; -1 none
}

type c49Out struct {
	id int8 // returned element; -1 = nil
	n  int
}

func c49Init() any {
	var s c49State
	for i := range s.next {
		s.next[i], s.prev[i] = -1, -1
	}
	s.head, s.tail = -1, -1
	return s
}

func c49Step(state, input, output any) (bool, any) {
	s := state.(c49State)
	in := input.(c49In)
	out := output.(c49Out)
	switch in.kind {
	case "push":
		if c49bit(&s.pushed, in.id) {
			return false, s
		}
		c49set(&s.pushed, in.id)
		s.next[in.id], s.prev[in.id] = -1, s.tail
		if s.tail == -1 {
			s.head = in.id
		} else {
			s.next[s.tail] = in.id
		}
		s.tail = in.id
		s.n++
		return true, s
	case "remove":
		if !c49bit(&s.pushed, in.id) || c49bit(&s.removed, in.id) {
			return false, s
		}
		p, nx := s.prev[in.id], s.next[in.id]
		if p == -1 {
			s.head = nx
		} else {
			s.next[p] = nx
		}
		if nx == -1 {
			s.tail = p
		} else {
			s.prev[nx] = p
		}
		c49set(&s.removed, in.id) // the removed element keeps its next pointer
		s.n--
		return true, s
	case "front":
		return out.id == s.head, s
	case "frontwait":
		return s.head != -1 && out.id == s.head, s
	case "waitchan":
		return s.head != -1, s
	case "next":
		return c49bit(&s.pushed, in.id) && out.id == s.next[in.id], s
	case "nextwait":
		ok := c49bit(&s.pushed, in.id) && (s.next[in.id] != -1 || c49bit(&s.removed, in.id))
		return ok && out.id == s.next[in.id], s
	case "nextwaitchan":
		return c49bit(&s.pushed, in.id) && (s.next[in.id] != -1 || c49bit(&s.removed, in.id)), s
	case "len":
		return out.n == int(s.n), s
	}
	return false, s
}

var c49Model = porcupine.Model{
	Init: c49Init,
	Step: c49Step,
	DescribeOperation: func(in, out any) string {
		i, o := in.(c49In), out.(c49Out)
		return fmt.Sprintf("%s(%d)->(%d,%d)", i.kind, i.id, o.id, o.n)
	},
}

// ---- one run of a program ----

type c49Run struct {
	ops       []porcupine.Operation
	stuck     bool   // a blocking call did not return within the budget
	stalled   bool   // the harness could not finish the run for another reason
	stuckInfo string
	panicMsg  string
	overlap   bool // a mutator overlapped a reader of another worker
	waited    bool // a blocking call's interval contains the call of a push/remove
}

func c49ID(e *clist.CElement) int8 {
	if e == nil {
		return -1
	}
	return int8(e.Value.(int))
}

// c49Confirmed is set once a lost wake-up has been seen and confirmed with the full budget; the
// shrinking attempts that follow only minimise that established failure and use a short budget.
var c49Confirmed atomic.Bool

func c49RunOnce(c c49Case) *c49Run {
	res := &c49Run{}
	budget := c49WaitBudget
	if c49Confirmed.Load() {
		budget = time.Second
	}
	l := clist.New()
	var clk atomic.Int64
	var mu sync.Mutex // protects res.ops, res.panicMsg
	record := func(client int, in c49In, out c49Out, call, ret int64) {
		mu.Lock()
		res.ops = append(res.ops, porcupine.Operation{ClientId: client, Input: in, Call: call, Output: out, Return: ret})
		mu.Unlock()
	}
	// ids: pre-pushed 0..Pre-1, then worker pushes in (worker, op) order, then sentinels.
	nextID := c.Pre
	pushID := make([][]int, len(c.Workers))
	nBlocking, nRemove := 0, 0
	for w, ops := range c.Workers {
		pushID[w] = make([]int, len(ops))
		for i, op := range ops {
			switch op.K {
			case "push":
				pushID[w][i] = nextID
				nextID++
			case "frontwait", "waitchan", "nextwait", "nextwaitchan":
				nBlocking++
			case "remove":
				nRemove++
			}
		}
	}
	sentinelBase := nextID
	maxSentinels := nBlocking + nRemove + 2
	if sentinelBase+maxSentinels > c49MaxElems {
		maxSentinels = c49MaxElems - sentinelBase
	}
	mainClient := len(c.Workers)
	var initial []*clist.CElement
	for i := 0; i < c.Pre; i++ {
		call := clk.Add(1)
		e := l.PushBack(i)
		record(mainClient, c49In{"push", int8(i)}, c49Out{-1, 0}, call, clk.Add(1))
		initial = append(initial, e)
	}
	claimed := make([]atomic.Bool, c49MaxElems)
	var inBlocking, running, progress atomic.Int64
	running.Store(int64(len(c.Workers)))
	var start atomic.Bool
	var wg sync.WaitGroup
	for w := range c.Workers {
		wg.Add(1)
		go func(w int) {
			defer wg.Done()
			defer running.Add(-1)
			defer func() {
				if p := recover(); p != nil {
					mu.Lock()
					res.panicMsg = fmt.Sprintf("worker %d: %v", w, p)
					mu.Unlock()
				}
			}()
			var reg [c49Regs]*clist.CElement
			if len(initial) > 0 {
				reg[0] = initial[w%len(initial)]
			}
			for !start.Load() { // spin barrier: the workers start together
				runtime.Gosched()
			}
			for i, op := range c.Workers[w] {
				for s := 0; s < op.Spin; s++ {
					runtime.Gosched()
				}
				src := reg[op.R%c49Regs]
				d := op.D % c49Regs
				switch op.K {
				case "push":
					id := pushID[w][i]
					call := clk.Add(1)
					e := l.PushBack(id)
					record(w, c49In{"push", int8(id)}, c49Out{-1, 0}, call, clk.Add(1))
					reg[d] = e
				case "remove":
					if src == nil || !claimed[c49ID(src)].CompareAndSwap(false, true) {
						continue
					}
					call := clk.Add(1)
					l.Remove(src)
					record(w, c49In{"remove", c49ID(src)}, c49Out{-1, 0}, call, clk.Add(1))
					if op.Detach {
						src.DetachPrev()
					}
				case "front":
					call := clk.Add(1)
					e := l.Front()
					record(w, c49In{"front", -1}, c49Out{c49ID(e), 0}, call, clk.Add(1))
					reg[d] = e
				case "frontwait":
					inBlocking.Add(1)
					call := clk.Add(1)
					e := l.FrontWait()
					ret := clk.Add(1)
					inBlocking.Add(-1)
					record(w, c49In{"frontwait", -1}, c49Out{c49ID(e), 0}, call, ret)
					reg[d] = e
				case "waitchan":
					inBlocking.Add(1)
					call := clk.Add(1)
					<-l.WaitChan()
					ret := clk.Add(1)
					inBlocking.Add(-1)
					record(w, c49In{"waitchan", -1}, c49Out{-1, 0}, call, ret)
				case "next":
					if src == nil {
						continue
					}
					call := clk.Add(1)
					e := src.Next()
					record(w, c49In{"next", c49ID(src)}, c49Out{c49ID(e), 0}, call, clk.Add(1))
					reg[d] = e
				case "nextwait":
					if src == nil {
						continue
					}
					inBlocking.Add(1)
					call := clk.Add(1)
					e := src.NextWait()
					ret := clk.Add(1)
					inBlocking.Add(-1)
					record(w, c49In{"nextwait", c49ID(src)}, c49Out{c49ID(e), 0}, call, ret)
					reg[d] = e
				case "nextwaitchan":
					if src == nil {
						continue
					}
					inBlocking.Add(1)
					call := clk.Add(1)
					<-src.NextWaitChan()
					ret := clk.Add(1)
					inBlocking.Add(-1)
					record(w, c49In{"nextwaitchan", c49ID(src)}, c49Out{-1, 0}, call, ret)
				case "len":
					call := clk.Add(1)
					n := l.Len()
					record(w, c49In{"len", -1}, c49Out{-1, n}, call, clk.Add(1))
				}
				progress.Add(1)
			}
		}(w)
	}
	done := make(chan struct{})
	go func() { wg.Wait(); close(done) }()
	start.Store(true)
	// The harness releases waiters that the program itself leaves blocked: whenever every unfinished
	// worker is inside a blocking call it appends a sentinel element (a recorded PushBack), which makes
	// the condition of every pending wait true (a live tail gets a successor, an empty list a front).
	sentinels := 0
	lastProgress, lastChange := progress.Load(), time.Now()
	pushedSinceProgress := false
loop:
	for {
		select {
		case <-done:
			break loop
		default:
		}
		if p := progress.Load(); p != lastProgress {
			lastProgress, lastChange, pushedSinceProgress = p, time.Now(), false
		}
		r := running.Load()
		if r > 0 && inBlocking.Load() == r && !pushedSinceProgress && sentinels < maxSentinels {
			id := sentinelBase + sentinels
			sentinels++
			call := clk.Add(1)
			l.PushBack(id)
			record(mainClient, c49In{"push", int8(id)}, c49Out{-1, 0}, call, clk.Add(1))
			pushedSinceProgress = true
			lastChange = time.Now()
		}
		if pushedSinceProgress && time.Since(lastChange) > budget {
			res.stuck = true
			res.stuckInfo = fmt.Sprintf("%d worker(s) still inside a blocking call %v after a PushBack completed (list len %d, %d sentinels)", inBlocking.Load(), budget, l.Len(), sentinels)
			return res // the stuck goroutines are abandoned; the run cannot be joined
		}
		if !pushedSinceProgress && time.Since(lastChange) > 3*c49WaitBudget {
			// not a wake-up question (no sentinel could be pushed): harness cannot finish the run
			res.stalled = true
			res.stuckInfo = "harness: workers neither finish nor are all inside blocking calls"
			return res
		}
		select {
		case <-done:
			break loop
		case <-time.After(30 * time.Microsecond):
		}
	}
	mu.Lock()
	defer mu.Unlock()
	// overlap / waited statistics
	for _, a := range res.ops {
		ak := a.Input.(c49In).kind
		if ak != "push" && ak != "remove" {
			continue
		}
		for _, b := range res.ops {
			if b.ClientId == a.ClientId {
				continue
			}
			bk := b.Input.(c49In).kind
			if bk == "push" || bk == "remove" {
				continue
			}
			if a.Call < b.Return && b.Call < a.Return {
				res.overlap = true
			}
			if (bk == "nextwait" || bk == "frontwait" || bk == "waitchan" || bk == "nextwaitchan") && b.Call < a.Call && a.Call < b.Return {
				res.waited = true
			}
		}
	}
	return res
}

func c49Describe(ops []porcupine.Operation) string {
	s := append([]porcupine.Operation{}, ops...)
	sort.Slice(s, func(i, j int) bool { return s[i].Call < s[j].Call })
	out := ""
	for _, o := range s {
		out += fmt.Sprintf("\n  w%d [%d,%d] %s", o.ClientId, o.Call, o.Return, c49Model.DescribeOperation(o.Input, o.Output))
	}
	return out
}

func c49Draw(rt *rapid.T) c49Case {
	var c c49Case
	c.Pre = rapid.IntRange(0, 3).Draw(rt, "pre")
	nw := rapid.IntRange(2, 6).Draw(rt, "workers")
	kinds := []string{"push", "push", "push", "remove", "remove", "front", "frontwait", "waitchan", "next", "next", "nextwait", "nextwait", "nextwaitchan", "len"}
	opGen := rapid.Custom(func(rt *rapid.T) c49Op {
		op := c49Op{K: rapid.SampledFrom(kinds).Draw(rt, "k"), R: rapid.IntRange(0, c49Regs-1).Draw(rt, "r"), D: rapid.IntRange(0, c49Regs-1).Draw(rt, "d")}
		if rapid.IntRange(0, 3).Draw(rt, "spinkind") == 0 {
			op.Spin = rapid.IntRange(1, 3).Draw(rt, "spin")
		}
		if op.K == "remove" {
			op.Detach = rapid.Bool().Draw(rt, "detach")
		}
		return op
	})
	for w := 0; w < nw; w++ {
		c.Workers = append(c.Workers, rapid.SliceOfN(opGen, 1, 9).Draw(rt, fmt.Sprintf("ops%d", w)))
	}
	return c
}

func TestC49_CList(t *testing.T) {
	reps := 20
	vk.Run(t, vk.Spec[c49Case]{
		ID: "C49", Name: "TestC49_CList",
		Rule: "rapid: concurrent programs of 2-6 goroutines x 1-9 ops (PushBack, Remove(+DetachPrev) claimed at most once per element, Front, FrontWait, WaitChan wait, Next, NextWait, NextWaitChan wait, Len) over private element registers with drawn Gosched injections, 0-3 pre-pushed elements, run under -race, each program repeated (quick 20, thorough 100 times); every recorded history checked by porcupine against a sequential forward linked-list model; non-trivial = in at least one repetition a PushBack/Remove overlapped in time a read or wait of another goroutine",
		Setup: func(r *vk.Rec) {
			reps = vk.Pick(r, 20, 100)
			if vk.Replaying() {
				reps = 300 // a replayed program gets more chances to meet the same schedule
			}
		},
		Draw: c49Draw,
		Exec: func(ctx *vk.Ctx, c c49Case) error {
			total := c.Pre
			for _, w := range c.Workers {
				total += len(w)
			}
			if total+8 > c49MaxElems || len(c.Workers) == 0 {
				return nil // outside the generated space (hand-written replay file)
			}
			overlap, waited := false, false
			overlapReps := 0
			for rep := 0; rep < reps; rep++ {
				res := c49RunOnce(c)
				if res.stalled {
					t.Fatalf("INCONCLUSIVE C49: %s", res.stuckInfo)
				}
				if res.stuck {
					// confirm in isolation: same program, fresh list, nothing else running in this process
					confirmed := false
					for i := 0; i < 60 && !confirmed; i++ {
						if r2 := c49RunOnce(c); r2.stuck {
							confirmed = true
						}
					}
					if confirmed {
						c49Confirmed.Store(true)
						return fmt.Errorf("lost wake-up (seen again in an isolated re-run): %s", res.stuckInfo)
					}
					t.Fatalf("INCONCLUSIVE C49: %s; not reproduced by 60 isolated re-runs", res.stuckInfo)
				}
				if res.panicMsg != "" {
					return fmt.Errorf("panic in list operation: %s\nhistory:%s", res.panicMsg, c49Describe(res.ops))
				}
				switch porcupine.CheckOperationsTimeout(c49Model, res.ops, 30*time.Second) {
				case porcupine.Illegal:
					return fmt.Errorf("history of repetition %d is not linearizable w.r.t. the sequential list model (times are logical):%s", rep, c49Describe(res.ops))
				case porcupine.Unknown:
					ctx.Class("porcupine-gave-up")
				}
				overlap = overlap || res.overlap
				if res.overlap {
					overlapReps++
				}
				waited = waited || res.waited
			}
			ctx.NTIf(overlap)
			ctx.Note("repetitions_with_overlap", overlapReps)
			ctx.Note("repetitions", reps)
			ctx.ClassIf(overlap, "mutator-overlapped-reader")
			ctx.ClassIf(waited, "wait-spanned-a-mutation")
			ctx.Class(fmt.Sprintf("workers=%d", len(c.Workers)))
			return nil
		},
	})
}
