package p2p

import (
	"bytes"
	"crypto/sha256"
	"encoding/binary"
	"fmt"
	"io"
	"testing"

	"github.com/gnolang/gno/tm2/pkg/crypto/ed25519"
	"github.com/gnolang/gno/tm2/pkg/p2p/conn"
	"golang.org/x/crypto/chacha20poly1305"
	"golang.org/x/crypto/curve25519"
	"golang.org/x/crypto/hkdf"
	"pgregory.net/rapid"
	"verif/vk"
)

// C42 — secret connections are confidential, authenticated and tamper-evident.
//
// Two checks share this file:
//   TestC42_Stream   two SecretConnection endpoints over the harness pipe; the
//                    case chooses the write chunking, the read buffer sizes and
//                    an adversary that edits the handshake bytes or the sealed
//                    frames waiting in the pipe.
//   TestC42_RawPeer  one SecretConnection endpoint against an independent
//                    implementation of the protocol written from its description
//                    (X25519, HKDF-SHA256, ChaCha20-Poly1305 frames, signed
//                    challenge); interop, exact framing, confidentiality of the
//                    sealed bytes, and active attacks that need session keys
//                    (forged / relayed identity, low-order points).
// The handshake needs goroutines (each side writes and reads in tandem), but
// every byte passes through hQueue, whose content and end-of-stream the case
// owns; the data phase runs entirely in the test goroutine.

const (
	c42Frame   = 1028 // 4-byte length + 1024 data
	c42Sealed  = c42Frame + 16
	c42EphMsg  = 35 // 0x22 0x0a 0x20 + 32-byte key
	c42KeyOff  = 3
	c42DataMax = 1024
)

func c42Key(seed uint8) ed25519.PrivKeyEd25519 {
	return ed25519.GenPrivKeyFromSecret([]byte{'c', '4', '2', seed})
}

// c42Pub returns the raw 32 bytes of an identity's public key.
func c42Pub(k ed25519.PrivKeyEd25519) []byte {
	p := k.PubKey().(ed25519.PubKeyEd25519)
	return p[:]
}

func c42Rem(sc *conn.SecretConnection) []byte {
	p := sc.RemotePubKey()
	return p[:]
}

func c42Data(n int, salt byte) []byte {
	b := make([]byte, n)
	for i := range b {
		b[i] = byte(i*131+(i>>8)*29) ^ salt
	}
	return b
}

var c42LowOrder = [][32]byte{
	{},
	{1},
	{0xe0, 0xeb, 0x7a, 0x7c, 0x3b, 0x41, 0xb8, 0xae, 0x16, 0x56, 0xe3, 0xfa, 0xf1, 0x9f, 0xc4, 0x6a, 0xda, 0x09, 0x8d, 0xeb, 0x9c, 0x32, 0xb1, 0xfd, 0x86, 0x62, 0x05, 0x16, 0x5f, 0x49, 0xb8, 0x00},
	{0x5f, 0x9c, 0x95, 0xbc, 0xa3, 0x50, 0x8c, 0x24, 0xb1, 0xd0, 0xb1, 0x55, 0x9c, 0x83, 0xef, 0x5b, 0x04, 0x44, 0x5c, 0xc4, 0x58, 0x1c, 0x8e, 0x86, 0xd8, 0x22, 0x4e, 0xdd, 0xd0, 0x9f, 0x11, 0x57},
	{0xec, 0xff, 0xff, 0xff, 0xff, 0xff, 0xff, 0xff, 0xff, 0xff, 0xff, 0xff, 0xff, 0xff, 0xff, 0xff, 0xff, 0xff, 0xff, 0xff, 0xff, 0xff, 0xff, 0xff, 0xff, 0xff, 0xff, 0xff, 0xff, 0xff, 0xff, 0x7f},
	{0xed, 0xff, 0xff, 0xff, 0xff, 0xff, 0xff, 0xff, 0xff, 0xff, 0xff, 0xff, 0xff, 0xff, 0xff, 0xff, 0xff, 0xff, 0xff, 0xff, 0xff, 0xff, 0xff, 0xff, 0xff, 0xff, 0xff, 0xff, 0xff, 0xff, 0xff, 0x7f},
	{0xee, 0xff, 0xff, 0xff, 0xff, 0xff, 0xff, 0xff, 0xff, 0xff, 0xff, 0xff, 0xff, 0xff, 0xff, 0xff, 0xff, 0xff, 0xff, 0xff, 0xff, 0xff, 0xff, 0xff, 0xff, 0xff, 0xff, 0xff, 0xff, 0xff, 0xff, 0x7f},
}

func c42EphPub(seed uint8) (pub, priv [32]byte) {
	priv = sha256.Sum256([]byte{'e', 'p', 'h', seed})
	p, err := curve25519.X25519(priv[:], curve25519.Basepoint)
	if err != nil {
		panic(err)
	}
	copy(pub[:], p)
	return
}

// c42Wire is one transport write observed on the wire together with the plaintext chunk the writer
// was sealing at that moment.
type c42Wire struct {
	seg   hSeg
	chunk []byte
	off   int // stream offset of chunk
}

// c42FaultyWrites performs the writes on sc while q (the queue sc's conn writes into) injects the
// drawn transport faults, the caller carrying on with the next write after a failed one. A failed
// Write is legitimate (also: every later Write may be refused); what reached the wire is returned.
func c42FaultyWrites(sc *conn.SecretConnection, q *hQueue, faults []hFault, data []byte, sizes []int) (wire []c42Wire, faultHit bool, err error) {
	q.arm(faults)
	off := 0
	for _, w := range sizes {
		before := len(q.segments())
		n, werr := sc.Write(data[off : off+w])
		segs := q.segments()[before:]
		hitNow := false
		for j, sg := range segs {
			lo := j * c42DataMax
			if lo >= w {
				return nil, faultHit, fmt.Errorf("Write(%d bytes) made %d transport writes, framing allows %d", w, len(segs), (w+c42DataMax-1)/c42DataMax)
			}
			hi := lo + c42DataMax
			if hi > w {
				hi = w
			}
			if sg.full != c42Sealed {
				return nil, faultHit, fmt.Errorf("transport write of %d bytes, sealed frames have %d", sg.full, c42Sealed)
			}
			wire = append(wire, c42Wire{sg, data[off+lo : off+hi], off + lo})
			hitNow = hitNow || sg.failed
		}
		faultHit = faultHit || hitNow
		if werr == nil && (n != w || hitNow || len(segs) != (w+c42DataMax-1)/c42DataMax) {
			return nil, faultHit, fmt.Errorf("Write(%d bytes) = %d, nil with %d transport writes (fault in this call: %v)", w, n, len(segs), hitNow)
		}
		if werr != nil && !faultHit {
			return nil, faultHit, fmt.Errorf("Write(%d bytes) = %d, %v although no transport write has failed", w, n, werr)
		}
		if n < 0 || n > w {
			return nil, faultHit, fmt.Errorf("Write(%d bytes) returned n=%d", w, n)
		}
		off += w
	}
	return wire, faultHit, nil
}

func c42DrawFaults(rt *rapid.T) []hFault {
	g := rapid.Custom(func(rt *rapid.T) hFault {
		f := hFault{At: rapid.IntRange(0, 9).Draw(rt, "at"), Keep: -1}
		switch rapid.IntRange(0, 4).Draw(rt, "keepkind") {
		case 0:
			f.Keep = 0
		case 1:
			f.Keep = rapid.IntRange(1, c42Sealed-1).Draw(rt, "keep")
		}
		return f
	})
	return rapid.SliceOfN(g, 1, 3).Draw(rt, "wfaults")
}

// ---------------------------------------------------------------------------
// TestC42_Stream

type c42Adv struct {
	Kind string `json:"kind"` // flip swap replay drop truncate reflect replayauth garbage
	I    int    `json:"i"`
	J    int    `json:"j"`
	Bit  int    `json:"bit"`
}

type c42Stream struct {
	SeedA   uint8    `json:"seed_a"`
	SeedB   uint8    `json:"seed_b"`
	Hand    string   `json:"hand"` // none subeph loworder flipkey flipauth
	HandArg int      `json:"hand_arg"`
	Writes  []int    `json:"writes"`   // A's write sizes
	BWrites []int    `json:"b_writes"` // B's write sizes (reverse direction)
	Reads   []int    `json:"reads"`    // read buffer sizes, cycled
	Adv     []c42Adv `json:"adv"`
	Rounds  int      `json:"rounds"` // clean channel: split the writes into this many write/read rounds
	WFaults []hFault `json:"w_faults,omitempty"` // transport faults under A's writes (no frame adversary then)
}

type c42HS struct {
	sc  *conn.SecretConnection
	err error
}

// c42Handshake runs both handshakes and returns when both have returned. If one side fails the pipe
// is closed so that the other side cannot wait for bytes that will never come.
func c42Handshake(a, b *hConn, ka, kb ed25519.PrivKeyEd25519) (ra, rb c42HS) {
	cha, chb := make(chan c42HS, 1), make(chan c42HS, 1)
	run := func(c *hConn, k ed25519.PrivKeyEd25519, out chan c42HS) {
		var r c42HS
		func() {
			defer func() {
				if p := recover(); p != nil {
					r.err = fmt.Errorf("panic: %v", p)
				}
			}()
			r.sc, r.err = conn.MakeSecretConnection(c, k)
		}()
		if r.err != nil {
			a.Close()
			b.Close()
		}
		out <- r
	}
	go run(a, ka, cha)
	go run(b, kb, chb)
	return <-cha, <-chb
}

func c42Quiesce(a, b *hConn, qs ...*hQueue) {
	a.Close()
	b.Close()
	for _, q := range qs {
		q.waitIdle()
	}
}

func c42StreamExec(ctx *vk.Ctx, c c42Stream) error {
	ka, kb := c42Key(c.SeedA), c42Key(c.SeedB)
	a, b, ab, ba := hPipe()
	defer c42Quiesce(a, b, ab, ba)
	ctx.Class("hand=" + c.Hand)
	switch c.Hand {
	case "subeph", "loworder", "flipkey", "flipauth":
		arg := c.HandArg
		ab.tamper = func(off int, p []byte) []byte {
			for i := range p {
				o := off + i
				switch c.Hand {
				case "subeph":
					sub, _ := c42EphPub(uint8(arg))
					if o >= c42KeyOff && o < c42EphMsg {
						p[i] = sub[o-c42KeyOff]
					}
				case "loworder":
					pt := c42LowOrder[arg%len(c42LowOrder)]
					if arg >= len(c42LowOrder) {
						pt[31] |= 0x80 // same point for X25519, different bytes for a blacklist
					}
					if o >= c42KeyOff && o < c42EphMsg {
						p[i] = pt[o-c42KeyOff]
					}
				case "flipkey": // any bit of the key except bit 255, which X25519 ignores by specification
					bit := arg % 255
					if o == c42KeyOff+bit/8 {
						p[i] ^= 1 << (bit % 8)
					}
				case "flipauth":
					bit := arg % (c42Sealed * 8)
					if o == c42EphMsg+bit/8 {
						p[i] ^= 1 << (bit % 8)
					}
				}
			}
			return p
		}
	}
	ra, rb := c42Handshake(a, b, ka, kb)
	if c.Hand != "none" {
		// the side that received tampered bytes must fail; the other side may have completed, but
		// then it must hold the true peer key
		if rb.err == nil {
			return fmt.Errorf("handshake adversary %s(%d): the receiving side completed the handshake (remote key %X)", c.Hand, c.HandArg, c42Rem(rb.sc))
		}
		if ra.err == nil {
			ctx.Class("other-side-completed")
			if c.Hand != "flipauth" {
				return fmt.Errorf("handshake adversary %s(%d): sender side completed although the peer's keys must differ", c.Hand, c.HandArg)
			}
			if !bytes.Equal(c42Rem(ra.sc), c42Pub(kb)) {
				return fmt.Errorf("handshake adversary %s: sender side authenticated %X, peer key is %X", c.Hand, c42Rem(ra.sc), c42Pub(kb))
			}
		}
		ctx.NT()
		return nil
	}
	if ra.err != nil || rb.err != nil {
		return fmt.Errorf("clean handshake failed: a=%v b=%v", ra.err, rb.err)
	}
	if !bytes.Equal(c42Rem(ra.sc), c42Pub(kb)) || !bytes.Equal(c42Rem(rb.sc), c42Pub(ka)) {
		return fmt.Errorf("authenticated keys wrong: a sees %X (peer %X), b sees %X (peer %X)", c42Rem(ra.sc), c42Pub(kb), c42Rem(rb.sc), c42Pub(ka))
	}
	if n := len(ab.pending()) + len(ba.pending()); n != 0 {
		return fmt.Errorf("%d unread bytes left after the handshake", n)
	}
	hsAB := ab.logged()
	if len(hsAB) != c42EphMsg+c42Sealed {
		return fmt.Errorf("handshake sent %d bytes, protocol says %d", len(hsAB), c42EphMsg+c42Sealed)
	}
	// ---- data phase: everything below runs in this goroutine ----
	ab.setSync(true)
	ba.setSync(true)
	total := 0
	for _, w := range c.Writes {
		total += w
	}
	data := c42Data(total, 0x5a)
	writeAll := func(sc *conn.SecretConnection, data []byte, sizes []int) error {
		off := 0
		for _, w := range sizes {
			n, err := sc.Write(data[off : off+w])
			if err != nil || n != w {
				return fmt.Errorf("Write(%d bytes) = %d, %v", w, n, err)
			}
			off += w
		}
		return nil
	}
	readAll := func(sc *conn.SecretConnection, want int) ([]byte, error) {
		// reads until `want` bytes arrived or an error; returns what was delivered
		var got []byte
		for i := 0; len(got) < want || want < 0; i++ {
			sz := 1
			if len(c.Reads) > 0 {
				sz = c.Reads[i%len(c.Reads)]
			}
			buf := make([]byte, sz)
			n, err := sc.Read(buf)
			got = append(got, buf[:n]...)
			if err != nil {
				return got, err
			}
			if n == 0 {
				return got, fmt.Errorf("harness: Read returned 0, nil")
			}
		}
		return got, nil
	}
	boundary := false
	off := 0
	for _, w := range c.Writes {
		if w > 0 && off/c42DataMax != (off+w-1)/c42DataMax {
			boundary = true
		}
		off += w
	}
	if len(c.Adv) == 0 && len(c.WFaults) == 0 {
		// clean channel, possibly in several write/read rounds, plus the reverse direction
		rounds := c.Rounds
		if rounds < 1 {
			rounds = 1
		}
		per := (len(c.Writes) + rounds - 1) / rounds
		off := 0
		for i := 0; i < len(c.Writes); i += per {
			j := i + per
			if j > len(c.Writes) {
				j = len(c.Writes)
			}
			n := 0
			for _, w := range c.Writes[i:j] {
				n += w
			}
			if err := writeAll(ra.sc, data[off:off+n], c.Writes[i:j]); err != nil {
				return fmt.Errorf("a->b: %v", err)
			}
			got, err := readAll(rb.sc, n)
			if err != nil {
				return fmt.Errorf("a->b clean channel: read error %v after %d of %d bytes", err, len(got), n)
			}
			if !bytes.Equal(got, data[off:off+n]) {
				return fmt.Errorf("a->b clean channel: bytes read differ from bytes written at stream offset %d (round %d..%d)", off+c42Diff(got, data[off:off+n]), i, j)
			}
			off += n
		}
		if n := len(ab.pending()); n != 0 {
			return fmt.Errorf("a->b: %d sealed bytes left unread after all plaintext was delivered", n)
		}
		bt := 0
		for _, w := range c.BWrites {
			bt += w
		}
		bdata := c42Data(bt, 0xc3)
		if err := writeAll(rb.sc, bdata, c.BWrites); err != nil {
			return fmt.Errorf("b->a: %v", err)
		}
		got, err := readAll(ra.sc, bt)
		if err != nil || !bytes.Equal(got, bdata) {
			return fmt.Errorf("b->a clean channel: err=%v, %d of %d bytes, first difference at %d", err, len(got), bt, c42Diff(got, bdata))
		}
		// end of stream is an error, never data
		if got, err := readAll(rb.sc, -1); err == nil || len(got) != 0 {
			return fmt.Errorf("read past the end returned %d bytes, err=%v", len(got), err)
		}
		ctx.NTIf(boundary && total > c42DataMax)
		ctx.ClassIf(total > c42DataMax, "clean-multi-frame")
		ctx.ClassIf(total == 0, "clean-empty")
		return nil
	}
	if len(c.WFaults) > 0 {
		// ---- transport faults under the writer: some transport write puts its bytes (or a prefix) on
		// the wire and reports an error; the writer carries on. The reader may only ever return the
		// plaintext of the frames that are on the wire, in wire order.
		wire, hit, err := c42FaultyWrites(ra.sc, ab, c.WFaults, data, c.Writes)
		if err != nil {
			return fmt.Errorf("a->b with transport faults %+v: %v", c.WFaults, err)
		}
		// What the reader may deliver: it opens the j-th 1044-byte window of the wire under counter
		// nonce j, and the writer sealed its j-th frame under nonce j, so window j is authentic
		// exactly when its bytes are the j-th sealed frame — decided on the real wire bytes (a torn
		// frame whose missing tail happens to equal the head of the next frame IS that frame).
		var stream []byte
		for _, wr := range wire {
			stream = append(stream, wr.seg.b...)
		}
		var onWire []byte
		for j, wr := range wire {
			lo, hi := j*c42Sealed, (j+1)*c42Sealed
			if hi > len(stream) || !bytes.Equal(stream[lo:hi], wr.seg.orig) {
				break // torn or shifted: nothing from here on can be authenticated by the reader
			}
			onWire = append(onWire, wr.chunk...)
		}
		got, rerr := readAll(rb.sc, -1)
		if rerr == nil {
			return fmt.Errorf("harness: reader stopped without error")
		}
		if len(got) > len(onWire) || !bytes.Equal(got, onWire[:len(got)]) {
			return fmt.Errorf("transport faults %+v: reader delivered %d bytes; the intact frames on the wire carry %d bytes; first byte that was not sent in that position: %d; final error %v", c.WFaults, len(got), len(onWire), c42Diff(got, onWire), rerr)
		}
		ctx.NTIf(hit)
		ctx.ClassIf(hit, "write-fault-hit")
		ctx.ClassIf(hit && len(got) == len(onWire), "write-fault-all-authentic-windows-delivered")
		ctx.ClassIf(!hit, "write-fault-beyond-stream")
		return nil
	}
	// ---- adversary on the sealed frames in flight ----
	if err := writeAll(ra.sc, data, c.Writes); err != nil {
		return fmt.Errorf("a->b: %v", err)
	}
	bt := 0
	for _, w := range c.BWrites {
		bt += w
	}
	if err := writeAll(rb.sc, c42Data(bt, 0xc3), c.BWrites); err != nil {
		return fmt.Errorf("b->a: %v", err)
	}
	sealed := ab.pending()
	if len(sealed)%c42Sealed != 0 {
		return fmt.Errorf("a wrote %d sealed bytes: not a multiple of the frame size %d", len(sealed), c42Sealed)
	}
	var orig [][]byte
	for i := 0; i < len(sealed); i += c42Sealed {
		orig = append(orig, sealed[i:i+c42Sealed])
	}
	// payload length of each original frame (from the write sizes: a write of n bytes is cut every 1024)
	var payload []int
	for _, w := range c.Writes {
		for w > 0 {
			k := w
			if k > c42DataMax {
				k = c42DataMax
			}
			payload = append(payload, k)
			w -= k
		}
	}
	if len(payload) != len(orig) {
		return fmt.Errorf("a wrote %d frames for writes %v, framing rule says %d", len(orig), c.Writes, len(payload))
	}
	var reverse [][]byte
	rs := ba.pending()
	for i := 0; i+c42Sealed <= len(rs); i += c42Sealed {
		reverse = append(reverse, rs[i:i+c42Sealed])
	}
	frames := append([][]byte{}, orig...)
	tail := []byte(nil) // partial frame after truncation
	truncated := false
	for _, ad := range c.Adv {
		if truncated {
			break
		}
		n := len(frames)
		ctx.Class("adv=" + ad.Kind)
		switch ad.Kind {
		case "flip":
			if n == 0 {
				continue
			}
			f := append([]byte{}, frames[ad.I%n]...)
			bit := ad.Bit % (c42Sealed * 8)
			f[bit/8] ^= 1 << (bit % 8)
			frames[ad.I%n] = f
		case "swap":
			if n < 2 {
				continue
			}
			i, j := ad.I%n, ad.J%n
			frames[i], frames[j] = frames[j], frames[i]
		case "replay":
			if n == 0 {
				continue
			}
			f := frames[ad.I%n]
			j := ad.J % (n + 1)
			frames = append(frames[:j], append([][]byte{f}, frames[j:]...)...)
		case "drop":
			if n == 0 {
				continue
			}
			i := ad.I % n
			frames = append(frames[:i], frames[i+1:]...)
		case "truncate":
			if n == 0 {
				continue
			}
			i := ad.I % n
			tail = append([]byte{}, frames[i][:ad.J%c42Sealed]...)
			frames = frames[:i]
			truncated = true
		case "reflect":
			if len(reverse) == 0 {
				continue
			}
			j := ad.J % (n + 1)
			frames = append(frames[:j], append([][]byte{reverse[ad.I%len(reverse)]}, frames[j:]...)...)
		case "replayauth":
			j := ad.J % (n + 1)
			frames = append(frames[:j], append([][]byte{hsAB[c42EphMsg:]}, frames[j:]...)...)
		case "garbage":
			j := ad.J % (n + 1)
			g := sha256.Sum256([]byte{byte(ad.I), byte(ad.Bit)})
			f := make([]byte, c42Sealed)
			for k := range f {
				f[k] = g[k%32] ^ byte(k)
			}
			frames = append(frames[:j], append([][]byte{f}, frames[j:]...)...)
		}
	}
	// first position where the stream differs from what a sent
	p := 0
	for p < len(frames) && p < len(orig) && bytes.Equal(frames[p], orig[p]) {
		p++
	}
	untouched := p == len(frames) && p == len(orig) && len(tail) == 0
	var stream []byte
	for _, f := range frames {
		stream = append(stream, f...)
	}
	stream = append(stream, tail...)
	ab.setPending(stream)
	wantBytes := 0
	for _, k := range payload[:p] {
		wantBytes += k
	}
	got, err := readAll(rb.sc, -1)
	if err == nil {
		return fmt.Errorf("harness: reader stopped without error")
	}
	if len(got) > wantBytes || !bytes.Equal(got, data[:len(got)]) {
		return fmt.Errorf("adversary %+v: reader delivered %d bytes; only the first %d frames (%d bytes) were untouched; first byte differing from the sent stream at %d; final error %v", c.Adv, len(got), p, wantBytes, c42Diff(got, data), err)
	}
	if len(got) != wantBytes {
		return fmt.Errorf("adversary %+v: %d untouched frames (%d bytes) precede the first edit, but only %d bytes were delivered before %v", c.Adv, p, wantBytes, len(got), err)
	}
	if untouched && err != io.EOF && err != io.ErrUnexpectedEOF {
		return fmt.Errorf("adversary actions cancelled out, yet the stream ended with %v", err)
	}
	ctx.NTIf(!untouched && p > 0)
	ctx.ClassIf(untouched, "adv-no-net-change")
	ctx.ClassIf(!untouched && p == 0, "adv-first-frame")
	ctx.ClassIf(!untouched && p > 0, "adv-after-valid-prefix")
	return nil
}

func c42Diff(a, b []byte) int {
	for i := 0; i < len(a) && i < len(b); i++ {
		if a[i] != b[i] {
			return i
		}
	}
	if len(a) < len(b) {
		return len(a)
	}
	return len(b)
}

func c42Sizes(rt *rapid.T, label string, maxTotal int) []int {
	n := rapid.IntRange(0, 8).Draw(rt, label+"n")
	var out []int
	total := 0
	for i := 0; i < n; i++ {
		var w int
		switch rapid.IntRange(0, 7).Draw(rt, label+"kind") {
		case 0:
			w = c42DataMax + rapid.IntRange(-2, 2).Draw(rt, label+"d")
		case 1:
			w = 2*c42DataMax + rapid.IntRange(-2, 2).Draw(rt, label+"d2")
		case 2:
			w = rapid.IntRange(1, 3).Draw(rt, label+"s")
		case 3:
			w = rapid.IntRange(3000, 9000).Draw(rt, label+"l")
		case 4:
			// complete the current frame exactly, or miss it by one
			rest := c42DataMax - total%c42DataMax
			w = rest + rapid.IntRange(-1, 1).Draw(rt, label+"e")
		default:
			w = rapid.IntRange(1, 1500).Draw(rt, label+"m")
		}
		if w < 1 {
			w = 1
		}
		if total+w > maxTotal {
			break
		}
		total += w
		out = append(out, w)
	}
	return out
}

func c42StreamDraw(rt *rapid.T) c42Stream {
	var c c42Stream
	c.SeedA = uint8(rapid.IntRange(0, 255).Draw(rt, "seedA"))
	c.SeedB = uint8(rapid.IntRange(0, 255).Draw(rt, "seedB"))
	c.Hand = "none"
	if rapid.IntRange(0, 4).Draw(rt, "handkind") == 0 {
		c.Hand = rapid.SampledFrom([]string{"subeph", "loworder", "flipkey", "flipauth"}).Draw(rt, "hand")
		switch c.Hand {
		case "loworder":
			c.HandArg = rapid.IntRange(0, 2*len(c42LowOrder)-1).Draw(rt, "pt")
		case "flipauth":
			c.HandArg = rapid.IntRange(0, c42Sealed*8-1).Draw(rt, "bit")
		default:
			c.HandArg = rapid.IntRange(0, 254).Draw(rt, "arg")
		}
		return c
	}
	c.Writes = c42Sizes(rt, "w", 20000)
	c.BWrites = c42Sizes(rt, "bw", 4000)
	nr := rapid.IntRange(1, 4).Draw(rt, "nreads")
	for i := 0; i < nr; i++ {
		switch rapid.IntRange(0, 4).Draw(rt, "rkind") {
		case 0:
			c.Reads = append(c.Reads, c42DataMax+rapid.IntRange(-1, 1).Draw(rt, "rd"))
		case 1:
			c.Reads = append(c.Reads, rapid.IntRange(1, 4).Draw(rt, "rs"))
		case 2:
			c.Reads = append(c.Reads, rapid.IntRange(2000, 5000).Draw(rt, "rl"))
		default:
			c.Reads = append(c.Reads, rapid.IntRange(1, 1500).Draw(rt, "rm"))
		}
	}
	if rapid.IntRange(0, 4).Draw(rt, "faultkind") == 0 {
		c.WFaults = c42DrawFaults(rt)
		return c
	}
	if rapid.Bool().Draw(rt, "attack") {
		advGen := rapid.Custom(func(rt *rapid.T) c42Adv {
			return c42Adv{
				Kind: rapid.SampledFrom([]string{"flip", "flip", "swap", "replay", "drop", "truncate", "reflect", "replayauth", "garbage"}).Draw(rt, "kind"),
				I:    rapid.IntRange(0, 40).Draw(rt, "i"),
				J:    rapid.IntRange(0, 2000).Draw(rt, "j"),
				Bit:  rapid.IntRange(0, c42Sealed*8-1).Draw(rt, "bit"),
			}
		})
		c.Adv = rapid.SliceOfN(advGen, 1, 3).Draw(rt, "adv")
	} else {
		c.Rounds = rapid.IntRange(1, 4).Draw(rt, "rounds")
	}
	return c
}

func TestC42_Stream(t *testing.T) {
	vk.Run(t, vk.Spec[c42Stream]{
		ID: "C42", Name: "TestC42_Stream",
		Rule: "rapid: two SecretConnection endpoints over the harness pipe; identity keys from seeds; A writes 0-20 KB in 0-8 writes sized around the 1024-byte frame (exact, +-1, 2x, tiny, several KB), B reads with 1-4 cycled buffer sizes (1..5000), B also writes back; adversary either on the handshake (ephemeral key replaced by another valid key or by a low-order point with/without the ignored top bit, one key bit flipped, one bit of the sealed auth frame flipped) or 1-3 edits of the sealed frames queued in the pipe (bit flip, swap, replay, drop, truncate mid-frame, reflect a frame of the reverse direction, replay the handshake auth frame, garbage frame), or 1-3 transport faults under the writer (the k-th transport write puts all / a prefix / none of its bytes on the wire and reports an error, the writer carries on): the reader may only return plaintext of intact wire frames in wire order; non-trivial = a transport fault that was hit, clean stream crossing a frame boundary inside a write, an edit placed after >=1 valid frame, or any handshake attack",
		Draw: c42StreamDraw,
		Exec: c42StreamExec,
	})
}

// ---------------------------------------------------------------------------
// TestC42_RawPeer — an independent implementation of the wire protocol.

type c42Raw struct {
	SeedA    uint8  `json:"seed_a"`   // identity of the implementation endpoint
	SeedR    uint8  `json:"seed_r"`   // identity of the raw peer
	SeedEph  uint8  `json:"seed_eph"` // raw peer's ephemeral key
	Attack   string `json:"attack"`   // none badsig-challenge badsig-key badsig-bit relay loworder shortsig
	Arg      int    `json:"arg"`
	Writes   []int  `json:"writes"`   // endpoint -> raw peer
	RFrames  []int  `json:"r_frames"` // raw peer -> endpoint: payload length of each frame (0..1024)
	Reads    []int  `json:"reads"`
	BadFrame string `json:"bad_frame"` // none | overlen | wrongnonce | wrongkey
	BadAt    int    `json:"bad_at"`
	WFaults  []hFault `json:"w_faults,omitempty"` // transport faults under the endpoint's writes
}

type c42RawSession struct {
	send, recv       [32]byte
	challenge        [32]byte
	sendN, recvN     uint64
	remEph, locEph   [32]byte
}

func c42Derive(locPriv, locPub, remPub [32]byte) (*c42RawSession, error) {
	dh, err := curve25519.X25519(locPriv[:], remPub[:])
	if err != nil {
		return nil, err
	}
	r := hkdf.New(sha256.New, dh, nil, []byte("TENDERMINT_SECRET_CONNECTION_KEY_AND_CHALLENGE_GEN"))
	var out [96]byte
	if _, err := io.ReadFull(r, out[:]); err != nil {
		return nil, err
	}
	s := &c42RawSession{remEph: remPub, locEph: locPub}
	copy(s.challenge[:], out[64:])
	if bytes.Compare(locPub[:], remPub[:]) < 0 { // the side with the smaller ephemeral key receives with key 1
		copy(s.recv[:], out[:32])
		copy(s.send[:], out[32:64])
	} else {
		copy(s.send[:], out[:32])
		copy(s.recv[:], out[32:64])
	}
	return s, nil
}

func c42Nonce(n uint64) []byte {
	b := make([]byte, 12)
	binary.LittleEndian.PutUint64(b[4:], n)
	return b
}

func (s *c42RawSession) seal(payload []byte, declared int, key [32]byte, nonce uint64) []byte {
	frame := make([]byte, c42Frame)
	binary.LittleEndian.PutUint32(frame, uint32(declared))
	copy(frame[4:], payload)
	aead, _ := chacha20poly1305.New(key[:])
	return aead.Seal(nil, c42Nonce(nonce), frame, nil)
}

func (s *c42RawSession) open(sealed []byte) ([]byte, error) {
	aead, _ := chacha20poly1305.New(s.recv[:])
	frame, err := aead.Open(nil, c42Nonce(s.recvN), sealed, nil)
	if err != nil {
		return nil, err
	}
	s.recvN++
	n := binary.LittleEndian.Uint32(frame)
	if n > c42DataMax {
		return nil, fmt.Errorf("declared length %d", n)
	}
	for _, b := range frame[4+n:] {
		if b != 0 {
			// padding content is not specified; note only
			break
		}
	}
	return frame[4 : 4+n], nil
}

func c42AuthMsg(pub []byte, sig []byte) []byte {
	body := append([]byte{0x0a, byte(len(pub))}, pub...)
	body = append(body, 0x12, byte(len(sig)))
	body = append(body, sig...)
	return append([]byte{byte(len(body))}, body...)
}

// c42ReadN reads exactly n bytes from q (blocking queue) or fails.
func c42ReadN(q *hQueue, n int) ([]byte, error) {
	buf := make([]byte, n)
	_, err := io.ReadFull(q, buf)
	return buf, err
}

// c42RawHandshake speaks the protocol to the endpoint behind (toEP, fromEP) up to and including the
// exchange of the auth messages. authOverride, if set, builds the auth message the raw peer sends.
func c42RawHandshake(toEP, fromEP *hQueue, ephPub, ephPriv [32]byte, sendEph [32]byte, auth func(s *c42RawSession) []byte) (s *c42RawSession, epPub, epSig []byte, err error) {
	if _, err = toEP.Write(append([]byte{0x22, 0x0a, 0x20}, sendEph[:]...)); err != nil {
		return
	}
	m, err := c42ReadN(fromEP, c42EphMsg)
	if err != nil {
		return nil, nil, nil, fmt.Errorf("reading the endpoint's ephemeral key: %w", err)
	}
	if m[0] != 0x22 || m[1] != 0x0a || m[2] != 0x20 {
		return nil, nil, nil, fmt.Errorf("ephemeral key message has header % x, protocol says 22 0a 20", m[:3])
	}
	var rem [32]byte
	copy(rem[:], m[3:])
	s, err = c42Derive(ephPriv, ephPub, rem)
	if err != nil {
		return nil, nil, nil, err
	}
	if _, err = toEP.Write(s.seal(auth(s), len(auth(s)), s.send, s.sendN)); err != nil {
		return
	}
	s.sendN++
	sealed, err := c42ReadN(fromEP, c42Sealed)
	if err != nil {
		return s, nil, nil, fmt.Errorf("reading the endpoint's auth frame: %w", err)
	}
	plain, err := s.open(sealed)
	if err != nil {
		return s, nil, nil, fmt.Errorf("endpoint's auth frame does not open with the derived key: %w", err)
	}
	if len(plain) != 101 || plain[0] != 100 || plain[1] != 0x0a || plain[2] != 32 || plain[35] != 0x12 || plain[36] != 64 {
		return s, nil, nil, fmt.Errorf("auth message layout unexpected: % x", plain)
	}
	return s, plain[3:35], plain[37:101], nil
}

func c42RawExec(ctx *vk.Ctx, c c42Raw) error {
	ka, kr := c42Key(c.SeedA), c42Key(c.SeedR)
	ep, peer, toPeer, toEP := hPipe() // ep writes toPeer, reads toEP
	defer c42Quiesce(ep, peer, toPeer, toEP)
	ctx.Class("attack=" + c.Attack)
	ephPub, ephPriv := c42EphPub(c.SeedEph)
	sendEph := ephPub
	honestAuth := func(s *c42RawSession) []byte {
		sig, _ := kr.Sign(s.challenge[:])
		return c42AuthMsg(c42Pub(kr), sig)
	}
	auth := honestAuth
	switch c.Attack {
	case "badsig-challenge": // valid signature by the claimed key, over a different challenge
		auth = func(s *c42RawSession) []byte {
			ch := s.challenge
			ch[c.Arg%32] ^= 1 << (c.Arg % 8)
			sig, _ := kr.Sign(ch[:])
			return c42AuthMsg(c42Pub(kr), sig)
		}
	case "badsig-key": // claims another identity, signs with its own key
		auth = func(s *c42RawSession) []byte {
			sig, _ := kr.Sign(s.challenge[:])
			return c42AuthMsg(c42Pub(c42Key(c.SeedR+1)), sig)
		}
	case "badsig-bit":
		auth = func(s *c42RawSession) []byte {
			sig, _ := kr.Sign(s.challenge[:])
			sig[c.Arg%64] ^= 1 << (c.Arg % 8)
			return c42AuthMsg(c42Pub(kr), sig)
		}
	case "shortsig":
		auth = func(s *c42RawSession) []byte {
			sig, _ := kr.Sign(s.challenge[:])
			return c42AuthMsg(c42Pub(kr), sig[:c.Arg%64])
		}
	case "loworder":
		sendEph = c42LowOrder[c.Arg%len(c42LowOrder)]
		if c.Arg >= len(c42LowOrder) {
			sendEph[31] |= 0x80
		}
	case "relay":
		// man in the middle: obtain a victim's signed identity in one session and present it in another
		victim := c42Key(c.SeedR + 7)
		v, m, toM, toV := hPipe()
		vch := make(chan c42HS, 1)
		go func() {
			sc, err := conn.MakeSecretConnection(v, victim)
			vch <- c42HS{sc, err}
		}()
		mPub, mPriv := c42EphPub(c.SeedEph + 1)
		_, vPub, vSig, err := c42RawHandshake(toV, toM, mPub, mPriv, mPub, honestAuth)
		c42Quiesce(v, m, toM, toV)
		<-vch
		if err != nil {
			return fmt.Errorf("relay: session with the victim: %v", err)
		}
		if !bytes.Equal(vPub, c42Pub(victim)) {
			return fmt.Errorf("relay: victim presented key %X, its key is %X", vPub, c42Pub(victim))
		}
		auth = func(s *c42RawSession) []byte { return c42AuthMsg(vPub, vSig) }
	}
	ch := make(chan c42HS, 1)
	go func() {
		var r c42HS
		func() {
			defer func() {
				if p := recover(); p != nil {
					r.err = fmt.Errorf("panic: %v", p)
				}
			}()
			r.sc, r.err = conn.MakeSecretConnection(ep, ka)
		}()
		if r.err != nil {
			ep.Close()
		}
		ch <- r
	}()
	s, epPub, epSig, herr := c42RawHandshake(toEP, toPeer, ephPub, ephPriv, sendEph, auth)
	if c.Attack != "none" {
		// the endpoint must refuse; make sure it is not left waiting, then collect its verdict
		if herr != nil {
			ctx.Class("raw-side-saw-failure")
		}
		peer.Close() // nothing more will come
		r := <-ch
		if r.err == nil {
			return fmt.Errorf("attack %s(%d): endpoint completed the handshake and reports remote key %X", c.Attack, c.Arg, c42Rem(r.sc))
		}
		ctx.NT()
		return nil
	}
	r := <-ch
	if herr != nil || r.err != nil {
		return fmt.Errorf("honest raw handshake failed: raw side %v, endpoint %v", herr, r.err)
	}
	if !bytes.Equal(c42Rem(r.sc), c42Pub(kr)) {
		return fmt.Errorf("endpoint authenticated %X, raw peer's identity is %X", c42Rem(r.sc), c42Pub(kr))
	}
	if !bytes.Equal(epPub, c42Pub(ka)) || !ka.PubKey().VerifyBytes(s.challenge[:], epSig) {
		return fmt.Errorf("endpoint's auth message: key %X (identity %X), signature over the challenge valid=%v", epPub, c42Pub(ka), ka.PubKey().VerifyBytes(s.challenge[:], epSig))
	}
	// ---- data, single goroutine from here ----
	toEP.setSync(true)
	toPeer.setSync(true)
	total := 0
	for _, w := range c.Writes {
		total += w
	}
	data := c42Data(total, 0x17)
	// Every transport write is observed on the wire. Each complete sealed frame - also one whose
	// transport write was reported as failed - must open under the session key with a counter nonce
	// that is larger than every nonce seen before (never two wire frames under one nonce) and must
	// carry exactly the plaintext chunk the endpoint was writing. Without faults that also pins the
	// exact framing (ceil(n/1024) frames per Write) and the consecutive nonce sequence.
	wire, hit, err := c42FaultyWrites(r.sc, toPeer, c.WFaults, data, c.Writes)
	if err != nil {
		return fmt.Errorf("endpoint->raw (transport faults %+v): %v", c.WFaults, err)
	}
	aead, _ := chacha20poly1305.New(s.recv[:])
	last := uint64(0) // nonce 0 sealed the auth frame
	torn := 0
	for i, wr := range wire {
		if len(wr.seg.b) != c42Sealed {
			torn++
			continue
		}
		found, nonce := false, uint64(0)
		var frame []byte
		for k := uint64(0); k <= last+uint64(torn)+3; k++ {
			if f, err := aead.Open(nil, c42Nonce(k), wr.seg.b, nil); err == nil {
				found, nonce, frame = true, k, f
				break
			}
		}
		if !found {
			return fmt.Errorf("wire frame %d (stream offset %d) opens under no counter nonce <= %d with the session key (faults %+v)", i, wr.off, last+uint64(torn)+3, c.WFaults)
		}
		if nonce <= last {
			return fmt.Errorf("nonce reuse: wire frame %d (stream offset %d, transport write failed=%v) is sealed under counter %d, which already sealed an earlier frame on the wire (last counter used %d; faults %+v)", i, wr.off, wr.seg.failed, nonce, last, c.WFaults)
		}
		if !hit && nonce != last+1 {
			return fmt.Errorf("wire frame %d sealed under counter %d, expected %d", i, nonce, last+1)
		}
		last = nonce
		n := binary.LittleEndian.Uint32(frame)
		if int(n) != len(wr.chunk) || !bytes.Equal(frame[4:4+n], wr.chunk) {
			return fmt.Errorf("wire frame %d for stream offset %d declares %d bytes, the endpoint was writing %d there; first difference at %d", i, wr.off, n, len(wr.chunk), c42Diff(frame[4:], wr.chunk))
		}
		if len(wr.chunk) >= 16 && bytes.Contains(wr.seg.b, wr.chunk[:16]) {
			return fmt.Errorf("sealed frame for stream offset %d contains its plaintext", wr.off)
		}
	}
	toPeer.setPending(nil)
	ctx.ClassIf(hit, "write-fault-hit")
	ctx.ClassIf(hit && torn > 0, "write-fault-torn-frame")
	ctx.ClassIf(len(c.WFaults) > 0 && !hit, "write-fault-beyond-stream")
	ctx.ClassIf(total > c42DataMax, "ep-to-raw-multi-frame")
	// raw -> endpoint: frames with chosen payload lengths (incl. 0 and 1024), then possibly a bad frame
	var want []byte
	badAt := -1
	if c.BadFrame != "none" && c.BadFrame != "" {
		badAt = c.BadAt % (len(c.RFrames) + 1)
	}
	var stream []byte
	for i := 0; i <= len(c.RFrames); i++ {
		if i == badAt {
			pl := c42Data(10, 0x99)
			switch c.BadFrame {
			case "overlen": // authentic frame whose declared length exceeds the maximum
				stream = append(stream, s.seal(pl, c42DataMax+1+c.Arg%1000, s.send, s.sendN)...)
			case "wrongnonce":
				stream = append(stream, s.seal(pl, len(pl), s.send, s.sendN+1+uint64(c.Arg%3))...)
			case "wrongkey": // sealed with the key of the other direction
				stream = append(stream, s.seal(pl, len(pl), s.recv, s.sendN)...)
			}
			break
		}
		if i == len(c.RFrames) {
			break
		}
		pl := c42Data(c.RFrames[i], byte(i))
		stream = append(stream, s.seal(pl, len(pl), s.send, s.sendN)...)
		s.sendN++
		want = append(want, pl...)
	}
	toEP.setPending(stream)
	var got []byte
	var rerr error
	for i := 0; ; i++ {
		sz := 1
		if len(c.Reads) > 0 {
			sz = c.Reads[i%len(c.Reads)]
		}
		buf := make([]byte, sz)
		n, err := r.sc.Read(buf)
		got = append(got, buf[:n]...)
		if err != nil {
			rerr = err
			break
		}
		if i > len(want)+len(c.RFrames)+8 {
			return fmt.Errorf("reader makes no progress: %d reads, %d bytes", i, len(got))
		}
	}
	if !bytes.Equal(got, want) {
		return fmt.Errorf("raw->endpoint: delivered %d bytes, want %d (frames %v, bad frame %s at %d); first difference at %d; final error %v", len(got), len(want), c.RFrames, c.BadFrame, badAt, c42Diff(got, want), rerr)
	}
	if badAt >= 0 && (rerr == io.EOF || rerr == io.ErrUnexpectedEOF) {
		return fmt.Errorf("bad frame %s at %d was consumed silently: stream ended with %v", c.BadFrame, badAt, rerr)
	}
	ctx.ClassIf(badAt >= 0, "bad-frame="+c.BadFrame)
	zero := false
	for _, f := range c.RFrames {
		zero = zero || f == 0
	}
	ctx.ClassIf(zero, "zero-length-frame")
	ctx.NTIf(total > 0 || len(c.RFrames) > 0)
	return nil
}

func c42RawDraw(rt *rapid.T) c42Raw {
	var c c42Raw
	c.SeedA = uint8(rapid.IntRange(0, 255).Draw(rt, "seedA"))
	c.SeedR = uint8(rapid.IntRange(0, 255).Draw(rt, "seedR"))
	c.SeedEph = uint8(rapid.IntRange(0, 255).Draw(rt, "seedEph"))
	c.Attack = "none"
	c.BadFrame = "none"
	if rapid.IntRange(0, 2).Draw(rt, "attackkind") == 0 {
		c.Attack = rapid.SampledFrom([]string{"badsig-challenge", "badsig-key", "badsig-bit", "shortsig", "relay", "loworder"}).Draw(rt, "attack")
		c.Arg = rapid.IntRange(0, 511).Draw(rt, "arg")
		if c.Attack == "loworder" {
			c.Arg = rapid.IntRange(0, 2*len(c42LowOrder)-1).Draw(rt, "pt")
		}
		return c
	}
	c.Writes = c42Sizes(rt, "w", 12000)
	nf := rapid.IntRange(0, 6).Draw(rt, "nframes")
	for i := 0; i < nf; i++ {
		switch rapid.IntRange(0, 4).Draw(rt, "fkind") {
		case 0:
			c.RFrames = append(c.RFrames, 0)
		case 1:
			c.RFrames = append(c.RFrames, c42DataMax-rapid.IntRange(0, 1).Draw(rt, "fd"))
		default:
			c.RFrames = append(c.RFrames, rapid.IntRange(1, c42DataMax).Draw(rt, "fl"))
		}
	}
	nr := rapid.IntRange(1, 3).Draw(rt, "nreads")
	for i := 0; i < nr; i++ {
		c.Reads = append(c.Reads, rapid.SampledFrom([]int{1, 2, 7, 512, 1023, 1024, 1025, 3000}).Draw(rt, "r"))
	}
	if rapid.IntRange(0, 2).Draw(rt, "wfaultkind") == 0 {
		c.WFaults = c42DrawFaults(rt)
	}
	if rapid.IntRange(0, 2).Draw(rt, "badkind") == 0 {
		c.BadFrame = rapid.SampledFrom([]string{"overlen", "wrongnonce", "wrongkey"}).Draw(rt, "bad")
		c.BadAt = rapid.IntRange(0, 6).Draw(rt, "badat")
		c.Arg = rapid.IntRange(0, 999).Draw(rt, "arg")
	}
	return c
}

func TestC42_RawPeer(t *testing.T) {
	vk.Run(t, vk.Spec[c42Raw]{
		ID: "C42", Name: "TestC42_RawPeer",
		Rule: "rapid: one SecretConnection endpoint against an independent implementation of the wire protocol (hand-encoded messages, X25519+HKDF-SHA256 key schedule, ChaCha20-Poly1305 frames with counter nonces); honest sessions check mutual authentication, the endpoint's signature over the derived challenge, exact framing and nonce sequence of every write, under 1-3 drawn transport write faults (bytes reach the wire fully or partly, the write reports an error, the endpoint keeps writing) that every complete frame on the wire opens under a strictly larger counter nonce than all before it (no nonce reuse) and carries the chunk being written, that sealed bytes do not contain the plaintext, and delivery of raw-made frames of length 0..1024 followed optionally by an authentic over-length frame, a wrong-nonce frame or a frame under the other direction's key; attack sessions present a signature over another challenge, another identity, a corrupted or short signature, a signed identity relayed from a different session (man in the middle), or a low-order ephemeral point with/without the ignored top bit; non-trivial = an attack session, or an honest session that carried data",
		Draw: c42RawDraw,
		Exec: c42RawExec,
	})
}
