package p2p

import (
	"bytes"
	"errors"
	"fmt"
	"testing"

	abcicli "github.com/gnolang/gno/tm2/pkg/bft/abci/client"
	abci "github.com/gnolang/gno/tm2/pkg/bft/abci/types"
	"github.com/gnolang/gno/tm2/pkg/bft/mempool"
	mcfg "github.com/gnolang/gno/tm2/pkg/bft/mempool/config"
	"github.com/gnolang/gno/tm2/pkg/bft/types"
	"pgregory.net/rapid"
	"verif/vk"
)

// C40 — the mempool never duplicates, loses order or over-reaps.
//
// Model-based: an ordered list of transaction ids is kept beside a real
// CListMempool that talks to a scripted ABCI application through the local
// (synchronous) ABCI client. With that client every callback runs inside the
// call that triggers it, so an op sequence is exactly one interleaving allowed
// by the mempool mutex. The model is driven by the *reported* outcome of
// CheckTx (nil / error) and by the documented limits; it never models the LRU
// policy of the cache.

type c40Cfg struct {
	Size       int   `json:"size"`
	MaxBytes   int64 `json:"max_bytes"`
	Cache      int   `json:"cache"`
	Recheck    bool  `json:"recheck"`
	MaxTxBytes int64 `json:"max_tx_bytes"`
}

type c40Limit struct {
	Kind  string `json:"kind"`  // "nocap" | "prefix" | "abs"
	K     int    `json:"k"`     // prefix: number of leading model txs whose sum is the base
	Delta int64  `json:"delta"` // prefix: added to the base
	Abs   int64  `json:"abs"`
}

type c40Op struct {
	K string `json:"k"` // check | update | reapbg | reapn | flush
	// check
	Tx  int   `json:"tx,omitempty"`
	OK  bool  `json:"ok,omitempty"`
	Gas int64 `json:"gas,omitempty"`
	Burst int `json:"burst,omitempty"` // check: also submit the next Burst txs of the universe (same verdict, gas+i)
	// update
	CommitFront int    `json:"commit_front,omitempty"` // commit the first n txs of the pool ...
	SkipFront   int    `json:"skip_front,omitempty"`   // ... after skipping this many (evil proposer / middle removal)
	Commit      []int  `json:"commit,omitempty"`       // plus these universe txs
	CommitBad   []int  `json:"commit_bad,omitempty"`   // committed txs whose DeliverTx result is an error
	Invalid     []int  `json:"invalid,omitempty"`      // txs the app rejects when rechecked
	NewMaxTx    int64  `json:"new_max_tx,omitempty"`   // 0 = keep
	SetPre      bool   `json:"set_pre,omitempty"`
	Pre         []int  `json:"pre,omitempty"` // new preCheck rejects exactly these txs
	B *c40Limit `json:"b,omitempty"`
	G *c40Limit `json:"g,omitempty"`
	// reapn: "all" (-1) | "abs" N | "size" (size+N)
	NKind string `json:"nkind,omitempty"`
	N     int    `json:"n,omitempty"`
}

type c40Case struct {
	Cfg    c40Cfg  `json:"cfg"`
	TxLens []int   `json:"tx_lens"`
	Ops    []c40Op `json:"ops"`
}

func c40Tx(i, n int) types.Tx {
	b := make([]byte, n)
	for j := range b {
		b[j] = byte(i + 1)
	}
	return b
}

var errC40Pre = errors.New("c40 precheck rejects")

type c40App struct {
	abci.BaseApplication
	ok      bool
	gas     int64
	invalid map[string]bool
	nNew    int
	nRe     int
	reTxs   [][]byte
}

func (a *c40App) CheckTx(req abci.RequestCheckTx) abci.ResponseCheckTx {
	if req.Type == abci.CheckTxTypeRecheck {
		a.nRe++
		a.reTxs = append(a.reTxs, append([]byte{}, req.Tx...))
		if a.invalid[string(req.Tx)] {
			return abci.ResponseCheckTx{ResponseBase: abci.ResponseBase{Error: abci.StringError("recheck: invalid now")}}
		}
		return abci.ResponseCheckTx{GasWanted: 1 << 50} // a recheck must not change the recorded gas
	}
	a.nNew++
	if !a.ok {
		return abci.ResponseCheckTx{ResponseBase: abci.ResponseBase{Error: abci.StringError("rejected")}, GasWanted: a.gas}
	}
	return abci.ResponseCheckTx{GasWanted: a.gas}
}

func c40Draw(rt *rapid.T) c40Case {
	var c c40Case
	k := rapid.IntRange(2, 12).Draw(rt, "ntx")
	c.Cfg.MaxTxBytes = int64(rapid.IntRange(3, 24).Draw(rt, "maxtx"))
	for i := 0; i < k; i++ {
		var n int
		switch rapid.IntRange(0, 9).Draw(rt, "lenkind") {
		case 0:
			n = int(c.Cfg.MaxTxBytes) + rapid.IntRange(0, 2).Draw(rt, "over")
		case 1:
			n = 1
		default:
			n = rapid.IntRange(1, int(c.Cfg.MaxTxBytes)).Draw(rt, "len")
		}
		c.TxLens = append(c.TxLens, n)
	}
	if rapid.IntRange(0, 1).Draw(rt, "sizekind") == 0 {
		c.Cfg.Size = 1000
	} else {
		c.Cfg.Size = rapid.IntRange(1, 9).Draw(rt, "size")
	}
	if rapid.IntRange(0, 1).Draw(rt, "byteskind") == 0 {
		c.Cfg.MaxBytes = 1 << 30
	} else {
		c.Cfg.MaxBytes = int64(rapid.IntRange(4, 120).Draw(rt, "maxbytes"))
	}
	if rapid.IntRange(0, 3).Draw(rt, "cachekind") == 0 {
		c.Cfg.Cache = rapid.IntRange(0, 3).Draw(rt, "cache")
	} else {
		c.Cfg.Cache = k + 2 + rapid.IntRange(0, 5).Draw(rt, "cacheextra")
	}
	c.Cfg.Recheck = rapid.IntRange(0, 3).Draw(rt, "recheck") != 0
	subset := func(label string, max int) []int {
		return rapid.SliceOfNDistinct(rapid.IntRange(0, k-1), 0, max, func(i int) int { return i }).Draw(rt, label)
	}
	limit := func(label string, allowZero bool) *c40Limit {
		switch rapid.IntRange(0, 5).Draw(rt, label+"kind") {
		case 0:
			return &c40Limit{Kind: "nocap"}
		case 1:
			lo := int64(1)
			if allowZero {
				lo = 0
			}
			return &c40Limit{Kind: "abs", Abs: rapid.Int64Range(lo, 40).Draw(rt, label+"abs")}
		default:
			return &c40Limit{Kind: "prefix", K: rapid.IntRange(0, 4).Draw(rt, label+"k"), Delta: rapid.Int64Range(-1, 1).Draw(rt, label+"d")}
		}
	}
	opGen := rapid.Custom(func(rt *rapid.T) c40Op {
		var op c40Op
		switch w := rapid.IntRange(0, 99).Draw(rt, "opkind"); {
		case w < 45:
			op.K = "check"
			op.Tx = rapid.IntRange(0, k-1).Draw(rt, "tx")
			op.OK = rapid.IntRange(0, 7).Draw(rt, "verdict") != 0
			switch rapid.IntRange(0, 5).Draw(rt, "gaskind") {
			case 0:
				op.Gas = 0
			case 1:
				op.Gas = 1 << 40
			default:
				op.Gas = rapid.Int64Range(1, 10).Draw(rt, "gas")
			}
			if rapid.IntRange(0, 2).Draw(rt, "burstkind") == 0 {
				op.Burst = rapid.IntRange(1, 6).Draw(rt, "burst")
			}
		case w < 60:
			op.K = "update"
			op.CommitFront = rapid.IntRange(0, 3).Draw(rt, "front")
			if rapid.IntRange(0, 2).Draw(rt, "skipkind") == 0 {
				op.SkipFront = rapid.IntRange(1, 2).Draw(rt, "skip")
			}
			op.Commit = subset("commit", 3)
			op.CommitBad = subset("commitbad", 2)
			op.Invalid = subset("invalid", 3)
			if rapid.IntRange(0, 4).Draw(rt, "maxtxkind") == 0 {
				op.NewMaxTx = int64(rapid.IntRange(1, 26).Draw(rt, "newmaxtx"))
			}
			if rapid.IntRange(0, 4).Draw(rt, "prekind") == 0 {
				op.SetPre = true
				op.Pre = subset("pre", 3)
			}
		case w < 82:
			op.K = "reapbg"
			op.B = limit("b", false)
			op.G = limit("g", true)
		case w < 96:
			op.K = "reapn"
			switch rapid.IntRange(0, 3).Draw(rt, "nkind") {
			case 0:
				op.NKind = "all"
			case 1:
				op.NKind = "abs"
				op.N = rapid.IntRange(0, 8).Draw(rt, "n")
			default:
				op.NKind = "size"
				op.N = rapid.IntRange(-2, 1).Draw(rt, "nd")
			}
		default:
			op.K = "flush"
		}
		return op
	})
	c.Ops = rapid.SliceOfN(opGen, 1, 50).Draw(rt, "ops")
	return c
}

type c40Model struct {
	pool      []int
	gas       map[int]int64 // gas recorded at admission (index in universe)
	pre       map[int]bool
	maxTx     int64
	everCache map[int]bool
}

func (m *c40Model) bytes(lens []int) int64 {
	var s int64
	for _, t := range m.pool {
		s += int64(lens[t])
	}
	return s
}

func (m *c40Model) has(t int) bool {
	for _, x := range m.pool {
		if x == t {
			return true
		}
	}
	return false
}

func (m *c40Model) remove(t int) bool {
	for i, x := range m.pool {
		if x == t {
			m.pool = append(append([]int{}, m.pool[:i]...), m.pool[i+1:]...)
			return true
		}
	}
	return false
}

func c40Exec(ctx *vk.Ctx, c c40Case) (err error) {
	k := len(c.TxLens)
	txs := make([]types.Tx, k)
	idx := map[string]int{}
	for i := range txs {
		txs[i] = c40Tx(i, c.TxLens[i])
		idx[string(txs[i])] = i
	}
	probe := types.Tx{0xEE} // never part of the universe (universe bytes are 1..12)
	app := &c40App{}
	cli := abcicli.NewLocalClient(nil, app)
	if err := cli.Start(); err != nil {
		return fmt.Errorf("harness: local client start: %v", err)
	}
	defer cli.Stop()
	cfg := mcfg.DefaultMempoolConfig()
	cfg.Size, cfg.MaxPendingTxsBytes, cfg.CacheSize, cfg.Recheck = c.Cfg.Size, c.Cfg.MaxBytes, c.Cfg.Cache, c.Cfg.Recheck
	if err := cfg.ValidateBasic(); err != nil {
		return fmt.Errorf("harness: generated config invalid: %v", err)
	}
	mem := mempool.NewCListMempool(cfg, cli, 0, c.Cfg.MaxTxBytes)
	m := &c40Model{gas: map[int]int64{}, pre: map[int]bool{}, maxTx: c.Cfg.MaxTxBytes, everCache: map[int]bool{}}
	ample := c.Cfg.Cache >= k+2
	ctx.ClassIf(ample, "cache-ample")
	ctx.ClassIf(!ample, "cache-small")

	ids := func(list types.Txs) ([]int, error) {
		out := make([]int, len(list))
		for i, t := range list {
			j, ok := idx[string(t)]
			if !ok {
				return nil, fmt.Errorf("mempool returned a tx that was never submitted: %X", []byte(t))
			}
			out[i] = j
		}
		return out, nil
	}
	same := func(a, b []int) bool {
		if len(a) != len(b) {
			return false
		}
		for i := range a {
			if a[i] != b[i] {
				return false
			}
		}
		return true
	}
	// observe compares the whole pool with the model.
	observe := func(when string) error {
		if mem.Size() != len(m.pool) {
			return fmt.Errorf("%s: Size()=%d, model holds %v", when, mem.Size(), m.pool)
		}
		if mem.TxsBytes() != m.bytes(c.TxLens) {
			return fmt.Errorf("%s: TxsBytes()=%d, model %d (%v)", when, mem.TxsBytes(), m.bytes(c.TxLens), m.pool)
		}
		if mem.Size() > c.Cfg.Size || mem.TxsBytes() > c.Cfg.MaxBytes {
			return fmt.Errorf("%s: limits exceeded: size %d/%d bytes %d/%d", when, mem.Size(), c.Cfg.Size, mem.TxsBytes(), c.Cfg.MaxBytes)
		}
		if mem.MaxTxBytes() != m.maxTx {
			return fmt.Errorf("%s: MaxTxBytes()=%d, model %d", when, mem.MaxTxBytes(), m.maxTx)
		}
		got, err := ids(mem.ReapMaxBytesMaxGas(-1, -1))
		if err != nil {
			return fmt.Errorf("%s: %v", when, err)
		}
		seen := map[int]bool{}
		for _, t := range got {
			if seen[t] {
				return fmt.Errorf("%s: tx %d held twice: contents %v, model %v", when, t, got, m.pool)
			}
			seen[t] = true
		}
		if !same(got, m.pool) {
			return fmt.Errorf("%s: contents %v, model (arrival order, committed/invalid removed) %v", when, got, m.pool)
		}
		return nil
	}
	resolve := func(l *c40Limit, of func(t int) int64, minVal int64) (v int64, exact bool) {
		if l == nil {
			return -1, false
		}
		switch l.Kind {
		case "nocap":
			return -1, false
		case "abs":
			return l.Abs, false
		}
		kk := l.K
		if kk > len(m.pool) {
			kk = len(m.pool)
		}
		var s int64
		for _, t := range m.pool[:kk] {
			s += of(t)
		}
		v = s + l.Delta
		if v < minVal {
			v = minVal
		}
		return v, v == s && kk > 0 && kk < len(m.pool)
	}

	nt := false
	height := int64(0)
	var ops []c40Op
	for _, op := range c.Ops {
		ops = append(ops, op)
		for i := 1; op.K == "check" && i <= op.Burst; i++ {
			o := op
			o.Tx, o.Gas, o.Burst = (op.Tx+i)%k, op.Gas+int64(i), 0
			ops = append(ops, o)
		}
	}
	for oi, op := range ops {
		when := fmt.Sprintf("op %d %s", oi, op.K)
		switch op.K {
		case "check":
			t := op.Tx
			app.ok, app.gas = op.OK, op.Gas
			n0 := app.nNew
			cbCalls := 0
			var cbRes abci.Response
			cerr := mem.CheckTx(txs[t], func(r abci.Response) { cbCalls++; cbRes = r })
			full := len(m.pool) >= c.Cfg.Size || int64(c.TxLens[t])+m.bytes(c.TxLens) > c.Cfg.MaxBytes
			tooLarge := int64(c.TxLens[t]) > m.maxTx
			switch e := cerr.(type) {
			case nil:
				if full || tooLarge || m.pre[t] {
					return fmt.Errorf("%s: tx %d accepted for checking although full=%v tooLarge=%v preCheckRejects=%v (pool %v)", when, t, full, tooLarge, m.pre[t], m.pool)
				}
				if cbCalls != 1 {
					return fmt.Errorf("%s: CheckTx returned nil but the callback ran %d times (contract: cb called or err returned)", when, cbCalls)
				}
				if app.nNew != n0+1 {
					return fmt.Errorf("%s: app saw %d new CheckTx requests for one submission", when, app.nNew-n0)
				}
				if r, ok := cbRes.(abci.ResponseCheckTx); !ok || (r.Error == nil) != op.OK {
					return fmt.Errorf("%s: callback got %#v, scripted verdict ok=%v", when, cbRes, op.OK)
				}
				m.everCache[t] = true
				if op.OK {
					if m.has(t) && mem.Size() == len(m.pool) {
						// a mempool may also refuse the second copy silently at this stage
						ctx.Class("dup-ignored-after-check")
					} else if m.has(t) {
						ctx.Class("dup-admitted")
						key := "duplicate-admitted-after-cache-eviction"
						if c.Cfg.Cache == 0 {
							key = "duplicate-admitted-cache-disabled"
						}
						if ctx.Known(key) {
							return nil
						}
						return fmt.Errorf("%s: tx %d was admitted a second time while still in the pool %v (cache size %d): the mempool now holds it twice", when, t, m.pool, c.Cfg.Cache)
					}
					if !m.has(t) {
						m.pool = append(m.pool, t)
						m.gas[t] = op.Gas
						ctx.Class("check-admitted")
					}
				} else {
					ctx.Class("check-app-rejected")
				}
			case mempool.MempoolIsFullError:
				if !full {
					return fmt.Errorf("%s: %v, but model pool %v (%d bytes) has room for %d bytes", when, e, m.pool, m.bytes(c.TxLens), c.TxLens[t])
				}
				ctx.Class("check-full")
				nt = true
			case mempool.TxTooLargeError:
				if !tooLarge {
					return fmt.Errorf("%s: %v, but tx has %d bytes and the limit is %d", when, e, c.TxLens[t], m.maxTx)
				}
				ctx.Class("check-too-large")
			default:
				switch {
				case cerr == errC40Pre:
					if !m.pre[t] {
						return fmt.Errorf("%s: preCheck error for tx %d which the current preCheck accepts", when, t)
					}
					ctx.Class("check-precheck")
				case cerr == mempool.ErrTxInCache:
					if !m.everCache[t] {
						return fmt.Errorf("%s: ErrTxInCache for tx %d which was never submitted or committed since the last Flush", when, t)
					}
					ctx.ClassIf(m.has(t), "check-dup-of-pooled")
					ctx.ClassIf(!m.has(t), "check-dup-of-gone")
					nt = nt || m.has(t)
				default:
					return fmt.Errorf("%s: unexpected error %T %v", when, cerr, cerr)
				}
			}
			if cerr != nil && cbCalls != 0 {
				return fmt.Errorf("%s: CheckTx returned %v and also ran the callback", when, cerr)
			}
		case "update":
			height++
			var commit []int
			inBlock := map[int]bool{}
			front := m.pool
			if op.SkipFront < len(front) {
				front = front[op.SkipFront:]
			} else {
				front = nil
			}
			for i := 0; i < op.CommitFront && i < len(front); i++ {
				commit = append(commit, front[i])
				inBlock[front[i]] = true
			}
			for _, t := range op.Commit {
				if t < k && !inBlock[t] {
					commit = append(commit, t)
					inBlock[t] = true
				}
			}
			bad := map[int]bool{}
			for _, t := range op.CommitBad {
				bad[t] = true
			}
			blockTxs := make(types.Txs, len(commit))
			results := make([]abci.ResponseDeliverTx, len(commit))
			removedMiddle := false
			for i, t := range commit {
				blockTxs[i] = txs[t]
				if bad[t] {
					results[i].Error = abci.StringError("deliver failed")
				} else {
					m.everCache[t] = true
				}
				if len(m.pool) > 0 && m.pool[0] != t && m.has(t) {
					removedMiddle = true
				}
				m.remove(t)
			}
			var pre mempool.PreCheckFunc
			if op.SetPre {
				rej := map[string]bool{}
				m.pre = map[int]bool{}
				for _, t := range op.Pre {
					if t < k {
						rej[string(txs[t])] = true
						m.pre[t] = true
					}
				}
				pre = func(tx types.Tx) error {
					if rej[string(tx)] {
						return errC40Pre
					}
					return nil
				}
			}
			if op.NewMaxTx != 0 {
				m.maxTx = op.NewMaxTx
			}
			app.invalid = map[string]bool{}
			for _, t := range op.Invalid {
				if t < k {
					app.invalid[string(txs[t])] = true
				}
			}
			filtered, invalidated := false, false
			var wantRe []int
			if len(m.pool) > 0 && c.Cfg.Recheck {
				var keep []int
				for _, t := range m.pool {
					switch {
					case int64(c.TxLens[t]) > m.maxTx || m.pre[t]:
						filtered = true
					case app.invalid[string(txs[t])]:
						invalidated = true
						wantRe = append(wantRe, t)
					default:
						keep = append(keep, t)
						wantRe = append(wantRe, t)
					}
				}
				m.pool = keep
			}
			ctx.ClassIf(len(commit) > 0, "update-commits")
			ctx.ClassIf(removedMiddle, "update-removes-middle")
			ctx.ClassIf(invalidated, "update-recheck-invalidates")
			ctx.ClassIf(filtered, "update-recheck-filters-size-or-precheck")
			nt = nt || (removedMiddle && invalidated)
			app.reTxs = nil
			var pv any
			var uerr error
			func() {
				mem.Lock()
				defer mem.Unlock()
				defer func() { pv = recover() }()
				uerr = mem.Update(height, blockTxs, results, pre, op.NewMaxTx)
			}()
			if pv == nil && filtered {
				// The recheck dropped a tx by size/preCheck. A correct mempool has finished its
				// (synchronous) recheck now; one that left its recheck cursor on the dropped element
				// panics on the next ABCI response. Observe that with a submission the app rejects
				// (no lasting effect on a correct mempool), instead of blocking in Reap.
				app.ok, app.gas = false, 0
				func() {
					defer func() { pv = recover() }()
					_ = mem.CheckTx(probe, nil)
				}()
			}
			if pv != nil {
				if filtered && ctx.Known("recheck-cursor-left-on-tx-dropped-by-size-or-precheck") {
					return nil
				}
				return fmt.Errorf("%s: panic %v (height %d, block %v, new maxTxBytes %d, preCheck rejects %v, recheck filtered=%v)", when, pv, height, commit, op.NewMaxTx, op.Pre, filtered)
			}
			if uerr != nil {
				return fmt.Errorf("%s: Update returned %v", when, uerr)
			}
			if _, err := ids(typesTxs(app.reTxs)); err != nil {
				return fmt.Errorf("%s: recheck request: %v", when, err)
			}
			ctx.ClassIf(len(app.reTxs) > 0, "update-rechecks")
			_ = wantRe
		case "reapbg":
			b, bExact := resolve(op.B, func(t int) int64 { return int64(c.TxLens[t]) }, 1)
			g, gExact := resolve(op.G, func(t int) int64 { return m.gas[t] }, 0)
			got, err := ids(mem.ReapMaxBytesMaxGas(b, g))
			if err != nil {
				return fmt.Errorf("%s: %v", when, err)
			}
			var want []int
			var sb, sg int64
			for _, t := range m.pool {
				if b > -1 && sb+int64(c.TxLens[t]) > b {
					break
				}
				if g > -1 && sg+m.gas[t] > g {
					break
				}
				sb += int64(c.TxLens[t])
				sg += m.gas[t]
				want = append(want, t)
			}
			if !same(got, want) {
				return fmt.Errorf("%s: ReapMaxBytesMaxGas(%d,%d) = %v; pool %v (lens %v, gas %v): longest prefix within both limits is %v", when, b, g, got, m.pool, c.TxLens, m.gas, want)
			}
			hit := (bExact && b > -1 && sb == b && len(want) < len(m.pool)) || (gExact && g > -1 && sg == g && len(want) < len(m.pool) && len(want) > 0)
			ctx.ClassIf(hit, "reap-limit-hit-exactly")
			ctx.ClassIf(len(want) > 0 && len(want) < len(m.pool), "reap-strict-prefix")
			nt = nt || hit
		case "reapn":
			n := -1
			switch op.NKind {
			case "abs":
				n = op.N
			case "size":
				n = len(m.pool) + op.N
				if n < 0 {
					n = 0
				}
			}
			got, err := ids(mem.ReapMaxTxs(n))
			if err != nil {
				return fmt.Errorf("%s: %v", when, err)
			}
			want := m.pool
			if n >= 0 && n < len(want) {
				want = want[:n]
			}
			if !same(got, want) {
				ctx.Class("reapn-mismatch")
				if n >= 0 && len(got) == n+1 && same(got, m.pool[:n+1]) && ctx.Known("reapmaxtxs-returns-max-plus-one") {
					break
				}
				return fmt.Errorf("%s: ReapMaxTxs(%d) = %v (%d txs); pool %v: want the first min(max,size) = %d txs", when, n, got, len(got), m.pool, len(want))
			}
			ctx.ClassIf(n >= 0 && n < len(m.pool), "reapn-caps")
			nt = nt || (n >= 0 && n < len(m.pool))
		case "flush":
			mem.Flush()
			m.pool = nil
			m.everCache = map[int]bool{}
			ctx.Class("flush")
		}
		if err := observe("after " + when); err != nil {
			return err
		}
	}
	ctx.NTIf(nt)
	return nil
}

func typesTxs(b [][]byte) types.Txs {
	out := make(types.Txs, len(b))
	for i := range b {
		out[i] = bytes.Clone(b[i])
	}
	return out
}

func TestC40_Mempool(t *testing.T) {
	vk.Run(t, vk.Spec[c40Case]{
		ID: "C40", Name: "TestC40_Mempool",
		Rule: "rapid: 1-50 ops (CheckTx with scripted app verdict+gas incl. resubmissions, Update with committed prefix/middle/foreign txs, ok/err results, recheck invalidations, new maxTxBytes/preCheck, ReapMaxBytesMaxGas with limits at exact prefix sums +-1, ReapMaxTxs around size, Flush) over 2-12 txs against a CListMempool with small Size/MaxPendingTxsBytes/cache and a scripted app on the synchronous local ABCI client; non-trivial = a reap limit equals a non-empty strict prefix sum exactly, ReapMaxTxs caps below size, a submission is refused because the pool is full or the tx is pooled already, or one Update removes a non-front committed tx while the recheck invalidates another",
		Draw: c40Draw,
		Exec: c40Exec,
	})
}
