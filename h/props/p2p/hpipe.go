// Package p2p holds the checks for the networking / concurrency properties
// C40, C42, C43 and C49. This file is the harness-owned transport used by C42
// and C43: an in-memory byte queue per direction whose ordering, chunking,
// tampering and end-of-stream are decided by the test case, never by timing.
package p2p

import (
	"errors"
	"io"
	"net"
	"sync"
	"time"
)

// hQueue is one direction of a connection: an unbounded byte queue. Writes
// never block. Reads block until data or close, except in sync mode where an
// empty queue reads as end of stream (used when reader and writer run in the
// same goroutine).
type hQueue struct {
	mu       sync.Mutex
	cond     *sync.Cond
	buf      []byte
	total    int  // bytes accepted so far (stream offset of the next write)
	wclosed  bool // writer closed: readers drain, then EOF
	rclosed  bool // reader closed: reads and writes fail
	syncMode bool
	inflight int // Read calls currently blocked or running
	// tamper, if set, may rewrite the bytes of a write given their stream offset.
	tamper func(off int, p []byte) []byte
	// chunks, if set, bounds the size of successive reads (cycled); 0 entries are skipped.
	chunks []int
	chunkI int
	log    []byte // every byte accepted (after tampering)
	// transport faults (armed by arm): the write with index At (counted from arming) puts its bytes
	// (or only the first Keep of them when Keep >= 0) on the wire and then reports an error, the way a
	// write deadline firing late does. segs records, per Write call since arming, what reached the wire.
	faults []hFault
	armed  bool
	wcount int
	segs   []hSeg
}

// hFault is one drawn transport fault on the writer side.
type hFault struct {
	At   int `json:"at"`
	Keep int `json:"keep"` // <0: all bytes reach the wire; otherwise only this many
}

// hSeg is what one Write call put on the wire.
type hSeg struct {
	b      []byte
	failed bool // the call returned an error
	full   int  // length the caller asked to write
	orig   []byte // the bytes the caller asked to write (before the fault cut them)
}

var errHFault = errors.New("harness pipe: write reported as failed (i/o timeout)")

// arm starts counting writes and installs the faults.
func (q *hQueue) arm(f []hFault) {
	q.mu.Lock()
	q.faults, q.armed, q.wcount, q.segs = f, true, 0, nil
	q.mu.Unlock()
}

func (q *hQueue) segments() []hSeg {
	q.mu.Lock()
	defer q.mu.Unlock()
	return append([]hSeg{}, q.segs...)
}

func newHQueue() *hQueue {
	q := &hQueue{}
	q.cond = sync.NewCond(&q.mu)
	return q
}

var errHClosed = errors.New("harness pipe: closed")

func (q *hQueue) Write(p []byte) (int, error) {
	q.mu.Lock()
	defer q.mu.Unlock()
	if q.wclosed || q.rclosed {
		return 0, io.ErrClosedPipe
	}
	b := append([]byte{}, p...)
	if q.tamper != nil {
		b = q.tamper(q.total, b)
	}
	q.total += len(p)
	var ferr error
	if q.armed {
		idx := q.wcount
		q.wcount++
		for _, f := range q.faults {
			if f.At == idx {
				ferr = errHFault
				if f.Keep >= 0 && f.Keep < len(b) {
					b = b[:f.Keep]
				}
			}
		}
		q.segs = append(q.segs, hSeg{b: append([]byte{}, b...), failed: ferr != nil, full: len(p), orig: append([]byte{}, p...)})
	}
	q.buf = append(q.buf, b...)
	q.log = append(q.log, b...)
	q.cond.Broadcast()
	if ferr != nil {
		return len(b), ferr
	}
	return len(p), nil
}

func (q *hQueue) Read(p []byte) (int, error) {
	q.mu.Lock()
	defer q.mu.Unlock()
	q.inflight++
	defer func() { q.inflight--; q.cond.Broadcast() }()
	for {
		if q.rclosed {
			return 0, errHClosed
		}
		if len(q.buf) > 0 {
			break
		}
		if q.wclosed || q.syncMode {
			return 0, io.EOF
		}
		q.cond.Wait()
	}
	if len(p) == 0 {
		return 0, nil
	}
	n := len(p)
	if len(q.chunks) > 0 {
		for tries := 0; tries < len(q.chunks); tries++ {
			c := q.chunks[q.chunkI%len(q.chunks)]
			q.chunkI++
			if c > 0 {
				if c < n {
					n = c
				}
				break
			}
		}
	}
	if n > len(q.buf) {
		n = len(q.buf)
	}
	copy(p, q.buf[:n])
	q.buf = q.buf[n:]
	return n, nil
}

func (q *hQueue) closeWrite() {
	q.mu.Lock()
	q.wclosed = true
	q.cond.Broadcast()
	q.mu.Unlock()
}

func (q *hQueue) closeRead() {
	q.mu.Lock()
	q.rclosed = true
	q.cond.Broadcast()
	q.mu.Unlock()
}

// waitIdle blocks until no Read call is in progress (call after closing).
func (q *hQueue) waitIdle() {
	q.mu.Lock()
	for q.inflight > 0 {
		q.cond.Wait()
	}
	q.mu.Unlock()
}

func (q *hQueue) setSync(v bool) {
	q.mu.Lock()
	q.syncMode = v
	q.cond.Broadcast()
	q.mu.Unlock()
}

// pending returns a copy of the unread bytes; setPending replaces them.
func (q *hQueue) pending() []byte {
	q.mu.Lock()
	defer q.mu.Unlock()
	return append([]byte{}, q.buf...)
}

func (q *hQueue) setPending(b []byte) {
	q.mu.Lock()
	q.buf = append([]byte{}, b...)
	q.cond.Broadcast()
	q.mu.Unlock()
}

func (q *hQueue) logged() []byte {
	q.mu.Lock()
	defer q.mu.Unlock()
	return append([]byte{}, q.log...)
}

// hConn is a net.Conn made of two queues.
type hConn struct {
	r, w   *hQueue
	closed sync.Once
}

type hAddr struct{}

func (hAddr) Network() string { return "harness" }
func (hAddr) String() string  { return "harness-pipe" }

func (c *hConn) Read(p []byte) (int, error)  { return c.r.Read(p) }
func (c *hConn) Write(p []byte) (int, error) { return c.w.Write(p) }
func (c *hConn) Close() error {
	c.closed.Do(func() {
		c.w.closeWrite()
		c.r.closeRead()
	})
	return nil
}
func (c *hConn) LocalAddr() net.Addr              { return hAddr{} }
func (c *hConn) RemoteAddr() net.Addr             { return hAddr{} }
func (c *hConn) SetDeadline(time.Time) error      { return nil }
func (c *hConn) SetReadDeadline(time.Time) error  { return nil }
func (c *hConn) SetWriteDeadline(time.Time) error { return nil }

var _ net.Conn = (*hConn)(nil)

// hPipe returns the two ends of a duplex in-memory connection and the two
// queues (a->b, b->a).
func hPipe() (a, b *hConn, ab, ba *hQueue) {
	ab, ba = newHQueue(), newHQueue()
	return &hConn{r: ba, w: ab}, &hConn{r: ab, w: ba}, ab, ba
}
