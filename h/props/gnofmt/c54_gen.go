package gnofmt

// C54 generator: syntactically valid Gno programs (declarations, statements,
// expressions and types of the Go grammar the Gno parser accepts) with
// generated import blocks (unused, missing, aliased, blank, grouped/ungrouped,
// several declarations, comments), followed by token-level whitespace/comment
// mutations that keep the token stream (hence the syntax tree) unchanged.

import (
	"fmt"
	"go/scanner"
	"go/token"
	"strings"

	"pgregory.net/rapid"
)

// ---- uniform draws (rapid's integer generators are biased towards small values)

var c54Digits = []int{0, 1, 2, 3}

func c54Uniform(rt *rapid.T, lo, hi int, l string) int {
	n := hi - lo + 1
	if n <= 1 {
		return lo
	}
	if n <= 4 {
		return lo + rapid.SampledFrom(c54Digits[:n]).Draw(rt, l)
	}
	v, span := 0, 1
	for span < n*4 {
		v = v*4 + rapid.SampledFrom(c54Digits).Draw(rt, l)
		span *= 4
	}
	return lo + v%n
}

// ---- the package universe known to the resolver of generated programs

type c54Pkg struct {
	Path, Name string
	Exports    []string // exported top-level names (functions, types, vars)
	Types      []string // subset usable as types
}

// c54Universe is what the in-memory resolver knows. Two packages share the
// name "rand"; two have a path whose last element differs from the name.
var c54Universe = []c54Pkg{
	{"strings", "strings", []string{"ToUpper", "Repeat", "Builder", "NewReader"}, []string{"Builder"}},
	{"strconv", "strconv", []string{"Itoa", "Atoi", "NumError"}, []string{"NumError"}},
	{"math/rand", "rand", []string{"Intn", "Seed", "Rand"}, []string{"Rand"}},
	{"crypto/rand", "rand", []string{"Read", "Reader", "Prime"}, nil},
	{"time", "time", []string{"Now", "Time", "Duration", "Second"}, []string{"Time", "Duration"}},
	{"gno.land/p/demo/avl", "avl", []string{"Tree", "NewTree", "Node"}, []string{"Tree", "Node"}},
	{"gno.land/p/nt/ufmt/v0", "ufmt", []string{"Sprintf", "Println", "Errorf"}, nil},
	{"gno.land/p/x/go-yaml", "yaml", []string{"Marshal", "Unmarshal", "Decoder"}, []string{"Decoder"}},
	{"gno.land/r/demo/users", "users", []string{"Resolve", "User", "MustGet"}, []string{"User"}},
	{"chain/banker", "banker", []string{"Banker", "NewBanker", "BankerTypeReadonly"}, []string{"Banker"}},
}

// packages the resolver does not know; by the Go/Gno convention their name is
// the last path element (the formatter can only assume that as well)
//
// A path may end in a version element (/v0, /v1, /v2, ...): Gno's package-name
// rule (gnolang.ValidatePkgNameMatchesPath: "gno.land/r/foo/v2 expects package
// foo") makes the element before it the name, so files refer to such a package
// by that element. A last element that merely looks like a version ("v2x") is
// an ordinary name.
var c54Unknown = []c54Pkg{
	{"gno.land/p/unknown/foo", "foo", []string{"Do", "Thing"}, []string{"Thing"}},
	{"example.com/x/bar", "bar", []string{"Baz", "Qux"}, []string{"Qux"}},
	{"gno.land/p/unknown/qux/v0", "qux", []string{"Make", "Item"}, []string{"Item"}},
	{"gno.land/r/unknown/quux/v2", "quux", []string{"Get", "Entry", "Set"}, []string{"Entry"}},
	{"example.com/y/zed/v12", "zed", []string{"Open", "Handle"}, []string{"Handle"}},
	{"gno.land/p/unknown/v2x", "v2x", []string{"Run", "Conf"}, []string{"Conf"}},
}

// a handle is a name by which program text refers to a package
type c54Handle struct {
	Imported bool   // the file imports the package under this name: always referenced, so the import is kept
	Name     string // identifier used in selectors
	Sels     []string
	Types    []string
}

type c54Prog struct {
	rt      *rapid.T
	n       int
	handles []c54Handle
	labels  []string // labels declared in the current function
	types   []string // declared type names
	funcs   []string
	vars    []string // local names in scope (approximation; only used as operands)
	level   int      // comment-placement level of the layout mutation (see c54MutateLayout)
	impCmt  bool     // comments inside import declarations
}

func (g *c54Prog) intn(lo, hi int, l string) int { return c54Uniform(g.rt, lo, hi, l) }
func (g *c54Prog) pct(p int, l string) bool      { return g.intn(0, 99, l) < p }
func (g *c54Prog) pick(xs []string, l string) string {
	return xs[g.intn(0, len(xs)-1, l)]
}
func (g *c54Prog) fresh(prefix string) string { g.n++; return fmt.Sprintf("%s%d", prefix, g.n) }

var c54Free = []string{"a", "b", "c", "x", "y", "z", "i", "n", "s", "ok", "err", "nil", "true", "false", "iota", "len", "cap", "make", "new", "append", "panic", "println", "cross", "realm"}

var c54Lits = []string{"0", "1", "42", "0x1F", "0X1f", "0b101", "0B11", "0o17", "0O17", "017", "1_000", "1.5", "1e3", "1E-3", ".5", "5.", "0x1p-2", "0X1P+2", "2i", "1.5i", "0123i", "'a'", `'\n'`, `'\x00'`, `'\u00e9'`, `'\''`, `"s"`, `""`, `"a\tb\"c"`, "`raw`", "`raw\nline`", "`a\\b`", `"é✓"`, "1e+10", "0_7", "0x_1F", "1E3i"}

func (g *c54Prog) operand() string {
	k := g.intn(0, 9, "operand")
	switch {
	case k < 3 && len(g.vars) > 0:
		return g.pick(g.vars, "var")
	case k < 5:
		return g.pick(c54Free, "free")
	case k < 8:
		return g.pick(c54Lits, "lit")
	case len(g.handles) > 0:
		h := g.handles[g.intn(0, len(g.handles)-1, "handle")]
		return h.Name + " . " + g.pick(h.Sels, "sel")
	default:
		return g.pick(c54Free, "free2")
	}
}

var c54BinOps = []string{"+", "-", "*", "/", "%", "&", "|", "^", "<<", ">>", "&^", "&&", "||", "==", "!=", "<", "<=", ">", ">="}
var c54UnOps = []string{"-", "+", "!", "^", "*", "&", "<-"}

// typ returns a type expression.
func (g *c54Prog) typ(depth int) string {
	k := g.intn(0, 15, "typ")
	if depth <= 0 && k >= 5 {
		k = k % 5
	}
	switch k {
	case 0:
		return g.pick([]string{"int", "string", "bool", "byte", "error", "any", "float64", "uint8", "rune", "address"}, "basic")
	case 1:
		if len(g.types) > 0 {
			return g.pick(g.types, "decltype")
		}
		return "int"
	case 2:
		var hs []c54Handle
		for _, h := range g.handles {
			if len(h.Types) > 0 {
				hs = append(hs, h)
			}
		}
		if len(hs) > 0 {
			h := hs[g.intn(0, len(hs)-1, "thandle")]
			return h.Name + " . " + g.pick(h.Types, "tsel")
		}
		return "string"
	case 3:
		return "* " + g.typ(depth-1)
	case 4:
		return "[ ] " + g.typ(depth-1)
	case 5:
		return "[ " + g.pick([]string{"3", "0x10", "n", "2 * 4"}, "arrlen") + " ] " + g.typ(depth-1)
	case 6:
		return "map [ " + g.typ(depth-1) + " ] " + g.typ(depth-1)
	case 7:
		return g.pick([]string{"chan ", "<- chan ", "chan <- "}, "chandir") + g.typ(depth-1)
	case 8:
		return "chan ( <- chan " + g.typ(depth-1) + " )"
	case 9:
		return "func " + g.signature(depth-1, false)
	case 10:
		return g.structType(depth - 1)
	case 11:
		return g.interfaceType(depth - 1)
	case 12:
		return "( " + g.typ(depth-1) + " )"
	case 13:
		return "interface { }"
	case 14:
		return "struct { }"
	default:
		return "[ ] * " + g.typ(depth-1)
	}
}

func (g *c54Prog) structType(depth int) string {
	var sb strings.Builder
	sb.WriteString("struct {")
	n := g.intn(0, 4, "nfields")
	for i := 0; i < n; i++ {
		sb.WriteString("\n")
		switch g.intn(0, 5, "fieldkind") {
		case 0:
			sb.WriteString(g.fresh("F") + " , " + g.fresh("G") + " " + g.typ(depth))
		case 1:
			// embedded
			if len(g.types) > 0 {
				sb.WriteString(g.pick([]string{"", "* "}, "embptr") + g.pick(g.types, "embtype"))
			} else {
				sb.WriteString("error")
			}
		case 2:
			sb.WriteString(g.fresh("F") + " " + g.typ(depth) + " " + g.pick([]string{"`json:\"x\"`", `"tag"`, "`a:\"b\" c:\"d\"`"}, "tag"))
		default:
			sb.WriteString(g.fresh("f") + " " + g.typ(depth))
		}
	}
	if n > 0 {
		sb.WriteString("\n")
	}
	sb.WriteString("}")
	return sb.String()
}

func (g *c54Prog) interfaceType(depth int) string {
	var sb strings.Builder
	sb.WriteString("interface {")
	n := g.intn(0, 3, "nmeth")
	for i := 0; i < n; i++ {
		sb.WriteString("\n")
		if g.pct(25, "embiface") {
			sb.WriteString(g.pick([]string{"error", "any", "fmt . Stringer"}, "embeddediface"))
		} else {
			sb.WriteString(g.fresh("M") + " " + g.signature(depth, false))
		}
	}
	if n > 0 {
		sb.WriteString("\n")
	}
	sb.WriteString("}")
	return sb.String()
}

// signature returns "( params ) results"; with named=true parameter names are
// fresh identifiers that are added to the variables in scope.
func (g *c54Prog) signature(depth int, named bool) string {
	var ps []string
	n := g.intn(0, 3, "nparams")
	useNames := named || g.pct(40, "namedparams")
	for i := 0; i < n; i++ {
		t := g.typ(depth)
		if i == n-1 && g.pct(20, "variadic") {
			t = "... " + t
		}
		if useNames {
			nm := g.fresh("p")
			if g.pct(25, "blankparam") {
				nm = "_"
			} else if named {
				g.vars = append(g.vars, nm)
			}
			if i+1 < n && g.pct(25, "groupparam") && !strings.HasPrefix(t, "...") {
				nm2 := g.fresh("p")
				if named {
					g.vars = append(g.vars, nm2)
				}
				nm = nm + " , " + nm2
			}
			ps = append(ps, nm+" "+t)
		} else {
			ps = append(ps, t)
		}
	}
	s := "( " + strings.Join(ps, " , ") + " )"
	switch g.intn(0, 4, "results") {
	case 0:
		s += " " + g.typ(depth)
	case 1:
		s += " ( " + g.typ(depth) + " , error )"
	case 2:
		r := g.fresh("r")
		if named {
			g.vars = append(g.vars, r)
		}
		s += " ( " + r + " " + g.typ(depth) + " )"
	}
	return s
}

// expr returns an expression. noLit forbids composite literals that are not
// protected by parentheses (statement headers).
func (g *c54Prog) expr(depth int, noLit bool) string {
	k := g.intn(0, 19, "expr")
	if depth <= 0 {
		return g.operand()
	}
	switch k {
	case 0, 1, 2:
		return g.operand()
	case 3, 4, 5:
		return g.expr(depth-1, noLit) + " " + g.pick(c54BinOps, "binop") + " " + g.expr(depth-1, noLit)
	case 6:
		return g.pick(c54UnOps, "unop") + " " + g.expr(depth-1, noLit)
	case 7:
		return "( " + g.expr(depth-1, false) + " )"
	case 8, 9:
		var args []string
		n := g.intn(0, 3, "nargs")
		for i := 0; i < n; i++ {
			args = append(args, g.expr(depth-1, false))
		}
		if n > 0 && g.pct(15, "ellipsis") {
			// variadic spread of an identifier (go/printer glues "1 ..." into "1...",
			// which scans as the float "1." — not a Gno program anybody writes)
			args[n-1] = g.pick([]string{"s", "x", "rest", "f ( )", "a [ 1 : ]"}, "spread") + " ..."
		}
		call := g.callee(depth-1, noLit) + " ( " + strings.Join(args, " , ")
		if n > 0 && g.pct(10, "trailingcomma") {
			call += " ,"
		}
		return call + " )"
	case 10:
		return g.primary(depth-1, noLit) + " . " + g.pick([]string{"f", "Field", "Method", "x"}, "field")
	case 11:
		return g.primary(depth-1, noLit) + " [ " + g.expr(depth-1, false) + " ]"
	case 12:
		return g.primary(depth-1, noLit) + " [ " + g.pick([]string{":", "1 :", ": n", "i : n", "i : n : 10", ": n : n + 1"}, "slice") + " ]"
	case 13:
		return g.primary(depth-1, noLit) + " . ( " + g.typ(1) + " )"
	case 14, 15:
		if noLit {
			return "( " + g.composite(depth-1) + " )"
		}
		return g.composite(depth - 1)
	case 16:
		return g.funcLit(depth - 1)
	case 17:
		return g.pick([]string{"[ ] byte", "string", "int", "float64", "( * int )", "( func ( ) )", "( [ ] int )", "( <- chan int )"}, "conv") + " ( " + g.expr(depth-1, false) + " )"
	case 18:
		return g.pick([]string{"make ( [ ] int , n )", "make ( map [ string ] int )", "new ( int )", "len ( s )", "make ( chan int , 1 )", "append ( s , 1 , 2 )", "cross ( fn ) ( a )"}, "builtin")
	default:
		return "- " + g.pick([]string{"- x", "+ x", "1", "( - x )"}, "negneg")
	}
}

func (g *c54Prog) primary(depth int, noLit bool) string {
	if depth > 0 && g.pct(30, "primcall") {
		return g.callee(depth-1, noLit) + " ( )"
	}
	if g.pct(20, "primparen") {
		return "( " + g.expr(depth, false) + " )"
	}
	o := g.operand()
	if len(o) > 0 && (o[0] >= '0' && o[0] <= '9' || o[0] == '.' || o[0] == '\'') {
		return "x" // a selector/index on a number literal would change tokenisation (1.f)
	}
	return o
}

func (g *c54Prog) callee(depth int, noLit bool) string {
	switch g.intn(0, 5, "callee") {
	case 0:
		if len(g.funcs) > 0 {
			return g.pick(g.funcs, "fn")
		}
	case 1:
		if len(g.handles) > 0 {
			h := g.handles[g.intn(0, len(g.handles)-1, "chandle")]
			return h.Name + " . " + g.pick(h.Sels, "csel")
		}
	case 2:
		if depth > 0 {
			return g.funcLit(depth - 1)
		}
	case 3:
		return "x . Method"
	}
	return g.pick([]string{"f", "println", "panic", "g", "fn"}, "calleename")
}

func (g *c54Prog) composite(depth int) string {
	elems := func(keyed int) string {
		n := g.intn(0, 3, "nelems")
		var es []string
		for i := 0; i < n; i++ {
			v := g.expr(depth, false)
			switch keyed {
			case 1:
				v = g.pick([]string{"F", "G", "x", "Name"}, "key") + " : " + v
			case 2:
				v = g.pick(c54Lits, "mapkey") + " : " + v
			case 3:
				v = "{ " + g.expr(depth, false) + " }" // elided inner literal type
			}
			es = append(es, v)
		}
		s := strings.Join(es, " , ")
		if n > 0 && g.pct(30, "littrail") {
			s += " ,\n"
		}
		return "{ " + s + " }"
	}
	switch g.intn(0, 8, "composite") {
	case 0:
		if len(g.types) > 0 {
			return g.pick(g.types, "littype") + " " + elems(g.intn(0, 1, "keyed"))
		}
		return "T " + elems(1)
	case 1:
		return "[ ] " + g.typ(1) + " " + elems(0)
	case 2:
		return "map [ string ] " + g.typ(1) + " " + elems(2)
	case 3:
		return "& " + g.pick([]string{"T", "S", "node"}, "amptype") + " " + elems(1)
	case 4:
		return "[ ... ] int " + elems(0)
	case 5:
		return "[ ] [ ] int " + elems(3)
	case 6:
		return "struct { x , y int } " + elems(0)
	case 7:
		if len(g.handles) > 0 {
			h := g.handles[g.intn(0, len(g.handles)-1, "lhandle")]
			return h.Name + " . " + g.pick(h.Sels, "lsel") + " " + elems(1)
		}
		return "T { }"
	default:
		return "[ 2 ] string " + elems(0)
	}
}

func (g *c54Prog) funcLit(depth int) string {
	saveVars, saveLabels := g.vars, g.labels
	g.vars = append([]string(nil), g.vars...)
	g.labels = nil
	sig := g.signature(1, true)
	body := g.block(depth, false)
	g.vars, g.labels = saveVars, saveLabels
	return "func " + sig + " " + body
}

// block returns "{ stmts }".
func (g *c54Prog) block(depth int, inLoop bool) string {
	saveVars := g.vars
	g.vars = append([]string(nil), g.vars...)
	var sb strings.Builder
	sb.WriteString("{")
	n := g.intn(0, 4, "nstmts")
	for i := 0; i < n; i++ {
		if i == 0 {
			sb.WriteString("\n")
		} else {
			sb.WriteString(g.pick([]string{"\n", "\n", "\n", " ; "}, "sep"))
		}
		sb.WriteString(g.stmt(depth, inLoop))
	}
	sb.WriteString("\n}")
	g.vars = saveVars
	return sb.String()
}

func (g *c54Prog) simpleStmt(depth int, noLit bool) string {
	switch g.intn(0, 7, "simple") {
	case 0:
		v := g.fresh("v")
		s := v + " := " + g.expr(depth, noLit)
		g.vars = append(g.vars, v)
		return s
	case 1:
		v, w := g.fresh("v"), g.fresh("v")
		s := v + " , " + w + " := " + g.expr(depth, noLit) + " , " + g.expr(depth, noLit)
		g.vars = append(g.vars, v, w)
		return s
	case 2:
		return g.lhs(depth) + " " + g.pick([]string{"=", "+=", "-=", "*=", "/=", "%=", "&=", "|=", "^=", "<<=", ">>=", "&^="}, "assignop") + " " + g.expr(depth, noLit)
	case 3:
		return g.lhs(depth) + " " + g.pick([]string{"++", "--"}, "incdec")
	case 4:
		return g.lhs(depth) + " , _ = " + g.expr(depth, noLit) + " , " + g.expr(depth, noLit)
	case 5:
		return g.pick([]string{"ch", "x . c", "out"}, "chan") + " <- " + g.expr(depth, noLit)
	default:
		return g.callee(depth, noLit) + " ( " + g.expr(depth, false) + " )"
	}
}

func (g *c54Prog) lhs(depth int) string {
	switch g.intn(0, 4, "lhs") {
	case 0:
		if len(g.vars) > 0 {
			return g.pick(g.vars, "lhsvar")
		}
		return "x"
	case 1:
		return "x . f"
	case 2:
		return "a [ i ]"
	case 3:
		return "* p"
	default:
		return "m [ " + g.pick(c54Lits, "lhskey") + " ]"
	}
}

func (g *c54Prog) stmt(depth int, inLoop bool) string {
	k := g.intn(0, 21, "stmt")
	if depth <= 0 && k >= 8 {
		k = k % 8
	}
	switch k {
	case 0, 1, 2:
		return g.simpleStmt(depth, false)
	case 3:
		switch g.intn(0, 3, "declstmt") {
		case 0:
			v := g.fresh("v")
			s := "var " + v + " " + g.typ(2)
			if g.pct(50, "varinit") {
				s += " = " + g.expr(depth, false)
			}
			g.vars = append(g.vars, v)
			return s
		case 1:
			return "const " + g.fresh("k") + " = " + g.pick(c54Lits, "constlit")
		case 2:
			return "var (\n" + g.fresh("v") + " = 1\n" + g.fresh("v") + " , " + g.fresh("v") + " int\n)"
		default:
			t := g.fresh("t")
			return "type " + t + g.pick([]string{" ", " = "}, "alias") + g.typ(2)
		}
	case 4:
		return "return" + g.pick([]string{"", " " + g.expr(depth, false), " " + g.expr(depth, false) + " , nil"}, "ret")
	case 5:
		return g.pick([]string{"go ", "defer "}, "godefer") + g.callee(depth, false) + " ( " + g.pick([]string{"", "x", "x , y ..."}, "goargs") + " )"
	case 6:
		if inLoop {
			s := g.pick([]string{"break", "continue"}, "branch")
			if len(g.labels) > 0 && g.pct(40, "branchlabel") {
				s += " " + g.pick(g.labels, "label")
			}
			return s
		}
		return "x ++"
	case 7:
		return g.block(depth-1, inLoop)
	case 8, 9:
		s := "if "
		if g.pct(30, "ifinit") {
			s += g.simpleStmt(depth-1, true) + " ; "
		}
		s += g.expr(depth-1, true) + " " + g.block(depth-1, inLoop)
		ne := g.intn(0, 2, "nelseif")
		for i := 0; i < ne; i++ {
			s += " else if " + g.expr(depth-1, true) + " " + g.block(depth-1, inLoop)
		}
		if g.pct(40, "else") {
			s += " else " + g.block(depth-1, inLoop)
		}
		return s
	case 10, 11:
		var head string
		switch g.intn(0, 7, "forkind") {
		case 0:
			head = ""
		case 1:
			head = g.expr(depth-1, true) + " "
		case 2:
			v := g.fresh("i")
			head = v + " := 0 ; " + v + " < n ; " + v + " ++ "
		case 3:
			head = "; ; "
		case 4:
			k, v := g.fresh("k"), g.fresh("e")
			head = k + " , " + v + " := range " + g.expr(depth-1, true) + " "
		case 5:
			head = "range " + g.pick([]string{"x", "10", "ch"}, "rangeover") + " "
		case 6:
			head = "x . f , a [ i ] = range " + g.expr(depth-1, true) + " "
		default:
			head = "_ , " + g.fresh("e") + " := range s "
		}
		return "for " + head + g.block(depth-1, true)
	case 12, 13:
		var sb strings.Builder
		sb.WriteString("switch ")
		if g.pct(25, "switchinit") {
			sb.WriteString(g.simpleStmt(depth-1, true) + " ; ")
		}
		if g.pct(70, "switchtag") {
			sb.WriteString(g.expr(depth-1, true) + " ")
		}
		sb.WriteString("{")
		nc := g.intn(0, 3, "ncases")
		def := g.intn(0, nc+1, "defaultat")
		for i := 0; i < nc; i++ {
			if i == def {
				sb.WriteString("\ndefault :")
			} else {
				sb.WriteString("\ncase " + g.expr(depth-1, false))
				if g.pct(30, "case2") {
					sb.WriteString(" , " + g.expr(depth-1, false))
				}
				sb.WriteString(" :")
			}
			ns := g.intn(0, 2, "ncasestmts")
			for j := 0; j < ns; j++ {
				sb.WriteString("\n" + g.stmt(depth-1, inLoop))
			}
			if i+1 < nc && g.pct(20, "fallthrough") {
				sb.WriteString("\nfallthrough")
			}
		}
		sb.WriteString("\n}")
		return sb.String()
	case 14:
		var sb strings.Builder
		sb.WriteString("switch ")
		if g.pct(50, "tsbind") {
			sb.WriteString(g.fresh("tv") + " := ")
		}
		sb.WriteString(g.primary(depth-1, true) + " . ( type ) {")
		nc := g.intn(0, 3, "ntcases")
		for i := 0; i < nc; i++ {
			if i == nc-1 && g.pct(40, "tsdefault") {
				sb.WriteString("\ndefault :")
			} else {
				sb.WriteString("\ncase " + g.typ(1))
				if g.pct(30, "tscase2") {
					sb.WriteString(" , " + g.pick([]string{"nil", "error", "* int"}, "tscasetype"))
				}
				sb.WriteString(" :")
			}
			if g.pct(70, "tsstmt") {
				sb.WriteString("\n" + g.stmt(depth-1, inLoop))
			}
		}
		sb.WriteString("\n}")
		return sb.String()
	case 15:
		var sb strings.Builder
		sb.WriteString("select {")
		nc := g.intn(0, 3, "nselcases")
		for i := 0; i < nc; i++ {
			switch g.intn(0, 4, "selcase") {
			case 0:
				sb.WriteString("\ncase <- ch :")
			case 1:
				v := g.fresh("v")
				sb.WriteString("\ncase " + v + " := <- ch :")
			case 2:
				sb.WriteString("\ncase " + g.fresh("v") + " , " + g.fresh("ok") + " := <- x . c :")
			case 3:
				sb.WriteString("\ncase out <- " + g.expr(depth-1, false) + " :")
			default:
				if i == nc-1 {
					sb.WriteString("\ndefault :")
				} else {
					sb.WriteString("\ncase x = <- ch :")
				}
			}
			if g.pct(60, "selstmt") {
				sb.WriteString("\n" + g.stmt(depth-1, inLoop))
			}
		}
		sb.WriteString("\n}")
		return sb.String()
	case 16:
		l := g.fresh("L")
		g.labels = append(g.labels, l)
		body := g.pick([]string{"for ", "for ; ; "}, "labelfor") + g.block(depth-1, true)
		if g.pct(15, "labelempty") {
			return l + " :\n;"
		}
		return l + " :\n" + body
	case 17:
		if len(g.labels) > 0 {
			return "goto " + g.pick(g.labels, "gotolabel")
		}
		return g.simpleStmt(depth, false)
	case 18:
		return "func ( ) " + g.block(depth-1, false) + " ( )"
	case 19:
		// statement using a package several times
		if len(g.handles) > 0 {
			h := g.handles[g.intn(0, len(g.handles)-1, "shandle")]
			return "_ = " + h.Name + " . " + g.pick(h.Sels, "ssel") + "\n_ = " + h.Name + " . " + g.pick(h.Sels, "ssel2")
		}
		return "_ = x"
	default:
		return g.simpleStmt(depth, false)
	}
}

var c54Comments = []string{"// c", "// TODO(x): y", "//nospace", "//   indented", "// é✓", "/* b */", "/* multi\n   line */", "/**/", "/* // */", "// a /* b */", "//", "/*\n*/", "// trailing  spaces  ", "/* x */ /* y */", "// Output:", "// tab\there"}

// c54Prunable marks (inside the generator only) an import spec the formatter
// is expected to prune. Such specs get no comments: pruning a commented spec
// orphans its comment inside the block, and go/format's import sorting is not
// idempotent around orphaned comment lines (upstream; see the C54 notes).
const c54Prunable = "\x00"

// c54ImportBlock renders the import declarations.
func (g *c54Prog) importBlock(specs []string) string {
	if len(specs) == 0 {
		if g.pct(10, "emptyimport") {
			return "import ( )\n"
		}
		return ""
	}
	// permute
	for i := len(specs) - 1; i > 0; i-- {
		j := g.intn(0, i, "perm")
		specs[i], specs[j] = specs[j], specs[i]
	}
	// split into declarations first: comments are only drawn when everything
	// lives in one import declaration (merging several commented import
	// declarations is where golang.org/x/tools/imports misplaces comments and
	// is not idempotent; see the C54 notes)
	var groups [][]string
	for i := 0; i < len(specs); {
		n := g.intn(1, len(specs)-i, "groupsize")
		groups = append(groups, specs[i:i+n])
		i += n
	}
	cmt := g.impCmt && len(groups) == 1
	if !cmt {
		g.impCmt = false
	}
	var sb strings.Builder
	for _, grp := range groups {
		if len(grp) == 1 && g.pct(50, "ungrouped") {
			cmt := cmt && !strings.HasPrefix(grp[0], c54Prunable)
			grp = []string{strings.TrimPrefix(grp[0], c54Prunable)}
			if cmt && g.pct(25, "impdoc") {
				sb.WriteString(g.pick(c54Comments[:5], "impdoccomment") + "\n")
			}
			sb.WriteString("import " + grp[0])
			if cmt && g.pct(20, "imptrail") {
				sb.WriteString(" " + g.pick(c54Comments[:5], "imptrailcomment"))
			}
			sb.WriteString("\n")
		} else {
			sb.WriteString("import (\n")
			for j, sp := range grp {
				cmt := cmt && !strings.HasPrefix(sp, c54Prunable)
				sp = strings.TrimPrefix(sp, c54Prunable)
				if j > 0 && g.pct(25, "impblank") {
					sb.WriteString("\n")
				}
				if cmt && j == 0 && g.pct(20, "impabove") {
					// a comment line above the first spec (comment lines between
					// specs are reshuffled non-idempotently by go/format's import
					// sorting; see the C54 notes)
					sb.WriteString(g.pick(c54Comments[:5], "impabovecomment") + "\n")
				}
				sb.WriteString(sp)
				if g.pct(15, "impsemi") {
					sb.WriteString(" ;")
				}
				if cmt && g.pct(20, "impspectrail") {
					sb.WriteString(" " + g.pick(c54Comments[:5], "impspectrailcomment"))
				}
				sb.WriteString("\n")
			}
			sb.WriteString(")\n")
		}
		if g.pct(30, "impgap") {
			sb.WriteString("\n")
		}
	}
	return sb.String()
}

// c54DrawProgram draws a whole file.
// With sibling=true the package-level declarations that shadow package names
// are put into a second file of the same package (returned as sib).
func c54DrawProgram(rt *rapid.T, sibling bool) (src, sib string, level int, impCmt bool) {
	g := &c54Prog{rt: rt}
	g.level = g.intn(0, 2, "level")
	g.impCmt = g.pct(50, "importcomments")
	var specs, shadow []string
	usedNames := map[string]bool{}
	addHandle := func(name string, p c54Pkg, broken bool, imported bool) {
		h := c54Handle{Name: name, Sels: p.Exports, Types: p.Types, Imported: imported}
		if broken {
			h.Sels = []string{"DoesNotExist", "Missing"}
			h.Types = nil
		}
		g.handles = append(g.handles, h)
	}
	all := append(append([]c54Pkg{}, c54Universe...), c54Unknown...)
	for _, p := range all {
		// how the package takes part: 0 absent, 1 imported+used, 2 imported unused,
		// 3 used but not imported (missing), 4 aliased+used, 5 aliased unused,
		// 6 blank import, 7 used-not-imported with a selector the package lacks
		// 8: not imported; the name is declared at package level by the file
		// itself and used with selectors (no import may be added for it)
		k := g.intn(0, 15, "pkgrole")
		if k > 8 {
			k = 0
		}
		name := p.Name
		switch k {
		case 1, 3, 7, 8:
			if usedNames[name] {
				continue
			}
		case 4:
			name = g.pick([]string{"al", "pk", "str", "r2", "u"}, "alias") + fmt.Sprint(len(specs))
		}
		switch k {
		case 1:
			specs = append(specs, fmt.Sprintf("%q", p.Path))
			addHandle(name, p, false, true)
			usedNames[name] = true
		case 2:
			if usedNames[name] {
				continue
			}
			specs = append(specs, c54Prunable+fmt.Sprintf("%q", p.Path))
			usedNames[name] = true // the name is taken: nothing else may provide or use it
		case 3:
			addHandle(name, p, false, false)
			usedNames[name] = true
		case 4:
			specs = append(specs, fmt.Sprintf("%s %q", name, p.Path))
			addHandle(name, p, false, true)
		case 5:
			specs = append(specs, c54Prunable+fmt.Sprintf("%s %q", g.pick([]string{"un", "zz"}, "unusedalias")+fmt.Sprint(len(specs)), p.Path))
		case 6:
			specs = append(specs, fmt.Sprintf("_ %q", p.Path))
		case 7:
			addHandle(name, p, true, false)
			usedNames[name] = true
		case 8:
			h := c54Handle{Name: name, Sels: p.Exports}
			g.handles = append(g.handles, h)
			usedNames[name] = true
			shadow = append(shadow, g.pick([]string{"var " + name + " = x", "func " + name + " ( ) { }", "type " + name + " struct { }", "var (\n" + name + " , " + name + "2 = 1 , 2\n)", "var " + name + "0 , " + name + " = 1 , 2", "const " + name + " = 1", "const (\n" + name + "1 = iota\n" + name + "\n)"}, "shadowdecl"))
		}
	}
	var sb strings.Builder
	if g.pct(30, "filedoc") {
		sb.WriteString(g.pick(c54Comments[:5], "filedoccomment") + "\n")
	}
	pkgName := g.pick([]string{"main", "foo", "p"}, "pkgname")
	if sibling {
		sib = "package " + pkgName + "\n\n" + strings.Join(shadow, "\n") + "\n"
		shadow = nil
	}
	sb.WriteString("package " + pkgName + "\n")
	sb.WriteString(g.importBlock(specs))
	// make sure every handle is referenced at least once at top level
	for _, h := range g.handles {
		if h.Imported || g.pct(60, "toplevelref") {
			sb.WriteString("var " + g.fresh("g") + " = " + h.Name + " . " + g.pick(h.Sels, "topsel") + "\n")
		}
	}
	for _, d := range shadow {
		sb.WriteString(d + "\n")
	}
	nd := g.intn(1, 5, "ndecls")
	for i := 0; i < nd; i++ {
		switch g.intn(0, 7, "decl") {
		case 0:
			t := g.fresh("T")
			sb.WriteString("type " + t + g.pick([]string{" ", " ", " = "}, "talias") + g.typ(3) + "\n")
			g.types = append(g.types, t)
		case 1:
			sb.WriteString("type (\n" + g.fresh("T") + " " + g.typ(2) + "\n" + g.fresh("T") + " " + g.typ(2) + "\n)\n")
		case 2:
			sb.WriteString("var " + g.fresh("g") + " " + g.typ(2) + " = " + g.expr(2, false) + "\n")
		case 3:
			sb.WriteString("const (\n" + g.fresh("K") + " = iota\n" + g.fresh("K") + "\n" + g.fresh("K") + " , " + g.fresh("K") + " = " + g.pick(c54Lits, "c1") + " , " + g.pick(c54Lits, "c2") + "\n)\n")
		case 4:
			sb.WriteString("var (\n" + g.fresh("g") + " , " + g.fresh("g") + " = " + g.expr(2, false) + " , " + g.expr(1, false) + "\n)\n")
		case 5:
			// method
			g.vars, g.labels = nil, nil
			recv := g.fresh("rcv")
			rt := "T"
			if len(g.types) > 0 {
				rt = g.pick(g.types, "recvtype")
			}
			sig := g.signature(2, true)
			sb.WriteString("func ( " + recv + " " + g.pick([]string{"", "* "}, "recvptr") + rt + " ) " + g.fresh("Method") + " " + sig + " " + g.block(3, false) + "\n")
		default:
			g.vars, g.labels = nil, nil
			f := g.fresh("f")
			sig := g.signature(2, true)
			if g.pct(8, "extern") {
				sb.WriteString("func " + f + " " + sig + "\n")
			} else {
				sb.WriteString("func " + f + " " + sig + " " + g.block(3, false) + "\n")
			}
			g.funcs = append(g.funcs, f)
		}
		if g.pct(30, "declgap") {
			sb.WriteString("\n")
		}
	}
	src = sb.String()
	if g.pct(85, "mutate") {
		src = c54MutateLayout(g, src)
	} else {
		g.level = -1
	}
	return src, sib, g.level, g.impCmt
}

// triggers automatic semicolon insertion at a following newline
func c54ASI(tok token.Token) bool {
	switch tok {
	case token.IDENT, token.INT, token.FLOAT, token.IMAG, token.CHAR, token.STRING,
		token.BREAK, token.CONTINUE, token.FALLTHROUGH, token.RETURN, token.INC, token.DEC,
		token.RPAREN, token.RBRACK, token.RBRACE:
		return true
	}
	return false
}

type c54Tok struct {
	tok token.Token
	lit string
}

// c54MutateLayout re-emits the token stream of src with drawn whitespace and
// comments between tokens. Newlines (and comments containing them) are only
// placed where they cannot trigger semicolon insertion; tokens are never glued
// without checking that they stay separate tokens.
func c54MutateLayout(g *c54Prog, src string) string {
	fset := token.NewFileSet()
	file := fset.AddFile("gen.gno", -1, len(src))
	var s scanner.Scanner
	errs := 0
	s.Init(file, []byte(src), func(token.Position, string) { errs++ }, scanner.ScanComments)
	var toks []c54Tok
	for {
		_, tok, lit := s.Scan()
		if tok == token.EOF {
			break
		}
		toks = append(toks, c54Tok{tok, lit})
	}
	if errs > 0 {
		return src
	}
	intensity := g.intn(5, 60, "intensity")
	// the import region ends with the semicolon closing the last import declaration
	regionEnd, depth, inImp := -1, 0, false
	for i, t := range toks {
		switch t.tok {
		case token.IMPORT:
			if depth == 0 {
				inImp = true
			}
		case token.LPAREN:
			depth++
		case token.RPAREN:
			depth--
		case token.SEMICOLON:
			if depth == 0 && inImp {
				regionEnd, inImp = i, false
			}
		}
	}
	userLevel := g.level
	afterLineComment := false
	var sb strings.Builder
	text := func(t c54Tok) string {
		if t.tok == token.SEMICOLON {
			return ";"
		}
		if t.lit != "" {
			return t.lit
		}
		return t.tok.String()
	}
	for i, t := range toks {
		// layout mutations draw no comments inside the import declarations (the
		// generator places the import comments itself, see importBlock)
		if i <= regionEnd {
			g.level = 0
		} else {
			g.level = userLevel
		}
		if t.tok == token.COMMENT {
			sb.WriteString(t.lit)
			switch {
			case !strings.HasPrefix(t.lit, "//"):
				sb.WriteString(" ")
			case i+1 < len(toks) && toks[i+1].tok == token.SEMICOLON && toks[i+1].lit == "\n":
				// the scanner reports the implicit semicolon after a trailing
				// line comment: its newline is written by the semicolon below
				afterLineComment = true
			default:
				sb.WriteString("\n")
			}
			continue
		}
		if t.tok == token.SEMICOLON && t.lit == "\n" {
			// implicit semicolon: keep a newline, or make it explicit
			switch {
			case afterLineComment:
				afterLineComment = false
				sb.WriteString("\n")
			case g.pct(intensity/4, "semiexplicit"):
				sb.WriteString(g.pick([]string{";", " ;", "; ", ";\n", " ;\n\n"}, "semiform"))
			case g.level >= 1 && g.pct(intensity/2, "semicomment"):
				sb.WriteString(" " + g.pick([]string{"// c", "// TODO(x): y", "//nospace", "// trailing  "}, "eolcomment") + "\n")
			default:
				sb.WriteString(g.pick([]string{"\n", "\n", "\n", "\n\n", " \n", "\t\n", "\n\n\n", "\r\n"}, "nl"))
				if g.level >= 2 && g.pct(intensity/3, "ownline") {
					sb.WriteString(g.pick([]string{"// own line", "/* own */", "\t// indented own line", "// one\n// two", "/* multi\n   line */", "/*\n*/", "\n// after blank"}, "ownlinecomment") + "\n")
				}
			}
			continue
		}
		sb.WriteString(text(t))
		if i+1 >= len(toks) {
			break
		}
		next := toks[i+1]
		if next.tok == token.SEMICOLON && next.lit == "\n" {
			continue // the newline comes with the implicit semicolon
		}
		nlOK := !c54ASI(t.tok)
		if next.tok == token.RBRACK {
			// "[ <newline> ] /* c */ T" and "[ ... <newline> ] /* c */ T": go/printer
			// moves the line break behind the bracket and emits code that no
			// longer parses (upstream); keep the closing bracket on the line
			sb.WriteString(" ")
			continue
		}
		if next.tok == token.COMMENT {
			// an existing comment follows: keep plain spacing before it
			sb.WriteString(" ")
			continue
		}
		if !g.pct(intensity, "mutatehere") {
			sb.WriteString(" ")
			continue
		}
		k := g.intn(0, 9, "sepkind")
		switch {
		case k == 0:
			sb.WriteString(g.pick([]string{"  ", "\t", " \t ", "      "}, "spaces"))
		case k == 1 && c54Glue(t, next):
			// no space at all
		case (k == 2 || k == 3) && nlOK:
			sb.WriteString(g.pick([]string{"\n", "\n\n", "\n\t", " \n  "}, "newline"))
		case k == 4 && g.level >= 3:
			sb.WriteString(" " + g.pick([]string{"/* b */", "/**/", "/* // */", "/* x */ /* y */"}, "inlinecomment") + " ")
		case k == 5 && nlOK && g.level >= 4:
			sb.WriteString(" " + g.pick([]string{"// c", "// TODO(x): y", "//nospace", "//", "// a /* b */", "// é✓"}, "linecomment") + "\n")
		case k == 6 && nlOK && g.level >= 4:
			sb.WriteString(" " + g.pick([]string{"/* multi\n   line */", "/*\n*/", "/* a\n\n b */"}, "mlcomment") + " ")
		case k == 7 && nlOK && g.level >= 5:
			sb.WriteString("\n" + g.pick([]string{"// own line", "/* own */", "\t// indented own line", "// one\n// two"}, "ownline") + "\n")
		default:
			sb.WriteString(" ")
		}
	}
	g.level = userLevel
	out := sb.String()
	if !strings.HasSuffix(out, "\n") && g.pct(70, "finalnl") {
		out += "\n"
	}
	return out
}

// c54Glue reports whether two tokens can be written without a separator.
func c54Glue(a, b c54Tok) bool {
	brk := func(t token.Token) bool {
		switch t {
		case token.LPAREN, token.RPAREN, token.LBRACK, token.RBRACK, token.LBRACE, token.RBRACE, token.COMMA, token.SEMICOLON:
			return true
		}
		return false
	}
	if brk(a.tok) || brk(b.tok) {
		return true
	}
	return false
}
