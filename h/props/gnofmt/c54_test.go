package gnofmt

import (
	"bytes"
	"errors"
	"fmt"
	"go/ast"
	"go/parser"
	"go/token"
	"hash/fnv"
	"io"
	"os"
	"path/filepath"
	"sort"
	"strconv"
	"strings"
	"sync"
	"testing"

	gf "github.com/gnolang/gno/gnovm/pkg/gnofmt"
	"pgregory.net/rapid"
	"verif/vk"
)

// C54 — gno fmt is idempotent and preserves program meaning.
//
// Oracle: an independent parse (go/parser, the parser gno fmt itself declares
// as its input language) of input and output, compared through a canonical
// dump that erases positions, comments, redundant parentheses, empty
// statements and number-literal spelling; import declarations are compared
// separately against the documented rewrite (unused imports may go, imports
// for unresolved package references may come, nothing else), and the output is
// formatted a second time and must not change.

type c54Case struct {
	Kind string `json:"kind"`           // corpus | gen
	File string `json:"file,omitempty"` // corpus: path relative to the gno root
	API  string `json:"api"`            // file (FormatFile) | import (FormatImportFromSource) | source (FormatSource) | package (FormatPackageFile, gen only)
	Sib  string `json:"sib,omitempty"`  // gen, api=package: a second file of the same package
	Src  string `json:"src,omitempty"`  // gen: the program text
	Lvl  int    `json:"lvl,omitempty"`  // gen: comment-placement level of the layout mutation (informational)
	ImpC bool   `json:"impc,omitempty"` // gen: comments inside import declarations (informational)
}

func c54Root() string {
	if r := os.Getenv("GNOROOT"); r != "" {
		return r
	}
	return "/repo"
}

// ---- resolvers

type c54MemPkg struct {
	path, name string
	names      []string
	files      map[string][]byte
}

func (p *c54MemPkg) Path() string    { return p.path }
func (p *c54MemPkg) Name() string    { return p.name }
func (p *c54MemPkg) Files() []string { return p.names }
func (p *c54MemPkg) Read(fn string) (io.ReadCloser, error) {
	b, ok := p.files[fn]
	if !ok {
		return nil, fmt.Errorf("file not found %q", fn)
	}
	return io.NopCloser(bytes.NewReader(b)), nil
}

type c54MemResolver struct {
	byPath map[string]gf.Package
	byName map[string][]gf.Package
}

func (r *c54MemResolver) ResolveName(n string) []gf.Package { return r.byName[n] }
func (r *c54MemResolver) ResolvePath(p string) gf.Package {
	if pkg, ok := r.byPath[p]; ok {
		return pkg
	}
	return nil
}

var (
	c54GenOnce sync.Once
	c54GenRes  *c54MemResolver
	c54FSOnce  sync.Once
	c54FSRes   *gf.FSResolver
	c54FSErr   error
)

func c54GenResolver() *c54MemResolver {
	c54GenOnce.Do(func() {
		r := &c54MemResolver{byPath: map[string]gf.Package{}, byName: map[string][]gf.Package{}}
		for _, p := range c54Universe {
			var sb strings.Builder
			sb.WriteString("package " + p.Name + "\n\n")
			isType := map[string]bool{}
			for _, t := range p.Types {
				isType[t] = true
			}
			for _, e := range p.Exports {
				if isType[e] {
					sb.WriteString("type " + e + " struct{}\n")
				} else {
					sb.WriteString("func " + e + "() {}\n")
				}
			}
			sb.WriteString("func unexported() {}\n")
			pkg := &c54MemPkg{path: p.Path, name: p.Name, names: []string{p.Name + ".gno"}, files: map[string][]byte{p.Name + ".gno": []byte(sb.String())}}
			r.byPath[p.Path] = pkg
			r.byName[p.Name] = append(r.byName[p.Name], pkg)
		}
		c54GenRes = r
	})
	return c54GenRes
}

// the resolver `gno fmt` builds: stdlibs, then examples
func c54FSResolver() (*gf.FSResolver, error) {
	c54FSOnce.Do(func() {
		r := gf.NewFSResolver()
		ignore := func(string, error) error { return nil } // the CLI prints and continues
		root := c54Root()
		if err := r.LoadPackages(filepath.Join(root, "gnovm", "stdlibs"), ignore); err != nil {
			c54FSErr = err
			return
		}
		if err := r.LoadPackages(filepath.Join(root, "examples"), ignore); err != nil {
			c54FSErr = err
			return
		}
		c54FSRes = r
	})
	return c54FSRes, c54FSErr
}

// exported top-level names of a resolver package (parsed by the harness)
func c54Exposed(pkg gf.Package) map[string]bool {
	out := map[string]bool{}
	for _, fn := range pkg.Files() {
		if filepath.Ext(fn) != ".gno" {
			continue
		}
		rc, err := pkg.Read(fn)
		if err != nil {
			continue
		}
		b, _ := io.ReadAll(rc)
		rc.Close()
		f, err := parser.ParseFile(token.NewFileSet(), fn, b, parser.SkipObjectResolution)
		if err != nil {
			continue
		}
		tl := map[string]bool{}
		c54TopLevel(f, tl)
		for n := range tl {
			if ast.IsExported(n) {
				out[n] = true
			}
		}
	}
	return out
}

// ---- corpus support

func c54IsGnoFile(name string) bool {
	return filepath.Ext(name) == ".gno" && !strings.HasPrefix(name, ".")
}

// c54ExpectsError mirrors the routing rule documented in cmd/gno/fmt.go: a
// filetest carrying an `// Error:` or `// TypeCheckError:` directive is
// formatted layout-only.
func c54ExpectsError(src []byte) bool {
	for _, l := range bytes.Split(src, []byte("\n")) {
		if bytes.HasPrefix(l, []byte("// Error:")) || bytes.HasPrefix(l, []byte("// TypeCheckError:")) {
			return true
		}
	}
	return false
}

type c54DirInfo struct {
	names    []string          // gno files of the directory
	content  map[string][]byte // their bytes
	topLevel map[string]bool   // package-level names declared by any file that parses
	pkgName  string
}

var (
	c54DirMu    sync.Mutex
	c54DirCache = map[string]*c54DirInfo{}
)

func c54Dir(dir string) (*c54DirInfo, error) {
	c54DirMu.Lock()
	defer c54DirMu.Unlock()
	if d, ok := c54DirCache[dir]; ok {
		return d, nil
	}
	ents, err := os.ReadDir(dir)
	if err != nil {
		return nil, err
	}
	d := &c54DirInfo{content: map[string][]byte{}, topLevel: map[string]bool{}}
	for _, e := range ents {
		if e.IsDir() || !c54IsGnoFile(e.Name()) {
			continue
		}
		b, err := os.ReadFile(filepath.Join(dir, e.Name()))
		if err != nil {
			return nil, err
		}
		d.names = append(d.names, e.Name())
		d.content[e.Name()] = b
		if f, err := parser.ParseFile(token.NewFileSet(), e.Name(), b, parser.SkipObjectResolution); err == nil {
			c54TopLevel(f, d.topLevel)
			if !strings.HasSuffix(e.Name(), "_test.gno") && !strings.HasSuffix(e.Name(), "_filetest.gno") {
				d.pkgName = f.Name.Name
			}
		}
	}
	sort.Strings(d.names)
	c54DirCache[dir] = d
	return d, nil
}

var (
	c54ProcMu sync.Mutex
	c54Proc   *gf.Processor // first-pass processor of corpus cases, shared like the CLI shares it across files
)

// ---- the check

type c54Runner struct {
	first  func() ([]byte, error)
	second func(out []byte) ([]byte, error)
}

func c54Exec(ctx *vk.Ctx, c c54Case) error {
	ctx.Class("kind=" + c.Kind)
	ctx.Class("api=" + c.API)
	if c.Kind == "gen" {
		ctx.Class(fmt.Sprintf("lvl=%d,impc=%v", c.Lvl, c.ImpC))
	}
	var (
		src      []byte
		filename string
		resolver gf.Resolver
		extraTop map[string]bool // package-level names of sibling files (api=file)
		run      c54Runner
	)
	switch c.Kind {
	case "corpus":
		path := filepath.Join(c54Root(), c.File)
		b, err := os.ReadFile(path)
		if err != nil {
			return fmt.Errorf("harness: %v", err)
		}
		src, filename = b, path
		fsr, err := c54FSResolver()
		if err != nil {
			return fmt.Errorf("harness: resolver: %v", err)
		}
		resolver = fsr
		switch c.API {
		case "file":
			dir := filepath.Dir(path)
			di, err := c54Dir(dir)
			if err != nil {
				return fmt.Errorf("harness: %v", err)
			}
			extraTop = di.topLevel
			run.first = func() ([]byte, error) {
				c54ProcMu.Lock()
				defer c54ProcMu.Unlock()
				if c54Proc == nil {
					c54Proc = gf.NewProcessor(fsr)
				}
				return c54Proc.FormatFile(path)
			}
			run.second = func(out []byte) ([]byte, error) {
				// the same package with this file replaced by its formatted text
				ov := &c54MemPkg{path: dir, name: di.pkgName, names: di.names, files: map[string][]byte{}}
				for n, b := range di.content {
					ov.files[n] = b
				}
				ov.files[filepath.Base(path)] = out
				return gf.NewProcessor(fsr).FormatPackageFile(ov, filepath.Base(path))
			}
		case "import":
			run.first = func() ([]byte, error) { return gf.NewProcessor(fsr).FormatImportFromSource(path, src) }
			run.second = func(out []byte) ([]byte, error) { return gf.NewProcessor(fsr).FormatImportFromSource(path, out) }
		default:
			run.first = func() ([]byte, error) { return gf.NewProcessor(fsr).FormatSource(path, src) }
			run.second = func(out []byte) ([]byte, error) { return gf.NewProcessor(fsr).FormatSource(path, out) }
		}
	default:
		src, filename = []byte(c.Src), "gen.gno"
		gr := c54GenResolver()
		resolver = gr
		if c.API == "package" {
			sf, err := parser.ParseFile(token.NewFileSet(), "sib.gno", c.Sib, parser.SkipObjectResolution)
			if err != nil {
				return fmt.Errorf("harness: sibling file does not parse: %v", err)
			}
			extraTop = map[string]bool{}
			c54TopLevel(sf, extraTop)
			mk := func(main []byte) *c54MemPkg {
				return &c54MemPkg{path: "gno.land/r/gen/pkg", name: sf.Name.Name, names: []string{"gen.gno", "sib.gno"},
					files: map[string][]byte{"gen.gno": main, "sib.gno": []byte(c.Sib)}}
			}
			run.first = func() ([]byte, error) { return gf.NewProcessor(gr).FormatPackageFile(mk(src), filename) }
			run.second = func(out []byte) ([]byte, error) { return gf.NewProcessor(gr).FormatPackageFile(mk(out), filename) }
		} else if c.API == "import" {
			run.first = func() ([]byte, error) { return gf.NewProcessor(gr).FormatImportFromSource(filename, src) }
			run.second = func(out []byte) ([]byte, error) { return gf.NewProcessor(gr).FormatImportFromSource(filename, out) }
		} else {
			run.first = func() ([]byte, error) { return gf.NewProcessor(gr).FormatSource(filename, src) }
			run.second = func(out []byte) ([]byte, error) { return gf.NewProcessor(gr).FormatSource(filename, out) }
		}
	}

	in, err := c54Parse(filename, src)
	if err != nil {
		// outside the property's domain ("every Gno source file that parses")
		ctx.Class("input-does-not-parse")
		ctx.Note("parse", err.Error())
		return nil
	}
	out, err := run.first()
	if err != nil {
		if c.API == "file" && (errors.Is(err, gf.ErrPackageConflict) || strings.Contains(err.Error(), "unable to process package")) {
			// documented: the directory cannot be treated as one package
			// (conflicting package names / a sibling that does not parse)
			ctx.Class("package-not-formattable")
			return nil
		}
		return fmt.Errorf("formatting a file that parses failed: %v", err)
	}
	po, err := c54Parse(filename, out)
	if err != nil {
		return fmt.Errorf("formatted output does not parse: %v\n--- output:\n%s", err, c54Clip(string(out)))
	}
	if in.Decls != po.Decls {
		return fmt.Errorf("formatting changed the syntax tree %s\n--- input:\n%s\n--- output:\n%s", c54FirstDiff(in.Decls, po.Decls), c54Clip(string(src)), c54Clip(string(out)))
	}

	// imports
	inSet, outSet := c54ImportSet(in.Imports), c54ImportSet(po.Imports)
	effName := func(im c54Import) string {
		if im.Name != "" {
			return im.Name
		}
		if pkg := resolver.ResolvePath(im.Path); pkg != nil {
			return pkg.Name()
		}
		return c54LastElem(im.Path)
	}
	// candidate package references: unresolved selector bases that are not
	// declared at package level (in this file or, for FormatFile, a sibling)
	used := map[string]map[string]bool{}
	for n, sels := range in.Used {
		if in.TopLevel[n] || extraTop[n] {
			continue
		}
		used[n] = sels
	}
	provided := map[string]bool{}
	for _, im := range in.Imports {
		provided[effName(im)] = true
	}
	var removed, added []c54Import
	for _, im := range c54SortedImports(inSet) {
		if outSet[im] == 0 {
			removed = append(removed, im)
		}
	}
	for _, im := range c54SortedImports(outSet) {
		if inSet[im] == 0 {
			added = append(added, im)
		}
	}
	if c.API == "source" && (len(removed) > 0 || len(added) > 0) {
		return fmt.Errorf("FormatSource (layout only) changed the import set: removed %v added %v\n--- input:\n%s", removed, added, c54Clip(string(src)))
	}
	for _, im := range removed {
		if im.Name == "_" {
			return fmt.Errorf("formatting dropped the blank import %s\n--- input:\n%s\n--- output:\n%s", im, c54Clip(string(src)), c54Clip(string(out)))
		}
		if im.Name == "." {
			continue // dot imports are not Gno
		}
		if _, isUsed := used[effName(im)]; isUsed {
			// Known-finding hook: a blank import of a package with the same name
			// consumed the unresolved reference (cleanupPreviousImports).
			if c54BlankNames(in.Imports, effNameOf(resolver))[effName(im)] && ctx.Known("blank-import-consumes-reference") {
				ctx.Class("known:blank-import-consumes-reference")
				return nil
			}
			return fmt.Errorf("formatting dropped import %s although %s.%v is referenced\n--- input:\n%s\n--- output:\n%s", im, effName(im), c54Keys(used[effName(im)]), c54Clip(string(src)), c54Clip(string(out)))
		}
	}
	for _, im := range added {
		if im.Name != "" {
			return fmt.Errorf("formatting added a named import %s", im)
		}
		pkg := resolver.ResolvePath(im.Path)
		if pkg == nil {
			return fmt.Errorf("formatting added import %s that the resolver does not know", im)
		}
		sels, isUsed := used[pkg.Name()]
		if !isUsed {
			return fmt.Errorf("formatting added import %s but %q is not an unresolved package reference of the file\n--- input:\n%s", im, pkg.Name(), c54Clip(string(src)))
		}
		if provided[pkg.Name()] {
			return fmt.Errorf("formatting added import %s although the name %q is already provided by an import of the file\n--- input:\n%s", im, pkg.Name(), c54Clip(string(src)))
		}
		exp := c54Exposed(pkg)
		hit := false
		for s := range sels {
			if exp[s] {
				hit = true
			}
		}
		if !hit {
			return fmt.Errorf("formatting added import %s but the package exposes none of the selected names %v", im, c54Keys(sels))
		}
	}

	// idempotence
	out2, err := run.second(out)
	if err != nil {
		return fmt.Errorf("formatting the formatted output failed: %v\n--- first output:\n%s", err, c54Clip(string(out)))
	}
	if !bytes.Equal(out, out2) {
		// Known-finding hook, second face of the same defect: the first pass
		// sorted a blank import in front of the real import of the same name.
		if bn := c54BlankNames(po.Imports, effNameOf(resolver)); len(bn) > 0 {
			if p2, perr := c54Parse(filename, out2); perr == nil && p2.Decls == po.Decls {
				s2 := c54ImportSet(p2.Imports)
				only := true
				for _, im := range po.Imports {
					if s2[im] == 0 && (im.Name == "_" || !bn[effNameOf(resolver)(im)]) {
						only = false
					}
				}
				for _, im := range p2.Imports {
					if outSet[im] == 0 {
						only = false
					}
				}
				if only && ctx.Known("blank-import-consumes-reference") {
					ctx.Class("known:blank-import-consumes-reference")
					return nil
				}
			}
		}
		return fmt.Errorf("not idempotent: fmt(fmt(x)) != fmt(x) %s\n--- input:\n%s", c54FirstDiff(string(out), string(out2)), c54Clip(string(src)))
	}

	changed := !bytes.Equal(src, out)
	ctx.ClassIf(changed, "layout-or-imports-changed")
	ctx.ClassIf(len(removed) > 0, "imports-removed")
	ctx.ClassIf(len(added) > 0, "imports-added")
	ctx.ClassIf(len(in.Imports) > 0, "has-imports")
	ctx.ClassIf(len(in.File.Comments) > 0, "has-comments")
	keptUsed := false
	for _, im := range in.Imports {
		if _, u := used[effName(im)]; u && outSet[im] > 0 {
			keptUsed = true
		}
	}
	ctx.ClassIf(keptUsed, "used-import-kept")
	// imports whose name only the path convention can tell (unknown to the
	// resolver, not renamed) and whose path ends in a version element
	for _, im := range in.Imports {
		if im.Name != "" || resolver.ResolvePath(im.Path) != nil {
			continue
		}
		if i := strings.LastIndex(im.Path, "/"); i >= 0 && c54IsVersionElem(im.Path[i+1:]) {
			if _, u := used[effName(im)]; u && outSet[im] > 0 {
				ctx.Class("unresolved-versioned-import:used-kept")
			} else if !u && outSet[im] == 0 {
				ctx.Class("unresolved-versioned-import:unused-pruned")
			} else {
				ctx.Class("unresolved-versioned-import:other")
			}
		}
	}
	for _, im := range in.Imports {
		if im.Name == "_" {
			ctx.Class("blank-import")
			break
		}
	}
	if c.Kind == "corpus" {
		ctx.NT()
	} else {
		// generated: the formatter had something to do
		ctx.NTIf(changed)
	}
	return nil
}

func effNameOf(resolver gf.Resolver) func(c54Import) string {
	return func(im c54Import) string {
		if im.Name != "" {
			return im.Name
		}
		if pkg := resolver.ResolvePath(im.Path); pkg != nil {
			return pkg.Name()
		}
		return c54LastElem(im.Path)
	}
}

// c54BlankNames returns the package names of the blank imports.
func c54BlankNames(ims []c54Import, eff func(c54Import) string) map[string]bool {
	out := map[string]bool{}
	for _, im := range ims {
		if im.Name == "_" {
			out[eff(c54Import{Path: im.Path})] = true
		}
	}
	return out
}

func c54Shards() int {
	for _, a := range os.Args {
		if strings.HasPrefix(a, "-rapid.checks=") {
			if n, err := strconv.Atoi(strings.TrimPrefix(a, "-rapid.checks=")); err == nil && n >= 1 {
				return n
			}
		}
	}
	return 1
}

func c54Keys(m map[string]bool) []string {
	var k []string
	for s := range m {
		k = append(k, s)
	}
	sort.Strings(k)
	return k
}

func c54Clip(s string) string {
	if len(s) > 2500 {
		return s[:2500] + "\n…"
	}
	return s
}

const c54Rule = "generated: rapid draws a Gno program from a grammar of declarations/statements/expressions/types with an import block over 10 packages the in-memory resolver knows " +
	"plus 6 packages the resolver does not know, three of them with a path ending in a version element /vN (named by the element before it, Gno's package-name rule) and one whose last element only looks like a version " +
	"(each package absent / imported+used / imported unused / used but missing / aliased / blank; two packages share a name, two have a path whose last element is not the name; grouped, ungrouped and several import declarations; comments on kept specs of a single declaration), " +
	"then re-emits the token stream with drawn whitespace, blank lines, line breaks wherever no semicolon is inserted, explicit semicolons, trailing line comments at statement ends and own-line (line, block, multi-line) comments between statements; formatted with FormatImportFromSource, FormatSource, or FormatPackageFile (two-file package whose second file declares names that shadow package names) against an in-memory resolver. " +
	"corpus: every .gno file under examples/ and gnovm/tests/files that parses, routed like `gno fmt` (FormatFile for package directories, FormatSource for filetests expecting an error, FormatImportFromSource otherwise) with the stdlibs+examples resolver. " +
	"non-trivial = generated: the formatter changed the text; corpus: every parsed file (distinct by path)"

func TestC54_Gen(t *testing.T) {
	vk.Run(t, vk.Spec[c54Case]{
		ID: "C54", Name: "TestC54_Gen", Rule: c54Rule,
		Draw: func(rt *rapid.T) c54Case {
			c := c54Case{Kind: "gen", API: "import"}
			switch c54Uniform(rt, 0, 4, "api") {
			case 0:
				c.API = "source"
			case 1:
				c.API = "package"
			}
			c.Src, c.Sib, c.Lvl, c.ImpC = c54DrawProgram(rt, c.API == "package")
			return c
		},
		Exec: c54Exec,
	})
}

// TestC54_Corpus enumerates the repository's own Gno files.
func TestC54_Corpus(t *testing.T) {
	r := vk.Open(t, "C54", "TestC54_Corpus", c54Rule)
	defer r.Close()
	if vk.Replaying() {
		t.Skip()
	}
	r.ReplayAs = "TestC54_Gen"
	root := c54Root()
	var cases []c54Case
	for _, sub := range []string{"examples", filepath.Join("gnovm", "tests", "files")} {
		filetests := sub != "examples"
		err := filepath.WalkDir(filepath.Join(root, sub), func(p string, d os.DirEntry, err error) error {
			if err != nil {
				return err
			}
			if d.IsDir() || !c54IsGnoFile(d.Name()) {
				return nil
			}
			rel, _ := filepath.Rel(root, p)
			c := c54Case{Kind: "corpus", File: rel, API: "file"}
			if filetests {
				b, err := os.ReadFile(p)
				if err != nil {
					return err
				}
				if c54ExpectsError(b) {
					c.API = "source"
				} else {
					c.API = "import"
				}
			}
			cases = append(cases, c)
			return nil
		})
		if err != nil {
			t.Fatalf("walking corpus: %v", err)
		}
	}
	sort.Slice(cases, func(i, j int) bool { return cases[i].File < cases[j].File })
	// The driver starts P processes for a registration [N, P] and hands each
	// -rapid.checks=N/P and VERIF_SHARD=0..P-1. This enumerator is registered
	// as [P*P, P]: the per-process count is the number of shards, and every
	// shard takes the directories hashing to its index, so the union of the
	// shards is the whole corpus in every tier.
	shards, shard := c54Shards(), r.Shard
	if shard >= shards {
		shards = shard + 1
	}
	var mine []c54Case
	for _, c := range cases {
		h := fnv.New32a()
		h.Write([]byte(filepath.Dir(c.File)))
		if int(h.Sum32()%uint32(shards)) == shard {
			mine = append(mine, c)
		}
	}
	r.Extra("corpus_files_total", len(cases))
	r.Extra("exhaustive", true)
	for _, c := range mine {
		c := c
		if r.Do(c, func(ctx *vk.Ctx) error { return c54Exec(ctx, c) }) != nil {
			return
		}
	}
}
