package gnofmt

// C54 oracle helpers: a canonical dump of a Go/Gno syntax tree that erases
// positions, comments and resolver artefacts, and the import-rewrite model.

import (
	"fmt"
	"go/ast"
	"go/constant"
	"go/parser"
	"go/token"
	"reflect"
	"sort"
	"strconv"
	"strings"
)

type c54Import struct {
	Name string // "" when not named
	Path string
}

func (i c54Import) String() string {
	if i.Name == "" {
		return strconv.Quote(i.Path)
	}
	return i.Name + " " + strconv.Quote(i.Path)
}

// c54Parsed is what the oracle keeps of one file.
type c54Parsed struct {
	File    *ast.File
	Decls   string      // canonical dump of the package clause and all non-import declarations
	Imports []c54Import // in source order
	// Used maps every name that occurs as the base of a selector expression
	// while not being resolvable inside the file (i.e. a candidate package
	// reference) to the set of selected identifiers.
	Used map[string]map[string]bool
	// TopLevel lists the names declared at package level in this file.
	TopLevel map[string]bool
}

func c54Parse(filename string, src []byte) (*c54Parsed, error) {
	fset := token.NewFileSet()
	f, err := parser.ParseFile(fset, filename, src, parser.ParseComments|parser.AllErrors)
	if err != nil {
		return nil, err
	}
	p := &c54Parsed{File: f, Used: map[string]map[string]bool{}, TopLevel: map[string]bool{}}
	var sb strings.Builder
	sb.WriteString("package " + f.Name.Name + "\n")
	for _, d := range f.Decls {
		if g, ok := d.(*ast.GenDecl); ok && g.Tok == token.IMPORT {
			for _, s := range g.Specs {
				is := s.(*ast.ImportSpec)
				path, uerr := strconv.Unquote(is.Path.Value)
				if uerr != nil {
					path = is.Path.Value
				}
				im := c54Import{Path: path}
				if is.Name != nil {
					im.Name = is.Name.Name
				}
				p.Imports = append(p.Imports, im)
			}
			continue
		}
		c54Dump(&sb, reflect.ValueOf(d), 0)
		sb.WriteString("\n")
	}
	p.Decls = sb.String()

	unresolved := map[*ast.Ident]bool{}
	for _, u := range f.Unresolved {
		unresolved[u] = true
	}
	ast.Inspect(f, func(n ast.Node) bool {
		if se, ok := n.(*ast.SelectorExpr); ok {
			if id, ok := se.X.(*ast.Ident); ok && unresolved[id] {
				if p.Used[id.Name] == nil {
					p.Used[id.Name] = map[string]bool{}
				}
				p.Used[id.Name][se.Sel.Name] = true
			}
		}
		return true
	})
	c54TopLevel(f, p.TopLevel)
	return p, nil
}

func c54TopLevel(f *ast.File, into map[string]bool) {
	for _, d := range f.Decls {
		switch d := d.(type) {
		case *ast.GenDecl:
			for _, s := range d.Specs {
				switch s := s.(type) {
				case *ast.TypeSpec:
					into[s.Name.Name] = true
				case *ast.ValueSpec:
					for _, n := range s.Names {
						into[n.Name] = true
					}
				}
			}
		case *ast.FuncDecl:
			if d.Recv == nil {
				into[d.Name.Name] = true
			}
		}
	}
}

var (
	c54PosType     = reflect.TypeOf(token.NoPos)
	c54CGType      = reflect.TypeOf((*ast.CommentGroup)(nil))
	c54ObjType     = reflect.TypeOf((*ast.Object)(nil))
	c54ScopeType   = reflect.TypeOf((*ast.Scope)(nil))
	c54ExprType    = reflect.TypeOf((*ast.Expr)(nil)).Elem()
	c54StmtType    = reflect.TypeOf((*ast.Stmt)(nil)).Elem()
	c54BasicLitTyp = reflect.TypeOf((*ast.BasicLit)(nil))
)

// positions that carry meaning as a presence flag
var c54PosFlags = map[string]bool{
	"CallExpr.Ellipsis": true, // f(x...)
	"TypeSpec.Assign":   true, // type A = B
}

func c54Lit(l *ast.BasicLit) string {
	switch l.Kind {
	case token.INT, token.FLOAT, token.IMAG:
		// go/format normalises the spelling of number literals (0X1F -> 0x1F,
		// 1E3 -> 1e3, 0i forms); compare by value.
		if v := constant.MakeFromLiteral(l.Value, l.Kind, 0); v.Kind() != constant.Unknown {
			return l.Kind.String() + ":" + v.ExactString()
		}
	}
	return l.Kind.String() + ":" + l.Value
}

func c54Dump(sb *strings.Builder, v reflect.Value, depth int) {
	if !v.IsValid() {
		sb.WriteString("nil")
		return
	}
	switch v.Kind() {
	case reflect.Interface:
		if v.IsNil() {
			sb.WriteString("nil")
			return
		}
		c54Dump(sb, v.Elem(), depth)
	case reflect.Ptr:
		if v.IsNil() {
			sb.WriteString("nil")
			return
		}
		switch n := v.Interface().(type) {
		case *ast.ParenExpr:
			// parentheses are layout: go/printer strips redundant ones
			// (control clauses, types); the tree shape of what they group
			// is still compared
			c54Dump(sb, reflect.ValueOf(n.X), depth)
			return
		case *ast.BasicLit:
			sb.WriteString("(" + c54Lit(n) + ")")
			return
		case *ast.Ident:
			sb.WriteString("`" + n.Name + "`")
			return
		}
		c54Dump(sb, v.Elem(), depth)
	case reflect.Struct:
		t := v.Type()
		sb.WriteString("(" + t.Name())
		for i := 0; i < t.NumField(); i++ {
			ft := t.Field(i)
			fv := v.Field(i)
			key := t.Name() + "." + ft.Name
			if ft.Type == c54PosType {
				if c54PosFlags[key] {
					fmt.Fprintf(sb, " %s=%v", ft.Name, fv.Interface().(token.Pos).IsValid())
				}
				continue
			}
			if ft.Type == c54CGType || ft.Type == c54ObjType || ft.Type == c54ScopeType {
				continue
			}
			if key == "EmptyStmt.Implicit" {
				continue
			}
			sb.WriteString(" " + ft.Name + "=")
			c54Dump(sb, fv, depth+1)
		}
		sb.WriteString(")")
	case reflect.Slice:
		sb.WriteString("[")
		first := true
		for i := 0; i < v.Len(); i++ {
			e := v.Index(i)
			if v.Type().Elem() == c54StmtType && !e.IsNil() {
				if _, empty := e.Interface().(*ast.EmptyStmt); empty {
					continue // go/printer drops empty statements from statement lists
				}
			}
			if !first {
				sb.WriteString(" ")
			}
			first = false
			c54Dump(sb, e, depth+1)
		}
		sb.WriteString("]")
	case reflect.String:
		sb.WriteString(strconv.Quote(v.String()))
	case reflect.Bool:
		fmt.Fprintf(sb, "%v", v.Bool())
	case reflect.Int, reflect.Int8, reflect.Int16, reflect.Int32, reflect.Int64:
		if tok, ok := v.Interface().(token.Token); ok {
			sb.WriteString(tok.String())
		} else {
			fmt.Fprintf(sb, "%d", v.Int())
		}
	case reflect.Uint, reflect.Uint8, reflect.Uint16, reflect.Uint32, reflect.Uint64:
		fmt.Fprintf(sb, "%d", v.Uint())
	default:
		fmt.Fprintf(sb, "?%s", v.Kind())
	}
}

// c54FirstDiff returns a short excerpt around the first difference.
func c54FirstDiff(a, b string) string {
	i := 0
	for i < len(a) && i < len(b) && a[i] == b[i] {
		i++
	}
	from := i - 120
	if from < 0 {
		from = 0
	}
	cut := func(s string) string {
		to := i + 160
		if to > len(s) {
			to = len(s)
		}
		if from > len(s) {
			return ""
		}
		return s[from:to]
	}
	return fmt.Sprintf("at byte %d:\n    in : …%s…\n    out: …%s…", i, cut(a), cut(b))
}

// c54LastElem is the name a file uses for an imported package that nobody can
// look up: the last path element, or, when that element is a version (v0, v1,
// v2, ... — "v" followed by a decimal number without leading zero), the
// element before it (Gno's rule that the package at gno.land/r/foo/v2 is named
// foo). Written from that rule, not from the formatter's code.
func c54LastElem(path string) string {
	elems := strings.Split(path, "/")
	last := elems[len(elems)-1]
	if len(elems) >= 2 && c54IsVersionElem(last) {
		return elems[len(elems)-2]
	}
	return last
}

func c54IsVersionElem(s string) bool {
	if len(s) < 2 || s[0] != 'v' {
		return false
	}
	d := s[1:]
	if len(d) > 1 && d[0] == '0' {
		return false
	}
	for i := 0; i < len(d); i++ {
		if d[i] < '0' || d[i] > '9' {
			return false
		}
	}
	return true
}

func c54ImportSet(is []c54Import) map[c54Import]int {
	m := map[c54Import]int{}
	for _, i := range is {
		m[i]++
	}
	return m
}

func c54SortedImports(m map[c54Import]int) []c54Import {
	var out []c54Import
	for i := range m {
		out = append(out, i)
	}
	sort.Slice(out, func(a, b int) bool {
		if out[a].Path != out[b].Path {
			return out[a].Path < out[b].Path
		}
		return out[a].Name < out[b].Name
	})
	return out
}
