package crypto

import (
	"bytes"
	"encoding/json"
	"fmt"
	"strings"
	"testing"

	"github.com/gnolang/gno/tm2/pkg/amino"
	gbits "github.com/gnolang/gno/tm2/pkg/bitarray"
	"pgregory.net/rapid"
	"verif/vk"
)

// C48 (part 1) — tm2/pkg/bitarray.BitArray behaves like a boolean vector.
//
// A case is a small program over four registers. The reference model of a
// register is (isNil, []bool). Size rules are the documented ones: Or -> max
// size (right-padding with zeroes), And -> min size, Sub -> receiver's size
// (argument right-padded with zeroes / truncated), Not/Copy -> same size.
// nil follows the explicit nil branches of the code (nil.Or(x)=copy of x,
// And/Sub with a nil side = nil, Not/Copy of nil = nil, nil IsEmpty/IsFull).
// Get/Set are only issued with 0 <= i < size (documented precondition).

type c48Op struct {
	Op  string `json:"op"`
	Dst int    `json:"dst,omitempty"`
	A   int    `json:"a"`
	B   int    `json:"b,omitempty"`
	I   int    `json:"i,omitempty"`
	V   bool   `json:"v,omitempty"`
	S   string `json:"s,omitempty"` // JSON text for fromjson
}

type c48Case struct {
	Init []string `json:"init"` // per register: "nil" or a string of x/_ (built with NewBitArray+SetIndex)
	Ops  []c48Op  `json:"ops"`
}

type c48Reg struct {
	Nil  bool
	Bits []bool
}

func c48Parse(s string) c48Reg {
	if s == "nil" {
		return c48Reg{Nil: true}
	}
	r := c48Reg{Bits: make([]bool, len(s))}
	for i := range s {
		r.Bits[i] = s[i] == 'x'
	}
	return r
}

func c48Str(b []bool) string {
	var sb strings.Builder
	for _, v := range b {
		if v {
			sb.WriteByte('x')
		} else {
			sb.WriteByte('_')
		}
	}
	return sb.String()
}

func (r c48Reg) copy() c48Reg {
	if r.Nil {
		return r
	}
	return c48Reg{Bits: append([]bool{}, r.Bits...)}
}

// c48Binary is the model of Or/And/Sub.
func c48Binary(op string, a, b c48Reg) c48Reg {
	switch op {
	case "or":
		if a.Nil && b.Nil {
			return c48Reg{Nil: true}
		}
		if a.Nil {
			return b.copy()
		}
		if b.Nil {
			return a.copy()
		}
		n := max(len(a.Bits), len(b.Bits))
		out := make([]bool, n)
		for i := range out {
			out[i] = (i < len(a.Bits) && a.Bits[i]) || (i < len(b.Bits) && b.Bits[i])
		}
		return c48Reg{Bits: out}
	case "and":
		if a.Nil || b.Nil {
			return c48Reg{Nil: true}
		}
		n := min(len(a.Bits), len(b.Bits))
		out := make([]bool, n)
		for i := range out {
			out[i] = a.Bits[i] && b.Bits[i]
		}
		return c48Reg{Bits: out}
	case "sub":
		if a.Nil || b.Nil {
			return c48Reg{Nil: true}
		}
		out := make([]bool, len(a.Bits))
		for i := range out {
			out[i] = a.Bits[i] && !(i < len(b.Bits) && b.Bits[i])
		}
		return c48Reg{Bits: out}
	}
	panic("bad op " + op)
}

func c48NotModel(a c48Reg) c48Reg {
	if a.Nil {
		return a
	}
	out := make([]bool, len(a.Bits))
	for i := range out {
		out[i] = !a.Bits[i]
	}
	return c48Reg{Bits: out}
}

// c48ApplyModel advances the model registers (shared by Draw, which needs the
// sizes to draw valid indices, and by Exec).
func c48ApplyModel(regs []c48Reg, o c48Op) {
	switch o.Op {
	case "set":
		regs[o.A].Bits[o.I] = o.V
	case "copy":
		regs[o.Dst] = regs[o.A].copy()
	case "not":
		regs[o.Dst] = c48NotModel(regs[o.A])
	case "or", "and", "sub":
		regs[o.Dst] = c48Binary(o.Op, regs[o.A], regs[o.B])
	case "update":
		copy(regs[o.A].Bits, regs[o.B].Bits)
	case "fromjson":
		if o.S == "null" {
			regs[o.Dst] = c48Reg{Bits: []bool{}} // a non-nil receiver reset to zero bits
		} else {
			regs[o.Dst] = c48Parse(strings.Trim(o.S, `"`))
		}
	}
}

var c48Sizes = []int{0, 1, 2, 3, 7, 8, 9, 31, 32, 33, 63, 64, 65, 100, 127, 128, 129, 191, 192, 193, 200}

func c48DrawBits(rt *rapid.T, label string) string {
	var n int
	if rapid.IntRange(0, 3).Draw(rt, label+"szkind") == 0 {
		n = rapid.IntRange(0, 200).Draw(rt, label+"n")
	} else {
		n = rapid.SampledFrom(c48Sizes).Draw(rt, label+"nb")
	}
	fill := rapid.SampledFrom([]string{"rand", "rand", "zeros", "ones", "one", "one", "few", "allbutone"}).Draw(rt, label+"fill")
	b := make([]byte, n)
	for i := range b {
		b[i] = '_'
	}
	switch fill {
	case "rand":
		bs := rapid.SliceOfN(rapid.Bool(), n, n).Draw(rt, label+"bits")
		for i, v := range bs {
			if v {
				b[i] = 'x'
			}
		}
	case "ones", "allbutone":
		for i := range b {
			b[i] = 'x'
		}
		if fill == "allbutone" && n > 0 {
			b[rapid.IntRange(0, n-1).Draw(rt, label+"hole")] = '_'
		}
	case "one", "few":
		k := 1
		if fill == "few" {
			k = rapid.IntRange(2, 3).Draw(rt, label+"fewk")
		}
		for ; k > 0 && n > 0; k-- {
			if rapid.Bool().Draw(rt, label+"posedge") {
				b[rapid.SampledFrom([]int{0, n - 1, max(0, n-2), min(n-1, 63), min(n-1, 64), (n - 1) &^ 63}).Draw(rt, label+"pose")] = 'x'
			} else {
				b[rapid.IntRange(0, n-1).Draw(rt, label+"pos")] = 'x'
			}
		}
	}
	return string(b)
}

func c48DrawInit(rt *rapid.T, label string) string {
	if rapid.IntRange(0, 9).Draw(rt, label+"nil") == 0 {
		return "nil"
	}
	s := c48DrawBits(rt, label)
	if s == "" {
		return "nil" // NewBitArray(0) is documented to return nil
	}
	return s
}

const c48NRegs = 4

func c48Draw(rt *rapid.T) c48Case {
	var c c48Case
	regs := make([]c48Reg, c48NRegs)
	for i := range regs {
		s := c48DrawInit(rt, fmt.Sprintf("r%d", i))
		c.Init = append(c.Init, s)
		regs[i] = c48Parse(s)
	}
	nops := rapid.IntRange(1, 14).Draw(rt, "nops")
	kinds := []string{"set", "set", "get", "copy", "not", "not", "or", "or", "and", "and", "sub", "sub", "isempty", "isfull", "size", "pick", "pick", "bytes", "json", "amino", "update", "fromjson"}
	for k := 0; k < nops; k++ {
		o := c48Op{Op: rapid.SampledFrom(kinds).Draw(rt, "op")}
		o.A = rapid.IntRange(0, c48NRegs-1).Draw(rt, "a")
		switch o.Op {
		case "set", "get":
			if regs[o.A].Nil || len(regs[o.A].Bits) == 0 {
				o.Op = "size"
				break
			}
			n := len(regs[o.A].Bits)
			if rapid.Bool().Draw(rt, "edge") {
				o.I = rapid.SampledFrom([]int{0, n - 1, n / 2, max(0, n-2), min(n-1, 63), min(n-1, 64)}).Draw(rt, "ie")
			} else {
				o.I = rapid.IntRange(0, n-1).Draw(rt, "i")
			}
			o.V = rapid.Bool().Draw(rt, "v")
		case "copy", "not":
			o.Dst = rapid.IntRange(0, c48NRegs-1).Draw(rt, "dst")
		case "or", "and", "sub":
			o.Dst = rapid.IntRange(0, c48NRegs-1).Draw(rt, "dst")
			// distinct registers hold distinct objects; x.Or(x) on one object is not generated
			o.B = (o.A + rapid.IntRange(1, c48NRegs-1).Draw(rt, "bo")) % c48NRegs
		case "update":
			// Update is only documented for "the other bit array" of the same shape: pick a same-size partner
			o.B = -1
			for d := 1; d < c48NRegs; d++ {
				j := (o.A + d) % c48NRegs
				if !regs[j].Nil && !regs[o.A].Nil && len(regs[j].Bits) == len(regs[o.A].Bits) {
					o.B = j
					break
				}
			}
			if o.B < 0 {
				o.Op, o.B = "isempty", 0
			}
		case "bytes", "amino":
			if regs[o.A].Nil {
				o.Op = "json"
			}
		case "fromjson":
			o.Dst = rapid.IntRange(0, c48NRegs-1).Draw(rt, "dst")
			switch rapid.IntRange(0, 5).Draw(rt, "jk") {
			case 0:
				o.S = "null"
			case 1:
				o.S = `""`
			default:
				o.S = `"` + c48DrawBits(rt, "j") + `"`
			}
		}
		c48ApplyModel(regs, o)
		c.Ops = append(c.Ops, o)
	}
	return c
}

func c48Build(r c48Reg) *gbits.BitArray {
	if r.Nil {
		return nil
	}
	if len(r.Bits) == 0 {
		// a non-nil array of zero bits only arises from decoding; build it that way
		ba := new(gbits.BitArray)
		if err := ba.UnmarshalJSON([]byte(`""`)); err != nil {
			panic(err)
		}
		return ba
	}
	ba := gbits.NewBitArray(len(r.Bits))
	for i, v := range r.Bits {
		if v {
			ba.SetIndex(i, true)
		}
	}
	return ba
}

// c48Diff compares an implementation value with a model register through
// the public observers Size and GetIndex.
func c48Diff(ba *gbits.BitArray, m c48Reg) string {
	if (ba == nil) != m.Nil {
		return fmt.Sprintf("nil-ness: impl nil=%v model nil=%v", ba == nil, m.Nil)
	}
	if ba == nil {
		return ""
	}
	if ba.Size() != len(m.Bits) {
		return fmt.Sprintf("size %d, model %d", ba.Size(), len(m.Bits))
	}
	for i, v := range m.Bits {
		if ba.GetIndex(i) != v {
			return fmt.Sprintf("bit %d is %v, model %v (impl %s model %s)", i, ba.GetIndex(i), v, c48Obs(ba), c48Str(m.Bits))
		}
	}
	return ""
}

func c48Obs(ba *gbits.BitArray) string {
	if ba == nil {
		return "nil"
	}
	b := make([]bool, ba.Size())
	for i := range b {
		b[i] = ba.GetIndex(i)
	}
	return c48Str(b)
}

// c48Padding reports whether the array carries set bits beyond Size() in its
// last word (only Not() produces that; the fields are exported).
func c48Padding(ba *gbits.BitArray) bool {
	if ba == nil || ba.Bits%64 == 0 || len(ba.Elems) == 0 || len(ba.Elems) != (ba.Bits+63)/64 {
		return false
	}
	return ba.Elems[len(ba.Elems)-1]>>(uint(ba.Bits)%64) != 0
}

const c48KnownPadding = "not-leaves-padding-bits-set"

// Or ORs only the first min(words) words: the words of a longer argument
// beyond the receiver's word count never reach the result.
const c48KnownOrHigh = "or-drops-high-words-of-longer-argument"

func c48Exec(ctx *vk.Ctx, c c48Case) error {
	regs := make([]c48Reg, c48NRegs)
	impl := make([]*gbits.BitArray, c48NRegs)
	for i, s := range c.Init {
		regs[i] = c48Parse(s)
		impl[i] = c48Build(regs[i])
		if d := c48Diff(impl[i], regs[i]); d != "" {
			return fmt.Errorf("register %d built with NewBitArray/SetIndex from %q: %s", i, s, d)
		}
	}
	boundary, mismatched, sawNil := false, false, false
	for step, o := range c.Ops {
		ctx.Class(o.Op)
		a := impl[o.A]
		ma := regs[o.A]
		sawNil = sawNil || ma.Nil
		if !ma.Nil && len(ma.Bits) > 0 && (len(ma.Bits)%64 <= 1 || len(ma.Bits)%64 == 63) {
			boundary = true
		}
		where := fmt.Sprintf("step %d %s(r%d=%s", step, o.Op, o.A, c48Obs(a))
		// divergences that are explained by padding bits left set by Not() are
		// attributed to the recorded finding (when listed as known), and the
		// affected value is rebuilt from the model so that the search goes on.
		padded := c48Padding(a)
		orHigh := false
		fail := func(format string, args ...any) error {
			return fmt.Errorf(where+"): "+format, args...)
		}
		switch o.Op {
		case "set":
			if got := a.SetIndex(o.I, o.V); !got {
				return fail("SetIndex(%d,%v) returned false for an index below Size()=%d", o.I, o.V, a.Size())
			}
		case "get":
			if got := a.GetIndex(o.I); got != ma.Bits[o.I] {
				return fail("GetIndex(%d)=%v, model %v", o.I, got, ma.Bits[o.I])
			}
		case "size":
			want := 0
			if !ma.Nil {
				want = len(ma.Bits)
			}
			if a.Size() != want {
				return fail("Size()=%d, model %d", a.Size(), want)
			}
		case "copy":
			impl[o.Dst] = a.Copy()
		case "not":
			impl[o.Dst] = a.Not()
		case "or", "and", "sub":
			b := impl[o.B]
			where += fmt.Sprintf(", r%d=%s", o.B, c48Obs(b))
			padded = padded || c48Padding(b)
			if !ma.Nil && !regs[o.B].Nil && len(ma.Bits) != len(regs[o.B].Bits) {
				mismatched = true
			}
			orHigh = o.Op == "or" && !ma.Nil && !regs[o.B].Nil && (len(regs[o.B].Bits)+63)/64 > (len(ma.Bits)+63)/64
			switch o.Op {
			case "or":
				impl[o.Dst] = a.Or(b)
			case "and":
				impl[o.Dst] = a.And(b)
			case "sub":
				impl[o.Dst] = a.Sub(b)
			}
		case "update":
			b := impl[o.B]
			padded = padded || c48Padding(b)
			a.Update(b)
		case "isempty":
			want := true
			for _, v := range ma.Bits {
				want = want && !v
			}
			if got := a.IsEmpty(); got != want {
				if padded && ctx.Known(c48KnownPadding) {
					break
				}
				return fail("IsEmpty()=%v, model %v", got, want)
			}
		case "isfull":
			want := true
			for _, v := range ma.Bits {
				want = want && v
			}
			if got := a.IsFull(); got != want {
				return fail("IsFull()=%v, model %v", got, want)
			}
		case "pick":
			var trues []int
			for i, v := range ma.Bits {
				if v {
					trues = append(trues, i)
				}
			}
			// PickRandom draws from the process-global generator: every answer must be a true
			// index, and when at most 3 bits are set 200 draws must produce each of them (the
			// chance of missing one is below 3*(2/3)^200 ~ 1e-35, i.e. this is an enumeration).
			reps := 3
			if len(trues) >= 1 && len(trues) <= 3 {
				reps = 200
			}
			seen := map[int]bool{}
			for rep := 0; rep < reps; rep++ {
				idx, ok := a.PickRandom()
				if ok != (len(trues) > 0) {
					return fail("PickRandom ok=%v, model has %d true bits", ok, len(trues))
				}
				if ok && (idx < 0 || idx >= len(ma.Bits) || !ma.Bits[idx]) {
					return fail("PickRandom returned index %d which is not a true bit of %s", idx, c48Str(ma.Bits))
				}
				if !ok && idx != 0 {
					return fail("PickRandom returned (%d,false), documented (0,false)", idx)
				}
				seen[idx] = true
			}
			if reps == 200 {
				for _, ti := range trues {
					if !seen[ti] {
						return fail("PickRandom never returned true index %d in 200 draws (true indices %v)", ti, trues)
					}
				}
				ctx.Class("pick-enumerated")
			}
			ctx.ClassIf(len(trues) == 1, "pick-single")
		case "bytes":
			want := make([]byte, (len(ma.Bits)+7)/8)
			for i, v := range ma.Bits {
				if v {
					want[i/8] |= 1 << uint(i%8)
				}
			}
			if got := a.Bytes(); !bytes.Equal(got, want) {
				if padded && ctx.Known(c48KnownPadding) {
					break
				}
				return fail("Bytes()=%x, model %x", got, want)
			}
		case "json":
			got, err := a.MarshalJSON()
			if err != nil {
				return fail("MarshalJSON: %v", err)
			}
			want := "null"
			if !ma.Nil {
				want = `"` + c48Str(ma.Bits) + `"`
			}
			if string(got) != want {
				return fail("MarshalJSON=%s, model %s", got, want)
			}
			// through encoding/json as well, and back
			std, err := json.Marshal(a)
			if err != nil || string(std) != want {
				return fail("json.Marshal=%s err=%v, model %s", std, err, want)
			}
			back := new(gbits.BitArray)
			if err := json.Unmarshal(got, back); err != nil {
				return fail("json.Unmarshal(%s): %v", got, err)
			}
			if back.Size() != len(ma.Bits) {
				return fail("decoding %s gives size %d, model %d", got, back.Size(), len(ma.Bits))
			}
			if !ma.Nil {
				if d := c48Diff(back, c48Reg{Bits: ma.Bits}); d != "" {
					return fail("decoding %s: %s", got, d)
				}
			}
		case "amino":
			bz, err := amino.Marshal(a)
			if err != nil {
				return fail("amino.Marshal: %v", err)
			}
			back := new(gbits.BitArray)
			if err := amino.Unmarshal(bz, back); err != nil {
				return fail("amino.Unmarshal(%x): %v", bz, err)
			}
			if d := c48Diff(back, c48Reg{Bits: ma.Bits}); d != "" {
				return fail("amino round-trip %x: %s", bz, d)
			}
			if err := back.ValidateBasic(); err != nil {
				return fail("amino round-trip %x fails ValidateBasic: %v", bz, err)
			}
		case "fromjson":
			ba := new(gbits.BitArray)
			if impl[o.Dst] != nil && o.S == "null" {
				ba = impl[o.Dst] // decoding null into a pre-allocated array resets it
			}
			if err := ba.UnmarshalJSON([]byte(o.S)); err != nil {
				return fail("UnmarshalJSON(%s): %v", o.S, err)
			}
			impl[o.Dst] = ba
		default:
			return fmt.Errorf("bad op %q", o.Op)
		}
		c48ApplyModel(regs, o)
		// after every step, every register must equal its model
		for i := range regs {
			if d := c48Diff(impl[i], regs[i]); d != "" {
				if i == o.Dst && orHigh && ctx.Known(c48KnownOrHigh) {
					impl[i] = c48Build(regs[i])
					continue
				}
				if padded && ctx.Known(c48KnownPadding) {
					impl[i] = c48Build(regs[i])
					continue
				}
				return fail("register %d afterwards: %s", i, d)
			}
		}
	}
	ctx.ClassIf(boundary, "word-boundary-size")
	ctx.ClassIf(mismatched, "mismatched-sizes")
	ctx.ClassIf(sawNil, "nil-operand")
	ctx.NTIf(boundary || mismatched || sawNil)
	return nil
}

func TestC48_BitArray(t *testing.T) {
	vk.Run(t, vk.Spec[c48Case]{
		ID: "C48", Name: "TestC48_BitArray",
		Rule: "rapid: programs of 1-14 ops (set/get/copy/not/or/and/sub/update/isempty/isfull/size/pickrandom/bytes/json/amino/fromjson) over 4 registers of bitarray.BitArray with sizes 0-200 biased to 63/64/65/127/128/129/191/192/193, nil registers, fills zeros/ones/one-bit/all-but-one/random; every register is compared with its []bool model after every step; non-trivial = an operand at a word-boundary size, a binary op on different sizes, or a nil operand",
		Draw: c48Draw,
		Exec: c48Exec,
	})
}
