package crypto

import (
	"bytes"
	"crypto/pbkdf2"
	"crypto/sha256"
	"crypto/sha512"
	"encoding/hex"
	"fmt"
	"math/big"
	"strconv"
	"strings"
	"testing"

	gcrypto "github.com/gnolang/gno/tm2/pkg/crypto"
	"github.com/gnolang/gno/tm2/pkg/crypto/bip39"
	"github.com/gnolang/gno/tm2/pkg/crypto/hd"
	"github.com/gnolang/gno/tm2/pkg/crypto/keys"
	"github.com/gnolang/gno/tm2/pkg/crypto/secp256k1"
	"golang.org/x/crypto/ripemd160" //nolint
	"pgregory.net/rapid"
	"verif/vk"
)

// ---------------------------------------------------------------------------
// C46 (mnemonics) — reference BIP-39 written from the specification: the
// mnemonic is the sequence of 11-bit groups of entropy || first ENT/32 bits of
// SHA-256(entropy); the seed is PBKDF2-HMAC-SHA512(mnemonic, "mnemonic"+pass,
// 2048, 64) (standard library implementation).

func c46RefIndices(entropy []byte) []int {
	ent := len(entropy) * 8
	cs := ent / 32
	h := sha256.Sum256(entropy)
	v := new(big.Int).SetBytes(entropy)
	v.Lsh(v, uint(cs))
	v.Or(v, big.NewInt(int64(h[0]>>(8-uint(cs)))))
	n := (ent + cs) / 11
	out := make([]int, n)
	mask := big.NewInt(2047)
	for i := n - 1; i >= 0; i-- {
		out[i] = int(new(big.Int).And(v, mask).Int64())
		v.Rsh(v, 11)
	}
	return out
}

// c46RefParse decides a word sequence: ok, and the entropy when ok.
func c46RefParse(words []string, index map[string]int) (entropy []byte, reason string) {
	n := len(words)
	if n != 12 && n != 15 && n != 18 && n != 21 && n != 24 {
		return nil, "word count"
	}
	v := new(big.Int)
	for _, w := range words {
		i, ok := index[w]
		if !ok {
			return nil, "unknown word"
		}
		v.Lsh(v, 11)
		v.Or(v, big.NewInt(int64(i)))
	}
	cs := n * 11 / 33
	ent := n*11 - cs
	sum := new(big.Int).And(v, big.NewInt(int64(1<<uint(cs)-1))).Int64()
	v.Rsh(v, uint(cs))
	entropy = make([]byte, ent/8)
	v.FillBytes(entropy)
	h := sha256.Sum256(entropy)
	if int64(h[0]>>(8-uint(cs))) != sum {
		return nil, "checksum"
	}
	return entropy, ""
}

var c46WordIndex = func() map[string]int {
	m := make(map[string]int, len(bip39.WordList))
	for i, w := range bip39.WordList {
		m[w] = i
	}
	return m
}()

// BIP-39 published vectors (Trezor): entropy, mnemonic, seed with passphrase "TREZOR".
var c46Vectors = [][3]string{
	{"00000000000000000000000000000000", "abandon abandon abandon abandon abandon abandon abandon abandon abandon abandon abandon about", "c55257c360c07c72029aebc1b53c05ed0362ada38ead3e3e9efa3708e53495531f09a6987599d18264c1e1c92f2cf141630c7a3c4ab7c81b2f001698e7463b04"},
	{"7f7f7f7f7f7f7f7f7f7f7f7f7f7f7f7f", "legal winner thank year wave sausage worth useful legal winner thank yellow", ""},
	{"80808080808080808080808080808080", "letter advice cage absurd amount doctor acoustic avoid letter advice cage above", ""},
	{"ffffffffffffffffffffffffffffffff", "zoo zoo zoo zoo zoo zoo zoo zoo zoo zoo zoo wrong", ""},
	{"0000000000000000000000000000000000000000000000000000000000000000", "abandon abandon abandon abandon abandon abandon abandon abandon abandon abandon abandon abandon abandon abandon abandon abandon abandon abandon abandon abandon abandon abandon abandon art", ""},
	{"ffffffffffffffffffffffffffffffffffffffffffffffffffffffffffffffff", "zoo zoo zoo zoo zoo zoo zoo zoo zoo zoo zoo zoo zoo zoo zoo zoo zoo zoo zoo zoo zoo zoo zoo vote", ""},
}

type c46MCase struct {
	Kind    string `json:"kind"` // roundtrip | seed | replace | swap | drop | append | nonword | prefix | upper | space | badlen | vector
	Entropy []byte `json:"entropy"`
	Pos     int    `json:"pos"`
	Pos2    int    `json:"pos2"`
	Word    int    `json:"word"`
	Pass    string `json:"pass"`
}

func c46MDraw(rt *rapid.T) c46MCase {
	c := c46MCase{Kind: rapid.SampledFrom([]string{"roundtrip", "roundtrip", "seed", "replace", "replace", "replace", "swap", "drop", "append", "nonword", "prefix", "upper", "space", "badlen", "vector"}).Draw(rt, "kind")}
	n := rapid.SampledFrom([]int{16, 20, 24, 28, 32}).Draw(rt, "entlen")
	if c.Kind == "badlen" {
		n = rapid.SampledFrom([]int{0, 1, 4, 8, 12, 15, 17, 18, 31, 33, 36, 40, 64}).Draw(rt, "badlen")
	}
	switch rapid.IntRange(0, 5).Draw(rt, "fill") {
	case 0: // leading zero bytes (the big-integer conversions must keep them)
		c.Entropy = make([]byte, n)
		k := rapid.IntRange(0, n).Draw(rt, "zeros")
		copy(c.Entropy[k:], rapid.SliceOfN(rapid.Byte(), n-k, n-k).Draw(rt, "tail"))
	case 1:
		c.Entropy = bytes.Repeat([]byte{byte(rapid.SampledFrom([]int{0, 0xff, 0x7f, 0x80}).Draw(rt, "rep"))}, n)
	default:
		c.Entropy = rapid.SliceOfN(rapid.Byte(), n, n).Draw(rt, "entropy")
	}
	c.Pos = rapid.IntRange(0, 23).Draw(rt, "pos")
	c.Pos2 = rapid.IntRange(0, 23).Draw(rt, "pos2")
	c.Word = rapid.IntRange(0, 2047).Draw(rt, "word")
	if c.Kind == "seed" || c.Kind == "vector" {
		c.Pass = rapid.SampledFrom([]string{"", "TREZOR", "pass phrase", "päss", "\x00", strings.Repeat("p", 200)}).Draw(rt, "pass")
	}
	return c
}

func c46MExec(ctx *vk.Ctx, c c46MCase) error {
	ctx.Class(c.Kind)
	ctx.Class(fmt.Sprintf("ent=%d", len(c.Entropy)*8))
	ctx.NTIf(c.Kind != "roundtrip" || (len(c.Entropy) > 0 && c.Entropy[0] == 0))
	if c.Kind == "vector" {
		v := c46Vectors[c.Pos%len(c46Vectors)]
		ent, _ := hex.DecodeString(v[0])
		m, err := bip39.NewMnemonic(ent)
		if err != nil || m != v[1] {
			return fmt.Errorf("NewMnemonic(%s) = %q, %v; published vector %q", v[0], m, err, v[1])
		}
		if v[2] != "" {
			if got := hex.EncodeToString(bip39.NewSeed(v[1], "TREZOR")); got != v[2] {
				return fmt.Errorf("NewSeed(%q, TREZOR) = %s, published %s", v[1], got, v[2])
			}
		}
		return nil
	}
	if c.Kind == "badlen" {
		if m, err := bip39.NewMnemonic(c.Entropy); err == nil {
			return fmt.Errorf("NewMnemonic accepted %d bytes of entropy: %q", len(c.Entropy), m)
		}
		return nil
	}
	m, err := bip39.NewMnemonic(c.Entropy)
	if err != nil {
		return fmt.Errorf("NewMnemonic(%x): %v", c.Entropy, err)
	}
	idx := c46RefIndices(c.Entropy)
	want := make([]string, len(idx))
	for i, k := range idx {
		want[i] = bip39.WordList[k]
	}
	if m != strings.Join(want, " ") {
		return fmt.Errorf("NewMnemonic(%x) = %q, reference %q", c.Entropy, m, strings.Join(want, " "))
	}
	ctx.ClassIf(c.Entropy[0] == 0, "leading-zero-entropy")
	// decide a word sequence with gno and with the reference
	decide := func(words []string, what string) error {
		text := strings.Join(words, " ")
		var out []byte
		var err error
		func() {
			defer func() {
				if p := recover(); p != nil {
					err = fmt.Errorf("PANIC: %v", p)
				}
			}()
			out, err = bip39.MnemonicToByteArray(text)
		}()
		if err != nil && strings.HasPrefix(err.Error(), "PANIC") {
			return fmt.Errorf("MnemonicToByteArray(%q) [%s] panicked: %v", text, what, err)
		}
		ent, reason := c46RefParse(words, c46WordIndex)
		if reason == "" {
			ctx.Class(what + ":valid")
		} else {
			ctx.Class(what + ":invalid-" + reason)
		}
		if (err == nil) != (reason == "") {
			return fmt.Errorf("MnemonicToByteArray(%q) [%s]: err=%v, reference verdict %q", text, what, err, reason)
		}
		_, serr := bip39.NewSeedWithErrorChecking(text, "")
		if (serr == nil) != (reason == "") {
			return fmt.Errorf("NewSeedWithErrorChecking(%q) [%s]: err=%v, reference verdict %q", text, what, serr, reason)
		}
		if err == nil {
			cs := uint(len(ent) * 8 / 32)
			v := new(big.Int).SetBytes(out)
			got := new(big.Int).Rsh(v, cs)
			if got.Cmp(new(big.Int).SetBytes(ent)) != 0 {
				return fmt.Errorf("MnemonicToByteArray(%q) = %x: entropy part %x, reference %x", text, out, got.Bytes(), ent)
			}
			h := sha256.Sum256(ent)
			if new(big.Int).And(v, big.NewInt(int64(1<<cs-1))).Int64() != int64(h[0]>>(8-cs)) {
				return fmt.Errorf("MnemonicToByteArray(%q) = %x: checksum bits differ from SHA-256(entropy)", text, out)
			}
			// and the recovered entropy regenerates the same sentence
			back, err := bip39.NewMnemonic(ent)
			if err != nil || back != text {
				return fmt.Errorf("NewMnemonic(entropy of %q) = %q, %v", text, back, err)
			}
		}
		return nil
	}
	words := strings.Split(m, " ")
	n := len(words)
	if !bip39.IsMnemonicValid(m) {
		return fmt.Errorf("IsMnemonicValid(%q) = false for a generated mnemonic", m)
	}
	if err := decide(words, "original"); err != nil {
		return err
	}
	mut := append([]string{}, words...)
	switch c.Kind {
	case "roundtrip":
	case "seed":
		got := bip39.NewSeed(m, c.Pass)
		ref, err := pbkdf2.Key(sha512.New, m, []byte("mnemonic"+c.Pass), 2048, 64)
		if err != nil {
			return err
		}
		if !bytes.Equal(got, ref) {
			return fmt.Errorf("NewSeed(%q, %q) = %x, PBKDF2 reference %x", m, c.Pass, got, ref)
		}
		got2, err := bip39.NewSeedWithErrorChecking(m, c.Pass)
		if err != nil || !bytes.Equal(got2, ref) {
			return fmt.Errorf("NewSeedWithErrorChecking(%q, %q) = %x, %v", m, c.Pass, got2, err)
		}
	case "replace":
		i := c.Pos % n
		if bip39.WordList[c.Word] == mut[i] {
			return nil
		}
		mut[i] = bip39.WordList[c.Word]
		return decide(mut, "replace")
	case "swap":
		i, j := c.Pos%n, c.Pos2%n
		if mut[i] == mut[j] {
			return nil
		}
		mut[i], mut[j] = mut[j], mut[i]
		return decide(mut, "swap")
	case "drop":
		i := c.Pos % n
		return decide(append(mut[:i], mut[i+1:]...), "drop")
	case "append":
		return decide(append(mut, bip39.WordList[c.Word]), "append")
	case "nonword":
		mut[c.Pos%n] = []string{"abandonx", "zooo", "", "Zoo", "abandon\t", "ab"}[c.Word%6]
		if mut[c.Pos%n] == "" {
			// an empty word is a doubled separator: only "does not crash, does not accept" is required
			_, err := bip39.MnemonicToByteArray(strings.Join(mut, " "))
			if err == nil {
				return fmt.Errorf("mnemonic with an empty word accepted")
			}
			return nil
		}
		return decide(mut, "nonword")
	case "prefix":
		k := []int{12, 15, 18, 21}[c.Pos%4]
		if k >= n {
			return nil
		}
		return decide(mut[:k], "prefix")
	case "upper":
		mut[c.Pos%n] = strings.ToUpper(mut[c.Pos%n])
		return decide(mut, "upper")
	case "space":
		// extra blanks around or inside the sentence: must not crash; if accepted, must yield the same entropy
		var text string
		switch c.Pos % 3 {
		case 0:
			text = " " + m
		case 1:
			text = m + " "
		default:
			text = strings.Replace(m, " ", "  ", 1)
		}
		out, err := bip39.MnemonicToByteArray(text)
		if err == nil {
			cs := uint(len(c.Entropy) * 8 / 32)
			if new(big.Int).Rsh(new(big.Int).SetBytes(out), cs).Cmp(new(big.Int).SetBytes(c.Entropy)) != 0 {
				return fmt.Errorf("MnemonicToByteArray(%q) accepted with another entropy %x", text, out)
			}
			ctx.Class("space:accepted")
		}
	}
	return nil
}

func TestC46_Mnemonic(t *testing.T) {
	vk.Run(t, vk.Spec[c46MCase]{
		ID: "C46", Name: "TestC46_Mnemonic",
		Rule: "rapid: entropy of every legal length (16/20/24/28/32 bytes; leading zero bytes, constant fills, random) -> NewMnemonic compared with an independent BIP-39 encoder; the sentence and one mutation of it (word replaced by any list word, two words swapped, word dropped/appended, non-word, shorter legal prefix, upper-cased word, stray blanks) decided by MnemonicToByteArray/NewSeedWithErrorChecking versus an independent decoder (accept iff word count, words and checksum are right; recovered entropy equal); NewSeed versus standard-library PBKDF2; illegal entropy lengths rejected; published vectors; non-trivial = every case except the plain round-trip of entropy without a leading zero byte",
		Draw: c46MDraw,
		Exec: c46MExec,
	})
}

// ---------------------------------------------------------------------------
// C46 (HD derivation) — differential against the harness' own BIP-32
// (ref_secp_test.go), which is validated against the published BIP-32 test
// vector 1 in Setup.

type c46Step struct {
	I uint32 `json:"i"` // 0 .. 2^31-1
	H bool   `json:"h"`
}

type c46HCase struct {
	Kind    string    `json:"kind"` // path | bip44 | keybase | bigindex
	Seed    []byte    `json:"seed"`
	Path    []c46Step `json:"path"`
	Coin    uint32    `json:"coin"`
	Account uint32    `json:"account"`
	Change  bool      `json:"change"`
	Index   uint32    `json:"index"`
	Entropy []byte    `json:"entropy"`
	Pass    string    `json:"pass"`
	Big     uint64    `json:"big"`
}

func c46DrawIndex(rt *rapid.T, label string) uint32 {
	switch rapid.IntRange(0, 3).Draw(rt, label+"k") {
	case 0:
		return rapid.SampledFrom([]uint32{0, 1, 2, 44, 118, 1000000000, 1<<31 - 1, 1<<31 - 2, 1 << 30, 255, 256, 65535, 65536}).Draw(rt, label+"e")
	case 1:
		return uint32(rapid.IntRange(0, 20).Draw(rt, label+"s"))
	default:
		return rapid.Uint32Range(0, 1<<31-1).Draw(rt, label+"u")
	}
}

func c46HDraw(rt *rapid.T) c46HCase {
	c := c46HCase{Kind: rapid.SampledFrom([]string{"path", "path", "path", "bip44", "keybase", "bigindex"}).Draw(rt, "kind")}
	sl := rapid.SampledFrom([]int{16, 32, 64, 64, 1, 100}).Draw(rt, "seedlen")
	c.Seed = c47Fixed(rt, "seed", sl)
	switch c.Kind {
	case "path", "bigindex":
		d := rapid.IntRange(1, 6).Draw(rt, "depth")
		for i := 0; i < d; i++ {
			c.Path = append(c.Path, c46Step{I: c46DrawIndex(rt, "idx"), H: rapid.Bool().Draw(rt, "hard")})
		}
		if c.Kind == "bigindex" {
			c.Big = rapid.SampledFrom([]uint64{1 << 31, 1<<31 + 1, 1<<32 - 1, 1 << 32, 1<<32 + 5, 1<<63 - 1}).Draw(rt, "big")
			c.Index = uint32(rapid.IntRange(0, d-1).Draw(rt, "bigpos"))
		}
	default:
		c.Coin = c46DrawIndex(rt, "coin")
		c.Account = c46DrawIndex(rt, "account")
		c.Change = rapid.Bool().Draw(rt, "change")
		c.Index = c46DrawIndex(rt, "index")
		if c.Kind == "keybase" {
			n := rapid.SampledFrom([]int{16, 20, 24, 28, 32}).Draw(rt, "entlen")
			c.Entropy = rapid.SliceOfN(rapid.Byte(), n, n).Draw(rt, "entropy")
			c.Pass = rapid.SampledFrom([]string{"", "", "TREZOR", "other pass"}).Draw(rt, "pass")
		}
	}
	return c
}

func c46PathString(p []c46Step) string {
	parts := make([]string, len(p))
	for i, s := range p {
		parts[i] = strconv.FormatUint(uint64(s.I), 10)
		if s.H {
			parts[i] += "'"
		}
	}
	return strings.Join(parts, "/")
}

func c46RefDerive(seed []byte, p []c46Step) (k, cc []byte) {
	k, cc = refMaster(seed)
	for _, s := range p {
		i := s.I
		if s.H {
			i |= 0x80000000
		}
		k, cc = refCKDpriv(k, cc, i)
	}
	return k, cc
}

func c46HExec(ctx *vk.Ctx, c c46HCase) error {
	ctx.Class(c.Kind)
	switch c.Kind {
	case "path", "bigindex":
		ms, mc := hd.ComputeMastersFromSeed(c.Seed)
		rk, rc := refMaster(c.Seed)
		if !bytes.Equal(ms[:], rk) || !bytes.Equal(mc[:], rc) {
			return fmt.Errorf("ComputeMastersFromSeed(%x) = (%x, %x), reference (%x, %x)", c.Seed, ms, mc, rk, rc)
		}
		path := c46PathString(c.Path)
		if c.Kind == "bigindex" {
			parts := strings.Split(path, "/")
			parts[c.Index] = strconv.FormatUint(c.Big, 10)
			path = strings.Join(parts, "/")
			got, err := hd.DerivePrivateKeyForPath(ms, mc, path)
			ctx.NT()
			if err == nil {
				// not a BIP-32 path: a non-hardened index must be below 2^31
				if ctx.Known("hd-index-ge-2^31-accepted") {
					return nil
				}
				return fmt.Errorf("DerivePrivateKeyForPath(%q) returned key %x for an index >= 2^31 that is not a BIP-32 index (documented error: \"index negative ot too large\")", path, got)
			}
			return nil
		}
		got, err := hd.DerivePrivateKeyForPath(ms, mc, path)
		if err != nil {
			return fmt.Errorf("DerivePrivateKeyForPath(%q): %v", path, err)
		}
		want, _ := c46RefDerive(c.Seed, c.Path)
		if !bytes.Equal(got[:], want) {
			return fmt.Errorf("DerivePrivateKeyForPath(seed %x, %q) = %x, BIP-32 reference %x", c.Seed, path, got, want)
		}
		hard, soft := 0, 0
		for _, s := range c.Path {
			if s.H {
				hard++
			} else {
				soft++
			}
		}
		ctx.ClassIf(hard > 0 && soft > 0, "mixed-hardening")
		ctx.Class(fmt.Sprintf("depth=%d", len(c.Path)))
		ctx.NTIf(len(c.Path) >= 2)
	case "bip44":
		p := hd.NewParams(44, c.Coin, c.Account, c.Change, c.Index)
		ch := uint32(0)
		chs := "0"
		if c.Change {
			ch, chs = 1, "1"
		}
		wantStr := fmt.Sprintf("44'/%d'/%d'/%s/%d", c.Coin, c.Account, chs, c.Index)
		if p.String() != wantStr {
			return fmt.Errorf("BIP44Params.String() = %q, want %q", p.String(), wantStr)
		}
		back, err := hd.NewParamsFromPath(wantStr)
		if err != nil || *back != *p {
			return fmt.Errorf("NewParamsFromPath(%q) = %+v, %v; want %+v", wantStr, back, err, *p)
		}
		dp := p.DerivationPath()
		if len(dp) != 5 || dp[0] != 44 || dp[1] != c.Coin || dp[2] != c.Account || dp[3] != ch || dp[4] != c.Index {
			return fmt.Errorf("DerivationPath() = %v for %s", dp, wantStr)
		}
		ms, mc := hd.ComputeMastersFromSeed(c.Seed)
		got, err := hd.DerivePrivateKeyForPath(ms, mc, p.String())
		if err != nil {
			return fmt.Errorf("DerivePrivateKeyForPath(%q): %v", p.String(), err)
		}
		want, _ := c46RefDerive(c.Seed, []c46Step{{44, true}, {c.Coin, true}, {c.Account, true}, {ch, false}, {c.Index, false}})
		if !bytes.Equal(got[:], want) {
			return fmt.Errorf("BIP-44 key for seed %x path %s = %x, reference %x", c.Seed, p.String(), got, want)
		}
		ctx.NT()
	case "keybase":
		idx := c46RefIndices(c.Entropy)
		words := make([]string, len(idx))
		for i, k := range idx {
			words[i] = bip39.WordList[k]
		}
		mnemonic := strings.Join(words, " ")
		kb := keys.NewInMemory()
		info, err := kb.CreateAccount("k", mnemonic, c.Pass, "", c.Account, c.Index)
		if err != nil {
			return fmt.Errorf("CreateAccount(%q, account %d, index %d): %v", mnemonic, c.Account, c.Index, err)
		}
		seed, err := pbkdf2.Key(sha512.New, mnemonic, []byte("mnemonic"+c.Pass), 2048, 64)
		if err != nil {
			return err
		}
		want, _ := c46RefDerive(seed, []c46Step{{44, true}, {gcrypto.CoinType, true}, {c.Account, true}, {0, false}, {c.Index, false}})
		wantPub := refPubFromPriv(want)
		pk, ok := info.GetPubKey().(secp256k1.PubKeySecp256k1)
		if !ok || !bytes.Equal(pk[:], wantPub) {
			return fmt.Errorf("CreateAccount(%q, pass %q, 44'/118'/%d'/0/%d) public key %v, BIP-39/32/44 reference %x", mnemonic, c.Pass, c.Account, c.Index, info.GetPubKey(), wantPub)
		}
		priv, err := kb.ExportPrivKey("k", "")
		if err != nil {
			return fmt.Errorf("ExportPrivKey: %v", err)
		}
		sk, ok := priv.(secp256k1.PrivKeySecp256k1)
		if !ok || !bytes.Equal(sk[:], want) {
			return fmt.Errorf("exported private key %v, reference %x", priv, want)
		}
		// address = RIPEMD160(SHA256(compressed pubkey))
		h := sha256.Sum256(wantPub)
		r := ripemd160.New()
		r.Write(h[:])
		if addr := info.GetAddress(); !bytes.Equal(addr[:], r.Sum(nil)) {
			return fmt.Errorf("address %x, reference %x", addr[:], r.Sum(nil))
		}
		ctx.NT()
	}
	return nil
}

// BIP-32 test vector 1 (seed 000102030405060708090a0b0c0d0e0f): serialized
// extended private keys as published; Base58Check protects the transcription.
var c46Bip32Vector1 = []struct {
	path []c46Step
	xprv string
}{
	{nil, "xprv9s21ZrQH143K3QTDL4LXw2F7HEK3wJUD2nW2nRk4stbPy6cq3jPPqjiChkVvvNKmPGJxWUtg6LnF5kejMRNNU3TGtRBeJgk33yuGBxrMPHi"},
	{[]c46Step{{0, true}}, "xprv9uHRZZhk6KAJC1avXpDAp4MDc3sQKNxDiPvvkX8Br5ngLNv1TxvUxt4cV1rGL5hj6KCesnDYUhd7oWgT11eZG7XnxHrnYeSvkzY7d2bhkJ7"},
	{[]c46Step{{0, true}, {1, false}}, "xprv9wTYmMFdV23N2TdNG573QoEsfRrWKQgWeibmLntzniatZvR9BmLnvSxqu53Kw1UmYPxLgboyZQaXwTCg8MSY3H2EU4pWcQDnRnrVA1xe8fs"},
	{[]c46Step{{0, true}, {1, false}, {2, true}}, "xprv9z4pot5VBttmtdRTWfWQmoH1taj2axGVzFqSb8C9xaxKymcFzXBDptWmT7FwuEzG3ryjH4ktypQSAewRiNMjANTtpgP4mLTj34bhnZX7UiM"},
	{[]c46Step{{0, true}, {1, false}, {2, true}, {2, false}}, "xprvA2JDeKCSNNZky6uBCviVfJSKyQ1mDYahRjijr5idH2WwLsEd4Hsb2Tyh8RfQMuPh7f7RtyzTtdrbdqqsunu5Mm3wDvUAKRHSC34sJ7in334"},
	{[]c46Step{{0, true}, {1, false}, {2, true}, {2, false}, {1000000000, false}}, "xprvA41z7zogVVwxVSgdKUHDy1SKmdb533PjDz7J6N6mV6uS3ze1ai8FHa8kmHScGpWmj4WggLyQjgPie1rFSruoUihUZREPSL39UNdE3BBDu76"},
}

const c46B58 = "123456789ABCDEFGHJKLMNPQRSTUVWXYZabcdefghijkmnopqrstuvwxyz"

func c46Base58Check(s string) ([]byte, bool) {
	n := new(big.Int)
	for i := 0; i < len(s); i++ {
		d := strings.IndexByte(c46B58, s[i])
		if d < 0 {
			return nil, false
		}
		n.Mul(n, big.NewInt(58))
		n.Add(n, big.NewInt(int64(d)))
	}
	b := n.Bytes()
	if len(b) < 5 {
		return nil, false
	}
	h1 := sha256.Sum256(b[:len(b)-4])
	h2 := sha256.Sum256(h1[:])
	return b[:len(b)-4], bytes.Equal(h2[:4], b[len(b)-4:])
}

func TestC46_HD(t *testing.T) {
	vk.Run(t, vk.Spec[c46HCase]{
		ID: "C46", Name: "TestC46_HD",
		Rule: "rapid: seed (1-100 bytes) x path of depth 1-6 with hardened and non-hardened indices (0, 2^31-1, 10^9, small, uniform) -> DerivePrivateKeyForPath versus the harness' own BIP-32 (HMAC-SHA512 + math/big secp256k1, self-checked against BIP-32 vector 1); BIP-44 parameters: String/NewParamsFromPath/DerivationPath round-trip and key; keybase CreateAccount(mnemonic) versus PBKDF2 + BIP-32 + 44'/118'/account'/0/index, exported key and address; indices >= 2^31 written without hardening must be refused; non-trivial = path depth >= 2, or a bip44/keybase/bigindex case",
		Setup: func(r *vk.Rec) {
			seed, _ := hex.DecodeString("000102030405060708090a0b0c0d0e0f")
			for _, v := range c46Bip32Vector1 {
				raw, ok := c46Base58Check(v.xprv)
				if !ok || len(raw) != 78 {
					t.Fatalf("harness: BIP-32 vector %q fails Base58Check", v.xprv)
				}
				k, cc := c46RefDerive(seed, v.path)
				if !bytes.Equal(raw[13:45], cc) || !bytes.Equal(raw[46:78], k) {
					t.Fatalf("harness BIP-32 reference disagrees with published vector 1 at %q: %x %x", c46PathString(v.path), k, cc)
				}
			}
		},
		Draw: c46HDraw,
		Exec: c46HExec,
	})
}
