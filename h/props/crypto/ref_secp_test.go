package crypto

// Independent reference arithmetic for secp256k1 (math/big, affine
// coordinates), used as oracle by C44 (ECDSA verification) and C46 (BIP-32
// public derivation). Nothing here imports btcec/dcrec or gno code.

import (
	"crypto/hmac"
	"crypto/sha512"
	"encoding/binary"
	"math/big"
)

var (
	refP, _  = new(big.Int).SetString("FFFFFFFFFFFFFFFFFFFFFFFFFFFFFFFFFFFFFFFFFFFFFFFFFFFFFFFEFFFFFC2F", 16)
	refN, _  = new(big.Int).SetString("FFFFFFFFFFFFFFFFFFFFFFFFFFFFFFFEBAAEDCE6AF48A03BBFD25E8CD0364141", 16)
	refGx, _ = new(big.Int).SetString("79BE667EF9DCBBAC55A06295CE870B07029BFCDB2DCE28D959F2815B16F81798", 16)
	refGy, _ = new(big.Int).SetString("483ADA7726A3C4655DA4FBFC0E1108A8FD17B448A68554199C47D08FFB10D4B8", 16)
	refHalfN = new(big.Int).Rsh(refN, 1)
)

// refPoint is an affine point; inf marks the point at infinity.
type refPoint struct {
	x, y *big.Int
	inf  bool
}

func refAdd(a, b refPoint) refPoint {
	if a.inf {
		return b
	}
	if b.inf {
		return a
	}
	var lam *big.Int
	if a.x.Cmp(b.x) == 0 {
		if a.y.Cmp(b.y) != 0 || a.y.Sign() == 0 {
			return refPoint{inf: true}
		}
		// doubling: lam = 3x^2 / 2y
		num := new(big.Int).Mul(a.x, a.x)
		num.Mul(num, big.NewInt(3))
		den := new(big.Int).Lsh(a.y, 1)
		den.ModInverse(den, refP)
		lam = num.Mul(num, den)
	} else {
		num := new(big.Int).Sub(b.y, a.y)
		den := new(big.Int).Sub(b.x, a.x)
		den.Mod(den, refP)
		den.ModInverse(den, refP)
		lam = num.Mul(num, den)
	}
	lam.Mod(lam, refP)
	x := new(big.Int).Mul(lam, lam)
	x.Sub(x, a.x)
	x.Sub(x, b.x)
	x.Mod(x, refP)
	y := new(big.Int).Sub(a.x, x)
	y.Mul(y, lam)
	y.Sub(y, a.y)
	y.Mod(y, refP)
	return refPoint{x: x, y: y}
}

func refMul(k *big.Int, p refPoint) refPoint {
	r := refPoint{inf: true}
	for i := k.BitLen() - 1; i >= 0; i-- {
		r = refAdd(r, r)
		if k.Bit(i) == 1 {
			r = refAdd(r, p)
		}
	}
	return r
}

func refG() refPoint { return refPoint{x: refGx, y: refGy} }

// refDecompress parses a 33-byte compressed public key; ok=false when the
// prefix is not 2/3, x >= p, or x is not on the curve.
func refDecompress(pub []byte) (refPoint, bool) {
	if len(pub) != 33 || (pub[0] != 2 && pub[0] != 3) {
		return refPoint{}, false
	}
	x := new(big.Int).SetBytes(pub[1:])
	if x.Cmp(refP) >= 0 {
		return refPoint{}, false
	}
	y2 := new(big.Int).Mul(x, x)
	y2.Mul(y2, x)
	y2.Add(y2, big.NewInt(7))
	y2.Mod(y2, refP)
	y := new(big.Int).ModSqrt(y2, refP)
	if y == nil {
		return refPoint{}, false
	}
	if y.Bit(0) != uint(pub[0]&1) {
		y.Sub(refP, y)
	}
	return refPoint{x: x, y: y}, true
}

func refCompress(p refPoint) []byte {
	out := make([]byte, 33)
	out[0] = 2 + byte(p.y.Bit(0))
	p.x.FillBytes(out[1:])
	return out
}

// refPubFromPriv returns the compressed public key of a 32-byte scalar.
func refPubFromPriv(priv []byte) []byte {
	return refCompress(refMul(new(big.Int).SetBytes(priv), refG()))
}

// refECDSAVerify is textbook ECDSA verification over secp256k1 of the 32-byte
// digest, with the additional lower-S rule documented by gno's VerifyBytes.
func refECDSAVerify(pub []byte, digest []byte, sig []byte) bool {
	if len(sig) != 64 {
		return false
	}
	Q, ok := refDecompress(pub)
	if !ok {
		return false
	}
	r := new(big.Int).SetBytes(sig[:32])
	s := new(big.Int).SetBytes(sig[32:])
	if r.Sign() == 0 || s.Sign() == 0 || r.Cmp(refN) >= 0 || s.Cmp(refN) >= 0 {
		return false
	}
	if s.Cmp(refHalfN) > 0 {
		return false
	}
	z := new(big.Int).SetBytes(digest)
	w := new(big.Int).ModInverse(s, refN)
	u1 := new(big.Int).Mul(z, w)
	u1.Mod(u1, refN)
	u2 := new(big.Int).Mul(r, w)
	u2.Mod(u2, refN)
	R := refAdd(refMul(u1, refG()), refMul(u2, Q))
	if R.inf {
		return false
	}
	v := new(big.Int).Mod(R.x, refN)
	return v.Cmp(r) == 0
}

// ---- BIP-32 private derivation (reference) ----

func refHmac512(key, data []byte) (il, ir []byte) {
	m := hmac.New(sha512.New, key)
	m.Write(data)
	s := m.Sum(nil)
	return s[:32], s[32:]
}

func refMaster(seed []byte) (k, c []byte) { return refHmac512([]byte("Bitcoin seed"), seed) }

// refCKDpriv derives child i (i >= 2^31 = hardened) of (k, c).
func refCKDpriv(k, c []byte, i uint32) (ck, cc []byte) {
	var data []byte
	if i >= 0x80000000 {
		data = append([]byte{0}, k...)
	} else {
		data = refPubFromPriv(k)
	}
	var ib [4]byte
	binary.BigEndian.PutUint32(ib[:], i)
	data = append(data, ib[:]...)
	il, ir := refHmac512(c, data)
	sum := new(big.Int).SetBytes(il)
	sum.Add(sum, new(big.Int).SetBytes(k))
	sum.Mod(sum, refN)
	ck = make([]byte, 32)
	sum.FillBytes(ck)
	return ck, ir
}
