package crypto

import (
	"bytes"
	"fmt"
	"io"
	"strings"
	"testing"

	gcrypto "github.com/gnolang/gno/tm2/pkg/crypto"
	"github.com/gnolang/gno/tm2/pkg/crypto/ed25519"
	"github.com/gnolang/gno/tm2/pkg/crypto/keys"
	karmor "github.com/gnolang/gno/tm2/pkg/crypto/keys/armor"
	"github.com/gnolang/gno/tm2/pkg/crypto/secp256k1"
	pgparmor "golang.org/x/crypto/openpgp/armor" //nolint
	"pgregory.net/rapid"
	"verif/vk"
)

// C46 (key encryption) — EncryptArmorPrivKey / UnarmorDecryptPrivKey and the
// keybase built on them. Oracle: inverse (right passphrase returns the key),
// and construction: a different passphrase, or any change of the ciphertext
// bytes or of the salt, must fail. The armor text is re-framed with
// golang.org/x/crypto/openpgp/armor by the harness so that a mutation is a
// mutation of the *bytes* (base64 has unused bits, blanks and CRC lines that
// are not ciphertext). Each bcrypt evaluation costs ~0.2 s, so a case performs
// one encryption, one correct decryption and one negative experiment.

type c46ACase struct {
	KeyType string `json:"keytype"` // ed25519 | secp256k1
	KeySeed []byte `json:"keyseed"`
	Pass    string `json:"pass"`
	Kind    string `json:"kind"` // wrongpass | ctbit | cttrunc | ctextend | salt | kdf | text | keybase | nopass | long72
	Wrong   string `json:"wrong"`
	Pos     int    `json:"pos"`
	Repl    byte   `json:"repl"`
}

var c46PassAlphabet = []rune("abcdefghijklmnopqrstuvwxyzABCDEFGHIJKLMNOPQRSTUVWXYZ0123456789 !\"#$%&'()*+,-./:;<=>?@[\\]^_`{|}~éß漢")

func c46DrawPass(rt *rapid.T, label string, minLen, maxLen int) string {
	return rapid.StringOfN(rapid.RuneFrom(c46PassAlphabet), minLen, maxLen, -1).Draw(rt, label)
}

func c46ADraw(rt *rapid.T) c46ACase {
	c := c46ACase{KeyType: rapid.SampledFrom([]string{"ed25519", "secp256k1"}).Draw(rt, "keytype")}
	c.KeySeed = rapid.SliceOfN(rapid.Byte(), 1, 16).Draw(rt, "keyseed")
	c.Kind = rapid.SampledFrom([]string{"wrongpass", "wrongpass", "wrongpass", "ctbit", "ctbit", "cttrunc", "ctextend", "salt", "kdf", "text", "keybase", "nopass", "long72"}).Draw(rt, "kind")
	c.Pos = rapid.IntRange(0, 1<<16).Draw(rt, "pos")
	c.Repl = byte(rapid.IntRange(32, 126).Draw(rt, "repl"))
	switch c.Kind {
	case "nopass":
		c.Pass = ""
		c.Wrong = c46DrawPass(rt, "wrong", 1, 12)
	case "long72":
		// passphrases that agree on their first 72 bytes and differ afterwards (single-byte runes only)
		base := rapid.StringOfN(rapid.RuneFrom(c46PassAlphabet[:62]), 72, 90, -1).Draw(rt, "pass")
		c.Pass = base
		if rapid.Bool().Draw(rt, "dir") {
			c.Wrong = base + rapid.StringOfN(rapid.RuneFrom(c46PassAlphabet[:62]), 1, 5, -1).Draw(rt, "suffix")
		} else if len(base) > 72 {
			c.Wrong = base[:72+rapid.IntRange(0, len(base)-73).Draw(rt, "cut")]
		} else {
			c.Wrong = base + "x"
		}
	default:
		if rapid.IntRange(0, 9).Draw(rt, "longpass") == 0 {
			c.Pass = c46DrawPass(rt, "pass", 60, 71)
		} else {
			c.Pass = c46DrawPass(rt, "pass", 1, 24)
		}
		r := []rune(c.Pass)
		switch rapid.SampledFrom([]string{"append", "drop", "case", "replace", "empty", "space", "other", "prefix-space"}).Draw(rt, "wrongkind") {
		case "append":
			c.Wrong = c.Pass + string(rapid.SampledFrom(c46PassAlphabet).Draw(rt, "wc"))
		case "drop":
			c.Wrong = string(r[:len(r)-1])
		case "case":
			c.Wrong = strings.ToUpper(c.Pass)
			if c.Wrong == c.Pass {
				c.Wrong = strings.ToLower(c.Pass)
			}
		case "replace":
			i := rapid.IntRange(0, len(r)-1).Draw(rt, "wi")
			r2 := append([]rune{}, r...)
			r2[i] = rapid.SampledFrom(c46PassAlphabet).Draw(rt, "wr")
			c.Wrong = string(r2)
		case "empty":
			c.Wrong = ""
		case "space":
			c.Wrong = c.Pass + " "
		case "prefix-space":
			c.Wrong = " " + c.Pass
		default:
			c.Wrong = c46DrawPass(rt, "wrong", 1, 24)
		}
		if c.Wrong == c.Pass {
			c.Wrong = c.Pass + "x"
		}
	}
	return c
}

func c46Key(c c46ACase) gcrypto.PrivKey {
	if c.KeyType == "ed25519" {
		return ed25519.GenPrivKeyFromSecret(c.KeySeed)
	}
	return secp256k1.GenPrivKeySecp256k1(c.KeySeed)
}

// c46Reframe decodes the armor with x/crypto and re-encodes it after edit.
func c46Reframe(text string, edit func(h map[string]string, body []byte) []byte) (string, error) {
	blk, err := pgparmor.Decode(strings.NewReader(text))
	if err != nil {
		return "", err
	}
	body, err := io.ReadAll(blk.Body)
	if err != nil {
		return "", err
	}
	h := map[string]string{}
	for k, v := range blk.Header {
		h[k] = v
	}
	body = edit(h, append([]byte{}, body...))
	var buf bytes.Buffer
	w, err := pgparmor.Encode(&buf, blk.Type, h)
	if err != nil {
		return "", err
	}
	w.Write(body)
	w.Close()
	return buf.String(), nil
}

// c46Same72 reports whether two passphrases agree on the first 72 bytes of
// the NUL-terminated key that bcrypt's key schedule consumes.
func c46Same72(a, b string) bool {
	ka, kb := a+"\x00", b+"\x00"
	if len(ka) > 72 {
		ka = ka[:72]
	}
	if len(kb) > 72 {
		kb = kb[:72]
	}
	return ka == kb
}

const c46Known72 = "bcrypt-passphrase-truncated-at-72-bytes"

func c46Unarmor(text, pass string) (k gcrypto.PrivKey, err error) {
	defer func() {
		if p := recover(); p != nil {
			err = fmt.Errorf("PANIC: %v", p)
		}
	}()
	return karmor.UnarmorDecryptPrivKey(text, pass)
}

func c46AExec(ctx *vk.Ctx, c c46ACase) error {
	ctx.Class(c.Kind)
	ctx.Class(c.KeyType)
	ctx.NT()
	key := c46Key(c)
	if c.Kind == "keybase" {
		kb := keys.NewInMemory()
		if err := kb.ImportPrivKey("k", key, c.Pass); err != nil {
			return fmt.Errorf("ImportPrivKey: %v", err)
		}
		got, err := kb.ExportPrivKey("k", c.Pass)
		if err != nil || !got.Equals(key) {
			return fmt.Errorf("ExportPrivKey with the right passphrase %q: key equal=%v err=%v", c.Pass, err == nil && got.Equals(key), err)
		}
		if got, err := kb.ExportPrivKey("k", c.Wrong); err == nil {
			if c46Same72(c.Pass, c.Wrong) && ctx.Known(c46Known72) {
				return nil
			}
			return fmt.Errorf("ExportPrivKey succeeded with passphrase %q instead of %q (key equal=%v)", c.Wrong, c.Pass, got.Equals(key))
		}
		msg := []byte("c46 keybase message")
		if sig, _, err := kb.Sign("k", c.Wrong, msg); err == nil {
			return fmt.Errorf("keybase Sign succeeded with passphrase %q instead of %q (sig %x)", c.Wrong, c.Pass, sig)
		}
		return nil
	}
	text := karmor.EncryptArmorPrivKey(key, c.Pass)
	got, err := c46Unarmor(text, c.Pass)
	if err != nil || !got.Equals(key) {
		return fmt.Errorf("UnarmorDecryptPrivKey(EncryptArmorPrivKey(key, %q), same passphrase): key equal=%v err=%v", c.Pass, err == nil && got.Equals(key), err)
	}
	mustFail := func(what, text, pass string) error {
		got, err := c46Unarmor(text, pass)
		if err != nil && strings.HasPrefix(err.Error(), "PANIC") {
			return fmt.Errorf("UnarmorDecryptPrivKey panicked after %s: %v", what, err)
		}
		if err == nil {
			return fmt.Errorf("UnarmorDecryptPrivKey succeeded after %s (returned key equal to original: %v)", what, got.Equals(key))
		}
		return nil
	}
	switch c.Kind {
	case "wrongpass", "nopass", "long72":
		if c46Same72(c.Pass, c.Wrong) {
			ctx.Class("same-first-72-bytes")
			got, err := c46Unarmor(text, c.Wrong)
			if err == nil {
				if ctx.Known(c46Known72) {
					return nil
				}
				return fmt.Errorf("key encrypted with the %d-byte passphrase %q decrypts with the different %d-byte passphrase %q (key equal=%v): only the first 72 bytes of a passphrase are used", len(c.Pass), c.Pass, len(c.Wrong), c.Wrong, got.Equals(key))
			}
			return nil
		}
		return mustFail(fmt.Sprintf("using passphrase %q instead of %q", c.Wrong, c.Pass), text, c.Wrong)
	case "ctbit", "cttrunc", "ctextend", "salt", "kdf":
		m, err := c46Reframe(text, func(h map[string]string, body []byte) []byte {
			switch c.Kind {
			case "ctbit":
				bit := c.Pos % (len(body) * 8)
				body[bit/8] ^= 1 << uint(bit%8)
			case "cttrunc":
				body = body[:len(body)-1-c.Pos%8]
			case "ctextend":
				body = append(body, c.Repl)
			case "salt":
				s := []byte(h["salt"])
				i := c.Pos % len(s)
				hexd := "0123456789ABCDEF"
				s[i] = hexd[(strings.IndexByte(hexd, s[i])+1+int(c.Repl)%15)%16]
				h["salt"] = string(s)
			case "kdf":
				h["kdf"] = []string{"scrypt", "", "BCRYPT"}[c.Pos%3]
			}
			return body
		})
		if err != nil {
			return fmt.Errorf("harness: cannot re-frame armor: %v", err)
		}
		return mustFail("changing the "+c.Kind+" of the armored key", m, c.Pass)
	case "text":
		// one character of the armored text replaced: never a crash, and never a *different* key
		i := c.Pos % len(text)
		if text[i] == c.Repl {
			return nil
		}
		m := text[:i] + string(c.Repl) + text[i+1:]
		got, err := c46Unarmor(m, c.Pass)
		if err != nil && strings.HasPrefix(err.Error(), "PANIC") {
			return fmt.Errorf("UnarmorDecryptPrivKey panicked on %q: %v", m, err)
		}
		if err == nil {
			ctx.Class("text-mutation-still-decodes")
			if !got.Equals(key) {
				return fmt.Errorf("one-character change of the armor text yields another key")
			}
		}
	}
	return nil
}

func TestC46_Armor(t *testing.T) {
	vk.Run(t, vk.Spec[c46ACase]{
		ID: "C46", Name: "TestC46_Armor",
		Rule: "rapid: ed25519/secp256k1 private key x passphrase (1-24 characters ASCII/UTF-8, sometimes 60-71 bytes, sometimes empty = unencrypted armor) -> EncryptArmorPrivKey, decrypt with the same passphrase returns the key; then one negative experiment: another passphrase (appended/dropped/replaced character, case, blank, empty, unrelated; or equal in the first 72 bytes), one flipped ciphertext bit (nonce, tag or body), truncated/extended ciphertext, changed salt digit, changed kdf header, one replaced character of the armor text, or the same through keybase Import/Export/Sign; every case is non-trivial (one encryption and at least one rejection)",
		Draw: c46ADraw,
		Exec: c46AExec,
	})
}
