package crypto

import (
	"bytes"
	"fmt"
	"testing"

	"github.com/gnolang/gno/tm2/pkg/crypto/xchacha20poly1305"
	"github.com/gnolang/gno/tm2/pkg/crypto/xsalsa20symmetric"
	refx "golang.org/x/crypto/chacha20poly1305"
	"golang.org/x/crypto/nacl/secretbox"
	"pgregory.net/rapid"
	"verif/vk"
)

// C47 — authenticated ciphers round-trip and detect tampering.
//
// xchacha20poly1305 (gno's own HChaCha20 + subkey construction) is checked
// differentially against golang.org/x/crypto/chacha20poly1305.NewX and by the
// inverse Open(Seal(x)) = x; xsalsa20symmetric (nonce||secretbox framing) by
// the inverse, by opening its output with plain secretbox, and by decrypting
// boxes sealed by the harness under a drawn nonce. Every mutation of
// ciphertext, tag, nonce, key or associated data must make opening fail.

type c47Case struct {
	Cipher string `json:"cipher"` // xchacha | xsalsa
	Key    []byte `json:"key"`
	Nonce  []byte `json:"nonce"`
	PT     []byte `json:"pt"`
	AD     []byte `json:"ad"`
	Dst    []byte `json:"dst"` // prefix handed to Seal/Open as dst
	Mut    string `json:"mut"` // none | bit | sweep | truncate | extend | adappend | adtruncate | noncelen | swapkey
	Field  string `json:"field"`
	Pos    int    `json:"pos"`
	N      int    `json:"n"`
}

func c47Bytes(rt *rapid.T, label string, maxLen int) []byte {
	var n int
	switch rapid.IntRange(0, 5).Draw(rt, label+"k") {
	case 0:
		n = 0
	case 1:
		n = rapid.SampledFrom([]int{1, 15, 16, 17, 31, 32, 33, 63, 64, 65, 127, 128, 129, 255, 256, 257}).Draw(rt, label+"b")
	case 2:
		n = rapid.IntRange(0, maxLen).Draw(rt, label+"n")
	default:
		n = rapid.IntRange(0, min(maxLen, 96)).Draw(rt, label+"s")
	}
	if n > maxLen {
		n = maxLen
	}
	return c47Fixed(rt, label, n)
}

func c47Fixed(rt *rapid.T, label string, n int) []byte {
	switch rapid.IntRange(0, 7).Draw(rt, label+"fill") {
	case 0:
		return make([]byte, n)
	case 1:
		return bytes.Repeat([]byte{0xff}, n)
	}
	return rapid.SliceOfN(rapid.Byte(), n, n).Draw(rt, label)
}

func c47Draw(rt *rapid.T) c47Case {
	c := c47Case{Cipher: rapid.SampledFrom([]string{"xchacha", "xchacha", "xsalsa"}).Draw(rt, "cipher")}
	c.Key = c47Fixed(rt, "key", 32)
	c.Nonce = c47Fixed(rt, "nonce", 24)
	c.PT = c47Bytes(rt, "pt", 4096)
	if c.Cipher == "xchacha" {
		c.AD = c47Bytes(rt, "ad", 256)
		if rapid.IntRange(0, 3).Draw(rt, "dstk") == 0 {
			c.Dst = rapid.SliceOfN(rapid.Byte(), 1, 20).Draw(rt, "dst")
		}
		c.Mut = rapid.SampledFrom([]string{"none", "bit", "bit", "bit", "sweep", "truncate", "extend", "adappend", "adtruncate", "noncelen", "swapkey"}).Draw(rt, "mut")
		c.Field = rapid.SampledFrom([]string{"ct", "tag", "nonce", "key", "ad"}).Draw(rt, "field")
	} else {
		c.Mut = rapid.SampledFrom([]string{"none", "bit", "bit", "bit", "sweep", "truncate", "extend", "swapkey"}).Draw(rt, "mut")
		c.Field = rapid.SampledFrom([]string{"ct", "tag", "nonce", "key"}).Draw(rt, "field")
	}
	if c.Mut == "sweep" && len(c.PT) > 96 {
		c.PT = c.PT[:96]
	}
	if c.Mut == "sweep" && len(c.AD) > 48 {
		c.AD = c.AD[:48]
	}
	c.Pos = rapid.IntRange(0, 1<<20).Draw(rt, "pos")
	c.N = rapid.IntRange(1, 40).Draw(rt, "n")
	return c
}

func c47Flip(b []byte, bit int) []byte {
	out := append([]byte{}, b...)
	if len(out) == 0 {
		return out
	}
	bit %= len(out) * 8
	out[bit/8] ^= 1 << uint(bit%8)
	return out
}

func c47XChaCha(ctx *vk.Ctx, c c47Case) error {
	aead, err := xchacha20poly1305.New(c.Key)
	if err != nil {
		return fmt.Errorf("New(32-byte key): %v", err)
	}
	ref, err := refx.NewX(c.Key)
	if err != nil {
		return err
	}
	if aead.NonceSize() != 24 || aead.Overhead() != 16 {
		return fmt.Errorf("NonceSize=%d Overhead=%d", aead.NonceSize(), aead.Overhead())
	}
	dst := append([]byte{}, c.Dst...)
	sealed := aead.Seal(dst, c.Nonce, c.PT, c.AD)
	if !bytes.HasPrefix(sealed, c.Dst) {
		return fmt.Errorf("Seal did not append to dst")
	}
	box := sealed[len(c.Dst):]
	if len(box) != len(c.PT)+16 {
		return fmt.Errorf("sealed length %d, want %d", len(box), len(c.PT)+16)
	}
	if want := ref.Seal(nil, c.Nonce, c.PT, c.AD); !bytes.Equal(box, want) {
		return fmt.Errorf("Seal differs from x/crypto XChaCha20-Poly1305: got %x want %x", box, want)
	}
	open := func(key, nonce, box, ad []byte) ([]byte, error) {
		a, err := xchacha20poly1305.New(key)
		if err != nil {
			return nil, fmt.Errorf("New: %v", err)
		}
		out, err := a.Open(append([]byte{}, c.Dst...), nonce, box, ad)
		if err != nil {
			return nil, err
		}
		if !bytes.HasPrefix(out, c.Dst) {
			return nil, fmt.Errorf("Open did not append to dst")
		}
		return out[len(c.Dst):], nil
	}
	pt, err := open(c.Key, c.Nonce, box, c.AD)
	if err != nil {
		return fmt.Errorf("Open(Seal(x)) failed: %v", err)
	}
	if !bytes.Equal(pt, c.PT) {
		return fmt.Errorf("Open(Seal(x)) = %x, want %x", pt, c.PT)
	}
	mustFail := func(what string, key, nonce, box, ad []byte) error {
		if out, err := open(key, nonce, box, ad); err == nil {
			return fmt.Errorf("Open succeeded after %s (returned %d bytes)", what, len(out))
		}
		return nil
	}
	ctLen := len(box) - 16
	switch c.Mut {
	case "none":
	case "bit":
		ctx.Class("bit-" + c.Field)
		switch c.Field {
		case "ct":
			if ctLen == 0 {
				break
			}
			m := append(c47Flip(box[:ctLen], c.Pos), box[ctLen:]...)
			return mustFail("flipping a ciphertext bit", c.Key, c.Nonce, m, c.AD)
		case "tag":
			m := append(append([]byte{}, box[:ctLen]...), c47Flip(box[ctLen:], c.Pos)...)
			return mustFail("flipping a tag bit", c.Key, c.Nonce, m, c.AD)
		case "nonce":
			return mustFail("flipping a nonce bit", c.Key, c47Flip(c.Nonce, c.Pos), box, c.AD)
		case "key":
			return mustFail("flipping a key bit", c47Flip(c.Key, c.Pos), c.Nonce, box, c.AD)
		case "ad":
			if len(c.AD) == 0 {
				break
			}
			return mustFail("flipping an AD bit", c.Key, c.Nonce, box, c47Flip(c.AD, c.Pos))
		}
	case "sweep":
		for bit := 0; bit < len(box)*8; bit++ {
			if err := mustFail(fmt.Sprintf("flipping bit %d of ciphertext||tag", bit), c.Key, c.Nonce, c47Flip(box, bit), c.AD); err != nil {
				return err
			}
		}
		for bit := 0; bit < 24*8; bit++ {
			if err := mustFail(fmt.Sprintf("flipping nonce bit %d", bit), c.Key, c47Flip(c.Nonce, bit), box, c.AD); err != nil {
				return err
			}
		}
		for bit := 0; bit < 32*8; bit++ {
			if err := mustFail(fmt.Sprintf("flipping key bit %d", bit), c47Flip(c.Key, bit), c.Nonce, box, c.AD); err != nil {
				return err
			}
		}
		for bit := 0; bit < len(c.AD)*8; bit++ {
			if err := mustFail(fmt.Sprintf("flipping AD bit %d", bit), c.Key, c.Nonce, box, c47Flip(c.AD, bit)); err != nil {
				return err
			}
		}
	case "truncate":
		n := c.N % (len(box) + 1)
		if n == 0 {
			n = 1
		}
		return mustFail(fmt.Sprintf("dropping the last %d bytes", n), c.Key, c.Nonce, box[:len(box)-n], c.AD)
	case "extend":
		return mustFail("appending bytes", c.Key, c.Nonce, append(append([]byte{}, box...), make([]byte, c.N)...), c.AD)
	case "adappend":
		return mustFail("appending to AD", c.Key, c.Nonce, box, append(append([]byte{}, c.AD...), byte(c.Pos)))
	case "adtruncate":
		if len(c.AD) == 0 {
			break
		}
		return mustFail("truncating AD", c.Key, c.Nonce, box, c.AD[:len(c.AD)-1])
	case "noncelen":
		// documented: Open returns an error on a nonce of the wrong length
		bad := append([]byte{}, c.Nonce...)
		if c.N%2 == 0 {
			bad = bad[:c.N%24]
		} else {
			bad = append(bad, make([]byte, c.N)...)
		}
		return mustFail(fmt.Sprintf("using a %d-byte nonce", len(bad)), c.Key, bad, box, c.AD)
	case "swapkey":
		other := append([]byte{}, c.Key...)
		other[c.Pos%32] += byte(1 + c.N)
		return mustFail("using another key", other, c.Nonce, box, c.AD)
	}
	return nil
}

const c47KnownEmpty = "xsalsa-empty-plaintext-roundtrip-fails"

func c47XSalsa(ctx *vk.Ctx, c c47Case) error {
	// 1. the package's own output (random nonce): framing, inverse, and plain secretbox opens it
	enc := xsalsa20symmetric.EncryptSymmetric(c.PT, c.Key)
	if len(enc) != len(c.PT)+24+secretbox.Overhead {
		return fmt.Errorf("ciphertext is %d bytes, documented %d", len(enc), len(c.PT)+24+secretbox.Overhead)
	}
	var n24 [24]byte
	var k32 [32]byte
	copy(n24[:], enc[:24])
	copy(k32[:], c.Key)
	if out, ok := secretbox.Open(nil, enc[24:], &n24, &k32); !ok || !bytes.Equal(out, c.PT) {
		return fmt.Errorf("secretbox cannot open EncryptSymmetric output as nonce||box (ok=%v)", ok)
	}
	dec, err := xsalsa20symmetric.DecryptSymmetric(enc, c.Key)
	if err != nil {
		if !(len(c.PT) == 0 && ctx.Known(c47KnownEmpty)) {
			return fmt.Errorf("DecryptSymmetric(EncryptSymmetric(x)) failed for %d-byte plaintext: %v", len(c.PT), err)
		}
	} else if !bytes.Equal(dec, c.PT) {
		return fmt.Errorf("DecryptSymmetric(EncryptSymmetric(x)) = %x, want %x", dec, c.PT)
	}
	// 2. a box sealed by the harness under the drawn nonce (deterministic)
	copy(n24[:], c.Nonce)
	mine := append(append([]byte{}, c.Nonce...), secretbox.Seal(nil, c.PT, &n24, &k32)...)
	dec, err = xsalsa20symmetric.DecryptSymmetric(mine, c.Key)
	if err != nil {
		if !(len(c.PT) == 0 && ctx.Known(c47KnownEmpty)) {
			return fmt.Errorf("DecryptSymmetric of a valid nonce||secretbox for %d-byte plaintext: %v", len(c.PT), err)
		}
	} else if !bytes.Equal(dec, c.PT) {
		return fmt.Errorf("DecryptSymmetric(valid box) = %x, want %x", dec, c.PT)
	}
	mustFail := func(what string, key, ct []byte) error {
		if out, err := xsalsa20symmetric.DecryptSymmetric(ct, key); err == nil {
			return fmt.Errorf("DecryptSymmetric succeeded after %s (returned %d bytes)", what, len(out))
		}
		return nil
	}
	region := func(field string) (lo, hi int) { // byte ranges inside nonce||tag||ct (secretbox puts the tag first)
		switch field {
		case "nonce":
			return 0, 24
		case "tag":
			return 24, 40
		default:
			return 40, len(mine)
		}
	}
	switch c.Mut {
	case "none":
	case "bit":
		ctx.Class("bit-" + c.Field)
		if c.Field == "key" {
			return mustFail("flipping a key bit", c47Flip(c.Key, c.Pos), mine)
		}
		lo, hi := region(c.Field)
		if hi == lo {
			break
		}
		m := append([]byte{}, mine...)
		copy(m[lo:hi], c47Flip(mine[lo:hi], c.Pos))
		if err := mustFail("flipping a "+c.Field+" bit", c.Key, m); err != nil {
			return err
		}
		// and the same position in the package's own (random-nonce) output
		m = append([]byte{}, enc...)
		copy(m[lo:hi], c47Flip(enc[lo:hi], c.Pos))
		return mustFail("flipping a "+c.Field+" bit of EncryptSymmetric output", c.Key, m)
	case "sweep":
		for bit := 0; bit < len(mine)*8; bit++ {
			if err := mustFail(fmt.Sprintf("flipping bit %d of nonce||box", bit), c.Key, c47Flip(mine, bit)); err != nil {
				return err
			}
		}
		for bit := 0; bit < 256; bit++ {
			if err := mustFail(fmt.Sprintf("flipping key bit %d", bit), c47Flip(c.Key, bit), mine); err != nil {
				return err
			}
		}
	case "truncate":
		n := c.N % (len(mine) + 1)
		if n == 0 {
			n = 1
		}
		return mustFail(fmt.Sprintf("dropping the last %d bytes", n), c.Key, mine[:len(mine)-n])
	case "extend":
		return mustFail("appending bytes", c.Key, append(append([]byte{}, mine...), make([]byte, c.N)...))
	case "swapkey":
		other := append([]byte{}, c.Key...)
		other[c.Pos%32] += byte(1 + c.N)
		return mustFail("using another key", other, mine)
	}
	return nil
}

func c47Exec(ctx *vk.Ctx, c c47Case) error {
	ctx.Class(c.Cipher + "/" + c.Mut)
	ctx.ClassIf(len(c.PT) == 0, "empty-plaintext")
	ctx.ClassIf(len(c.PT) > 256, "long-plaintext")
	ctx.NTIf(c.Mut != "none" || len(c.PT) == 0 || len(c.PT)%64 <= 1)
	if len(c.Key) != 32 || len(c.Nonce) != 24 {
		return fmt.Errorf("bad case: key %d nonce %d bytes", len(c.Key), len(c.Nonce))
	}
	if c.Cipher == "xchacha" {
		return c47XChaCha(ctx, c)
	}
	return c47XSalsa(ctx, c)
}

func TestC47_AEAD(t *testing.T) {
	vk.Run(t, vk.Spec[c47Case]{
		ID: "C47", Name: "TestC47_AEAD",
		Rule: "rapid: cipher in {xchacha20poly1305, xsalsa20symmetric} x 32-byte key x 24-byte nonce x plaintext 0-4096 B (biased to 0 and block boundaries) x AD 0-256 B x dst prefix; then one of: no mutation, a single bit flip in ciphertext/tag/nonce/key/AD, a sweep over every single-bit flip (messages <= 96 B), truncation, extension, AD append/truncate, wrong nonce length, another key; non-trivial = a mutation was applied, or the plaintext is empty or at a 64-byte block boundary",
		Draw: c47Draw,
		Exec: c47Exec,
	})
}
