package crypto

import (
	stded "crypto/ed25519"
	"crypto/sha256"
	"fmt"
	"math/big"
	"testing"

	gcrypto "github.com/gnolang/gno/tm2/pkg/crypto"
	"github.com/gnolang/gno/tm2/pkg/crypto/ed25519"
	"github.com/gnolang/gno/tm2/pkg/crypto/secp256k1"
	"pgregory.net/rapid"
	"verif/vk"
)

// C44 (single keys) — a signature verifies for exactly the signed message and
// key; arbitrary bytes never panic.
//
// Oracles: construction (a signature over m by k; anything else derived from
// it by changing message, key or signature must be refused), and for
// secp256k1 an independent ECDSA verifier (ref_secp_test.go: math/big affine
// arithmetic, SHA-256 digest, lower-S rule as documented by VerifyBytes); for
// ed25519 the Go standard library verifier.

type c44SCase struct {
	KeyType string `json:"keytype"` // ed25519 | secp256k1
	Seed    []byte `json:"seed"`
	Seed2   []byte `json:"seed2"`
	Msg     []byte `json:"msg"`
	Variant string `json:"variant"` // valid | msg | key | bit | len | neg | raw | rawpub | edge
	Pos     int    `json:"pos"`
	N       int    `json:"n"`
	Raw     []byte `json:"raw"`
}

func c44Priv(keyType string, seed []byte) gcrypto.PrivKey {
	if keyType == "ed25519" {
		return ed25519.GenPrivKeyFromSecret(seed)
	}
	return secp256k1.GenPrivKeySecp256k1(seed)
}

// c44RefVerify is the independent verdict for (public key bytes, msg, sig).
func c44RefVerify(keyType string, pub []byte, msg, sig []byte) bool {
	if keyType == "ed25519" {
		return len(sig) == 64 && len(pub) == 32 && stded.Verify(stded.PublicKey(pub), msg, sig)
	}
	d := sha256.Sum256(msg)
	return refECDSAVerify(pub, d[:], sig)
}

func c44PubBytes(pk gcrypto.PubKey) []byte {
	switch k := pk.(type) {
	case ed25519.PubKeyEd25519:
		return k[:]
	case secp256k1.PubKeySecp256k1:
		return k[:]
	}
	return nil
}

func c44PubFromBytes(keyType string, b []byte) gcrypto.PubKey {
	if keyType == "ed25519" {
		var k ed25519.PubKeyEd25519
		copy(k[:], b)
		return k
	}
	var k secp256k1.PubKeySecp256k1
	copy(k[:], b)
	return k
}

func c44SDraw(rt *rapid.T) c44SCase {
	c := c44SCase{KeyType: rapid.SampledFrom([]string{"ed25519", "secp256k1"}).Draw(rt, "keytype")}
	c.Seed = rapid.SliceOfN(rapid.Byte(), 1, 8).Draw(rt, "seed")
	c.Seed2 = rapid.SliceOfN(rapid.Byte(), 1, 8).Draw(rt, "seed2")
	c.Msg = c47Bytes(rt, "msg", 300)
	c.Variant = rapid.SampledFrom([]string{"valid", "msg", "msg", "key", "bit", "bit", "len", "neg", "raw", "rawpub", "edge"}).Draw(rt, "variant")
	c.Pos = rapid.IntRange(0, 1<<16).Draw(rt, "pos")
	c.N = rapid.IntRange(1, 70).Draw(rt, "n")
	if c.Variant == "raw" || c.Variant == "rawpub" {
		n := rapid.SampledFrom([]int{64, 64, 64, 0, 1, 32, 63, 65, 96, 128}).Draw(rt, "rawlen")
		c.Raw = c47Fixed(rt, "raw", n)
	}
	return c
}

func c44Verify(pk gcrypto.PubKey, msg, sig []byte) (ok bool, panicked any) {
	defer func() { panicked = recover() }()
	return pk.VerifyBytes(msg, sig), nil
}

func c44SExec(ctx *vk.Ctx, c c44SCase) error {
	ctx.Class(c.KeyType + "/" + c.Variant)
	ctx.NTIf(c.Variant != "valid" || len(c.Msg) == 0)
	priv := c44Priv(c.KeyType, c.Seed)
	pub := priv.PubKey()
	pubBytes := c44PubBytes(pub)
	if c.KeyType == "secp256k1" {
		sk := priv.(secp256k1.PrivKeySecp256k1)
		if want := refPubFromPriv(sk[:]); string(want) != string(pubBytes) {
			return fmt.Errorf("PubKey() of %x = %x, reference scalar multiplication %x", sk[:], pubBytes, want)
		}
	}
	sig, err := priv.Sign(c.Msg)
	if err != nil || len(sig) != 64 {
		return fmt.Errorf("Sign: %d bytes, err %v", len(sig), err)
	}
	// check(pk, msg, sig, must): gno's verdict equals the reference verdict; `must`
	// (when not nil) is the verdict fixed by construction.
	check := func(what string, keyBytes, msg, s []byte, must *bool) error {
		got, p := c44Verify(c44PubFromBytes(c.KeyType, keyBytes), msg, s)
		if p != nil {
			return fmt.Errorf("VerifyBytes panicked (%s): %v", what, p)
		}
		ref := c44RefVerify(c.KeyType, keyBytes, msg, s)
		if must != nil && ref != *must {
			return fmt.Errorf("harness: reference verifier says %v for %s, construction says %v", ref, what, *must)
		}
		if got != ref {
			return fmt.Errorf("VerifyBytes = %v, reference %v (%s; key %x msg %x sig %x)", got, ref, what, keyBytes, msg, s)
		}
		return nil
	}
	yes, no := true, false
	if err := check("signature over the message by the key", pubBytes, c.Msg, sig, &yes); err != nil {
		return err
	}
	flip := func(b []byte, bit int) []byte {
		out := append([]byte{}, b...)
		bit %= len(out) * 8
		out[bit/8] ^= 1 << uint(bit%8)
		return out
	}
	switch c.Variant {
	case "msg":
		var m []byte
		switch {
		case len(c.Msg) == 0:
			m = []byte{byte(c.Pos)}
		case c.Pos%4 == 0:
			m = append(append([]byte{}, c.Msg...), byte(c.N))
		case c.Pos%4 == 1:
			m = c.Msg[:len(c.Msg)-1]
		default:
			m = flip(c.Msg, c.Pos)
		}
		return check("another message", pubBytes, m, sig, &no)
	case "key":
		other := c44PubBytes(c44Priv(c.KeyType, c.Seed2).PubKey())
		if string(other) == string(pubBytes) {
			return nil
		}
		return check("another key", other, c.Msg, sig, &no)
	case "bit":
		return check("one flipped signature bit", pubBytes, c.Msg, flip(sig, c.Pos), &no)
	case "len":
		var s []byte
		switch c.Pos % 3 {
		case 0:
			s = sig[:64-1-c.N%64]
		case 1:
			s = append(append([]byte{}, sig...), make([]byte, c.N)...)
		default:
			s = append(append([]byte{}, sig...), sig[:c.N%64+1]...)
		}
		return check(fmt.Sprintf("signature of %d bytes", len(s)), pubBytes, c.Msg, s, &no)
	case "neg":
		s := append([]byte{}, sig...)
		if c.KeyType == "secp256k1" {
			// (r, n-s) is the other ECDSA-valid encoding; documented as rejected (lower-S only)
			neg := new(big.Int).Sub(refN, new(big.Int).SetBytes(sig[32:]))
			neg.FillBytes(s[32:])
		} else {
			// S + L: same scalar modulo the group order, non-canonical encoding (little endian)
			L, _ := new(big.Int).SetString("7237005577332262213973186563042994240857116359379907606001950938285454250989", 10)
			le := append([]byte{}, sig[32:]...)
			for i, j := 0, len(le)-1; i < j; i, j = i+1, j-1 {
				le[i], le[j] = le[j], le[i]
			}
			v := new(big.Int).Add(new(big.Int).SetBytes(le), L)
			be := make([]byte, 32)
			v.FillBytes(be)
			for i := 0; i < 32; i++ {
				s[32+i] = be[31-i]
			}
		}
		return check("the malleated twin of the signature", pubBytes, c.Msg, s, &no)
	case "raw":
		return check("arbitrary signature bytes", pubBytes, c.Msg, c.Raw, nil)
	case "rawpub":
		kb := make([]byte, len(pubBytes))
		copy(kb, c.Raw)
		if c.KeyType == "secp256k1" && c.Pos%2 == 0 {
			kb[0] = 2 + byte(c.Pos/2%2)
		}
		if err := check("arbitrary public key bytes, genuine signature", kb, c.Msg, sig, nil); err != nil {
			return err
		}
		return check("arbitrary public key and signature bytes", kb, c.Msg, c.Raw, nil)
	case "edge":
		if c.KeyType != "secp256k1" {
			// all-zero / all-ones halves
			s := append([]byte{}, sig...)
			for i := 0; i < 32; i++ {
				s[(c.Pos%2)*32+i] = byte(0xff * (c.Pos / 2 % 2))
			}
			return check("signature with a constant half", pubBytes, c.Msg, s, nil)
		}
		vals := []*big.Int{big.NewInt(0), refN, new(big.Int).Add(refN, big.NewInt(1)), new(big.Int).Sub(refN, big.NewInt(1)), refHalfN, new(big.Int).Add(refHalfN, big.NewInt(1)), big.NewInt(1), new(big.Int).Sub(new(big.Int).Lsh(big.NewInt(1), 256), big.NewInt(1))}
		s := append([]byte{}, sig...)
		vals[c.Pos%len(vals)].FillBytes(s[(c.N%2)*32 : (c.N%2)*32+32])
		return check("signature with a boundary scalar", pubBytes, c.Msg, s, nil)
	}
	return nil
}

func TestC44_Single(t *testing.T) {
	vk.Run(t, vk.Spec[c44SCase]{
		ID: "C44", Name: "TestC44_Single",
		Rule: "rapid: ed25519/secp256k1 key from a seed x message 0-300 B -> Sign, VerifyBytes must accept; then one of: another message (bit flip/append/truncate), another key, one flipped signature bit, wrong signature length, the malleated twin ((r,n-s) / S+L), arbitrary signature bytes, arbitrary public-key bytes, boundary scalars (0, n, n+-1, n/2, n/2+1, 2^256-1); gno's verdict must equal the independent verifier's (math/big ECDSA with lower-S rule; standard-library Ed25519) and the verdict fixed by construction; no panic; non-trivial = any variant other than the plain valid signature of a non-empty message",
		Draw: c44SDraw,
		Exec: c44SExec,
	})
}
