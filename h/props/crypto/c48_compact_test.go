package crypto

import (
	"bytes"
	"encoding/json"
	"fmt"
	"testing"

	"github.com/gnolang/gno/tm2/pkg/amino"
	cbits "github.com/gnolang/gno/tm2/pkg/crypto/multisig/bitarray"
	"pgregory.net/rapid"
	"verif/vk"
)

// C48 (part 2) — multisig/bitarray.CompactBitArray behaves like a boolean
// vector (most significant bit of each byte first), and its JSON, compact and
// amino encodings decode to the same vector.

type c48cCase struct {
	Init []string `json:"init"` // two registers: "nil" or x/_ string
	Ops  []c48Op  `json:"ops"`
}

func c48cBuild(r c48Reg) *cbits.CompactBitArray {
	if r.Nil {
		return nil
	}
	ba := cbits.NewCompactBitArray(len(r.Bits))
	for i, v := range r.Bits {
		if v {
			ba.SetIndex(i, true)
		}
	}
	return ba
}

func c48cObs(ba *cbits.CompactBitArray) string {
	if ba == nil {
		return "nil"
	}
	b := make([]bool, ba.Size())
	for i := range b {
		b[i] = ba.GetIndex(i)
	}
	return c48Str(b)
}

func c48cDiff(ba *cbits.CompactBitArray, m c48Reg) string {
	want := 0
	if !m.Nil {
		want = len(m.Bits)
	}
	if ba.Size() != want {
		return fmt.Sprintf("size %d, model %d", ba.Size(), want)
	}
	for i := 0; i < want; i++ {
		if ba.GetIndex(i) != m.Bits[i] {
			return fmt.Sprintf("bit %d is %v, model %v (impl %s model %s)", i, ba.GetIndex(i), m.Bits[i], c48cObs(ba), c48Str(m.Bits))
		}
	}
	return ""
}

func c48cDraw(rt *rapid.T) c48cCase {
	var c c48cCase
	regs := make([]c48Reg, 2)
	for i := range regs {
		s := c48DrawInit(rt, fmt.Sprintf("r%d", i))
		c.Init = append(c.Init, s)
		regs[i] = c48Parse(s)
	}
	nops := rapid.IntRange(1, 12).Draw(rt, "nops")
	kinds := []string{"set", "set", "get", "numtrue", "numtrue", "copy", "json", "compact", "amino", "size", "fromjson"}
	for k := 0; k < nops; k++ {
		o := c48Op{Op: rapid.SampledFrom(kinds).Draw(rt, "op")}
		o.A = rapid.IntRange(0, 1).Draw(rt, "a")
		n := len(regs[o.A].Bits)
		switch o.Op {
		case "set", "get":
			if regs[o.A].Nil || n == 0 {
				o.Op = "size"
				break
			}
			if rapid.Bool().Draw(rt, "edge") {
				o.I = rapid.SampledFrom([]int{0, n - 1, n / 2, min(n-1, 7), min(n-1, 8), (n - 1) &^ 7}).Draw(rt, "ie")
			} else {
				o.I = rapid.IntRange(0, n-1).Draw(rt, "i")
			}
			o.V = rapid.Bool().Draw(rt, "v")
		case "numtrue":
			o.I = rapid.IntRange(0, n).Draw(rt, "i") // "before index", 0..size
		case "copy":
			o.Dst = 1 - o.A
		case "fromjson":
			o.Dst = rapid.IntRange(0, 1).Draw(rt, "dst")
			if rapid.IntRange(0, 5).Draw(rt, "jk") == 0 {
				o.S = `""`
			} else {
				o.S = `"` + c48DrawBits(rt, "j") + `"`
			}
		}
		c48ApplyModel(regs, o)
		c.Ops = append(c.Ops, o)
	}
	return c
}

func c48cExec(ctx *vk.Ctx, c c48cCase) error {
	regs := make([]c48Reg, 2)
	impl := make([]*cbits.CompactBitArray, 2)
	for i, s := range c.Init {
		regs[i] = c48Parse(s)
		impl[i] = c48cBuild(regs[i])
		if d := c48cDiff(impl[i], regs[i]); d != "" {
			return fmt.Errorf("register %d built from %q: %s", i, s, d)
		}
	}
	boundary, encoded := false, false
	for step, o := range c.Ops {
		ctx.Class(o.Op)
		a, ma := impl[o.A], regs[o.A]
		n := len(ma.Bits)
		if n > 0 && (n%8 <= 1 || n%8 == 7) {
			boundary = true
		}
		fail := func(format string, args ...any) error {
			return fmt.Errorf(fmt.Sprintf("step %d %s(r%d=%s): ", step, o.Op, o.A, c48cObs(a))+format, args...)
		}
		switch o.Op {
		case "set":
			if !a.SetIndex(o.I, o.V) {
				return fail("SetIndex(%d,%v) returned false below Size()", o.I, o.V)
			}
		case "get":
			if got := a.GetIndex(o.I); got != ma.Bits[o.I] {
				return fail("GetIndex(%d)=%v, model %v", o.I, got, ma.Bits[o.I])
			}
		case "size":
			if a.Size() != n {
				return fail("Size()=%d, model %d", a.Size(), n)
			}
		case "numtrue":
			want := 0
			for i := 0; i < o.I; i++ {
				if ma.Bits[i] {
					want++
				}
			}
			if got := a.NumTrueBitsBefore(o.I); got != want {
				return fail("NumTrueBitsBefore(%d)=%d, model %d", o.I, got, want)
			}
		case "copy":
			impl[o.Dst] = a.Copy()
		case "json":
			encoded = true
			want := "null"
			if !ma.Nil {
				want = `"` + c48Str(ma.Bits) + `"`
			}
			got, err := json.Marshal(a)
			if err != nil || string(got) != want {
				return fail("json.Marshal=%s err=%v, model %s", got, err, want)
			}
			if !ma.Nil && n > 0 {
				back := new(cbits.CompactBitArray)
				if err := json.Unmarshal(got, back); err != nil {
					return fail("json.Unmarshal(%s): %v", got, err)
				}
				if d := c48cDiff(back, ma); d != "" {
					return fail("JSON round-trip %s: %s", got, d)
				}
			}
		case "compact":
			encoded = true
			bz := a.CompactMarshal()
			back, err := cbits.CompactUnmarshal(bz)
			if err != nil {
				return fail("CompactUnmarshal(%x): %v", bz, err)
			}
			if d := c48cDiff(back, ma); d != "" {
				return fail("compact round-trip %x: %s", bz, d)
			}
			if n > 0 {
				// documented layout: uvarint(number of bits) followed by the bytes
				want := amino_uvarint(uint64(n))
				if !bytes.HasPrefix(bz, want) || len(bz) != len(want)+(n+7)/8 {
					return fail("CompactMarshal=%x does not start with uvarint(%d) followed by %d bytes", bz, n, (n+7)/8)
				}
			}
		case "amino":
			if ma.Nil {
				break
			}
			encoded = true
			bz, err := amino.Marshal(a)
			if err != nil {
				return fail("amino.Marshal: %v", err)
			}
			back := new(cbits.CompactBitArray)
			if err := amino.Unmarshal(bz, back); err != nil {
				return fail("amino.Unmarshal(%x): %v", bz, err)
			}
			if d := c48cDiff(back, ma); d != "" {
				return fail("amino round-trip %x: %s", bz, d)
			}
		case "fromjson":
			ba := new(cbits.CompactBitArray)
			if o.S == `""` {
				// NewCompactBitArray(0) is nil: decoding "" must not crash and must give zero bits
				var err error
				func() {
					defer func() {
						if p := recover(); p != nil {
							err = fmt.Errorf("panic: %v", p)
						}
					}()
					err = ba.UnmarshalJSON([]byte(o.S))
				}()
				if err != nil {
					if ctx.Known("compact-unmarshaljson-empty-string-nil-deref") {
						ba = new(cbits.CompactBitArray)
					} else {
						return fail("UnmarshalJSON(%s): %v", o.S, err)
					}
				}
			} else if err := ba.UnmarshalJSON([]byte(o.S)); err != nil {
				return fail("UnmarshalJSON(%s): %v", o.S, err)
			}
			impl[o.Dst] = ba
		default:
			return fmt.Errorf("bad op %q", o.Op)
		}
		c48ApplyModel(regs, o)
		for i := range regs {
			if d := c48cDiff(impl[i], regs[i]); d != "" {
				return fail("register %d afterwards: %s", i, d)
			}
		}
	}
	ctx.ClassIf(boundary, "byte-boundary-size")
	ctx.ClassIf(encoded, "encoded")
	ctx.NTIf(boundary || encoded)
	return nil
}

func amino_uvarint(x uint64) []byte {
	var out []byte
	for x >= 0x80 {
		out = append(out, byte(x)|0x80)
		x >>= 7
	}
	return append(out, byte(x))
}

func TestC48_Compact(t *testing.T) {
	vk.Run(t, vk.Spec[c48cCase]{
		ID: "C48", Name: "TestC48_Compact",
		Rule: "rapid: programs of 1-12 ops (set/get/numTrueBitsBefore/copy/size/json/compact/amino/fromjson) over 2 registers of CompactBitArray, sizes 0-200 biased to byte and word boundaries, nil registers; every register compared with its []bool model after every step; non-trivial = a size at a byte boundary (n%8 in {0,1,7}) or an encode/decode round-trip",
		Draw: c48cDraw,
		Exec: c48cExec,
	})
}
