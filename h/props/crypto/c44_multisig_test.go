package crypto

import (
	"fmt"
	"strings"
	"testing"

	"github.com/gnolang/gno/tm2/pkg/amino"
	gcrypto "github.com/gnolang/gno/tm2/pkg/crypto"
	"github.com/gnolang/gno/tm2/pkg/crypto/ed25519"
	"github.com/gnolang/gno/tm2/pkg/crypto/multisig"
	cbits "github.com/gnolang/gno/tm2/pkg/crypto/multisig/bitarray"
	"github.com/gnolang/gno/tm2/pkg/crypto/secp256k1"
	"github.com/gnolang/gno/tm2/pkg/sdk/auth"
	"github.com/gnolang/gno/tm2/pkg/store"
	"pgregory.net/rapid"
	"verif/vk"
)

// C44 (multisig) — k-of-n verification succeeds exactly when at least k
// positions are marked and every marked position carries a valid signature of
// the corresponding key; never panics.
//
// A case describes keys, a bit array given by its two encoded fields, a list
// of signature recipes and optional damage to the encoded bytes. Exec builds
// the bytes; the model then *decodes the final bytes itself* and evaluates
// the rule with the independent leaf verifiers of c44_sig_test.go:
//
//	undecodable                       -> false
//	malformed bit array (extra > 7, or extra != 0 without bytes)
//	                                  -> no verdict required, but no panic, and
//	                                     "true" only with k keys validly signed
//	size != n, or marked < k          -> false
//	fewer signatures than marked bits -> false (a marked position has no signature)
//	more signatures than marked bits  -> false if one of the first `marked`
//	                                     signatures is invalid for its position;
//	                                     otherwise either verdict is accepted (the
//	                                     statement does not say whether surplus
//	                                     signatures invalidate a multisignature)
//	as many signatures as marked bits -> true iff each is valid for its position
//
// Nested multisig keys recurse with the same rule.

type c44Key struct {
	T    string   `json:"t"` // ed | secp | multi
	Seed int      `json:"seed,omitempty"`
	K    int      `json:"k,omitempty"`
	Sub  []c44Key `json:"sub,omitempty"`
}

type c44Sig struct {
	Kind   string   `json:"kind"` // valid | wrongmsg | outsider | garbage | empty | flip | nested
	Signer int      `json:"signer"`
	Raw    []byte   `json:"raw,omitempty"`
	Pos    int      `json:"pos,omitempty"`
	Sub    *c44MSig `json:"sub,omitempty"`
}

type c44MSig struct {
	NilBits bool     `json:"nilbits,omitempty"`
	Extra   int      `json:"extra"`
	Elems   []byte   `json:"elems"`
	Sigs    []c44Sig `json:"sigs"`
}

type c44Mut struct {
	Pos int  `json:"pos"`
	Xor byte `json:"xor"`
}

type c44MCase struct {
	Keys    []c44Key `json:"keys"`
	K       int      `json:"k"`
	Msg     []byte   `json:"msg"`
	Sig     c44MSig  `json:"sig"`
	Perturb string   `json:"perturb"` // informational: which shape damage Draw applied
	Enc     string   `json:"enc"`     // struct | api | bytemut | raw
	Order   []int    `json:"order,omitempty"`
	Muts    []c44Mut `json:"muts,omitempty"`
	Trunc   int      `json:"trunc,omitempty"`
	Raw     []byte   `json:"raw,omitempty"`
}

// ---- generation (pure data) ----

func c44PackBits(bits []bool) (extra int, elems []byte) {
	elems = make([]byte, (len(bits)+7)/8)
	for i, b := range bits {
		if b {
			elems[i/8] |= 1 << uint(7-i%8)
		}
	}
	return len(bits) % 8, elems
}

func c44DrawLeafKey(rt *rapid.T) c44Key {
	return c44Key{T: rapid.SampledFrom([]string{"ed", "secp"}).Draw(rt, "kt"), Seed: rapid.IntRange(0, 6).Draw(rt, "kseed")}
}

func c44DrawSigs(rt *rapid.T, keys []c44Key, depth int) (c44MSig, string) {
	n := len(keys)
	k := 1
	// marked set
	bits := make([]bool, n)
	var m int
	switch rapid.IntRange(0, 5).Draw(rt, "mk") {
	case 0:
		m = n
	case 1:
		m = rapid.IntRange(0, n).Draw(rt, "m")
	default:
		m = rapid.IntRange(min(k, n), n).Draw(rt, "m2")
	}
	perm := rapid.Permutation(c44Range(n)).Draw(rt, "perm")
	for _, p := range perm[:m] {
		bits[p] = true
	}
	var sigs []c44Sig
	for p := 0; p < n; p++ {
		if !bits[p] {
			continue
		}
		s := c44Sig{Kind: "valid", Signer: p}
		if keys[p].T == "multi" {
			sub, _ := c44DrawSigs(rt, keys[p].Sub, depth+1)
			s = c44Sig{Kind: "nested", Signer: p, Sub: &sub}
		}
		if rapid.IntRange(0, 9).Draw(rt, "sk") == 0 {
			s.Kind = rapid.SampledFrom([]string{"wrongmsg", "outsider", "garbage", "empty", "flip", "valid"}).Draw(rt, "skind")
			s.Sub = nil
			switch s.Kind {
			case "outsider":
				s.Signer = 100 + rapid.IntRange(0, 3).Draw(rt, "out")
			case "garbage":
				s.Raw = rapid.SliceOfN(rapid.Byte(), 0, 70).Draw(rt, "graw")
			case "flip":
				s.Pos = rapid.IntRange(0, 511).Draw(rt, "fpos")
			case "valid":
				s.Signer = rapid.IntRange(0, n-1).Draw(rt, "osigner") // a genuine signature of a (possibly) different member
			}
		}
		sigs = append(sigs, s)
	}
	perturb := rapid.SampledFrom([]string{"none", "none", "none", "none", "dropsig", "extrasig", "extrabit", "sizeplus", "sizeminus", "swap", "dup", "malformed", "nilbits", "padbits", "nosigs"}).Draw(rt, "perturb")
	if depth > 0 && rapid.Bool().Draw(rt, "calm") {
		perturb = "none"
	}
	ms := c44MSig{Sigs: sigs}
	switch perturb {
	case "dropsig":
		if len(ms.Sigs) > 0 {
			i := rapid.IntRange(0, len(ms.Sigs)-1).Draw(rt, "di")
			ms.Sigs = append(append([]c44Sig{}, ms.Sigs[:i]...), ms.Sigs[i+1:]...)
		}
	case "extrasig":
		e := c44Sig{Kind: rapid.SampledFrom([]string{"valid", "garbage", "empty"}).Draw(rt, "ek"), Signer: rapid.IntRange(0, n-1).Draw(rt, "es")}
		i := rapid.IntRange(0, len(ms.Sigs)).Draw(rt, "ei")
		ms.Sigs = append(append(append([]c44Sig{}, ms.Sigs[:i]...), e), ms.Sigs[i:]...)
	case "extrabit":
		for _, p := range perm[m:] {
			bits[p] = true
			if rapid.Bool().Draw(rt, "more") {
				break
			}
		}
	case "sizeplus":
		bits = append(bits, rapid.SliceOfN(rapid.Bool(), 1, 9).Draw(rt, "plus")...)
	case "sizeminus":
		bits = bits[:rapid.IntRange(0, n-1).Draw(rt, "minus")]
	case "swap":
		if len(ms.Sigs) >= 2 {
			i := rapid.IntRange(0, len(ms.Sigs)-2).Draw(rt, "si")
			ms.Sigs[i], ms.Sigs[i+1] = ms.Sigs[i+1], ms.Sigs[i]
		}
	case "dup":
		if len(ms.Sigs) >= 2 {
			i := rapid.IntRange(0, len(ms.Sigs)-1).Draw(rt, "dupi")
			j := rapid.IntRange(0, len(ms.Sigs)-1).Draw(rt, "dupj")
			ms.Sigs[j] = ms.Sigs[i]
		}
	case "nosigs":
		ms.Sigs = nil
	}
	ms.Extra, ms.Elems = c44PackBits(bits)
	switch perturb {
	case "malformed":
		switch rapid.IntRange(0, 2).Draw(rt, "mf") {
		case 0:
			ms.Extra = rapid.IntRange(8, 255).Draw(rt, "mfe")
		case 1:
			// one byte that claims to hold all n bits: Size() == n, but indices >= 8 have no byte
			ms.Extra = n
			ms.Elems = ms.Elems[:1]
		default:
			ms.Extra = rapid.IntRange(1, 7).Draw(rt, "mfe2")
			ms.Elems = nil
		}
	case "nilbits":
		ms.NilBits = true
	case "padbits":
		if len(ms.Elems) > 0 && ms.Extra != 0 {
			ms.Elems[len(ms.Elems)-1] |= byte(rapid.IntRange(1, 1<<uint(8-ms.Extra)-1).Draw(rt, "pad"))
		}
	}
	return ms, perturb
}

func c44Range(n int) []int {
	out := make([]int, n)
	for i := range out {
		out[i] = i
	}
	return out
}

func c44MDraw(rt *rapid.T) c44MCase {
	var c c44MCase
	n := rapid.SampledFrom([]int{1, 2, 2, 3, 3, 3, 4, 5, 6, 7, 8, 9, 10}).Draw(rt, "n")
	for i := 0; i < n; i++ {
		if rapid.IntRange(0, 9).Draw(rt, "nest") == 0 {
			sn := rapid.IntRange(1, 3).Draw(rt, "subn")
			k := c44Key{T: "multi", K: rapid.IntRange(1, sn).Draw(rt, "subk")}
			for j := 0; j < sn; j++ {
				k.Sub = append(k.Sub, c44DrawLeafKey(rt))
			}
			c.Keys = append(c.Keys, k)
		} else {
			c.Keys = append(c.Keys, c44DrawLeafKey(rt))
		}
	}
	c.K = rapid.IntRange(1, n).Draw(rt, "k")
	if rapid.Bool().Draw(rt, "lowk") {
		c.K = rapid.IntRange(1, min(2, n)).Draw(rt, "k2")
	}
	c.Msg = rapid.SliceOfN(rapid.Byte(), 0, 40).Draw(rt, "msg")
	c.Sig, c.Perturb = c44DrawSigs(rt, c.Keys, 0)
	c.Enc = rapid.SampledFrom([]string{"struct", "struct", "struct", "struct", "struct", "api", "api", "bytemut", "raw"}).Draw(rt, "enc")
	switch c.Enc {
	case "api":
		c.Order = rapid.Permutation(c44Range(10)).Draw(rt, "order")
		if rapid.Bool().Draw(rt, "readd") {
			c.Order = append(c.Order, rapid.IntRange(0, 9).Draw(rt, "again"))
		}
	case "bytemut":
		nm := rapid.IntRange(0, 3).Draw(rt, "nm")
		for i := 0; i < nm; i++ {
			c.Muts = append(c.Muts, c44Mut{Pos: rapid.IntRange(0, 1<<12).Draw(rt, "mp"), Xor: byte(rapid.IntRange(1, 255).Draw(rt, "mx"))})
		}
		if nm == 0 || rapid.Bool().Draw(rt, "tr") {
			c.Trunc = rapid.IntRange(1, 80).Draw(rt, "trunc")
		}
	case "raw":
		c.Raw = rapid.SliceOfN(rapid.Byte(), 0, 60).Draw(rt, "raw")
	}
	return c
}

// ---- construction of real keys / signatures from the recipe ----

func c44LeafPriv(k c44Key) gcrypto.PrivKey {
	seed := []byte(fmt.Sprintf("c44-%s-%d", k.T, k.Seed))
	if k.T == "ed" {
		return ed25519.GenPrivKeyFromSecret(seed)
	}
	return secp256k1.GenPrivKeySecp256k1(seed)
}

func c44Pub(k c44Key) gcrypto.PubKey {
	if k.T == "multi" {
		subs := make([]gcrypto.PubKey, len(k.Sub))
		for i, s := range k.Sub {
			subs[i] = c44Pub(s)
		}
		return multisig.NewPubKeyMultisigThreshold(k.K, subs)
	}
	return c44LeafPriv(k).PubKey()
}

func c44BuildMSig(keys []c44Key, ms c44MSig, msg []byte) []byte {
	out := multisig.Multisignature{}
	if !ms.NilBits {
		out.BitArray = &cbits.CompactBitArray{ExtraBitsStored: byte(ms.Extra), Elems: ms.Elems}
	}
	for _, s := range ms.Sigs {
		out.Sigs = append(out.Sigs, c44BuildSig(keys, s, msg))
	}
	return amino.MustMarshal(out)
}

func c44BuildSig(keys []c44Key, s c44Sig, msg []byte) []byte {
	var signer c44Key
	if s.Signer >= 100 {
		signer = c44Key{T: []string{"ed", "secp"}[s.Signer%2], Seed: s.Signer}
	} else {
		signer = keys[s.Signer%len(keys)]
	}
	switch s.Kind {
	case "garbage":
		return s.Raw
	case "empty":
		return []byte{}
	case "nested":
		if signer.T == "multi" && s.Sub != nil {
			return c44BuildMSig(signer.Sub, *s.Sub, msg)
		}
	}
	if signer.T == "multi" {
		// a genuine-looking signature "by" a nested member: everybody in it signs
		full := c44MSig{}
		bits := make([]bool, len(signer.Sub))
		for i := range signer.Sub {
			bits[i] = true
			full.Sigs = append(full.Sigs, c44Sig{Kind: "valid", Signer: i})
		}
		full.Extra, full.Elems = c44PackBits(bits)
		if s.Kind == "wrongmsg" {
			return c44BuildMSig(signer.Sub, full, append(append([]byte{}, msg...), 'x'))
		}
		return c44BuildMSig(signer.Sub, full, msg)
	}
	m := msg
	if s.Kind == "wrongmsg" {
		m = append(append([]byte{}, msg...), 'x')
	}
	sig, err := c44LeafPriv(signer).Sign(m)
	if err != nil {
		panic(err)
	}
	if s.Kind == "flip" {
		sig = append([]byte{}, sig...)
		sig[s.Pos/8%64] ^= 1 << uint(s.Pos%8)
	}
	return sig
}

// ---- the model ----

type c44Tri int

const (
	c44F c44Tri = iota
	c44T
	c44U // either verdict acceptable
)

type c44Eval struct {
	verdict     c44Tri
	excuseF2    bool // somewhere a marked position has no signature (index past Sigs)
	excuseBits  bool // somewhere the bit array fields are inconsistent (index past Elems)
}

// c44LeafValid: independent verdict for a leaf key.
func c44LeafValid(k c44Key, msg, sig []byte) bool {
	priv := c44LeafPriv(k)
	if k.T == "ed" {
		return c44RefVerify("ed25519", c44PubBytes(priv.PubKey()), msg, sig)
	}
	sk := priv.(secp256k1.PrivKeySecp256k1)
	return c44RefVerify("secp256k1", refPubFromPriv(sk[:]), msg, sig)
}

func c44ValidFor(k c44Key, msg, sig []byte, ev *c44Eval) c44Tri {
	if k.T != "multi" {
		if c44LeafValid(k, msg, sig) {
			return c44T
		}
		return c44F
	}
	sub := c44Model(k.Sub, k.K, msg, sig)
	ev.excuseF2 = ev.excuseF2 || sub.excuseF2
	ev.excuseBits = ev.excuseBits || sub.excuseBits
	return sub.verdict
}

func c44Model(keys []c44Key, k int, msg, sigBytes []byte) c44Eval {
	var ev c44Eval
	var ms multisig.Multisignature
	if err := amino.Unmarshal(sigBytes, &ms); err != nil {
		ev.verdict = c44F
		return ev
	}
	n := len(keys)
	extra, elems := 0, []byte(nil)
	if ms.BitArray != nil {
		extra, elems = int(ms.BitArray.ExtraBitsStored), ms.BitArray.Elems
	}
	if extra > 7 || (extra != 0 && len(elems) == 0) {
		ev.verdict, ev.excuseBits = c44U, true
		return ev
	}
	size := len(elems) * 8
	if extra != 0 {
		size = (len(elems)-1)*8 + extra
	}
	if size != n {
		ev.verdict = c44F
		return ev
	}
	var marked []int
	for i := 0; i < size; i++ {
		if elems[i/8]&(1<<uint(7-i%8)) != 0 {
			marked = append(marked, i)
		}
	}
	if len(marked) < k {
		ev.verdict = c44F
		return ev
	}
	all := c44T
	for t, p := range marked {
		if t >= len(ms.Sigs) {
			break
		}
		switch c44ValidFor(keys[p], msg, ms.Sigs[t], &ev) {
		case c44F:
			all = c44F
		case c44U:
			if all == c44T {
				all = c44U
			}
		}
	}
	switch {
	case len(ms.Sigs) < len(marked):
		ev.verdict, ev.excuseF2 = c44F, true
	case len(ms.Sigs) > len(marked):
		if all == c44F {
			ev.verdict = c44F
		} else {
			ev.verdict = c44U
		}
	default:
		ev.verdict = all
	}
	return ev
}

// c44ValidSigned is the layout-independent soundness bound: the number of
// member keys for which some offered signature is valid.
func c44ValidSigned(keys []c44Key, msg, sigBytes []byte) int {
	var ms multisig.Multisignature
	if err := amino.Unmarshal(sigBytes, &ms); err != nil {
		return 0
	}
	n := 0
	for _, key := range keys {
		for _, s := range ms.Sigs {
			var scratch c44Eval
			if c44ValidFor(key, msg, s, &scratch) != c44F {
				n++
				break
			}
		}
	}
	return n
}

func c44FinalBytes(c c44MCase) []byte {
	if c.Enc == "raw" {
		return c.Raw
	}
	if c.Enc == "api" {
		if bz, _, _, ok := c44ViaAPI(c); ok {
			return bz
		}
	}
	bz := c44BuildMSig(c.Keys, c.Sig, c.Msg)
	if c.Enc == "bytemut" && len(bz) > 0 {
		bz = append([]byte{}, bz...)
		for _, m := range c.Muts {
			bz[m.Pos%len(bz)] ^= m.Xor
		}
		if c.Trunc > 0 {
			bz = bz[:len(bz)-min(len(bz), c.Trunc%(len(bz)+1))]
		}
	}
	return bz
}

// c44ViaAPI assembles the multisignature with NewMultisig/AddSignature, adding
// the signatures in the drawn order; when the order names a position twice,
// the first addition carries a placeholder that the second must replace.
// Only applicable when the recipe is a plain well-formed one. It also returns
// what the documented layout must be: the marked positions and, in ascending
// position order, the signature of each.
func c44ViaAPI(c c44MCase) (bz []byte, marked []int, want [][]byte, ok bool) {
	n := len(c.Keys)
	ms := c.Sig
	if ms.NilBits || ms.Extra != n%8 || len(ms.Elems) != (n+7)/8 {
		return nil, nil, nil, false
	}
	for i := 0; i < n; i++ {
		if ms.Elems[i/8]&(1<<uint(7-i%8)) != 0 {
			marked = append(marked, i)
		}
	}
	if len(marked) != len(ms.Sigs) {
		return nil, nil, nil, false
	}
	for _, r := range ms.Sigs {
		want = append(want, c44BuildSig(c.Keys, r, c.Msg))
	}
	count := map[int]int{}
	for _, t := range c.Order {
		count[t]++
	}
	out := multisig.NewMultisig(n)
	added := map[int]bool{}
	for _, t := range c.Order {
		if t >= len(marked) {
			continue
		}
		sig := want[t]
		if count[t] > 1 {
			count[t]--
			sig = []byte("placeholder to be replaced")
		}
		out.AddSignature(sig, marked[t])
		added[t] = true
	}
	for t := range marked { // positions the order did not name (order has 10 entries, n <= 10)
		if !added[t] {
			out.AddSignature(want[t], marked[t])
		}
	}
	return out.Marshal(), marked, want, true
}

const (
	c44KnownF2   = "multisig-more-bits-than-sigs-index-panic"
	c44KnownBits = "multisig-malformed-bitarray-index-panic"
	c44KnownGas  = "ante-multisig-gas-index-panic"
)

func c44MExec(ctx *vk.Ctx, c c44MCase) error {
	ctx.Class("perturb=" + c.Perturb)
	ctx.Class("enc=" + c.Enc)
	top := c44Key{T: "multi", K: c.K, Sub: c.Keys}
	pk := c44Pub(top)
	bz := c44FinalBytes(c)
	ev := c44Model(c.Keys, c.K, c.Msg, bz)
	ctx.Class([]string{"model=false", "model=true", "model=either"}[ev.verdict])
	ctx.ClassIf(ev.excuseF2, "shape:marked>sigs")
	ctx.ClassIf(ev.excuseBits, "shape:malformed-bits")
	nested := false
	for _, k := range c.Keys {
		nested = nested || k.T == "multi"
	}
	ctx.ClassIf(nested, "nested")
	ctx.NTIf(ev.verdict == c44T || c.Perturb != "none" || c.Enc != "struct" || nested)
	if c.Enc == "api" {
		if _, marked, want, ok := c44ViaAPI(c); ok {
			// the documented layout: bit i set iff a signature was added at i; Sigs sorted by position
			ctx.Class("api-built")
			var ms multisig.Multisignature
			if err := amino.Unmarshal(bz, &ms); err != nil {
				return fmt.Errorf("multisignature built with AddSignature does not decode: %v", err)
			}
			var gotMarked []int
			for i := 0; i < len(c.Keys); i++ {
				if ms.BitArray.GetIndex(i) {
					gotMarked = append(gotMarked, i)
				}
			}
			if fmt.Sprint(gotMarked) != fmt.Sprint(marked) || ms.BitArray.Size() != len(c.Keys) {
				return fmt.Errorf("AddSignature at positions %v in order %v marks %v (size %d)", marked, c.Order, gotMarked, ms.BitArray.Size())
			}
			if len(ms.Sigs) != len(want) {
				return fmt.Errorf("AddSignature at positions %v in order %v stores %d signatures, want %d", marked, c.Order, len(ms.Sigs), len(want))
			}
			for t := range want {
				if string(ms.Sigs[t]) != string(want[t]) {
					return fmt.Errorf("AddSignature at positions %v in order %v: signature slot %d holds %x, want the signature added for position %d (%x)", marked, c.Order, t, ms.Sigs[t], marked[t], want[t])
				}
			}
		}
	}
	got, p := c44Verify(pk, c.Msg, bz)
	if p != nil {
		if ev.excuseF2 && ctx.Known(c44KnownF2) {
			return nil
		}
		if ev.excuseBits && ctx.Known(c44KnownBits) {
			return nil
		}
		return fmt.Errorf("VerifyBytes panicked instead of returning false (model verdict %v, marked>sigs=%v, malformed bit array=%v; %d keys, k=%d, signature %x): %v", ev.verdict, ev.excuseF2, ev.excuseBits, len(c.Keys), c.K, bz, p)
	}
	switch ev.verdict {
	case c44T:
		if !got {
			return fmt.Errorf("VerifyBytes = false for a multisignature with >= k marked positions, all validly signed (%d keys, k=%d, signature %x)", len(c.Keys), c.K, bz)
		}
	case c44F:
		if got {
			return fmt.Errorf("VerifyBytes = true although the model refuses (%d keys, k=%d, signature %x)", len(c.Keys), c.K, bz)
		}
	case c44U:
		if got {
			if vs := c44ValidSigned(c.Keys, c.Msg, bz); vs < c.K {
				return fmt.Errorf("VerifyBytes = true although only %d member keys have a valid signature among those offered (k=%d, signature %x)", vs, c.K, bz)
			}
		}
		ctx.ClassIf(got, "either->true")
	}
	return nil
}

func TestC44_Multisig(t *testing.T) {
	vk.Run(t, vk.Spec[c44MCase]{
		ID: "C44", Name: "TestC44_Multisig",
		Rule: "rapid: k-of-n threshold keys (n 1-10, members ed25519/secp256k1 from 7 seeds so duplicates occur, 10% nested 1-3 member multisig) x message; marked set (all / >=k / arbitrary) with per-position signature recipes (valid, wrong message, outsider, garbage, empty, bit-flipped, another member's, nested multisignature); one shape damage (dropped signature, surplus signature, surplus marked bit, longer/shorter bit array, swapped or duplicated signatures, inconsistent bit-array fields, nil bit array, padding bits set, no signatures); amino-encoded, optionally byte-damaged or replaced by raw bytes; verdict from a model that decodes the final bytes and applies the statement's rule with independent leaf verifiers; non-trivial = model accepts, or a damage/encoding/nesting is present",
		Draw: c44MDraw,
		Exec: c44MExec,
	})
}

// ---- the ante handler's gas consumer on the same shapes ----

// c44GasModel walks a decodable multisignature like the statement does
// (position by position) and returns the gas the documented per-key costs add
// up to; ok=false when the shape has no meaning (a marked position beyond the
// keys or without a signature, inconsistent bit-array fields, or an
// undecodable nested multisignature — the consumer uses MustUnmarshal there).
func c44GasModel(keys []c44Key, sigBytes []byte, p auth.Params) (gas int64, ok bool, undecodable bool) {
	var ms multisig.Multisignature
	if err := amino.Unmarshal(sigBytes, &ms); err != nil {
		return 0, false, true
	}
	extra, elems := 0, []byte(nil)
	if ms.BitArray != nil {
		extra, elems = int(ms.BitArray.ExtraBitsStored), ms.BitArray.Elems
	}
	if extra > 7 || (extra != 0 && len(elems) == 0) {
		return 0, false, false
	}
	size := len(elems) * 8
	if extra != 0 {
		size = (len(elems)-1)*8 + extra
	}
	t := 0
	for i := 0; i < size; i++ {
		if elems[i/8]&(1<<uint(7-i%8)) == 0 {
			continue
		}
		if i >= len(keys) || t >= len(ms.Sigs) {
			return 0, false, false
		}
		switch keys[i].T {
		case "ed":
			gas += p.SigVerifyCostED25519
		case "secp":
			gas += p.SigVerifyCostSecp256k1
		default:
			g, ok, und := c44GasModel(keys[i].Sub, ms.Sigs[t], p)
			if !ok {
				return 0, false, und
			}
			gas += g
		}
		t++
	}
	return gas, true, false
}

func c44GExec(ctx *vk.Ctx, c c44MCase) error {
	ctx.Class("perturb=" + c.Perturb)
	top := c44Key{T: "multi", K: c.K, Sub: c.Keys}
	pk := c44Pub(top)
	bz := c44FinalBytes(c)
	params := auth.DefaultParams()
	want, ok, undecodable := c44GasModel(c.Keys, bz, params)
	if undecodable {
		// top level or a nested level does not decode: the consumer is documented to use MustUnmarshal
		ctx.Class("undecodable")
		return nil
	}
	ctx.ClassIf(ok, "shape-consistent")
	ctx.ClassIf(!ok, "shape-inconsistent")
	ctx.NTIf(want > 0 || !ok)
	meter := store.NewInfiniteGasMeter()
	var pv any
	var resOK bool
	func() {
		defer func() { pv = recover() }()
		res := auth.DefaultSigVerificationGasConsumer(meter, bz, pk, params)
		resOK = res.IsOK()
	}()
	if pv != nil {
		if !ok && ctx.Known(c44KnownGas) {
			return nil
		}
		if !ok && strings.Contains(fmt.Sprint(pv), "unmarshal to multisig.Multisignature failed") {
			// an inconsistent shape in which the walk reaches a nested multisig key whose
			// signature bytes do not decode: the consumer's documented MustUnmarshal
			ctx.Class("undecodable-nested-in-inconsistent-shape")
			return nil
		}
		return fmt.Errorf("DefaultSigVerificationGasConsumer panicked on a decodable multisignature (shape consistent=%v; %d keys, signature %x): %v", ok, len(c.Keys), bz, pv)
	}
	if ok {
		if !resOK {
			return fmt.Errorf("gas consumer returned an error result for a consistent multisignature %x", bz)
		}
		if got := meter.GasConsumed(); got != want {
			return fmt.Errorf("gas consumer charged %d, the per-key costs of the marked positions add up to %d (signature %x)", got, want, bz)
		}
	}
	return nil
}

func TestC44_AnteGas(t *testing.T) {
	vk.Run(t, vk.Spec[c44MCase]{
		ID: "C44", Name: "TestC44_AnteGas",
		Rule: "rapid: the multisignature shapes of TestC44_Multisig handed to auth.DefaultSigVerificationGasConsumer (the ante handler calls it before VerifyBytes): for decodable multisignatures it must not panic, and for consistent shapes charge exactly the sum of the per-type costs of the marked positions (nested keys recursively); non-trivial = gas is charged or the shape is inconsistent",
		Draw: c44MDraw,
		Exec: c44GExec,
	})
}
