package crypto

import (
	"bytes"
	"fmt"
	"strings"
	"testing"

	"github.com/gnolang/gno/tm2/pkg/bech32"
	gcrypto "github.com/gnolang/gno/tm2/pkg/crypto"
	"github.com/gnolang/gno/tm2/pkg/crypto/ed25519"
	"github.com/gnolang/gno/tm2/pkg/crypto/multisig"
	"github.com/gnolang/gno/tm2/pkg/crypto/secp256k1"
	"pgregory.net/rapid"
	"verif/vk"
)

// C45 — bech32 round-trips and rejects malformed strings.
//
// Oracle: an independent BIP-173 implementation (c45Ref*), written from the
// specification, which decides accept/reject and the decoded value for every
// string; plus construction (a string obtained from a valid one by a listed
// mutation must be rejected). gno documents "no length limit"
// (DecodeNoLimit), so the reference has none either.

const c45Charset = "qpzry9x8gf2tvdw0s3jn54khce6mua7l"

func c45Polymod(values []byte) uint32 {
	gen := [5]uint32{0x3b6a57b2, 0x26508e6d, 0x1ea119fa, 0x3d4233dd, 0x2a1462b3}
	chk := uint32(1)
	for _, v := range values {
		b := chk >> 25
		chk = (chk&0x1ffffff)<<5 ^ uint32(v)
		for i := 0; i < 5; i++ {
			if (b>>uint(i))&1 == 1 {
				chk ^= gen[i]
			}
		}
	}
	return chk
}

func c45HrpExpand(hrp string) []byte {
	out := make([]byte, 0, len(hrp)*2+1)
	for i := 0; i < len(hrp); i++ {
		out = append(out, hrp[i]>>5)
	}
	out = append(out, 0)
	for i := 0; i < len(hrp); i++ {
		out = append(out, hrp[i]&31)
	}
	return out
}

// c45RefEncode5 encodes 5-bit groups with the checksum constant k (1 =
// BIP-173 bech32, 0x2bc830a3 = BIP-350 bech32m).
func c45RefEncode5(hrp string, data5 []byte, k uint32) string {
	vals := append(c45HrpExpand(hrp), data5...)
	vals = append(vals, 0, 0, 0, 0, 0, 0)
	pm := c45Polymod(vals) ^ k
	var sb strings.Builder
	sb.WriteString(hrp)
	sb.WriteByte('1')
	for _, d := range data5 {
		sb.WriteByte(c45Charset[d])
	}
	for i := 0; i < 6; i++ {
		sb.WriteByte(c45Charset[(pm>>uint(5*(5-i)))&31])
	}
	return sb.String()
}

func c45To5(data []byte) []byte {
	var out []byte
	acc, bits := uint32(0), 0
	for _, b := range data {
		acc = acc<<8 | uint32(b)
		bits += 8
		for bits >= 5 {
			bits -= 5
			out = append(out, byte(acc>>uint(bits))&31)
		}
	}
	if bits > 0 {
		out = append(out, byte(acc<<uint(5-bits))&31)
	}
	return out
}

func c45RefEncode(hrp string, payload []byte) string {
	return c45RefEncode5(hrp, c45To5(payload), 1)
}

// c45RefDecode: BIP-173 decoding followed by the 5->8 bit regrouping used for
// byte payloads (incomplete group must be < 5 bits and all zero).
func c45RefDecode(s string) (hrp string, payload []byte, reason string) {
	if len(s) < 8 {
		return "", nil, "too short"
	}
	lower, upper := false, false
	for i := 0; i < len(s); i++ {
		ch := s[i]
		if ch < 33 || ch > 126 {
			return "", nil, "character out of range"
		}
		if ch >= 'a' && ch <= 'z' {
			lower = true
		}
		if ch >= 'A' && ch <= 'Z' {
			upper = true
		}
	}
	if lower && upper {
		return "", nil, "mixed case"
	}
	s = strings.ToLower(s)
	pos := strings.LastIndexByte(s, '1')
	if pos < 1 || pos+7 > len(s) {
		return "", nil, "separator position"
	}
	hrp = s[:pos]
	var data []byte
	for i := pos + 1; i < len(s); i++ {
		d := strings.IndexByte(c45Charset, s[i])
		if d < 0 {
			return "", nil, "character not in charset"
		}
		data = append(data, byte(d))
	}
	if c45Polymod(append(c45HrpExpand(hrp), data...)) != 1 {
		return "", nil, "checksum"
	}
	data = data[:len(data)-6]
	acc, bits := uint32(0), 0
	for _, d := range data {
		acc = acc<<5 | uint32(d)
		bits += 5
		if bits >= 8 {
			bits -= 8
			payload = append(payload, byte(acc>>uint(bits)))
			acc &= 1<<uint(bits) - 1
		}
	}
	if bits >= 5 {
		return "", nil, "padding of 5 or more bits"
	}
	if acc != 0 {
		return "", nil, "non-zero padding"
	}
	return hrp, payload, ""
}

type c45Case struct {
	Kind    string `json:"kind"`
	Hrp     string `json:"hrp"`
	Payload []byte `json:"payload"`
	Pos     int    `json:"pos"`
	Repl    byte   `json:"repl"`
	N       int    `json:"n"`
	Raw     string `json:"raw"`
	KeyKind string `json:"keykind,omitempty"`
}

var c45Kinds = []string{"roundtrip", "roundtrip", "subst", "subst", "subst", "substany", "mixedcase", "upper", "truncate", "extend", "swap", "insert", "delete", "badpad", "extragroup", "bech32m", "raw", "rawmut", "addr", "pubkey", "nosep", "emptyhrp"}

func c45DrawHrp(rt *rapid.T) string {
	switch rapid.IntRange(0, 5).Draw(rt, "hrpk") {
	case 0:
		return rapid.SampledFrom([]string{"g", "gpub", "cosmos", "bc", "a", "1", "11", "a1q", "q1q1q", "?", "~~", "an83characterlonghumanreadablepartthatcontainsthenumber1andtheexcludedcharactersbio"[:20]}).Draw(rt, "hrpf")
	case 1: // any valid character (33..126) except upper-case letters
		n := rapid.IntRange(1, 20).Draw(rt, "hrpn")
		b := make([]byte, n)
		for i := range b {
			ch := byte(rapid.IntRange(33, 126).Draw(rt, "hrpc"))
			if ch >= 'A' && ch <= 'Z' {
				ch += 32
			}
			b[i] = ch
		}
		return string(b)
	default:
		n := rapid.IntRange(1, 20).Draw(rt, "hrpn")
		b := make([]byte, n)
		for i := range b {
			b[i] = "abcdefghijklmnopqrstuvwxyz0123456789"[rapid.IntRange(0, 35).Draw(rt, "hrpa")]
		}
		return string(b)
	}
}

func c45Draw(rt *rapid.T) c45Case {
	c := c45Case{Kind: rapid.SampledFrom(c45Kinds).Draw(rt, "kind")}
	c.Hrp = c45DrawHrp(rt)
	var n int
	switch rapid.IntRange(0, 3).Draw(rt, "plk") {
	case 0:
		n = rapid.SampledFrom([]int{0, 1, 4, 5, 19, 20, 21, 32, 33, 64}).Draw(rt, "plb")
	default:
		n = rapid.IntRange(0, 64).Draw(rt, "pln")
	}
	c.Payload = c47Fixed(rt, "payload", n)
	c.Pos = rapid.IntRange(0, 1<<16).Draw(rt, "pos")
	c.N = rapid.IntRange(1, 12).Draw(rt, "n")
	switch c.Kind {
	case "subst":
		c.Repl = c45Charset[rapid.IntRange(0, 31).Draw(rt, "replc")]
	case "substany", "insert":
		c.Repl = byte(rapid.IntRange(0, 255).Draw(rt, "repl"))
	case "raw":
		if rapid.Bool().Draw(rt, "rawk") {
			c.Raw = rapid.StringOfN(rapid.RuneFrom([]rune("qpzry9x8gf2tvdw0s3jn54khce6mua7l1bioAQ!~ \x00é")), 0, 40, -1).Draw(rt, "raw")
		} else {
			c.Raw = string(rapid.SliceOfN(rapid.Byte(), 0, 40).Draw(rt, "rawb"))
		}
	case "pubkey":
		c.KeyKind = rapid.SampledFrom([]string{"ed25519", "secp256k1", "multisig"}).Draw(rt, "kk")
	}
	return c
}

// c45Check decodes s with gno and with the reference and compares verdicts.
// mustReject additionally states that s was built to be invalid.
func c45Check(ctx *vk.Ctx, s string, mustReject string) error {
	var hrp string
	var data []byte
	var err error
	func() {
		defer func() {
			if p := recover(); p != nil {
				err = fmt.Errorf("PANIC: %v", p)
			}
		}()
		hrp, data, err = bech32.DecodeAndConvert(s)
	}()
	if err != nil && strings.HasPrefix(err.Error(), "PANIC") {
		return fmt.Errorf("DecodeAndConvert(%q) panicked: %v", s, err)
	}
	rhrp, rdata, reason := c45RefDecode(s)
	if reason == "" {
		ctx.Class("ref-accepts")
	} else {
		ctx.Class("ref-rejects:" + reason)
	}
	if mustReject != "" && reason == "" {
		// the construction did not invalidate the string (e.g. a substitution that is
		// compensated): the reference is the arbiter; count it.
		ctx.Class("construction-still-valid")
	}
	if (err == nil) != (reason == "") {
		if err == nil && reason == "checksum" {
			// accepted although the BIP-173 checksum is wrong: is it a BIP-350 (bech32m) checksum?
			low := strings.ToLower(s)
			pos := strings.LastIndexByte(low, '1')
			var d5 []byte
			for i := pos + 1; i < len(low); i++ {
				d5 = append(d5, byte(strings.IndexByte(c45Charset, low[i])))
			}
			if c45Polymod(append(c45HrpExpand(low[:pos]), d5...)) == 0x2bc830a3 && ctx.Known("bech32m-checksum-accepted") {
				return nil
			}
		}
		return fmt.Errorf("DecodeAndConvert(%q): err=%v, but the BIP-173 reference says %q (%s)", s, err, map[bool]string{true: "valid", false: "invalid"}[reason == ""], reason)
	}
	if err == nil {
		if hrp != rhrp || !bytes.Equal(data, rdata) {
			return fmt.Errorf("DecodeAndConvert(%q) = (%q, %x), reference (%q, %x)", s, hrp, data, rhrp, rdata)
		}
	}
	return nil
}

func c45Exec(ctx *vk.Ctx, c c45Case) error {
	ctx.Class(c.Kind)
	ctx.NTIf(c.Kind != "roundtrip" || len(c.Payload)%5 != 0)
	if c.Kind == "raw" {
		return c45Check(ctx, c.Raw, "")
	}
	if c.Kind == "addr" || c.Kind == "pubkey" {
		return c45Keys(ctx, c)
	}
	enc, err := bech32.ConvertAndEncode(c.Hrp, c.Payload)
	if err != nil {
		return fmt.Errorf("ConvertAndEncode(%q, %x): %v", c.Hrp, c.Payload, err)
	}
	if want := c45RefEncode(c.Hrp, c.Payload); enc != want {
		return fmt.Errorf("ConvertAndEncode(%q, %x) = %q, BIP-173 reference %q", c.Hrp, c.Payload, enc, want)
	}
	if enc2, err := bech32.Encode(c.Hrp, c.Payload); err != nil || enc2 != enc {
		return fmt.Errorf("Encode and ConvertAndEncode disagree: %q vs %q (%v)", enc2, enc, err)
	}
	hrp, data, err := bech32.DecodeAndConvert(enc)
	if err != nil {
		return fmt.Errorf("DecodeAndConvert(ConvertAndEncode(%q, %x)=%q): %v", c.Hrp, c.Payload, enc, err)
	}
	if hrp != c.Hrp || !bytes.Equal(data, c.Payload) {
		return fmt.Errorf("round-trip of (%q, %x) through %q gives (%q, %x)", c.Hrp, c.Payload, enc, hrp, data)
	}
	if h2, d2, err := bech32.Decode(enc); err != nil || h2 != hrp || !bytes.Equal(d2, data) {
		return fmt.Errorf("Decode and DecodeAndConvert disagree on %q", enc)
	}
	sep := len(c.Hrp)
	reject := func(s, what string) error {
		if s == enc {
			return nil
		}
		if err := c45Check(ctx, s, what); err != nil {
			return err
		}
		if _, _, reason := c45RefDecode(s); reason != "" {
			return nil
		}
		// still valid per the reference: only possible for the mutations that can
		// re-validate a string with probability 2^-30 (moving the separator); a single
		// substitution by a different character must never survive.
		if what == "subst" || what == "swap" {
			return fmt.Errorf("%s mutation of %q into %q is still accepted", what, enc, s)
		}
		return nil
	}
	switch c.Kind {
	case "roundtrip":
	case "subst", "substany":
		i := c.Pos % len(enc)
		if c.Kind == "subst" {
			i = sep + 1 + c.Pos%(len(enc)-sep-1) // inside data part or checksum
		}
		old := enc[i]
		repl := c.Repl
		if strings.EqualFold(string(old), string(repl)) {
			// not a substitution (same character up to case; an upper-cased variant of a
			// string whose only letter this is would be a valid all-upper-case form)
			ctx.Class("subst-noop")
			return nil
		}
		m := enc[:i] + string(repl) + enc[i+1:]
		what := "substany"
		// a substitution of a data/checksum character by another charset character, or of
		// an hrp character by another non-'1' valid character keeps the layout: BCH detects it.
		inCharset := strings.IndexByte(c45Charset, repl) >= 0
		if (i > sep && inCharset) || (i < sep && repl >= 33 && repl <= 126 && repl != '1' && old != '1' && !(repl >= 'A' && repl <= 'Z')) {
			what = "subst"
			ctx.Class("subst-layout-preserving")
		}
		return reject(m, what)
	case "mixedcase":
		// upper-case one letter while at least one other lower-case letter remains
		idx := -1
		letters := 0
		for i := 0; i < len(enc); i++ {
			if enc[i] >= 'a' && enc[i] <= 'z' {
				letters++
			}
		}
		if letters < 2 {
			ctx.Class("mixedcase-too-few-letters")
			return nil
		}
		k := c.Pos % letters
		for i := 0; i < len(enc); i++ {
			if enc[i] >= 'a' && enc[i] <= 'z' {
				if k == 0 {
					idx = i
					break
				}
				k--
			}
		}
		m := enc[:idx] + strings.ToUpper(enc[idx:idx+1]) + enc[idx+1:]
		if _, _, err := bech32.DecodeAndConvert(m); err == nil {
			return fmt.Errorf("mixed-case string %q accepted", m)
		}
		return c45Check(ctx, m, "mixedcase")
	case "upper":
		// BIP-173: the all-upper-case form is valid and decodes to the lower-case hrp
		return c45Check(ctx, strings.ToUpper(enc), "")
	case "truncate":
		n := 1 + c.N%len(enc)
		if c.Pos%2 == 0 {
			return reject(enc[:len(enc)-n], "truncate")
		}
		return reject(enc[n:], "truncate")
	case "extend":
		ext := strings.Repeat(string(c45Charset[c.Pos%32]), c.N)
		if c.Pos%3 == 0 {
			return reject(ext+enc, "extend")
		}
		return reject(enc+ext, "extend")
	case "swap":
		i := sep + 1 + c.Pos%(len(enc)-sep-2)
		if enc[i] == enc[i+1] {
			ctx.Class("swap-noop")
			return nil
		}
		return reject(enc[:i]+string(enc[i+1])+string(enc[i])+enc[i+2:], "swap")
	case "insert":
		i := c.Pos % (len(enc) + 1)
		return reject(enc[:i]+string(c.Repl)+enc[i:], "insert")
	case "delete":
		i := c.Pos % len(enc)
		return reject(enc[:i]+enc[i+1:], "delete")
	case "badpad":
		// valid BIP-173 checksum over groups whose final partial group has non-zero padding bits
		d5 := c45To5(c.Payload)
		padBits := (5 - (len(c.Payload)*8)%5) % 5
		if padBits == 0 || len(d5) == 0 {
			ctx.Class("badpad-none")
			return nil
		}
		d5[len(d5)-1] |= byte(1 + c.Pos%(1<<uint(padBits)-1))
		return reject(c45RefEncode5(c.Hrp, d5, 1), "badpad")
	case "extragroup":
		// valid checksum, but one more 5-bit zero group: for some lengths this leaves >= 5 padding bits
		d5 := append(c45To5(c.Payload), 0)
		return c45Check(ctx, c45RefEncode5(c.Hrp, d5, 1), "")
	case "bech32m":
		// same data under the BIP-350 constant: its BIP-173 checksum is wrong
		return reject(c45RefEncode5(c.Hrp, c45To5(c.Payload), 0x2bc830a3), "bech32m")
	case "rawmut":
		b := []byte(enc)
		for k := 0; k < 1+c.N%3; k++ {
			b[(c.Pos+k*7)%len(b)] ^= byte(1 << uint((c.Pos+k)%7))
		}
		return reject(string(b), "rawmut")
	case "nosep":
		return reject(strings.Replace(enc, "1", "", -1), "nosep")
	case "emptyhrp":
		return reject(enc[sep:], "emptyhrp")
	}
	return nil
}

// c45Keys: address and public-key wrappers of tm2/pkg/crypto/bech32.go.
func c45Keys(ctx *vk.Ctx, c c45Case) error {
	if c.Kind == "addr" {
		var addr gcrypto.Address
		copy(addr[:], append(append([]byte{}, c.Payload...), make([]byte, 20)...))
		s := gcrypto.AddressToBech32(addr)
		if want := c45RefEncode(gcrypto.Bech32AddrPrefix(), addr[:]); s != want {
			return fmt.Errorf("AddressToBech32(%x) = %q, reference %q", addr[:], s, want)
		}
		back, err := gcrypto.AddressFromBech32(s)
		if err != nil || back != addr {
			return fmt.Errorf("AddressFromBech32(%q) = %x, %v; want %x", s, back[:], err, addr[:])
		}
		// another prefix, or another payload length, must be rejected
		other := c45RefEncode(c.Hrp, addr[:])
		if c.Hrp != gcrypto.Bech32AddrPrefix() {
			if _, err := gcrypto.AddressFromBech32(other); err == nil {
				return fmt.Errorf("AddressFromBech32 accepted foreign prefix %q", other)
			}
		}
		if len(c.Payload) != 20 {
			wrong := c45RefEncode(gcrypto.Bech32AddrPrefix(), c.Payload)
			if _, err := gcrypto.AddressFromBech32(wrong); err == nil {
				return fmt.Errorf("AddressFromBech32 accepted a %d-byte payload %q", len(c.Payload), wrong)
			}
		}
		i := len(gcrypto.Bech32AddrPrefix()) + 1 + c.Pos%(len(s)-len(gcrypto.Bech32AddrPrefix())-1)
		repl := c45Charset[c.N%32]
		if repl != s[i] {
			m := s[:i] + string(repl) + s[i+1:]
			if _, err := gcrypto.AddressFromBech32(m); err == nil {
				return fmt.Errorf("AddressFromBech32 accepted %q, a one-character substitution of %q", m, s)
			}
		}
		return nil
	}
	seed := append([]byte("c45"), c.Payload...)
	var pk gcrypto.PubKey
	switch c.KeyKind {
	case "ed25519":
		pk = ed25519.GenPrivKeyFromSecret(seed).PubKey()
	case "secp256k1":
		pk = secp256k1.GenPrivKeySecp256k1(seed).PubKey()
	default:
		pk = multisig.NewPubKeyMultisigThreshold(1+c.N%2, []gcrypto.PubKey{
			ed25519.GenPrivKeyFromSecret(seed).PubKey(), secp256k1.GenPrivKeySecp256k1(seed).PubKey(), ed25519.GenPrivKeyFromSecret(append(seed, 1)).PubKey(),
		})
	}
	s := gcrypto.PubKeyToBech32(pk)
	if want := c45RefEncode(gcrypto.Bech32PubKeyPrefix(), pk.Bytes()); s != want {
		return fmt.Errorf("PubKeyToBech32 = %q, reference %q", s, want)
	}
	back, err := gcrypto.PubKeyFromBech32(s)
	if err != nil || !back.Equals(pk) {
		return fmt.Errorf("PubKeyFromBech32(%q): %v, equal=%v", s, err, err == nil && back.Equals(pk))
	}
	if _, err := gcrypto.PubKeyFromBech32(c45RefEncode(gcrypto.Bech32AddrPrefix(), pk.Bytes())); err == nil {
		return fmt.Errorf("PubKeyFromBech32 accepted the address prefix")
	}
	return nil
}

func TestC45_Bech32(t *testing.T) {
	vk.Run(t, vk.Spec[c45Case]{
		ID: "C45", Name: "TestC45_Bech32",
		Rule: "rapid: hrp (1-20 characters from 33..126 without upper case, incl. '1' inside the hrp) x payload 0-64 bytes; encode must equal an independent BIP-173 encoder and decode back; then one mutation of the encoded string (single substitution by a different character, any-byte substitution, mixed case, all-upper, truncation, extension, adjacent swap, insertion, deletion, non-zero padding under a valid checksum, extra 5-bit group, BIP-350 constant, bit noise, separator removed, empty hrp) or a raw string, each decided by an independent BIP-173 decoder; address/pubkey wrappers round-trip and reject foreign prefix/length; non-trivial = every case except a plain round-trip of a payload whose length is a multiple of 5",
		Draw: c45Draw,
		Exec: c45Exec,
	})
}
