package bfttypes

import (
	"fmt"
	"sort"
	"testing"

	cstypes "github.com/gnolang/gno/tm2/pkg/bft/consensus/types"
	"github.com/gnolang/gno/tm2/pkg/bft/types"
	p2pTypes "github.com/gnolang/gno/tm2/pkg/p2p/types"
	"pgregory.net/rapid"
	"verif/vk"
)

// C35 through the HeightVoteSet: votes and peer claims are routed to one
// vote set per (round, type); every set is checked against its own instance
// of the C35 model. On top: the documented catch-up rule (a peer may open at
// most 2 rounds that are not tracked yet) and POLInfo (last tracked round
// with +2/3 prevotes).

type c35HOp struct {
	Kind   string `json:"kind"` // vote | peer | setround
	Round  int    `json:"round"`
	Type   int    `json:"type,omitempty"`
	Val    int    `json:"val,omitempty"`
	Block  int    `json:"block,omitempty"`
	TS     int    `json:"ts,omitempty"`
	Defect string `json:"defect,omitempty"`
	Aux    int    `json:"aux,omitempty"`
	Peer   int    `json:"peer,omitempty"` // sender of the vote / claimant; 0 = ourselves ("")
}

type c35HCase struct {
	Vals   []bftVal `json:"vals"`
	Height int64    `json:"height"`
	Ops    []c35HOp `json:"ops"`
}

type c35HKey struct {
	round int
	typ   int
}

func c35HPeer(p int) p2pTypes.ID {
	if p == 0 {
		return ""
	}
	return p2pTypes.ID(fmt.Sprintf("peer%d", p))
}

func c35HExec(ctx *vk.Ctx, c c35HCase) error {
	sorted := bftSortedKeys(c.Vals)
	valSet := bftValSet(c.Vals)
	hvs := cstypes.NewHeightVoteSet(c35Chain, c.Height, valSet)
	exists := map[int]bool{0: true}
	cur := 0
	catchup := map[int][]int{}
	envs := map[c35HKey]*c35Env{}
	models := map[c35HKey]*c35Model{}
	get := func(k c35HKey) (*c35Env, *c35Model, error) {
		if e, ok := envs[k]; ok {
			return e, models[k], nil
		}
		fetch := func() *types.VoteSet {
			if k.typ == 1 {
				return hvs.Prevotes(k.round)
			}
			return hvs.Precommits(k.round)
		}
		// nil while a catch-up round is not opened yet (the first vote for it opens it)
		vs := fetch()
		if vs != nil && (vs.Height() != c.Height || vs.Round() != k.round || int(vs.Type()) != k.typ || vs.Size() != len(sorted)) {
			return nil, nil, fmt.Errorf("vote set of round %d type %d reports height %d round %d type %d", k.round, k.typ, vs.Height(), vs.Round(), vs.Type())
		}
		e := &c35Env{c: c35Case{Vals: c.Vals, Type: k.typ, Height: c.Height, Round: k.round}, sorted: sorted, typ: types.SignedMsgType(k.typ), vs: vs, valSet: valSet, fetch: fetch}
		envs[k], models[k] = e, c35NewModel(sorted)
		return e, models[k], nil
	}
	checkTracking := func(when string) error {
		for r := 0; r <= 6; r++ {
			if (hvs.Prevotes(r) != nil) != exists[r] || (hvs.Precommits(r) != nil) != exists[r] {
				return fmt.Errorf("%s: round %d tracked: prevotes=%v precommits=%v, model %v", when, r, hvs.Prevotes(r) != nil, hvs.Precommits(r) != nil, exists[r])
			}
		}
		if hvs.Round() != cur || hvs.Height() != c.Height {
			return fmt.Errorf("%s: Round()=%d Height()=%d, model round %d", when, hvs.Round(), hvs.Height(), cur)
		}
		wantR, wantB := -1, 0
		for r := cur; r >= 0; r-- {
			if m, ok := models[c35HKey{r, 1}]; ok && m.maj >= 0 {
				wantR, wantB = r, m.maj
				break
			}
		}
		gotR, gotID := hvs.POLInfo()
		if gotR != wantR || !gotID.Equals(bftBlockID(wantB)) {
			return fmt.Errorf("%s: POLInfo = (%d, %v), model: last tracked round <= %d with +2/3 prevotes is %d for block %d", when, gotR, gotID, cur, wantR, wantB)
		}
		return nil
	}
	for k, op := range c.Ops {
		when := fmt.Sprintf("op %d %+v", k, op)
		switch op.Kind {
		case "setround":
			nr := cur + op.Round
			hvs.SetRound(nr)
			for r := 0; r <= nr; r++ {
				exists[r] = true
			}
			cur = nr
			ctx.Class("setround")
		case "peer":
			key := c35HKey{op.Round, op.Type}
			if !exists[op.Round] {
				if err := hvs.SetPeerMaj23(op.Round, types.SignedMsgType(op.Type), c35HPeer(op.Peer), bftBlockID(op.Block)); err != nil {
					return fmt.Errorf("%s: claim for an untracked round must be ignored, got %v", when, err)
				}
				ctx.Class("claim-untracked-round")
				break
			}
			e, m, err := get(key)
			if err != nil {
				return fmt.Errorf("%s: %w", when, err)
			}
			e.claim = func(_ types.P2PID, id types.BlockID) error {
				return hvs.SetPeerMaj23(op.Round, types.SignedMsgType(op.Type), c35HPeer(op.Peer), id)
			}
			if err := e.step(ctx, m, c35Op{Kind: "peer", Peer: op.Peer, Block: op.Block}); err != nil {
				return fmt.Errorf("%s: %w", when, err)
			}
		case "vote":
			key := c35HKey{op.Round, op.Type}
			vop := c35Op{Kind: "vote", Val: op.Val, Block: op.Block, TS: op.TS, Defect: op.Defect, Aux: op.Aux}
			if !exists[op.Round] {
				if len(catchup[op.Peer]) >= 2 {
					// third untracked round from this peer: refused
					tmp := &c35Env{c: c35Case{Vals: c.Vals, Type: op.Type, Height: c.Height, Round: op.Round}, sorted: sorted, typ: types.SignedMsgType(op.Type)}
					v, _ := tmp.mkVote(vop)
					added, err := hvs.AddVote(v, c35HPeer(op.Peer))
					if added || err != cstypes.ErrGotVoteFromUnwantedRoundError {
						return fmt.Errorf("%s: peer already opened rounds %v; a vote for another untracked round must be refused, got added=%v err=%v", when, catchup[op.Peer], added, err)
					}
					ctx.Class("catchup-refused")
					break
				}
				catchup[op.Peer] = append(catchup[op.Peer], op.Round)
				exists[op.Round] = true
				ctx.Class("catchup-round-opened")
			}
			e, m, err := get(key)
			if err != nil {
				return fmt.Errorf("%s: %w", when, err)
			}
			hadMaj := m.maj >= 0
			e.add = func(v *types.Vote) (bool, error) { return hvs.AddVote(v, c35HPeer(op.Peer)) }
			if err := e.step(ctx, m, vop); err != nil {
				return fmt.Errorf("%s: %w", when, err)
			}
			if !hadMaj && m.maj >= 0 && m.sawTwist {
				ctx.NT()
			}
		}
		if err := checkTracking(when); err != nil {
			return err
		}
	}
	keys := make([]c35HKey, 0, len(envs))
	for k := range envs {
		keys = append(keys, k)
	}
	sort.Slice(keys, func(i, j int) bool {
		return keys[i].round < keys[j].round || (keys[i].round == keys[j].round && keys[i].typ < keys[j].typ)
	})
	for _, k := range keys {
		if err := envs[k].checkObs(models[k]); err != nil {
			return fmt.Errorf("final state of round %d type %d: %w", k.round, k.typ, err)
		}
		if err := envs[k].checkCommit(ctx, models[k]); err != nil {
			return fmt.Errorf("round %d type %d: %w", k.round, k.typ, err)
		}
	}
	ctx.Class(fmt.Sprintf("sets-touched=%d", min(len(envs), 6)))
	return nil
}

var c35HDefects = []string{"height", "chain", "sig", "sigkey", "index", "addr", "unknown", "unknown-inrange", "negindex"}

func c35HDraw(rt *rapid.T) c35HCase {
	c := c35HCase{Vals: c35DrawVals(rt, 5), Height: int64(rapid.IntRange(1, 3).Draw(rt, "height"))}
	n := len(c.Vals)
	opGen := rapid.Custom(func(rt *rapid.T) c35HOp {
		var op c35HOp
		switch r := bftPct(rt, "kind"); {
		case r < 5:
			return c35HOp{Kind: "setround", Round: rapid.SampledFrom([]int{1, 1, 1, 2}).Draw(rt, "delta")}
		case r < 18:
			op.Kind = "peer"
			op.Peer = rapid.IntRange(1, 3).Draw(rt, "peer")
			op.Block = rapid.SampledFrom([]int{1, 1, 2, 2, 0, 3, 4}).Draw(rt, "pblock")
		default:
			op.Kind = "vote"
			op.Peer = rapid.IntRange(0, 2).Draw(rt, "from")
			op.Val = rapid.IntRange(0, n-1).Draw(rt, "val")
			op.Block = rapid.SampledFrom([]int{1, 1, 1, 1, 2, 2, 0, 3}).Draw(rt, "block")
			op.TS = rapid.SampledFrom([]int{0, 0, 0, 0, 0, 0, 0, 0, 0, 1}).Draw(rt, "ts")
			if bftPct(rt, "bad") < 12 {
				op.Defect = rapid.SampledFrom(c35HDefects).Draw(rt, "defect")
				op.Aux = rapid.IntRange(0, 511).Draw(rt, "aux")
			}
		}
		op.Round = rapid.SampledFrom([]int{0, 0, 0, 0, 1, 1, 2, 3, 4}).Draw(rt, "round")
		op.Type = rapid.SampledFrom([]int{1, 2}).Draw(rt, "type")
		return op
	})
	c.Ops = rapid.SliceOfN(opGen, 1, 60).Draw(rt, "ops")
	// SetRound must strictly increase the round and rounds stay within 0..6
	total := 0
	for i := range c.Ops {
		if c.Ops[i].Kind == "setround" {
			if total+c.Ops[i].Round > 4 {
				c.Ops[i] = c35HOp{Kind: "peer", Round: 0, Type: 1, Peer: 1, Block: 1}
				continue
			}
			total += c.Ops[i].Round
		}
	}
	return c
}

func TestC35_HeightVoteSet(t *testing.T) {
	vk.Run(t, vk.Spec[c35HCase]{
		ID: "C35", Name: "TestC35_HeightVoteSet",
		Rule: "rapid: a HeightVoteSet over 1-5 real ed25519 validators, 1-60 ops: really signed prevotes/precommits for rounds 0-4 sent by ourselves or 2 peers (valid, duplicate, conflicting, malformed), SetPeerMaj23 claims for tracked and untracked rounds, SetRound advances; every (round, type) vote set is checked against its own C35 model after each op, plus the 2-catch-up-rounds-per-peer rule and POLInfo; non-trivial = a +2/3 majority in some set is first crossed after a conflicting vote or an accepted peer claim in that set",
		Draw: c35HDraw,
		Exec: c35HExec,
	})
}
