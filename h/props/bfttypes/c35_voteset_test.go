package bfttypes

import (
	"bytes"
	"fmt"
	"strings"
	"testing"

	"github.com/gnolang/gno/tm2/pkg/bft/types"
	tmerrors "github.com/gnolang/gno/tm2/pkg/errors"
	"pgregory.net/rapid"
	"verif/vk"
)

// C35 — vote sets track quorums exactly.
//
// The reference model is keyed on the API's own `added` result: a vote is
// "counted" for a block iff AddVote reported added=true for it. From the
// counted votes the model derives every quorum observable. Which votes must
// be added / rejected / reported as conflicting is predicted from the
// documented contract of VoteSet (type comment and AddVote doc).

const c35Chain = "verif-c35"

type c35Op struct {
	Kind   string `json:"kind"`             // vote | peer
	Val    int    `json:"val"`              // validator index (address order)
	Block  int    `json:"block"`            // 0 = nil block, 1..3 blocks, 4 only in peer claims
	TS     int    `json:"ts,omitempty"`     // timestamp variant
	Defect string `json:"defect,omitempty"` // "" = well-formed vote
	Aux    int    `json:"aux,omitempty"`
	Peer   int    `json:"peer,omitempty"`
}

type c35Case struct {
	Vals   []bftVal `json:"vals"`
	Type   int      `json:"type"` // 1 prevote, 2 precommit
	Height int64    `json:"height"`
	Round  int      `json:"round"`
	Ops    []c35Op  `json:"ops"`
}

const c35Blocks = 5 // block alphabet 0..4
const c35Stranger = 15

type c35Model struct {
	n         int
	power     []int64
	total     int64
	added     []map[int]int          // validator -> block -> ts of the counted vote
	submitted []map[int]map[int]bool // validator -> block -> ts set of validly signed submissions
	peers     map[int]int            // peer -> claimed block
	claimed   map[int]bool           // blocks some peer claimed (accepted claims)
	maj       int                    // -1 = none yet
	sawTwist  bool                   // a conflicting vote or an accepted peer claim happened
	sigs      map[string][]byte      // "val/block/ts" -> signature of the well-formed vote
}

func (m *c35Model) counted(b int) int64 {
	var s int64
	for i := 0; i < m.n; i++ {
		if _, ok := m.added[i][b]; ok {
			s += m.power[i]
		}
	}
	return s
}

func (m *c35Model) anyPower() int64 {
	var s int64
	for i := 0; i < m.n; i++ {
		if len(m.added[i]) > 0 {
			s += m.power[i]
		}
	}
	return s
}

type c35Env struct {
	c      c35Case
	sorted []bftVal
	typ    types.SignedMsgType
	vs     *types.VoteSet
	valSet *types.ValidatorSet
	// how votes and claims reach the vote set (directly, or through a HeightVoteSet)
	add   func(*types.Vote) (bool, error)
	claim func(types.P2PID, types.BlockID) error
	// fetch, if set, obtains the vote set once the container has created it
	// (a HeightVoteSet opens a catch-up round on the first vote for it)
	fetch func() *types.VoteSet
	fresh *types.VoteSet
}

// cur is the vote set to observe; before the container created it, an
// untouched set of the same parameters stands in.
func (e *c35Env) cur() *types.VoteSet {
	if e.vs != nil {
		return e.vs
	}
	if e.fresh == nil {
		e.fresh = types.NewVoteSet(c35Chain, e.c.Height, e.c.Round, e.typ, e.valSet)
	}
	return e.fresh
}

func (e *c35Env) addVote(v *types.Vote) (bool, error) {
	if e.add != nil {
		added, err := e.add(v)
		if e.vs == nil && e.fetch != nil {
			e.vs = e.fetch()
		}
		return added, err
	}
	return e.vs.AddVote(v)
}

func (e *c35Env) setPeerMaj23(p types.P2PID, id types.BlockID) error {
	if e.claim != nil {
		return e.claim(p, id)
	}
	return e.vs.SetPeerMaj23(p, id)
}

func c35BlockOf(id types.BlockID) int {
	for b := 0; b < c35Blocks; b++ {
		if id.Equals(bftBlockID(b)) {
			return b
		}
	}
	return -1
}

func (e *c35Env) baseVote(i, block, ts int) *types.Vote {
	return &types.Vote{
		Type: e.typ, Height: e.c.Height, Round: e.c.Round,
		BlockID: bftBlockID(block), Timestamp: bftTime(ts),
		ValidatorAddress: bftAddr(e.sorted[i].Key), ValidatorIndex: i,
	}
}

// mkVote builds the vote of an op. ok reports whether it is well-formed and
// correctly signed for this vote set.
func (e *c35Env) mkVote(op c35Op) (v *types.Vote, ok bool) {
	n := len(e.sorted)
	i := op.Val
	key := e.sorted[i].Key
	v = e.baseVote(i, op.Block, op.TS)
	other := (i + 1 + abs(op.Aux)%max(n-1, 1)) % n // another validator when n > 1
	switch op.Defect {
	case "":
		bftSign(key, c35Chain, v)
		return v, true
	case "height":
		v.Height++
		bftSign(key, c35Chain, v)
	case "round":
		v.Round++
		bftSign(key, c35Chain, v)
	case "type":
		if v.Type == types.PrevoteType {
			v.Type = types.PrecommitType
		} else {
			v.Type = types.PrevoteType
		}
		bftSign(key, c35Chain, v)
	case "chain":
		bftSign(key, c35Chain+"-other", v)
	case "sig":
		bftSign(key, c35Chain, v)
		v.Signature = bftFlipBit(v.Signature, op.Aux)
	case "sigkey":
		if n > 1 {
			bftSign(e.sorted[other].Key, c35Chain, v)
		} else {
			bftSign(c35Stranger, c35Chain, v)
		}
	case "index":
		if n > 1 {
			v.ValidatorIndex = other
		} else {
			v.ValidatorIndex = n
		}
		bftSign(key, c35Chain, v)
	case "addr":
		if n > 1 {
			v.ValidatorAddress = bftAddr(e.sorted[other].Key)
		} else {
			v.ValidatorAddress = bftAddr(c35Stranger)
		}
		bftSign(key, c35Chain, v)
	case "unknown":
		v.ValidatorAddress = bftAddr(c35Stranger)
		v.ValidatorIndex = n + abs(op.Aux)%2
		bftSign(c35Stranger, c35Chain, v)
	case "unknown-inrange":
		v.ValidatorAddress = bftAddr(c35Stranger)
		bftSign(c35Stranger, c35Chain, v)
	case "negindex":
		v.ValidatorIndex = -1
		bftSign(key, c35Chain, v)
	case "nil":
		return nil, false
	default:
		panic("unknown defect " + op.Defect)
	}
	return v, false
}

func abs(x int) int {
	if x < 0 {
		return -x
	}
	return x
}

// snapshot renders every observable of the vote set.
func (e *c35Env) snapshot() string {
	var sb strings.Builder
	id, ok := e.cur().TwoThirdsMajority()
	fmt.Fprintf(&sb, "maj=%v/%v has=%v any=%v all=%v commit=%v ba=%v|", id, ok, e.cur().HasTwoThirdsMajority(), e.cur().HasTwoThirdsAny(), e.cur().HasAll(), e.cur().IsCommit(), e.cur().BitArray())
	for b := 0; b < c35Blocks; b++ {
		// a nil array (untracked block) and an all-zero one count the same votes
		bb := e.cur().BitArrayByBlockID(bftBlockID(b))
		fmt.Fprintf(&sb, "b%d=", b)
		for i := range e.sorted {
			if bb.GetIndex(i) {
				sb.WriteByte('1')
			} else {
				sb.WriteByte('0')
			}
		}
		sb.WriteByte('|')
	}
	for i := range e.sorted {
		v := e.cur().GetByIndex(i)
		if v == nil {
			sb.WriteString("nil|")
		} else {
			fmt.Fprintf(&sb, "%v/%X|", v, v.Signature)
		}
	}
	return sb.String()
}

func isConflict(err error) (*types.VoteConflictingVotesError, bool) {
	if err == nil {
		return nil, false
	}
	if ce, ok := err.(*types.VoteConflictingVotesError); ok {
		return ce, true
	}
	if ce, ok := tmerrors.Cause(err).(*types.VoteConflictingVotesError); ok {
		return ce, true
	}
	return nil, false
}

// checkObs compares every quorum observable with the model.
func (e *c35Env) checkObs(m *c35Model) error {
	vs := e.cur()
	id, ok := vs.TwoThirdsMajority()
	if ok != (m.maj >= 0) {
		return fmt.Errorf("TwoThirdsMajority ok=%v, model majority=%d (counted per block: %v, total %d)", ok, m.maj, e.countedAll(m), m.total)
	}
	if ok && !id.Equals(bftBlockID(m.maj)) {
		return fmt.Errorf("TwoThirdsMajority reports block %d (%v), model's first majority is block %d", c35BlockOf(id), id, m.maj)
	}
	if !ok && !id.IsZero() {
		return fmt.Errorf("TwoThirdsMajority returned a block id without ok")
	}
	if vs.HasTwoThirdsMajority() != ok {
		return fmt.Errorf("HasTwoThirdsMajority=%v disagrees with TwoThirdsMajority ok=%v", vs.HasTwoThirdsMajority(), ok)
	}
	if vs.IsCommit() != (ok && e.typ == types.PrecommitType) {
		return fmt.Errorf("IsCommit=%v, want %v", vs.IsCommit(), ok && e.typ == types.PrecommitType)
	}
	anyP := m.anyPower()
	if want := 3*anyP > 2*m.total; vs.HasTwoThirdsAny() != want {
		return fmt.Errorf("HasTwoThirdsAny=%v, model %v (power of validators with a counted vote %d of %d)", vs.HasTwoThirdsAny(), want, anyP, m.total)
	}
	if want := anyP == m.total; vs.HasAll() != want {
		return fmt.Errorf("HasAll=%v, model %v", vs.HasAll(), want)
	}
	ba := vs.BitArray()
	for i := 0; i < m.n; i++ {
		if ba.GetIndex(i) != (len(m.added[i]) > 0) {
			return fmt.Errorf("BitArray[%d]=%v, model has counted votes for blocks %v", i, ba.GetIndex(i), m.added[i])
		}
	}
	for b := 0; b < c35Blocks; b++ {
		bb := vs.BitArrayByBlockID(bftBlockID(b))
		for i := 0; i < m.n; i++ {
			_, has := m.added[i][b]
			got := bb != nil && bb.GetIndex(i)
			if got != has {
				return fmt.Errorf("BitArrayByBlockID(block %d)[%d]=%v, model counted=%v", b, i, got, has)
			}
		}
	}
	for i := 0; i < m.n; i++ {
		v := vs.GetByIndex(i)
		if (v == nil) != (len(m.added[i]) == 0) {
			return fmt.Errorf("GetByIndex(%d) nil=%v but model has counted votes %v", i, v == nil, m.added[i])
		}
		if v2 := vs.GetByAddress(bftAddr(e.sorted[i].Key)); v2 != v {
			return fmt.Errorf("GetByAddress and GetByIndex disagree for validator %d", i)
		}
		if v == nil {
			continue
		}
		b := c35BlockOf(v.BlockID)
		if b < 0 || v.ValidatorIndex != i || v.ValidatorAddress != bftAddr(e.sorted[i].Key) {
			return fmt.Errorf("GetByIndex(%d) returned a vote of somebody else or for an unknown block: %v", i, v)
		}
		okSig := false
		for ts := range m.submitted[i][b] {
			if bytes.Equal(m.sigs[fmt.Sprintf("%d/%d/%d", i, b, ts)], v.Signature) && v.Timestamp.Equal(bftTime(ts)) {
				okSig = true
			}
		}
		if !okSig {
			return fmt.Errorf("GetByIndex(%d) returned a vote for block %d that validator never validly submitted: %v", i, b, v)
		}
		if m.maj >= 0 {
			if _, has := m.added[i][m.maj]; has && b != m.maj {
				return fmt.Errorf("validator %d has a counted vote for the majority block %d but its canonical vote is for block %d", i, m.maj, b)
			}
		}
	}
	return nil
}

func (e *c35Env) countedAll(m *c35Model) []int64 {
	out := make([]int64, c35Blocks)
	for b := range out {
		out[b] = m.counted(b)
	}
	return out
}

func (e *c35Env) step(ctx *vk.Ctx, m *c35Model, op c35Op) error {
	if op.Kind == "peer" {
		before := e.snapshot()
		err := e.setPeerMaj23(types.P2PID(fmt.Sprintf("peer%d", op.Peer)), bftBlockID(op.Block))
		prev, had := m.peers[op.Peer]
		switch {
		case had && prev != op.Block:
			if err == nil {
				return fmt.Errorf("SetPeerMaj23: peer %d changed its claim from block %d to %d without error", op.Peer, prev, op.Block)
			}
			ctx.Class("peer-claim-conflicting")
		default:
			if err != nil {
				return fmt.Errorf("SetPeerMaj23(peer %d, block %d): %v", op.Peer, op.Block, err)
			}
			m.peers[op.Peer] = op.Block
			m.claimed[op.Block] = true
			m.sawTwist = true
			ctx.Class("peer-claim")
		}
		// a claim never changes what is counted
		if after := e.snapshot(); after != before {
			return fmt.Errorf("SetPeerMaj23 changed observables:\n before %s\n after  %s", before, after)
		}
		return e.checkObs(m)
	}

	v, valid := e.mkVote(op)
	if !valid {
		ctx.Class("invalid:" + op.Defect)
		before := e.snapshot()
		added, err := e.addVote(v)
		if added || err == nil {
			return fmt.Errorf("invalid vote (%s) %v: added=%v err=%v", op.Defect, v, added, err)
		}
		if _, c := isConflict(err); c {
			return fmt.Errorf("invalid vote (%s) reported as conflicting vote: %v", op.Defect, err)
		}
		if after := e.snapshot(); after != before {
			return fmt.Errorf("invalid vote (%s) changed observables:\n before %s\n after  %s", op.Defect, before, after)
		}
		return e.checkObs(m)
	}

	i, X, ts := op.Val, op.Block, op.TS
	m.sigs[fmt.Sprintf("%d/%d/%d", i, X, ts)] = v.Signature
	added, err := e.addVote(v)
	ce, conflict := isConflict(err)
	_, everSubmitted := m.submitted[i][X]
	addedTS, isAdded := m.added[i][X]
	desc := fmt.Sprintf("valid vote by validator %d for block %d (ts %d): added=%v err=%v", i, X, ts, added, err)
	switch {
	case len(m.added[i]) == 0:
		// the validator's first valid vote
		if !added || err != nil {
			return fmt.Errorf("%s; it is the validator's first valid vote and must be added without error", desc)
		}
		ctx.Class("first-vote")
	case isAdded && addedTS == ts:
		if added || err != nil {
			return fmt.Errorf("%s; exact duplicate of a counted vote must return added=false, err=nil", desc)
		}
		ctx.Class("duplicate")
	case isAdded:
		// same validator, same block, different timestamp: not a duplicate and not a conflict (same block)
		if added || conflict {
			return fmt.Errorf("%s; a second signature for an already counted (validator, block) must not be added or reported as conflicting", desc)
		}
		ctx.Class("same-block-other-ts")
	case !everSubmitted:
		// new block for a validator that already has a recorded vote: conflicting
		if !conflict {
			return fmt.Errorf("%s; validator already voted for %v: must be reported as conflicting votes", desc, m.added[i])
		}
		if added != m.claimed[X] {
			return fmt.Errorf("%s; conflicting votes are added exactly when a peer claimed +2/3 for that block (claimed=%v)", desc, m.claimed[X])
		}
	default:
		// re-submission of a conflicting vote that was seen but not counted
		if conflict {
			if added != m.claimed[X] {
				return fmt.Errorf("%s; conflicting votes are added exactly when a peer claimed +2/3 for that block (claimed=%v)", desc, m.claimed[X])
			}
		} else {
			// only legitimate when the vote set kept the earlier copy as the canonical vote of the majority block
			if added || m.maj != X {
				return fmt.Errorf("%s; validator has counted votes %v and none for this block: expected a conflicting-votes error", desc, m.added[i])
			}
			ctx.Class("resubmitted-majority-vote-kept")
		}
	}
	if conflict {
		m.sawTwist = true
		ctx.ClassIf(added, "conflict-added")
		ctx.ClassIf(!added, "conflict-not-added")
		if ce.VoteA == nil || ce.VoteB == nil || ce.PubKey == nil {
			return fmt.Errorf("%s; conflicting-votes error lacks votes", desc)
		}
		ba, bb := c35BlockOf(ce.VoteA.BlockID), c35BlockOf(ce.VoteB.BlockID)
		if ce.VoteA.ValidatorIndex != i || ce.VoteB.ValidatorIndex != i || bb != X || ba == X || ba < 0 || !ce.PubKey.Equals(bftPub(e.sorted[i].Key)) {
			return fmt.Errorf("%s; conflicting-votes evidence does not show two votes of validator %d for different blocks (A: block %d, B: block %d)", desc, i, ba, bb)
		}
		if _, sub := m.submitted[i][ba]; !sub {
			return fmt.Errorf("%s; evidence vote A is for block %d which the validator never voted for", desc, ba)
		}
	}
	if m.submitted[i][X] == nil {
		m.submitted[i][X] = map[int]bool{}
	}
	m.submitted[i][X][ts] = true
	if added {
		m.added[i][X] = ts
		if m.maj < 0 && 3*m.counted(X) > 2*m.total {
			m.maj = X
			ctx.Class("majority-reached")
			ctx.ClassIf(X == 0, "majority-nil-block")
			if m.sawTwist {
				ctx.NT()
				ctx.Class("majority-after-conflict-or-claim")
			}
			ctx.ClassIf(conflict, "majority-crossed-by-conflicting-vote")
		}
	}
	return e.checkObs(m)
}

func (e *c35Env) checkCommit(ctx *vk.Ctx, m *c35Model) error {
	var commit *types.Commit
	var pv any
	func() {
		defer func() { pv = recover() }()
		commit = e.cur().MakeCommit()
	}()
	if e.typ != types.PrecommitType || m.maj < 0 {
		if pv == nil {
			return fmt.Errorf("MakeCommit did not panic although type=%d majority=%d (documented to panic)", e.typ, m.maj)
		}
		return nil
	}
	if pv != nil {
		return fmt.Errorf("MakeCommit panicked with a +2/3 majority for block %d: %v", m.maj, pv)
	}
	if m.maj == 0 {
		// +2/3 for the nil block: no caller builds a commit from it (a commit
		// for the nil block is not a valid commit), nothing more to check.
		ctx.Class("majority-nil-block-at-commit")
		return nil
	}
	ctx.Class("commit-made")
	majID := bftBlockID(m.maj)
	if !commit.BlockID.Equals(majID) {
		return fmt.Errorf("commit block id %v, majority block %d", commit.BlockID, m.maj)
	}
	if len(commit.Precommits) != m.n {
		return fmt.Errorf("commit has %d entries for %d validators", len(commit.Precommits), m.n)
	}
	var forMaj int64
	strayKnown := false
	for i, cs := range commit.Precommits {
		if (cs == nil) != (len(m.added[i]) == 0) {
			return fmt.Errorf("commit entry %d nil=%v, model counted votes %v", i, cs == nil, m.added[i])
		}
		if cs == nil {
			continue
		}
		v := types.Vote(*cs)
		b := c35BlockOf(v.BlockID)
		if v.Type != types.PrecommitType || v.Height != e.c.Height || v.Round != e.c.Round || v.ValidatorIndex != i || v.ValidatorAddress != bftAddr(e.sorted[i].Key) || b < 0 {
			return fmt.Errorf("commit entry %d is not a precommit of validator %d for this height/round: %v", i, i, &v)
		}
		if !bftPub(e.sorted[i].Key).VerifyBytes(v.SignBytes(c35Chain), v.Signature) {
			return fmt.Errorf("commit entry %d carries an invalid signature", i)
		}
		if b == m.maj {
			forMaj += m.power[i]
			continue
		}
		// the literal clause: "the resulting commit contains only votes for the majority block"
		if _, has := m.added[i][m.maj]; has {
			return fmt.Errorf("commit entry %d is for block %d although validator %d has a counted vote for the majority block %d", i, b, i, m.maj)
		}
		if !ctx.Known("makecommit-stray-precommit") {
			return fmt.Errorf("commit for majority block %d contains validator %d's precommit for block %d (a stray precommit: the validator never precommitted the majority block)", m.maj, i, b)
		}
		strayKnown = true
	}
	ctx.ClassIf(strayKnown, "commit-with-stray-precommit")
	if !(3*forMaj > 2*m.total) {
		return fmt.Errorf("commit entries for the majority block carry %d of %d power: not +2/3", forMaj, m.total)
	}
	if err := e.valSet.VerifyCommit(c35Chain, majID, e.c.Height, commit); err != nil {
		return fmt.Errorf("VerifyCommit rejects the commit made from the vote set: %v", err)
	}
	// CommitToVoteSet is documented as the inverse of MakeCommit.
	var vs2 *types.VoteSet
	func() {
		defer func() { pv = recover() }()
		vs2 = types.CommitToVoteSet(c35Chain, commit, e.valSet)
	}()
	if pv != nil {
		return fmt.Errorf("CommitToVoteSet panicked on a commit made by MakeCommit: %v", pv)
	}
	if id, ok := vs2.TwoThirdsMajority(); !ok || !id.Equals(majID) {
		return fmt.Errorf("CommitToVoteSet(MakeCommit()) has majority %v/%v, want block %d", id, ok, m.maj)
	}
	return nil
}

func c35NewModel(sorted []bftVal) *c35Model {
	m := &c35Model{n: len(sorted), maj: -1, peers: map[int]int{}, claimed: map[int]bool{}, sigs: map[string][]byte{}}
	for _, v := range sorted {
		m.power = append(m.power, v.Power)
		m.total += v.Power
		m.added = append(m.added, map[int]int{})
		m.submitted = append(m.submitted, map[int]map[int]bool{})
	}
	return m
}

func c35Exec(ctx *vk.Ctx, c c35Case) error {
	e := &c35Env{c: c, sorted: bftSortedKeys(c.Vals), typ: types.SignedMsgType(c.Type)}
	e.valSet = bftValSet(c.Vals)
	for i, v := range e.valSet.Validators {
		if v.Address != bftAddr(e.sorted[i].Key) || v.VotingPower != e.sorted[i].Power {
			return fmt.Errorf("validator set is not in address order at %d", i)
		}
	}
	e.vs = types.NewVoteSet(c35Chain, c.Height, c.Round, e.typ, e.valSet)
	m := c35NewModel(e.sorted)
	ctx.Class(fmt.Sprintf("type=%d", c.Type))
	if err := e.checkObs(m); err != nil {
		return fmt.Errorf("fresh vote set: %w", err)
	}
	for k, op := range c.Ops {
		hadMaj := m.maj >= 0
		if err := e.step(ctx, m, op); err != nil {
			return fmt.Errorf("op %d %+v: %w", k, op, err)
		}
		if !hadMaj && m.maj >= 0 {
			if err := e.checkCommit(ctx, m); err != nil {
				return fmt.Errorf("after op %d (majority reached): %w", k, err)
			}
		}
	}
	over := 0
	for b := 0; b < c35Blocks; b++ {
		if 3*m.counted(b) > 2*m.total {
			over++
		}
	}
	ctx.ClassIf(over >= 2, "two-blocks-over-quorum")
	ctx.ClassIf(m.maj < 0, "no-majority")
	return e.checkCommit(ctx, m)
}

func c35DrawVals(rt *rapid.T, maxN int) []bftVal {
	n := rapid.IntRange(1, maxN).Draw(rt, "n")
	keys := rapid.Permutation([]int{0, 1, 2, 3, 4, 5, 6, 7, 8, 9, 10, 11}).Draw(rt, "keys")[:n]
	mode := rapid.SampledFrom([]string{"small", "small", "equal", "dominant", "third", "big"}).Draw(rt, "powers")
	vals := make([]bftVal, n)
	var sum int64
	for i := range vals {
		var p int64
		switch mode {
		case "equal":
			p = 1
		case "big":
			p = rapid.SampledFrom([]int64{1, 3, 1 << 40, 1<<40 + 1, 1 << 55}).Draw(rt, "p")
		default:
			p = int64(rapid.IntRange(1, 10).Draw(rt, "p"))
		}
		vals[i] = bftVal{Key: keys[i], Power: p}
		sum += p
	}
	switch mode {
	case "dominant": // first validator alone holds more than 2/3
		vals[0].Power = 2*(sum-vals[0].Power) + int64(rapid.IntRange(0, 2).Draw(rt, "slack"))
		if vals[0].Power < 1 {
			vals[0].Power = 1
		}
	case "third": // first validator holds about 1/3
		rest := sum - vals[0].Power
		vals[0].Power = rest/2 + int64(rapid.IntRange(0, 2).Draw(rt, "slack"))
		if vals[0].Power < 1 {
			vals[0].Power = 1
		}
	}
	return vals
}

var c35Defects = []string{"height", "round", "type", "chain", "sig", "sigkey", "index", "addr", "unknown", "unknown-inrange", "negindex", "nil"}

func c35OpGen(n int) *rapid.Generator[c35Op] {
	return rapid.Custom(func(rt *rapid.T) c35Op {
		var op c35Op
		if rapid.IntRange(0, 99).Draw(rt, "kind") >= 86 {
			op.Kind = "peer"
			op.Peer = rapid.IntRange(0, 3).Draw(rt, "peer")
			op.Block = rapid.SampledFrom([]int{1, 1, 2, 2, 2, 0, 3, 4}).Draw(rt, "pblock")
			return op
		}
		op.Kind = "vote"
		op.Val = rapid.IntRange(0, n-1).Draw(rt, "val")
		op.Block = rapid.SampledFrom([]int{1, 1, 1, 1, 2, 2, 2, 0, 3}).Draw(rt, "block")
		op.TS = rapid.SampledFrom([]int{0, 0, 0, 0, 0, 0, 0, 0, 0, 1}).Draw(rt, "ts")
		if rapid.IntRange(0, 99).Draw(rt, "bad") >= 82 {
			op.Defect = rapid.SampledFrom(c35Defects).Draw(rt, "defect")
			op.Aux = rapid.IntRange(0, 511).Draw(rt, "aux")
		}
		return op
	})
}

func c35Draw(rt *rapid.T) c35Case {
	c := c35Case{
		Vals:   c35DrawVals(rt, 7),
		Type:   rapid.SampledFrom([]int{1, 2, 2}).Draw(rt, "type"),
		Height: int64(rapid.IntRange(1, 5).Draw(rt, "height")),
		Round:  rapid.IntRange(0, 3).Draw(rt, "round"),
	}
	n := len(c.Vals)
	c.Ops = rapid.SliceOfN(c35OpGen(n), 1, 40).Draw(rt, "ops")
	return c
}

func TestC35_VoteSet(t *testing.T) {
	vk.Run(t, vk.Spec[c35Case]{
		ID: "C35", Name: "TestC35_VoteSet",
		Rule: "rapid: validator sets of 1-7 real ed25519 keys with unequal powers (small, equal, one validator >2/3, one ~1/3, huge), prevote or precommit set, 1-40 ops: really signed votes for the nil block and 3 block ids (exact duplicates, re-signed with another timestamp, conflicting), malformed votes (wrong height/round/type/chain id, flipped or foreign signature, wrong index/address, unknown validator, negative index, nil) and SetPeerMaj23 claims (consistent, conflicting, for an unvoted block); non-trivial = a +2/3 majority is first crossed after a conflicting vote or an accepted peer claim",
		Draw: c35Draw,
		Exec: c35Exec,
	})
}
