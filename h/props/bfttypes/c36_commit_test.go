package bfttypes

import (
	"fmt"
	"testing"

	"github.com/gnolang/gno/tm2/pkg/bft/types"
	"pgregory.net/rapid"
	"verif/vk"
)

// C36 — VerifyCommit / VerifyFutureCommit accept exactly the commits with
// +2/3 valid signatures.
//
// The reference decides acceptance from the case data alone (which entries
// were signed by the right key over the right content, which block id they
// are for, the powers): no call into the code under test.

const c36Chain = "verif-c36"

type c36Entry struct {
	Absent bool   `json:"absent,omitempty"`
	Block  int    `json:"block"`          // 1 = the usual block, 2 = another block, 5/6 = block 1's hash with another parts header, 0 = nil block
	DH     int    `json:"dh,omitempty"`   // height delta of this precommit
	DR     int    `json:"dr,omitempty"`   // round delta
	Type   int    `json:"type,omitempty"` // 0/2 precommit, 1 prevote
	TS     int    `json:"ts,omitempty"`
	After  bool   `json:"after,omitempty"` // DH/DR/Type deviations are written into the entry after signing the regular content
	Sig    string `json:"sig,omitempty"`   // "" valid | flip | otherkey | chain | empty
	Aux    int    `json:"aux,omitempty"`
	// Relabel > 0: after signing, ValidatorAddress (not covered by the signature) is
	// rewritten to the address of Old[(Relabel-1) % len(Old)] (future mode only).
	Relabel int `json:"relabel,omitempty"`
}

type c36Case struct {
	Mode    string     `json:"mode"` // commit | future
	New     []bftVal   `json:"new"`
	Old     []bftVal   `json:"old,omitempty"`
	Entries []c36Entry `json:"entries"` // Entries[k] is the precommit of New[k]
	Height  int64      `json:"height"`
	Round   int        `json:"round"`
	CommitB int        `json:"commit_block"` // block id stored in the commit: 1, 2 or 0 (zero id)
	AskB    int        `json:"ask_block"`    // block id handed to the verifier (1, 2, 5 or 6)
	AskDH   int        `json:"ask_dh,omitempty"`
	Len     int        `json:"len,omitempty"` // -1 drop the last entry, +1 append a nil entry, +2 append a copy of entry 0
}

type c36Ref struct {
	accept     bool
	why        string
	tally      int64
	total      int64
	oldTally   int64
	oldTotal   int64
	nearNew    bool
	nearOld    bool
	wellFormed bool
}

// c36Reference computes the expected verdict from the case alone.
func c36Reference(c c36Case) c36Ref {
	var r c36Ref
	sorted := bftSortedKeys(c.New)
	pos := map[int]int{} // key -> index in the validator set
	for i, v := range sorted {
		pos[v.Key] = i
		r.total += v.Power
	}
	n := len(sorted)
	ents := make([]*c36Entry, n) // by validator index
	for k := range c.New {
		e := c.Entries[k]
		if !e.Absent {
			ents[pos[c.New[k].Key]] = &e
		}
	}
	list := ents
	switch c.Len {
	case -1:
		list = ents[:n-1]
	case 1:
		list = append(append([]*c36Entry{}, ents...), nil)
	case 2:
		list = append(append([]*c36Entry{}, ents...), ents[0])
	}
	oldPower := map[int]int64{}
	for _, v := range c.Old {
		oldPower[v.Key] = v.Power
		r.oldTotal += v.Power
	}
	// A signature verifies iff it was made by the validator's key for this chain over exactly the
	// precommit the verifier reconstructs: commit height and round (those of the first present
	// entry), the entry's block id and timestamp.
	var firstE *c36Entry
	for _, e := range list {
		if e != nil {
			firstE = e
			break
		}
	}
	sigOK := func(e *c36Entry) bool {
		if e.Sig != "" || firstE == nil {
			return false
		}
		if e.After { // signed as a regular precommit at (Height, Round)
			return firstE.DH == 0 && firstE.DR == 0
		}
		return e.DH == firstE.DH && e.DR == firstE.DR && e.Type != 1
	}
	// tallies (meaningful when everything else is in order)
	for i, e := range ents {
		if e != nil && e.Block == c.AskB && sigOK(e) {
			r.tally += sorted[i].Power
			r.oldTally += oldPower[sorted[i].Key]
		}
	}
	var maxP, maxOld int64
	for _, v := range sorted {
		maxP = max(maxP, v.Power)
	}
	for _, v := range c.Old {
		maxOld = max(maxOld, v.Power)
	}
	q := r.total*2/3 + 1
	r.nearNew = r.tally >= q-maxP && r.tally < q+maxP
	oq := r.oldTotal*2/3 + 1
	r.nearOld = c.Mode == "future" && r.oldTally >= oq-maxOld && r.oldTally < oq+maxOld

	reject := func(why string) c36Ref { r.accept = false; r.why = why; return r }
	// well-formedness of the commit itself
	if c.CommitB == 0 {
		return reject("commit for the zero block id")
	}
	if len(list) == 0 {
		return reject("no precommits")
	}
	var first *c36Entry
	for _, e := range list {
		if e != nil {
			first = e
			break
		}
	}
	commitH := int64(0)
	if first != nil {
		commitH = c.Height + int64(first.DH)
		for _, e := range list {
			if e == nil {
				continue
			}
			if e.Type == 1 {
				return reject("entry is not a precommit")
			}
			if e.DH != first.DH {
				return reject("entries of different heights")
			}
			if e.DR != first.DR {
				return reject("entries of different rounds")
			}
		}
	}
	r.wellFormed = true
	if len(list) != n {
		return reject("wrong number of entries")
	}
	if c.Height+int64(c.AskDH) != commitH {
		return reject("wrong height")
	}
	if c.AskB != c.CommitB {
		return reject("wrong block id")
	}
	for _, e := range list {
		if e != nil && !sigOK(e) {
			return reject("a present signature does not verify")
		}
	}
	if !(3*r.tally > 2*r.total) {
		return reject("tally is not +2/3")
	}
	if c.Mode == "future" && !(3*r.oldTally > 2*r.oldTotal) {
		return reject("old-set tally is not +2/3")
	}
	r.accept = true
	return r
}

func c36Build(c c36Case) (newSet, oldSet *types.ValidatorSet, commit *types.Commit) {
	sorted := bftSortedKeys(c.New)
	pos := map[int]int{}
	for i, v := range sorted {
		pos[v.Key] = i
	}
	n := len(sorted)
	newSet = bftValSet(c.New)
	if c.Mode == "future" {
		oldSet = bftValSet(c.Old)
	}
	sigs := make([]*types.CommitSig, n)
	for k, v := range c.New {
		e := c.Entries[k]
		if e.Absent {
			continue
		}
		i := pos[v.Key]
		typ := types.PrecommitType
		if e.Type == 1 {
			typ = types.PrevoteType
		}
		vote := &types.Vote{
			Type: typ, Height: c.Height + int64(e.DH), Round: c.Round + e.DR,
			BlockID: bftBlockID(e.Block), Timestamp: bftTime(e.TS),
			ValidatorAddress: bftAddr(v.Key), ValidatorIndex: i,
		}
		if e.After {
			vote.Type, vote.Height, vote.Round = types.PrecommitType, c.Height, c.Round
		}
		switch e.Sig {
		case "":
			bftSign(v.Key, c36Chain, vote)
		case "flip":
			bftSign(v.Key, c36Chain, vote)
			vote.Signature = bftFlipBit(vote.Signature, e.Aux)
		case "otherkey":
			bftSign(c35Stranger-e.Aux%2, c36Chain, vote) // keys 14/15 are never validators
		case "chain":
			bftSign(v.Key, c36Chain+"-other", vote)
		case "empty":
			vote.Signature = nil
		default:
			panic("unknown sig defect " + e.Sig)
		}
		if e.After {
			vote.Type, vote.Height, vote.Round = typ, c.Height+int64(e.DH), c.Round+e.DR
		}
		if e.Relabel > 0 && c.Mode == "future" && len(c.Old) > 0 {
			vote.ValidatorAddress = bftAddr(c.Old[(e.Relabel-1)%len(c.Old)].Key)
		}
		sigs[i] = vote.CommitSig()
	}
	switch c.Len {
	case -1:
		sigs = sigs[:n-1]
	case 1:
		sigs = append(sigs, nil)
	case 2:
		sigs = append(sigs, sigs[0])
	}
	commit = types.NewCommit(bftBlockID(c.CommitB), sigs)
	return
}

func c36Exec(ctx *vk.Ctx, c c36Case) error {
	ref := c36Reference(c)
	newSet, oldSet, commit := c36Build(c)
	askID := bftBlockID(c.AskB)
	askH := c.Height + int64(c.AskDH)
	var err error
	if c.Mode == "future" {
		err = oldSet.VerifyFutureCommit(newSet, c36Chain, askID, askH, commit)
	} else {
		err = newSet.VerifyCommit(c36Chain, askID, askH, commit)
	}
	ctx.Class("mode=" + c.Mode)
	ctx.ClassIf(ref.accept, "accept")
	ctx.ClassIf(!ref.accept, "reject:"+ref.why[:min(len(ref.why), 28)])
	q := ref.total*2/3 + 1
	ctx.ClassIf(ref.tally == q, "tally=q")
	ctx.ClassIf(ref.tally == q-1, "tally=q-1")
	ctx.ClassIf(ref.tally == q+1, "tally=q+1")
	if c.Mode == "future" {
		oq := ref.oldTotal*2/3 + 1
		ctx.ClassIf(ref.oldTally == oq, "old-tally=q")
		ctx.ClassIf(ref.oldTally == oq-1, "old-tally=q-1")
		ctx.ClassIf(3*ref.tally > 2*ref.total && !(3*ref.oldTally > 2*ref.oldTotal), "new-ok-old-short")
	}
	stray := false
	for _, e := range c.Entries {
		if !e.Absent && e.Block != c.AskB {
			stray = true
		}
	}
	ctx.ClassIf(stray, "has-stray-precommit")
	ctx.ClassIf(ref.why == "a present signature does not verify" && 3*ref.tally > 2*ref.total, "bad-signature-on-surplus-entry")
	ctx.NTIf(ref.nearNew || ref.nearOld)
	ctx.Note("ref", fmt.Sprintf("accept=%v why=%q tally=%d/%d old=%d/%d", ref.accept, ref.why, ref.tally, ref.total, ref.oldTally, ref.oldTotal))
	relabelled := false
	for _, e := range c.Entries {
		if !e.Absent && e.Relabel > 0 && c.Mode == "future" {
			relabelled = true
		}
	}
	ctx.ClassIf(relabelled, "relabelled-addresses")
	if relabelled {
		// The address label is not authenticated. The reference tallies old-set power by the
		// keys that really signed; the implementation looks validators up by the label and may
		// therefore reject more (a label naming an old validator whose key did not sign). Only
		// one direction is required: an accepted commit must have +2/3 of real old-set signers.
		if err == nil && !ref.accept {
			return fmt.Errorf("future verification ACCEPTED a commit with relabelled validator addresses; reference: %s; old-set power that really signed %d of %d",
				ref.why, ref.oldTally, ref.oldTotal)
		}
		ctx.ClassIf(err != nil && ref.accept, "relabelled-rejected-by-label-lookup")
		return nil
	}
	if (err == nil) != ref.accept {
		return fmt.Errorf("%s verification returned %v; reference: accept=%v (%s); tally for asked block %d of %d, old-set tally %d of %d",
			c.Mode, err, ref.accept, ref.why, ref.tally, ref.total, ref.oldTally, ref.oldTotal)
	}
	return nil
}

func c36DrawPowers(rt *rapid.T, label string, n int) []int64 {
	mode := rapid.SampledFrom([]string{"tiny", "tiny", "small", "big"}).Draw(rt, label+"pmode")
	ps := make([]int64, n)
	for i := range ps {
		switch mode {
		case "tiny":
			ps[i] = int64(rapid.IntRange(1, 3).Draw(rt, label+"p"))
		case "small":
			ps[i] = int64(rapid.IntRange(1, 20).Draw(rt, label+"p"))
		default:
			ps[i] = rapid.SampledFrom([]int64{1, 2, 1 << 20, 1 << 40, 1<<40 + 1, 1 << 56}).Draw(rt, label+"p")
		}
	}
	return ps
}

// c36Tune rewrites the power of one validator so that the tally of signers
// lands right at the +2/3 threshold (offset d from the exact boundary).
func c36Tune(ps []int64, signer []bool, pivot int, d int64) {
	var s, r int64 // power of signers, total — both without the pivot
	for i, p := range ps {
		if i == pivot {
			continue
		}
		r += p
		if signer[i] {
			s += p
		}
	}
	var x int64
	if signer[pivot] {
		// accept <=> 3(s+x) > 2(r+x) <=> x > 2r-3s
		x = 2*r - 3*s + d + 1
	} else {
		// accept <=> 3s > 2(r+x) <=> 2x < 3s-2r
		x = (3*s-2*r)/2 + d
	}
	if x >= 1 && x < 1<<57 {
		ps[pivot] = x
	}
}

func c36Draw(rt *rapid.T) c36Case {
	c := c36Case{
		Mode:   rapid.SampledFrom([]string{"commit", "commit", "future"}).Draw(rt, "mode"),
		Height: int64(rapid.IntRange(1, 6).Draw(rt, "height")),
		Round:  rapid.IntRange(0, 3).Draw(rt, "round"),
	}
	n := rapid.IntRange(1, 8).Draw(rt, "n")
	perm := rapid.Permutation([]int{0, 1, 2, 3, 4, 5, 6, 7, 8, 9, 10, 11, 12, 13}).Draw(rt, "keys")
	ps := c36DrawPowers(rt, "new", n)
	// how defective the commit is: mostly clean commits whose verdict depends on the tally alone
	// scenario: clean commits (verdict depends on the tally alone), commits with exactly one
	// defect of one kind (on one entry), and commits with several defects
	scenario := rapid.SampledFrom([]string{"clean", "clean", "clean", "one", "one", "one", "dirty"}).Draw(rt, "scenario")
	oneKind, oneAt := "", -1
	if scenario == "one" {
		oneKind = rapid.SampledFrom([]string{"sig", "sig", "sig", "dh", "dr", "typ", "commitb", "askb", "askdh", "len"}).Draw(rt, "onekind")
		oneAt = rapid.IntRange(0, n-1).Draw(rt, "oneat")
	}
	entryNo := -1
	roll := func(label string) bool {
		switch scenario {
		case "one":
			return label == oneKind && (entryNo < 0 || entryNo == oneAt)
		case "dirty":
			return rapid.IntRange(0, 99).Draw(rt, label) < 20
		}
		return false
	}
	absentPct := rapid.SampledFrom([]int{0, 0, 10, 25, 45}).Draw(rt, "absentpct")
	strayPct := rapid.SampledFrom([]int{0, 10, 30}).Draw(rt, "straypct")
	signer := make([]bool, n)
	c.Entries = make([]c36Entry, n)
	for k := 0; k < n; k++ {
		entryNo = k
		var e c36Entry
		e.Block = 1
		if rapid.IntRange(0, 99).Draw(rt, "absent") < absentPct {
			e.Absent = true
		} else if rapid.IntRange(0, 99).Draw(rt, "stray") < strayPct {
			e.Block = rapid.SampledFrom([]int{0, 2, 0, 2, 5, 6}).Draw(rt, "strayblock")
		}
		e.TS = rapid.IntRange(0, 3).Draw(rt, "ts")
		if !e.Absent {
			if roll("dh") {
				e.DH = rapid.SampledFrom([]int{1, -1}).Draw(rt, "dhv")
				if c.Height+int64(e.DH) < 1 {
					e.DH = 1
				}
			}
			if roll("dr") {
				e.DR = 1
			}
			if roll("typ") {
				e.Type = 1
			}
			if e.DH != 0 || e.DR != 0 || e.Type == 1 {
				e.After = rapid.Bool().Draw(rt, "after")
			}
			if roll("sig") {
				e.Sig = rapid.SampledFrom([]string{"flip", "otherkey", "chain", "empty"}).Draw(rt, "sigdefect")
				e.Aux = rapid.IntRange(0, 511).Draw(rt, "aux")
			}
		}
		signer[k] = !e.Absent && e.Block == 1 && e.Sig == ""
		c.Entries[k] = e
	}
	entryNo = -1
	c.CommitB, c.AskB = 1, 1
	if roll("commitb") {
		c.CommitB = rapid.SampledFrom([]int{0, 2, 5, 6}).Draw(rt, "commitbv")
	}
	if roll("askb") {
		c.AskB = rapid.SampledFrom([]int{2, 5, 6}).Draw(rt, "askbv")
	}
	if roll("askdh") {
		c.AskDH = 1
	}
	if roll("len") {
		c.Len = rapid.SampledFrom([]int{-1, 1, 2}).Draw(rt, "lenv")
	}
	if rapid.IntRange(0, 99).Draw(rt, "tune") < 60 {
		c36Tune(ps, signer, rapid.IntRange(0, n-1).Draw(rt, "pivot"), int64(rapid.IntRange(-1, 1).Draw(rt, "tuned")))
	}
	for k := 0; k < n; k++ {
		c.New = append(c.New, bftVal{Key: perm[k], Power: ps[k]})
	}
	if c.Mode == "future" {
		// old set: some validators of the new set (possibly with other powers) plus some others
		var oldSigner []bool
		var ops []int64
		for k := 0; k < n; k++ {
			if rapid.IntRange(0, 99).Draw(rt, "keep") < 70 {
				c.Old = append(c.Old, bftVal{Key: perm[k]})
				oldSigner = append(oldSigner, signer[k])
			}
		}
		extra := rapid.IntRange(0, 3).Draw(rt, "extra")
		if len(c.Old) == 0 && extra == 0 {
			extra = 1
		}
		for k := 0; k < extra && n+k < len(perm); k++ {
			c.Old = append(c.Old, bftVal{Key: perm[n+k]})
			oldSigner = append(oldSigner, false)
		}
		if rapid.Bool().Draw(rt, "samepowers") {
			for k := range c.Old {
				p := int64(rapid.IntRange(1, 3).Draw(rt, "oldp"))
				for _, v := range c.New {
					if v.Key == c.Old[k].Key {
						p = v.Power
					}
				}
				ops = append(ops, p)
			}
		} else {
			ops = c36DrawPowers(rt, "old", len(c.Old))
		}
		if rapid.IntRange(0, 99).Draw(rt, "oldtune") < 60 {
			c36Tune(ops, oldSigner, rapid.IntRange(0, len(ops)-1).Draw(rt, "oldpivot"), int64(rapid.IntRange(-1, 1).Draw(rt, "oldtuned")))
		}
		for k := range c.Old {
			c.Old[k].Power = ops[k]
		}
		// sometimes relabel the (unauthenticated) validator addresses of present entries to
		// old-set validators, preferably ones that did not sign
		if rapid.IntRange(0, 99).Draw(rt, "relabel") < 25 {
			for k := range c.Entries {
				if !c.Entries[k].Absent && rapid.IntRange(0, 99).Draw(rt, "relabelentry") < 70 {
					c.Entries[k].Relabel = 1 + rapid.IntRange(0, len(c.Old)-1).Draw(rt, "relabelto")
				}
			}
		}
	}
	return c
}

func TestC36_VerifyCommit(t *testing.T) {
	vk.Run(t, vk.Spec[c36Case]{
		ID: "C36", Name: "TestC36_VerifyCommit",
		Rule: "rapid: validator sets of 1-8 real ed25519 keys, commits of really signed precommits built from generated subsets of signers with stray (nil / other block) precommits, absent entries and generated defects (flipped / foreign-key / other-chain / empty signature, wrong height, round, type, commit block id, asked block id, asked height, list one short / one long); powers tiny, small or huge, in 60% of cases one power tuned so the tally sits exactly at the +2/3 boundary or one off; mode future adds an old set overlapping the new one with own powers (tuned likewise); non-trivial = tally (new or old set) within one validator's power of the threshold",
		Draw: c36Draw,
		Exec: c36Exec,
	})
}
