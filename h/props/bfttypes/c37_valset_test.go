package bfttypes

import (
	"fmt"
	"math"
	"math/big"
	"strings"
	"testing"

	"github.com/gnolang/gno/tm2/pkg/bft/types"
	"pgregory.net/rapid"
	"verif/vk"
)

// C37 — proposer selection is fair; validator-set updates are well-behaved.

// ---------------------------------------------------------------- fairness

type c37FairCase struct {
	Vals  []bftVal `json:"vals"`
	Warm  int      `json:"warm"`  // increments (one call) before observing
	Extra int      `json:"extra"` // observed sequence has T+Extra proposers: Extra+1 windows of length T
	Ks    []int    `json:"ks"`    // increment counts cross-checked through CopyIncrementProposerPriority(k)
}

func c37Spread(vs *types.ValidatorSet) *big.Int {
	lo, hi := int64(math.MaxInt64), int64(math.MinInt64)
	for _, v := range vs.Validators {
		lo = min(lo, v.ProposerPriority)
		hi = max(hi, v.ProposerPriority)
	}
	return new(big.Int).Sub(big.NewInt(hi), big.NewInt(lo))
}

func c37CheckSpread(vs *types.ValidatorSet, total int64) error {
	bound := new(big.Int).Mul(big.NewInt(3), big.NewInt(total))
	if sp := c37Spread(vs); sp.Cmp(bound) > 0 {
		return fmt.Errorf("proposer priorities are %v apart, more than 3 x total voting power %d: %v", sp, total, c37Prios(vs))
	}
	return nil
}

func c37Prios(vs *types.ValidatorSet) string {
	var sb strings.Builder
	for _, v := range vs.Validators {
		fmt.Fprintf(&sb, "[%X.. vp=%d prio=%d]", v.Address[:3], v.VotingPower, v.ProposerPriority)
	}
	return sb.String()
}

func c37FairExec(ctx *vk.Ctx, c c37FairCase) error {
	sorted := bftSortedKeys(c.Vals)
	idx := map[string]int{}
	var T int64
	for i, v := range sorted {
		idx[bftAddr(v.Key).String()] = i
		T += v.Power
	}
	vs := bftValSet(c.Vals)
	if c.Warm > 0 {
		vs.IncrementProposerPriority(c.Warm)
	}
	start := vs.Copy()
	L := int(T) + c.Extra
	seq := make([]int, L)
	for j := 0; j < L; j++ {
		p := vs.GetProposer()
		if p == nil {
			return fmt.Errorf("GetProposer returned nil at step %d", j)
		}
		i, ok := idx[p.Address.String()]
		if !ok {
			return fmt.Errorf("proposer %v at step %d is not a member of the set", p.Address, j)
		}
		seq[j] = i
		if err := c37CheckSpread(vs, T); err != nil {
			return fmt.Errorf("step %d: %w", j, err)
		}
		vs.IncrementProposerPriority(1)
	}
	// every window of T consecutive heights: each validator proposes exactly `power` times
	counts := make([]int64, len(sorted))
	for j := 0; j < L; j++ {
		counts[seq[j]]++
		if j >= int(T) {
			counts[seq[j-int(T)]]--
		}
		if j >= int(T)-1 {
			for i, v := range sorted {
				if counts[i] != v.Power {
					return fmt.Errorf("window of %d heights starting at offset %d (after %d warm-up increments): validator %d with power %d proposed %d times; sequence %v", T, j-int(T)+1, c.Warm, i, v.Power, counts[i], seq)
				}
			}
		}
	}
	// "every increment count": k increments at once select the same proposer as k single increments
	for _, k := range c.Ks {
		if k < 1 || k >= L {
			continue
		}
		p := start.CopyIncrementProposerPriority(k).GetProposer()
		if i, ok := idx[p.Address.String()]; !ok || i != seq[k] {
			return fmt.Errorf("IncrementProposerPriority(%d) selects validator %d, %d single increments select validator %d", k, i, k, seq[k])
		}
	}
	distinctPowers := map[int64]bool{}
	for _, v := range sorted {
		distinctPowers[v.Power] = true
	}
	ctx.NTIf(len(sorted) >= 2 && len(distinctPowers) >= 2)
	ctx.Class(fmt.Sprintf("n=%d", len(sorted)))
	ctx.ClassIf(c.Warm > 0, "warm")
	ctx.ClassIf(T >= 100, "T>=100")
	return nil
}

func c37FairDraw(rt *rapid.T) c37FairCase {
	n := rapid.IntRange(1, 8).Draw(rt, "n")
	keys := rapid.Permutation([]int{0, 1, 2, 3, 4, 5, 6, 7, 8, 9, 10, 11}).Draw(rt, "keys")[:n]
	mode := rapid.SampledFrom([]string{"tiny", "small", "small", "mixed", "large"}).Draw(rt, "pmode")
	var c c37FairCase
	var T int
	for i := 0; i < n; i++ {
		var p int
		switch mode {
		case "tiny":
			p = rapid.IntRange(1, 3).Draw(rt, "p")
		case "small":
			p = rapid.IntRange(1, 10).Draw(rt, "p")
		case "mixed":
			p = rapid.SampledFrom([]int{1, 1, 2, 3, 10, 50, 97}).Draw(rt, "p")
		default:
			p = rapid.IntRange(1, 600).Draw(rt, "p")
		}
		T += p
		c.Vals = append(c.Vals, bftVal{Key: keys[i], Power: int64(p)})
	}
	c.Warm = rapid.SampledFrom([]int{0, 0, 1, 2, 3, 7, 100, 1000}).Draw(rt, "warm")
	if c.Warm >= 100 {
		c.Warm += rapid.IntRange(0, 99).Draw(rt, "warmx")
	}
	c.Extra = rapid.IntRange(0, min(2*T, 400)).Draw(rt, "extra")
	c.Ks = rapid.SliceOfN(rapid.IntRange(1, T+c.Extra), 0, 4).Draw(rt, "ks")
	return c
}

func TestC37_Fairness(t *testing.T) {
	vk.Run(t, vk.Spec[c37FairCase]{
		ID: "C37", Name: "TestC37_Fairness",
		Rule: "rapid: fresh validator sets of 1-8 keys with powers from tiny/small/mixed/large alphabets (total T <= 4800), a generated warm-up IncrementProposerPriority(w), then T+extra single increments: every sliding window of T consecutive proposers must contain each validator exactly `power` times, priorities within 3T at every step, and Increment(k) must agree with k single increments; non-trivial = at least two validators with different powers",
		Draw: c37FairDraw,
		Exec: c37FairExec,
	})
}

// ----------------------------------------------------------------- updates

type c37Op struct {
	Kind    string   `json:"kind"` // inc | update
	Times   int      `json:"times,omitempty"`
	Changes []bftVal `json:"changes,omitempty"` // power 0 = removal
}

type c37UpdCase struct {
	Init []bftVal `json:"init"`
	Ops  []c37Op  `json:"ops"`
}

const c37Max = types.MaxTotalVotingPower

func c37Snapshot(vs *types.ValidatorSet) string {
	var sb strings.Builder
	for _, v := range vs.Validators {
		fmt.Fprintf(&sb, "%v/%v/%d/%d|", v.Address, v.PubKey, v.VotingPower, v.ProposerPriority)
	}
	if vs.Proposer != nil {
		fmt.Fprintf(&sb, "proposer=%v/%d/%d", vs.Proposer.Address, vs.Proposer.VotingPower, vs.Proposer.ProposerPriority)
	}
	fmt.Fprintf(&sb, " total=%d", vs.TotalVotingPower())
	return sb.String()
}

// c37CheckShape: sorted strictly by address (hence duplicate-free), members
// and powers as in the model, cached total right, priorities within 3T.
func c37CheckShape(vs *types.ValidatorSet, model map[int]int64) error {
	var total int64
	for _, p := range model {
		total += p
	}
	if len(vs.Validators) != len(model) {
		return fmt.Errorf("set has %d validators, model %d (%v)", len(vs.Validators), len(model), model)
	}
	byAddr := map[string]int{}
	for k := range model {
		byAddr[bftAddr(k).String()] = k
	}
	for i, v := range vs.Validators {
		if i > 0 && vs.Validators[i-1].Address.Compare(v.Address) >= 0 {
			return fmt.Errorf("validators %d and %d are not in strictly increasing address order", i-1, i)
		}
		k, ok := byAddr[v.Address.String()]
		if !ok {
			return fmt.Errorf("validator %v is not in the model set", v.Address)
		}
		if v.VotingPower != model[k] {
			return fmt.Errorf("validator key %d has power %d, model %d", k, v.VotingPower, model[k])
		}
		if v.PubKey == nil || v.PubKey.Address() != v.Address {
			return fmt.Errorf("validator %d: address does not belong to its public key", i)
		}
		if idx, got := vs.GetByAddress(v.Address); idx != i || got == nil || got.VotingPower != v.VotingPower {
			return fmt.Errorf("GetByAddress of validator %d returns index %d", i, idx)
		}
		if !vs.HasAddress(v.Address) {
			return fmt.Errorf("HasAddress false for member %d", i)
		}
	}
	if vs.TotalVotingPower() != total {
		return fmt.Errorf("TotalVotingPower %d, model %d", vs.TotalVotingPower(), total)
	}
	return c37CheckSpread(vs, total)
}

type c37Pred struct {
	next                                    map[int]int64
	dup, neg, exc, unknownRm, empty, tooBig bool
	mustReject, mayReject                   bool
}

// c37Predict is the map model of UpdateWithChangeSet: which change sets must
// be rejected per its documentation, and the resulting members otherwise.
func c37Predict(model map[int]int64, chs []bftVal) c37Pred {
	var pr c37Pred
	seen := map[int]bool{}
	pr.next = map[int]int64{}
	var total int64
	for kk, p := range model {
		pr.next[kk] = p
		total += p
	}
	upperBig := big.NewInt(total)
	for _, ch := range chs {
		if seen[ch.Key] {
			pr.dup = true
		}
		seen[ch.Key] = true
		switch {
		case ch.Power < 0:
			pr.neg = true
		case ch.Power > c37Max:
			pr.exc = true
		case ch.Power == 0:
			if _, ok := model[ch.Key]; !ok {
				pr.unknownRm = true
			}
			delete(pr.next, ch.Key)
		default:
			if d := ch.Power - model[ch.Key]; d > 0 {
				upperBig.Add(upperBig, big.NewInt(d))
			}
			pr.next[ch.Key] = ch.Power
		}
	}
	finalBig := new(big.Int)
	for _, p := range pr.next {
		finalBig.Add(finalBig, big.NewInt(p))
	}
	maxBig := big.NewInt(c37Max)
	pr.tooBig = finalBig.Cmp(maxBig) > 0    // the resulting set itself is over the limit
	maybeTooBig := upperBig.Cmp(maxBig) > 0 // an intermediate sum may be over the limit (documented: total is checked before removals)
	pr.empty = len(pr.next) == 0 && len(chs) > 0
	pr.mustReject = pr.dup || pr.neg || pr.exc || pr.unknownRm || pr.empty || pr.tooBig
	pr.mayReject = pr.mustReject || maybeTooBig
	return pr
}

func c37UpdExec(ctx *vk.Ctx, c c37UpdCase) error {
	model := map[int]int64{}
	for _, v := range c.Init {
		model[v.Key] = v.Power
	}
	vs := bftValSet(c.Init)
	if err := c37CheckShape(vs, model); err != nil {
		return fmt.Errorf("fresh set: %w", err)
	}
	accepted, rejected := 0, 0
	for k, op := range c.Ops {
		switch op.Kind {
		case "inc":
			vs.IncrementProposerPriority(op.Times)
			if err := c37CheckShape(vs, model); err != nil {
				return fmt.Errorf("op %d IncrementProposerPriority(%d): %w", k, op.Times, err)
			}
			p := vs.GetProposer()
			if p == nil || !vs.HasAddress(p.Address) {
				return fmt.Errorf("op %d: proposer %v after increment is not a member", k, p)
			}
			if _, cur := vs.GetByAddress(p.Address); cur.VotingPower != p.VotingPower || cur.ProposerPriority != p.ProposerPriority {
				return fmt.Errorf("op %d: proposer copy differs from the member entry", k)
			}
		case "update":
			pr := c37Predict(model, op.Changes)
			next, dup, neg, exc, unknownRm, empty, tooBig := pr.next, pr.dup, pr.neg, pr.exc, pr.unknownRm, pr.empty, pr.tooBig
			mustReject, mayReject := pr.mustReject, pr.mayReject

			changes := make([]*types.Validator, len(op.Changes))
			for i, ch := range op.Changes {
				changes[i] = types.NewValidator(bftPub(ch.Key), ch.Power)
			}
			before := c37Snapshot(vs)
			err := vs.UpdateWithChangeSet(changes)
			for i, ch := range op.Changes {
				if changes[i].VotingPower != ch.Power || changes[i].ProposerPriority != 0 || changes[i].Address != bftAddr(ch.Key) {
					return fmt.Errorf("op %d: UpdateWithChangeSet modified its argument %d", k, i)
				}
			}
			why := fmt.Sprintf("dup=%v negative=%v excessive=%v unknown-removal=%v empty-result=%v total-over-limit=%v", dup, neg, exc, unknownRm, empty, tooBig)
			if err != nil {
				rejected++
				ctx.Class("update-rejected")
				ctx.ClassIf(dup, "rej:duplicate")
				ctx.ClassIf(neg, "rej:negative")
				ctx.ClassIf(exc, "rej:excessive-power")
				ctx.ClassIf(unknownRm, "rej:unknown-removal")
				ctx.ClassIf(empty, "rej:empty-result")
				ctx.ClassIf(tooBig, "rej:total-over-limit")
				ctx.ClassIf(!mustReject, "rej:intermediate-total-over-limit")
				if !mayReject {
					return fmt.Errorf("op %d: valid update %v rejected: %v (model %v)", k, op.Changes, err, model)
				}
				if after := c37Snapshot(vs); after != before {
					return fmt.Errorf("op %d: rejected update (%s) changed the set:\n before %s\n after  %s", k, why, before, after)
				}
			} else {
				if mustReject {
					return fmt.Errorf("op %d: update %v accepted although %s (model before %v)", k, op.Changes, why, model)
				}
				accepted++
				ctx.Class("update-accepted")
				ctx.ClassIf(len(next) < len(model), "acc:shrinks")
				ctx.ClassIf(len(next) > len(model), "acc:grows")
				model = next
			}
			if serr := c37CheckShape(vs, model); serr != nil {
				return fmt.Errorf("op %d update %v (returned %v): %w", k, op.Changes, err, serr)
			}
		}
	}
	ctx.NTIf(accepted >= 1 && rejected >= 1)
	return nil
}

var c37Powers = []int64{1, 1, 2, 3, 10, 1 << 40, c37Max / 8}

func c37DrawInit(rt *rapid.T) []bftVal {
	n := rapid.IntRange(1, 8).Draw(rt, "n")
	keys := rapid.Permutation([]int{0, 1, 2, 3, 4, 5, 6, 7, 8, 9, 10, 11}).Draw(rt, "keys")[:n]
	var out []bftVal
	sum := new(big.Int)
	for i := 0; i < n; i++ {
		p := rapid.SampledFrom(c37Powers).Draw(rt, "p")
		if new(big.Int).Add(sum, big.NewInt(p)).Cmp(big.NewInt(c37Max)) > 0 {
			p = 1
		}
		sum.Add(sum, big.NewInt(p))
		out = append(out, bftVal{Key: keys[i], Power: p})
	}
	return out
}

func c37UpdDraw(rt *rapid.T) c37UpdCase {
	c := c37UpdCase{Init: c37DrawInit(rt)}
	// the draw follows the map model so that removals and power changes mostly hit members
	model := map[int]int64{}
	for _, v := range c.Init {
		model[v.Key] = v.Power
	}
	members := func() (in, out []int) {
		for k := 0; k < 12; k++ {
			if _, ok := model[k]; ok {
				in = append(in, k)
			} else {
				out = append(out, k)
			}
		}
		return
	}
	nops := rapid.IntRange(1, 30).Draw(rt, "nops")
	for o := 0; o < nops; o++ {
		if bftPct(rt, "kind") < 35 {
			c.Ops = append(c.Ops, c37Op{Kind: "inc", Times: rapid.SampledFrom([]int{1, 1, 1, 2, 3, 5, 17, 100, 1000, 4000}).Draw(rt, "times")})
			continue
		}
		in, out := members()
		var chs []bftVal
		if bftPct(rt, "removeall") < 4 {
			for _, k := range in {
				chs = append(chs, bftVal{Key: k})
			}
			if rapid.Bool().Draw(rt, "andadd") && len(out) > 0 {
				chs = append(chs, bftVal{Key: out[0], Power: rapid.SampledFrom(c37Powers).Draw(rt, "p")})
			}
		} else {
			nch := rapid.IntRange(0, 5).Draw(rt, "nch")
			used := map[int]bool{}
			unused := func(l []int) (o []int) {
				for _, k := range l {
					if !used[k] {
						o = append(o, k)
					}
				}
				return
			}
			for x := 0; x < nch; x++ {
				var ch bftVal
				pickIn := func() int {
					l := unused(in)
					if len(l) == 0 || bftPct(rt, "stray") < 8 {
						return rapid.IntRange(0, 11).Draw(rt, "key")
					}
					return rapid.SampledFrom(l).Draw(rt, "member")
				}
				switch r := bftPct(rt, "pk"); {
				case r < 22: // removal
					ch = bftVal{Key: pickIn()}
				case r < 25:
					ch = bftVal{Key: pickIn(), Power: rapid.SampledFrom([]int64{-1, -5, math.MinInt64}).Draw(rt, "neg")}
				case r < 28:
					ch = bftVal{Key: pickIn(), Power: rapid.SampledFrom([]int64{c37Max + 1, math.MaxInt64}).Draw(rt, "exc")}
				case r < 31:
					ch = bftVal{Key: rapid.IntRange(0, 11).Draw(rt, "key"), Power: rapid.SampledFrom([]int64{c37Max, c37Max - 1, c37Max / 2}).Draw(rt, "huge")}
				case r < 55: // power change of a member
					ch = bftVal{Key: pickIn(), Power: rapid.SampledFrom(c37Powers).Draw(rt, "p")}
				default: // mostly additions
					k := rapid.IntRange(0, 11).Draw(rt, "key")
					if l := unused(out); len(l) > 0 && bftPct(rt, "fresh") < 88 {
						k = rapid.SampledFrom(l).Draw(rt, "nonmember")
					}
					ch = bftVal{Key: k, Power: rapid.SampledFrom(c37Powers).Draw(rt, "p")}
				}
				used[ch.Key] = true
				chs = append(chs, ch)
			}
		}
		c.Ops = append(c.Ops, c37Op{Kind: "update", Changes: chs})
		if pr := c37Predict(model, chs); !pr.mayReject {
			model = pr.next
		}
	}
	return c
}

func TestC37_Updates(t *testing.T) {
	vk.Run(t, vk.Spec[c37UpdCase]{
		ID: "C37", Name: "TestC37_Updates",
		Rule: "rapid: initial sets of 1-8 keys with powers from {1,2,3,10,2^40,Max/8}, then 1-30 ops: UpdateWithChangeSet with 0-5 changes over a 12-key pool (add, change power, remove, duplicates, negative, > MaxTotalVotingPower, unknown removals, remove-all, totals over the limit) interleaved with IncrementProposerPriority(times in 1..4000); a map model predicts accept/reject and the resulting members; after every op: strictly address-sorted, members/powers/total as in the model, priorities within 3T, rejected updates leave the set unchanged; non-trivial = at least one accepted and one rejected update",
		Draw: c37UpdDraw,
		Exec: c37UpdExec,
	})
}
