package bfttypes

import (
	"bytes"
	"fmt"
	"io"
	"sync"
	"sync/atomic"
	"testing"

	"github.com/gnolang/gno/tm2/pkg/bft/types"
	"pgregory.net/rapid"
	"verif/vk"
)

// C39 (concurrent arrivals) — "duplicates never corrupt the set" also has to
// hold when the same part arrives from several peers at the same moment:
// PartSet guards itself with a mutex and is shared between the gossip
// routines of the reactor. Several real goroutines deliver generated arrival
// orders (with repeats) to one set behind a start barrier. Oracle: a set model
// that is independent of the schedule — every index delivered by anybody is
// accepted exactly once, every other delivery returns (false, nil), count /
// bit array / stored parts equal the set of delivered indices, the set is
// complete exactly when every index was delivered, and a complete set reads
// back the original bytes. The schedule itself is not owned by the harness
// (real goroutines); rounds are repeated to widen the explored interleavings.
// On a PartSet whose check-and-insert is atomic no schedule can fail.

type c39ConcCase struct {
	Size     int     `json:"size"`
	PartSize int     `json:"part_size"`
	Seed     uint64  `json:"seed"`
	Orders   [][]int `json:"orders"` // per peer: part indices (mod total) in arrival order
	Rounds   int     `json:"rounds"`
}

func c39ConcDraw(rt *rapid.T) c39ConcCase {
	c := c39ConcCase{
		PartSize: rapid.SampledFrom([]int{1, 3, 64, 1024}).Draw(rt, "part_size"),
		Seed:     rapid.Uint64().Draw(rt, "seed"),
		Rounds:   rapid.IntRange(5, 40).Draw(rt, "rounds"),
	}
	total := rapid.IntRange(1, 24).Draw(rt, "total")
	c.Size = (total-1)*c.PartSize + rapid.IntRange(1, c.PartSize).Draw(rt, "last")
	peers := rapid.IntRange(2, 8).Draw(rt, "peers")
	mode := rapid.SampledFrom([]string{"same-order", "random", "hot-part"}).Draw(rt, "mode")
	var base []int
	if mode == "same-order" {
		base = rapid.Permutation(seq(total)).Draw(rt, "base")
		if rapid.Bool().Draw(rt, "holdback") && total > 1 {
			base = base[:len(base)-1]
		}
	}
	for p := 0; p < peers; p++ {
		switch mode {
		case "same-order":
			c.Orders = append(c.Orders, append([]int{}, base...))
		case "hot-part":
			hot := rapid.IntRange(0, total-1).Draw(rt, "hot")
			c.Orders = append(c.Orders, []int{hot, hot, hot})
		default:
			c.Orders = append(c.Orders, rapid.SliceOfN(rapid.IntRange(0, total-1), 1, 2*total).Draw(rt, "order"))
		}
	}
	return c
}

func seq(n int) []int {
	s := make([]int, n)
	for i := range s {
		s[i] = i
	}
	return s
}

func c39ConcExec(ctx *vk.Ctx, c c39ConcCase) error {
	data := c39Blob("random", c.Size, c.Seed, c.PartSize)
	src := types.NewPartSetFromData(append([]byte{}, data...), c.PartSize)
	total := src.Total()
	delivered := map[int]bool{}
	overlap := false
	seen := map[int]int{}
	for p, o := range c.Orders {
		for _, i := range o {
			i %= total
			delivered[i] = true
			if q, ok := seen[i]; ok && q != p {
				overlap = true
			}
			seen[i] = p
		}
	}
	ctx.Class(fmt.Sprintf("peers=%d", len(c.Orders)))
	ctx.ClassIf(overlap, "same-part-from-two-peers")
	ctx.ClassIf(len(delivered) == total, "all-delivered")
	ctx.NTIf(overlap && total >= 1)
	for r := 0; r < c.Rounds; r++ {
		ps := types.NewPartSetFromHeader(src.Header())
		accepted := make([]int32, total)
		var errMu sync.Mutex
		var firstErr error
		start := make(chan struct{})
		var wg sync.WaitGroup
		for _, o := range c.Orders {
			wg.Add(1)
			go func(o []int) {
				defer wg.Done()
				parts := make([]*types.Part, len(o))
				for k, i := range o {
					parts[k] = c39ClonePart(src.GetPart(i % total))
				}
				<-start
				for _, p := range parts {
					ok, err := ps.AddPart(p)
					if err != nil {
						errMu.Lock()
						if firstErr == nil {
							firstErr = fmt.Errorf("round %d: AddPart(valid part %d) returned error %v", r, p.Index, err)
						}
						errMu.Unlock()
					}
					if ok {
						atomic.AddInt32(&accepted[p.Index], 1)
					}
				}
			}(o)
		}
		close(start)
		wg.Wait()
		if firstErr != nil {
			return firstErr
		}
		for i := 0; i < total; i++ {
			want := int32(0)
			if delivered[i] {
				want = 1
			}
			if accepted[i] != want {
				return fmt.Errorf("round %d: part %d of %d delivered concurrently by several peers was accepted %d times, want %d", r, i, total, accepted[i], want)
			}
			if got := ps.GetPart(i) != nil; got != delivered[i] {
				return fmt.Errorf("round %d: part %d stored=%v, delivered=%v", r, i, got, delivered[i])
			}
			if got := ps.BitArray().GetIndex(i); got != delivered[i] {
				return fmt.Errorf("round %d: bit %d = %v, delivered=%v", r, i, got, delivered[i])
			}
		}
		if ps.Count() != len(delivered) {
			return fmt.Errorf("round %d: Count()=%d after %d distinct parts were delivered (total %d)", r, ps.Count(), len(delivered), total)
		}
		if ps.IsComplete() != (len(delivered) == total) {
			return fmt.Errorf("round %d: IsComplete()=%v with %d of %d distinct parts delivered", r, ps.IsComplete(), len(delivered), total)
		}
		if ps.IsComplete() {
			got, err := io.ReadAll(ps.GetReader())
			if err != nil || !bytes.Equal(got, data) {
				return fmt.Errorf("round %d: complete set reads back %d bytes (err %v), want the original %d bytes", r, len(got), err, len(data))
			}
		}
	}
	return nil
}

func TestC39_Concurrent(t *testing.T) {
	vk.Run(t, vk.Spec[c39ConcCase]{
		ID: "C39", Name: "TestC39_Concurrent",
		Rule: "rapid: 2-8 real goroutines deliver generated arrival orders (same order for all / independent random orders with repeats / one hot part three times each) of valid parts of a 1-24 part set to one PartSet behind a start barrier, 5-40 rounds per case; schedule-independent set model (each delivered index accepted exactly once, count / bit array / stored parts / completeness, read-back); non-trivial = some part is delivered by two different peers",
		Draw: c39ConcDraw,
		Exec: c39ConcExec,
	})
}
