// Package bfttypes holds the generated checks for tm2/pkg/bft/types:
// C35 (vote sets), C36 (commit verification), C37 (proposer selection and
// validator-set updates) and C39 (block part sets).
package bfttypes

import (
	"crypto/sha256"
	"fmt"
	"pgregory.net/rapid"
	"sort"
	"sync"
	"time"

	"github.com/gnolang/gno/tm2/pkg/bft/types"
	"github.com/gnolang/gno/tm2/pkg/crypto"
	"github.com/gnolang/gno/tm2/pkg/crypto/ed25519"
)

// A small pool of real ed25519 keys, derived deterministically from fixed
// secrets. Cases refer to keys by their pool index.
const bftPoolSize = 16

var (
	bftPoolOnce sync.Once
	bftPool     []ed25519.PrivKeyEd25519
)

func bftKeys() []ed25519.PrivKeyEd25519 {
	bftPoolOnce.Do(func() {
		for i := 0; i < bftPoolSize; i++ {
			bftPool = append(bftPool, ed25519.GenPrivKeyFromSecret([]byte(fmt.Sprintf("verif-bfttypes-key-%02d", i))))
		}
	})
	return bftPool
}

func bftPub(k int) crypto.PubKey   { return bftKeys()[k].PubKey() }
func bftAddr(k int) crypto.Address { return bftKeys()[k].PubKey().Address() }

// bftBlockID returns the k-th block id of the small alphabet used by the
// vote/commit checks: 0 is the nil block, k >= 1 a complete block id. Ids 5
// and 6 have the block hash of id 1 but another parts header (total / hash).
func bftBlockID(k int) types.BlockID {
	if k == 0 {
		return types.BlockID{}
	}
	if k == 5 || k == 6 {
		id := bftBlockID(1)
		if k == 5 {
			id.PartsHeader.Total = 2
		} else {
			p := sha256.Sum256([]byte("verif-parts-6"))
			id.PartsHeader.Hash = p[:]
		}
		return id
	}
	h := sha256.Sum256([]byte(fmt.Sprintf("verif-block-%d", k)))
	p := sha256.Sum256([]byte(fmt.Sprintf("verif-parts-%d", k)))
	return types.BlockID{Hash: h[:], PartsHeader: types.PartSetHeader{Total: k, Hash: p[:]}}
}

func bftTime(ts int) time.Time {
	return time.Unix(1_700_000_000+int64(ts), 0).UTC()
}

// bftSign signs the vote with pool key k for the given chain id (real
// ed25519 signature over the canonical sign bytes).
func bftSign(k int, chainID string, v *types.Vote) {
	sig, err := bftKeys()[k].Sign(v.SignBytes(chainID))
	if err != nil {
		panic(err)
	}
	v.Signature = sig
}

type bftVal struct {
	Key   int   `json:"key"`
	Power int64 `json:"power"`
}

// bftSortedKeys returns the keys of vals ordered by validator address, which
// is the index order of a types.ValidatorSet.
func bftSortedKeys(vals []bftVal) []bftVal {
	out := append([]bftVal{}, vals...)
	sort.Slice(out, func(i, j int) bool { return bftAddr(out[i].Key).Compare(bftAddr(out[j].Key)) < 0 })
	return out
}

func bftValSet(vals []bftVal) *types.ValidatorSet {
	vs := make([]*types.Validator, len(vals))
	for i, v := range vals {
		vs[i] = types.NewValidator(bftPub(v.Key), v.Power)
	}
	return types.NewValidatorSet(vs)
}

func bftFlipBit(b []byte, pos int) []byte {
	out := append([]byte{}, b...)
	if len(out) == 0 {
		return out
	}
	pos %= len(out) * 8
	if pos < 0 {
		pos += len(out) * 8
	}
	out[pos/8] ^= 1 << uint(pos%8)
	return out
}

// bftPct draws a roughly uniform value in 0..99. rapid's integer generators
// favour small values (uniform in bit length); weighted choices that need
// real proportions are built from unbiased boolean draws instead.
func bftPct(rt *rapid.T, label string) int {
	v := 0
	for i := 0; i < 10; i++ {
		v <<= 1
		if rapid.Bool().Draw(rt, label) {
			v |= 1
		}
	}
	return v * 100 / 1024
}
