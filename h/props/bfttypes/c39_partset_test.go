package bfttypes

import (
	"bytes"
	"crypto/sha256"
	"fmt"
	"io"
	"testing"

	"github.com/gnolang/gno/tm2/pkg/amino"
	"github.com/gnolang/gno/tm2/pkg/bft/types"
	"github.com/gnolang/gno/tm2/pkg/crypto/merkle"
	"pgregory.net/rapid"
	"verif/vk"
)

// C39 — block part sets reassemble exactly the proposed block.
//
// Oracles: (1) the data itself (parts are consecutive slices, reassembly must
// give the same bytes, a real block must decode to the same block hash);
// (2) an own implementation of the RFC-6962-style simple Merkle tree for the
// root hash and for deciding whether a (possibly tampered) part really proves
// membership under the header; (3) a set model for count / bit array.

type c39Op struct {
	Kind  string `json:"kind"`  // good | oor | neg | flipbyte | flipleaf | flipaunt | dropaunt | addaunt | wrongindex | moveboth | prooftotal | foreign | truncate | extend
	Index int    `json:"index"` // part index the op starts from (mod total)
	Aux   int    `json:"aux,omitempty"`
}

type c39Case struct {
	Source   string  `json:"source"` // blob | block
	Content  string  `json:"content,omitempty"`
	Size     int     `json:"size"`
	Seed     uint64  `json:"seed"`
	PartSize int     `json:"part_size"`
	Ops      []c39Op `json:"ops"`
	Chunk    int     `json:"chunk"` // read buffer size used for reassembly
}

// ---- own Merkle reference

func c39Leaf(b []byte) []byte {
	h := sha256.New()
	h.Write([]byte{0})
	h.Write(b)
	return h.Sum(nil)
}

func c39Inner(l, r []byte) []byte {
	h := sha256.New()
	h.Write([]byte{1})
	h.Write(l)
	h.Write(r)
	return h.Sum(nil)
}

func c39Split(n int) int { // largest power of two strictly below n
	k := 1
	for k*2 < n {
		k *= 2
	}
	return k
}

func c39Root(leaves [][]byte) []byte {
	switch len(leaves) {
	case 0:
		return nil
	case 1:
		return leaves[0]
	}
	k := c39Split(len(leaves))
	return c39Inner(c39Root(leaves[:k]), c39Root(leaves[k:]))
}

// c39Path returns the audit path of leaf i bottom-up.
func c39Path(leaves [][]byte, i int) [][]byte {
	if len(leaves) <= 1 {
		return nil
	}
	k := c39Split(len(leaves))
	if i < k {
		return append(c39Path(leaves[:k], i), c39Root(leaves[k:]))
	}
	return append(c39Path(leaves[k:], i-k), c39Root(leaves[:k]))
}

// c39Proves: does (index, total, leafHash, aunts) hash up to root in a tree of `total` leaves?
func c39Proves(root []byte, index, total int, leafHash []byte, aunts [][]byte) bool {
	var up func(i, n int, a [][]byte) []byte
	up = func(i, n int, a [][]byte) []byte {
		if n == 1 {
			if len(a) != 0 {
				return nil
			}
			return leafHash
		}
		if len(a) == 0 {
			return nil
		}
		k := c39Split(n)
		if i < k {
			l := up(i, k, a[:len(a)-1])
			if l == nil {
				return nil
			}
			return c39Inner(l, a[len(a)-1])
		}
		r := up(i-k, n-k, a[:len(a)-1])
		if r == nil {
			return nil
		}
		return c39Inner(a[len(a)-1], r)
	}
	if total <= 0 || index < 0 || index >= total {
		return false
	}
	got := up(index, total, aunts)
	return got != nil && bytes.Equal(got, root)
}

// ---- data

func c39Blob(content string, size int, seed uint64, partSize int) []byte {
	out := make([]byte, size)
	switch content {
	case "zeros":
	case "repeat": // every full part has identical content
		for i := range out {
			out[i] = byte(seed>>uint(8*(i%partSize%8))) ^ byte(i%partSize)
		}
	default:
		x := seed | 1
		for i := range out {
			x ^= x << 13
			x ^= x >> 7
			x ^= x << 17
			out[i] = byte(x >> 24)
		}
	}
	return out
}

func c39Block(size int, seed uint64) *types.Block {
	var txs []types.Tx
	rem := size
	x := seed
	for k := 0; rem > 0; k++ {
		l := min(rem, 1+int((x>>8)%2000))
		txs = append(txs, types.Tx(c39Blob("random", l, x+uint64(k), 1)))
		rem -= l
		x = x*6364136223846793005 + 1442695040888963407
	}
	var sigs []*types.CommitSig
	nsig := int(seed % 4)
	for i := 0; i < nsig; i++ {
		v := &types.Vote{Type: types.PrecommitType, Height: 6, Round: 1, BlockID: bftBlockID(1), Timestamp: bftTime(i), ValidatorAddress: bftAddr(i), ValidatorIndex: i, Signature: c39Blob("random", 64, seed+uint64(i), 1)}
		if i == 2 {
			sigs = append(sigs, nil)
			continue
		}
		sigs = append(sigs, v.CommitSig())
	}
	lastID := types.BlockID{}
	if nsig > 0 {
		lastID = bftBlockID(1)
	}
	b := types.MakeBlock(7, txs, types.NewCommit(lastID, sigs))
	h := func(s string) []byte { x := sha256.Sum256([]byte(s)); return x[:] }
	b.Header.Populate("verif-c39", bftTime(int(seed%1000)), lastID, int64(len(txs))+int64(seed%50), "v1",
		h("vals"), h("nextvals"), h("cons"), h("app"), h("results"), bftAddr(int(seed%8)))
	return b
}

func c39ClonePart(p *types.Part) *types.Part {
	q := &types.Part{Index: p.Index, Bytes: append([]byte{}, p.Bytes...)}
	q.Proof.Total = p.Proof.Total
	q.Proof.Index = p.Proof.Index
	q.Proof.LeafHash = append([]byte{}, p.Proof.LeafHash...)
	for _, a := range p.Proof.Aunts {
		q.Proof.Aunts = append(q.Proof.Aunts, append([]byte{}, a...))
	}
	return q
}

func c39Exec(ctx *vk.Ctx, c c39Case) error {
	var data []byte
	var block *types.Block
	var blockHash []byte
	var src *types.PartSet
	if c.Source == "block" {
		block = c39Block(c.Size, c.Seed)
		blockHash = block.Hash()
		if len(blockHash) == 0 {
			return fmt.Errorf("generated block has no hash")
		}
		src = block.MakePartSet(c.PartSize)
		var err error
		data, err = amino.MarshalSized(block)
		if err != nil {
			return fmt.Errorf("MarshalSized: %v", err)
		}
	} else {
		data = c39Blob(c.Content, c.Size, c.Seed, c.PartSize)
		src = types.NewPartSetFromData(append([]byte{}, data...), c.PartSize)
	}
	ctx.Class("source=" + c.Source)
	total := (len(data) + c.PartSize - 1) / c.PartSize
	ctx.Class(fmt.Sprintf("parts~2^%d", bitLen(total)))

	// 1. splitting: consecutive slices, own Merkle root, complete source set
	if src.Total() != total || src.Count() != total || !src.IsComplete() {
		return fmt.Errorf("split of %d bytes by %d: total=%d count=%d complete=%v, want %d parts", len(data), c.PartSize, src.Total(), src.Count(), src.IsComplete(), total)
	}
	leaves := make([][]byte, total)
	good := make([]*types.Part, total)
	for i := 0; i < total; i++ {
		p := src.GetPart(i)
		want := data[i*c.PartSize : min(len(data), (i+1)*c.PartSize)]
		if p == nil || p.Index != i || !bytes.Equal(p.Bytes, want) {
			return fmt.Errorf("part %d of the split does not carry bytes [%d:%d) of the data", i, i*c.PartSize, i*c.PartSize+len(want))
		}
		if err := p.ValidateBasic(); err != nil {
			return fmt.Errorf("part %d of the split fails ValidateBasic: %v", i, err)
		}
		leaves[i] = c39Leaf(want)
		good[i] = p
	}
	root := c39Root(leaves)
	hdr := src.Header()
	if hdr.Total != total || !bytes.Equal(hdr.Hash, root) || !bytes.Equal(src.Hash(), root) || !src.HashesTo(root) {
		return fmt.Errorf("part-set header %v: own Merkle root over the %d parts is %X", hdr, total, root)
	}
	for i := 0; i < total; i++ {
		p := good[i]
		if p.Proof.Index != i || p.Proof.Total != total || !bytes.Equal(p.Proof.LeafHash, leaves[i]) {
			return fmt.Errorf("part %d proof header index=%d total=%d", i, p.Proof.Index, p.Proof.Total)
		}
		path := c39Path(leaves, i)
		if len(path) != len(p.Proof.Aunts) {
			return fmt.Errorf("part %d proof has %d aunts, own audit path %d", i, len(p.Proof.Aunts), len(path))
		}
		for k := range path {
			if !bytes.Equal(path[k], p.Proof.Aunts[k]) {
				return fmt.Errorf("part %d proof aunt %d differs from own audit path", i, k)
			}
		}
	}

	// a second, unrelated set of the same shape (source of foreign parts)
	var foreign *types.PartSet

	// 2. receiving
	dst := types.NewPartSetFromHeader(types.PartSetHeader{Total: hdr.Total, Hash: append([]byte{}, hdr.Hash...)})
	if !dst.HasHeader(hdr) || dst.Count() != 0 || (total > 0 && dst.IsComplete()) {
		return fmt.Errorf("fresh set from header: count=%d complete=%v", dst.Count(), dst.IsComplete())
	}
	have := make([]bool, total)
	stored := make([][]byte, total)
	count := 0
	sawBad, sawDup := false, false
	check := func(when string) error {
		if dst.Count() != count {
			return fmt.Errorf("%s: Count=%d, model %d", when, dst.Count(), count)
		}
		if dst.IsComplete() != (count == total) {
			return fmt.Errorf("%s: IsComplete=%v with %d of %d parts", when, dst.IsComplete(), count, total)
		}
		ba := dst.BitArray()
		for i := 0; i < total; i++ {
			if ba.GetIndex(i) != have[i] {
				return fmt.Errorf("%s: BitArray[%d]=%v, model %v", when, i, ba.GetIndex(i), have[i])
			}
			p := dst.GetPart(i)
			if (p != nil) != have[i] {
				return fmt.Errorf("%s: GetPart(%d) present=%v, model %v", when, i, p != nil, have[i])
			}
			if p != nil && (p.Index != i || !bytes.Equal(p.Bytes, stored[i])) {
				return fmt.Errorf("%s: stored part %d changed", when, i)
			}
		}
		if dst.Total() != total || !bytes.Equal(dst.Hash(), root) {
			return fmt.Errorf("%s: header of the set changed", when)
		}
		return nil
	}
	for k, op := range c.Ops {
		i := 0
		if total > 0 {
			i = op.Index % total
		}
		p := c39ClonePart(good[i])
		switch op.Kind {
		case "good":
		case "oor":
			p.Index = total + op.Aux%3
			if op.Aux%2 == 1 {
				p.Proof.Index = p.Index
			}
		case "neg":
			p.Index = -1 - op.Aux%3
		case "flipbyte":
			p.Bytes = bftFlipBit(p.Bytes, op.Aux)
		case "flipleaf":
			p.Proof.LeafHash = bftFlipBit(p.Proof.LeafHash, op.Aux)
		case "flipaunt":
			if len(p.Proof.Aunts) > 0 {
				a := op.Aux % len(p.Proof.Aunts)
				p.Proof.Aunts[a] = bftFlipBit(p.Proof.Aunts[a], op.Aux/8)
			}
		case "dropaunt":
			if len(p.Proof.Aunts) > 0 {
				p.Proof.Aunts = p.Proof.Aunts[:len(p.Proof.Aunts)-1]
			}
		case "addaunt":
			p.Proof.Aunts = append(p.Proof.Aunts, c39Leaf([]byte{byte(op.Aux)}))
		case "wrongindex": // the part claims another slot, its proof still speaks of slot i
			p.Index = (i + 1 + op.Aux%max(total-1, 1)) % total
		case "moveboth": // part and proof both claim another slot
			p.Index = (i + 1 + op.Aux%max(total-1, 1)) % total
			p.Proof.Index = p.Index
		case "prooftotal":
			p.Proof.Total = total + 1 + op.Aux%2
			if op.Aux%3 == 0 && total > 1 {
				p.Proof.Total = total - 1
			}
		case "foreign":
			if foreign == nil {
				other := c39Blob("random", len(data), c.Seed+0x9e3779b97f4a7c15, c.PartSize)
				foreign = types.NewPartSetFromData(other, c.PartSize)
			}
			p = c39ClonePart(foreign.GetPart(i))
		case "truncate":
			p.Bytes = p.Bytes[:len(p.Bytes)-1]
		case "extend":
			p.Bytes = append(p.Bytes, byte(op.Aux))
		default:
			panic("unknown op " + op.Kind)
		}
		ctx.Class("op=" + op.Kind)
		if p.Index < 0 {
			// negative indices are rejected by Part.ValidateBasic, which every receiver runs first
			if p.ValidateBasic() == nil {
				return fmt.Errorf("op %d: Part.ValidateBasic accepts index %d", k, p.Index)
			}
			continue
		}
		// reference verdict for a slot that is still empty
		matches := p.Index < total && p.Proof.Index == p.Index && p.Proof.Total == total &&
			bytes.Equal(p.Proof.LeafHash, c39Leaf(p.Bytes)) &&
			c39Proves(root, p.Index, total, p.Proof.LeafHash, p.Proof.Aunts)
		if matches && !bytes.Equal(p.Bytes, good[p.Index].Bytes) {
			return fmt.Errorf("op %d: reference accepts a part with foreign content (hash collision?)", k)
		}
		added, err := dst.AddPart(p)
		when := fmt.Sprintf("op %d %+v (part index %d, proof index %d/total %d)", k, op, p.Index, p.Proof.Index, p.Proof.Total)
		switch {
		case p.Index >= total:
			if added || err == nil {
				return fmt.Errorf("%s: out-of-range part: added=%v err=%v", when, added, err)
			}
			sawBad = true
		case have[p.Index]:
			if added {
				return fmt.Errorf("%s: slot already filled but added=true", when)
			}
			sawDup = true
			ctx.ClassIf(!matches, "bad-part-for-filled-slot")
		case matches:
			if !added || err != nil {
				return fmt.Errorf("%s: matching part rejected: added=%v err=%v", when, added, err)
			}
			have[p.Index] = true
			stored[p.Index] = append([]byte{}, p.Bytes...)
			count++
			ctx.ClassIf(op.Kind != "good", "tampered-but-still-matching")
		default:
			if added || err == nil {
				return fmt.Errorf("%s: part that does not match the header was accepted: added=%v err=%v", when, added, err)
			}
			sawBad = true
		}
		if err := check(when); err != nil {
			return err
		}
	}
	// 3. complete the set in index order and reassemble
	for i := 0; i < total; i++ {
		if have[i] {
			continue
		}
		added, err := dst.AddPart(c39ClonePart(good[i]))
		if !added || err != nil {
			return fmt.Errorf("completing: good part %d rejected: added=%v err=%v", i, added, err)
		}
		have[i] = true
		stored[i] = good[i].Bytes
		count++
	}
	if err := check("after completion"); err != nil {
		return err
	}
	if total == 0 {
		ctx.Class("empty-data")
		return nil // no block is empty; GetReader is not defined for a set without parts
	}
	rd := dst.GetReader()
	var got []byte
	buf := make([]byte, c.Chunk)
	for idle := 0; ; {
		n, err := rd.Read(buf)
		got = append(got, buf[:n]...)
		if err == io.EOF {
			break
		}
		if err != nil {
			return fmt.Errorf("reader: %v", err)
		}
		if n == 0 {
			if idle++; idle > 3 {
				return fmt.Errorf("reader makes no progress after %d of %d bytes", len(got), len(data))
			}
		}
		if len(got) > len(data) {
			return fmt.Errorf("reader returns more than the %d bytes of data", len(data))
		}
	}
	if !bytes.Equal(got, data) {
		return fmt.Errorf("reassembled %d bytes differ from the %d original bytes (read buffer %d)", len(got), len(data), c.Chunk)
	}
	if block != nil {
		var b2 *types.Block
		if _, err := amino.UnmarshalSizedReader(dst.GetReader(), &b2, 0); err != nil {
			return fmt.Errorf("decoding the reassembled block: %v", err)
		}
		if !bytes.Equal(b2.Hash(), blockHash) || !b2.HashesTo(blockHash) {
			return fmt.Errorf("reassembled block hash %X, proposed %X", b2.Hash(), blockHash)
		}
		bz, err := amino.MarshalSized(b2)
		if err != nil || !bytes.Equal(bz, data) {
			return fmt.Errorf("reassembled block re-encodes differently (err %v)", err)
		}
		if h2 := b2.MakePartSet(c.PartSize).Header(); !h2.Equals(hdr) {
			return fmt.Errorf("reassembled block splits to header %v, proposed %v", h2, hdr)
		}
	}
	// library-level cross-check of the root
	if !bytes.Equal(merkle.SimpleHashFromByteSlices(c39Bytes(good)), root) {
		return fmt.Errorf("SimpleHashFromByteSlices differs from own root")
	}
	ctx.NTIf(total >= 2 && (sawBad || sawDup))
	ctx.ClassIf(sawBad, "saw-rejected-part")
	ctx.ClassIf(sawDup, "saw-duplicate")
	return nil
}

func c39Bytes(ps []*types.Part) [][]byte {
	out := make([][]byte, len(ps))
	for i, p := range ps {
		out[i] = p.Bytes
	}
	return out
}

func bitLen(n int) int {
	b := 0
	for n > 0 {
		b++
		n >>= 1
	}
	return b
}

var c39BadKinds = []string{"oor", "neg", "flipbyte", "flipleaf", "flipaunt", "dropaunt", "addaunt", "wrongindex", "moveboth", "prooftotal", "foreign", "truncate", "extend"}

func c39Draw(rt *rapid.T) c39Case {
	var c c39Case
	c.Source = "blob"
	if bftPct(rt, "source") < 25 {
		c.Source = "block"
	}
	c.Seed = rapid.Uint64().Draw(rt, "seed")
	pick := func(label string, l []int) int { return l[bftPct(rt, label)*len(l)/100] }
	c.PartSize = pick("partsize", []int{1, 2, 3, 7, 64, 1024, 4096, 65536})
	maxParts := pick("maxparts", []int{1, 2, 3, 4, 5, 8, 9, 16, 17, 40, 130})
	if c.Source == "block" {
		// an encoded block has a few hundred bytes of header: keep the number of parts bounded
		if c.PartSize < 64 {
			c.PartSize = rapid.SampledFrom([]int{64, 256, 1024}).Draw(rt, "blockpartsize")
		}
		c.Size = rapid.IntRange(0, min(c.PartSize*maxParts, 200_000)).Draw(rt, "txbytes")
	} else {
		c.Content = rapid.SampledFrom([]string{"random", "random", "zeros", "repeat"}).Draw(rt, "content")
		hi := min(c.PartSize*maxParts, 200_000)
		switch bftPct(rt, "sizekind") / 25 {
		case 0: // a whole number of parts
			c.Size = c.PartSize * max(hi/c.PartSize-rapid.IntRange(0, max(hi/c.PartSize-1, 0)).Draw(rt, "nparts"), 1)
		case 1: // one byte over / under a part boundary
			c.Size = max(1, c.PartSize*max(hi/c.PartSize-rapid.IntRange(0, max(hi/c.PartSize-1, 0)).Draw(rt, "nparts"), 1)+rapid.SampledFrom([]int{-1, 1}).Draw(rt, "off"))
		default:
			c.Size = hi - rapid.IntRange(0, hi-1).Draw(rt, "size")
		}
	}
	opGen := rapid.Custom(func(rt *rapid.T) c39Op {
		op := c39Op{Kind: "good", Index: rapid.IntRange(0, 1<<16).Draw(rt, "index")}
		if bftPct(rt, "bad") < 35 {
			op.Kind = rapid.SampledFrom(c39BadKinds).Draw(rt, "kind")
			op.Aux = rapid.IntRange(0, 1<<20).Draw(rt, "aux")
		}
		return op
	})
	c.Ops = rapid.SliceOfN(opGen, 0, 60).Draw(rt, "ops")
	c.Chunk = rapid.SampledFrom([]int{1, 2, 7, 64, 1000, 4096, 65536, 100_000}).Draw(rt, "chunk")
	if c.Size > 20_000 && c.Chunk < 64 {
		c.Chunk = 4096
	}
	return c
}

func TestC39_PartSet(t *testing.T) {
	vk.Run(t, vk.Spec[c39Case]{
		ID: "C39", Name: "TestC39_PartSet",
		Rule: "rapid: blobs (random / all-zero / every part identical) of 1 B - 200 KB and real amino-encoded blocks (generated txs, last commit, populated header), part size in {1,2,3,7,64,1024,4096,65536}, sizes on / one off a part boundary, up to 60 arrivals in generated order: good parts (repeats = duplicates) and tampered parts (out-of-range or negative index, flipped content / leaf hash / aunt, dropped or extra aunt, part index moved with or without its proof index, wrong proof total, part of another set, truncated / extended content); then completion, reassembly through the reader with a generated buffer size and, for blocks, decoding and re-hashing; non-trivial = at least 2 parts and at least one rejected part or duplicate",
		Draw: c39Draw,
		Exec: c39Exec,
	})
}
